import ObiVerif.Model.Kseq
set_option Elab.async false
/-!
# Index-level transcription of kseq.h (C17)

`Model/Kseq.lean` abstracts the kstream buffer `buf[begin .. end)` by the list of its unread bytes.  This
file transcribes `pkg/obiformats/kseq/kseq.h` (`ks_getc`, `ks_getuntil`, `kseq_read`),
`fastseq_read.c` (`next_fast_sek`) and the loop of `_FastseqReader` (fastseq_read.go) **at the level of the
C fields**: the `__bufsize`-byte `malloc`'ed buffer `buf` (initial content arbitrary: uninitialised memory),
the `int` fields `begin`, `end` (−1 after a failed `gzread`), `is_eof`, and the results of the `gzread` calls to
come (`Kseq.Rd`, as produced by `Kseq.reads`).  A short `gzread` overwrites a prefix of the buffer only: the
rest keeps its stale bytes.

`Lemmas/KseqIdx.lean` proves that this transcription is equal, through the abstraction
`buf[begin .. end) ↦ cur`, to the list model (`readAllI_eq`), so that every theorem about the list model holds
of the transcription (`Props/C17Kseq.lean`).
-/
namespace ObiVerif.KseqIdx
open ObiVerif.Kseq (Bytes Rd Fin Rec Outcome isSpace isGraph nextSize)

/-- `kstream_t`: `char *buf; int begin, end, is_eof;` + the `gzread` results to come (`type_t f`) -/
structure IKS where
  buf : Array UInt8
  begin : Int
  end_ : Int
  isEof : Bool
  next : List Rd

/-- `(unsigned char)ks->buf[i]`.  Every use is in bounds (`0 ≤ i < __bufsize`): `InvI` in `Lemmas/KseqIdx.lean` -/
def rd (buf : Array UInt8) (i : Int) : UInt8 := buf.getD i.toNat 0

/-- what a `gzread` that delivers the bytes `b` does to the buffer: `buf[0 .. b.length)` is overwritten, the
rest of the buffer keeps its (stale) content -/
def store (buf : Array UInt8) (b : Bytes) : Array UInt8 := (b ++ buf.toList.drop b.length).toArray

/-- `__read(ks->f, ks->buf, __bufsize)` = `gzread`: the new buffer, the value returned, the calls to come.
A full read returns the number of bytes it delivers (= `__bufsize` for the lists `Kseq.reads` makes), a short
one `0 ≤ n < __bufsize`, a failed one −1 and leaves the buffer alone; once the list is exhausted the stream is at
its end (0 bytes), as in `Kseq.getc` -/
def gzreadI (buf : Array UInt8) : List Rd → Array UInt8 × Int × List Rd
  | [] => (buf, 0, [])
  | .full c r :: rest => (store buf (c :: r), ((c :: r).length : Int), rest)
  | .short b :: rest => (store buf b, (b.length : Int), rest)
  | .fail :: rest => (buf, -1, rest)

/-- kseq.h:72-74 and 102-104
`ks->begin = 0; ks->end = __read(ks->f, ks->buf, __bufsize); if (ks->end < __bufsize) ks->is_eof = 1;` -/
def fill (bufsz : Nat) (s : IKS) : IKS :=
  let r := gzreadI s.buf s.next
  { buf := r.1, begin := 0, end_ := r.2.1,
    isEof := if r.2.1 < (bufsz : Int) then true else s.isEof,
    next := r.2.2 }

/-- `ks_getc` (kseq.h:68-78); `none` = −1.
```
if (ks->is_eof && ks->begin >= ks->end) return -1;
if (ks->begin >= ks->end) {
    ks->begin = 0; ks->end = __read(...); if (ks->end < __bufsize) ks->is_eof = 1;
    if (ks->end == 0) return -1;
}
return (int)(unsigned char)ks->buf[ks->begin++];
```
After a failed read `end = -1 ≠ 0`: `buf[0]` is returned and `begin` becomes 1. -/
def getcI (bufsz : Nat) (s : IKS) : Option UInt8 × IKS :=
  if s.isEof && decide (s.begin ≥ s.end_) then (none, s) else
  if s.begin ≥ s.end_ then
    let s1 := fill bufsz s
    if s1.end_ == 0 then (none, s1)
    else (some (rd s1.buf s1.begin), { s1 with begin := s1.begin + 1 })
  else (some (rd s.buf s.begin), { s with begin := s.begin + 1 })

/-- termination measure: `end - begin` bytes in the buffer + what the reads to come can deliver -/
def sizeI (s : IKS) : Nat := (s.end_ - s.begin).toNat + nextSize s.next

theorem getcI_lt {bufsz : Nat} {s s' : IKS} {c : UInt8} (h : getcI bufsz s = (some c, s')) :
    sizeI s' < sizeI s := by
  unfold getcI at h
  split at h
  · simp at h
  · split at h
    · rename_i hge
      simp only at h
      split at h
      · simp at h
      · simp only [Prod.mk.injEq] at h
        obtain ⟨_, rfl⟩ := h
        obtain ⟨buf, b, e, eof, next⟩ := s
        simp only at hge
        cases next with
        | nil => simp [fill, gzreadI] at *
        | cons r rest =>
          cases r with
          | full c r =>
            simp only [sizeI, fill, gzreadI, nextSize, Kseq.rdSize, List.length_cons]
            omega
          | short bb =>
            simp only [sizeI, fill, gzreadI, nextSize, Kseq.rdSize]
            rename_i hne
            simp only [fill, gzreadI] at hne
            omega
          | fail =>
            simp only [sizeI, fill, gzreadI, nextSize, Kseq.rdSize]
            omega
    · rename_i hlt
      simp only [Prod.mk.injEq] at h
      obtain ⟨_, rfl⟩ := h
      simp only [sizeI]
      omega

/-! ## `ks_getuntil` -/

/-- kseq.h:109-116 `for (i = ks->begin; i < ks->end; ++i) if (isSep(ks->buf[i])) break;` from `i` on -/
def scan (isSep : UInt8 → Bool) (buf : Array UInt8) (end_ : Int) (i : Int) : Int :=
  if i < end_ then (if isSep (rd buf i) then i else scan isSep buf end_ (i + 1)) else i
termination_by (end_ - i).toNat
decreasing_by omega

/-- the source of `memcpy(str->s + str->l, ks->buf + ks->begin, n)` -/
def bytesAt (buf : Array UInt8) (off n : Int) : Bytes := (buf.toList.drop off.toNat).take n.toNat

/-- the head of one turn of the `for (;;)` of `ks_getuntil` (kseq.h:100-107); `true` = `break`
```
if (ks->begin >= ks->end) {
    if (!ks->is_eof) {
        ks->begin = 0; ks->end = __read(...); if (ks->end < __bufsize) ks->is_eof = 1;
        if (ks->end == 0) break;
    } else break;
}
``` -/
def guTop (bufsz : Nat) (s : IKS) : Bool × IKS :=
  if s.begin ≥ s.end_ then
    if !s.isEof then
      let s1 := fill bufsz s
      if s1.end_ == 0 then (true, s1) else (false, s1)
    else (true, s)
  else (false, s)

theorem guTop_false {bufsz : Nat} {s s1 : IKS} (h : guTop bufsz s = (false, s1)) :
    (s.begin < s.end_ ∧ s1 = s) ∨
    (s.end_ ≤ s.begin ∧ s.isEof = false ∧ s1 = fill bufsz s ∧ s1.end_ ≠ 0 ∧ s1.next.length < s.next.length) := by
  unfold guTop at h
  split at h
  · rename_i hge
    split at h
    · rename_i he
      simp only at h
      split at h
      · simp at h
      · rename_i hne
        simp only [Prod.mk.injEq, true_and] at h
        subst h
        refine Or.inr ⟨hge, by simpa using he, rfl, by simpa using hne, ?_⟩
        obtain ⟨buf, b, e, eof, next⟩ := s
        cases next with
        | nil => simp [fill, gzreadI] at hne
        | cons r rest => cases r <;> simp [fill, gzreadI]
    · simp at h
  · rename_i hlt
    simp only [Prod.mk.injEq, true_and] at h
    exact Or.inl ⟨by omega, h.symm⟩

/-- the `for (;;)` loop of `ks_getuntil` (kseq.h:98-130): string so far, `*dret` (0 = no delimiter met), state
```
for (;;) {
    int i;
    <guTop>
    for (i = ks->begin; i < ks->end; ++i) if (isSep(ks->buf[i])) break;
    memcpy(str->s + str->l, ks->buf + ks->begin, i - ks->begin);
    str->l = str->l + (i - ks->begin);
    ks->begin = i + 1;
    if (i < ks->end) { if (dret) *dret = ks->buf[i]; break; }
}
``` -/
def getuntilLoop (bufsz : Nat) (isSep : UInt8 → Bool) (s : IKS) (str : Bytes) : Bytes × UInt8 × IKS :=
  match h : guTop bufsz s with
  | (true, s1) => (str, 0, s1)
  | (false, s1) =>
    let i := scan isSep s1.buf s1.end_ s1.begin
    let str' := str ++ bytesAt s1.buf s1.begin (i - s1.begin)
    if i < s1.end_ then (str', rd s1.buf i, { s1 with begin := i + 1 })
    else getuntilLoop bufsz isSep { s1 with begin := i + 1 } str'
termination_by 2 * s.next.length + (if s.begin < s.end_ then 1 else 0)
decreasing_by
  rename_i hni
  rcases guTop_false h with ⟨hlt, rfl⟩ | ⟨hge, _, _, _, hlen⟩
  · simp only [hlt, if_true]
    have : ¬ (scan isSep s1.buf s1.end_ s1.begin + 1 < s1.end_) := by omega
    simp only [this, if_false]
    omega
  · have : ¬ (s.begin < s.end_) := by omega
    simp only [this, if_false]
    split <;> omega

structure GUI where
  ret : Int
  str : Bytes
  dret : UInt8
  ks : IKS

/-- `ks_getuntil(ks, delimiter, str, &dret)` (kseq.h:93-137):
`if (dret) *dret = 0; str->l = 0; if (ks->begin >= ks->end && ks->is_eof) return -1; for (;;) …; return str->l;` -/
def getuntilI (bufsz : Nat) (isSep : UInt8 → Bool) (s : IKS) : GUI :=
  if decide (s.begin ≥ s.end_) && s.isEof then ⟨-1, [], 0, s⟩
  else
    let r := getuntilLoop bufsz isSep s []
    ⟨r.1.length, r.1, r.2.1, r.2.2⟩

/-! ## `kseq_read`: the loops over `ks_getc` -/

/-- kseq.h:176 `while ((c = ks_getc(ks)) != -1 && c != '>' && c != '@');` -/
def skipToHeaderI (bufsz : Nat) (s : IKS) : Option UInt8 × IKS :=
  match h : getcI bufsz s with
  | (none, s') => (none, s')
  | (some c, s') => if c == 62 || c == 64 then (some c, s') else skipToHeaderI bufsz s'
termination_by sizeI s
decreasing_by all_goals exact getcI_lt h

/-- kseq.h:183-192 `while ((c = ks_getc(ks)) != -1 && c != '>' && c != '+' && c != '@') if (isgraph(c)) seq += c` -/
def seqLoopI (bufsz : Nat) (s : IKS) (acc : Bytes) : Option UInt8 × Bytes × IKS :=
  match h : getcI bufsz s with
  | (none, s') => (none, acc, s')
  | (some c, s') =>
    if c == 62 || c == 43 || c == 64 then (some c, acc, s')
    else if isGraph c then seqLoopI bufsz s' (acc ++ [c]) else seqLoopI bufsz s' acc
termination_by sizeI s
decreasing_by all_goals exact getcI_lt h

/-- kseq.h:204 `while ((c = ks_getc(ks)) != -1 && c != '\n');` -/
def skipLineI (bufsz : Nat) (s : IKS) : Option UInt8 × IKS :=
  match h : getcI bufsz s with
  | (none, s') => (none, s')
  | (some c, s') => if c == 10 then (some c, s') else skipLineI bufsz s'
termination_by sizeI s
decreasing_by all_goals exact getcI_lt h

/-- kseq.h:206-207 `while ((c = ks_getc(ks)) != -1 && qual.l < seq.l) if (c >= 33 && c <= 127) qual += c` -/
def qualLoopI (bufsz : Nat) (n : Nat) (s : IKS) (acc : Bytes) : Bytes × IKS :=
  match h : getcI bufsz s with
  | (none, s') => (acc, s')
  | (some c, s') =>
    if acc.length < n then
      (if 33 ≤ c && c ≤ 127 then qualLoopI bufsz n s' (acc ++ [c]) else qualLoopI bufsz n s' acc)
    else (acc, s')
termination_by sizeI s
decreasing_by all_goals exact getcI_lt h

/-- `kseq_t`: `last_char` and the stream -/
structure StI where
  lastChar : UInt8
  ks : IKS

/-- `kseq_read` from kseq.h:180 `seq->comment.l = seq->seq.l = seq->qual.l = 0;` on; `lc` = `seq->last_char` -/
def kseqBodyI (bufsz : Nat) (lc : UInt8) (s : IKS) : Int × Rec × StI :=
  -- 181 `if (ks_getuntil(ks, 0, &seq->name, &c) < 0) return -1;`
  let g := getuntilI bufsz isSpace s
  if g.ret < 0 then (-1, ⟨[], [], [], []⟩, ⟨lc, g.ks⟩) else
  -- 182 `if (c != '\n') ks_getuntil(ks, '\n', &seq->comment, 0);`
  let cm := if g.dret != 10 then getuntilI bufsz (fun c => c == 10) g.ks else ⟨0, [], 0, g.ks⟩
  -- 183-192
  let q := seqLoopI bufsz cm.ks []
  -- 193 `if (c == '>' || c == '@') seq->last_char = c;`
  let lc2 := match q.1 with
    | some c => if c == 62 || c == 64 then c else lc
    | none => lc
  -- 199 `if (c != '+') return seq->seq.l;`
  if q.1 != some 43 then ((q.2.1.length : Int), ⟨g.str, cm.str, q.2.1, []⟩, ⟨lc2, q.2.2⟩) else
  -- 204-205
  let k := skipLineI bufsz q.2.2
  match k.1 with
  | none => (-2, ⟨g.str, cm.str, q.2.1, []⟩, ⟨lc2, k.2⟩)
  | some _ =>
    -- 206-211
    let ql := qualLoopI bufsz q.2.1.length k.2 []
    if q.2.1.length != ql.1.length then (-2, ⟨g.str, cm.str, q.2.1, ql.1⟩, ⟨0, ql.2⟩)
    else ((q.2.1.length : Int), ⟨g.str, cm.str, q.2.1, ql.1⟩, ⟨0, ql.2⟩)

/-- `kseq_read` (kseq.h:171-212): ≥ 0 length of the sequence, −1 end of file, −2 truncated quality string -/
def kseqReadI (bufsz : Nat) (st : StI) : Int × Rec × StI :=
  if st.lastChar == 0 then
    let h := skipToHeaderI bufsz st.ks
    match h.1 with
    | none => (-1, ⟨[], [], [], []⟩, ⟨0, h.2⟩)
    | some c => kseqBodyI bufsz c h.2
  else kseqBodyI bufsz st.lastChar st.ks

/-- `gzerror` after a call of `kseq_read` (see `Kseq.errnum`) -/
def errnumI (fin : Fin) (early : Bool) (s : IKS) : Fin :=
  if s.isEof || early then fin else .clean

/-- `next_fast_sek` (fastseq_read.c); same answers as `Kseq.nextFastSek` -/
def nextFastSekI (bufsz : Nat) (fin : Fin) (early : Bool) (st : StI) : Int × Rec × StI :=
  let r := kseqReadI bufsz st
  if r.1 ≤ 0 then
    let l : Int :=
      if errnumI fin early r.2.2.ks != .clean then -1
      else if r.1 == -1 then 0
      else if r.1 == 0 then -4
      else r.1
    (l, r.2.1, r.2.2)
  else (1, r.2.1, r.2.2)

/-- the loop of `_FastseqReader` (fastseq_read.go), as `Kseq.readLoop` -/
def readLoopI (bufsz : Nat) (fin : Fin) (early : Bool) (st : StI) (acc : List Rec) : List Rec × Outcome :=
  let r := nextFastSekI bufsz fin early st
  if r.1 == 0 then (acc, .ok)
  else if r.1 < 0 then (acc, .fatal r.1)
  else if h : sizeI r.2.2.ks < sizeI st.ks then readLoopI bufsz fin early r.2.2 (acc ++ [r.2.1])
  else (acc, .stuck)
termination_by sizeI st.ks

/-- state after `kseq_init` (`calloc`'ed structures: `begin = end = is_eof = 0`, `last_char = 0`; `buf` is the
`malloc`'ed buffer: arbitrary content, `buf.size = bufsz`) -/
def initStI (bufsz : Nat) (fin : Fin) (buf : Array UInt8) (d : Bytes) : StI :=
  ⟨0, ⟨buf, 0, 0, false, Kseq.reads bufsz fin (d.length + 1) d⟩⟩

/-- the whole reader on the stream `d` + `fin`, buffer of `bufsz` bytes whose initial content is `buf` -/
def readAllI (bufsz : Nat) (fin : Fin) (early : Bool) (buf : Array UInt8) (d : Bytes) : List Rec × Outcome :=
  readLoopI bufsz fin early (initStI bufsz fin buf d) []

end ObiVerif.KseqIdx
