import ObiVerif.Model.TagSetup
/-!
# References that ALREADY carry an `obitag_ref_index` attribute (C15, glue pass)

What the two commands do with a reference record whose annotations already hold an `obitag_ref_index` map when the
data base is loaded (a data base indexed earlier by `obirefidx`, two indexed data bases concatenated, an indexed data
base filtered afterwards):

* `obirefidx.IndexReferenceDB` (the whole body of the `obirefidx` command) never reads the attribute: after the taxid
  filter every kept record `i` goes through `idx := IndexSequence(i, references, &refcounts, &taxa, taxo);
  iref := references[i].Copy(); iref.SetOBITagRefIndex(idx)` — `SetAttribute` overwrites the key.  EVERY index is
  recomputed on the kept list.
* `obitag.Identify` (the worker of `obitag.CLIAssignTaxonomy`) TRUSTS it: `idx := best.OBITagRefIndex(); if idx == nil
  { idx = obirefidx.IndexSequence(seqidxs[i], references, &refcounts, &taxa, taxo); … }` — `OBITagRefIndex()` is nil
  only when the attribute is absent; a stored map (the empty map included) is used as is, `IndexSequence` is not called
  for that reference.

The set-up loops of `Model/TagSetup.lean` move POINTERS to records (`references[j] = seq`): the annotations travel
with the record.  Here a record is a `RefRec` plus its stored attribute; the kept list with its attributes is
`keptI` (`keptI_plain`: its records are the kept list of `Model/TagSetup.lean`; that the attribute of kept record `k`
is the one the record carried in the file is read from `references[j] = seq`, not from a transcription of the loop).
-/
namespace ObiVerif.Tag

open ObiVerif.Kmer (Bytes)
open ObiVerif.Lcs (Err)

/-- the text form of an index (`map[int]string`), as `identifyText` reads it -/
abbrev TIndex := List (Nat × Text)

/-- a record of the reference file with its `obitag_ref_index` attribute: `none` = no such attribute
(`OBITagRefIndex()` returns nil), `some []` = an empty map -/
structure RefRecI where
  base : RefRec
  stored : Option TIndex

/-- the records without their attributes -/
def plain (recs : List RefRecI) : List RefRec := recs.map (·.base)

/-- the records with a known taxid, in file order, WITH their annotations -/
def keptI (t : Tax.Taxo) (recs : List RefRecI) : List RefRecI := recs.filter fun r => known t r.base

/-- `references[b].OBITagRefIndex()` on the kept list -/
def storedFn (K : List RefRecI) (b : Nat) : Option TIndex := (K[b]?).bind (·.stored)

/-! ## `obirefidx.IndexReferenceDB` -/

/-- the record `IndexReferenceDB` pushes for kept reference `b` (`ow` = the candidate order of `b` among the kept
ones): `iref := references[b].Copy(); iref.SetOBITagRefIndex(IndexSequence(b, references, …))` — the copy of the
record, its `obitag_ref_index` attribute REPLACED by the index just computed (an error of `IndexSequence` is the
outcome of the command) -/
def refidxOutI (t : Tax.Taxo) (fuel : Nat) (recs : List RefRecI) (b : Nat) (ow : List Nat) :
    Option (RefRec × Except Err (Tax.Res (List (Nat × Nat)))) :=
  ((keptI t recs)[b]?).map fun r => (r.base, refidxIndex t fuel (plain recs) b ow)

/-! ## `obitag.CLIAssignTaxonomy` -/

/-- `Identify` on the arrays of the set-up (cf. `identifyTextVC`), the references carrying the attributes `stored`:
```go
idx := best.OBITagRefIndex()
if idx == nil { idx = obirefidx.IndexSequence(seqidxs[i], references, &refcounts, &taxa, taxo); … }
``` -/
def identifyTextVCI (t : Tax.Taxo) (fuel : Nat) (v : Variant) (name rank : Nat → Text) (q : Bytes) (refs : Nat → Bytes)
    (counts : Nat → Array Nat) (taxa : List Slot) (stored : Nat → Option TIndex) (o : List Nat) (ows : Nat → List Nat) :
    IdOut :=
  match findClosestsVC v q refs counts o with
  | .error _ => .bad .panic
  | .ok fc =>
    identifyText t fuel fc (fun b =>
      match stored b with
      | some ix => .ok ix
      | none =>
        match indexSequenceVT t fuel taxa b refs counts (ows b) with
        | .error _ => .error .panic
        | .ok r => r.map (textIndex name rank))

/-- the worker of `obitag.CLIAssignTaxonomy` on one query, the reference records carrying their stored attributes
(cf. `cliAssign1`) -/
def cliAssign1I (t : Tax.Taxo) (fuel : Nat) (name rank : Nat → Text) (recs : List RefRecI) (q : Bytes) (o : List Nat)
    (ows : Nat → List Nat) : IdOut :=
  let s := tag1Setup t (plain recs)
  identifyTextVCI t fuel .tag1 name rank q (refFn s.refs) (countFn s.counts) s.taxa (storedFn (keptI t recs)) o ows

/-- the text of the index `IndexSequence` builds for kept reference `b` on the kept list of `recs` (what a stored
index must be for the assignment to be lossless) -/
def freshIndex (t : Tax.Taxo) (fuel : Nat) (name rank : Nat → Text) (recs : List RefRec) (b : Nat) (ow : List Nat) :
    Tax.Res TIndex :=
  match indexSequenceV t fuel ((recs.filter (known t)).filterMap (fun r => Tax.resolve t r.tid)) b
      (refFn (recs.filter (known t))) ow with
  | .error _ => .error .panic
  | .ok r => r.map (textIndex name rank)

end ObiVerif.Tag
