import ObiVerif.Model.Iter
import ObiVerif.Model.Writer
/-!
# Model of a record-wise command (C05)

reader (any partition of the input into numbered batches) → N workers applying a per-record function
(batches come out in any order) → formatting workers → writer (re-sequencing buffer).  The command's
bytes are what the writer emits.  Aggregating commands (obicount, obisummary) fold a commutative monoid
over the batches in arrival order, each worker into its own accumulator, the accumulators being merged
at the end.  Commands with two outputs (obigrep --save-discarded, obimultiplex -u) and dispatching
commands (obidistribute) feed several writers from `DivideOn` / `Distribute`.
-/
namespace ObiVerif.Command
open ObiVerif.Iter ObiVerif.Writer

abbrev Bytes := List UInt8

/-- the text the formatter produces for a batch: the records' texts, in batch order -/
def batchText (fmt : Rec → Bytes) (b : Batch) : Nat × Bytes := (b.1, (b.2.map fmt).flatten)

/-- a record-wise command: `arrW` is the order in which the processed batches reach the writer -/
def commandOutput (fmt : Rec → Bytes) (arrW : List Batch) : Bytes :=
  writeRaw (arrW.map (batchText fmt))

/-- an aggregating command (obicount): three counters summed over the batches in arrival order -/
def countOutput (cnt : Rec → Nat × Nat × Nat) (arr : List Batch) : Nat × Nat × Nat :=
  arr.foldl (fun acc b => b.2.foldl (fun a r => (a.1 + (cnt r).1, a.2.1 + (cnt r).2.1, a.2.2 + (cnt r).2.2)) acc) (0, 0, 0)

/-! ## JSON output (`FormatJSONBatch` + `WriteJSON`) -/

/-- `FormatJSONBatch`: the objects of the batch joined by `,\n` (no separator after the last one) -/
def joinSep (sep : Bytes) : List Bytes → Bytes
  | [] => []
  | [t] => t
  | t :: ts => t ++ sep ++ joinSep sep ts

def jsonBatchText (obj : Rec → Bytes) (b : Batch) : Nat × Bytes := (b.1, joinSep sepJson (b.2.map obj))

/-- a record-wise command writing JSON: `[\n`, the chunks separated by `,\n`, `\n]\n` -/
def commandJson (obj : Rec → Bytes) (arrW : List Batch) : Bytes :=
  writeJson (arrW.map (jsonBatchText obj))

/-! ## CSV output: the formatter puts the header in front of batch 0 only -/

def csvBatchText (header : Bytes) (row : Rec → Bytes) (b : Batch) : Nat × Bytes :=
  (b.1, if b.1 = 0 then header ++ (b.2.map row).flatten else (b.2.map row).flatten)

def commandCsv (header : Bytes) (row : Rec → Bytes) (arrW : List Batch) : Bytes :=
  writeRaw (arrW.map (csvBatchText header row))

/-! ## Two outputs (`DivideOn`): kept records to one writer, discarded records to another -/

/-- `arr` is the arrival order at `DivideOn`; `pT`/`pF` re-order the batches of the two streams on their way
to their writers (the theorems quantify over them) -/
def divideOutputs (p : Rec → Bool) (size : Nat) (fmt : Rec → Bytes) (arr : List Batch)
    (pT pF : List Batch → List Batch) : Bytes × Bytes :=
  (commandOutput fmt (pT (divideOn p size arr).1), commandOutput fmt (pF (divideOn p size arr).2))

/-! ## Dispatching command (`Distribute` + one writer per class) -/

/-- the file of class `key` -/
def distributeFile (cls : Rec → Nat) (size : Nat) (fmt : Rec → Bytes) (key : Nat) (arr : List Batch)
    (pK : List Batch → List Batch) : Bytes :=
  commandOutput fmt (pK (distributeKey cls size key arr))

/-! ## Aggregating commands: a fold per worker, then a merge of the workers' accumulators -/

/-- what one worker accumulates over the batches it receives (in the order it receives them) -/
def aggWorker {σ : Type} (upd : σ → Rec → σ) (init : σ) (bs : List Batch) : σ :=
  bs.foldl (fun acc b => b.2.foldl upd acc) init

/-- `shares` = for each worker, the batches it took from the channel, in order; the partial results are
merged from worker 0 on (`rep = rep.Add(summaries[i])`) -/
def aggOutput {σ : Type} (upd : σ → Rec → σ) (merge : σ → σ → σ) (init : σ) (shares : List (List Batch)) : σ :=
  (shares.map (aggWorker upd init)).foldl merge init

/-- map-valued counters (`map[string]int` of obisummary): association list kept sorted by key, keys being
natural numbers (any injective coding of the strings) -/
abbrev Counters := List (Nat × Nat)

/-- `plusUpdateIntMap` -/
def addKey (k n : Nat) : Counters → Counters
  | [] => [(k, n)]
  | (k', m) :: t =>
    if k = k' then (k', m + n) :: t
    else if k < k' then (k, n) :: (k', m) :: t
    else (k', m) :: addKey k n t

/-- `sumUpdateIntMap(m1, m2)` -/
def mergeCounters (a b : Counters) : Counters := b.foldl (fun m kv => addKey kv.1 kv.2 m) a

/-- `DataSummary.Update`: the record contributes `cnt r` (key, increment) pairs -/
def summaryUpd (cnt : Rec → Counters) (acc : Counters) (r : Rec) : Counters := mergeCounters acc (cnt r)

/-- obisummary: `ISummary` -/
def summaryOutput (cnt : Rec → Counters) (init : Counters) (shares : List (List Batch)) : Counters :=
  (shares.map (aggWorker (summaryUpd cnt) [])).foldl mergeCounters init

end ObiVerif.Command
