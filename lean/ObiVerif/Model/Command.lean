import ObiVerif.Model.Iter
import ObiVerif.Model.Writer
/-!
# Model of a record-wise command (C05)

reader (any partition of the input into numbered batches) → N workers applying a per-record function
(batches come out in any order) → formatting workers → writer (re-sequencing buffer).  The command's
bytes are what the writer emits.  Aggregating commands (obicount) fold a commutative monoid over the
batches in arrival order.
-/
namespace ObiVerif.Command
open ObiVerif.Iter ObiVerif.Writer

abbrev Bytes := List UInt8

/-- the text the formatter produces for a batch: the records' texts, in batch order -/
def batchText (fmt : Rec → Bytes) (b : Batch) : Nat × Bytes := (b.1, (b.2.map fmt).flatten)

/-- a record-wise command: `arrW` is the order in which the processed batches reach the writer -/
def commandOutput (fmt : Rec → Bytes) (arrW : List Batch) : Bytes :=
  writeRaw (arrW.map (batchText fmt))

/-- an aggregating command (obicount): three counters summed over the batches in arrival order -/
def countOutput (cnt : Rec → Nat × Nat × Nat) (arr : List Batch) : Nat × Nat × Nat :=
  arr.foldl (fun acc b => b.2.foldl (fun a r => (a.1 + (cnt r).1, a.2.1 + (cnt r).2.1, a.2.2 + (cnt r).2.2)) acc) (0, 0, 0)

end ObiVerif.Command
