import ObiVerif.Model.LoopSteps
import ObiVerif.Model.Iter
/-!
# The loops of the single-goroutine combinators as machines of `Model/LoopSteps.lean` (C03)

Most combinators are a *fold*: `for iterator.Next() { … Push … }; … Push …; Done()` over ONE input
(`Fold`: per incoming batch a new loop state and the pushes / announcements to do, in program order; the
pushes after the loop).  A fold machine is defensive: a push on an output `≥ nout`, or — for the lazily
created outputs of `Distribute` — on an output that was not announced on `news` before, is the explicit
outcome "the loop stops there" (in the code: a `Push` nobody will ever receive); the big-step theorems show this branch is
never taken.  `Concat` (several inputs read one after the other) and the zip loop of `PairTo` (two inputs
read alternately) are written directly.
-/
namespace ObiVerif.LoopSteps
open ObiVerif.Iter

inductive Out where
  | push (j : Nat) (b : Item)
  | news (j : Nat)

structure Fold (τ : Type) where
  onItem : τ → Item → τ × List Out
  flush : τ → List Out
  nout : Nat
  /-- outputs are created lazily and announced (`Distribute`) -/
  lazy : Bool

inductive FoldSt (τ : Type) where
  /-- pushes still to do for the batch just received, then back to `iterator.Next()` -/
  | out (q : List Out) (t : τ) (ann : List Nat)
  /-- after the loop: the last pushes, then `Done()` -/
  | fl (q : List Out) (ann : List Nat)

def Fold.ok {τ : Type} (F : Fold τ) (j : Nat) (ann : List Nat) : Bool :=
  decide (j < F.nout) && (!F.lazy || ann.contains j)

def Fold.act {τ : Type} (F : Fold τ) : FoldSt τ → Act (FoldSt τ)
  | .out [] t ann => .recv 0 (fun it => .out (F.onItem t it).2 (F.onItem t it).1 ann) (.fl (F.flush t) ann)
  | .out (.push j b :: q) t ann => if F.ok j ann then .send j b (.out q t ann) else .halt
  | .out (.news j :: q) t ann => .announce j (.out q t (j :: ann))
  | .fl [] _ => .halt
  | .fl (.push j b :: q) ann => if F.ok j ann then .send j b (.fl q ann) else .halt
  | .fl (.news j :: q) ann => .announce j (.fl q (j :: ann))

def Fold.sys {τ : Type} (F : Fold τ) (cap : Nat) (absent : Nat → Bool) : Sys (FoldSt τ) :=
  { act := F.act, nin := 1, nout := F.nout, cap := cap, absent := absent }

def pushes : List Out → List (Nat × Item)
  | [] => []
  | .push j b :: q => (j, b) :: pushes q
  | .news _ :: q => pushes q

/-- what a fold pushes when fed `items` from loop state `t` -/
def foldTrace {τ : Type} (F : Fold τ) : τ → List Item → List (Nat × Item)
  | t, [] => pushes (F.flush t)
  | t, it :: rest => pushes (F.onItem t it).2 ++ foldTrace F (F.onItem t it).1 rest

/-- input function with the single stream `items` on port 0 -/
def one (items : List Item) : Nat → List Item := fun i => if i = 0 then items else []

/-! ## Instances -/

/-- `Rebatch(size)` behind its `SortBatches`: loop state = `(pushed so far, order, buffer)` as in `Iter.rebatch` -/
def rebatchF (size : Nat) : Fold (List Batch × Nat × List Rec) :=
  { onItem := fun t it =>
      let t' := rebatchFill size (it.2.length + 1) it.2 t.2.1 t.2.2 t.1
      (t', (t'.1.drop t.1.length).map (Out.push 0))
    flush := fun t => if t.2.2.length > 0 then [.push 0 (t.2.1, t.2.2)] else []
    nout := 1, lazy := false }

/-- `FilterEmpty` behind its `SortBatches` -/
def filterEmptyF : Fold Nat :=
  { onItem := fun o it => if it.2.length > 0 then (o + 1, [.push 0 (o, it.2)]) else (o, [])
    flush := fun _ => [], nout := 1, lazy := false }

/-- the pushes `DivideOn` does for one record: the true batch first, then the false batch -/
def divOuts (st st' : DivSt) : List Out :=
  (st'.tOut.drop st.tOut.length).map (Out.push 0) ++ (st'.fOut.drop st.fOut.length).map (Out.push 1)

def divItem (p : Rec → Bool) (size : Nat) : DivSt × List Out → List Rec → DivSt × List Out
  | acc, [] => acc
  | (st, q), s :: rest => divItem p size (divideRec p size st s, q ++ divOuts st (divideRec p size st s)) rest

/-- `DivideOn(predicate, size)` behind its `SortBatches`: output 0 = true, 1 = false -/
def divideF (p : Rec → Bool) (size : Nat) : Fold DivSt :=
  { onItem := fun st it => divItem p size (st, []) it.2
    flush := fun st =>
      (if st.tSlice.length > 0 then [Out.push 0 (st.tOrder, st.tSlice)] else []) ++
      (if st.fSlice.length > 0 then [Out.push 1 (st.fOrder, st.fSlice)] else [])
    nout := 2, lazy := false }

/-- `CopyTee`: every batch on both outputs, `first` then `second` -/
def teeF : Fold Unit :=
  { onItem := fun _ it => ((), [.push 0 it, .push 1 it]), flush := fun _ => [], nout := 2, lazy := false }

/-- `LimitMemory`, `Speed`, `PairedWith` (`g` = what is done to the batch), one push per batch -/
def mapF (g : Item → Item) : Fold Unit :=
  { onItem := fun _ it => ((), [.push 0 (g it)]), flush := fun _ => [], nout := 1, lazy := false }

/-- `CompleteFileIterator`: everything in one batch numbered 0, nothing for an empty stream -/
def completeF : Fold (List Rec) :=
  { onItem := fun acc it => (acc ++ it.2, [])
    flush := fun acc => if acc.isEmpty then [] else [.push 0 (0, acc)]
    nout := 1, lazy := false }

/-- `Distribute`: the table `key ↦ (order, slice)` in creation order -/
abbrev DistSt := List (Nat × Nat × List Rec)

def distGet (key : Nat) : DistSt → Option (Nat × List Rec)
  | [] => none
  | (k, o, sl) :: t => if k = key then some (o, sl) else distGet key t

def distSet (key : Nat) (v : Nat × List Rec) : DistSt → DistSt
  | [] => []
  | (k, o, sl) :: t => if k = key then (k, v.1, v.2) :: t else (k, o, sl) :: distSet key v t

/-- `*slice = append(*slice, s); if len(*slice) == batchsize { outputs[key].Push(…); orders[key]++; … }` -/
def distPut (size key : Nat) (r : Rec) (t1 : DistSt) (q1 : List Out) (o : Nat) (sl : List Rec) : DistSt × List Out :=
  if (sl ++ [r]).length = size then (distSet key (o + 1, []) t1, q1 ++ [Out.push key (o, sl ++ [r])])
  else (distSet key (o, sl ++ [r]) t1, q1)

/-- one record: `slice, ok := slices[key]; if !ok { …; outputs[key] = MakeIBioSequence(); news <- key }`, then `distPut` -/
def distRec (cls : Rec → Nat) (size : Nat) (acc : DistSt × List Out) (r : Rec) : DistSt × List Out :=
  match distGet (cls r) acc.1 with
  | some (o, sl) => distPut size (cls r) r acc.1 acc.2 o sl
  | none => distPut size (cls r) r (acc.1 ++ [(cls r, 0, [])]) (acc.2 ++ [Out.news (cls r)]) 0 []

/-- `for key, slice := range slices { if len(*slice) > 0 { outputs[key].Push(…) } }` -/
def distFlush : DistSt → List Out
  | [] => []
  | (k, o, sl) :: t => if sl.length > 0 then Out.push k (o, sl) :: distFlush t else distFlush t

/-- `Distribute(class, size)` behind its `SortBatches`, `nkeys` = number of classes.  The pushes after the
loop are done in creation order here; the Go code ranges over a map (any order — one push per output, so
what each output receives does not depend on it). -/
def distributeF (cls : Rec → Nat) (size nkeys : Nat) : Fold DistSt :=
  { onItem := fun t it => it.2.foldl (distRec cls size) (t, [])
    flush := distFlush
    nout := nkeys, lazy := true }

/-! ## `Concat`: `nin` inputs read one after the other -/

structure ConcatSt where
  i : Nat
  prevMax : Nat
  maxOrder : Int
  hand : Option Item
  over : Bool

/-- `for iter.Next() { s := iter.Get(); if s.order+previous_max > max_order {…}; newIter.Push(s.Reorder(…)) };
previous_max = max_order + 1` for each input in turn -/
def concatAct (nin : Nat) (c : ConcatSt) : Act ConcatSt :=
  if c.over || decide (nin ≤ c.i) then .halt else
  match c.hand with
  | some b => .send 0 b { c with hand := none }
  | none =>
    .recv c.i
      (fun it =>
        let o : Int := it.1 + c.prevMax
        { c with hand := some (it.1 + c.prevMax, it.2), maxOrder := if o > c.maxOrder then o else c.maxOrder })
      (if c.i + 1 < nin then { c with i := c.i + 1, prevMax := (c.maxOrder + 1).toNat }
       else { c with over := true })

def concatInit : ConcatSt := { i := 0, prevMax := 0, maxOrder := -1, hand := none, over := false }

def concatSys (nin cap : Nat) (absent : Nat → Bool) : Sys ConcatSt :=
  { act := concatAct nin, nin := nin, nout := 1, cap := cap, absent := absent }

def concatMu (nin : Nat) (c : ConcatSt) : Nat :=
  if c.over || decide (nin ≤ c.i) then 0 else 2 * (nin - c.i) + 1 + (if c.hand.isSome then 1 else 0)

/-! ## The zip loop of `PairTo`: `for iter.Next() { p.Next(); batch.PairTo(&pbatch); newIter.Push(batch) }`

A paired batch is represented by the forward batch (the mates are attached to its records); when the
second input ends first, `p.Get()` is the nil batch of order -1 and `PairTo` stops the command
(`log.Fatalf("both batches are not synchronized")`): state `fatal`. -/

inductive ZipSt where
  | a
  | b (x : Item)
  | push (x : Item)
  | over
  | fatal

def zipAct : ZipSt → Act ZipSt
  | .a => .recv 0 (fun x => .b x) .over
  | .b x => .recv 1 (fun y => if x.1 = y.1 then .push x else .fatal) .fatal
  | .push x => .send 0 x .a
  | .over => .halt
  | .fatal => .halt

def zipSys (cap : Nat) (absent : Nat → Bool) : Sys ZipSt :=
  { act := zipAct, nin := 2, nout := 1, cap := cap, absent := absent }

def zipMu : ZipSt → Nat
  | .a => 3
  | .b _ => 2
  | .push _ => 4
  | .over => 0
  | .fatal => 0

end ObiVerif.LoopSteps
