import ObiVerif.Model.WriteOpen
import ObiVerif.Model.WriteProc
set_option Elab.async false
/-!
# The side files of `obiclean` (C18): `--save-ratio FILE`, `--save-graph DIR`

`pkg/obitools/obiclean/obiclean.go` `CLIOBIClean`, after the graph is built and BEFORE the iterator of the result is
returned to `main` (so before any writer of sequences is registered):

    if SaveGraphToFiles() { SaveGMLGraphs(GraphFilesDirectory(), samples, MinCountToEvalMutationRate()) }
    if IsSaveRatioTable() { all_ratio := EstimateRatio(…); EmpiricalDistCsv(RatioTableFilename(), all_ratio) }

`graph.go`, as repaired by notes/patches/C18-obiclean-side-files.diff:

* `EmpiricalDistCsv`: `os.Create(filename)` — an error is `log.Fatalf`; `out := bufio.NewWriter(file)` (4096 bytes);
  one `fmt.Fprintln(out, header)` and one `fmt.Fprintf(out, row)` per ratio (errors of `bufio.Writer` are sticky: the
  calls are not checked one by one); deferred: `err := out.Flush(); err2 := file.Close()`; the first of the two is
  `log.Fatalf`.  This is `closeW` of `Model/WriteErr.lean` over the `bufio.Writer` transcribed there.
* `SaveGMLGraphs`: per sample `os.Create(dir/<sample>.gml)` — an error is `log.Fatalf`; ONE `file.WriteString(Gml(…))`
  directly on the file; `file.Close()`; the first error of the two is `log.Fatalf`.

Both run in the main goroutine: `log.Fatalf` = report, then `os.Exit(1)`, at once; the side files that come later are
not touched and the writers of the sequences never start.  The code BEFORE the repair printed an open error with
`fmt.Println` and ignored every write / close error: `sideIgnoring` (the model of the defect, kept for the
counterexample theorem only).

`Slot` (`Model/WriteOpen.lean`) is the part of the file system the path depends on; `os.Create` = `O_TRUNC`.
-/
namespace ObiVerif.WriteSide
open ObiVerif.WriteErr ObiVerif.WriteProc

/-- one side file the command line asks for -/
structure Side where
  buffered : Bool          -- `true`: the ratio table (bufio.Writer); `false`: a graph file (one WriteString)
  slot : Slot
  texts : List Bytes       -- the arguments of the successive write calls (header and rows / the GML text)

/-- every byte the side file has to hold -/
def Side.expected (s : Side) : Bytes := s.texts.flatten

/-- the writes and the close of one side file over the opened file: `(outcome, bytes the file holds)` -/
def sideRun (buffered : Bool) (texts : List Bytes) (room : Nat) (cf : Bool) : Outcome × Bytes :=
  if buffered then closeW (texts.foldl emitRaw ⟨4096, [], false, ⟨room, [], cf⟩⟩)
  else
    let (s, _, e) := (⟨room, [], cf⟩ : Sink).write texts.flatten
    (if e || cf then .fatal else .ok, s.got)

/-- create, write, close: `(outcome, content of the file afterwards)` -/
def Side.write (s : Side) : Outcome × Option Bytes := withOpen false s.slot (sideRun s.buffered s.texts)

def Side.bad (s : Side) : Bool := s.write.1 == .fatal

/-- `main` of obiclean: the side files one after the other (first failure: exit status 1 at once), then the writers of
the sequences under the pipe registry (`Model/WriteProc.lean`) -/
def exitSide (sides : List Side) (fails : List Bool) (sched : List Tid) : Option Nat :=
  if sides.any Side.bad then some 1 else exitOf fails sched

/-- the files as the run leaves them: those before the first failure are written, the failing one holds what it
holds, the later ones are untouched -/
def filesAfter : List Side → List (Option Bytes)
  | [] => []
  | s :: rest => if s.bad then s.write.2 :: rest.map (fun r => r.slot.old) else s.write.2 :: filesAfter rest

/-- the code before the repair: every error ignored (a file that cannot be created gives a nil `*os.File` whose
methods return an error nobody reads) -/
def exitIgnoring (_sides : List Side) (fails : List Bool) (sched : List Tid) : Option Nat := exitOf fails sched

end ObiVerif.WriteSide
