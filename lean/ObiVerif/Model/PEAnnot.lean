import ObiVerif.Model.PEAlign
/-!
# C08: the annotations written by `obipairing.AssemblePESequences` and the mismatch statistics of
`obialign.BuildQualityConsensus` (`statOnMismatch = true`)

Transcription of the annotation part of `pkg/obitools/obipairing/pairing.go` (`AssemblePESequences` with
`withStats = true`) and of the `mismatches` map of `pkg/obialign/alignment.go`.  Floats are never printed:
`score_norm` and `paring_fast_score` are `math.Round(x*1000)/1000` of a ratio of two small integers; the model
prints the integer number of thousandths computed exactly, and `~` when the exact ratio sits on a rounding
boundary (the only inputs on which float rounding could disagree with exact rounding).
-/
namespace ObiVerif.PEAlign

/-- ASCII `strings.ToUpper` -/
def upperByte (b : UInt8) : UInt8 := if 97 ≤ b ∧ b ≤ 122 then b - 32 else b

/-- `%02d` of a byte -/
def dig2 (q : UInt8) : List Char :=
  let n := q.toNat
  if n < 10 then ['0', Char.ofNat (48 + n)] else (toString n).toList

/-- `strings.ToUpper(fmt.Sprintf("(%c:%02d)->(%c:%02d)", nA, qA, nB, qB))` for ASCII bases -/
def mmKey (nA qA nB qB : UInt8) : String :=
  String.ofList (['(', Char.ofNat (upperByte nA).toNat, ':'] ++ dig2 qA ++ [')', '-', '>', '(',
    Char.ofNat (upperByte nB).toNat, ':'] ++ dig2 qB ++ [')'])

/-- `m[key] = v` on a Go map kept as an association list sorted by key (the order the harness prints) -/
def mapSet (key : String) (v : Nat) : List (String × Nat) → List (String × Nat)
  | [] => [(key, v)]
  | (k, w) :: t =>
    if key = k then (k, v) :: t
    else if key < k then (key, v) :: (k, w) :: t
    else (k, w) :: mapSet key v t

/-- the `mismatches` map of `BuildQualityConsensus`: for every column whose two symbols differ and are not
the gap filler ' ', `mismatches[KEY] = i + 1` (a later column with the same key overwrites) -/
def mmLoop : Nat → Bytes → Bytes → Bytes → Bytes → List (String × Nat) → List (String × Nat)
  | i, nA :: sA, nB :: sB, qA :: qsA, qB :: qsB, acc =>
    let acc' := if nA ≠ nB ∧ nA ≠ 32 ∧ nB ≠ 32 then mapSet (mmKey nA qA nB qB) (i + 1) acc else acc
    mmLoop (i + 1) sA sB qsA qsB acc'
  | _, _, _, _, _, acc => acc

def mismatchStats (seqA qualA seqB qualB : Bytes) (p : Path) : List (String × Nat) :=
  match buildAlignment seqA seqB 32 p 0 0, buildAlignment qualA qualB 0 p 0 0 with
  | some (sA, sB), some (qA, qB) => mmLoop 0 sA sB qA qB []
  | _, _ => []

/-- `math.Round(num/den*1000)` as an integer, `none` on an exact rounding boundary; `den > 0`, `num ≥ 0` -/
def thousandths (num den : Int) : Option Int :=
  if den ≤ 0 then some 0
  else if (2000 * num) % (2 * den) = den then none
  else some ((2000 * num + den) / (2 * den))

def thStr : Option Int → String
  | some k => toString k
  | none => "~"

/-- all annotations of the record returned by `AssemblePESequences(…, withStats = true, …)`, keys sorted.
In join mode the record is `JoinPairedSequence(seqA, seqB)`: the annotations written on the discarded
consensus (`pairing_mismatches`, `paring_fast_*`) are not there. -/
def annotEntries (fast : Bool) (v : Vote) (ovr : Int) (asm : Assembled) (mm : List (String × Nat)) :
    List (String × String) :=
  let opt := fun (k : String) (o : Option String) => match o with
    | some x => [(k, x)]
    | none => []
  let sn := if asm.aliLength > 0 then thStr (thousandths asm.nmatch asm.aliLength) else "0"
  let fs := if v.num < 0 then "-1000" else thStr (thousandths v.num v.den)
  let mmS := "{" ++ ",".intercalate (mm.map fun e => e.1 ++ ":" ++ toString e.2) ++ "}"
  opt "ali_dir" (asm.dirLeft.map fun l => if l then "left" else "right") ++
  [("ali_length", toString asm.aliLength)] ++
  [("mode", if asm.alignment then "alignment" else "join")] ++
  (if asm.alignment ∧ ¬ mm.isEmpty then [("pairing_mismatches", mmS)] else []) ++
  (if asm.alignment ∧ fast then
    [("paring_fast_count", toString v.count), ("paring_fast_overlap", toString ovr), ("paring_fast_score", fs)]
   else []) ++
  [("score", toString asm.score)] ++
  [("score_norm", sn)] ++
  opt "seq_a_single" (asm.aSingle.map toString) ++
  [("seq_ab_match", toString asm.nmatch)] ++
  opt "seq_b_single" (asm.bSingle.map toString)

/-- `key=value;…` -/
def annotations (fast : Bool) (v : Vote) (ovr : Int) (asm : Assembled) (mm : List (String × Nat)) : String :=
  ";".intercalate ((annotEntries fast v ovr asm mm).map fun e => e.1 ++ "=" ++ e.2)

/-- `byte(math.Log10(1-math.Pow(10,-float64(qm)/30))*10+0.5)` for `qm = 0..93` as computed by the Go code on
amd64 (a negative float converted to `byte`: −10.8 ↦ −10 ↦ 246).  Float-derived **data**: the driver refuses
a case whose table differs from this literal, so the table theorems of `Props/C08` are about the real values. -/
def adjAmd64 : List UInt8 :=
  [0, 246, 249, 250, 251, 252, 253, 253, 254, 254, 254, 255, 255, 255, 255, 255, 255] ++ List.replicate 77 0

/-- what the mismatch branch really adds to the higher quality: `qM - adj(qm) = qM + mmBonus(qm)` (mod 256) -/
def mmBonus : List Nat := [0, 10, 7, 6, 5, 4, 3, 3, 2, 2, 2, 1, 1, 1, 1, 1, 1] ++ List.replicate 77 0

end ObiVerif.PEAlign
