import ObiVerif.Model.Iter
/-!
# The remaining stream combinators of `pkg/obiiter` used by the commands (C03)

`IFragments` (fragment.go), `IMergeSequenceBatch` (merge.go), `LimitMemory` / `Speed` (limitmemory.go,
speed.go: pass-through stages), `Load` / `Count` / `CompleteFileIterator` (batchiterator.go), `CopyTee`
(pipe.go), `PairedWith` (paired.go).  Same conventions as `Model/Iter.lean`: a stream is the list of its
batches in arrival order.
-/
namespace ObiVerif.Iter

/-- the cutting loop of `IFragments` for a record of length `L` (`step = length - overlap > 0`):
`for i := 0; i < L; i += step { end := min(i+length, L); if L-end < step { end = L; fusion = true };
emit [i,end); if fusion { i = L } }` — the `[from, to)` windows, fuel = `L` -/
def fragWindows (L length step : Nat) : Nat → Nat → List (Nat × Nat)
  | 0, _ => []
  | fuel + 1, i =>
    if i < L then
      let e := min (i + length) L
      if L - e < step then [(i, L)] else (i, e) :: fragWindows L length step fuel (i + step)
    else []

/-- the records `IFragments(minsize, length, overlap, …)` makes of record `r` of length `len r`; a fragment
`[from, to)` of `r` is the record `sub r from to` (the Go code names it `<id>_sub[from+1..to]`) -/
def fragRec (len : Rec → Nat) (sub : Rec → Nat → Nat → Rec) (minsize length overlap : Nat) (r : Rec) : List Rec :=
  if len r ≤ minsize then [r]
  else (fragWindows (len r) length (length - overlap) (len r) 0).map fun w => sub r w.1 w.2

/-- `IFragments(minsize, length, overlap, size, nworkers)`: `SortBatches`, `nworkers` goroutines cutting every
record of a batch (the batch keeps its number), `SortBatches().Rebatch(size)`.  `frag` = the per-record cut. -/
def fragments (frag : Rec → List Rec) (size : Nat) (arr : List Batch) : List Batch :=
  rebatch size (workerStage frag (sortBatches arr))

/-- `IMergeSequenceBatch(na, statsOn, batchsize)`: every incoming batch (a group of records to merge, taken
in arrival order) becomes ONE record `merge group`; the merged records are pushed in batches of `batchsize`
numbered `j = 0,1,…`; an empty group makes `BioSequenceSlice.Merge` index `sequences[0]`: `none` = panic -/
def mergeBatches (merge : List Rec → Rec) (batchsize : Nat) (arr : List Batch) : Option (List Batch) :=
  if arr.any (fun b => b.2.isEmpty) then none
  else
    let merged := arr.map fun b => merge b.2
    some (batchOver batchsize (merged.length + 1) merged 0)

/-- `LimitMemory(fraction)` and `Speed(message)`: every batch is pushed again as it is, in arrival order -/
def passThrough (arr : List Batch) : List Batch := arr

/-- `Load()`: the records of the batches in ARRIVAL order (the callers sort upstream) -/
def load (arr : List Batch) : List Rec := flatten arr

/-- first component of `Count(recycle)` -/
def countRecs (arr : List Batch) : Nat := (flatten arr).length

/-- `CompleteFileIterator()`: one batch numbered 0 holding everything, nothing for an empty stream -/
def completeFile (arr : List Batch) : List Batch :=
  if (load arr).isEmpty then [] else [(0, load arr)]

/-- `CopyTee()`: both outputs get every batch, in arrival order -/
def copyTee (arr : List Batch) : List Batch × List Batch := (arr, arr)

/-- a stream of paired batches (output of `PairTo`): forward side and `PairedWith()` side -/
def forwardSide (out : List (Nat × List (Rec × Rec))) : List Batch := out.map fun b => (b.1, b.2.map (·.1))
def pairedWith (out : List (Nat × List (Rec × Rec))) : List Batch := out.map fun b => (b.1, b.2.map (·.2))

end ObiVerif.Iter
