import ObiVerif.Model.Json
/-!
# Go's dynamic number types on top of the JSON model (property C02, second deepening) — core Lean only

`Model/Json.lean` represents a number by its decimal literal.  This file adds what Go distinguishes on top of it:

* a value held by an annotation map is a `GVal`: `int i` (Go `int`) or `float d` (Go `float64`, represented by its
  *shortest decimal digits* `d : Dec` = sign, digits `D`, position of the point `P`, value `± 0.D × 10^P` — the
  digits themselves are `strconv`'s, data for the model), strings, booleans, `nil`, lists, maps;
* the writer (`GVal.toJ`): `AppendInt` = `intLit`, `AppendFloat64` of go-json = `fmtFloat` (format `'e'` when
  `abs < 1e-6 || abs >= 1e21`, else `'f'`; `%e` printed by `eFmt` with at least two exponent digits);
* the reader (`GVal.ofJ`): `json.Unmarshal` into `map[string]interface{}` gives **`float64` to every number**
  (`Dec.ofLit` = the decimal value of the literal);
* the narrowing loop of `_parse_json_header_`, transcribed as it is (`narrowAsIs`): for a top-level `float64` with
  integral value it assigns `int(vt)` and then, in the block that follows the `if` (there is no `else`), assigns `vt`
  again — the net effect is the identity; `narrowIntended` is the loop with the `else` it evidently lacks (used only
  to state what a repair would change).
-/
namespace ObiVerif.JsonNum
open ObiVerif.Header (Bytes)
open ObiVerif.Json

/-- decimal digits of a natural number, most significant first (`strconv.AppendInt`, exponent of `%e`) -/
def natDigits (n : Nat) : Bytes := (Nat.toDigits 10 n).map (fun c => c.val.toUInt8)

/-- value of a digit string (the same fold as inside `Json.decomp`) -/
def digitsVal (l : Bytes) : Nat := l.foldl (fun a c => a * 10 + (c.toNat - 48)) 0

/-- shortest decimal digits of a finite `float64`: value `± 0.D × 10^P` -/
structure Dec where
  neg : Bool
  D : Bytes
  P : Int
deriving DecidableEq, Repr

/-- normal form: digits only, no leading / trailing zero; zero is `D = []`, `P = 0` (the sign of zero is kept) -/
def Dec.norm (d : Dec) : Bool :=
  d.D.all isDigit && d.D.head? != some 48 && d.D.getLast? != some 48 && (!d.D.isEmpty || d.P == 0)

/-- the decimal value of a number literal (what `strconv.ParseFloat` rounds to a `float64`) -/
def Dec.ofLit (lit : Bytes) : Dec :=
  let t := decomp lit
  ⟨t.1, t.2.1, if t.2.1 = [] then 0 else t.2.2⟩

/-- integral value: no digit after the point -/
def Dec.isInt (d : Dec) : Bool := decide (d.P ≥ (d.D.length : Int))

/-- the integer an integral `Dec` denotes -/
def Dec.toInt (d : Dec) : Int :=
  let v : Int := (digitsVal d.D * 10 ^ (d.P - d.D.length).toNat : Nat)
  if d.neg then -v else v

/-- `strconv` `%e` with the shortest digits: `d[.ddd]e±XX`, at least two exponent digits (`D ≠ []`) -/
def eFmt (D : Bytes) (P : Int) : Bytes :=
  let xd := natDigits (P - 1).natAbs
  let xd := if xd.length < 2 then 48 :: xd else xd
  match D with
  | [] => []
  | d0 :: rest => (d0 :: (if rest = [] then [] else 46 :: rest)) ++ 101 :: (if P - 1 < 0 then 45 else 43) :: xd

/-- go-json `AppendFloat64`: `fmt = 'e'` when `abs < 1e-6 || abs >= 1e21` (`abs != 0`), else `'f'` -/
def fmtFloat (d : Dec) : Bytes :=
  let body := if d.D = [] then [48] else if d.P ≤ -6 ∨ d.P ≥ 22 then eFmt d.D d.P else positional d.D d.P
  if d.neg then 45 :: body else body

mutual
  /-- a Go value inside an annotation map (`interface{}`) -/
  inductive GVal
    | null
    | bool (b : Bool)
    | int (i : Int)
    | float (d : Dec)
    | str (s : Bytes)
    | arr (l : GList)
    | obj (m : GMems)
  inductive GList
    | nil
    | cons (v : GVal) (t : GList)
  inductive GMems
    | nil
    | cons (k : Bytes) (v : GVal) (t : GMems)
end

deriving instance DecidableEq for GVal, GList, GMems

mutual
  /-- the writer: what the go-json encoder is given to print -/
  def GVal.toJ : GVal → JVal
    | .null => .null
    | .bool b => .bool b
    | .int i => .num (intLit i)
    | .float d => .num (fmtFloat d)
    | .str s => .str s
    | .arr l => .arr l.toJ
    | .obj m => .obj m.toJ
  def GList.toJ : GList → JList
    | .nil => .nil
    | .cons v t => .cons v.toJ t.toJ
  def GMems.toJ : GMems → JMems
    | .nil => .nil
    | .cons k v t => .cons k v.toJ t.toJ
end

mutual
  /-- the reader: `json.Unmarshal` into `map[string]interface{}` — every number is a `float64` -/
  def GVal.ofJ : JVal → GVal
    | .null => .null
    | .bool b => .bool b
    | .num lit => .float (Dec.ofLit lit)
    | .str s => .str s
    | .arr l => .arr (GList.ofJ l)
    | .obj m => .obj (GMems.ofJ m)
  def GList.ofJ : JList → GList
    | .nil => .nil
    | .cons v t => .cons (GVal.ofJ v) (GList.ofJ t)
  def GMems.ofJ : JMems → GMems
    | .nil => .nil
    | .cons k v t => .cons k (GVal.ofJ v) (GMems.ofJ t)
end

mutual
  /-- the same value with every `int` replaced by the `float64` of the same decimal value -/
  def GVal.floatify : GVal → GVal
    | .int i => .float (Dec.ofLit (intLit i))
    | .arr l => .arr l.floatify
    | .obj m => .obj m.floatify
    | v => v
  def GList.floatify : GList → GList
    | .nil => .nil
    | .cons v t => .cons v.floatify t.floatify
  def GMems.floatify : GMems → GMems
    | .nil => .nil
    | .cons k v t => .cons k v.floatify t.floatify
end

mutual
  /-- every `float64` is in normal form (hypothesis on the data `strconv` provides; checked on every case) -/
  def GVal.WF : GVal → Bool
    | .float d => d.norm
    | .arr l => l.WF
    | .obj m => m.WF
    | _ => true
  def GList.WF : GList → Bool
    | .nil => true
    | .cons v t => v.WF && t.WF
  def GMems.WF : GMems → Bool
    | .nil => true
    | .cons _ v t => v.WF && t.WF
end

mutual
  /-- no Go `int` anywhere inside -/
  def GVal.noInt : GVal → Bool
    | .int _ => false
    | .arr l => l.noInt
    | .obj m => m.noInt
    | _ => true
  def GList.noInt : GList → Bool
    | .nil => true
    | .cons v t => v.noInt && t.noInt
  def GMems.noInt : GMems → Bool
    | .nil => true
    | .cons _ v t => v.noInt && t.noInt
end

/-! ## the narrowing loop of `_parse_json_header_` (top-level members only) -/

/-- Go `int(vt)` for an integral `float64`: exact when `|vt| < 2^63`, implementation-specific otherwise (`none`) -/
def goInt (d : Dec) : Option Int :=
  if d.toInt.natAbs < 2 ^ 63 then some d.toInt else none

/-- one iteration, **as the code is**:
    `case float64: if vt == math.Floor(vt) { annotations[k] = int(vt) } ; { annotations[k] = vt }` —
    `slot1` is the map slot after the `if`, the result is the slot after the block that follows -/
def narrowAsIs1 (v : GVal) : GVal :=
  match v with
  | .float d =>
    let slot1 : GVal := if d.isInt then (match goInt d with | some i => .int i | none => .float d) else .float d
    let _ := slot1
    .float d
  | v => v

/-- one iteration with the `else` the code lacks -/
def narrowIntended1 (v : GVal) : Option GVal :=
  match v with
  | .float d => if d.isInt then (goInt d).map .int else some (.float d)
  | v => some v

def narrowAsIs : GMems → GMems
  | .nil => .nil
  | .cons k v t => .cons k (narrowAsIs1 v) (narrowAsIs t)

/-- `none`: an integral `float64` outside the `int` range was converted (its value is lost) -/
def narrowIntended : GMems → Option GMems
  | .nil => some .nil
  | .cons k v t =>
    match narrowIntended1 v, narrowIntended t with
    | some v', some t' => some (.cons k v' t')
    | _, _ => none

/-- annotations → title-line object (`FormatFastSeqJsonHeader`) → annotations (`_parse_json_header_`: decoder, then
    the narrowing loop) -/
def reread (m : GMems) : Option GMems :=
  (decodeObj (encodeObj m.toJ)).map (fun j => narrowAsIs (GMems.ofJ j))

end ObiVerif.JsonNum
