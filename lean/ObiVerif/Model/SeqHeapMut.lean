import ObiVerif.Model.SeqHeap
/-!
# Mutator histories on the heap model of `pkg/obiseq` (C07)

`Model/SeqHeap.lean` has the constructors / derivations (`new`, `Copy`, `ReverseComplement`, `Subsequence`,
`Recycle`, `SetQualities`, `SetFeatures`, in-place byte edits).  Here: **every other mutator of
`BioSequence`** (biosequence.go, join.go) as an operation on the same heap, and the rewriting of the
`pairing_mismatches` attribute by `_revcmpMutation` / `_subseqMutation` inside the histories:

* `Write` / `WriteString` / `WriteByte`: `s.sequence = append(s.sequence, data...)` — **in place when
  `len + len(data) ≤ cap`** (the backing array of a pooled slice is longer than the slice: cap 300 for a
  fresh pool entry; after `Clear` the whole array is spare capacity), a new array otherwise
  (`Heap.appendCell`, spare capacity of the new array chosen by the runtime = oracle `ch 8`);
* `WriteQualities` / `WriteByteQualities`: the same on the qualities;
* `Clear`, `ClearQualities`: `s.sequence = s.sequence[0:0]` — same array, length 0 (`Heap.truncCell`);
* `Join(seq2, true)`: `sequence.Write(seq2.Sequence())`;
* `SetSequence`: `s.sequence = InPlaceToLower(CopySlice(sequence))` (the old slice is dropped, not recycled);
* `SetId` (no observable effect on bases / qualities / features / annotations), `SetAttribute(key, map)`;
* `rcm` / `rcim` / `subm`: `ReverseComplement` / `Subsequence` INCLUDING `_revcmpMutation` /
  `_subseqMutation` on the annotations (`rcAnn`, `subAnn`).
-/
namespace ObiVerif.SeqHeap
open ObiVerif.SeqOps

/-- `cell c = (cell c)[0:0]` -/
def Heap.truncCell (h : Heap) (c : Nat) : Heap :=
  match h.cells c with
  | some s => { h with cells := upd h.cells c (some ⟨s.buf, 0⟩) }
  | none => h

/-- the annotations of the object `a` (fields at `base`) are replaced -/
def Heap.setAnn (h : Heap) (a : String) (base : Nat) (ann : Ann) : Heap :=
  { h with objs := fun n => if n = a then some ⟨base, ann⟩ else h.objs n }

def mmKey : String := "pairing_mismatches"

/-- keys of `pairing_mismatches` as bytes (ASCII keys: `(a:30)->(c:12)`) -/
def keyBytes (k : String) : Bytes := k.toList.map fun c => UInt8.ofNat c.toNat
def keyStr (b : Bytes) : String := String.ofList (b.map fun x => Char.ofNat x.toNat)

def annGet (a : Ann) (key : String) : Option (List (String × Int)) := (a.find? (·.1 == key)).map (·.2)

/-- `_revcmpMutation` on the annotations of a sequence of `n` bases; `none` = panic (key shorter than 13 bytes) -/
def rcAnn (n : Nat) (a : Ann) : Option Ann :=
  match annGet a mmKey with
  | none => some a
  | some [] => some a
  | some m =>
    (m.mapM fun kp => (revcmpKey (keyBytes kp.1)).map fun k' => (keyStr k', revcmpPos n kp.2)).map (assocSet a mmKey)

/-- `_subseqMutation(shift, origLen)` on the annotations of the new sequence of `lseq` bases -/
def subAnn (shift origLen lseq : Nat) (a : Ann) : Ann :=
  match annGet a mmKey with
  | none => a
  | some [] => a
  | some m => assocSet a mmKey (m.filterMap fun kp => (subseqPos shift origLen lseq kp.2).map fun np => (kp.1, np))

inductive MOp
  | base (op : HOp)
  | write (a : String) (data : Bytes)
  | writequal (a : String) (data : Bytes)
  | clear (a : String)
  | clearqual (a : String)
  | join (a b : String)
  | setseq (a : String) (s : Bytes)
  | setid (a : String)
  | setann (a key : String) (m : List (String × Int))
  | rcm (a b : String)
  | rcim (a : String)
  | subm (a b : String) (f t : Int) (c : Bool)

/-- apply `f` (a function of what the object shows) to the annotations of `b`, if `b` is bound -/
def annApply (h : Heap) (b : String) (f : OV → Option Ann) : Except HErr Heap :=
  match h.objs b with
  | some ob =>
    match f ⟨h.content ob.base, h.content (ob.base + 1), h.content (ob.base + 2), ob.ann⟩ with
    | some ann => .ok (h.setAnn b ob.base ann)
    | none => .error .panic
  | none => .ok h

def vAnnApply (v : VStore) (b : String) (f : OV → Option Ann) : Except HErr VStore :=
  match v b with
  | some ov =>
    match f ov with
    | some ann => .ok (vput v b (some ⟨ov.seq, ov.qual, ov.feat, ann⟩))
    | none => .error .panic
  | none => .ok v

/-- the annotation transform of `Subsequence(f, t, c)` of a source showing `src` -/
def subAnnOf (src : Option OV) (f t : Int) (c : Bool) (ov : OV) : Option Ann :=
  match src with
  | some oa =>
    match subWindow oa.seq.length f t c with
    | .ok (fr, _) => some (subAnn fr oa.seq.length ov.seq.length ov.ann)
    | .error _ => some ov.ann
  | none => some ov.ann

def mstep (h : Heap) (ch : Nat → Nat) : MOp → Except HErr Heap
  | .base op => step h ch op
  | .write a data =>
    match h.objs a with
    | some oa => .ok (h.appendCell oa.base data (ch 8))
    | none => .error .badOp
  | .writequal a data =>
    match h.objs a with
    | some oa => .ok (h.appendCell (oa.base + 1) data (ch 9))
    | none => .error .badOp
  | .clear a =>
    match h.objs a with
    | some oa => .ok (h.truncCell oa.base)
    | none => .error .badOp
  | .clearqual a =>
    match h.objs a with
    | some oa => .ok (h.truncCell (oa.base + 1))
    | none => .error .badOp
  | .join a b =>
    match h.objs a, h.objs b with
    | some oa, some ob => .ok (h.appendCell oa.base (h.content ob.base) (ch 8))
    | _, _ => .error .badOp
  | .setseq a s =>
    match h.objs a with
    | some oa => .ok (h.storeCopy oa.base (s.map lower) (ch 0))
    | none => .error .badOp
  | .setid a =>
    match h.objs a with
    | some _ => .ok h
    | none => .error .badOp
  | .setann a key m =>
    match h.objs a with
    | some oa => .ok (h.setAnn a oa.base (assocSet oa.ann key m))
    | none => .error .badOp
  | .rcm a b =>
    match step h ch (.rc a b) with
    | .ok h1 => annApply h1 b (fun ov => rcAnn ov.seq.length ov.ann)
    | .error e => .error e
  | .rcim a =>
    match step h ch (.rci a) with
    | .ok h1 => annApply h1 a (fun ov => rcAnn ov.seq.length ov.ann)
    | .error e => .error e
  | .subm a b f t c =>
    match step h ch (.sub a b f t c) with
    | .ok h1 => annApply h1 b (subAnnOf (h.view a) f t c)
    | .error e => .error e

def mrun (h : Heap) (ch : Nat → Nat → Nat) : Nat → List MOp → Except HErr Heap
  | _, [] => .ok h
  | i, op :: ops => match mstep h (ch i) op with
    | .ok h1 => mrun h1 ch (i + 1) ops
    | .error e => .error e

/-- value semantics of the mutators -/
def mvstep (v : VStore) : MOp → Except HErr VStore
  | .base op => vstep v op
  | .write a data =>
    match v a with
    | some oa => .ok (vput v a (some ⟨oa.seq ++ data, oa.qual, oa.feat, oa.ann⟩))
    | none => .error .badOp
  | .writequal a data =>
    match v a with
    | some oa => .ok (vput v a (some ⟨oa.seq, oa.qual ++ data, oa.feat, oa.ann⟩))
    | none => .error .badOp
  | .clear a =>
    match v a with
    | some oa => .ok (vput v a (some ⟨[], oa.qual, oa.feat, oa.ann⟩))
    | none => .error .badOp
  | .clearqual a =>
    match v a with
    | some oa => .ok (vput v a (some ⟨oa.seq, [], oa.feat, oa.ann⟩))
    | none => .error .badOp
  | .join a b =>
    match v a, v b with
    | some oa, some ob => .ok (vput v a (some ⟨oa.seq ++ ob.seq, oa.qual, oa.feat, oa.ann⟩))
    | _, _ => .error .badOp
  | .setseq a s =>
    match v a with
    | some oa => .ok (vput v a (some ⟨s.map lower, oa.qual, oa.feat, oa.ann⟩))
    | none => .error .badOp
  | .setid a =>
    match v a with
    | some _ => .ok v
    | none => .error .badOp
  | .setann a key m =>
    match v a with
    | some oa => .ok (vput v a (some ⟨oa.seq, oa.qual, oa.feat, assocSet oa.ann key m⟩))
    | none => .error .badOp
  | .rcm a b =>
    match vstep v (.rc a b) with
    | .ok v1 => vAnnApply v1 b (fun ov => rcAnn ov.seq.length ov.ann)
    | .error e => .error e
  | .rcim a =>
    match vstep v (.rci a) with
    | .ok v1 => vAnnApply v1 a (fun ov => rcAnn ov.seq.length ov.ann)
    | .error e => .error e
  | .subm a b f t c =>
    match vstep v (.sub a b f t c) with
    | .ok v1 => vAnnApply v1 b (subAnnOf (v a) f t c)
    | .error e => .error e

def mvrun (v : VStore) : List MOp → Except HErr VStore
  | [] => .ok v
  | op :: ops => match mvstep v op with
    | .ok v1 => mvrun v1 ops
    | .error e => .error e

end ObiVerif.SeqHeap
