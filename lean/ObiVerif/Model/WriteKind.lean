import ObiVerif.Model.WriteErr
/-!
# Model of the writers over a failing output, carrying the error VALUE (C18)

`Model/WriteErr.lean` records an error as a `Bool`: "which error" cannot be expressed there.  Here the sink
returns error values of an arbitrary type `ε` (`werr i` for the `i`-th failing `Write`, `cerr` for `Close`),
`bufio.Writer` keeps the value of the first error (sticky `err`), and the writer goroutines apply a test
`chk : ε → Bool` to an error before calling `log.Fatalf`.  The code has `if err != nil { log.Fatalf(..) }`,
i.e. `chk = fun _ => true`; a writer that ignores some errors (the seeded regression C18-m3 ignored the
errors for which `errors.Is(err, syscall.EPIPE)`) is `chk = fun x => x != EPIPE`.

`log.Fatalf` ends the process: the state `dead` records it, nothing is done afterwards.
-/
namespace ObiVerif.WriteErr
open ObiVerif.Reseq

/-- the output: accepts `limit` bytes; the `i`-th failing `Write` returns `werr i`; `Close` returns `cerr` -/
structure SinkE (ε : Type) where
  limit : Nat
  got : Bytes
  werr : Nat → ε
  nfail : Nat
  cerr : Option ε

/-- `sink.Write(p)`: accepts what fits; `n < len(p)` comes with the error `werr nfail` -/
def SinkE.write {ε : Type} (s : SinkE ε) (p : Bytes) : SinkE ε × Nat × Option ε :=
  let n := min p.length (s.limit - s.got.length)
  if n < p.length then
    ({ s with got := s.got ++ p.take n, nfail := s.nfail + 1 }, n, some (s.werr s.nfail))
  else
    ({ s with got := s.got ++ p.take n }, n, none)

/-- `bufio.Writer`, `err error` kept as a value -/
structure BWE (ε : Type) where
  size : Nat
  buf : Bytes
  err : Option ε
  sink : SinkE ε

/-- `(*bufio.Writer).Flush` -/
def BWE.flush {ε : Type} (b : BWE ε) : BWE ε :=
  if b.err.isSome then b
  else if b.buf.length = 0 then b
  else
    let r := b.sink.write b.buf
    if r.2.2.isSome then { b with buf := b.buf.drop r.2.1, err := r.2.2, sink := r.1 }
    else { b with buf := [], sink := r.1 }

/-- the loop of `(*bufio.Writer).Write`: `for len(p) > b.Available() && b.err == nil` -/
def BWE.writeLoop {ε : Type} : Nat → BWE ε → Bytes → BWE ε × Bytes
  | 0, b, p => (b, p)
  | fuel+1, b, p =>
    if p.length > b.size - b.buf.length && !b.err.isSome then
      if b.buf.length = 0 then
        let r := b.sink.write p
        BWE.writeLoop fuel { b with err := r.2.2, sink := r.1 } (p.drop r.2.1)
      else
        let n := min p.length (b.size - b.buf.length)
        let b := BWE.flush { b with buf := b.buf ++ p.take n }
        BWE.writeLoop fuel b (p.drop n)
    else (b, p)

/-- `(*bufio.Writer).Write(p)`; the returned error is `b.err` -/
def BWE.write {ε : Type} (b : BWE ε) (p : Bytes) : BWE ε :=
  let r := BWE.writeLoop (p.length + 2) b p
  if r.1.err.isSome then r.1 else { r.1 with buf := r.1.buf ++ r.2 }

/-- state of a writer goroutine: `dead` = `log.Fatalf` was called (the process has ended: nothing is done
afterwards) -/
structure WE (ε : Type) where
  bw : BWE ε
  dead : Bool

/-- `n, err := writer.Write(t); if err != nil && chk(err) { log.Fatalf(..) }` (the code: `chk = fun _ => true`) -/
def checkedWrite {ε : Type} (chk : ε → Bool) (s : WE ε) (t : Bytes) : WE ε :=
  if s.dead then s
  else
    let b := s.bw.write t
    ⟨b, match b.err with
        | some x => chk x
        | none => false⟩

/-- FASTA / FASTQ / CSV: one checked `Write` per released chunk -/
def emitRawE {ε : Type} (chk : ε → Bool) (s : WE ε) (t : Bytes) : WE ε := checkedWrite chk s t

/-- JSON writer goroutine -/
structure JE (ε : Type) where
  w : WE ε
  started : Bool

/-- JSON: separator and text are two checked `Write` calls -/
def emitJsonE {ε : Type} (chk : ε → Bool) (s : JE ε) (t : Bytes) : JE ε :=
  if t.isEmpty then s
  else if s.started then ⟨checkedWrite chk (checkedWrite chk s.w sepJson) t, true⟩
  else ⟨checkedWrite chk s.w t, true⟩

/-- `err := Wfile.Close(); if err != nil && chk(err) { log.Fatalf(..) }` where `Wfile.Close` (uncompressed) is
`err := fw.Flush(); if w.close { err2 = out.Close() }; if err == nil { err = err2 }; return err` -/
def closeWE {ε : Type} (chk : ε → Bool) (own : Bool) (s : WE ε) : Outcome × Bytes :=
  if s.dead then (.fatal, s.bw.sink.got)
  else
    let b := s.bw.flush
    let err2 : Option ε := if own then b.sink.cerr else none
    let final : Option ε := match b.err with
      | some x => some x
      | none => err2
    match final with
    | some x => (if chk x then .fatal else .ok, b.sink.got)
    | none => (.ok, b.sink.got)

/-- a fresh writer over a fresh sink -/
def initE {ε : Type} (size limit : Nat) (werr : Nat → ε) (cerr : Option ε) : WE ε :=
  ⟨⟨size, [], none, ⟨limit, [], werr, 0, cerr⟩⟩, false⟩

def writeRawE {ε : Type} (chk : ε → Bool) (size limit : Nat) (werr : Nat → ε) (cerr : Option ε) (own : Bool)
    (arr : List (Nat × Bytes)) : Outcome × Bytes :=
  closeWE chk own (run (emitRawE chk) (emitRawE chk) (initE size limit werr cerr) arr).acc

def writeJsonE {ε : Type} (chk : ε → Bool) (size limit : Nat) (werr : Nat → ε) (cerr : Option ε) (own : Bool)
    (arr : List (Nat × Bytes)) : Outcome × Bytes :=
  let w0 : WE ε := checkedWrite chk (initE size limit werr cerr) openJson
  closeWE chk own (checkedWrite chk (run (emitJsonE chk) (emitJsonE chk) ⟨w0, false⟩ arr).acc.w closeJson)

end ObiVerif.WriteErr
