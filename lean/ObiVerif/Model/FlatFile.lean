import ObiVerif.Model.Fasta
/-!
# `GenbankChunkParser` (genbank_read.go) and `EmblChunkParser` (embl_read.go) as line machines

Lines: GenBank uses `bufio.Reader.ReadLine` (a `\n`-terminated line loses `\n` or `\r\n`; the last,
unterminated line is returned as it is), EMBL uses `bufio.Scanner` with `ScanLines` (every line,
also the last one, loses one trailing `\r`).

bufio limits.  GenBank: `ReadLine` on the default 4096-byte `bufio.Reader` returns `isPrefix = true` for a
line that does not fit; the parser then calls `log.Fatalf`, exactly as for every line longer than 100
bytes (`is_prefix || len(line) > 100`), so the 4096 limit is not observable: `gbLine` is exact for lines
of any length.  EMBL: the `bufio.Scanner` token buffer holds at most `bufio.MaxScanTokenSize` = 65536
bytes; `Scan` returns false with `ErrTooLong` at the first line whose `\n` is not among the 65536 bytes
that follow the line start (an unterminated last line of 65536 bytes or more likewise).  Repaired
behaviour (patch `C01-embl-scanner-err`): `EmblChunkParser` returns `scanner.Err()` after the loop and
`_ParseEmblFile` turns it into `log.Fatalf`: outcome `.fatal` (`scanErr`, `linesScanMax`,
`parseEmbl = parseEmblMax maxScanTok`).  Before the repair the error was never read and the rest of the
CHUNK was silently ignored (`parseEmblMaxSilent`, kept for the theorems that show why the repair matters).

`strings.TrimSpace` is modelled exactly on bytes: the six ASCII white-space bytes and the UTF-8 encodings
of the non-ASCII runes of `unicode.IsSpace` (U+0085, U+00A0, U+1680, U+2000…U+200A, U+2028, U+2029,
U+202F, U+205F, U+3000); an invalid or overlong encoding decodes to U+FFFD (width 1), which is not a
space, so trimming stops there (`utf8.DecodeRuneInString` forwards, `utf8.DecodeLastRuneInString`
backwards: the last rune is a space iff the string ends with one of these encodings).
`_seqlenght_rx` only sizes a buffer.

Repaired behaviour (patch `C01-flatfile-record-state-reset`): `taxid`, `scientificName` (and the
EMBL `id`) are reset when a record is emitted at `//`.
-/
namespace ObiVerif.Parse
open ObiVerif.Chunk

def str (s : String) : Seq := s.toUTF8.toList

/-- split at `\n`; result = the `\n`-terminated lines (without `\n`) and the unterminated rest -/
def splitNl : Seq → Seq → List Seq × Seq
  | [], cur => ([], cur.reverse)
  | c :: t, cur =>
    if c == 10 then
      match splitNl t [] with
      | (ls, last) => (cur.reverse :: ls, last)
    else splitNl t (c :: cur)

def dropCR (l : Seq) : Seq :=
  match l.reverse with
  | 13 :: r => r.reverse
  | _ => l

/-- the successive results of `ReadLine` until `io.EOF` -/
def linesReadLine (data : Seq) : List Seq :=
  match splitNl data [] with
  | (ls, last) => ls.map dropCR ++ (if last.isEmpty then [] else [last])

/-- the successive tokens of `bufio.Scanner` / `ScanLines` with an unbounded token buffer -/
def linesScan (data : Seq) : List Seq :=
  match splitNl data [] with
  | (ls, last) => ls.map dropCR ++ (if last.isEmpty then [] else [dropCR last])

/-- `bufio.MaxScanTokenSize` (the parsers never call `Scanner.Buffer`) -/
def maxScanTok : Nat := 65536

/-- the successive tokens of `bufio.Scanner` / `ScanLines` whose token buffer holds `max` bytes, until
`Scan()` returns false: at the end of the data, or (`ErrTooLong`) at the first line that does not fit
with its `\n` into `max` bytes, i.e. whose length without `\n` (a `\r` counts) is `≥ max`; an
unterminated last line fits when it is shorter than `max` (the buffer must have room left for the
`Read` that reports the end of the data). -/
def linesScanMax (max : Nat) (data : Seq) : List Seq :=
  match splitNl data [] with
  | (ls, last) =>
    if ls.all (fun l => l.length < max) then
      ls.map dropCR ++ (if last.isEmpty || max ≤ last.length then [] else [dropCR last])
    else (ls.takeWhile (fun l => l.length < max)).map dropCR

/-- `scanner.Err() != nil` after the loop (`bufio.ErrTooLong`; the chunk is an in-memory buffer, there is no
other read error): the scan stopped at a `\n`-terminated line of `max` bytes or more, or at an unterminated
last line of `max` bytes or more -/
def scanErr (max : Nat) (data : Seq) : Bool :=
  match splitNl data [] with
  | (ls, last) => !(ls.all (fun l => l.length < max)) || (!last.isEmpty && max ≤ last.length)

/-- every line (without its `\n`, the unterminated last one included) is shorter than `max`;
`n` = number of bytes of the current line already seen -/
def shortRun (max : Nat) : Seq → Nat → Bool
  | [], n => n < max
  | c :: t, n => if c == 10 then decide (n < max) && shortRun max t 0 else shortRun max t (n + 1)

/-- hypothesis of the EMBL theorems: no line of 65536 bytes or more (EMBL lines have at most 80) -/
def shortLines (max : Nat) (data : Seq) : Bool := shortRun max data 0

def hasPrefix (p l : Seq) : Bool := l.take p.length == p

def isAsciiSpace (c : UInt8) : Bool := c == 32 || (9 ≤ c && c ≤ 13)

/-- width of the white-space rune (`unicode.IsSpace`) whose UTF-8 encoding starts the bytes; 0 = the
first rune is not a space (also: invalid encoding, end of the string) -/
def spaceAt : Seq → Nat
  | [] => 0
  | c :: t =>
    if isAsciiSpace c then 1
    else if c == 0xC2 then
      match t with
      | d :: _ => if d == 0x85 || d == 0xA0 then 2 else 0
      | _ => 0
    else if c == 0xE1 then
      match t with
      | d :: e :: _ => if d == 0x9A && e == 0x80 then 3 else 0
      | _ => 0
    else if c == 0xE2 then
      match t with
      | d :: e :: _ =>
        if d == 0x80 && ((0x80 ≤ e && e ≤ 0x8A) || e == 0xA8 || e == 0xA9 || e == 0xAF) then 3
        else if d == 0x81 && e == 0x9F then 3 else 0
      | _ => 0
    else if c == 0xE3 then
      match t with
      | d :: e :: _ => if d == 0x80 && e == 0x80 then 3 else 0
      | _ => 0
    else 0

/-- the same on the reversed string: width of the white-space rune whose encoding ENDS the string -/
def spaceAtRev : Seq → Nat
  | [] => 0
  | c :: t =>
    if isAsciiSpace c then 1
    else match t with
      | d :: t' =>
        if d == 0xC2 && (c == 0x85 || c == 0xA0) then 2
        else match t' with
          | e :: _ =>
            if e == 0xE1 && d == 0x9A && c == 0x80 then 3
            else if e == 0xE2 && d == 0x80 && ((0x80 ≤ c && c ≤ 0x8A) || c == 0xA8 || c == 0xA9 || c == 0xAF) then 3
            else if e == 0xE2 && d == 0x81 && c == 0x9F then 3
            else if e == 0xE3 && d == 0x80 && c == 0x80 then 3
            else 0
          | _ => 0
      | _ => 0

/-- drop white-space runes as long as `w` finds one (fuel = length of the string) -/
def trimWith (w : Seq → Nat) : Nat → Seq → Seq
  | 0, l => l
  | f + 1, l => if w l == 0 then l else trimWith w f (l.drop (w l))

/-- `strings.TrimSpace` on the bytes of a Go string (exact, see the header) -/
def trimSpace (l : Seq) : Seq :=
  let a := trimWith spaceAt l.length l
  (trimWith spaceAtRev a.length a.reverse).reverse

/-- `strings.SplitN(s, string(sep), n)` for `n ≥ 1` -/
def splitN (sep : UInt8) : Nat → Seq → List Seq
  | 0, s => [s]
  | 1, s => [s]
  | n + 1, s =>
    match s.span (· != sep) with
    | (a, []) => [a]
    | (a, _ :: rest) => a :: splitN sep n rest

def digitsVal : Seq → Option Nat
  | [] => none
  | l => l.foldl (fun (acc : Option Nat) (c : UInt8) => match acc with
      | none => none
      | some v => if 48 ≤ c && c ≤ 57 then some (v * 10 + (c.toNat - 48)) else none) (some 0)

/-- `n, _ := strconv.Atoi(s)`: 0 on a syntax error, the clamped value on a range error -/
def atoi (s : Seq) : Int :=
  match s with
  | [] => 0
  | c :: t =>
    let (neg, ds) := if c == 45 then (true, t) else if c == 43 then (false, t) else (false, s)
    match digitsVal ds with
    | none => 0
    | some v =>
      if neg then (if v > 2 ^ 63 then -(2 ^ 63 : Int) else -(v : Int))
      else (if v ≥ 2 ^ 63 then (2 ^ 63 - 1 : Int) else (v : Int))

/-- `strconv.Atoi(strings.SplitN(line[37:], "\"", 2)[0])` -/
def taxonOf (line : Seq) : Int := atoi ((line.drop 37).takeWhile (· != 34))

/-! ## GenBank -/

structure GbSt where
  /-- 0 inHeader, 1 inEntry, 2 inDefinition, 3 inFeature, 4 inSequence, 5 inContig -/
  state : Nat := 0
  id : Seq := []
  sci : Seq := []
  defB : Seq := []
  featB : Seq := []
  seqB : Seq := []
  taxid : Int := 1
  deriving Repr, DecidableEq

/-- `LOCUS       ` -/
def gbLOCUS : Seq := [76, 79, 67, 85, 83, 32, 32, 32, 32, 32, 32, 32]
/-- `DEFINITION  ` -/
def gbDEFINITION : Seq := [68, 69, 70, 73, 78, 73, 84, 73, 79, 78, 32, 32]
/-- `            ` -/
def gbCONT : Seq := [32, 32, 32, 32, 32, 32, 32, 32, 32, 32, 32, 32]
/-- `SOURCE      ` -/
def gbSOURCE : Seq := [83, 79, 85, 82, 67, 69, 32, 32, 32, 32, 32, 32]
/-- `FEATURES    ` -/
def gbFEATURES : Seq := [70, 69, 65, 84, 85, 82, 69, 83, 32, 32, 32, 32]
/-- `ORIGIN` -/
def gbORIGIN : Seq := [79, 82, 73, 71, 73, 78]
/-- `CONTIG` -/
def gbCONTIG : Seq := [67, 79, 78, 84, 73, 71]
/-- `                     /db_xref="taxon:` -/
def gbXREF : Seq := [32, 32, 32, 32, 32, 32, 32, 32, 32, 32, 32, 32, 32, 32, 32, 32, 32, 32, 32, 32, 32, 47, 100, 98, 95, 120, 114, 101, 102, 61, 34, 116, 97, 120, 111, 110, 58]
/-- `//` -/
def slashes : Seq := [47, 47]

def flatRec (id defn sq : Seq) (taxid : Int) (sci feat : Seq) : Rec :=
  { id := id, defn := defn, seq := sq.map lower, flat := some (taxid, sci, feat) }

/-- the `for !processed { switch { … } }` dispatch on one line; the only case that loops is
`state == inDefinition` on a non-continuation line (`state = inEntry`, same line again) -/
def gbDispatch (withFeat : Bool) : Nat → GbSt → Seq → Except Fatal (GbSt × Option Rec)
  | 0, _, _ => .error .fatal
  | fuel + 1, s, line =>
    if hasPrefix gbLOCUS line then
      if s.state != 0 then .error .fatal
      else .ok ({ s with id := (line.drop 12).takeWhile (· != 32), seqB := [], state := 1 }, none)
    else if hasPrefix gbDEFINITION line then
      if s.state != 1 then .error .fatal
      else .ok ({ s with defB := s.defB ++ trimSpace (line.drop 12), state := 2 }, none)
    else if s.state == 2 then
      if hasPrefix gbCONT line then
        .ok ({ s with defB := s.defB ++ [32] ++ trimSpace (line.drop 12) }, none)
      else gbDispatch withFeat fuel { s with state := 1 } line
    else if hasPrefix gbSOURCE line then
      if s.state != 1 then .error .fatal
      else .ok ({ s with sci := trimSpace (line.drop 12) }, none)
    else if hasPrefix gbFEATURES line then
      if s.state != 1 then .error .fatal
      else .ok ({ s with featB := s.featB ++ line, state := 3 }, none)
    else if hasPrefix gbORIGIN line then
      if s.state != 3 then .error .fatal else .ok ({ s with state := 4 }, none)
    else if hasPrefix gbCONTIG line then
      if s.state != 3 && s.state != 5 then .error .fatal else .ok ({ s with state := 5 }, none)
    else if line == slashes then
      if s.state != 4 && s.state != 5 then .error .fatal
      else
        let r := flatRec s.id s.defB s.seqB s.taxid s.sci (if withFeat then s.featB else [])
        .ok ({ s with defB := [], featB := [], sci := [], taxid := 1, state := 0 }, some r)
    else if s.state == 4 then
      if line.length < 10 then .error .panic          -- line[10:]
      else .ok ({ s with seqB := s.seqB ++ (splitN 32 6 (line.drop 10)).flatten }, none)
    else if s.state == 3 then
      let s := if withFeat then { s with featB := s.featB ++ [10] ++ line } else s
      let s := if hasPrefix gbXREF line then { s with taxid := taxonOf line } else s
      .ok (s, none)
    else if s.state == 0 || s.state == 1 || s.state == 5 then .ok (s, none)
    else .error .fatal

def gbLine (withFeat : Bool) (s : GbSt) (line : Seq) : Except Fatal (GbSt × Option Rec) :=
  if line.length > 100 then .error .fatal else gbDispatch withFeat 2 s line

def gbRun (withFeat : Bool) : GbSt → List Seq → Except Fatal (GbSt × List Rec)
  | s, [] => .ok (s, [])
  | s, l :: t =>
    match gbLine withFeat s l with
    | .error e => .error e
    | .ok (s', r) =>
      match gbRun withFeat s' t with
      | .error e => .error e
      | .ok (s'', rs) => .ok (s'', r.toList ++ rs)

/-- `GenbankChunkParser(withFeatureTable)(source, chunk)` -/
def parseGenbank (withFeat : Bool) (chunk : Seq) : Except Fatal (List Rec) :=
  match gbRun withFeat {} (linesReadLine chunk) with
  | .error e => .error e
  | .ok (_, rs) => .ok rs

/-! ## EMBL -/

structure EmSt where
  id : Seq := []
  sci : Seq := []
  defB : Seq := []
  featB : Seq := []
  seqB : Seq := []
  taxid : Int := 1
  deriving Repr, DecidableEq

/-- `ID   ` -/
def emID : Seq := [73, 68, 32, 32, 32]
/-- `OS   ` -/
def emOS : Seq := [79, 83, 32, 32, 32]
/-- `DE   ` -/
def emDE : Seq := [68, 69, 32, 32, 32]
/-- `FH   ` -/
def emFH : Seq := [70, 72, 32, 32, 32]
/-- `FH` -/
def emFHalone : Seq := [70, 72]
/-- `FT   ` -/
def emFT : Seq := [70, 84, 32, 32, 32]
/-- `     ` -/
def emSEQ : Seq := [32, 32, 32, 32, 32]
/-- `FT                   /db_xref="taxon:` -/
def emXREF : Seq := [70, 84, 32, 32, 32, 32, 32, 32, 32, 32, 32, 32, 32, 32, 32, 32, 32, 32, 32, 32, 32, 47, 100, 98, 95, 120, 114, 101, 102, 61, 34, 116, 97, 120, 111, 110, 58]

/-- one turn of `for scanner.Scan() { switch { … } }` (no fatal path) -/
def emLine (withFeat : Bool) (s : EmSt) (line : Seq) : EmSt × Option Rec :=
  if hasPrefix emID line then ({ s with id := (line.drop 5).takeWhile (· != 59) }, none)
  else if hasPrefix emOS line then ({ s with sci := trimSpace (line.drop 5) }, none)
  else if hasPrefix emDE line then
    let d := if s.defB.length > 0 then s.defB ++ [32] else s.defB
    ({ s with defB := d ++ trimSpace (line.drop 5) }, none)
  else if withFeat && hasPrefix emFH line then ({ s with featB := s.featB ++ line }, none)
  else if withFeat && line == emFHalone then ({ s with featB := s.featB ++ [10] ++ line }, none)
  else if hasPrefix emFT line then
    let s := if withFeat then { s with featB := s.featB ++ [10] ++ line } else s
    let s := if hasPrefix emXREF line then { s with taxid := taxonOf line } else s
    (s, none)
  else if hasPrefix emSEQ line then
    let parts := splitN 32 7 (line.drop 5)
    ({ s with seqB := s.seqB ++ (parts.take (parts.length - 1)).flatten }, none)
  else if line == slashes then
    ({}, some (flatRec s.id s.defB s.seqB s.taxid s.sci (if withFeat then s.featB else [])))
  else (s, none)

def emRun (withFeat : Bool) : EmSt → List Seq → EmSt × List Rec
  | s, [] => (s, [])
  | s, l :: t =>
    match emLine withFeat s l with
    | (s', r) =>
      match emRun withFeat s' t with
      | (s'', rs) => (s'', r.toList ++ rs)

/-- `EmblChunkParser` BEFORE the repair `C01-embl-scanner-err` (no error path: `scanner.Err()` was not
consulted); not what the code does any more -/
def parseEmblMaxSilent (max : Nat) (withFeat : Bool) (chunk : Seq) : Except Fatal (List Rec) :=
  .ok (emRun withFeat {} (linesScanMax max chunk)).2

/-- `EmblChunkParser(withFeatureTable)(source, chunk)` with a `max`-byte scanner buffer, followed by the
`if err != nil { log.Fatalf }` of `_ParseEmblFile`: a scan that ended with an error is fatal -/
def parseEmblMax (max : Nat) (withFeat : Bool) (chunk : Seq) : Except Fatal (List Rec) :=
  if scanErr max chunk then .error .fatal
  else .ok (emRun withFeat {} (linesScanMax max chunk)).2

/-- `EmblChunkParser(withFeatureTable)(source, chunk)` -/
def parseEmbl (withFeat : Bool) (chunk : Seq) : Except Fatal (List Rec) :=
  parseEmblMax maxScanTok withFeat chunk

end ObiVerif.Parse
