import ObiVerif.Model.Reseq
/-!
# Model of the writers over a failing output (C18)

The four writers wrap their output in `obiutils.Wfile` = `bufio.Writer` (4096 bytes) over the
`io.WriteCloser`.  The sink accepts `limit` bytes and fails from then on; `Close` may fail too.
`bufio.Writer` is transcribed from the Go standard library (`Write`, `Flush`, sticky `err`).
Every `Write` error and the error of `Close` (which includes the final `Flush`) is checked by the
repaired writers and is fatal; after a first error `bufio` never writes to the sink again, so the
state after the whole history is what the sink holds when the process dies.
-/
namespace ObiVerif.WriteErr
open ObiVerif.Reseq

abbrev Bytes := List UInt8

structure Sink where
  limit : Nat
  got : Bytes
  closeFails : Bool

/-- `sink.Write(p)`: accepts what fits, error iff something did not fit -/
def Sink.write (s : Sink) (p : Bytes) : Sink × Nat × Bool :=
  let n := min p.length (s.limit - s.got.length)
  ({ s with got := s.got ++ p.take n }, n, n < p.length)

/-- `bufio.Writer` -/
structure BW where
  size : Nat
  buf : Bytes
  err : Bool
  sink : Sink

/-- `(*bufio.Writer).Flush` -/
def BW.flush (b : BW) : BW :=
  if b.err then b
  else if b.buf.length = 0 then b
  else
    let (s, n, e) := b.sink.write b.buf
    if e then { b with buf := b.buf.drop n, err := true, sink := s }
    else { b with buf := [], sink := s }

/-- the loop of `(*bufio.Writer).Write`: `for len(p) > b.Available() && b.err == nil` -/
def BW.writeLoop : Nat → BW → Bytes → BW × Bytes
  | 0, b, p => (b, p)
  | fuel+1, b, p =>
    if p.length > b.size - b.buf.length && !b.err then
      if b.buf.length = 0 then
        let (s, n, e) := b.sink.write p
        BW.writeLoop fuel { b with err := e, sink := s } (p.drop n)
      else
        let n := min p.length (b.size - b.buf.length)
        let b := BW.flush { b with buf := b.buf ++ p.take n }
        BW.writeLoop fuel b (p.drop n)
    else (b, p)

/-- `(*bufio.Writer).Write(p)`; the returned error is `b.err` -/
def BW.write (b : BW) (p : Bytes) : BW :=
  let (b, p) := BW.writeLoop (p.length + 2) b p
  if b.err then b else { b with buf := b.buf ++ p }

inductive Outcome | ok | fatal
  deriving DecidableEq, Repr

/-- `Wfile.Close` (uncompressed): `Flush`, then `out.Close()`; any error is fatal; (outcome, bytes the sink holds) -/
def closeW (b : BW) : Outcome × Bytes :=
  let b := b.flush
  if b.err || b.sink.closeFails then (.fatal, b.sink.got) else (.ok, b.sink.got)

def sepJson : Bytes := [44, 10]
def openJson : Bytes := [91, 10]
def closeJson : Bytes := [10, 93, 10]

/-- FASTA / FASTQ / CSV: one `Write` per released chunk -/
def emitRaw (b : BW) (t : Bytes) : BW := b.write t

def writeRaw (size limit : Nat) (closeFails : Bool) (arr : List (Nat × Bytes)) : Outcome × Bytes :=
  closeW (run emitRaw emitRaw ⟨size, [], false, ⟨limit, [], closeFails⟩⟩ arr).acc

/-- JSON: `started` flag as in C04; separator and text are two `Write` calls -/
structure JS where
  bw : BW
  started : Bool

def emitJson (s : JS) (t : Bytes) : JS :=
  if t.isEmpty then s
  else if s.started then ⟨(s.bw.write sepJson).write t, true⟩
  else ⟨s.bw.write t, true⟩

def writeJson (size limit : Nat) (closeFails : Bool) (arr : List (Nat × Bytes)) : Outcome × Bytes :=
  let b0 : BW := (⟨size, [], false, ⟨limit, [], closeFails⟩⟩ : BW).write openJson
  closeW ((run emitJson emitJson ⟨b0, false⟩ arr).acc.bw.write closeJson)

/-! ## owned / not owned output

`CompressStream(out, compressed, close)`: `Wfile.Close` calls `out.Close()` only when `close` is set
(`OptionCloseFile`); `WriteJSONToStdout` / `WriteCSVToStdout` use `OptionDontCloseFile`: the final flush is still
checked, a failing `Close` of the output cannot be met. -/

def closeWO (own : Bool) (b : BW) : Outcome × Bytes :=
  let b := b.flush
  if b.err || (own && b.sink.closeFails) then (.fatal, b.sink.got) else (.ok, b.sink.got)

def writeRawO (size limit : Nat) (closeFails own : Bool) (arr : List (Nat × Bytes)) : Outcome × Bytes :=
  closeWO own (run emitRaw emitRaw ⟨size, [], false, ⟨limit, [], closeFails⟩⟩ arr).acc

def writeJsonO (size limit : Nat) (closeFails own : Bool) (arr : List (Nat × Bytes)) : Outcome × Bytes :=
  let b0 : BW := (⟨size, [], false, ⟨limit, [], closeFails⟩⟩ : BW).write openJson
  closeWO own ((run emitJson emitJson ⟨b0, false⟩ arr).acc.bw.write closeJson)

end ObiVerif.WriteErr
