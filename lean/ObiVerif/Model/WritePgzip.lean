import ObiVerif.Model.WriteDev
/-!
# `klauspost/pgzip` v1.2.6 `Writer`, transcribed (C18)

`Model/WriteDev.lean` models the pgzip writer of the compressed `Wfile` abstractly (`GZ`: a compressor whose output
only grows, a listener that stops after its first failure, an arbitrary schedule of the moments at which the pushed
error becomes visible).  This file transcribes the parts of `gzip.go` (module cache, read-only) that decide what
reaches the output and which call reports a failure:

* `Write`: `checkError()` at entry; the 10-byte header written **synchronously** on the first call (an error there is
  pushed and returned at once, with the `n` of the header write); the listener goroutine started after the header; the
  loop cutting the input at multiples of `blockSize` bytes of **input** (`currentBuffer`), `compressCurrent(false)` for
  every full block followed by `checkError()` (early `return len(p) - len(q), err`: the bytes of the block just handed
  over are **not** counted in `n`); final `return len(p), z.checkError()`;
* `compressCurrent(flush)`: `select { case z.results <- r: | case <-z.pushedErr: return }`, the block is compressed by
  a goroutine of its own (`compressBlock`, into a memory buffer: it cannot fail) with the tail of the previous block as
  dictionary and `closed` deciding whether the deflate stream is ended; `flush` waits for `notifyWritten`;
* the listener goroutine: takes the results **in order**, writes each to the output, on the first error (or short
  write) `pushError` and `failed = true`: every later block is dropped;
* `Close`: `checkError()`; `closed = true`; the header if nothing was ever written; `compressCurrent(true)` (the last
  block, possibly empty, waits until the listener has handled it and therefore every earlier block); `checkError()`;
  the 8-byte trailer written synchronously.

Concurrency.  The only shared state read by the caller's goroutine is `z.err` (`checkError`, and the closed channel
`pushedErr` in the `select`).  The listener's steps commute with everything the caller does between two such
observations, so an execution is determined by the number of listener steps taken before each observation
(`Sched.run`, arbitrary) and by the branch taken by `select` when both are ready (`Sched.sel`, arbitrary).  The
capacity of `z.results` only forces some listener steps to happen earlier: a restriction of `Sched.run`.

`acc` is a ghost field: the bytes the caller was told were accepted (`p[:n]`), which is what `bufio.Writer` goes by.
-/
namespace ObiVerif.WriteErr

/-- what the output stream is made of -/
structure PCodec where
  /-- `z.blockSize` (1 MiB as set by `NewWriter`) -/
  bs : Nat
  /-- the gzip header (`Wfile` sets no `Extra` / `Name` / `Comment`: exactly `z.buf[0:10]`) -/
  hdr : Bytes
  /-- `compressBlock(p, prevTail, r, closed)`: `prevTail` (the last 16 KiB of the previous block) is a function of the
  input before the block, given here in full -/
  blk : Bytes → Bytes → Bool → Bytes
  /-- CRC-32 and size of the whole input -/
  trl : Bytes → Bytes

structure PZ where
  wroteHeader : Bool
  listening : Bool      -- the listener goroutine has been started
  closed : Bool
  done : Bytes          -- the input of the blocks handed to `compressBlock` so far
  cur : Bytes           -- `z.currentBuffer` (`z.digest` has seen `done ++ cur`)
  acc : Bytes           -- ghost: `p[:n]` of every `Write(p) = n`
  err : Bool            -- `z.err != nil`
  pend : List Bytes     -- `z.results`: compressed blocks not yet handled by the listener, in order
  lfailed : Bool        -- `failed` of the listener goroutine
  tick : Nat            -- number of observations of `z.err` so far
  sink : Sink

structure Sched where
  run : Nat → Nat
  sel : Nat → Bool

/-- one iteration of the listener goroutine -/
def PZ.lstep (z : PZ) : PZ :=
  if !z.listening then z
  else match z.pend with
    | [] => z
    | b :: rest =>
      if z.lfailed then { z with pend := rest }
      else
        let r := z.sink.write b
        if r.2.2 then { z with pend := rest, sink := r.1, err := true, lfailed := true }
        else { z with pend := rest, sink := r.1 }

def PZ.lrun : Nat → PZ → PZ
  | 0, z => z
  | n+1, z => PZ.lrun n z.lstep

/-- an observation of `z.err`: the listener has taken some more steps -/
def PZ.sync (s : Sched) (z : PZ) : PZ := PZ.lrun (s.run z.tick) { z with tick := z.tick + 1 }

/-- `compressCurrent(flush)` -/
def PZ.compressCurrent (c : PCodec) (s : Sched) (flush : Bool) (z : PZ) : PZ :=
  let z := z.sync s
  if z.err && s.sel z.tick then z
  else
    let z := { z with pend := z.pend ++ [c.blk z.done z.cur z.closed], done := z.done ++ z.cur, cur := [] }
    if flush then PZ.lrun z.pend.length z else z

/-- the loop of `Write`: `for len(q) > 0 { … }; return len(p), z.checkError()`; result `(z, n, err != nil)` -/
def PZ.loop (c : PCodec) (s : Sched) : Nat → PZ → Bytes → Nat → PZ × Nat × Bool
  | 0, z, _, plen => (z, plen, z.err)
  | f+1, z, q, plen =>
    if q.length = 0 then
      let z := z.sync s
      (z, plen, z.err)
    else
      let len := min q.length (c.bs - z.cur.length)
      let z := { z with cur := z.cur ++ q.take len }
      if z.cur.length = c.bs then
        let z := (z.compressCurrent c s false).sync s
        if z.err then (z, plen - q.length, true)
        else PZ.loop c s f z (q.drop len) plen
      else PZ.loop c s f z (q.drop len) plen

/-- `(*Writer).Write(p)` without the ghost field -/
def PZ.write0 (c : PCodec) (s : Sched) (z : PZ) (p : Bytes) : PZ × Nat × Bool :=
  let z := z.sync s
  if z.err then (z, 0, true)
  else if !z.wroteHeader then
    let r := z.sink.write c.hdr
    if r.2.2 then ({ z with wroteHeader := true, sink := r.1, err := true }, r.2.1, true)
    else PZ.loop c s (p.length + 1) { z with wroteHeader := true, listening := true, sink := r.1, cur := [] } p p.length
  else PZ.loop c s (p.length + 1) z p p.length

def PZ.write (c : PCodec) (s : Sched) : WFn PZ := fun z p =>
  let r := PZ.write0 c s z p
  ({ r.1 with acc := r.1.acc ++ p.take r.2.1 }, r.2.1, r.2.2)

/-- the end of `Close`: `z.compressCurrent(true); if err := z.checkError() …; close(z.results)`; the trailer -/
def PZ.closeTail (c : PCodec) (s : Sched) (z1 : PZ) : PZ × Bool :=
  let z3 := (z1.compressCurrent c s true).sync s
  if z3.err then (z3, true)
  else
    let r := z3.sink.write (c.trl (z3.done ++ z3.cur))
    if r.2.2 then ({ z3 with sink := r.1, err := true }, true) else ({ z3 with sink := r.1 }, false)

/-- `(*Writer).Close()`; result `(z, err != nil)` -/
def PZ.close (c : PCodec) (s : Sched) (z : PZ) : PZ × Bool :=
  let z := z.sync s
  if z.err then (z, true)
  else
    let z := { z with closed := true }
    let z1 := if z.wroteHeader then z else ((PZ.write0 c s z []).1).sync s
    if z1.err then (z1, true) else PZ.closeTail c s z1

def pz0 (limit : Nat) (cf : Bool) : PZ := ⟨false, false, false, [], [], [], false, [], false, 0, ⟨limit, [], cf⟩⟩

/-- compressed `Wfile.Close` over the transcribed pgzip: `fw.Flush()`, `gf.Close()`, `out.Close()` if owned -/
def closeP (c : PCodec) (s : Sched) (own : Bool) (b : GW PZ) : Outcome × Bytes :=
  let b := b.flush (PZ.write c s)
  let r := PZ.close c s b.dev
  if b.err || r.2 || (own && r.1.sink.closeFails) then (.fatal, r.1.sink.got) else (.ok, r.1.sink.got)

def writeRawP (c : PCodec) (s : Sched) (size limit : Nat) (cf own : Bool) (arr : List (Nat × Bytes)) : Outcome × Bytes :=
  closeP c s own (Reseq.run (emitRawG (PZ.write c s)) (emitRawG (PZ.write c s)) ⟨size, [], false, pz0 limit cf⟩ arr).acc

def writeJsonP (c : PCodec) (s : Sched) (size limit : Nat) (cf own : Bool) (arr : List (Nat × Bytes)) : Outcome × Bytes :=
  let b0 : GW PZ := (⟨size, [], false, pz0 limit cf⟩ : GW PZ).write (PZ.write c s) openJson
  closeP c s own ((Reseq.run (emitJsonG (PZ.write c s)) (emitJsonG (PZ.write c s)) ⟨b0, false⟩ arr).acc.bw.write (PZ.write c s) closeJson)

/-! ## what the stream is: the input fed one byte at a time -/

structure Feed where
  done : Bytes
  cur : Bytes
  out : Bytes

def PCodec.feed1 (c : PCodec) (f : Feed) (x : UInt8) : Feed :=
  if (f.cur ++ [x]).length = c.bs then ⟨f.done ++ (f.cur ++ [x]), [], f.out ++ c.blk f.done (f.cur ++ [x]) false⟩
  else ⟨f.done, f.cur ++ [x], f.out⟩

def PCodec.feed (c : PCodec) (e : Bytes) : Feed := e.foldl c.feed1 ⟨[], [], []⟩

/-- header and complete blocks -/
def PCodec.pre (c : PCodec) (e : Bytes) : Bytes := c.hdr ++ (c.feed e).out

/-- last block (possibly empty) and trailer -/
def PCodec.fin (c : PCodec) (e : Bytes) : Bytes := c.blk (c.feed e).done (c.feed e).cur true ++ c.trl e

/-- the transcribed writer seen as an abstract compressor of `Model/WriteDev.lean` -/
def PCodec.toCodec (c : PCodec) : Codec := ⟨c.pre, c.fin⟩

/-- the compressor of the executable model: the measured length of the stream, blocks of 1 MiB of input -/
def lenPCodec (zlen : Nat) : PCodec :=
  ⟨1048576, List.replicate 10 0, fun _ _ closed => if closed then List.replicate (zlen - 18) 0 else [], fun _ => List.replicate 8 0⟩

end ObiVerif.WriteErr
