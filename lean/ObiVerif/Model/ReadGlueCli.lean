import ObiVerif.Model.ReadGlue
/-!
# C01, glue pass: the parameters `CLIReadBioSequences` derives from the options, and the replay of an observed
numbering of batches as an execution of the transition system of `ReadSequencesBatchFromFiles`

`Model/ReadGlue.lean` (property C17, imported unchanged) is the transition system: `concurrent_readers` goroutines take
file names from a channel and push the batches of their file, renumbered with a shared counter.  This file adds

* `Opts`, `nReader`, `nWorkers`: what pkg/obitools/obiconvert/sequence_reader.go `CLIReadBioSequences` and
  pkg/obioptions/options.go make of the option globals (number of file readers, of parser workers);
* `tagged`: input files whose batches carry (file, rank), so that the observation of a run (the file of the batch
  numbered 0, 1, 2, …) determines the whole `out` list;
* `replay`: a search for the schedule that produces an observed numbering; every move it makes is a `stepAt` of the
  transition system, so an accepted observation IS the end of an execution (`Lemmas.ReadGlueRecords.replay_reach`).
-/
namespace ObiVerif.ReadGlueCli
open ObiVerif.ReadGlue ObiVerif.ReadErr

/-- the option state `CLIReadBioSequences` consults -/
structure Opts where
  /-- `obioptions.SetStrictReadWorker(n)` of the command's `main` (obiconvert: 2); 0 = not set -/
  strictReadWorker : Nat
  /-- `obioptions.SetParallelFilesRead(n)` of the command's `main` (obipcr); 0 = not set -/
  parallelFilesRead : Nat
  /-- `--max-cpu` / `OBIMAXCPU` / `runtime.NumCPU()` -/
  maxCpu : Nat
  /-- `--no-order` -/
  noOrder : Bool
  deriving Repr

/-- `GenerateOptionParser`: `if _MaxAllowedCPU == 1 { SetMaxCPU(2) }` -/
def effCpu (c : Nat) : Nat := if c = 1 then 2 else c

/-- `obioptions.CLIReadParallelWorkers`: `int(float64(CLIMaxCPU()) * 0.25)`, 0 replaced by 1, unless a strict number
of read workers was set (`_ReadWorkerPerCore` = 0.25: the product is exact in float64, its integer part is `/ 4`) -/
def readWorkers (o : Opts) : Nat :=
  if o.strictReadWorker = 0 then (if effCpu o.maxCpu / 4 = 0 then 1 else effCpu o.maxCpu / 4) else o.strictReadWorker

/-- `obioptions.ParallelFilesRead` -/
def parallelFiles (o : Opts) : Nat := if o.parallelFilesRead = 0 then readWorkers o else o.parallelFilesRead

/-- `nreader := 1; if CLINoInputOrder() { nreader = obioptions.ParallelFilesRead() }` -/
def nReader (o : Opts) : Nat := if o.noOrder then parallelFiles o else 1

/-- `nworkers := obioptions.CLIReadParallelWorkers(); if nworkers < 2 { nworkers = 2 }` (parser workers per file) -/
def nWorkers (o : Opts) : Nat := if readWorkers o < 2 then 2 else readWorkers o

/-- complete input files whose batches are tagged (file, rank): file `i` delivers `ks[i]` batches -/
def taggedFrom (i : Nat) : List Nat → List (FileRes (Nat × Nat))
  | [] => []
  | k :: ks => .stream ((List.range k).map fun r => (i, r)) .ok :: taggedFrom (i + 1) ks

def tagged (ks : List Nat) : List (FileRes (Nat × Nat)) := taggedFrom 0 ks

/-- index of the first reader satisfying `p` -/
def findReader {β : Type} (p : RState β → Bool) (rs : List (RState β)) : Option Nat :=
  let i := rs.findIdx p
  if i < rs.length then some i else none

/-- the reader is inside file `j` and has a batch to push -/
def headIs (j : Nat) : RState (Nat × Nat) → Bool
  | .reading ((i, _) :: _) _ => i == j
  | _ => false

def isFinished {β : Type} : RState β → Bool
  | .reading [] .ok => true
  | _ => false

def isIdle {β : Type} : RState β → Bool
  | .idle => true
  | _ => false

/-- the moves after which file `j` has pushed its next batch: the reader inside `j` pushes; if no reader is inside `j`, a
reader that finished its file goes back to the channel, or an idle reader takes the next file name.
Soundness is proved (every move is a `stepAt`).  Completeness is not proved; the argument: files are opened as late as
possible and closed as early as possible, so at every point of the observation the readers occupied here are occupied in
every execution with the same numbering (a file that has pushed a batch and still has one to push holds a reader in all of
them; the files before `j` in the list must have been taken before `j`) -/
def feed (j : Nat) : Nat → St (Nat × Nat) → Option (St (Nat × Nat))
  | 0, _ => none
  | fuel + 1, s =>
    match findReader (headIs j) s.readers with
    | some i => stepAt false i s
    | none =>
      match findReader isFinished s.readers with
      | some i => (stepAt false i s).bind (feed j fuel)
      | none =>
        match findReader isIdle s.readers with
        | some i => if s.queue.isEmpty then none else (stepAt false i s).bind (feed j fuel)
        | none => none

/-- feed the whole observation -/
def feedAll : List Nat → St (Nat × Nat) → Option (St (Nat × Nat))
  | [], s => some s
  | j :: js, s => (feed j (measure s + 1) s).bind (feedAll js)

/-- `replay ks nreader trace`: the end of an execution of `ReadSequencesBatchFromFiles` on files of `ks[i]` batches with
`nreader` readers in which the batch numbered `n` belongs to file `trace[n]`, if the search finds one -/
def replay (ks : List Nat) (nreader : Nat) (trace : List Nat) : Option (St (Nat × Nat)) :=
  let s0 := init (tagged ks) nreader
  match feedAll trace s0 with
  | none => none
  | some s =>
    let s' := run false (measure s) [] s
    if !s'.dead && s'.readers.all RState.isDone && s'.out.map (fun p => p.2.1) == trace then some s' else none

end ObiVerif.ReadGlueCli
