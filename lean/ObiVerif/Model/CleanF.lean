import ObiVerif.Model.Clean
import ObiVerif.Model.F64
/-!
# obiclean with the arithmetic of the code made a parameter (property C13, deepening round 3)

`Model/Clean.lean` computes the two numerical expressions of graph.go with exact rationals (`roundDiv`, `ratioKeeps`).
Here the SAME pipeline (`rfunc`, `leafPass`, `innerPass`, `innerLoop`, `reweight`, `FilterGraphOnRatio`, `finish`,
`cleanSample`, `cleanDataset`) is parameterised by an `Arith`:

* `exactArith` : the rational arithmetic — `cleanSampleA exactArith = cleanSample` (`Props/C13F.lean`, by unfolding), so every
  theorem of Props/C13 / C13W is a theorem about this instance;
* `floatArith` : the float64 arithmetic of the code (`Model/F64.lean`: `float64(w) * float64(c) / swf` with the
  accumulated float sum `swf`, `math.Round`, `float64(w1) / float64(wf) <= math.Pow(ratio, float64(dist))` with Go's
  `pow` loop). This is the instance the driver prints, i.e. the one tied to the real code — also where the two
  differ (weights with `w * c ≥ 2^53`, non-dyadic ratios with `--distance > 1`).

`floatSafe` : the two instances give the same result on this sample. `Lemmas/F64.lean` proves the local agreement
(`share_exact`, `keeps_exact_d1`, …) under explicit bounds.
-/
namespace ObiVerif.Clean

/-- the two numerical expressions of graph.go -/
structure Arith where
  /-- `int(math.Round(float64(w) * float64(c) / swf))`, `fcounts` = the counts of the fathers of the firing row, edge order -/
  share : Nat → Nat → List Nat → Nat
  /-- `(c1 / float64(weight father)) <= math.Pow(ratio, float64(dist))`, `ratio = p / q`; `none` = outside the modelled range -/
  keeps : Nat → Nat → Nat → Nat → Int → Option Bool

def exactArith : Arith :=
  { share := fun w c fs => roundDiv (w * c) fs.sum,
    keeps := fun p q w1 wf dist => some (ratioKeeps p q w1 wf dist) }

def floatArith : Arith :=
  { share := F64.share,
    keeps := fun p q w1 wf dist => F64.keeps p q w1 wf dist.toNat }

/-- `rfunc(node)` -/
def rfuncA (A : Arith) (counts : Array Nat) (edges : Array (List Edge)) (k : Nat) (s : RW) : RW :=
  let s : RW := { s with added := s.added.setIfInBounds k 0 }
  let es := edges.getD k []
  let fs := es.map (fun e => counts.getD e.father 0)
  let wk := s.weight.getD k 0
  es.foldl (fun s e =>
    { weight := s.weight.modify e.father (· + A.share wk (counts.getD e.father 0) fs),
      added := s.added.modify e.father (· + 1) }) s

def leafPassA (A : Arith) (counts : Array Nat) (edges : Array (List Edge)) (sons : Array Nat) (s : RW) : RW :=
  (List.range counts.size).foldl (fun s k => if sons.getD k 0 == 0 then rfuncA A counts edges k s else s) s

def innerPassA (A : Arith) (counts : Array Nat) (edges : Array (List Edge)) (sons : Array Nat) (s : RW) : RW × Bool :=
  (List.range counts.size).foldl (fun (acc : RW × Bool) k =>
    if sons.getD k 0 > 0 ∧ sons.getD k 0 == acc.1.added.getD k 0 then (rfuncA A counts edges k acc.1, true) else acc) (s, false)

def innerLoopA (A : Arith) (counts : Array Nat) (edges : Array (List Edge)) (sons : Array Nat) : Nat → RW → Option RW
  | 0, _ => none
  | fuel + 1, s =>
    let r := innerPassA A counts edges sons s
    if r.2 then innerLoopA A counts edges sons fuel r.1 else some r.1

def reweightA (A : Arith) (counts : Array Nat) (edges : Array (List Edge)) (sons : Array Nat) : Option (Array Nat) :=
  let s0 : RW := { weight := counts, added := Array.replicate counts.size 0 }
  (innerLoopA A counts edges sons (counts.size + 2) (leafPassA A counts edges sons s0)).map (·.weight)

/-- an edge whose test is outside the modelled float range is kept and reported by `rangeOK` -/
def filterRowA (A : Arith) (p q : Nat) (weight : Array Nat) (i : Nat) (es : List Edge) : List Edge :=
  es.filter (fun e => (A.keeps p q (weight.getD i 0) (weight.getD e.father 0) e.dist).getD true)

def filterEdgesA (A : Arith) (p q : Nat) (weight : Array Nat) (es : List (List Edge)) : List (List Edge) :=
  es.zipIdx.map (fun (r : List Edge × Nat) => filterRowA A p q weight r.2 r.1)

def finishA (A : Arith) (cfg : Config) (ns : Array Node) (es1 : List (List Edge)) (sons1 : List Nat)
    (es2 : List (List Edge)) (sons2 : List Nat) : Outcome :=
  let counts := (ns.toList.map (·.count)).toArray
  match reweightA A counts es1.toArray sons1.toArray with
  | none => .hang
  | some weight =>
    let es := appendRows es1 es2
    let sons := List.zipWith (· + ·) sons1 sons2
    let esF := if cfg.p < cfg.q then filterEdgesA A cfg.p cfg.q weight es else es
    let sonsF : List Int := if cfg.p < cfg.q then sonsAfterFilter sons es esF else sons.map Int.ofNat
    .ok ((List.range ns.size).map fun i =>
      { node := ns.getD i ⟨0, 0, []⟩, weight := weight.getD i 0, sons := sonsF.getD i 0, edges := esF.getD i [] })

def cleanSampleA (A : Arith) (K : Kernels) (cfg : Config) (sample : List Node) : Outcome :=
  let ns := (sortByCount sample).toArray
  let es1 := edges1 K ns
  let sons1 := sonCount ns.size es1
  let es2 := edges2 K cfg.maxError ns es1
  let sons2 := sonCount ns.size es2
  finishA A cfg ns es1 sons1 es2 sons2

def cleanDatasetA (A : Arith) (K : Kernels) (cfg : Config) (db : List Rec) : Option (List Annot) :=
  (runSamples (fun _ s => cleanSampleA A K cfg s) db).map (annotateAll db)

/-- every ratio test of the float run of this sample is inside the modelled range (normal doubles) -/
def rangeOK (K : Kernels) (cfg : Config) (sample : List Node) : Bool :=
  if cfg.p < cfg.q then
    let ds := ((edges1 K (sortByCount sample).toArray).flatten ++
      (edges2 K cfg.maxError (sortByCount sample).toArray (edges1 K (sortByCount sample).toArray)).flatten).map (·.dist)
    ds.all (fun d => (floatArith.keeps cfg.p cfg.q 1 1 d).isSome)
  else true

/-- the float64 arithmetic of the code and the exact rationals give the same graph, weights and son counts on this sample -/
def floatSafe (K : Kernels) (cfg : Config) (sample : List Node) : Bool :=
  rangeOK K cfg sample && decide (cleanSampleA floatArith K cfg sample = cleanSample K cfg sample)

/-! ## the side outputs of `CLIOBIClean` : `--save-ratio` (EstimateRatio + EmpiricalDistCsv), `--save-graph` (Gml)

`EstimateRatio` ranges over the Go map `samples` and APPENDS to `ratio[edge.NucPair]`: within one sample the rows come
in node order then edge order, but the samples come in map-iteration order. `ratioRows` is the table with the samples
in increasing name order; the harness compares the real table as a MULTISET (sorted lines) with it and records
whether the line order of the real file changes from run to run. -/

/-- one line of the CSV (without the sample name, the father id and its status, which are `sample`, `father`, `fstatus`) -/
structure RatioRow where
  pair : Nat
  sample : Nat
  father : Nat
  fstatus : Status
  wFrom : Nat
  wTo : Nat
  cFrom : Nat
  cTo : Nat
  pos : Int
  length : Nat
  na : Nat
  nc : Nat
  ng : Nat
  nt : Nat
  deriving Repr, DecidableEq

/-- `nucPair(from, to)` -/
def nucCode (b : UInt8) : Nat := if b == 97 then 1 else if b == 99 then 2 else if b == 103 then 3 else if b == 116 then 4 else 0
def nucPair (a b : UInt8) : Nat := nucCode a * 5 + nucCode b

/-- the rows `EstimateRatio` appends for one sample (`father.Weight >= minStatRatio && edge.Dist == 1`) -/
def ratioRowsOf (minEval : Nat) (name : Nat) (outs : List Out) : List RatioRow :=
  outs.flatMap (fun o => o.edges.filterMap (fun e =>
    match outs[e.father]? with
    | some f =>
      if f.weight ≥ minEval ∧ e.dist = 1 then
        some { pair := nucPair e.frm e.to, sample := name, father := f.node.orig, fstatus := status f.edges f.sons,
               wFrom := f.weight, wTo := o.weight, cFrom := f.node.count, cTo := o.node.count, pos := e.pos,
               length := f.node.seq.length, na := f.node.seq.count 97, nc := f.node.seq.count 99,
               ng := f.node.seq.count 103, nt := f.node.seq.count 116 }
      else none
    | none => none))

/-- the table, samples by increasing name; the file lists the pair codes 0..24 in order (`EmpiricalDistCsv`) -/
def ratioRows (minEval : Nat) (res : List (Nat × List Out)) : List RatioRow :=
  (List.range 25).flatMap (fun code => (res.flatMap (fun r => ratioRowsOf minEval r.1 r.2)).filter (fun row => row.pair == code))

/-- what `Gml` shows of one sample: the nodes it lists (`or $data.Edges (gt $data.SonCount 0)`) with
`(index, shape = circle?, head colour?, 3*floor(sqrt count), count)` and the edges `(source, target, dist)` in
node order then edge order -/
def gmlOf (minEval : Nat) (outs : List Out) : List (Nat × Bool × Bool × Nat × Nat) × List (Nat × Nat × Int) :=
  ((outs.zipIdx.filter (fun (r : Out × Nat) => !r.1.edges.isEmpty || decide (r.1.sons > 0))).map (fun (r : Out × Nat) =>
      (r.2, decide (r.1.node.count ≥ minEval), decide (r.1.sons > 0) && r.1.edges.isEmpty, 3 * r.1.node.count.sqrt, r.1.node.count)),
   outs.zipIdx.flatMap (fun (r : Out × Nat) => r.1.edges.map (fun e => (r.2, e.father, e.dist))))

end ObiVerif.Clean
