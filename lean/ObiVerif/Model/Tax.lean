/-!
# Model of the taxonomy queries of `pkg/obitax` (C14)

A loaded taxonomy (`obitax.Taxonomy` after `AddNewTaxa`* ; `ReindexParent` ; `AddNewAlias`*) is
* `node : Nat → Option Node` — the `nodes` map (`taxid -> *TaxNode`), a node carrying the *taxid of its
  parent* and its rank.  After a successful `ReindexParent` the pointer `pparent` of a node is
  `nodes[parent]`, there is one `TaxNode` object per taxid, so the pointer comparisons of the Go code
  (`taxon != taxon.pparent`) are comparisons of taxids; the model follows parent *taxids*.
* `alias : Nat → Option Nat` — the `alias` map (`old taxid -> *TaxNode`), as the taxid of the target node.
* `ids` — the keys of `nodes` (used by `RankList`, `ReindexParent`, and as the source of the fuel).

Every walking-up loop of the Go code (`for taxon != taxon.pparent`, `for … taxon.parent != taxon.taxid`)
is unbounded; here it carries a fuel and running out of fuel is the explicit outcome `hang`
(the Go loop does not terminate on a parent cycle).  A nil `pparent` dereference is `panic`, the
`"Taxonomy must be reindexed"` error of `Path` is `err`, `log.Fatalf` is `fatal`.

Scientific names are not part of the model (the harness checks them next to the taxids).
-/
namespace ObiVerif.Tax

/-- `TaxNode` : `parent` (taxid of the parent; the root is its own parent) and `rank` -/
structure Node where
  parent : Nat
  rank : String
deriving Repr, DecidableEq

structure Taxo where
  ids : List Nat
  node : Nat → Option Node
  alias : Nat → Option Nat

/-- abnormal outcomes of the Go code -/
inductive Bad where
  | err     -- an `error` value is returned
  | panic   -- runtime panic / `log.Panicf`
  | hang    -- the loop does not terminate (model: fuel exhausted)
  | fatal   -- `log.Fatalf`
deriving Repr, DecidableEq

abbrev Res (α : Type) := Except Bad α

/-! ## loading -/

/-- `Taxonomy.ReindexParent` succeeds iff the parent of every node is a node -/
def reindexOk (t : Taxo) : Bool :=
  t.ids.all fun x => match t.node x with
    | some n => (t.node n.parent).isSome
    | none => true

/-- `Taxonomy.Taxon(taxid)` : the `nodes` map first, then the `alias` map; `none` = error
"Taxid %d is not part of the taxonomy" -/
def resolve (t : Taxo) (id : Nat) : Option Nat :=
  match t.node id with
  | some _ => some id
  | none => t.alias id

/-- `Taxonomy.AddNewAlias(newtaxid, oldtaxid)` : `n, err := Taxon(newtaxid)`; on error nothing is
recorded (the NCBI loader ignores the error), else `alias[oldtaxid] = n` -/
def addAlias (t : Taxo) (new old : Nat) : Taxo :=
  match resolve t new with
  | some n => { t with alias := fun k => if k = old then some n else t.alias k }
  | none => t

/-- `loadMergedTable`: the lines `(old, new)` of merged.dmp in file order -/
def addAliases (t : Taxo) (l : List (Nat × Nat)) : Taxo :=
  l.foldl (fun t p => addAlias t p.2 p.1) t

/-- `Taxonomy.RankList` (as a list with repetitions; only membership is used) -/
def rankList (t : Taxo) : List String :=
  t.ids.filterMap fun x => (t.node x).map (·.rank)

/-! ## `TaxNode.Path` (path.go) -/

/-- `path = [taxon]; for taxon != taxon.pparent { taxon = taxon.pparent; if taxon == nil { return err };
path = append(path, taxon) }` — called on the node of taxid `x` -/
def path (t : Taxo) : Nat → Nat → Res (List Nat)
  | 0, _ => .error .hang
  | f + 1, x =>
    match t.node x with
    | none => .error .err
    | some n =>
      if n.parent = x then .ok [x]
      else match path t f n.parent with
        | .ok p => .ok (x :: p)
        | .error e => .error e

/-- `Taxonomy.Path(taxid)` -/
def taxoPath (t : Taxo) (fuel id : Nat) : Res (List Nat) :=
  match resolve t id with
  | none => .error .err
  | some x => path t fuel x

/-! ## `TaxNode.LCA` (lca.go) -/

/-- the loop `for i1 >= 0 && i2 >= 0 && p1[i1].taxid == p2[i2].taxid { i1--; i2-- }` run on the two
paths read from their root end; `acc` is `p1[i1+1]` (`none` while `i1+1 = len(p1)`) -/
def lastCommon : List Nat → List Nat → Option Nat → Option Nat
  | a :: as, b :: bs, acc => if a = b then lastCommon as bs (some a) else acc
  | _, _, acc => acc

/-- `t1.LCA(t2)` on the nodes of taxids `x`, `y`; `(*p1)[len(*p1)]` (the two paths end at different
roots) is an index-out-of-range panic -/
def lca (t : Taxo) (fuel x y : Nat) : Res Nat :=
  match path t fuel x with
  | .error e => .error e
  | .ok p1 =>
    match path t fuel y with
    | .error e => .error e
    | .ok p2 =>
      match lastCommon p1.reverse p2.reverse none with
      | some z => .ok z
      | none => .error .panic

/-! ## `TaxNode.IsSubCladeOf`, `TaxonAtRank`, `HasRankDefined` -/

/-- `for taxon.taxid != parent.taxid && taxon.parent != taxon.taxid { taxon = taxon.pparent };
return taxon.taxid == parent.taxid` (issuubcladeof.go) -/
def isSubCladeOf (t : Taxo) (target : Nat) : Nat → Nat → Res Bool
  | 0, _ => .error .hang
  | f + 1, x =>
    match t.node x with
    | none => .error .panic
    | some n =>
      if x = target then .ok true
      else if n.parent = x then .ok false
      else isSubCladeOf t target f n.parent

/-- `for taxon.rank != rank && taxon != taxon.pparent { taxon = taxon.pparent; … };
if taxon == taxon.pparent && taxon.rank != rank { taxon = nil }` (path.go) -/
def taxonAtRank (t : Taxo) (rank : String) : Nat → Nat → Res (Option Nat)
  | 0, _ => .error .hang
  | f + 1, x =>
    match t.node x with
    | none => .error .panic
    | some n =>
      if n.rank = rank then .ok (some x)
      else if n.parent = x then .ok none
      else taxonAtRank t rank f n.parent

/-- `for node.rank != rank && node.parent != node.taxid { node = node.pparent }; return node.rank == rank`
(taxon.go) -/
def hasRankDefined (t : Taxo) (rank : String) : Nat → Nat → Res Bool
  | 0, _ => .error .hang
  | f + 1, x =>
    match t.node x with
    | none => .error .panic
    | some n =>
      if n.rank = rank then .ok true
      else if n.parent = x then .ok false
      else hasRankDefined t rank f n.parent

/-! ## sequence predicates and annotations (sequence_predicate.go, sequence_methods.go,
obigrep/options.go) as functions of the sequence's taxid -/

/-- `BioSequence.Taxid()` : the `taxid` attribute, 1 when absent -/
def seqTaxid (a : Option Nat) : Nat := a.getD 1

/-- `Taxonomy.IsAValidTaxon()` -/
def isValidTaxon (t : Taxo) (tid : Nat) : Bool := (resolve t tid).isSome

/-- the closure returned by `Taxonomy.IsSubCladeOf(clade)` for an already resolved clade node `c` -/
def inClade (t : Taxo) (fuel c tid : Nat) : Res Bool :=
  match resolve t tid with
  | none => .ok false
  | some x => isSubCladeOf t c fuel x

/-- `p1.Or(p2).Or(p3)…` (obiseq/predicate.go: left to right, stops at the first `true`) -/
def anyClade (t : Taxo) (fuel tid : Nat) : List Nat → Res Bool
  | [] => .ok false
  | c :: cs =>
    match inClade t fuel c tid with
    | .error e => .error e
    | .ok true => .ok true
    | .ok false => anyClade t fuel tid cs

/-- `Taxonomy.IsSubCladeOf(taxid)` is `log.Fatalf` when the taxid is unknown: all the clades of the
option are resolved when the predicate is built -/
def resolveAll (t : Taxo) : List Nat → Res (List Nat)
  | [] => .ok []
  | c :: cs =>
    match resolve t c with
    | none => .error .fatal
    | some x => match resolveAll t cs with
      | .ok r => .ok (x :: r)
      | .error e => .error e

/-- `CLIRestrictTaxonomyPredicate` with numeric `--restrict-to-taxon` values (non-empty list) -/
def restrictTo (t : Taxo) (fuel : Nat) (clades : List Nat) (tid : Nat) : Res Bool :=
  match resolveAll t clades with
  | .error e => .error e
  | .ok cs => anyClade t fuel tid cs

/-- `CLIAvoidTaxonomyPredicate` (`--ignore-taxon`, non-empty list): `p.Or(…).Not()` -/
def ignoreTaxon (t : Taxo) (fuel : Nat) (clades : List Nat) (tid : Nat) : Res Bool :=
  match restrictTo t fuel clades tid with
  | .ok b => .ok (!b)
  | .error e => .error e

/-- the closure returned by `Taxonomy.HasRequiredRank(rank)` -/
def hasRank (t : Taxo) (fuel : Nat) (rank : String) (tid : Nat) : Res Bool :=
  match resolve t tid with
  | none => .ok false
  | some x => hasRankDefined t rank fuel x

/-- `p1.And(p2)…` : stops at the first `false` -/
def allRanks (t : Taxo) (fuel tid : Nat) : List String → Res Bool
  | [] => .ok true
  | r :: rs =>
    match hasRank t fuel r tid with
    | .error e => .error e
    | .ok false => .ok false
    | .ok true => allRanks t fuel tid rs

/-- `CLIHasRankDefinedPredicate` (`--require-rank`, non-empty list); `HasRequiredRank` is `log.Fatalf`
for a rank that no node of the taxonomy carries -/
def requireRanks (t : Taxo) (fuel : Nat) (ranks : List String) (tid : Nat) : Res Bool :=
  if ranks.all (fun r => (rankList t).contains r) then allRanks t fuel tid ranks
  else .error .fatal

/-- `CLITaxonomyFilterPredicate` : `CLIHasRankDefinedPredicate().And(CLIRestrictTaxonomyPredicate()).And(
CLIAvoidTaxonomyPredicate())`, an option that was not given contributing a `nil` predicate (skipped by
`And`); every `log.Fatalf` happens while the three predicates are built -/
def taxFilter (t : Taxo) (fuel : Nat) (ranks : List String) (restrict ignore : List Nat) (tid : Nat) : Res Bool :=
  if !(ranks.all (fun r => (rankList t).contains r)) then .error .fatal else
  match resolveAll t restrict with
  | .error e => .error e
  | .ok cs =>
    match resolveAll t ignore with
    | .error e => .error e
    | .ok is =>
      match allRanks t fuel tid ranks with
      | .error e => .error e
      | .ok false => .ok false
      | .ok true =>
        match (if cs.isEmpty then .ok true else anyClade t fuel tid cs) with
        | .error e => .error e
        | .ok false => .ok false
        | .ok true =>
          if is.isEmpty then .ok true else
          match anyClade t fuel tid is with
          | .error e => .error e
          | .ok b => .ok (!b)

/-- the closure returned by `Taxonomy.IsSubCladeOfSlot(key)`: `slot` is the taxid parsed from the
attribute (`none`: attribute absent or not a taxid) -/
def inCladeSlot (t : Taxo) (fuel : Nat) (slot : Option Nat) (tid : Nat) : Res Bool :=
  match slot with
  | none => .ok false
  | some c =>
    match resolve t c, resolve t tid with
    | some c, some x => isSubCladeOf t c fuel x
    | _, _ => .ok false

/-- `Taxonomy.SetTaxonAtRank(sequence, rank)` : `none` = no annotation (unknown taxid),
`some none` = `rank_taxid: -1`, `some (some z)` = `rank_taxid: z` -/
def setTaxonAtRank (t : Taxo) (fuel : Nat) (rank : String) (tid : Nat) : Res (Option (Option Nat)) :=
  match resolve t tid with
  | none => .ok none
  | some x => match taxonAtRank t rank fuel x with
    | .ok r => .ok (some r)
    | .error e => .error e

/-! ## `Taxonomy.LCA(sequence, threshold)` at `threshold = 1.0` (lca.go)

`rmax` starts at `1.0` and is multiplied by `float64(weighMax)/float64(total)` at each level; with
`0 ≤ weighMax ≤ total < 2^53` this quotient is exactly `1.0` when `weighMax = total` and strictly
below `1.0` otherwise, so `rmax >= 1.0` holds at the head of the loop iff `total > 0 ∧ weighMax = total`
held at every previous level: the model carries that integer condition instead of the float. -/

/-- one entry of `taxons`/`paths`: the node, its weight, `paths[taxon]` (root first) -/
structure WItem where
  node : Nat
  w : Nat
  rp : List Nat
deriving Repr

/-- `taxons[t] = v` : the assignment of the code BEFORE the repair 5d9c1cf (kept for `taxDistAssign`) -/
def setW : List (Nat × Nat) → Nat → Nat → List (Nat × Nat)
  | [], x, w => [(x, w)]
  | (x', v) :: r, x, w => if x' = x then (x', w) :: r else (x', v) :: setW r x w

/-- `taxons[t] += v` (lca.go, `TaxonomicDistribution`, since the repair 5d9c1cf) -/
def addW : List (Nat × Nat) → Nat → Nat → List (Nat × Nat)
  | [], x, w => [(x, w)]
  | (x', v) :: r, x, w => if x' = x then (x', v + w) :: r else (x', v) :: addW r x w

/-- `TaxonomicDistribution`: the keys of the `merged_taxid` map (already `strconv.Atoi`'d) resolved
through `Taxon`; an unknown taxid is `log.Panicf`.  The counts of the keys resolving to the same node
(a merged taxid and its current taxid) are ADDED (`taxons[t] += v`). -/
def taxDist (t : Taxo) : List (Nat × Nat) → List (Nat × Nat) → Res (List (Nat × Nat))
  | [], acc => .ok acc
  | (k, w) :: rest, acc =>
    match resolve t k with
    | none => .error .panic
    | some x => taxDist t rest (addW acc x w)

/-- `TaxonomicDistribution` as it was BEFORE the repair 5d9c1cf (`taxons[t] = v`): two keys resolving
to the same node overwrite each other, the key met last in the map iteration order wins.  Not the
code any more; kept so that the order dependence that was found stays stated (`weightedLcaAssign`,
Props `weightedLca_order_counterexample`). -/
def taxDistAssign (t : Taxo) : List (Nat × Nat) → List (Nat × Nat) → Res (List (Nat × Nat))
  | [], acc => .ok acc
  | (k, w) :: rest, acc =>
    match resolve t k with
    | none => .error .panic
    | some x => taxDistAssign t rest (setW acc x w)

/-- first loop of `Taxonomy.LCA`: the reversed path of every taxon -/
def mkItems (t : Taxo) (fuel : Nat) : List (Nat × Nat) → Res (List WItem)
  | [] => .ok []
  | (x, w) :: rest =>
    match path t fuel x with
    | .error _ => .error .panic
    | .ok p => match mkItems t fuel rest with
      | .ok r => .ok (⟨x, w, p.reverse⟩ :: r)
      | .error e => .error e

/-- `levels[k] += w` -/
def levelsAdd : List (Nat × Nat) → Nat → Nat → List (Nat × Nat)
  | [], k, w => [(k, w)]
  | (k', v) :: r, k, w => if k' = k then (k', v + w) :: r else (k', v) :: levelsAdd r k w

/-- `for taxon, weight := range taxons { if len(path) > i { levels[path[i]] += weight }; total += weight }` -/
def mkLevels (items : List WItem) (i : Nat) : List (Nat × Nat) × Nat :=
  items.foldl (fun (acc : List (Nat × Nat) × Nat) it =>
    (match it.rp[i]? with
      | some k => levelsAdd acc.1 k it.w
      | none => acc.1, acc.2 + it.w)) ([], 0)

/-- `for taxon, weight := range levels { if weight > weighMax { weighMax = weight; taxonMax = taxon } }` -/
def argMax (lv : List (Nat × Nat)) : Nat × Option Nat :=
  lv.foldl (fun (acc : Nat × Option Nat) kv => if kv.2 > acc.1 then (kv.2, some kv.1) else acc) (0, none)

/-- `delete(taxons, taxon)` for the taxa whose path has a level `i` different from `taxonMax` -/
def keepItem (i : Nat) (tmax : Option Nat) (it : WItem) : Bool :=
  match it.rp[i]? with
  | some k => tmax == some k
  | none => true

/-- the main loop, entered with `rmax = 1.0 >= threshold`; returns `answer` -/
def wloop : Nat → Nat → List WItem → Option Nat → Res (Option Nat)
  | 0, _, _, _ => .error .hang
  | f + 1, i, items, taxonMax =>
    let lt := mkLevels items i
    let am := argMax lt.1
    if lt.2 > 0 ∧ am.1 = lt.2 then
      wloop f (i + 1) (items.filter (keepItem i am.2)) am.2
    else .ok taxonMax

/-- `answer = (*p)[0]` of the last path of the first loop -/
def firstAnswer (items : List WItem) : Option Nat :=
  match items.getLast? with
  | some it => it.rp.head?
  | none => none

/-- `Taxonomy.LCA(sequence, 1.0)` once `TaxonomicDistribution` has produced `taxons` -/
def wlcaNodes (t : Taxo) (fuel : Nat) (dist : List (Nat × Nat)) : Res (Option Nat) :=
  match mkItems t fuel dist with
  | .error e => .error e
  | .ok items => wloop (fuel + 2) 0 items (firstAnswer items)

/-- `Taxonomy.LCA(sequence, 1.0)` on the (taxid, weight) pairs of the sequence's `merged_taxid`
statistics; `.ok none` is the `nil` answer (on which `AddLCAWorker` panics) -/
def weightedLca (t : Taxo) (fuel : Nat) (kws : List (Nat × Nat)) : Res (Option Nat) :=
  match taxDist t kws [] with
  | .error e => .error e
  | .ok dist => wlcaNodes t fuel dist

/-- `Taxonomy.LCA(sequence, 1.0)` with the UNREPAIRED `TaxonomicDistribution` (`taxDistAssign`) -/
def weightedLcaAssign (t : Taxo) (fuel : Nat) (kws : List (Nat × Nat)) : Res (Option Nat) :=
  match taxDistAssign t kws [] with
  | .error e => .error e
  | .ok dist => wlcaNodes t fuel dist

end ObiVerif.Tax
