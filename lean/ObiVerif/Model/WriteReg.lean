import ObiVerif.Model.WriteProc
/-!
# Dynamic registration of pipes (C18, process level)

`pkg/obiiter/batchiterator.go`: `RegisterAPipe` = `globalLocker.Add(1)`, `UnregisterPipe` = `globalLocker.Done()`,
`WaitForLastPipe` = `globalLocker.Wait()` on one process-wide `sync.WaitGroup`.  `Model/WriteProc.lean` assumes that
every writer is registered before `main` reaches `WaitForLastPipe`.  That is not true of every writer of the code:
`obigrep --save-discarded`, `obimultiplex -u` and `obitagpcr -u` start the writer of their second output from a
goroutine (`go func() { CLIWriteBioSequences(…) }()`): the `RegisterAPipe` of `WriteSeqFileChunk` is executed by that
goroutine, at a moment that may fall **after** `main` has started waiting.  `obigrep` and `obimultiplex` cover the gap
with a registration taken by `main` itself before the `go` statement and released (`defer UnregisterPipe()`) when the
goroutine returns, i.e. after the writer has registered its own pipe.

A *task* is one output stream:

* `static`: the writer was registered synchronously (`-o`, paired outputs, the files of `WriterDispatcher`): launcher
  already `released`, writer `busy`, one registration;
* `covered`: a registration is held on behalf of the task from before the `go` statement; the launcher goroutine
  (`idle`) registers the writer (`launched`, writer `busy`) and later releases the cover (`released`);
* `uncovered`: no registration is held before the launcher runs (the pattern of `obitagpcr -u`, and of `obimultiplex -u`
  / `obigrep --save-discarded` before their repair).

Threads, stepped by an arbitrary scheduler: `main` (`waiting` → `returned` when the counter is 0 → exit 0), the launcher
of each task, the writer of each task (`busy` → `reporting` → `os.Exit(1)` if its output fails, else `done` and − 1).
The launcher may release the cover at any moment after it registered the writer (in the code: once the iterator has been
consumed): more behaviours than the code has, the theorems hold for all of them.
-/
namespace ObiVerif.WriteProc

/-- state of a task: `idle` = its launcher goroutine has not run yet (no writer goroutine exists);
`run released w` = the launcher has registered the writer (`released`: it has also returned and dropped the cover),
the writer goroutine is in state `w` -/
inductive TSt | idle | run (released : Bool) (w : WSt)
  deriving DecidableEq, Repr

structure Task where
  cover : Bool          -- a registration is held for the task until its launcher returns
  fails : Bool          -- the verdict of the `Wfile` model for this output
  st : TSt
  deriving DecidableEq, Repr

inductive Kind | static | covered | uncovered
  deriving DecidableEq, Repr

def Task.mk0 (k : Kind) (fails : Bool) : Task :=
  match k with
  | .static => ⟨false, fails, .run true .busy⟩
  | .covered => ⟨true, fails, .idle⟩
  | .uncovered => ⟨false, fails, .idle⟩

inductive DAct | nop | reg | unreg | exit1
  deriving DecidableEq, Repr

/-- one step of the launcher goroutine of a task -/
def Task.lstep (t : Task) : Task × DAct :=
  match t.st with
  | .idle => ({ t with st := .run false .busy }, .reg)                        -- `WriteSeqFileChunk`: `RegisterAPipe()`
  | .run false w => ({ t with st := .run true w }, if t.cover then .unreg else .nop)   -- `defer UnregisterPipe()`
  | .run true _ => (t, .nop)

/-- one step of the writer goroutine of a task -/
def Task.wstep (t : Task) : Task × DAct :=
  match t.st with
  | .idle => (t, .nop)
  | .run r .busy => if t.fails then ({ t with st := .run r .reporting }, .nop) else ({ t with st := .run r .done }, .unreg)
  | .run _ .reporting => (t, .exit1)
  | .run _ .done => (t, .nop)

/-- step of task `i` (`wr = true`: its writer, `false`: its launcher) -/
def tstep (wr : Bool) : List Task → Nat → List Task × DAct
  | [], _ => ([], .nop)
  | t :: r, 0 => let s := if wr then t.wstep else t.lstep; (s.1 :: r, s.2)
  | t :: r, i+1 => (t :: (tstep wr r i).1, (tstep wr r i).2)

structure DProc where
  reg : Nat
  ts : List Task
  main : MSt
  exit : Option Nat

inductive DTid | main | launcher (i : Nat) | writer (i : Nat)
  deriving DecidableEq, Repr

def dstepT (p : DProc) (wr : Bool) (i : Nat) : DProc :=
  let r := tstep wr p.ts i
  match r.2 with
  | .nop => { p with ts := r.1 }
  | .reg => { p with ts := r.1, reg := p.reg + 1 }
  | .unreg => { p with ts := r.1, reg := p.reg - 1 }
  | .exit1 => { p with ts := r.1, exit := some 1 }

def dstep (p : DProc) (t : DTid) : DProc :=
  if p.exit.isSome then p
  else match t with
    | .main =>
      match p.main with
      | .waiting => if p.reg = 0 then { p with main := .returned } else p
      | .returned => { p with exit := some 0 }
    | .launcher i => dstepT p false i
    | .writer i => dstepT p true i

/-- registrations held by a task: the cover until the launcher has returned, the writer's own pipe while it is
`busy` or `reporting` -/
def Task.holds (t : Task) : Nat :=
  match t.st with
  | .idle => if t.cover then 1 else 0
  | .run r w => (if t.cover && !r then 1 else 0) + (if w = .done then 0 else 1)

def holds : List Task → Nat
  | [] => 0
  | t :: r => t.holds + holds r

/-- `main` has run its set-up synchronously and is about to call `WaitForLastPipe` -/
def dinit (ks : List (Kind × Bool)) : DProc :=
  let ts := ks.map fun k => Task.mk0 k.1 k.2
  ⟨holds ts, ts, .waiting, none⟩

def runD (ks : List (Kind × Bool)) (sched : List DTid) : DProc := sched.foldl dstep (dinit ks)

def exitD (ks : List (Kind × Bool)) (sched : List DTid) : Option Nat := (runD ks sched).exit

/-- schedule used by the executable model: `main` polls first (it is already waiting when the launchers run), then
every launcher registers, `main` polls, every launcher returns, `main` polls, every writer runs to its end, `main` -/
def canonD (n : Nat) : List DTid :=
  [.main, .main] ++ (List.range n).map DTid.launcher ++ [.main, .main] ++ (List.range n).map DTid.launcher ++
    [.main, .main] ++ ((List.range n).map fun i => [DTid.writer i, DTid.writer i]).flatten ++ [.main, .main]

/-- the launchers run late: the writers of the static tasks finish first -/
def lateD (n : Nat) : List DTid :=
  ((List.range n).map fun i => [DTid.writer i, DTid.writer i]).flatten ++ canonD n

end ObiVerif.WriteProc
