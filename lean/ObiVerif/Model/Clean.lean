import ObiVerif.Model.Lcs
/-!
# Model of the obiclean graph (property C13) — pkg/obitools/obiclean/graph.go, obiclean.go

One *sample* is a list of `(sequence, count)`; `CLIOBIClean` does, per sample:

* `sortSamples`            : stable sort by increasing count                                   → `sortByCount`
* `buildSamplePairs`       : row `i` (a son) scans the rows `j > i` with a strictly larger count; `D1Or0(son, father)`
                             decides the edge `makeEdge(j, d, pos, a2, a1)`, appended to `son.Edges` (owned by row `i`)
                             and counted in `father.SonCount`                                 → `rowEdges1`, `edges1`, `sonCount`
* `reweightSequences`      : the leaves, then repeatedly every node whose `AddedSons == SonCount`, hand their weight
                             to their fathers in proportion of the fathers' counts            → `reweight` (same loop, fuel)
* `extendSimilarityGraph`  : (only `--distance > 1`) rows still without edge scan `j > i`; when `D1Or0 < 0` and
                             `FastLCSScore` finds `d = alilen - lcs ≤ step`, edge `makeEdge(j, d, -1, '-', '-')`  → `rowEdges2`
* `FilterGraphOnRatio`     : (only `--ratio < 1`) keeps the edges with `weight(son)/weight(father) ≤ ratio^dist`,
                             decrements `SonCount` of the father of every removed edge        → `filterEdges`, `sonsAfterFilter`
* `ObicleanStatus`, `Mutation`, the status / weight annotations, `annotateOBIClean`           → `status`, `mutationOf`, `annotate`

The two kernels are parameters (`Kernels`): the theorems about schedules hold for every kernel, `edge_iff` and
`mutation_reproduces_edit` are about `d1F` (the structural layer of `D1Or0`, with `d1or0_spec` of C09).

This file is the SEQUENTIAL reference: `sonCount j` is "the number of edges pointing to `j`", i.e. what the loop
of `father.SonCount++` computes when no increment is lost. The worker pool (who increments when) is in
`Model/Race.lean`; `Props/C13.lean` proves that, with atomic increments, every schedule of the pool gives
exactly this reference.

Floats. `float64(w)*float64(c)/swf` then `math.Round`, and `w1/wf <= math.Pow(ratio, dist)` are modelled by exact
rational arithmetic on naturals (`roundDiv`, `ratioKeeps`). This is exact as long as `w*c < 2^52` and
`wf * q < 2^52` (`ratio = p/q`), and for `dist > 1` when `p/q` is dyadic (the harness only uses such values);
it is tied by the correspondence check, not proved.
-/
namespace ObiVerif.Clean
open ObiVerif.Lcs (Seq D1 d1F bandLCS)

/-- the two comparison kernels of pkg/obialign used by obiclean -/
structure Kernels where
  /-- `D1Or0(son, father)` -/
  d1 : Seq → Seq → D1
  /-- `FastLCSScore(son, father, step, buffer)`; `none` = `(-1, -1)` -/
  lcs : Seq → Seq → Int → Option (Nat × Nat)

/-- the kernels of the real code (structural layers of `Model/Lcs.lean`) -/
def realKernels : Kernels := { d1 := d1F, lcs := bandLCS }

/-- `seqPCR` : one sequence in one sample (`orig` = its index in the data set, used for the sequence id) -/
structure Node where
  orig : Nat
  count : Nat
  seq : Seq
  deriving Repr, DecidableEq

/-- `Edge` of graph.go (`NucPair` is a function of `From`, `To`) -/
structure Edge where
  father : Nat
  dist : Int
  pos : Int
  frm : UInt8
  to : UInt8
  deriving Repr, DecidableEq

/-! ## sortSamples -/

/-- insertion that keeps the input order among equal counts -/
def insertByCount (x : Node) : List Node → List Node
  | [] => [x]
  | y :: ys => if x.count ≤ y.count then x :: y :: ys else y :: insertByCount x ys

/-- `sort.SliceStable(*s, count[i] < count[j])` -/
def sortByCount (l : List Node) : List Node := l.foldr insertByCount []

/-! ## buildSamplePairs : the distance-one graph -/

/-- the body of the inner loop of `linePairs` for the pair (son `i`, father `j`) -/
def edgeTo1 (K : Kernels) (ns : Array Node) (i j : Nat) : Option Edge :=
  match ns[i]?, ns[j]? with
  | some son, some father =>
    if father.count > son.count then
      let d := K.d1 son.seq father.seq
      if d.verdict > 0 then some ⟨j, d.verdict, d.pos, d.a2, d.a1⟩ else none
    else none
  | _, _ => none

/-- `linePairs(i)` : the edges of row `i`, `for j := i + 1; j < nseq; j++` -/
def rowEdges1 (K : Kernels) (ns : Array Node) (i : Nat) : List Edge :=
  (List.range' (i + 1) (ns.size - (i + 1))).filterMap (edgeTo1 K ns i)

/-- every row -/
def edges1 (K : Kernels) (ns : Array Node) : List (List Edge) := (List.range ns.size).map (rowEdges1 K ns)

/-- number of edges of `es` pointing to `j` -/
def sonsOf (es : List (List Edge)) (j : Nat) : Nat := (es.flatten.filter (fun e => e.father == j)).length

/-- `SonCount` of every node once every `father.SonCount++` has been done -/
def sonCount (n : Nat) (es : List (List Edge)) : List Nat := (List.range n).map (sonsOf es)

/-! ## reweightSequences -/

/-- `int(math.Round(float64(a) / float64(b)))` for naturals: round half away from zero -/
def roundDiv (a b : Nat) : Nat := (2 * a + b) / (2 * b)

structure RW where
  weight : Array Nat
  added : Array Nat
  deriving Repr, DecidableEq

/-- `rfunc(node)` -/
def rfunc (counts : Array Nat) (edges : Array (List Edge)) (k : Nat) (s : RW) : RW :=
  let s : RW := { s with added := s.added.setIfInBounds k 0 }
  let es := edges.getD k []
  let swf := (es.map (fun e => counts.getD e.father 0)).sum
  let wk := s.weight.getD k 0
  es.foldl (fun s e =>
    { weight := s.weight.modify e.father (· + roundDiv (wk * counts.getD e.father 0) swf),
      added := s.added.modify e.father (· + 1) }) s

/-- `for _, node := range *seqs { if node.SonCount == 0 { rfunc(node) } }` -/
def leafPass (counts : Array Nat) (edges : Array (List Edge)) (sons : Array Nat) (s : RW) : RW :=
  (List.range counts.size).foldl (fun s k => if sons.getD k 0 == 0 then rfunc counts edges k s else s) s

/-- one turn of the `for done := true; done;` loop: the state and the flag `done` -/
def innerPass (counts : Array Nat) (edges : Array (List Edge)) (sons : Array Nat) (s : RW) : RW × Bool :=
  (List.range counts.size).foldl (fun (acc : RW × Bool) k =>
    if sons.getD k 0 > 0 ∧ sons.getD k 0 == acc.1.added.getD k 0 then (rfunc counts edges k acc.1, true) else acc) (s, false)

/-- the loop, with fuel; `none` = fuel exhausted (the Go loop would still be running) -/
def innerLoop (counts : Array Nat) (edges : Array (List Edge)) (sons : Array Nat) : Nat → RW → Option RW
  | 0, _ => none
  | fuel + 1, s =>
    let r := innerPass counts edges sons s
    if r.2 then innerLoop counts edges sons fuel r.1 else some r.1

/-- `reweightSequences` : the weights (`none` : the loop did not stop within `n + 2` turns) -/
def reweight (counts : Array Nat) (edges : Array (List Edge)) (sons : Array Nat) : Option (Array Nat) :=
  let s0 : RW := { weight := counts, added := Array.replicate counts.size 0 }
  (innerLoop counts edges sons (counts.size + 2) (leafPass counts edges sons s0)).map (·.weight)

/-! ## closed form of the weights (the theorems are in Lemmas/CleanWeight.lean and Props/C13W.lean)

`rfunc(i)` hands `round(Weight i * Count f / swf i)` to every father `f` of row `i`, and a row fires once all its sons
have fired: the weights solve `W k = count k + Σ_{edges i → k} round(W i * count k / swf i)`. On the graph of
`buildSamplePairs` every edge points further down, so the solution is computed row after row. -/

/-- the fathers of row `i` -/
def fathers (edges : Array (List Edge)) (i : Nat) : List Nat := (edges.getD i []).map (·.father)

/-- `swf` of `rfunc(i)` : the sum of the counts of the fathers of row `i` -/
def swf (counts : Array Nat) (edges : Array (List Edge)) (i : Nat) : Nat :=
  ((edges.getD i []).map (fun e => counts.getD e.father 0)).sum

/-- one share: `int(math.Round(float64(w) * float64(count f) / swf))` of `rfunc(k)` for the father `f` -/
def share (counts : Array Nat) (edges : Array (List Edge)) (k w f : Nat) : Nat :=
  roundDiv (w * counts.getD f 0) (swf counts edges k)

/-- what row `i` hands to row `j` when it fires with weight `w`: one share for each of its edges to `j` -/
def given (counts : Array Nat) (edges : Array (List Edge)) (i w j : Nat) : Nat :=
  (fathers edges i).count j * share counts edges i w j

/-- the first `m` weights, row after row -/
def specTable (counts : Array Nat) (edges : Array (List Edge)) : Nat → List Nat
  | 0 => []
  | k + 1 =>
    let t := specTable counts edges k
    t ++ [counts.getD k 0 + ((List.range k).map (fun i => given counts edges i (t.getD i 0) k)).sum]

/-- **the closed form**: `specW k = count k + Σ_{i < k} given i (specW i) k` (`specW_eq`) -/
def specW (counts : Array Nat) (edges : Array (List Edge)) (k : Nat) : Nat :=
  (specTable counts edges (k + 1)).getD k 0

/-- the weights of the `n` rows of a sample by the closed form (the driver compares them with the loop) -/
def specWeights (counts : Array Nat) (edges : Array (List Edge)) : List Nat := specTable counts edges counts.size

/-! ## extendSimilarityGraph -/

/-- the body of the inner loop of `linePairs` of `extendSimilarityGraph` for (son `i`, father `j`); no test on the counts -/
def edgeTo2 (K : Kernels) (step : Int) (ns : Array Node) (i j : Nat) : Option Edge :=
  match ns[i]?, ns[j]? with
  | some son, some father =>
    if (K.d1 son.seq father.seq).verdict < 0 then
      match K.lcs son.seq father.seq step with
      | some (lcs, lali) =>
        let d : Int := (lali : Int) - (lcs : Int)
        if d ≤ step ∧ step > 0 then some ⟨j, d, -1, 45, 45⟩ else none
      | none => none
    else none
  | _, _ => none

/-- a row is sent to the workers only `if len((*seqs)[i].Edges) == 0` -/
def rowEdges2 (K : Kernels) (step : Int) (ns : Array Node) (prev : List Edge) (i : Nat) : List Edge :=
  if prev.isEmpty then (List.range' (i + 1) (ns.size - (i + 1))).filterMap (edgeTo2 K step ns i) else []

/-- `if maxError > 1 { extendSimilarityGraph(seqs, maxError, workers) }` : the rows it adds (nothing otherwise) -/
def edges2 (K : Kernels) (maxError : Nat) (ns : Array Node) (es1 : List (List Edge)) : List (List Edge) :=
  (List.range ns.size).map (fun i => if maxError > 1 then rowEdges2 K maxError ns (es1.getD i []) i else [])

/-- `son.Edges` after both phases -/
def appendRows (a b : List (List Edge)) : List (List Edge) := List.zipWith (· ++ ·) a b

/-! ## FilterGraphOnRatio -/

/-- `(c1 / float64(weight father)) <= math.Pow(ratio, float64(dist))` with `ratio = p / q` -/
def ratioKeeps (p q : Nat) (w1 wf : Nat) (dist : Int) : Bool :=
  decide (w1 * q ^ dist.toNat ≤ p ^ dist.toNat * wf)

def filterRow (p q : Nat) (weight : Array Nat) (i : Nat) (es : List Edge) : List Edge :=
  es.filter (fun e => ratioKeeps p q (weight.getD i 0) (weight.getD e.father 0) e.dist)

def filterEdges (p q : Nat) (weight : Array Nat) (es : List (List Edge)) : List (List Edge) :=
  es.zipIdx.map (fun (r : List Edge × Nat) => filterRow p q weight r.2 r.1)

/-- `SonCount--` for every removed edge -/
def sonsAfterFilter (sons : List Nat) (before after : List (List Edge)) : List Int :=
  sons.zipIdx.map (fun (r : Nat × Nat) => (r.1 : Int) - ((sonsOf before r.2 : Int) - (sonsOf after r.2 : Int)))

/-! ## status, mutation -/

inductive Status where
  | head | internal | singleton
  deriving Repr, DecidableEq

/-- `ObicleanStatus` -/
def status (edges : List Edge) (sons : Int) : Status :=
  if edges.isEmpty then (if sons > 0 then .head else .singleton) else .internal

def Status.str : Status → String
  | .head => "h" | .internal => "i" | .singleton => "s"

/-- what `obiclean` knows of one sequence of one sample at the end -/
structure Out where
  node : Node
  weight : Nat
  sons : Int
  edges : List Edge
  deriving Repr, DecidableEq

structure Config where
  /-- `--distance` -/
  maxError : Nat
  /-- `--ratio` = `p / q` -/
  p : Nat
  q : Nat

inductive Outcome where
  | ok (nodes : List Out)
  /-- `reweightSequences` does not stop -/
  | hang
  deriving Repr, DecidableEq

/-- everything after the two parallel phases, as a function of their results `(es1, sons1)` and `(es2, sons2)`
(the latter are the contribution of `extendSimilarityGraph`) -/
def finish (cfg : Config) (ns : Array Node) (es1 : List (List Edge)) (sons1 : List Nat)
    (es2 : List (List Edge)) (sons2 : List Nat) : Outcome :=
  let counts := (ns.toList.map (·.count)).toArray
  match reweight counts es1.toArray sons1.toArray with
  | none => .hang
  | some weight =>
    let es := appendRows es1 es2
    let sons := List.zipWith (· + ·) sons1 sons2
    let esF := if cfg.p < cfg.q then filterEdges cfg.p cfg.q weight es else es
    let sonsF : List Int := if cfg.p < cfg.q then sonsAfterFilter sons es esF else sons.map Int.ofNat
    .ok ((List.range ns.size).map fun i =>
      { node := ns.getD i ⟨0, 0, []⟩, weight := weight.getD i 0, sons := sonsF.getD i 0, edges := esF.getD i [] })

/-- the whole sequential reference for one sample (already in data-set order) -/
def cleanSample (K : Kernels) (cfg : Config) (sample : List Node) : Outcome :=
  let ns := (sortByCount sample).toArray
  let es1 := edges1 K ns
  let sons1 := sonCount ns.size es1
  let es2 := edges2 K cfg.maxError ns es1
  let sons2 := sonCount ns.size es2
  finish cfg ns es1 sons1 es2 sons2

/-! ## annotations -/

/-- `fmt.Sprintf("(%c)->(%c)@%d", f.From, f.To, f.Pos+1)` (ASCII symbols) -/
def mutationOf (e : Edge) : String :=
  s!"({Char.ofNat e.frm.toNat})->({Char.ofNat e.to.toNat})@{e.pos + 1}"

/-- the entries `Mutation` writes for one node: key = id of the father -/
def mutations (outs : List Out) (o : Out) : List (Nat × String) :=
  o.edges.map (fun e => (((outs.getD e.father o).node.orig), mutationOf e))

/-! ## the data set: several samples, the annotations written to the records, `--head` (obiclean.go)

`buildSamples` puts record `i` of the data set in every sample of its `merged_sample` map, in data-set order;
the samples are then processed one after the other (`for _, seqs := range samples`, a Go map: the order is
arbitrary, but the samples share nothing except the per-record annotation maps, in which sample `name` only
writes the key `name` of `obiclean_status` / `obiclean_weight` and the key "id of the father" of `obiclean_mutation`;
`mutation_value_function_of_pair` in Props/C13.lean shows that two samples can only write the same value under
the same key). `CLIOBIClean` : `buildSamples`, `BuildSeqGraph`, `FilterGraphOnRatio`, `Mutation`, the status / weight
loop, `annotateOBIClean`, and `FilterOn(IsHead)` with `--head`. -/

/-- one record: its sequence and its `merged_sample` map as a list `(sample name, count)` -/
structure Rec where
  seq : Seq
  counts : List (Nat × Nat)
  deriving Repr, DecidableEq

def insertNat (a : Nat) : List Nat → List Nat
  | [] => [a]
  | x :: xs => if a ≤ x then a :: x :: xs else x :: insertNat a xs

/-- the sample names of the data set, increasing -/
def sampleNames (db : List Rec) : List Nat :=
  ((db.flatMap (fun r => r.counts.map (·.1))).eraseDups).foldr insertNat []

/-- `buildSamples` : sample `name` = the records having a count for it, in data-set order; `orig` = record index -/
def sampleOf (db : List Rec) (name : Nat) : List Node :=
  db.zipIdx.filterMap (fun (r : Rec × Nat) =>
    (r.1.counts.find? (fun kv => kv.1 == name)).map (fun kv => ({ orig := r.2, count := kv.2, seq := r.1.seq } : Node)))

/-- every sample through `f` (the graph construction of one sample); `none` = one of them hangs -/
def runSamples (f : Nat → List Node → Outcome) (db : List Rec) : Option (List (Nat × List Out)) :=
  (sampleNames db).mapM (fun name =>
    match f name (sampleOf db name) with
    | .ok outs => some (name, outs)
    | .hang => none)

/-- the `obiclean_*` annotations of one record -/
structure Annot where
  /-- `obiclean_status` : sample ↦ status, by increasing sample name -/
  status : List (Nat × Status)
  /-- `obiclean_weight` : sample ↦ weight -/
  weight : List (Nat × Nat)
  /-- `obiclean_mutation` : record index of the father (its id) ↦ mutation, one entry per (sample, remaining edge) -/
  mutation : List (Nat × String)
  /-- `obiclean_head` -/
  head : Bool
  headCount : Nat
  internalCount : Nat
  singletonCount : Nat
  sampleCount : Nat
  deriving Repr, DecidableEq

/-- the nodes of record `i` : `(sample, all the nodes of that sample, its node)` -/
def mineOf (res : List (Nat × List Out)) (i : Nat) : List (Nat × List Out × Out) :=
  res.filterMap (fun (r : Nat × List Out) => (r.2.find? (fun o => o.node.orig == i)).map (fun o => (r.1, r.2, o)))

/-- the status / weight loop of `CLIOBIClean`, `Mutation`, and `annot` of `annotateOBIClean` for record `i` -/
def annotateRec (res : List (Nat × List Out)) (i : Nat) : Annot :=
  let mine := mineOf res i
  let sts := mine.map (fun m => status m.2.2.edges m.2.2.sons)
  let h := sts.count .head
  let it := sts.count .internal
  let sg := sts.count .singleton
  { status := mine.map (fun m => (m.1, status m.2.2.edges m.2.2.sons)),
    weight := mine.map (fun m => (m.1, m.2.2.weight)),
    mutation := mine.flatMap (fun m => mutations m.2.1 m.2.2),
    head := decide (h + sg > 0),
    headCount := h, internalCount := it, singletonCount := sg, sampleCount := h + it + sg }

def annotateAll (db : List Rec) (res : List (Nat × List Out)) : List Annot :=
  (List.range db.length).map (annotateRec res)

/-- the sequential reference of `CLIOBIClean` up to `annotateOBIClean` : the annotations of every record -/
def cleanDataset (K : Kernels) (cfg : Config) (db : List Rec) : Option (List Annot) :=
  (runSamples (fun _ s => cleanSample K cfg s) db).map (annotateAll db)

/-- `if OnlyHead() { iter = iter.FilterOn(IsHead, 1000) }` : the records written, `(record index, annotations)` -/
def cliOutput (onlyHead : Bool) (as : List Annot) : List (Nat × Annot) :=
  (as.zipIdx.map (fun (r : Annot × Nat) => (r.2, r.1))).filter (fun r => !onlyHead || r.2.head)

end ObiVerif.Clean
