import ObiVerif.Model.Lcs
/-!
# `FastLCSEGFScoreByte` with the caller's scratch buffer as explicit state (property C09)

`Model/Lcs.lean` transcribes one call of the kernel on a buffer that is either fresh (`nil`) or filled with one
stale word. The callers (obiclean, obitag, obirefidx, …) keep ONE `[]uint64` across thousands of calls with
different lengths and bounds: what a call finds in the buffer is whatever the previous calls left there, and the
buffer is re-allocated only when `cap(*buffer) < 2*width`. This file splits the verbatim transcription in two
(`setup`: the geometry computed before the buffer is touched; `runFrom`: everything from the three initial writes
to the final `decodeValues`, on an ARBITRARY buffer) and threads the buffer through a call (`fastLCSBuf`), so that
histories of calls can be executed (`lcsseq` of `vm_C09`) and so that the refinement / buffer-independence theorems
(`Lemmas/LcsVerbatim.lean`) can quantify over every initial buffer content.

Nothing here re-transcribes the loops: `runFrom` uses `wr`, `outer`, `rd`, `decodeValues` of `Model/Lcs.lean`;
`fastLCSEGFScoreByte_eq_runFrom` (Lemmas/LcsVerbatim.lean) proves that `fastLCSEGFScoreByte` IS `setup` followed by
`runFrom` on its `fill` buffer.
-/
namespace ObiVerif.Lcs

/-- what `FastLCSEGFScoreByte` computes before touching the buffer -/
structure Setup where
  g : Geo
  delta : Int
  N : Nat

/-- head of `FastLCSEGFScoreByte`: swap so that A is the longer, effective `maxError`, `delta`, early return
(`none`) when `delta > maxError`, `extra`, `even`, `width`, `N` -/
def setup (bA bB : Seq) (maxError : Int) (endgapfree : Bool) : Option Setup :=
  let (bA, bB) := if bA.length < bB.length then (bB, bA) else (bA, bB)
  let lA : Int := bA.length
  let lB : Int := bB.length
  let maxError := if maxError == -1 then lA * 2 else maxError
  let delta := lA - lB
  let maxError := if endgapfree then maxError + delta else maxError
  if delta > maxError then none else
  let extra := (maxError - delta) + 1
  let even := 1 + delta + 2 * extra
  let width := (2 * even - 1).toNat
  some { g := { A := bA.toArray, B := bB.toArray, lA := lA, lB := lB, egf := endgapfree,
                extra := extra, even := even, width := width },
         delta := delta, N := (lB + delta / 2).toNat }

/-- body of `FastLCSEGFScoreByte` from `previous[extra] = _empty` to the end, on the buffer `buf`
(`previous = buf[0:width]`, `current = buf[width:2*width]`); returns the result and the buffer as the call
leaves it -/
def runFrom (su : Setup) (buf : Array UInt64) : Except Err ((Int × Int × Int) × Array UInt64) := do
  let g := su.g
  let st : St := { buf := buf, pend := 0, endp := 0 }
  let st ← wr st 0 g.width g.extra emptyV
  let st ← wr st 0 g.width (g.extra + g.even)
            (if g.egf then encodeValues 0 0 false else encodeValues 0 1 false)
  let st ← wr st 0 g.width (g.extra + g.even - 1) (encodeValues 0 1 false)
  let (st, poff) ← outer g su.N 1 0 g.width st
  let v ← rd st.buf poff g.width ((su.delta % 2) * g.even + g.extra + su.delta / 2)
  let (s, l, o) := decodeValues v
  if o then return ((-1, -1, -1), st.buf)
  return ((s, l, st.endp), st.buf)

/-- `if cap(*buffer) < 2*width { *buffer = make([]uint64, 3*width) }` (`buf0` = the caller's backing array,
`#[]` for `nil`) -/
def callerBuf (width : Nat) (buf0 : Array UInt64) : Array UInt64 :=
  if buf0.size < 2 * width then Array.replicate (3 * width) 0 else buf0

/-- one call `FastLCSEGFScoreByte(bA, bB, maxError, endgapfree, &buf0)`: the result and the caller's buffer
after the call (unchanged by the early return) -/
def fastLCSBuf (bA bB : Seq) (maxError : Int) (endgapfree : Bool) (buf0 : Array UInt64) :
    Except Err ((Int × Int × Int) × Array UInt64) :=
  match setup bA bB maxError endgapfree with
  | none => .ok ((-1, -1, -1), buf0)
  | some su => runFrom su (callerBuf su.g.width buf0)

/-- the buffer `fastLCSEGFScoreByte` builds from its `fill` argument -/
def fillBuf (width : Nat) : Option UInt64 → Array UInt64
  | none => Array.replicate (3 * width) 0
  | some w => Array.replicate (2 * width) w

/-- a history of calls on ONE scratch buffer (as `extendSimilarityGraph` of obiclean or `FindClosests` of obitag
do): the results in order; a panic ends the history -/
def lcsHistory : List (Seq × Seq × Int × Bool) → Array UInt64 → List (Except Err (Int × Int × Int))
  | [], _ => []
  | (a, b, e, egf) :: rest, buf =>
    match fastLCSBuf a b e egf buf with
    | .ok (r, buf') => .ok r :: lcsHistory rest buf'
    | .error err => [.error err]

end ObiVerif.Lcs
