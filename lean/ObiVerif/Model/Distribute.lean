import ObiVerif.Model.Grep
/-!
# Model of the routing of `obidistribute` (C16)

Anchors: `pkg/obitools/obidistribute/options.go` (`CLISequenceClassifier`, `CLIFileNamePattern`,
the option globals), `pkg/obiseq/class.go` (`DualAnnotationClassifier`, `RotateClassifier`,
`HashClassifier`), `pkg/obiformats/dispatcher.go` (`WriterDispatcher`: the name of the file of a
class).

* `--classifier key1 [--directory key2] [--na-value na]`: `DualAnnotationClassifier` — the class of a
  record is `Grep.dualClass` (a pair key / directory);
* `--batches n`: `RotateClassifier(n)` — a **stateful** classifier: a counter shared by all the calls,
  `n = n % size; n++; return n`; `Distribute` calls it from one goroutine on the sorted stream, so the
  record of rank `i` (0-based, input order) gets the code `i % n + 1` (`rotateCodes_eq` in
  `Lemmas/Distribute.lean`);
* `--hash n`: `HashClassifier(n)` — `crc32.ChecksumIEEE(sequence) % n`.

`WriterDispatcher` names the file of a class `fmt.Sprintf(pattern, key)` (+ `.gz` when the output is
compressed and the pattern does not end with `.gz`), inside the directory `directory` when it is not
empty.  The pattern is modelled in the shape `prefix%ssuffix` (one `%s` verb, no other `%`:
`CLIFileNamePattern` refuses a pattern without verb); `filepath.Join` is `dir/name` (the components
are plain names: no `/`, not `.` or `..` — the theorems say where that matters).
-/
namespace ObiVerif.Distribute
open ObiVerif.Grep

/-! ## CRC-32 (IEEE 802.3, reflected, polynomial 0xEDB88320) as `hash/crc32.ChecksumIEEE` -/

def crcBit (c : UInt32) : UInt32 :=
  if c &&& 1 = 1 then (c >>> 1) ^^^ 0xEDB88320 else c >>> 1

def crcByte (c : UInt32) (b : UInt8) : UInt32 :=
  let c := c ^^^ b.toUInt32
  crcBit (crcBit (crcBit (crcBit (crcBit (crcBit (crcBit (crcBit c)))))))

def crc32 (l : List UInt8) : UInt32 := (l.foldl crcByte 0xFFFFFFFF) ^^^ 0xFFFFFFFF

/-! ## the classifiers -/

/-- `HashClassifier(size).Code` -/
def hashCode (size : Nat) (r : Rec) : Nat := (crc32 r.seq).toNat % size

/-- one call of `RotateClassifier(size).Code` on the shared counter: `n = n % size; n++; return n` -/
def rotateStep (size : Nat) (n : Nat) : Nat × Nat :=
  let n := n % size
  (n + 1, n + 1)

/-- the codes returned by successive calls of `RotateClassifier(size).Code`, the counter starting at
`n` (0 for a fresh classifier) -/
def rotateFrom (size : Nat) : Nat → List α → List Nat
  | _, [] => []
  | n, _ :: t => (rotateStep size n).2 :: rotateFrom size (rotateStep size n).1 t

def rotateCodes (size : Nat) (l : List α) : List Nat := rotateFrom size 0 l

/-- `encode[val]` on the list `decode` (the code of a value is its position in `decode`) -/
def lookupCode (v : String × String) : List (String × String) → Option Nat
  | [] => none
  | x :: t => if x = v then some 0 else (lookupCode v t).map (· + 1)

/-- `AnnotationClassifier` / `DualAnnotationClassifier` number the class values in order of first
occurrence: `encode[val]` is looked up, a new value gets `maxcode` and is appended to `decode`.
`dec` is `decode`; returns the new `decode` and the code. -/
def encodeStep (dec : List (String × String)) (v : String × String) : List (String × String) × Nat :=
  match lookupCode v dec with
  | some k => (dec, k)
  | none => (dec ++ [v], dec.length)

/-- the codes given to a sequence of class values by successive calls, and the final `decode` -/
def encodeAll : List (String × String) → List (String × String) → List (String × String) × List Nat
  | dec, [] => (dec, [])
  | dec, v :: t =>
    let s := encodeStep dec v
    let r := encodeAll s.1 t
    (r.1, s.2 :: r.2)

/-- the option globals of `obidistribute/options.go` after parsing -/
structure DistOpts where
  /-- `_FilenamePattern` = `patPre ++ "%s" ++ patSuf` -/
  patPre : String := ""
  patSuf : String := ""
  classifierTag : String := ""
  directoryTag : String := ""
  naValue : String := "NA"
  batchCount : Int := 0
  hashSize : Int := 0
  /-- `obiconvert.CLICompressed()` -/
  compressed : Bool := false
  /-- `--append` / `-A` (`CLIAppendSequences`) -/
  append : Bool := false
  deriving Inhabited, Repr

inductive Classifier where
  | dual (key1 key2 na : String)
  | rotate (size : Nat)
  | hash (size : Nat)
  deriving DecidableEq, Repr, Inhabited

/-- `CLISequenceClassifier`: the tag has priority over `--batches`, which has priority over `--hash`;
`none` = `log.Fatal` ("one of the options … must be specified") -/
def cliClassifier (o : DistOpts) : Option Classifier :=
  if o.classifierTag ≠ "" then some (.dual o.classifierTag o.directoryTag o.naValue)
  else if o.batchCount > 0 then some (.rotate o.batchCount.toNat)
  else if o.hashSize > 0 then some (.hash o.hashSize.toNat)
  else none

/-- the (key, directory) `WriterDispatcher` derives from `Classifier().Value(code)` for the record of
rank `rank` (0-based, in input order): for the dual classifier the two components of the JSON pair,
for the two others the decimal code and no directory -/
def classOf (c : Classifier) (rank : Nat) (r : Rec) : String × String :=
  match c with
  | .dual k1 k2 na => dualClass k1 k2 na r
  | .rotate size => (toString (rank % size + 1), "")
  | .hash size => (toString (hashCode size r), "")

def gzSuffix : List Char := ['.', 'g', 'z']

/-- `[]rune` view of `strings.HasSuffix` -/
def endsWithL (l suf : List Char) : Bool := (l.drop (l.length - suf.length)) == suf && suf.length ≤ l.length

/-- the name pattern `prefix%ssuffix` -/
def patternL (pre suf : List Char) : List Char := pre ++ '%' :: 's' :: suf

/-- `WriterDispatcher`: `name := Sprintf(pattern, key)`; `.gz` appended when compressed and the
*pattern* does not end with it (repaired: the unrepaired code looked at the formatted name, so that
with `-Z -p a%s` the classes `x` and `x.gz` shared the file `ax.gz` and one of them was lost);
`filepath.Join(directory, name)` when the directory is not empty -/
def fileNameL (pre suf : List Char) (compressed : Bool) (key dir : List Char) : List Char :=
  let name := pre ++ key ++ suf
  let name := if compressed && !endsWithL (patternL pre suf) gzSuffix then name ++ gzSuffix else name
  if dir ≠ [] then dir ++ '/' :: name else name

def fileName (o : DistOpts) (kd : String × String) : String :=
  String.ofList (fileNameL o.patPre.toList o.patSuf.toList o.compressed kd.1.toList kd.2.toList)

/-- the file the record of rank `rank` is written to; `none` = the program stops at start-up -/
def fileOf (o : DistOpts) (rank : Nat) (r : Rec) : Option String :=
  (cliClassifier o).map fun c => fileName o (classOf c rank r)

/-- one record appended to the stream of its file (a new file is opened at its first record) -/
def addToFile (f : String) (id : String) : List (String × List String) → List (String × List String)
  | [] => [(f, [id])]
  | (g, ids) :: t => if g = f then (g, ids ++ [id]) :: t else (g, ids) :: addToFile f id t

/-- all the files (in order of creation) with the identifiers they hold, in input order: every record
goes to the file of its class -/
def distributeFiles (o : DistOpts) (c : Classifier) (recs : List Rec) : List (String × List String) :=
  (recs.zipIdx).foldl (fun acc (ri : Rec × Nat) => addToFile (fileName o (classOf c ri.2 ri.1)) ri.1.id acc) []

/-! ## `--append`

`CLIDistributeSequence` passes `OptionsAppendFile(CLIAppendSequences())` to every writer: the file of a
class is opened with `O_APPEND` instead of `O_TRUNC` (`obiformats` `WriteFastaToFile` / `WriteFastqToFile`).
The directory before the run is the association list `existing` (file name ↦ identifiers it holds). -/

/-- content of one written file: the old content is kept in front with `--append`, lost without -/
def writtenContent (append : Bool) (existing : List (String × List String)) (f : String × List String) :
    String × List String :=
  (f.1, (if append then (existing.lookup f.1).getD [] else []) ++ f.2)

/-- the directory after the run: the files of the run (in order of creation) then the files the run
did not touch -/
def distributeFilesOn (o : DistOpts) (c : Classifier) (existing : List (String × List String)) (recs : List Rec) :
    List (String × List String) :=
  let run := distributeFiles o c recs
  run.map (writtenContent o.append existing) ++ existing.filter fun e => !(run.map (·.1)).contains e.1

/-! ## the name pattern as it is typed (`CLIFileNamePattern`, repaired)

`CLIFileNamePattern` accepts the patterns `fmt.Sprintf` expands with the class value once and in full:
literal text (`%%` = a percent sign) around exactly one `%s`.  Anything else — no verb at all
(`out.fasta`: the unrepaired code wrote the files `out.fasta%!(EXTRA string=<class>)`), a second verb, a
verb with flags / width / precision / argument index (`%.0s`, `%[2]s`: the unrepaired code gave every
class the same file and the records of all the classes but one were lost) — stops the program
(`log.Panicf`) before any file is written. -/

/-- the literal text of a pattern part without verb: `%%` ↦ `%`; `none` when a `%` is followed by
anything else (a verb, or the end of the pattern) -/
def literalL : List Char → Option (List Char)
  | [] => some []
  | c :: t =>
    if c = '%' then
      match t with
      | d :: t' => if d = '%' then (literalL t').map ('%' :: ·) else none
      | [] => none
    else (literalL t).map (c :: ·)

/-- the accepted patterns: literal text, `%s`, literal text; the two literal parts as `Sprintf` prints
them -/
def parsePatternL : List Char → Option (List Char × List Char)
  | [] => none
  | c :: t =>
    if c = '%' then
      match t with
      | d :: t' =>
        if d = '%' then (parsePatternL t').map fun p => ('%' :: p.1, p.2)
        else if d = 's' then (literalL t').map fun suf => ([], suf)
        else none
      | [] => none
    else (parsePatternL t).map fun p => (c :: p.1, p.2)

/-- `fmt.Sprintf(pattern, key)` on the patterns that hold nothing but text, `%%` and `%s` -/
def sprintfL (key : List Char) : List Char → List Char
  | [] => []
  | c :: t =>
    if c = '%' then
      match t with
      | d :: t' => if d = '%' then '%' :: sprintfL key t' else if d = 's' then key ++ sprintfL key t' else c :: d :: sprintfL key t'
      | [] => [c]
    else c :: sprintfL key t

/-- `-p <pattern>`: the option globals for an accepted pattern, `none` = the program stops -/
def DistOpts.withPattern (o : DistOpts) (pattern : String) : Option DistOpts :=
  (parsePatternL pattern.toList).map fun p => { o with patPre := String.ofList p.1, patSuf := String.ofList p.2 }

end ObiVerif.Distribute
