/-!
# Annotation values with sharing: `Copy` / `ReverseComplement(false)` / `Subsequence` / `Recycle` on the
annotation map of a `BioSequence` (C07)

`BioSequence.annotations` is a Go `map[string]interface{}`.  A value stored in it is a scalar (int, string,
bool, float: copied by assignment), an ARRAY of scalars (`[3]int`: a value too), or a REFERENCE: a map
(`map[string]int`, `StatsOnValues`, `map[string]string`, `map[string]interface{}`) or a slice (`[]int`,
`[]string`, `[]byte`, `[][]int`, `[]interface{}`), whose elements are again scalars or references, to any
depth.  Two `interface{}` holding the same map / slice share it: an in-place edit through one is seen
through the other.  The model keeps that identity: a reference node carries a **pointer id**; the state is
one tree per live object; two objects *share* a node iff its id occurs in both trees; an in-place edit of
node `id` (`m[k] = v`, `s[i] = v`) rewrites **every** occurrence of `id` in **every** object
(`State.edit`), which is what shared memory does.

Transcribed:
* `GetAnnotation(values...)` (pool.go): a map from `BioSequenceAnnotationPool` (any pooled map, or
  `New`: the decision is the oracle `k`) filled by `obiutils.MustFillMap`;
* `obiutils.MustFillMap(dest, src)` (goutils.go): `for k, v := range src { if IsAMap(v) || IsASlice(v) ||
  IsAnArray(v) { v = deepcopy.MustAnything(v) }; dest[k] = v }` — every reference value of the top level
  goes through `deepcopy.Anything`, which allocates a NEW map / slice for every map / slice it meets,
  recursively (`_map`, `_slice` of barkimedes/go-deepcopy; no memoisation for maps and slices):
  `ATree.relabel` gives every node of the copied value a fresh id;
* `Copy`, `ReverseComplement(false)` (through `Copy`), `Subsequence`: `new.annotations =
  GetAnnotation(src.annotations)` (`derive`);
* `SetAttribute(key, value)` with a value the caller built (fresh nodes);
* `Recycle` → `RecycleAnnotation`: the top-level map is emptied and pooled (`recycle`);
* the REGRESSION seeded/C07-m1 (`maps.Copy` instead of `MustFillMap`: `deriveShallow`), kept to state the
  counterexample theorem.

Not representable (assumption, lib/cfg/C07.py): values of pointer or struct kind (`MustFillMap` does NOT
deep-copy them: they would be shared by `Copy`; no annotation of /repo has such a kind), arrays whose
elements are references, cyclic values (`deepcopy` does not terminate on a cyclic map).
-/
namespace ObiVerif.AnnTree

inductive Sc
  | int (v : Int)
  | str (s : String)
  | arr (l : List Int)
  deriving DecidableEq

mutual
/-- a value: scalar, or a map / slice node with its pointer id -/
inductive ATree
  | leaf (v : Sc)
  | node (id : Nat) (isMap : Bool) (kids : AForest)
/-- entries of a map (by key) / elements of a slice (key = index in decimal) -/
inductive AForest
  | nil
  | cons (key : String) (t : ATree) (rest : AForest)
end

mutual
/-- the pointer ids occurring in a value -/
def ATree.ids : ATree → List Nat
  | .leaf _ => []
  | .node id _ ks => id :: ks.ids
def AForest.ids : AForest → List Nat
  | .nil => []
  | .cons _ t r => t.ids ++ r.ids
end

mutual
/-- `deepcopy.Anything`: a new map / slice for every map / slice of the value (ids `n`, `n+1`, … in
preorder); returns the copy and the next unused id -/
def ATree.relabel : ATree → Nat → ATree × Nat
  | .leaf v, n => (.leaf v, n)
  | .node _ m ks, n => ((.node n m (ks.relabel (n + 1)).1), (ks.relabel (n + 1)).2)
def AForest.relabel : AForest → Nat → AForest × Nat
  | .nil, n => (.nil, n)
  | .cons k t r, n => (.cons k (t.relabel n).1 (r.relabel (t.relabel n).2).1, (r.relabel (t.relabel n).2).2)
end

/-- `m[k] = v` / `s[i] = v` on the entries: replace the entry, or add it (maps only) -/
def AForest.setKey (k : String) (v : Sc) (app : Bool) : AForest → AForest
  | .nil => if app then .cons k (.leaf v) .nil else .nil
  | .cons k' t r => if k' = k then .cons k' (.leaf v) r else .cons k' t (r.setKey k v app)

mutual
/-- the in-place edit `node(id)[k] = v`, applied to every occurrence of `id` in the value -/
def ATree.editId (id : Nat) (k : String) (v : Sc) : ATree → ATree
  | .leaf x => .leaf x
  | .node i m ks => if i = id then .node i m (ks.setKey k v m) else .node i m (ks.editIdF id k v)
def AForest.editIdF (id : Nat) (k : String) (v : Sc) : AForest → AForest
  | .nil => .nil
  | .cons k' t r => .cons k' (t.editId id k v) (r.editIdF id k v)
end

def AForest.get (k : String) : AForest → Option ATree
  | .nil => none
  | .cons k' t r => if k' = k then some t else r.get k

/-- follow a path of keys / indices from a value to a map / slice node: its pointer -/
def ATree.resolve : ATree → List String → Option Nat
  | .leaf _, _ => none
  | .node id _ _, [] => some id
  | .node _ _ ks, k :: p => match ks.get k with
    | some t => t.resolve p
    | none => none

/-- `MustFillMap`: every reference value of the top level is deep-copied, scalars are assigned -/
def AForest.fill : AForest → Nat → AForest × Nat
  | .nil, n => (.nil, n)
  | .cons k t r, n => (.cons k (t.relabel n).1 (r.fill (t.relabel n).2).1, (r.fill (t.relabel n).2).2)

def AForest.setTop (k : String) (v : ATree) : AForest → AForest
  | .nil => .cons k v .nil
  | .cons k' t r => if k' = k then .cons k' v r else .cons k' t (r.setTop k v)

/-- a live object: its name, the pointer of its top-level annotation map, the entries -/
structure AObj where
  name : String
  root : Nat
  kids : AForest

def AObj.ids (o : AObj) : List Nat := o.root :: o.kids.ids

structure State where
  objs : List AObj
  /-- `BioSequenceAnnotationPool`: pointers of emptied top-level maps -/
  pool : List Nat
  next : Nat

def State.empty : State := ⟨[], [], 0⟩

def State.find (s : State) (a : String) : Option AObj := s.objs.find? (·.name == a)

/-- `BioSequenceAnnotationPool.Get()`: pooled map `k`, or `New` -/
def State.getMap (s : State) (k : Nat) : State × Nat :=
  match s.pool[k]? with
  | some p => ({ s with pool := s.pool.erase p }, p)
  | none => ({ s with next := s.next + 1 }, s.next)

inductive AOp
  | new (a : String)
  | setattr (a key : String) (v : ATree)
  | derive (a b : String)                       -- Copy / ReverseComplement(false) / Subsequence
  | edit (a : String) (path : List String) (k : String) (v : Sc)
  | recycle (a : String)

inductive AErr | badOp
  deriving DecidableEq

def AOp.target : AOp → String
  | .new a => a | .setattr a _ _ => a | .derive _ b => b | .edit a _ _ _ => a | .recycle a => a

def State.edit (s : State) (id : Nat) (k : String) (v : Sc) : State :=
  { s with objs := s.objs.map fun o =>
      ⟨o.name, o.root, if o.root = id then o.kids.setKey k v true else o.kids.editIdF id k v⟩ }

def astep (s : State) (ch : Nat) : AOp → Except AErr State
  | .new a =>
    match s.find a with
    | some _ => .error .badOp
    | none => let r := s.getMap ch; .ok { r.1 with objs := r.1.objs ++ [⟨a, r.2, .nil⟩] }
  | .setattr a key v =>
    match s.find a with
    | none => .error .badOp
    | some _ =>
      let r := v.relabel s.next
      .ok { s with next := r.2, objs := s.objs.map fun o =>
        if o.name == a then ⟨o.name, o.root, o.kids.setTop key r.1⟩ else o }
  | .derive a b =>
    match s.find a, s.find b with
    | some oa, none =>
      let r := s.getMap ch
      let f := oa.kids.fill r.1.next
      .ok { r.1 with next := f.2, objs := r.1.objs ++ [⟨b, r.2, f.1⟩] }
    | _, _ => .error .badOp
  | .edit a path k v =>
    match s.find a with
    | none => .error .badOp
    | some oa =>
      match (ATree.node oa.root true oa.kids).resolve path with
      | some id => .ok (s.edit id k v)
      | none => .error .badOp
  | .recycle a =>
    match s.find a with
    | none => .error .badOp
    | some oa => .ok { s with objs := s.objs.filter (fun o => !(o.name == a)), pool := oa.root :: s.pool }

def arun (s : State) (ch : Nat → Nat) : Nat → List AOp → Except AErr State
  | _, [] => .ok s
  | i, op :: ops => match astep s (ch i) op with
    | .ok s1 => arun s1 ch (i + 1) ops
    | .error e => .error e

/-- the REGRESSION seeded/C07-m1: `maps.Copy(annot, values[0])` — the top-level entries are assigned as
they are, maps and slices included -/
def deriveShallow (s : State) (ch : Nat) (a b : String) : Except AErr State :=
  match s.find a, s.find b with
  | some oa, none =>
    let r := s.getMap ch
    .ok { r.1 with objs := r.1.objs ++ [⟨b, r.2, oa.kids⟩] }
  | _, _ => .error .badOp

end ObiVerif.AnnTree
