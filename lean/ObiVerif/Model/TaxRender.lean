import ObiVerif.Model.TaxLoad
/-!
# Rendering of a taxonomy as an NCBI taxdump (C14)

`renderNodes` / `renderNames` / `renderMerged` write declarations in the layout of the NCBI files: fields
separated by `"\t|\t"`, lines ended by `"\t|\n"`.  `Lemmas/TaxRender.lean` proves that the loader model reads
them back (`loadDump_render`); the harness writes its dump directories in this layout and the driver checks the
bytes against these functions.
-/
namespace ObiVerif.TaxLoad

/-! ## the rendering -/

def joinSep (sep : Bytes) : List Bytes → Bytes
  | [] => []
  | [a] => a
  | a :: b :: r => a ++ sep ++ joinSep sep (b :: r)

/-- one line of a dump file in the NCBI layout -/
def ncbiLine (fs : List Bytes) : Bytes := joinSep [9, 124, 9] fs ++ [9, 124, 10]

/-- the 3 fields of `nodes.dmp` the loader reads + the other columns -/
structure NodeRow where
  id : Nat
  parent : Nat
  rank : Bytes
  extra : List Bytes

def NodeRow.decl (r : NodeRow) : Nat × Nat × Bytes := (r.id, r.parent, r.rank)

def renderNodes (rows : List NodeRow) : Bytes :=
  (rows.map fun r => ncbiLine (showNat r.id :: showNat r.parent :: r.rank :: r.extra)).flatten

def renderMerged (rows : List (Nat × Nat)) : Bytes :=
  (rows.map fun r => ncbiLine [showNat r.1, showNat r.2]).flatten

structure NameRow where
  id : Nat
  name : Bytes
  uniq : Bytes
  cls : Bytes

def renderNames (rows : List NameRow) : Bytes :=
  (rows.map fun r => ncbiLine [showNat r.id, r.name, r.uniq, r.cls]).flatten

/-- a field without `|`, line feed or double quote -/
def NoSep (f : Bytes) : Prop := ∀ c ∈ f, c ≠ 124 ∧ c ≠ 10 ∧ c ≠ 34

instance (f : Bytes) : Decidable (NoSep f) := by unfold NoSep; infer_instance

end ObiVerif.TaxLoad
