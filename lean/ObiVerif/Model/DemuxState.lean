import ObiVerif.Model.Demux
import ObiVerif.Model.NgsFilter
/-!
# The library OBJECT of demultiplexing and its mutable state (C12)

`obingslibrary.NGSLibrary` is a mutable object shared by every read of a data set (and by every
parallel worker).  Its state, in the real code:

* per marker: the parameters (`Forward_error`, `Reverse_error`, `Forward_allows_indels`,
  `Reverse_allows_indels`, spacers, delimiters, tag indels, matching modes, tag lengths), the table
  `samples : map[TagPair]*PCR`, and the four COMPILED patterns `forward, cforward, reverse, creverse`
  (`Compile2`), which freeze the error budgets they were compiled with;
* `ExtractMultiBarcodeSliceWorker(options)` WRITES that state: `SetAllowsIndels(true)` if the option is
  set, `SetAllowedMismatches(e)` if `e > 0`, then `Compile2()` — so the object remembers the options of
  the workers built on it before;
* `ExtractMultiBarcode(sequence)` (one read) only READS it: `library.Markers` (sorted copy of the
  keys), the compiled patterns (`AllMatches`), the marker parameters in `TagExtractor`, `samples` in
  `ClosestForwardTag / ClosestReverseTag / SampleIdentifier`.  There is no cache.

Here the state is threaded explicitly: `mkWorker` is the state transformer of the worker
constructor, `readStep` the state-passing transcription of one read (state in, state out: every
access of the Go code to the library is an access to the state argument).  The matcher is a
parameter `scan` (property C10): the hits of the four patterns of a marker are a function of the
primers, of the budgets FROZEN in the compiled patterns and of the read.
-/
namespace ObiVerif.DemuxState

open ObiVerif.Demux
open ObiVerif.NgsFilter (LMarker Lib)
open ObiVerif.SeqOps (Bytes)

/-- what `Compile2` freezes into the four patterns of a marker -/
structure Compiled where
  ferr : Int
  rerr : Int
  fpi : Bool
  rpi : Bool
  deriving DecidableEq, Repr

/-- one marker of the library object: parameters + table (`LMarker`), compiled patterns (`none` = nil
patterns: no worker was built yet) -/
structure MSt where
  m : LMarker
  pat : Option Compiled
  deriving Repr

/-- the library object -/
abbrev LibSt := List MSt

/-- the library as `ReadNGSFilter` returns it: nothing compiled -/
def fresh (lib : Lib) : LibSt := lib.map (fun m => ⟨m, none⟩)

/-- the parameters of the object -/
def params (s : LibSt) : Lib := s.map (·.m)

/-! ## the worker constructor writes the state -/

/-- `SetAllowsIndels(true)` if the option is set, `SetAllowedMismatches(e)` if `e > 0` (every marker,
both sides) -/
def applyOpts (e : Int) (indel : Bool) (m : LMarker) : LMarker :=
  let m := if indel then { m with fpi := true, rpi := true } else m
  if e > 0 then { m with ferr := e, rerr := e } else m

/-- `ExtractMultiBarcodeSliceWorker(OptionAllowedMismatches(e), OptionAllowedIndel(indel))`: the options
are written into the parameters, then `Compile2` compiles the patterns with the parameters as they are now.
(`Compile2` can fail — `CheckTagLength`, a primer the pattern compiler rejects —: `log.Fatalf`; the
sheets accepted by `ReadNGSFilter` pass `CheckTagLength`, the primer grammar is property C10.) -/
def mkWorker (e : Int) (indel : Bool) (s : LibSt) : LibSt :=
  s.map (fun x => let m := applyOpts e indel x.m; ⟨m, some ⟨m.ferr, m.rerr, m.fpi, m.rpi⟩⟩)

/-! ## one read reads the state -/

/-- the matcher (C10): hits of the four patterns of a marker on a read -/
abbrev Scan := String → String → Compiled → Bytes → Hits

/-- insertion of a marker by (forward primer, reverse primer): `slices.SortFunc(pairs, …)` -/
def insMarker (x : MSt) : List MSt → List MSt
  | [] => [x]
  | y :: ys =>
    if x.m.fp < y.m.fp ∨ (x.m.fp = y.m.fp ∧ x.m.rp ≤ y.m.rp) then x :: y :: ys else y :: insMarker x ys

def sortMarkers (s : LibSt) : List MSt := s.foldr insMarker []

/-- the marker handed to the per-read code (tag lengths by `CheckTagLength`, done by `Compile2`) -/
def toMarker (m : LMarker) : Option Marker :=
  (checkTagLength m.samples).map fun p =>
    ⟨m.fp, m.rp, p.1, p.2, m.fsp, m.rsp, m.fdl, m.rdl, m.fin, m.rin, m.fmode, m.rmode, m.samples⟩

/-- `ExtractMultiBarcode` as a state-passing function: (result, library state afterwards).  A nil
pattern (no worker built) is a nil dereference in `AllMatches`: `panic`. -/
def readStep (scan : Scan) (s : LibSt) (id : String) (seq : Bytes) : R (List Record) × LibSt :=
  let ms := sortMarkers s
  let res : R (List Record) :=
    match ms.mapM (fun x => x.pat.bind (fun p => (toMarker x.m).map (fun mk => (mk, scan x.m.fp x.m.rp p seq)))) with
    | none => .error .panic
    | some l => extractMultiBarcode (l.map (·.1)) id seq (l.map (·.2))
  (res, s)

/-- a history of reads on one library object: the results, and the state at the end -/
def runHistory (scan : Scan) : LibSt → List (String × Bytes) → List (R (List Record)) × LibSt
  | s, [] => ([], s)
  | s, rd :: rds =>
    let (r, s1) := readStep scan s rd.1 rd.2
    let (rs, s2) := runHistory scan s1 rds
    (r :: rs, s2)

/-- a sequence of worker constructions on one library object: the parameters after each -/
def runWorkers : LibSt → List (Int × Bool) → List Lib
  | _, [] => []
  | s, (e, indel) :: ws => let s1 := mkWorker e indel s; params s1 :: runWorkers s1 ws

end ObiVerif.DemuxState
