import ObiVerif.Model.Writer
import ObiVerif.Model.Header
/-!
# The per-batch formatters of the four writers (C04) — core Lean only

Transcribed from `/repo`:
* `pkg/obiformats/fastseq_write_fasta.go` : `FormatFastaBatch` (record layout = `Header.formatFasta`, model of C02);
* `pkg/obiformats/fastseq_write_fastq.go` : `FormatFastqBatch` (record layout = `Header.formatFastq`);
* `pkg/obiformats/json_writer.go`         : `JSONRecord` (map of `id` / `sequence` / `qualities` / `annotations`,
  goccy `MarshalIndent(record, "  ", "  ")`: keys sorted, one entry per line, `{}` / `[]` for empty containers,
  string escaping, then `_UnescapeUnicodeCharactersInJSON`), `FormatJSONBatch`;
* `pkg/obiformats/csv_writer.go`          : `CSVHeader`, `CSVRecord`, `FormatCVSBatch`;
* Go `encoding/csv` `Writer.Write` / `fieldNeedsQuotes` (Comma = ',', UseCRLF = false) and `fmt` `%v` on
  strings, ints, bools, slices and string-keyed maps of these.

The title-line annotation text of FASTA/FASTQ (`FormatFastSeqJsonHeader`, property C02) is data (`info`).
Annotation values are the tree `Val`; floats are not modelled.  Strings are byte lists; the JSON escaper is
exact on valid UTF-8 (bytes ≥ 0x80 are copied; goccy replaces *invalid* UTF-8 by U+FFFD: not modelled).
-/
namespace ObiVerif.WriterFmt

abbrev B := List UInt8

/-- an annotation value -/
inductive Val where
  | str (s : B)
  | int (i : Int)
  | bool (b : Bool)
  | list (l : List Val)
  | map (m : List (B × Val))

/-- one record of a batch as the formatters see it -/
structure Rec where
  id : B
  seq : B
  qual : Option B          -- `none` = no qualities (nil or empty slice)
  info : B                 -- `FormatFastSeqJsonHeader(seq)` (data, C02)
  ann : List (B × Val)     -- the annotation map (any order)

def ofStr (s : String) : B := s.toUTF8.toList

/-- decimal digits of a natural number, most significant first, no leading zero (`0` for zero) -/
def natDigits (n : Nat) : B :=
  if h : n < 10 then [48 + UInt8.ofNat n] else natDigits (n / 10) ++ [48 + UInt8.ofNat (n % 10)]
termination_by n
decreasing_by omega

/-- `strconv.Itoa`: an optional `-` and the decimal digits (transcribed digit by digit so that the shape of the
literal — what the JSON grammar asks of a number — is provable; equal to `toString i` on every case of the harness) -/
def dec (i : Int) : B := if i < 0 then 45 :: natDigits i.natAbs else natDigits i.natAbs

/-! ## byte-wise order of keys (Go string `<`) and sorting (goccy / `fmt` print maps by sorted key) -/

def ltB : B → B → Bool
  | [], [] => false
  | [], _ :: _ => true
  | _ :: _, [] => false
  | a :: as, b :: bs => if a < b then true else if b < a then false else ltB as bs

def insertKey {α : Type} (e : B × α) : List (B × α) → List (B × α)
  | [] => [e]
  | x :: xs => if ltB e.1 x.1 then e :: x :: xs else x :: insertKey e xs

def sortKeys {α : Type} (l : List (B × α)) : List (B × α) := l.foldr insertKey []

def lookup {α : Type} (k : B) : List (B × α) → Option α
  | [] => none
  | (j, x) :: t => if j = k then some x else lookup k t

/-! ## FASTA / FASTQ -/

/-- `FormatFastaBatch(batch, formater, skipEmpty)`: `none` = `log.Fatalf("Sequence %s is empty")` -/
def fmtFastaBatch (skipEmpty : Bool) : List Rec → Option B
  | [] => some []
  | r :: rs =>
    if r.seq = [] then (if skipEmpty then fmtFastaBatch skipEmpty rs else none)
    else (fmtFastaBatch skipEmpty rs).map (fun t => Header.formatFasta r.id r.info r.seq ++ 10 :: t)

/-- `FormatFastqBatch(batch, formater, skipEmpty)` -/
def fmtFastqBatch (shift : UInt8) (skipEmpty : Bool) : List Rec → Option B
  | [] => some []
  | r :: rs =>
    if r.seq = [] then (if skipEmpty then fmtFastqBatch shift skipEmpty rs else none)
    else (fmtFastqBatch shift skipEmpty rs).map (fun t => Header.formatFastq shift r.id r.info r.seq r.qual ++ t)

/-! ## JSON -/

def hexDigit (n : UInt8) : UInt8 := if n < 10 then 48 + n else 87 + n

/-- one byte of a string inside a JSON string literal: what goccy's encoder (HTML escaping on) followed by
`_UnescapeUnicodeCharactersInJSON` leaves in the text: `\"`, `\\`, `\n`, `\r`, `\t`, `\u00xx` for the other
control characters, the byte itself otherwise (`<`, `>`, `&`, U+2028/9 are un-escaped again) -/
def escByte (c : UInt8) : B :=
  if c = 34 then [92, 34] else if c = 92 then [92, 92] else if c = 10 then [92, 110]
  else if c = 13 then [92, 114] else if c = 9 then [92, 116]
  else if c < 32 then [92, 117, 48, 48, hexDigit (c >>> 4), hexDigit (c &&& 15)] else [c]

def jStr (s : B) : B := 34 :: (s.flatMap escByte ++ [34])

/-- prefix `"  "` + `depth` × indent `"  "` -/
def ind (d : Nat) : B := List.replicate (2 * (d + 1)) 32

mutual
/-- goccy `MarshalIndent(v, "  ", "  ")` on a value at nesting depth `d` (map entries in the given order) -/
def jVal (d : Nat) : Val → B
  | .str s => jStr s
  | .int i => dec i
  | .bool b => if b then [116, 114, 117, 101] else [102, 97, 108, 115, 101]
  | .list [] => [91, 93]
  | .list (v :: vs) => [91, 10] ++ ind (d + 1) ++ jVal (d + 1) v ++ jElems (d + 1) vs ++ 10 :: ind d ++ [93]
  | .map [] => [123, 125]
  | .map ((k, v) :: es) =>
    [123, 10] ++ ind (d + 1) ++ jStr k ++ [58, 32] ++ jVal (d + 1) v ++ jEntries (d + 1) es ++ 10 :: ind d ++ [125]
/-- the elements after the first one: `,\n` indent value -/
def jElems (d : Nat) : List Val → B
  | [] => []
  | v :: vs => [44, 10] ++ ind d ++ jVal d v ++ jElems d vs
/-- the entries after the first one: `,\n` indent `"key": ` value -/
def jEntries (d : Nat) : List (B × Val) → B
  | [] => []
  | (k, v) :: es => [44, 10] ++ ind d ++ jStr k ++ [58, 32] ++ jVal d v ++ jEntries d es
end

mutual
/-- sort the entries of every map by key (what the encoders do when they print a Go map) -/
def sortVal : Val → Val
  | .str s => .str s
  | .int i => .int i
  | .bool b => .bool b
  | .list l => .list (sortList l)
  | .map m => .map (sortKeys (sortEntries m))
def sortList : List Val → List Val
  | [] => []
  | v :: vs => sortVal v :: sortList vs
def sortEntries : List (B × Val) → List (B × Val)
  | [] => []
  | (k, v) :: es => (k, sortVal v) :: sortEntries es
end

/-- `BioSequence.QualitiesString()` when the record has qualities -/
def qualStr (shift : UInt8) (q : B) : B := q.map (Header.writeQ shift)

/-- the map built by `JSONRecord`, keys in sorted order: annotations < id < qualities < sequence -/
def recordVal (shift : UInt8) (r : Rec) : Val :=
  .map ((if r.ann = [] then [] else [(ofStr "annotations", sortVal (.map r.ann))])
    ++ [(ofStr "id", .str r.id)]
    ++ (match r.qual with | some q => (if q = [] then [] else [(ofStr "qualities", .str (qualStr shift q))]) | none => [])
    ++ (if r.seq = [] then [] else [(ofStr "sequence", .str r.seq)]))

/-- `JSONRecord(sequence)` -/
def jsonRecord (shift : UInt8) (r : Rec) : B := jVal 0 (recordVal shift r)

/-- the records after the first one of a batch: `,\n` + `"  "` + record -/
def jsonTail (shift : UInt8) : List Rec → B
  | [] => []
  | r :: rs => [44, 10, 32, 32] ++ jsonRecord shift r ++ jsonTail shift rs

/-- `FormatJSONBatch(batch)` -/
def fmtJsonBatch (shift : UInt8) : List Rec → B
  | [] => []
  | r :: rs => [32, 32] ++ jsonRecord shift r ++ jsonTail shift rs

/-! ## CSV -/

mutual
/-- `fmt.Sprintf("%v", v)` (maps already sorted) -/
def pv : Val → B
  | .str s => s
  | .int i => dec i
  | .bool b => if b then [116, 114, 117, 101] else [102, 97, 108, 115, 101]
  | .list [] => [91, 93]
  | .list (v :: vs) => 91 :: pv v ++ pvElems vs ++ [93]
  | .map [] => ofStr "map[]"
  | .map ((k, v) :: es) => ofStr "map[" ++ k ++ 58 :: pv v ++ pvEntries es ++ [93]
def pvElems : List Val → B
  | [] => []
  | v :: vs => 32 :: pv v ++ pvElems vs
def pvEntries : List (B × Val) → B
  | [] => []
  | (k, v) :: es => 32 :: (k ++ 58 :: pv v) ++ pvEntries es
end

def sprintv (v : Val) : B := pv (sortVal v)

/-- the column selection of `obicsv` (`Options`: csv_id, csv_count, csv_taxon, csv_definition, csv_keys,
csv_sequence, csv_quality, csv_navalue) -/
structure CsvOpt where
  id : Bool := true
  count : Bool := false
  taxon : Bool := false
  defn : Bool := false
  keys : List B := []
  seq : Bool := true
  qual : Bool := false
  na : B := [78, 65]

/-- `CSVHeader(opt)` -/
def csvHeader (o : CsvOpt) : List B :=
  (if o.id then [ofStr "id"] else []) ++ (if o.count then [ofStr "count"] else [])
  ++ (if o.taxon then [ofStr "taxid", ofStr "scientific_name"] else [])
  ++ (if o.defn then [ofStr "definition"] else []) ++ o.keys
  ++ (if o.seq then [ofStr "sequence"] else []) ++ (if o.qual then [ofStr "quality"] else [])

/-- `GetIntAttribute(key)` restricted to attributes that are Go `int`s or absent (`none` = another type: the
conversion `InterfaceToInt` is not modelled); absent → `dflt` (`Count()`, `Taxid()` return 1) -/
def intAttr (r : Rec) (key : B) (dflt : Int) : Option Int :=
  match lookup key r.ann with
  | none => some dflt
  | some (.int i) => some i
  | some _ => none

/-- `BioSequence.GetAttribute(key)` with its three reserved keys -/
def getAttr (shift : UInt8) (r : Rec) (key : B) : Option Val :=
  if key = ofStr "id" then some (.str r.id)
  else if key = ofStr "sequence" then (if r.seq = [] then none else some (.str r.seq))
  else if key = ofStr "qualities" then
    (match r.qual with | some q => (if q = [] then none else some (.str (qualStr shift q))) | none => none)
  else lookup key r.ann

/-- `CSVRecord(sequence, opt)`; `none` = an attribute type outside the model -/
def csvRecord (shift : UInt8) (o : CsvOpt) (r : Rec) : Option (List B) := do
  let cnt ← intAttr r (ofStr "count") 1
  let taxid ← intAttr r (ofStr "taxid") 1
  let sn : B := match lookup (ofStr "scientific_name") r.ann with
    | some v => sprintv v
    | none => if taxid = 1 then ofStr "root" else o.na
  let defn : B := match lookup (ofStr "definition") r.ann with
    | some v => sprintv v
    | none => []
  let q : B := match r.qual with
    | some q => if q = [] then o.na else q.map (· + shift)
    | none => o.na
  pure ((if o.id then [r.id] else []) ++ (if o.count then [dec cnt] else [])
    ++ (if o.taxon then [dec taxid, sn] else []) ++ (if o.defn then [defn] else [])
    ++ o.keys.map (fun k => match getAttr shift r k with | some v => sprintv v | none => o.na)
    ++ (if o.seq then [r.seq] else []) ++ (if o.qual then [q] else []))

/-- first rune is `unicode.IsSpace` (same class as `strings.TrimSpace`, see `Header.trimLeft`) -/
def startsWithSpace : B → Bool
  | [] => false
  | c :: t =>
    if Header.isAsciiSpace c then true
    else match t with
      | [] => false
      | d :: t' =>
        if c == 0xC2 && (d == 0x85 || d == 0xA0) then true
        else match t' with
          | [] => false
          | e :: _ =>
            (c == 0xE1 && d == 0x9A && e == 0x80) || (c == 0xE2 && d == 0x80 && Header.isE280Space e)
              || (c == 0xE2 && d == 0x81 && e == 0x9F) || (c == 0xE3 && d == 0x80 && e == 0x80)

/-- `csv.Writer.fieldNeedsQuotes` with `Comma = ','` -/
def fieldNeedsQuotes (f : B) : Bool :=
  if f = [] then false
  else if f = [92, 46] then true
  else if f.any (fun c => c == 10 || c == 13 || c == 34 || c == 44) then true
  else startsWithSpace f

/-- the body of a quoted field: `"` doubled, everything else (also `\r`, `\n`: `UseCRLF` is false) as is -/
def quoteBody : B → B
  | [] => []
  | c :: t => if c = 34 then 34 :: 34 :: quoteBody t else c :: quoteBody t

def csvField (f : B) : B := if fieldNeedsQuotes f then 34 :: (quoteBody f ++ [34]) else f

/-- the fields after the first one -/
def csvTail : List B → B
  | [] => []
  | f :: fs => 44 :: (csvField f ++ csvTail fs)

/-- `csv.Writer.Write(record)` -/
def csvRow : List B → B
  | [] => [10]
  | f :: fs => csvField f ++ csvTail fs ++ [10]

/-- `FormatCVSBatch(batch, opt)`: the header only in front of batch number 0 -/
def fmtCsvBatch (shift : UInt8) (o : CsvOpt) (order : Nat) (rs : List Rec) : Option B := do
  let rows ← rs.mapM (csvRecord shift o)
  pure ((if order = 0 then csvRow (csvHeader o) else []) ++ (rows.map csvRow).flatten)

/-! ## the whole files -/

inductive Kind | fasta | fastq | json | csv
deriving DecidableEq

structure Cfg where
  kind : Kind
  shift : UInt8 := 33
  skipEmpty : Bool := false
  csv : CsvOpt := {}

/-- the text of chunk `order` -/
def fmtBatch (c : Cfg) (order : Nat) (rs : List Rec) : Option B :=
  match c.kind with
  | .fasta => fmtFastaBatch c.skipEmpty rs
  | .fastq => fmtFastqBatch c.shift c.skipEmpty rs
  | .json => some (fmtJsonBatch c.shift rs)
  | .csv => fmtCsvBatch c.shift c.csv order rs

/-- the bytes received by the output for the arrival history `arr` of `(order, records)` batches;
`none` = a formatter died (`log.Fatalf`) or met a value outside the model -/
def writeFile (c : Cfg) (arr : List (Nat × List Rec)) : Option B := do
  let chunks ← arr.mapM (fun a => (fmtBatch c a.1 a.2).map (fun t => (a.1, t)))
  pure (match c.kind with
    | .json => Writer.writeJson chunks
    | _ => Writer.writeRaw chunks)

end ObiVerif.WriterFmt

/-! ## paired output: the two files of `Write…ToFile(…, WritePairedReadsTo(f2))` -/

namespace ObiVerif.WriterFmt

/-- one batch of a paired stream: every record with its mate (`BioSequence.PairedWith()`) -/
abbrev PBatch := List (Rec × Rec)

/-- `WriteFastaToFile` / `WriteFastqToFile` / `WriteJSONToFile` / `WriteCSVToFile` on a paired stream: a first writer on
the records (arrival history `arr1` at its writer goroutine), then a second writer — same options — on
`iterator.PairedWith()`: the batches `(order, mates)` (`BioSequenceBatch.PairedWith` keeps the batch number), which
reach the second writer goroutine in their own order `arr2` (the formatting workers of the first writer hand the
batches on as they finish).  `none`: a formatter died. -/
def writePaired (c : Cfg) (arr1 arr2 : List (Nat × PBatch)) : Option (B × B) := do
  let f1 ← writeFile c (arr1.map fun a => (a.1, a.2.map Prod.fst))
  let f2 ← writeFile c (arr2.map fun a => (a.1, a.2.map Prod.snd))
  pure (f1, f2)

end ObiVerif.WriterFmt
