import ObiVerif.Model.Reseq
/-!
# Model of the stream combinators of `pkg/obiiter` (C03)

A record is a natural number (its identity); a batch is `(order, records)`; a stream is the list of
batches **in the order they arrive** on the channel.  Each combinator is transcribed as a function
from arrival lists to the list of batches it pushes, in push order.  Where the Go code calls
`SortBatches()` the model calls `sortBatches`; where N goroutines push concurrently (`MakeISliceWorker`,
`Pool`) the push order is a parameter the theorems quantify over.
-/
namespace ObiVerif.Iter
open ObiVerif.Reseq

abbrev Rec := Nat
abbrev Batch := Nat × List Rec

/-- `SortBatches`: release batch k only after 0..k-1; what is still buffered at the end is dropped -/
def sortBatches (arr : List Batch) : List Batch :=
  (run (fun (l : List Batch) (b : Batch) => l ++ [b]) (fun l b => l ++ [b]) []
     (arr.map fun b => (b.1, b))).acc

def flatten (bs : List Batch) : List Rec := bs.flatMap (·.2)

/-- inner `for remains > 0` loop of `Rebatch` for one incoming batch `seqs` (already reduced to the
records not yet consumed): returns pushed batches, next order, buffer.  Fuel = number of records + 1. -/
def rebatchFill (size : Nat) : Nat → List Rec → Nat → List Rec → List Batch → (List Batch × Nat × List Rec)
  | 0, _, order, buffer, out => (out, order, buffer)
  | fuel+1, seqs, order, buffer, out =>
    if seqs.isEmpty then (out, order, buffer)
    else
      let space := size - buffer.length
      let toPush := min seqs.length space
      let buffer := buffer ++ seqs.take toPush
      if buffer.length = size then
        rebatchFill size fuel (seqs.drop toPush) (order + 1) [] (out ++ [(order, buffer)])
      else
        rebatchFill size fuel (seqs.drop toPush) order buffer out

/-- `Rebatch(size)` (size > 0) -/
def rebatch (size : Nat) (arr : List Batch) : List Batch :=
  let (out, order, buffer) := (sortBatches arr).foldl
    (fun (st : List Batch × Nat × List Rec) (b : Batch) =>
      rebatchFill size (b.2.length + 1) b.2 st.2.1 st.2.2 st.1) ([], 0, [])
  if buffer.length > 0 then out ++ [(order, buffer)] else out

/-- `FilterEmpty` -/
def filterEmpty (arr : List Batch) : List Batch :=
  ((sortBatches arr).foldl (fun (st : List Batch × Nat) (b : Batch) =>
      if b.2.length > 0 then (st.1 ++ [(st.2, b.2)], st.2 + 1) else st) ([], 0)).1

/-- `Concat`: `maxOrder` is an `Int` because the repaired code starts it at -1 -/
def concatOne (prevMax : Nat) (st : List Batch × Int) (b : Batch) : List Batch × Int :=
  let o : Int := b.1 + prevMax
  (st.1 ++ [(b.1 + prevMax, b.2)], if o > st.2 then o else st.2)

def concat (first : List Batch) (others : List (List Batch)) : List Batch :=
  let st := first.foldl (concatOne 0) ([], (-1 : Int))
  (others.foldl (fun (acc : (List Batch × Int) × Nat) (s : List Batch) =>
      let st := s.foldl (concatOne acc.2) acc.1
      (st, (st.2 + 1).toNat)) (st, (st.2 + 1).toNat)).1.1

/-- the per-record loop of `DivideOn` -/
structure DivSt where
  tOut : List Batch
  fOut : List Batch
  tOrder : Nat
  fOrder : Nat
  tSlice : List Rec
  fSlice : List Rec

def divideRec (p : Rec → Bool) (size : Nat) (st : DivSt) (s : Rec) : DivSt :=
  let st := if p s then { st with tSlice := st.tSlice ++ [s] } else { st with fSlice := st.fSlice ++ [s] }
  let st := if st.tSlice.length = size then
      { st with tOut := st.tOut ++ [(st.tOrder, st.tSlice)], tOrder := st.tOrder + 1, tSlice := [] } else st
  if st.fSlice.length = size then
      { st with fOut := st.fOut ++ [(st.fOrder, st.fSlice)], fOrder := st.fOrder + 1, fSlice := [] } else st

/-- `DivideOn(predicate, size)`: (true stream, false stream) -/
def divideOn (p : Rec → Bool) (size : Nat) (arr : List Batch) : List Batch × List Batch :=
  let st := (flatten (sortBatches arr)).foldl (divideRec p size) ⟨[], [], 0, 0, [], []⟩
  (if st.tSlice.length > 0 then st.tOut ++ [(st.tOrder, st.tSlice)] else st.tOut,
   if st.fSlice.length > 0 then st.fOut ++ [(st.fOrder, st.fSlice)] else st.fOut)

/-- `MakeISliceWorker`: each batch keeps its number and gets the worker's records; the push order of
the N goroutines is not determined — callers sort. -/
def workerStage (f : Rec → List Rec) (arr : List Batch) : List Batch :=
  arr.map fun b => (b.1, b.2.flatMap f)

/-- `FilterOn(predicate, size)` = workers filtering in place, then `Rebatch(size)` -/
def filterOn (p : Rec → Bool) (size : Nat) (arr : List Batch) : List Batch :=
  rebatch size (arr.map fun b => (b.1, b.2.filter p))

/-- `Distribute`: the stream pushed for class `key` (batches of `size`), records in input order -/
def distributeKey (cls : Rec → Nat) (size : Nat) (key : Nat) (arr : List Batch) : List Batch :=
  let recs := (flatten (sortBatches arr)).filter (fun r => cls r == key)
  let st := recs.foldl (fun (st : List Batch × Nat × List Rec) (r : Rec) =>
      let sl := st.2.2 ++ [r]
      if sl.length = size then (st.1 ++ [(st.2.1, sl)], st.2.1 + 1, []) else (st.1, st.2.1, sl)) ([], 0, [])
  if st.2.2.length > 0 then st.1 ++ [(st.2.1, st.2.2)] else st.1

/-- `PairTo`: both sides are sorted and re-batched to `size`, then zipped batch by batch -/
def pairTo (size : Nat) (a b : List Batch) : List (Nat × List (Rec × Rec)) :=
  let ra := rebatch size (sortBatches a)
  let rb := rebatch size (sortBatches b)
  (ra.zip rb).map fun (x, y) => (x.1, x.2.zip y.2)

/-- `Pool`: batches renumbered by a shared counter in push order (`arr` = the interleaving) -/
def pool (arr : List Batch) : List Batch :=
  (arr.foldl (fun (st : List Batch × Nat) (b : Batch) => (st.1 ++ [(st.2, b.2)], st.2 + 1)) ([], 0)).1

/-- `IBatchOver(source, data, size)`: consecutive windows of `size` records, numbered from 0
(fuel = number of records + 1; `size > 0`) -/
def batchOver (size : Nat) : Nat → List Rec → Nat → List Batch
  | 0, _, _ => []
  | fuel+1, data, batchid =>
    if data.isEmpty then [] else (batchid, data.take size) :: batchOver size fuel (data.drop size) (batchid + 1)

end ObiVerif.Iter
