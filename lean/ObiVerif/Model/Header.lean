/-!
# Model of the title-line / JSON-header / folding / quality code (property C02) — core Lean only

Transcribed from `/repo`:
* `pkg/obiformats/fastseq_json_header.go` : `_parse_json_header_` (the brace/quote scanner, **with the repair**
  "inside a quoted string a backslash skips the next byte"), `ParseFastSeqJsonHeader`;
* `pkg/obiformats/fastseq_header.go`      : `ParseGuessedFastSeqHeader` (dispatch only);
* `pkg/obiformats/fastseq_write_fasta.go` : `FormatFasta`, `FormatFastaBatch` (60-column folding);
* `pkg/obiformats/fastseq_write_fastq.go` : `_formatFastq`, `FormatFastqBatch`;
* `pkg/obiformats/fastaseq_read.go`       : `FastaChunkParser` (7-state byte machine);
* `pkg/obiformats/fastqseq_read.go`       : `FastqChunkParser` (12-state byte machine), `_storeSequenceQuality`;
* `pkg/obiseq/biosequence.go`             : `QualitiesString` (clamp 93 + output shift), `Qualities` (default 40);
* Go `strings.TrimSpace` (documented behaviour, UTF-8 aware).

The header parser takes the JSON library as a parameter (`Lib`, `JsonLib`); `Model/Json.lean` models goccy/go-json
(`goJson : JsonLib JMems`) and the theorems of `Props/C02.lean` instantiate the parameter with it.
-/
namespace ObiVerif.Header

abbrev Bytes := List UInt8

/-! ## character classes used by the parsers -/

/-- `C == '\r' || C == '\n'` -/
def isEol (c : UInt8) : Bool := c == 13 || c == 10
/-- `C == ' ' || C == '\t'` -/
def isSpace (c : UInt8) : Bool := c == 32 || c == 9
def isSep (c : UInt8) : Bool := isSpace c || isEol c
/-- `if C >= 'A' && C <= 'Z' { C = C + 'a' - 'A' }` -/
def lower (c : UInt8) : UInt8 := if 65 ≤ c ∧ c ≤ 90 then c + 32 else c
/-- `(C >= 'a' && C <= 'z') || C == '-' || C == '.' || C == '[' || C == ']'` -/
def seqOK (c : UInt8) : Bool := (97 ≤ c && c ≤ 122) || c == 45 || c == 46 || c == 91 || c == 93

/-! ## the JSON-object scanner of `_parse_json_header_` -/

/-- the loop variables `start, stop, level, inquote` -/
structure Scan where
  start : Int
  stop : Int
  level : Int
  inquote : Bool
deriving Repr, DecidableEq

def Scan.init : Scan := ⟨-1, -1, 0, false⟩

/-- the five `if`s of the loop body, in the order of the source, for byte `c` at index `i` -/
def scanStep (st : Scan) (i : Nat) (c : UInt8) : Scan :=
  -- if level == 0 && header[i] == '{' && !inquote { start = i }
  let start : Int := if st.level = 0 ∧ c = 123 ∧ st.inquote = false then (i : Int) else st.start
  -- if start > -1 && header[i] == '"' { inquote = !inquote }
  let inquote : Bool := if start > -1 ∧ c = 34 then !st.inquote else st.inquote
  -- if header[i] == '{' && !inquote { level++ }
  let level : Int := if c = 123 ∧ inquote = false then st.level + 1 else st.level
  -- if header[i] == '}' && !inquote { level-- }
  let level : Int := if c = 125 ∧ inquote = false then level - 1 else level
  -- if start >= 0 && level == 0 { stop = i }
  let stop : Int := if start ≥ 0 ∧ level = 0 then (i : Int) else st.stop
  ⟨start, stop, level, inquote⟩

/-- `for i := 0; (i < lh) && (stop < 0); i++ { if inquote && header[i] == '\\' { i++; continue }; … }`
    on the bytes `header[i:]` -/
def scanLoop : Scan → Nat → Bytes → Scan
  | st, _, [] => st
  | st, i, c :: t =>
    if st.stop ≥ 0 then st
    else if st.inquote = true ∧ c = 92 then
      match t with
      | [] => st
      | _ :: t' => scanLoop st (i + 2) t'
    else scanLoop (scanStep st i c) (i + 1) t

/-- the span `[start, stop+1)` handed to `json.Unmarshal`, or `none` (`start < 0 || stop < 0`: header returned as is) -/
def scanJson (h : Bytes) : Option (Nat × Nat) :=
  let st := scanLoop Scan.init 0 h
  if st.start < 0 ∨ st.stop < 0 then none else some (st.start.toNat, st.stop.toNat + 1)

/-! ## `strings.TrimSpace` -/

def isAsciiSpace (c : UInt8) : Bool := c == 9 || c == 10 || c == 11 || c == 12 || c == 13 || c == 32

/-- third byte of the white-space code points U+2000…U+200A, U+2028, U+2029, U+202F (`E2 80 xx`) -/
def isE280Space (d : UInt8) : Bool := (0x80 ≤ d && d ≤ 0x8A) || d == 0xA8 || d == 0xA9 || d == 0xAF

/-- strip leading white-space runes (`unicode.IsSpace`): ASCII `\t\n\v\f\r␠`, U+0085, U+00A0 (`C2 85`, `C2 A0`),
    U+1680 (`E1 9A 80`), U+2000…200A/2028/2029/202F (`E2 80 xx`), U+205F (`E2 81 9F`), U+3000 (`E3 80 80`);
    anything else, including an invalid encoding, stops the trimming -/
def trimLeft : Bytes → Bytes
  | [] => []
  | c :: t =>
    if isAsciiSpace c then trimLeft t
    else match t with
      | [] => c :: t
      | d :: t' =>
        if c == 0xC2 && (d == 0x85 || d == 0xA0) then trimLeft t'
        else match t' with
          | [] => c :: t
          | e :: t'' =>
            if (c == 0xE1 && d == 0x9A && e == 0x80) || (c == 0xE2 && d == 0x80 && isE280Space e)
               || (c == 0xE2 && d == 0x81 && e == 0x9F) || (c == 0xE3 && d == 0x80 && e == 0x80)
            then trimLeft t'' else c :: t

/-- the same on the reversed string (white-space runes at the end, bytes in reverse order) -/
def trimLeftRev : Bytes → Bytes
  | [] => []
  | c :: t =>
    if isAsciiSpace c then trimLeftRev t
    else match t with
      | [] => c :: t
      | d :: t' =>
        if d == 0xC2 && (c == 0x85 || c == 0xA0) then trimLeftRev t'
        else match t' with
          | [] => c :: t
          | e :: t'' =>
            if (e == 0xE1 && d == 0x9A && c == 0x80) || (e == 0xE2 && d == 0x80 && isE280Space c)
               || (e == 0xE2 && d == 0x81 && c == 0x9F) || (e == 0xE3 && d == 0x80 && c == 0x80)
            then trimLeftRev t'' else c :: t

def trimSpace (s : Bytes) : Bytes := (trimLeftRev (trimLeft s).reverse).reverse

/-! ## `_parse_json_header_`, `ParseFastSeqJsonHeader`, `ParseGuessedFastSeqHeader` -/

/-- what go-json answers on a span: `none` = error, `some (a, d)` = decoded annotations `a` (without the key
    `definition`) and the value of the key `definition` if present -/
abbrev Lib (α : Type) := Nat → Nat → Option (α × Option Bytes)

inductive HdrOut (α : Type)
  | unparsed                                           -- no object found: `return header`
  | fatal                                              -- `log.Fatalf("annotation parsing error …")`
  | ok (ann : α) (defn : Option Bytes) (rest : Bytes)   -- annotations, `strings.TrimSpace(header[stop:])`
deriving Repr

/-- `_parse_json_header_(header, annotations)` with the JSON library as a parameter -/
def parseJsonHeader {α : Type} (lib : Lib α) (h : Bytes) : HdrOut α :=
  match scanJson h with
  | none => .unparsed
  | some (s, e) =>
    match lib s e with
    | none => .fatal
    | some (a, d) => .ok a d (trimSpace (h.drop e))

/-- a record after header parsing: annotations (without `definition`) + the definition annotation -/
structure Parsed (α : Type) where
  ann : α
  defn : Option Bytes
deriving Repr

/-- `ParseFastSeqJsonHeader`: `definition := Definition(); SetDefinition(""); part := _parse_json_header_(…);
    if len(part) > 0 { if HasDefinition() { part = Definition() + " " + part }; SetDefinition(part) }`;
    `empty` = the empty annotation map -/
def parseFastSeqJsonHeader {α : Type} (empty : α) (lib : Lib α) (defn : Bytes) : Option (Parsed α) :=
  match parseJsonHeader lib defn with
  | .unparsed => some ⟨empty, if defn = [] then none else some defn⟩
  | .fatal => none
  | .ok a d rest =>
    if rest = [] then some ⟨a, d⟩
    else match d with
      | some d => some ⟨a, some (d ++ 32 :: rest)⟩
      | none => some ⟨a, some rest⟩

/-! ## writers -/

/-- `for i := 0; i < l; i += 60 { fmt.Fprintf(&fragments, "%s\n", s[i:min(i+60,l)]) }` (fuel = number of lines at most) -/
def foldLinesF : Nat → Bytes → Bytes
  | 0, _ => []
  | n + 1, s => if s = [] then [] else s.take 60 ++ 10 :: foldLinesF n (s.drop 60)

def foldLines (s : Bytes) : Bytes := foldLinesF s.length s

/-- `folded = fragments.String(); folded = folded[:fragments.Len()-1]` (only when `l > 0`) -/
def fold60 (s : Bytes) : Bytes := if s = [] then [] else (foldLines s).dropLast

/-- `fmt.Sprintf(">%s %s\n%s", seq.Id(), info, folded)` -/
def formatFasta (id info seq : Bytes) : Bytes := 62 :: id ++ 32 :: info ++ 10 :: fold60 seq

/-- `quality > 93 → 93 ; quality + quality_shift` (byte arithmetic) -/
def writeQ (shift q : UInt8) : UInt8 := (if q > 93 then 93 else q) + shift

/-- `q[i] -= quality_shift` -/
def readQ (shift c : UInt8) : UInt8 := c - shift

/-- `BioSequence.Qualities()` : stored qualities when present and non-empty, else 40 everywhere -/
def qualities (seq : Bytes) (q : Option Bytes) : Bytes :=
  match q with
  | some q => if q = [] then List.replicate seq.length 40 else q
  | none => List.replicate seq.length 40

/-- `_formatFastq` -/
def formatFastq (shift : UInt8) (id info seq : Bytes) (q : Option Bytes) : Bytes :=
  64 :: id ++ 32 :: info ++ 10 :: seq ++ [10, 43, 10] ++ (qualities seq q).map (writeQ shift) ++ [10]

/-! ## readers: the byte state machines of `FastaChunkParser` / `FastqChunkParser` -/

structure Rec where
  id : Bytes
  defn : Bytes                -- the rest of the title line; `[]` = no definition annotation
  seq : Bytes
  qual : Option Bytes
deriving Repr, DecidableEq, Inhabited

inductive Err | fatal | panic
deriving Repr, DecidableEq

structure PSt where
  state : Nat := 0
  idB : Bytes := []
  defB : Bytes := []
  seqB : Bytes := []
  qualB : Bytes := []
  ident : Bytes := []
  defn : Bytes := []
  prev : UInt8 := 0
  out : List Rec := []
deriving Repr

/-- one iteration of the `for C, err := scanner.ReadByte(); …` loop of `FastaChunkParser` -/
def faStep (st : PSt) (c : UInt8) : Except Err PSt :=
  match st.state with
  | 0 => if c = 62 then .ok { st with state := 1, prev := c } else .error .fatal
  | 1 => if isSep c then .error .fatal else .ok { st with idB := [c], state := 2, prev := c }
  | 2 =>
    let st := if isSep c then { st with ident := st.idB, idB := [], state := 3 } else { st with idB := st.idB ++ [c] }
    let st := if isEol c then { st with defn := [], state := 5 } else st
    .ok { st with prev := c }
  | 3 =>
    if isEol c then .ok { st with defn := [], state := 5, prev := c }
    else if !isSpace c then .ok { st with defB := [c], state := 4, prev := c }
    else .ok { st with prev := c }
  | 4 =>
    if isEol c then .ok { st with defn := st.defB, state := 5, prev := c }
    else .ok { st with defB := st.defB ++ [c], prev := c }
  | 5 =>
    if !isEol c then
      let C := lower c
      if seqOK C then .ok { st with seqB := [C], state := 6, prev := C } else .error .fatal
    else .ok { st with prev := c }
  | 6 =>
    if c = 62 then
      if st.prev = 13 ∨ st.prev = 10 then
        if st.seqB = [] then .error .fatal
        else .ok { st with out := st.out ++ [⟨st.ident, st.defn, st.seqB, none⟩], state := 1, prev := c }
      else .error .fatal
    else if !isSep c then
      let C := lower c
      if seqOK C then .ok { st with seqB := st.seqB ++ [C], prev := C } else .error .fatal
    else .ok { st with prev := c }
  | _ => .ok { st with prev := c }

/-- `FastaChunkParser()(source, input)` on the whole text of a chunk -/
def parseFasta (text : Bytes) : Except Err (List Rec) :=
  -- start, _ := scanner.Peek(20); start[0] != '>' → Fatalf ; start[1] == ' ' → Fatalf
  match text with
  | [] => .error .panic
  | [c] => if c ≠ 62 then .error .fatal else .error .panic
  | c :: d :: _ =>
    if c ≠ 62 then .error .fatal
    else if d = 32 then .error .fatal
    else do
      let st ← text.foldlM faStep ({} : PSt)
      if st.state = 6 then
        if st.seqB = [] then .error .fatal
        else pure (st.out ++ [⟨st.ident, st.defn, st.seqB, none⟩])
      else pure st.out

/-- `_storeSequenceQuality(&qualBytes, sequences[len(sequences)-1], quality_shift)` -/
def storeQ (shift : UInt8) (st : PSt) : Except Err PSt :=
  match st.out.reverse with
  | [] => .error .panic
  | last :: revInit =>
    if st.qualB = [] then .error .fatal
    else if st.qualB.length ≠ last.seq.length then .error .fatal
    else .ok { st with out := (revInit.reverse) ++ [{ last with qual := some (st.qualB.map (readQ shift)) }] }

/-- one iteration of the loop of `FastqChunkParser(quality_shift, with_quality)` -/
def fqStep (shift : UInt8) (withQ : Bool) (st : PSt) (c : UInt8) : Except Err PSt :=
  match st.state with
  | 0 => if c = 64 then .ok { st with state := 1, prev := c } else .error .fatal
  | 1 => if isSep c then .error .fatal else .ok { st with idB := [c], state := 2, prev := c }
  | 2 =>
    let st := if isSep c then { st with ident := st.idB, state := 3 } else { st with idB := st.idB ++ [c] }
    let st := if isEol c then { st with defn := [], state := 5 } else st
    .ok { st with prev := c }
  | 3 =>
    if isEol c then .ok { st with defn := [], state := 5, prev := c }
    else if !isSpace c then .ok { st with defB := [c], state := 4, prev := c }
    else .ok { st with prev := c }
  | 4 =>
    if isEol c then .ok { st with defn := st.defB, state := 5, prev := c }
    else .ok { st with defB := st.defB ++ [c], prev := c }
  | 5 =>
    if !isEol c then
      let C := lower c
      .ok { st with seqB := [C], state := 6, prev := C }
    else .ok { st with prev := c }
  | 6 =>
    if isEol c then
      if st.seqB = [] then .error .fatal
      else .ok { st with out := st.out ++ [⟨st.ident, st.defn, st.seqB, none⟩], state := 7, prev := c }
    else
      let C := lower c
      if seqOK C then .ok { st with seqB := st.seqB ++ [C], prev := C } else .error .fatal
  | 7 =>
    if isEol c then .ok { st with prev := c }
    else if c = 43 then .ok { st with state := 8, prev := c }
    else .error .fatal
  | 8 => if isEol c then .ok { st with state := 9, prev := c } else .ok { st with prev := c }
  | 9 =>
    if isEol c then .ok { st with prev := c }
    else .ok { st with state := 10, qualB := [c], prev := c }
  | 10 =>
    if isEol c then do
      let st ← if withQ then storeQ shift st else pure st
      pure { st with state := 11, prev := c }
    else .ok { st with qualB := st.qualB ++ [c], prev := c }
  | 11 =>
    if isEol c then .ok { st with prev := c }
    else if c = 64 then .ok { st with state := 1, prev := c }
    else .error .fatal
  | _ => .ok { st with prev := c }

/-- `FastqChunkParser(quality_shift, with_quality)(source, input)` on the whole text of a chunk -/
def parseFastq (shift : UInt8) (withQ : Bool) (text : Bytes) : Except Err (List Rec) := do
  let st ← text.foldlM (fqStep shift withQ) ({} : PSt)
  -- if len(sequences) > 0 { if state == 10 { if with_quality { _storeSequenceQuality(…) } } }
  if st.out ≠ [] ∧ st.state = 10 then
    let st ← if withQ then storeQ shift st else pure st
    pure st.out
  else pure st.out

/-! ## structural layer (what the theorems talk about; the driver checks it against the machines on every case) -/

/-- title line (without `>`/`@` and without the end of line) → identifier, rest -/
def splitTitle (t : Bytes) : Bytes × Bytes :=
  (t.takeWhile (fun c => !isSep c), ((t.dropWhile (fun c => !isSep c)).dropWhile isSpace))

/-- `id ++ " " ++ info` as both writers print it -/
def writeTitle (id info : Bytes) : Bytes := id ++ 32 :: info

/-- sequence lines → sequence (states 5/6 of the FASTA parser: separators dropped, upper case lowered) -/
def unfold (body : Bytes) : Bytes := (body.filter (fun c => !isSep c)).map lower

/-- one FASTA record, structurally: `>` title EOL body -/
def readFastaS (text : Bytes) : Option Rec :=
  match text with
  | c :: t =>
    if c = 62 then
      let line := t.takeWhile (fun c => !isEol c)
      let body := t.dropWhile (fun c => !isEol c)
      some ⟨(splitTitle line).1, (splitTitle line).2, unfold body, none⟩
    else none
  | [] => none

/-- one single-line FASTQ record, structurally: `@` title EOL seq EOL `+` EOL qual EOL -/
def readFastqS (shift : UInt8) (text : Bytes) : Option Rec :=
  match text with
  | [] => none
  | c :: t =>
    if c ≠ 64 then none else
    let line := t.takeWhile (fun c => !isEol c)
    let r1 := (t.dropWhile (fun c => !isEol c)).dropWhile isEol
    let sq := r1.takeWhile (fun c => !isEol c)
    let r2 := ((r1.dropWhile (fun c => !isEol c)).dropWhile isEol)      -- "+…"
    let r3 := ((r2.dropWhile (fun c => !isEol c)).dropWhile isEol)      -- quality line
    let ql := r3.takeWhile (fun c => !isEol c)
    some ⟨(splitTitle line).1, (splitTitle line).2, sq.map lower, some (ql.map (readQ shift))⟩

/-! ## whole records: writer ∘ JSON library, chunk parser ∘ header parser -/

/-- the JSON library as the code uses it (`obiutils.JsonMarshalByteBuffer` / `json.Unmarshal`), on annotation maps
    split into (map without the key `definition`, value of `definition`) -/
structure JsonLib (α : Type) where
  empty : α
  marshal : α × Option Bytes → Bytes
  unmarshal : Bytes → Option (α × Option Bytes)

/-- `json.Unmarshal([]byte(header)[start:stop], &annotations)` -/
def JsonLib.lib {α : Type} (J : JsonLib α) (h : Bytes) : Lib α :=
  fun s e => J.unmarshal ((h.drop s).take (e - s))

structure Record (α : Type) where
  id : Bytes
  seq : Bytes
  qual : Option Bytes
  ann : α
  defn : Option Bytes

/-- `FormatFastSeqJsonHeader`: `if len(annotations) > 0 { marshal } else ""` -/
def info {α : Type} [DecidableEq α] (J : JsonLib α) (ann : α) (defn : Option Bytes) : Bytes :=
  if ann = J.empty ∧ defn = none then [] else J.marshal (ann, defn)

/-- `FormatFastaBatch` on one record (`FormatFasta` + "\n") -/
def writeFasta {α : Type} [DecidableEq α] (J : JsonLib α) (r : Record α) : Bytes :=
  formatFasta r.id (info J r.ann r.defn) r.seq ++ [10]

/-- `FormatFastqBatch` on one record -/
def writeFastq {α : Type} [DecidableEq α] (J : JsonLib α) (shift : UInt8) (r : Record α) : Bytes :=
  formatFastq shift r.id (info J r.ann r.defn) r.seq r.qual

/-- `ParseFastSeqJsonHeader` on a record delivered by a chunk parser -/
def readRec {α : Type} (J : JsonLib α) (rc : Rec) : Option (Record α) :=
  (parseFastSeqJsonHeader J.empty (J.lib rc.defn) rc.defn).map
    (fun p => ⟨rc.id, rc.seq, rc.qual, p.ann, p.defn⟩)

/-- `FastaChunkParser` then `ParseFastSeqJsonHeader` on every record (`none` = Fatalf / panic) -/
def readFasta {α : Type} (J : JsonLib α) (text : Bytes) : Option (List (Record α)) :=
  match parseFasta text with
  | .ok rs => rs.mapM (readRec J)
  | .error _ => none

/-- `FastqChunkParser(shift, true)` then `ParseFastSeqJsonHeader` on every record -/
def readFastq {α : Type} (J : JsonLib α) (shift : UInt8) (text : Bytes) : Option (List (Record α)) :=
  match parseFastq shift true text with
  | .ok rs => rs.mapM (readRec J)
  | .error _ => none

/-! ## `ParseGuessedFastSeqHeader` (fastseq_header.go) -/

/-- `if strings.HasPrefix(sequence.Definition(), "{") { ParseFastSeqJsonHeader } else { ParseFastSeqOBIHeader }`;
    the OBI-format parser is outside this property: parameter `obi` -/
def parseGuessed {α : Type} (obi : Bytes → Option (Parsed α)) (empty : α) (lib : Lib α) (defn : Bytes) :
    Option (Parsed α) :=
  if defn.head? = some 123 then parseFastSeqJsonHeader empty lib defn else obi defn

/-- `ParseGuessedFastSeqHeader` on a record delivered by a chunk parser -/
def readRecG {α : Type} (J : JsonLib α) (obi : Bytes → Option (Parsed α)) (rc : Rec) : Option (Record α) :=
  (parseGuessed obi J.empty (J.lib rc.defn) rc.defn).map (fun p => ⟨rc.id, rc.seq, rc.qual, p.ann, p.defn⟩)

def readFastaG {α : Type} (J : JsonLib α) (obi : Bytes → Option (Parsed α)) (text : Bytes) :
    Option (List (Record α)) :=
  match parseFasta text with
  | .ok rs => rs.mapM (readRecG J obi)
  | .error _ => none

def readFastqG {α : Type} (J : JsonLib α) (obi : Bytes → Option (Parsed α)) (shift : UInt8) (text : Bytes) :
    Option (List (Record α)) :=
  match parseFastq shift true text with
  | .ok rs => rs.mapM (readRecG J obi)
  | .error _ => none

end ObiVerif.Header
