import ObiVerif.Model.ReseqSteps
/-!
# Checking an instrumented run of the real `SortBatches` against the transition system (C03)

The harness runs `N` pusher goroutines (the worker goroutines of a worker stage reduced to their `Push`)
in front of the real `SortBatches` and a consumer behind it, with unbuffered channels, and logs, in one
total order: `b k` (a pusher is about to `Push` batch `k`), `e k` (that `Push` returned: the sorter has
received `k`), `d k` (the consumer received `k`), `q` (a pusher called `Done`), `x` (the consumer's `Next`
returned false).  A log entry is written *after* (for `b`: before) the channel operation it reports, so the
real operation lies: reception of `k` by the sorter between `b k` and `e k`; delivery of `k` before `d k`.

`check` replays the log on the model state of `Model/ReseqSteps.lean` with the very functions the `Step`
relation uses (`sorterGot` for `wHand`, `afterSend` for `sHand`), firing each model step as late as the log
allows, and accepts iff the log is the trace of an execution of the model: the sorter receives only what a
pusher holds, only when it is in `recv`; it sends `k` only when `k = next`; the consumer's receptions are
logged in delivery order; at `x` nothing is held, buffered or undelivered (a pusher logs `q` after its `Done`,
so some `q` may follow `x`: only their number, at most `N`, is checked).
-/
namespace ObiVerif.ReseqSteps

inductive Ev where
  | b (k : Nat)
  | e (k : Nat)
  | d (k : Nat)
  | q
  | x
  deriving Repr, DecidableEq

structure TSt where
  s : St
  /-- batches a pusher holds (between `b` and the reception by the sorter) -/
  held : List Nat
  /-- number of `d` entries seen: `s.delivered.drop logged` = delivered, not yet logged -/
  logged : Nat
  quits : Nat
  ended : Bool

/-- `sHand` -/
def fireSend (t : TSt) (k : Nat) : TSt :=
  { t with s := afterSend { t.s with delivered := t.s.delivered ++ [k] } }

/-- let the sorter get rid of what it is sending (the consumer may have taken it without having logged it
yet); fuel = number of batches -/
def flushSends : Nat → TSt → TSt
  | 0, t => t
  | fuel + 1, t =>
    match t.s.spc with
    | .send k => flushSends fuel (fireSend t k)
    | _ => t

/-- `wHand`: the sorter (in `recv`) receives `k` from the pusher holding it -/
def fireRecv (t : TSt) (k : Nat) : Option TSt :=
  if t.held.contains k && t.s.spc == .recv then
    some { t with s := sorterGot t.s k, held := t.held.erase k }
  else none

def stepEv (n : Nat) (nw : Nat) (t : TSt) : Ev → Option TSt
  | .b k => if t.ended || t.held.contains k || t.s.arrived.contains k then none else some { t with held := k :: t.held }
  | .e k =>
    if t.ended then none
    else if t.s.arrived.contains k then some t
    else fireRecv (flushSends n t) k
  | .d k =>
    if t.ended then none else
    match t.s.delivered.drop t.logged with
    | j :: _ => if j = k then some { t with logged := t.logged + 1 } else none
    | [] =>
      let t1 := if t.s.spc == .send k then some t else
        match fireRecv t k with
        | some t' => if t'.s.spc == .send k then some t' else none
        | none => none
      t1.map fun t' => { fireSend t' k with logged := t.logged + 1 }
  | .q => if t.quits < nw then some { t with quits := t.quits + 1 } else none
  | .x =>
    let t' := flushSends n t
    if t.ended || !t.held.isEmpty || t'.s.spc != .recv || !t'.s.pending.isEmpty ||
        t'.s.delivered.length != t'.logged || !t'.s.cmid.isEmpty then none
    else some { t' with ended := true }

def tinit : TSt :=
  { s := init [] 0, held := [], logged := 0, quits := 0, ended := false }

/-- index of the first log entry that is not a model step, or the final state -/
def replay (n nw : Nat) : Nat → TSt → List Ev → Except Nat TSt
  | _, t, [] => .ok t
  | i, t, ev :: rest =>
    match stepEv n nw t ev with
    | some t' => replay n nw (i + 1) t' rest
    | none => .error i

/-- the log is the trace of a complete execution of the model delivering `0..n-1` in order -/
def check (n nw : Nat) (evs : List Ev) : Except Nat Unit :=
  match replay n nw 0 tinit evs with
  | .error i => .error i
  | .ok t => if t.ended && t.s.delivered == List.range n && t.s.next == n then .ok () else .error evs.length

end ObiVerif.ReseqSteps
