import ObiVerif.Model.Command
import ObiVerif.Model.IterWorker
/-!
# Command shapes other than the record-wise pipeline (C05, third pass)

* **group-by then per-group function** (obiuniq: classes of equal (sequence, categories); obiclean: samples):
  the data set is what the batches hold, in ARRIVAL order (`ISequenceChunk`, `IBioSequence.Load`), the classes
  are handed to the workers and come out in any order;
* **load then a function of the whole data set** (obiclean after `SortBatches().Load()`): the records are put
  back in batch-number order before the function is applied — the bytes are then a function of the input;
* **two inputs zipped** (obipairing, obigrep --paired-with): `PairTo` on two independently cut streams, a worker
  on the pairs, a writer;
* **one-to-many worker through the adapters of `pkg/obiseq/worker.go`** (obipcr, obimultiplex:
  `MakeIWorker(worker, breakOnError)` = `MakeISliceWorker(SeqToSliceWorker(worker))`, output slice grown on demand).
-/
namespace ObiVerif.Command
open ObiVerif.Iter ObiVerif.Writer

/-- the texts of the classes `ks` (in the order the workers deliver them) of the data set `db` (in the order it was
accumulated): `g` sees the members of a class in data-set order -/
def groupOutputs (key : Rec → Nat) (g : List Rec → Bytes) (db : List Rec) (ks : List Nat) : List Bytes :=
  ks.map fun k => g (db.filter fun r => key r == k)

/-- `iterator.SortBatches().Load()` followed by a function of the whole data set -/
def loadedCommand (G : List Rec → Bytes) (arr : List Batch) : Bytes := G (flatten (sortBatches arr))

/-- `iterator.Load()` (arrival order) followed by a function of the whole data set -/
def loadedCommandArrival (G : List Rec → Bytes) (arr : List Batch) : Bytes := G (flatten arr)

/-- the formatted text of a batch of pairs -/
def pairBatchText (asm : Rec × Rec → Bytes) (pb : Nat × List (Rec × Rec)) : Nat × Bytes :=
  (pb.1, (pb.2.map asm).flatten)

/-- obipairing: `a`, `b` = the batches of the two files in the order they reach `PairTo`; `pW` = the re-ordering
of the paired batches by the assembling workers on their way to the writer -/
def pairedCommand (size : Nat) (asm : Rec × Rec → Bytes) (a b : List Batch)
    (pW : List (Nat × Bytes) → List (Nat × Bytes)) : Bytes :=
  writeRaw (pW ((pairTo size a b).map (pairBatchText asm)))

/-- a command whose worker stage is `MakeIWorker(worker, breakOnError, n)` (record → slice adapter with an output
slice grown by `g`), followed by the formatter and the writer; `pW` re-orders the pushed batches -/
def adapterCommand (g : Nat → Nat) (worker : SeqWorker) (breakOnError : Bool) (fmt : Rec → Bytes)
    (arr : List Batch) (pW : List Batch → List Batch) : Option Bytes :=
  match iWorker g worker breakOnError arr with
  | .ok pushed => some (commandOutput fmt (pW pushed))
  | _ => none

end ObiVerif.Command
