/-!
# A reader for the CSV the writer produces (C04) — core Lean only

RFC-4180 style reader written to agree with Go's `encoding/csv` `Reader` in its default configuration
(`Comma = ','`, no comment character, `LazyQuotes = false`, `TrimLeadingSpace = false`,
`FieldsPerRecord = 0`: every record must have as many fields as the first one) on the output of
`csv.Writer`:

* a field that starts with `"` is quoted: `""` stands for `"`, the field ends at the first single `"`, which
  must be followed by `,`, an end of line or the end of the input; a quoted field may contain `,`, `\r`, `\n`;
  inside it the pair `\r\n` is read as `\n` (`readLine` normalises the end of every physical line);
* any other field runs up to the next `,` or end of line (`\n` or `\r\n`) and must not contain `"`;
* empty lines are skipped.

`none` = the reader reports an error.  The harness compares this function with `csv.NewReader(out).ReadAll()`
on every CSV output of the real writer.
-/
namespace ObiVerif.CsvRead

abbrev B := List UInt8

/-- the body of a quoted field, after the opening quote: (field, input after the closing quote) -/
def quoted : B → B → Option (B × B)
  | [], _ => none
  | [c], acc => if c = 34 then some (acc.reverse, []) else none
  | c :: d :: t, acc =>
    if c = 34 then (if d = 34 then quoted t (34 :: acc) else some (acc.reverse, d :: t))
    else if c = 13 ∧ d = 10 then quoted t (10 :: acc)
    else quoted (d :: t) (c :: acc)

/-- an unquoted field: (field, input from its terminator on) -/
def unq : B → B × B
  | [] => ([], [])
  | c :: t =>
    if c = 44 ∨ c = 10 then ([], c :: t)
    else if c = 13 ∧ (t = [] ∨ t.head? = some 10) then ([], c :: t)
    else ((unq t).1.cons c, (unq t).2)

/-- one field, from its first byte: (field, input from the byte after it on); `none` = bare or unterminated quote -/
def field (inp : B) : Option (B × B) :=
  match inp with
  | c :: t =>
    if c = 34 then quoted t []
    else if (unq inp).1.contains 34 then none else some (unq inp)
  | [] => some ([], [])

mutual
/-- the fields of one record, from the start of a field: (fields, input after the end of the line) -/
def record : Nat → B → List B → Option (List B × B)
  | 0, _, _ => none
  | fuel + 1, inp, acc =>
    match field inp with
    | none => none
    | some (f, r) => after fuel r (acc ++ [f])
/-- what follows a field -/
def after : Nat → B → List B → Option (List B × B)
  | 0, _, _ => none
  | fuel + 1, r, acc =>
    match r with
    | [] => some (acc, [])
    | c :: t =>
      if c = 44 then record fuel t acc
      else if c = 10 then some (acc, t)
      else if c = 13 then
        match t with
        | [] => some (acc, [])
        | d :: t' => if d = 10 then some (acc, t') else none
      else none
end

/-- all records; empty lines are skipped -/
def rows : Nat → B → Option (List (List B))
  | 0, _ => none
  | fuel + 1, inp =>
    match inp with
    | [] => some []
    | c :: t =>
      if c = 10 then rows fuel t
      else if c = 13 ∧ t.head? = some 10 then rows fuel (t.drop 1)
      else
        match record (2 * inp.length + 2) inp [] with
        | none => none
        | some (r, rest) =>
          match rows fuel rest with
          | none => none
          | some rs => some (r :: rs)

/-- `csv.NewReader(text).ReadAll()` -/
def parse (text : B) : Option (List (List B)) :=
  match rows (text.length + 1) text with
  | none => none
  | some [] => some []
  | some (r :: rs) => if rs.all (fun x => x.length == r.length) then some (r :: rs) else none

end ObiVerif.CsvRead
