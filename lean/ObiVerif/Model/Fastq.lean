import ObiVerif.Model.Fasta
/-!
# `FastqChunkParser(quality_shift, with_quality)` (pkg/obiformats/fastqseq_read.go)

Same conventions as `Model/Fasta.lean`.  The Go code appends the record to `sequences` when the
sequence line ends (6→7) and attaches the qualities to `sequences[len-1]` later; here the record
waits in the states 7…10 and is released when its quality line ends (10→11) or at the end of the chunk,
which yields the same final slice (a `log.Fatalf` in between discards everything in both).

Repaired behaviour (patch `C01-fastq-last-record-quality`): at the end of the chunk the pending
quality line is stored only `if with_quality`, as in state 10.
-/
namespace ObiVerif.Parse
open ObiVerif.Chunk

inductive FqSt where
  | s0
  | s1
  | s2 (idB : Seq)
  | s3 (id : Seq)
  | s4 (id defB : Seq)
  | s5 (id defn : Seq)
  | s6 (id defn seqB : Seq)
  | s7 (r : Rec)
  | s8 (r : Rec)
  | s9 (r : Rec)
  | s10 (r : Rec) (qualB : Seq)
  | s11
  deriving Repr, DecidableEq

/-- `_storeSequenceQuality`: empty or wrong length is fatal; `q[i] -= quality_shift` on bytes -/
def storeQual (shift : UInt8) (r : Rec) (q : Seq) : Except Fatal Rec :=
  if q.length = 0 then .error .fatal
  else if q.length ≠ r.seq.length then .error .fatal
  else .ok { r with qual := some (q.map (· - shift)) }

def fqStep (shift : UInt8) (withQ : Bool) (s : FqSt) (c : UInt8) : Except Fatal (FqSt × Option Rec) :=
  match s with
  | .s0 => if c == 64 then .ok (.s1, none) else .error .fatal
  | .s1 => if isSep c then .error .fatal else .ok (.s2 [c], none)
  | .s2 idB =>
    if isEol c then .ok (.s5 idB [], none)
    else if isSep c then .ok (.s3 idB, none)
    else .ok (.s2 (idB ++ [c]), none)
  | .s3 id =>
    if isEol c then .ok (.s5 id [], none)
    else if !isSpace c then .ok (.s4 id [c], none)
    else .ok (.s3 id, none)
  | .s4 id d => if isEol c then .ok (.s5 id d, none) else .ok (.s4 id (d ++ [c]), none)
  | .s5 id d =>
    -- the first byte of the sequence line is lower-cased but NOT checked against the alphabet
    if !isEol c then .ok (.s6 id d [lower c], none) else .ok (.s5 id d, none)
  | .s6 id d sq =>
    if isEol c then
      if sq.isEmpty then .error .fatal else .ok (.s7 (mkRec id d sq), none)
    else if seqOK (lower c) then .ok (.s6 id d (sq ++ [lower c]), none)
    else .error .fatal
  | .s7 r => if isEol c then .ok (.s7 r, none) else if c == 43 then .ok (.s8 r, none) else .error .fatal
  | .s8 r => if isEol c then .ok (.s9 r, none) else .ok (.s8 r, none)
  | .s9 r => if isEol c then .ok (.s9 r, none) else .ok (.s10 r [c], none)
  | .s10 r q =>
    if isEol c then
      if withQ then
        match storeQual shift r q with
        | .error e => .error e
        | .ok r' => .ok (.s11, some r')
      else .ok (.s11, some r)
    else .ok (.s10 r (q ++ [c]), none)
  | .s11 => if isEol c then .ok (.s11, none) else if c == 64 then .ok (.s1, none) else .error .fatal

def fqRun (shift : UInt8) (withQ : Bool) : FqSt → Seq → Except Fatal (FqSt × List Rec)
  | s, [] => .ok (s, [])
  | s, c :: t =>
    match fqStep shift withQ s c with
    | .error e => .error e
    | .ok (s', r) =>
      match fqRun shift withQ s' t with
      | .error e => .error e
      | .ok (s'', rs) => .ok (s'', r.toList ++ rs)

/-- end of the chunk: a record whose quality line has not ended is already in `sequences`;
`if state == 10 { if with_quality { _storeSequenceQuality(…) } }` (repaired) -/
def fqFinish (shift : UInt8) (withQ : Bool) : FqSt → Except Fatal (List Rec)
  | .s7 r | .s8 r | .s9 r => .ok [r]
  | .s10 r q =>
    if withQ then
      match storeQual shift r q with
      | .error e => .error e
      | .ok r' => .ok [r']
    else .ok [r]
  | _ => .ok []

def parseFastq (shift : UInt8) (withQ : Bool) (chunk : Seq) : Except Fatal (List Rec) :=
  match fqRun shift withQ .s0 chunk with
  | .error e => .error e
  | .ok (s, rs) =>
    match fqFinish shift withQ s with
    | .error e => .error e
    | .ok l => .ok (rs ++ l)

end ObiVerif.Parse
