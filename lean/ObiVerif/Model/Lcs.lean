import ObiVerif.Gen.Tables
/-!
# Model of the LCS and one-difference kernels of pkg/obialign (property C09)

Verbatim layer (what `vm_C09` executes for the correspondence check):
* `samenuc`            = `_samenuc` of fastlcsegf.go, over the table `_iupac` REGENERATED from the source
                         (`ObiVerif.Gen.alignIupac`);
* `encodeValues`, `decodeValues`, `incpath`, `incscore`, `setout`, `isout`, `emptyV`, `outV`, `notavailV`
                       = the packed cell of fastlcs.go (one `uint64` = in-band flag bit 32 | score << 16 |
                         inverted length);
* `fastLCSEGFScoreByte` = `FastLCSEGFScoreByte` of fastlcsegf.go: same two anti-diagonal rows in one buffer,
                         same index arithmetic, same band, same sentinels; a Go index-out-of-range is the outcome
                         `Err.panic`;
* `d1or0`              = `D1Or0` of is_d0_or_d1.go with its two index loops.

Structural layer (what the theorems of `Props/C09.lean` are stated on, DESIGN §3.6), executed side by side with
the verbatim layer on every correspondence case:
* `d1F`     : `D1Or0` as common-prefix stripping / common-suffix stripping on lists;
* `bandLCS` : the banded matrix of `FastLCSEGFScoreByte` (endgapfree = false) as rows indexed by `(i, j)`, with
              the same packed words, the same band `[-2·extra, 2·(delta+extra)]` on `j - i`, the same `_out` /
              `_notavail` sentinels and the same three-way selection.

Specification level: `Ali` (alignments), `lcsDP` (textbook full-matrix recurrence), `lev` (edit distance).
-/
namespace ObiVerif.Lcs

abbrev Seq := List UInt8

inductive Err where
  | panic
  | fuel
  deriving Repr, DecidableEq

/-! ## `_samenuc` -/

/-- `_iupac[i]` (the generated table; indices 0..25) -/
def iupac (i : Nat) : Nat := Gen.alignIupac.getD i 0

/-- `if (a >= 'A') && (a <= 'Z') { a |= 32 }` -/
def lowerAZ (a : UInt8) : UInt8 := if 65 ≤ a ∧ a ≤ 90 then a ||| 32 else a

/-- `_samenuc` (fastlcsegf.go) -/
def samenuc (a b : UInt8) : Bool :=
  let a := lowerAZ a
  let b := lowerAZ b
  if 97 ≤ a ∧ a ≤ 122 ∧ 97 ≤ b ∧ b ≤ 122 then
    (iupac (a.toNat - 97) &&& iupac (b.toNat - 97)) > 0
  else a == b

/-! ## the packed cell (fastlcs.go) -/

def mask : UInt64 := 0xffff
def inbit : UInt64 := 0x100000000   -- uint64(1) << dwsize

/-- `encodeValues(score, length, out)`; `uint64((^length)-1)` is `^uint64(length) - 1` in two's complement -/
def encodeValues (score length : Nat) (out : Bool) : UInt64 :=
  let fo := (UInt64.ofNat score <<< 16) ||| ((~~~(UInt64.ofNat length) - 1) &&& mask)
  if !out then fo ||| inbit else fo

def isout (v : UInt64) : Bool := (v &&& inbit) == 0

/-- `decodeValues` : (score, length, out) -/
def decodeValues (v : UInt64) : Nat × Nat × Bool :=
  (((v >>> 16) &&& mask).toNat, (((v + 1) ^^^ mask) &&& mask).toNat, (v &&& inbit) == 0)

def incpath (v : UInt64) : UInt64 := v - 1
def incscore (v : UInt64) : UInt64 := v + 0x10000
def setout (v : UInt64) : UInt64 := v &&& ~~~inbit

def emptyV : UInt64 := encodeValues 0 0 false
def outV : UInt64 := encodeValues 0 30000 true
def notavailV : UInt64 := encodeValues 0 30000 false

/-- the selection `switch { case Sdiag >= Sup && Sdiag >= Sleft: … case Sup >= Sleft: … default: … }`;
the flag says that the default branch (`Sleft`) was taken -/
def pick (sdiag sup sleft : UInt64) : UInt64 × Bool :=
  if sdiag ≥ sup ∧ sdiag ≥ sleft then (sdiag, false)
  else if sup ≥ sleft then (sup, false)
  else (sleft, true)

/-! ## `FastLCSEGFScoreByte`, verbatim -/

structure St where
  buf : Array UInt64
  pend : Nat
  endp : Int

/-- `row[x]` where `row = buffer[off : off+width]` : Go bounds check made explicit -/
def rd (buf : Array UInt64) (off width : Nat) (x : Int) : Except Err UInt64 :=
  if 0 ≤ x ∧ x < width then .ok (buf.getD (off + x.toNat) 0) else .error .panic

def wr (st : St) (off width : Nat) (x : Int) (v : UInt64) : Except Err St :=
  if 0 ≤ x ∧ x < width then .ok { st with buf := st.buf.setIfInBounds (off + x.toNat) v } else .error .panic

def byteAt (s : Array UInt8) (k : Int) : Except Err UInt8 :=
  if 0 ≤ k ∧ k < s.size then .ok (s.getD k.toNat 0) else .error .panic

/-- `for x := lo; x < lo + n; x++ { f x }` -/
def loopM {σ : Type} (n : Nat) (lo : Int) (f : Int → σ → Except Err σ) (s : σ) : Except Err σ :=
  match n with
  | 0 => .ok s
  | n + 1 =>
    match f lo s with
    | .ok s' => loopM n (lo + 1) f s'
    | .error e => .error e

/-- geometry shared by the two inner loops -/
structure Geo where
  A : Array UInt8
  B : Array UInt8
  lA : Int
  lB : Int
  egf : Bool
  extra : Int
  even : Int
  width : Nat

/-- the end of a cell computation common to both inner loops: selection, `end`/`pend` bookkeeping -/
def choose (g : Geo) (i j : Int) (sdiag sup sleft : UInt64) (st : St) : UInt64 × St :=
  let (score, left) := pick sdiag sup sleft
  if left ∧ g.egf ∧ i == g.lB then
    let (_, l, o) := decodeValues sleft
    if l > st.pend ∧ o == false then (score, { st with pend := l, endp := j }) else (score, st)
  else (score, st)

/-- body of the first inner loop (cells of the even anti-diagonal `i + j = 2y`) -/
def evenCell (g : Geo) (poff coff : Nat) (y x : Int) (st : St) : Except Err St := do
  let i := y - x + g.extra
  let j := y + x - g.extra
  let (sdiag, sup, sleft) ←
    if i == 0 then
      pure (notavailV, notavailV, if g.egf then encodeValues 0 0 false else encodeValues 0 j.toNat false)
    else if j == 0 then
      pure (notavailV, encodeValues 0 i.toNat false, notavailV)
    else do
      let p ← rd st.buf poff g.width x
      let a ← byteAt g.A (j - 1)
      let b ← byteAt g.B (i - 1)
      let sdiag := if samenuc a b then incscore (incpath p) else incpath p
      let sup ← if x < g.even - 1 then (do let v ← rd st.buf poff g.width (x + g.even); pure (incpath v))
                else pure outV
      let sleft ← if x > 0 then (do
                      let v ← rd st.buf poff g.width (x + g.even - 1)
                      pure (if (i > 0 ∧ i < g.lB) ∨ !g.egf then incpath v else v))
                  else pure outV
      pure (sdiag, sup, sleft)
  let (score, st) := choose g i j sdiag sup sleft st
  let score := if x == 0 ∨ x == g.even - 1 then setout score else score
  wr st coff g.width x score

/-- body of the second inner loop (cells of the odd anti-diagonal `i + j = 2y + 1`) -/
def oddCell (g : Geo) (poff coff : Nat) (y x : Int) (st : St) : Except Err St := do
  let i := y - x + g.extra + g.even
  let j := y + x - g.extra - g.even + 1
  let (sdiag, sup, sleft) ←
    if i == 0 then
      pure (notavailV, notavailV, if g.egf then encodeValues 0 0 false else encodeValues 0 j.toNat false)
    else if j == 0 then
      pure (notavailV, encodeValues 0 i.toNat false, notavailV)
    else do
      let p ← rd st.buf poff g.width x
      let a ← byteAt g.A (j - 1)
      let b ← byteAt g.B (i - 1)
      let sdiag := if samenuc a b then incscore (incpath p) else incpath p
      let v ← rd st.buf coff g.width (x - g.even)
      let sleft := if (i > 0 ∧ i < g.lB) ∨ !g.egf then incpath v else v
      let u ← rd st.buf coff g.width (x - g.even + 1)
      pure (sdiag, incpath u, sleft)
  let (score, st) := choose g i j sdiag sup sleft st
  wr st coff g.width x score

def imax3 (a b c : Int) : Int := max (max a b) c
def imin3 (a b c : Int) : Int := min (min a b) c

/-- one iteration `y` of the outer loop (both inner loops); the caller swaps the rows -/
def diagStep (g : Geo) (poff coff : Nat) (y : Int) (st : St) : Except Err St := do
  let xs := imax3 (y - g.lB + g.extra) (g.extra - y) 0
  let xf := imin3 (y + g.extra) (g.lA + g.extra - y) (g.even - 1) + 1
  let st ← loopM (xf - xs).toNat xs (evenCell g poff coff y) st
  let xs := imax3 (y - g.lB + g.extra + g.even) (g.extra - y + g.even - 1) g.even
  let xf := imin3 (y + g.extra + g.even) (g.lA + g.extra - y + g.even - 1) ((g.width : Int) - 1) + 1
  loopM (xf - xs).toNat xs (oddCell g poff coff y) st

/-- `for y := 1; y <= N; y++ { …; previous, current = current, previous }` -/
def outer (g : Geo) : Nat → Int → Nat → Nat → St → Except Err (St × Nat)
  | 0, _, poff, _, st => .ok (st, poff)
  | n + 1, y, poff, coff, st =>
    match diagStep g poff coff y st with
    | .ok st' => outer g n (y + 1) coff poff st'
    | .error e => .error e

/-- `FastLCSEGFScoreByte(bA, bB, maxError, endgapfree, buffer)`.
`fill = none`   : `buffer == nil` (or too small): `make([]uint64, 3*width)`, zeroed;
`fill = some w` : a caller-supplied buffer of capacity `2*width` whose cells all hold the stale word `w`. -/
def fastLCSEGFScoreByte (bA bB : Seq) (maxError : Int) (endgapfree : Bool) (fill : Option UInt64) :
    Except Err (Int × Int × Int) := do
  let (bA, bB) := if bA.length < bB.length then (bB, bA) else (bA, bB)
  let lA : Int := bA.length
  let lB : Int := bB.length
  let maxError := if maxError == -1 then lA * 2 else maxError
  let delta := lA - lB
  let maxError := if endgapfree then maxError + delta else maxError
  if delta > maxError then return (-1, -1, -1)
  let extra := (maxError - delta) + 1
  let even := 1 + delta + 2 * extra
  let width := (2 * even - 1).toNat
  let buf : Array UInt64 := match fill with
    | none => Array.replicate (3 * width) 0
    | some w => Array.replicate (2 * width) w
  let g : Geo := { A := bA.toArray, B := bB.toArray, lA := lA, lB := lB, egf := endgapfree,
                   extra := extra, even := even, width := width }
  let st : St := { buf := buf, pend := 0, endp := 0 }
  let st ← wr st 0 width extra emptyV
  let st ← wr st 0 width (extra + even)
            (if endgapfree then encodeValues 0 0 false else encodeValues 0 1 false)
  let st ← wr st 0 width (extra + even - 1) (encodeValues 0 1 false)
  let N := lB + delta / 2
  let (st, poff) ← outer g N.toNat 1 0 width st
  let v ← rd st.buf poff width ((delta % 2) * even + extra + delta / 2)
  let (s, l, o) := decodeValues v
  if o then return (-1, -1, -1)
  return (s, l, st.endp)

/-- `FastLCSScore` : endgapfree = false, (score, alilen) -/
def fastLCSScore (a b : Seq) (maxError : Int) : Except Err (Int × Int) :=
  (fastLCSEGFScoreByte a b maxError false none).map (fun r => (r.1, r.2.1))

/-! ## `D1Or0`, verbatim -/

structure D1 where
  verdict : Int
  pos : Int
  a1 : UInt8
  a2 : UInt8
  deriving Repr, DecidableEq

/-- `for b1 < l1 && b2 < l2 && s1[b1] == s2[b2] { b1++; b2++ }` (b1 = b2 throughout) -/
def prefixScan (s1 s2 : Array UInt8) : Nat → Nat → Nat
  | 0, b => b
  | fuel + 1, b =>
    if b < s1.size ∧ b < s2.size ∧ s1.getD b 0 == s2.getD b 0 then prefixScan s1 s2 fuel (b + 1) else b

/-- `for (e1 > b1 || e2 > b2) && s1[e1] == s2[e2] { e1--; e2-- }` -/
def suffixScan (s1 s2 : Array UInt8) (b : Int) : Nat → Int → Int → Except Err (Int × Int)
  | 0, _, _ => .error .fuel
  | fuel + 1, e1, e2 =>
    if e1 > b ∨ e2 > b then
      match byteAt s1 e1, byteAt s2 e2 with
      | .ok x, .ok y => if x == y then suffixScan s1 s2 b fuel (e1 - 1) (e2 - 1) else .ok (e1, e2)
      | _, _ => .error .panic
    else .ok (e1, e2)

/-- `D1Or0` (is_d0_or_d1.go) on the stored sequences -/
def d1or0 (seq1 seq2 : Seq) : Except Err D1 := do
  let l1 : Int := seq1.length
  let l2 : Int := seq2.length
  if (if l1 - l2 < 0 then -(l1 - l2) else l1 - l2) > 1 then return ⟨-1, -1, 0, 0⟩
  let s1 := seq1.toArray
  let s2 := seq2.toArray
  let bn := prefixScan s1 s2 (seq1.length + 1) 0
  let b : Int := bn
  if b == l1 ∧ b == l2 then return ⟨0, -1, 0, 0⟩
  let (e1, e2) ← suffixScan s1 s2 b (seq1.length + seq2.length + 2) (l1 - 1) (l2 - 1)
  if (l1 == l2 ∧ (e1 > b ∨ e2 > b)) ∨ (l1 > l2 ∧ e1 > b) ∨ (l1 < l2 ∧ e2 > b) then return ⟨-1, -1, 0, 0⟩
  let pos : Int := if b ≥ e1 then (if e1 > e2 then e1 else e2) else -1
  let a2 ← if e2 ≥ e1 then byteAt s2 e2 else pure 45
  let a1 ← if e2 ≤ e1 then byteAt s1 e1 else pure 45
  return ⟨1, pos, a1, a2⟩

/-! ## Structural layer of `D1Or0` -/

/-- strip the longest common prefix -/
def stripPre : Seq → Seq → Seq × Seq
  | a :: as, b :: bs => if a = b then stripPre as bs else (a :: as, b :: bs)
  | as, bs => (as, bs)

/-- the backward scan on the (reversed) residuals: stops when both have at most one element left -/
def stripSuf : Seq → Seq → Seq × Seq
  | a :: as, b :: bs => if (as ≠ [] ∨ bs ≠ []) ∧ a = b then stripSuf as bs else (a :: as, b :: bs)
  | as, bs => (as, bs)

/-- last part of `D1Or0`: the test after the backward scan and the outputs; `s` = what the backward scan left
(reversed), `la`, `lb` the lengths, `lr` the length of what the forward scan left of the first sequence -/
def d1Bad (la lb : Nat) (s : Seq × Seq) : Bool :=
  if la = lb then decide (s.1.length > 1 ∨ s.2.length > 1)
  else if la > lb then decide (s.1.length > 1) else decide (s.2.length > 1)

def d1Fin (la lb lr : Nat) (s : Seq × Seq) : D1 :=
  if d1Bad la lb s then ⟨-1, -1, 0, 0⟩ else
  ⟨1, ((la - lr + max s.1.length s.2.length : Nat) : Int) - 1,
   if s.2.length ≤ s.1.length then s.1.headD 45 else 45,
   if s.1.length ≤ s.2.length then s.2.headD 45 else 45⟩

/-- middle part: `r` = what the forward scan left -/
def d1Mid (la lb : Nat) (r : Seq × Seq) : D1 :=
  if r.1 = [] ∧ r.2 = [] then ⟨0, -1, 0, 0⟩ else d1Fin la lb r.1.length (stripSuf r.1.reverse r.2.reverse)

/-- `D1Or0` as prefix / suffix stripping -/
def d1F (a b : Seq) : D1 :=
  if a.length > b.length + 1 ∨ b.length > a.length + 1 then ⟨-1, -1, 0, 0⟩
  else d1Mid a.length b.length (stripPre a b)

/-! ## Structural layer of `FastLCSEGFScoreByte` (endgapfree = false): the banded matrix by rows

`lo = -2·extra` and `hi = 2·(delta+extra)` are the first and the last diagonal `j - i` of the band (the cells
`x = 0` and `x = even-1` of the even anti-diagonals of the code, which are the ones it marks out with `_setout`);
`Sup` is replaced by `_out` on the last diagonal and `Sleft` on the first one, exactly as the tests
`x < even-1` / `x > 0` of the code do. Same packed words, same sentinels, same selection. -/

/-- cell `(i, j)` from its three neighbours; `m` = `_samenuc(bA[j-1], bB[i-1])` -/
def bandCell (lo hi : Int) (i j : Nat) (m : Bool) (diag up left : UInt64) : UInt64 :=
  let d : Int := (j : Int) - (i : Int)
  let score :=
    if i = 0 then (pick notavailV notavailV (encodeValues 0 j false)).1
    else if j = 0 then (pick notavailV (encodeValues 0 i false) notavailV).1
    else (pick (if m then incscore (incpath diag) else incpath diag)
               (if d < hi then incpath up else outV)
               (if d > lo then incpath left else outV)).1
  if d = lo ∨ d = hi then setout score else score

/-- cells `(i, j), (i, j+1), …` of row `i ≥ 1`: `left` = cell `(i, j-1)`, the last argument = row `i-1` from
column `j-1` on -/
def bandRowGo (lo hi : Int) (i : Nat) (y : UInt8) : Nat → UInt64 → Seq → List UInt64 → List UInt64
  | j, left, x :: as, diag :: up :: rest =>
    let v := bandCell lo hi i j (samenuc x y) diag up left
    v :: bandRowGo lo hi i y (j + 1) v as (up :: rest)
  | _, _, _, _ => []

/-- row 0 from column `j` on -/
def bandRow0 (lo hi : Int) : Nat → Seq → List UInt64
  | j, [] => [bandCell lo hi 0 j false 0 0 0]
  | j, _ :: as => bandCell lo hi 0 j false 0 0 0 :: bandRow0 lo hi (j + 1) as

/-- row `i ≥ 1` (symbol `y = bB[i-1]`) from row `i-1` -/
def bandRow (lo hi : Int) (A : Seq) (i : Nat) (y : UInt8) (prev : List UInt64) : List UInt64 :=
  bandCell lo hi i 0 false 0 0 0 :: bandRowGo lo hi i y 1 (bandCell lo hi i 0 false 0 0 0) A prev

/-- all rows: `i` = number of the next row, the last argument = row `i-1`; returns the last row -/
def bandRows (lo hi : Int) (A : Seq) : Nat → Seq → List UInt64 → List UInt64
  | _, [], prev => prev
  | i, y :: bs, prev => bandRows lo hi A (i + 1) bs (bandRow lo hi A i y prev)

/-- last row of the banded matrix of `A` (columns) against `B` (rows) -/
def bandLast (lo hi : Int) (A B : Seq) : List UInt64 := bandRows lo hi A 1 B (bandRow0 lo hi 0 A)

/-- the band of `FastLCSEGFScoreByte` for lengths `lA ≥ lB` and the bound `maxError` (`-1` = no bound):
`none` when the difference of lengths exceeds the bound (the code returns -1 at once), else `(lo, hi)` -/
def bandGeo (lA lB : Nat) (maxError : Int) : Option (Int × Int) :=
  let e : Int := if maxError == -1 then 2 * (lA : Int) else maxError
  let delta : Int := (lA : Int) - (lB : Int)
  if delta > e then none else
  let extra := e - delta + 1
  some (-(2 * extra), 2 * (delta + extra))

/-- `decodeValues` of the last cell; out-of-band = not found -/
def bandResult (v : UInt64) : Option (Nat × Nat) :=
  if (decodeValues v).2.2 then none else some ((decodeValues v).1, (decodeValues v).2.1)

/-- `A` is the longer sequence -/
def bandLCSAB (A B : Seq) (maxError : Int) : Option (Nat × Nat) :=
  match bandGeo A.length B.length maxError with
  | none => none
  | some g => bandResult ((bandLast g.1 g.2 A B).getLastD 0)

/-- `FastLCSScore` (endgapfree = false) on the banded matrix: `none` = (-1, -1) -/
def bandLCS (a b : Seq) (maxError : Int) : Option (Nat × Nat) :=
  if a.length < b.length then bandLCSAB b a maxError else bandLCSAB a b maxError

/-! ## Specification level -/

/-- `Ali a b s l` : there is an alignment of `a` and `b` with `l` columns of which `s` are matches
(pairs of compatible symbols); the other columns are mismatched pairs or a symbol against a gap. -/
inductive Ali (m : UInt8 → UInt8 → Bool) : Seq → Seq → Nat → Nat → Prop where
  | nil : Ali m [] [] 0 0
  | gapB (x : UInt8) {a b s l} : Ali m a b s l → Ali m (x :: a) b s (l + 1)
  | gapA (y : UInt8) {a b s l} : Ali m a b s l → Ali m a (y :: b) s (l + 1)
  | pair (x y : UInt8) {a b s l} : Ali m a b s l → Ali m (x :: a) (y :: b) (s + (if m x y then 1 else 0)) (l + 1)

/-- lexicographic preference of the kernel: higher score, then shorter alignment -/
def better (p q : Nat × Nat) : Bool := p.1 > q.1 || (p.1 == q.1 && p.2 ≤ q.2)

def best2 (p q : Nat × Nat) : Nat × Nat := if better p q then p else q

/-- the textbook full-matrix recurrence: (LCS length, length of the shortest alignment achieving it).
A column is a pair (match: +1 score, mismatch: +0) or a symbol against a gap. -/
def lcsDP (m : UInt8 → UInt8 → Bool) : Seq → Seq → Nat × Nat
  | [], b => (0, b.length)
  | x :: as, [] => (0, as.length + 1)
  | x :: as, y :: bs =>
    let d := lcsDP m as bs
    let u := lcsDP m as (y :: bs)
    let l := lcsDP m (x :: as) bs
    best2 (best2 (d.1 + (if m x y then 1 else 0), d.2 + 1) (u.1, u.2 + 1)) (l.1, l.2 + 1)
termination_by a b => a.length + b.length

/-- Levenshtein distance (byte equality), textbook recurrence -/
def lev : Seq → Seq → Nat
  | [], b => b.length
  | x :: as, [] => as.length + 1
  | x :: as, y :: bs =>
    min (min (lev as bs + (if x = y then 0 else 1)) (lev as (y :: bs) + 1)) (lev (x :: as) bs + 1)
termination_by a b => a.length + b.length

/-- `OneEdit a b pos x y` : `b` is obtained from `a` by exactly one edit at (0-based) position `pos`:
substitution of `x` by `y ≠ x`, deletion of `x` (then `y = '-'`), or insertion of `y` (then `x = '-'`) -/
inductive OneEdit (a b : Seq) (pos : Nat) (x y : UInt8) : Prop where
  | subst (p s : Seq) (ha : a = p ++ x :: s) (hb : b = p ++ y :: s) (hne : x ≠ y) (hp : p.length = pos)
  | del (p s : Seq) (ha : a = p ++ x :: s) (hb : b = p ++ s) (hy : y = 45) (hp : p.length = pos)
  | ins (p s : Seq) (ha : a = p ++ s) (hb : b = p ++ y :: s) (hx : x = 45) (hp : p.length = pos)

end ObiVerif.Lcs
