import ObiVerif.Model.Grep
/-!
# Model of the record edits of `obiannotate` (C16)

Anchors: `pkg/obitools/obiannotate/obiannotate.go` (`CLIAnnotationWorker`, the `*Worker` builders,
`CLIAnnotationPipeline`), `pkg/obitools/obiannotate/options.go` (`CLICut`, `CLIHasCut`),
`pkg/obiseq/worker.go` (`ChainWorkers`, `SeqToSliceWorker`, `SeqToSliceConditionalWorker`),
`pkg/obiseq/eval.go` (`EditIdWorker`, `EditAttributeWorker`), `pkg/obiseq/attributes.go`
(`GetAttribute`, `SetAttribute`, `DeleteAttribute`, `RenameAttribute`), `pkg/obiseq/subseq.go`
(`Subsequence`, non circular).

Every worker maps one record to one record or fails; `ChainWorkers` / `SeqToSliceWorker(…, false)`
turn a failure into "record dropped (warning)".  A Go panic (type assertion in `SetAttribute` on the
reserved keys) is the outcome `panic`.  The taxonomy (`--with-taxon-at-rank`, `--taxonomic-path`,
`--taxonomic-rank`, `--scientific-name`), `--aho-corasick` and `--pattern` workers are modelled with
the verdicts of obitax / ahocorasick / obiapat as oracle parameters (what the library found is data,
which attributes are then set, under which names and where in the chain is the model).  `--add-lca-in`
(`obitax.AddLCAWorker`) is modelled the same way: the lowest common ancestor found by the taxonomy is
data, the three slot names derived from the option value are the model.
-/
namespace ObiVerif.Annotate
open ObiVerif.Grep

inductive Outcome where
  | ok (r : Rec)
  | dropped
  | panic
  /-- `log.Fatalf` inside a worker (taxonomic workers on a taxid the taxonomy does not know) -/
  | fatal
  deriving DecidableEq, Repr, Inhabited

def Outcome.bind (x : Outcome) (f : Rec → Outcome) : Outcome :=
  match x with
  | .ok r => f r
  | .dropped => .dropped
  | .panic => .panic
  | .fatal => .fatal

/-- an edit = a `SeqWorker` returning one record -/
abbrev Edit := Rec → Outcome

/-- `ChainWorkers` folded over the list of requested workers, in order -/
def applyAll (es : List Edit) (r : Rec) : Outcome :=
  es.foldl (fun acc e => acc.bind e) (.ok r)

/-- map assignment `annot[key] = value` on the association list -/
def setKey (k : String) (v : AVal) : List (String × AVal) → List (String × AVal)
  | [] => [(k, v)]
  | (k', v') :: t => if k' = k then (k, v) :: t else (k', v') :: setKey k v t

def delKey (k : String) (a : List (String × AVal)) : List (String × AVal) := a.filter (·.1 ≠ k)

/-- `BioSequence.GetAttribute` (records of the model carry no qualities) -/
def getAttribute (k : String) (r : Rec) : Option AVal :=
  if k = "id" then some (.str r.id)
  else if k = "sequence" then
    (if r.seq.isEmpty then none else some (.str (String.ofList (r.seq.map fun b => Char.ofNat b.toNat))))
  else if k = "qualities" then none
  else r.attrs.lookup k

/-- `BioSequence.SetAttribute`: `id` needs a string (`value.(string)` panics otherwise), `sequence` and
`qualities` need a `[]byte`, which no expression or attribute value is -/
def setAttribute (k : String) (v : AVal) (r : Rec) : Outcome :=
  if k = "id" then
    match v with
    | .str s => .ok { r with id := s }
    | _ => .panic
  else if k = "sequence" then .panic
  else if k = "qualities" then .panic
  else .ok { r with attrs := setKey k v r.attrs }

/-- `BioSequence.DeleteAttribute` (a plain map delete) -/
def deleteAttribute (k : String) (r : Rec) : Rec := { r with attrs := delKey k r.attrs }

/-- `BioSequence.RenameAttribute(newName, oldName)` -/
def renameAttribute (new old : String) (r : Rec) : Outcome :=
  match getAttribute old r with
  | some v => (setAttribute new v r).bind fun r => .ok (deleteAttribute old r)
  | none => .ok r

/-- what `ApatPattern.BestMatch` reports: start, end (0-based, half open), number of errors -/
structure Hit where
  start : Nat
  stop : Nat
  nerr : Int
  deriving DecidableEq, Repr, Inhabited

/-- what `Taxonomy.LCA(sequence, threshold)` finds: the taxid and scientific name of the ancestor, the
rounded error `math.Round((1-rans)*1000)/1000` (a float64), and the value of the `merged_taxid`
statistics when `StatsOn` had to create them on the record (`none` = they were there already) -/
structure LcaVerdict where
  stat : Option AVal
  taxid : Int
  name : String
  err : AVal
  deriving DecidableEq, Repr, Inhabited

structure Oracles where
  /-- `obiseq.Expression(e)(record)`; `none` = evaluation error -/
  evalExpr : String → Rec → Option AVal
  /-- `taxonomy.Taxon(sequence.Taxid())` then `TaxonAtRank(rank)`: `none` = the taxid is not in the
  taxonomy, `some none` = no ancestor at that rank, `some (some (taxid, name))` -/
  taxonAtRank : String → Rec → Option (Option (Int × String)) := fun _ _ => none
  /-- `Taxon(Taxid()).Path().String()`; `none` = unknown taxid (`log.Fatalf`) -/
  taxPath : Rec → Option String := fun _ => none
  /-- `Taxon(Taxid()).Rank()` -/
  taxRank : Rec → Option String := fun _ => none
  /-- `Taxon(Taxid()).ScientificName()` -/
  sciName : Rec → Option String := fun _ => none
  /-- number of matches of the aho-corasick automaton on the sequence and on its reverse complement -/
  aho : Rec → Nat × Nat := fun _ => (0, 0)
  /-- `pat.BestMatch(seq, 0, len)` of the pattern (`true`) or of its reverse complement (`false`) compiled
  with the given error count / indel flag, filtered by `matched && start >= 0 && end <= len` -/
  bestMatch : String → Int → Bool → Bool → Rec → Option Hit := fun _ _ _ _ _ => none
  /-- `taxonomy.LCA(sequence, 1 - lcaError)` for the `--lca-error` value given (as text; `""` = absent);
  `none` = `log.Panicf` (a taxid of the record is not in the taxonomy) -/
  lca : String → Rec → Option LcaVerdict := fun _ _ => none

/-- `ClearAllAttributesWorker` -/
def clearAll : Edit := fun r => .ok { r with attrs := [] }

/-- `obiseq.EditIdWorker(expression)` -/
def editId (O : Oracles) (e : String) : Edit := fun r =>
  match O.evalExpr e r with
  | some v => .ok { r with id := v.shown }
  | none => .dropped

/-- `DeleteAttributesWorker` -/
def deleteAttributes (ks : List String) : Edit := fun r =>
  .ok (ks.foldl (fun r k => deleteAttribute k r) r)

/-- `ToBeKeptAttributesWorker` -/
def keepAttributes (ks : List String) : Edit := fun r =>
  .ok { r with attrs := r.attrs.filter fun kv => ks.contains kv.1 }

/-- `RenameAttributeWorker` (repaired: the `new=old` pairs are applied in increasing order of the new
name — `pairs` is that ordered list; the unrepaired code ranged over the Go map in random order) -/
def renameAttributes (pairs : List (String × String)) : Edit := fun r =>
  pairs.foldl (fun acc p => acc.bind (renameAttribute p.1 p.2)) (.ok r)

/-- `AddSeqLengthWorker` -/
def addSeqLength : Edit := fun r => setAttribute "seq_length" (.int r.len) r

/-- `obiseq.EditAttributeWorker(key, expression)` -/
def editAttribute (O : Oracles) (k e : String) : Edit := fun r =>
  match O.evalExpr e r with
  | some v => setAttribute k v r
  | none => .dropped

/-- `EvalAttributeWorker` (repaired: every `key=expression` is chained, in increasing key order; the
unrepaired code discarded the result of `ChainWorkers`, so that only the first key of the random map
iteration was set) -/
def evalAttributes (O : Oracles) (pairs : List (String × String)) : Edit := fun r =>
  pairs.foldl (fun acc p => acc.bind (editAttribute O p.1 p.2)) (.ok r)

/-- `BioSequence.Subsequence(from, to, false)`; `none` = error -/
def subsequence (f t : Int) (r : Rec) : Option Rec :=
  if f ≥ t then none
  else if f < 0 then none
  else if f ≥ r.len then none
  else if t > r.len then none
  else some { id := r.id ++ "_sub[" ++ toString (f + 1) ++ ".." ++ toString t ++ "]",
              seq := (r.seq.drop f.toNat).take (t - f).toNat,
              attrs := r.attrs }

/-- `CutSequenceWorker(from, to, false)` with `from`, `to` as given on the command line (repaired:
the bounds of the current record are computed in locals and clamped to `[0, len]`; the unrepaired
closure overwrote its captured `from`/`to`, so that a record was cut with bounds clamped by the
records seen before it) -/
def cutSequence (from0 to0 : Int) : Edit := fun r =>
  if from0 = 0 ∧ to0 = 0 then .ok r
  else
    let fromV := if from0 > 0 then from0 - 1 else from0
    let f := if fromV < 0 then r.len + fromV + 1 else if fromV > 0 then fromV else 0
    let t := if to0 < 0 then r.len + to0 + 1 else if to0 > 0 then to0 else 0
    let f := if f < 0 then 0 else f
    let t := if t > r.len then r.len else t
    match subsequence f t r with
    | some s => .ok s
    | none => .dropped

/-! ### workers driven by a library (obitax, ahocorasick, obiapat) -/

/-- a sequence of `SetAttribute(key, value)` -/
def setAttrs (kvs : List (String × AVal)) : Edit := fun r =>
  kvs.foldl (fun acc kv => acc.bind (setAttribute kv.1 kv.2)) (.ok r)

/-- `Taxonomy.SetTaxonAtRank(sequence, rank)` -/
def taxonAtRankAttrs (O : Oracles) (rank : String) (r : Rec) : List (String × AVal) :=
  match O.taxonAtRank rank r with
  | none => []
  | some none => [(rank ++ "_taxid", .int (-1)), (rank ++ "_name", .str "NA")]
  | some (some (t, name)) => [(rank ++ "_taxid", .int t), (rank ++ "_name", .str name)]

/-- `AddTaxonAtRankWorker(taxonomy, ranks...)` -/
def addTaxonAtRank (O : Oracles) (ranks : List String) : Edit := fun r =>
  ranks.foldl (fun acc rank => acc.bind fun r => setAttrs (taxonAtRankAttrs O rank r) r) (.ok r)

/-- a worker that sets one attribute to what the taxonomy says, and stops the program when the taxid
is unknown (`MakeSetPathWorker`, `AddTaxonRankWorker`, `AddScientificNameWorker`) -/
def setFromTaxonomy (key : String) (f : Rec → Option String) : Edit := fun r =>
  match f r with
  | some s => setAttribute key (.str s) r
  | none => .fatal

/-- `obicorazick.AhoCorazickWorker("aho_corasick", patterns)` -/
def ahoCorasickAttrs (O : Oracles) (r : Rec) : List (String × AVal) :=
  let m := O.aho r
  if m.1 + m.2 > 0 then
    [("aho_corasick", .int (m.1 + m.2 : Nat)), ("aho_corasick_Fwd", .int m.1), ("aho_corasick_Rev", .int m.2)]
  else []

def ahoCorasick (O : Oracles) : Edit := fun r => setAttrs (ahoCorasickAttrs O r) r

/-- complement of a nucleotide (`acgt`; the cases exercise no other letter) -/
def compl (b : UInt8) : UInt8 :=
  if b = 97 then 116 else if b = 116 then 97 else if b = 99 then 103 else if b = 103 then 99 else b

def asString (l : List UInt8) : String := String.ofList (l.map fun b => Char.ofNat b.toNat)

/-- the slot names of `MatchPatternWorker(pattern, name, …)` -/
def patternSlots (name : String) : String × String × String × String :=
  let slot := if name ≠ "pattern" ∧ name ≠ "" then name ++ "_pattern" else "pattern"
  let name := if name ≠ "pattern" ∧ name ≠ "" then name else "pattern"
  (slot, name ++ "_match", name ++ "_error", name ++ "_location")

/-- `MatchPatternWorker`: the direct pattern first, its reverse complement when the direct one does
not match and both strands are searched (repaired: the unrepaired worker ignored its `bothStrand`
argument, so that `--only-forward` had no effect on `obiannotate --pattern`) -/
def matchPatternAttrs (O : Oracles) (pattern name : String) (errmax : Int) (indel : Bool) (bothStrand : Bool) (r : Rec) :
    List (String × AVal) :=
  let s := patternSlots name
  match O.bestMatch pattern errmax indel true r with
  | some h =>
    [(s.1, .str pattern), (s.2.1, .str (asString ((r.seq.drop h.start).take (h.stop - h.start)))),
     (s.2.2.1, .int h.nerr), (s.2.2.2, .str (toString (h.start + 1) ++ ".." ++ toString h.stop))]
  | none =>
    if bothStrand then
      match O.bestMatch pattern errmax indel false r with
      | some h =>
        [(s.1, .str pattern),
         (s.2.1, .str (asString (((r.seq.drop h.start).take (h.stop - h.start)).reverse.map compl))),
         (s.2.2.1, .int h.nerr),
         (s.2.2.2, .str ("complement(" ++ toString (h.start + 1) ++ ".." ++ toString h.stop ++ ")"))]
      | none => []
    else []

def matchPattern (O : Oracles) (pattern name : String) (errmax : Int) (indel : Bool) (bothStrand : Bool) : Edit := fun r =>
  setAttrs (matchPatternAttrs O pattern name errmax indel bothStrand r) r

/-! ### `--add-lca-in` (`obitax.AddLCAWorker`) -/

def taxidL : List Char := ['t', 'a', 'x', 'i', 'd']
def errorL : List Char := ['e', 'r', 'r', 'o', 'r']
def nameL : List Char := ['n', 'a', 'm', 'e']

/-- `strings.Replace(s, old, new, 1)` (`old` not empty): the first occurrence is replaced -/
def replaceFirstL (pat rep : List Char) : List Char → List Char
  | [] => []
  | c :: t => if pat.isPrefixOf (c :: t) = true then rep ++ (c :: t).drop pat.length
              else c :: replaceFirstL pat rep t

/-- the three slot names of `AddLCAWorker(taxonomy, slot_name, threshold)`: taxid, name, error -/
def lcaSlotsL (slot : List Char) : List Char × List Char × List Char :=
  let s := if taxidL.isSuffixOf slot = true then slot else slot ++ '_' :: taxidL
  let e := replaceFirstL taxidL errorL s
  let e := if e = errorL then ['l', 'c', 'a', '_'] ++ errorL else e
  let n := replaceFirstL taxidL nameL s
  let n := if n = nameL then ['s', 'c', 'i', 'e', 'n', 't', 'i', 'f', 'i', 'c', '_'] ++ nameL else n
  (s, n, e)

def lcaSlots (slot : String) : String × String × String :=
  let x := lcaSlotsL slot.toList
  (String.ofList x.1, String.ofList x.2.1, String.ofList x.2.2)

/-- what `AddLCAWorker` writes: the `merged_taxid` statistics when `StatsOn` creates them (first, inside
`Taxonomy.LCA`), then the taxid, the scientific name and the error of the ancestor -/
def lcaAttrs (slot : String) (v : LcaVerdict) : List (String × AVal) :=
  (match v.stat with
   | some st => [("merged_taxid", st)]
   | none => []) ++
  [((lcaSlots slot).1, .int v.taxid), ((lcaSlots slot).2.1, .str v.name), ((lcaSlots slot).2.2, v.err)]

def addLCA (O : Oracles) (slot lcaError : String) : Edit := fun r =>
  match O.lca lcaError r with
  | none => .panic
  | some v => setAttrs (lcaAttrs slot v) r

/-- the option globals of `obiannotate/options.go` after parsing (modelled subset) -/
structure AnnotOpts where
  clearAll : Bool := false
  setId : String := ""
  toBeDeleted : List String := []
  keepOnly : List String := []
  /-- `_toBeRenamed` as `(new, old)` pairs in increasing order of `new` -/
  toBeRenamed : List (String × String) := []
  setSeqLength : Bool := false
  /-- `_evalAttribute` as `(key, expression)` pairs in increasing key order -/
  evalAttribute : List (String × String) := []
  /-- `CLICut()` -/
  cut : Int × Int := (0, 0)
  taxonAtRank : List String := []
  taxonomicPath : Bool := false
  withRank : Bool := false
  withScientificName : Bool := false
  /-- `CLIHasAhoCorasick()`: the file named by `--aho-corasick` exists -/
  ahoCorasick : Bool := false
  pattern : String := ""
  patternName : String := "pattern"
  /-- `obigrep.CLIPatternError()`, `CLIPatternInDels()` (options shared with obigrep) -/
  patternError : Int := 0
  patternIndel : Bool := false
  /-- `obigrep.CLIPatternBothStrand()` = not `--only-forward` -/
  patternBothStrand : Bool := true
  /-- `--add-lca-in` (`""` = absent) and the text given to `--lca-error` (`""` = absent) -/
  lcaSlot : String := ""
  lcaError : String := ""
  deriving Inhabited

/-- the attribute names the library-driven workers may set, from the options alone -/
def libraryKeys (o : AnnotOpts) : List String :=
  o.taxonAtRank.flatMap (fun r => [r ++ "_taxid", r ++ "_name"]) ++
  (if o.taxonomicPath then ["taxonomic_path"] else []) ++
  (if o.withRank then ["taxonomic_rank"] else []) ++
  (if o.withScientificName then ["scienctific_name"] else []) ++
  (if o.lcaSlot ≠ "" then
    ["merged_taxid", (lcaSlots o.lcaSlot).1, (lcaSlots o.lcaSlot).2.1, (lcaSlots o.lcaSlot).2.2] else []) ++
  (if o.ahoCorasick then ["aho_corasick", "aho_corasick_Fwd", "aho_corasick_Rev"] else []) ++
  (if o.pattern ≠ "" then
    [(patternSlots o.patternName).1, (patternSlots o.patternName).2.1, (patternSlots o.patternName).2.2.1,
     (patternSlots o.patternName).2.2.2] else [])

/-- `CLIAnnotationWorker`: one worker per requested edit, in the order of the `if` cascade;
`[]` = the nil worker -/
def requestedEdits (O : Oracles) (o : AnnotOpts) : List Edit :=
  (if o.clearAll then [clearAll] else []) ++
  (if o.setId ≠ "" then [editId O o.setId] else []) ++
  (if o.toBeDeleted ≠ [] then [deleteAttributes o.toBeDeleted] else []) ++
  (if o.keepOnly ≠ [] then [keepAttributes o.keepOnly] else []) ++
  (if o.toBeRenamed ≠ [] then [renameAttributes o.toBeRenamed] else []) ++
  (if o.taxonAtRank ≠ [] then [addTaxonAtRank O o.taxonAtRank] else []) ++
  (if o.taxonomicPath then [setFromTaxonomy "taxonomic_path" O.taxPath] else []) ++
  (if o.withRank then [setFromTaxonomy "taxonomic_rank" O.taxRank] else []) ++
  (if o.withScientificName then [setFromTaxonomy "scienctific_name" O.sciName] else []) ++
  (if o.lcaSlot ≠ "" then [addLCA O o.lcaSlot o.lcaError] else []) ++
  (if o.setSeqLength then [addSeqLength] else []) ++
  (if o.evalAttribute ≠ [] then [evalAttributes O o.evalAttribute] else []) ++
  (if o.ahoCorasick then [ahoCorasick O] else []) ++
  (if o.cut.1 ≠ 0 ∧ o.cut.2 ≠ 0 then [cutSequence o.cut.1 o.cut.2] else []) ++
  (if o.pattern ≠ "" then [matchPattern O o.pattern o.patternName o.patternError o.patternIndel o.patternBothStrand] else [])

/-- the chained worker applied to one record -/
def annotate (O : Oracles) (o : AnnotOpts) : Edit := applyAll (requestedEdits O o)

/-- `CLIAnnotationPipeline` on one record: `SeqToSliceConditionalWorker(predicate, worker, false)`.
`none` = the record is not in the output (condition false, or the worker failed), fatal = the
selection expression could not be evaluated (repaired: a nil worker with a non-nil condition is
the identity; the unrepaired code called the nil function) -/
inductive PipeOut where
  | out (r : Rec)
  | absent
  | panic
  | fatal
  deriving DecidableEq, Repr, Inhabited

def pipeline (G : Grep.Oracles) (g : GrepOpts) (O : Oracles) (o : AnnotOpts) (r : Rec) : PipeOut :=
  match (cliPredicate G g) with
  | none =>
    match annotate O o r with
    | .ok r => .out r
    | .dropped => .absent
    | .panic => .panic
    | .fatal => .fatal
  | some p =>
    match p r with
    | none => .fatal
    | some false => .absent
    | some true =>
      match annotate O o r with
      | .ok r => .out r
      | .dropped => .absent
      | .panic => .panic
      | .fatal => .fatal

end ObiVerif.Annotate
