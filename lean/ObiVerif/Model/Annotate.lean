import ObiVerif.Model.Grep
/-!
# Model of the record edits of `obiannotate` (C16)

Anchors: `pkg/obitools/obiannotate/obiannotate.go` (`CLIAnnotationWorker`, the `*Worker` builders,
`CLIAnnotationPipeline`), `pkg/obitools/obiannotate/options.go` (`CLICut`, `CLIHasCut`),
`pkg/obiseq/worker.go` (`ChainWorkers`, `SeqToSliceWorker`, `SeqToSliceConditionalWorker`),
`pkg/obiseq/eval.go` (`EditIdWorker`, `EditAttributeWorker`), `pkg/obiseq/attributes.go`
(`GetAttribute`, `SetAttribute`, `DeleteAttribute`, `RenameAttribute`), `pkg/obiseq/subseq.go`
(`Subsequence`, non circular).

Every worker maps one record to one record or fails; `ChainWorkers` / `SeqToSliceWorker(…, false)`
turn a failure into "record dropped (warning)".  A Go panic (type assertion in `SetAttribute` on the
reserved keys) is the outcome `panic`.  The taxonomy, LCA, aho-corasick and `--pattern` workers are
not modelled (C14/C17 territory): the model covers option sets that do not request them.
-/
namespace ObiVerif.Annotate
open ObiVerif.Grep

inductive Outcome where
  | ok (r : Rec)
  | dropped
  | panic
  deriving DecidableEq, Repr, Inhabited

def Outcome.bind (x : Outcome) (f : Rec → Outcome) : Outcome :=
  match x with
  | .ok r => f r
  | .dropped => .dropped
  | .panic => .panic

/-- an edit = a `SeqWorker` returning one record -/
abbrev Edit := Rec → Outcome

/-- `ChainWorkers` folded over the list of requested workers, in order -/
def applyAll (es : List Edit) (r : Rec) : Outcome :=
  es.foldl (fun acc e => acc.bind e) (.ok r)

/-- map assignment `annot[key] = value` on the association list -/
def setKey (k : String) (v : AVal) : List (String × AVal) → List (String × AVal)
  | [] => [(k, v)]
  | (k', v') :: t => if k' = k then (k, v) :: t else (k', v') :: setKey k v t

def delKey (k : String) (a : List (String × AVal)) : List (String × AVal) := a.filter (·.1 ≠ k)

/-- `BioSequence.GetAttribute` (records of the model carry no qualities) -/
def getAttribute (k : String) (r : Rec) : Option AVal :=
  if k = "id" then some (.str r.id)
  else if k = "sequence" then
    (if r.seq.isEmpty then none else some (.str (String.ofList (r.seq.map fun b => Char.ofNat b.toNat))))
  else if k = "qualities" then none
  else r.attrs.lookup k

/-- `BioSequence.SetAttribute`: `id` needs a string (`value.(string)` panics otherwise), `sequence` and
`qualities` need a `[]byte`, which no expression or attribute value is -/
def setAttribute (k : String) (v : AVal) (r : Rec) : Outcome :=
  if k = "id" then
    match v with
    | .str s => .ok { r with id := s }
    | _ => .panic
  else if k = "sequence" then .panic
  else if k = "qualities" then .panic
  else .ok { r with attrs := setKey k v r.attrs }

/-- `BioSequence.DeleteAttribute` (a plain map delete) -/
def deleteAttribute (k : String) (r : Rec) : Rec := { r with attrs := delKey k r.attrs }

/-- `BioSequence.RenameAttribute(newName, oldName)` -/
def renameAttribute (new old : String) (r : Rec) : Outcome :=
  match getAttribute old r with
  | some v => (setAttribute new v r).bind fun r => .ok (deleteAttribute old r)
  | none => .ok r

structure Oracles where
  /-- `obiseq.Expression(e)(record)`; `none` = evaluation error -/
  evalExpr : String → Rec → Option AVal

/-- `ClearAllAttributesWorker` -/
def clearAll : Edit := fun r => .ok { r with attrs := [] }

/-- `obiseq.EditIdWorker(expression)` -/
def editId (O : Oracles) (e : String) : Edit := fun r =>
  match O.evalExpr e r with
  | some v => .ok { r with id := v.shown }
  | none => .dropped

/-- `DeleteAttributesWorker` -/
def deleteAttributes (ks : List String) : Edit := fun r =>
  .ok (ks.foldl (fun r k => deleteAttribute k r) r)

/-- `ToBeKeptAttributesWorker` -/
def keepAttributes (ks : List String) : Edit := fun r =>
  .ok { r with attrs := r.attrs.filter fun kv => ks.contains kv.1 }

/-- `RenameAttributeWorker` (repaired: the `new=old` pairs are applied in increasing order of the new
name — `pairs` is that ordered list; the unrepaired code ranged over the Go map in random order) -/
def renameAttributes (pairs : List (String × String)) : Edit := fun r =>
  pairs.foldl (fun acc p => acc.bind (renameAttribute p.1 p.2)) (.ok r)

/-- `AddSeqLengthWorker` -/
def addSeqLength : Edit := fun r => setAttribute "seq_length" (.int r.len) r

/-- `obiseq.EditAttributeWorker(key, expression)` -/
def editAttribute (O : Oracles) (k e : String) : Edit := fun r =>
  match O.evalExpr e r with
  | some v => setAttribute k v r
  | none => .dropped

/-- `EvalAttributeWorker` (repaired: every `key=expression` is chained, in increasing key order; the
unrepaired code discarded the result of `ChainWorkers`, so that only the first key of the random map
iteration was set) -/
def evalAttributes (O : Oracles) (pairs : List (String × String)) : Edit := fun r =>
  pairs.foldl (fun acc p => acc.bind (editAttribute O p.1 p.2)) (.ok r)

/-- `BioSequence.Subsequence(from, to, false)`; `none` = error -/
def subsequence (f t : Int) (r : Rec) : Option Rec :=
  if f ≥ t then none
  else if f < 0 then none
  else if f ≥ r.len then none
  else if t > r.len then none
  else some { id := r.id ++ "_sub[" ++ toString (f + 1) ++ ".." ++ toString t ++ "]",
              seq := (r.seq.drop f.toNat).take (t - f).toNat,
              attrs := r.attrs }

/-- `CutSequenceWorker(from, to, false)` with `from`, `to` as given on the command line (repaired:
the bounds of the current record are computed in locals and clamped to `[0, len]`; the unrepaired
closure overwrote its captured `from`/`to`, so that a record was cut with bounds clamped by the
records seen before it) -/
def cutSequence (from0 to0 : Int) : Edit := fun r =>
  if from0 = 0 ∧ to0 = 0 then .ok r
  else
    let fromV := if from0 > 0 then from0 - 1 else from0
    let f := if fromV < 0 then r.len + fromV + 1 else if fromV > 0 then fromV else 0
    let t := if to0 < 0 then r.len + to0 + 1 else if to0 > 0 then to0 else 0
    let f := if f < 0 then 0 else f
    let t := if t > r.len then r.len else t
    match subsequence f t r with
    | some s => .ok s
    | none => .dropped

/-- the option globals of `obiannotate/options.go` after parsing (modelled subset) -/
structure AnnotOpts where
  clearAll : Bool := false
  setId : String := ""
  toBeDeleted : List String := []
  keepOnly : List String := []
  /-- `_toBeRenamed` as `(new, old)` pairs in increasing order of `new` -/
  toBeRenamed : List (String × String) := []
  setSeqLength : Bool := false
  /-- `_evalAttribute` as `(key, expression)` pairs in increasing key order -/
  evalAttribute : List (String × String) := []
  /-- `CLICut()` -/
  cut : Int × Int := (0, 0)
  deriving Inhabited

/-- `CLIAnnotationWorker`: one worker per requested edit, in the order of the `if` cascade;
`[]` = the nil worker -/
def requestedEdits (O : Oracles) (o : AnnotOpts) : List Edit :=
  (if o.clearAll then [clearAll] else []) ++
  (if o.setId ≠ "" then [editId O o.setId] else []) ++
  (if o.toBeDeleted ≠ [] then [deleteAttributes o.toBeDeleted] else []) ++
  (if o.keepOnly ≠ [] then [keepAttributes o.keepOnly] else []) ++
  (if o.toBeRenamed ≠ [] then [renameAttributes o.toBeRenamed] else []) ++
  (if o.setSeqLength then [addSeqLength] else []) ++
  (if o.evalAttribute ≠ [] then [evalAttributes O o.evalAttribute] else []) ++
  (if o.cut.1 ≠ 0 ∧ o.cut.2 ≠ 0 then [cutSequence o.cut.1 o.cut.2] else [])

/-- the chained worker applied to one record -/
def annotate (O : Oracles) (o : AnnotOpts) : Edit := applyAll (requestedEdits O o)

/-- `CLIAnnotationPipeline` on one record: `SeqToSliceConditionalWorker(predicate, worker, false)`.
`none` = the record is not in the output (condition false, or the worker failed), fatal = the
selection expression could not be evaluated (repaired: a nil worker with a non-nil condition is
the identity; the unrepaired code called the nil function) -/
inductive PipeOut where
  | out (r : Rec)
  | absent
  | panic
  | fatal
  deriving DecidableEq, Repr, Inhabited

def pipeline (G : Grep.Oracles) (g : GrepOpts) (O : Oracles) (o : AnnotOpts) (r : Rec) : PipeOut :=
  match (cliPredicate G g) with
  | none =>
    match annotate O o r with
    | .ok r => .out r
    | .dropped => .absent
    | .panic => .panic
  | some p =>
    match p r with
    | none => .fatal
    | some false => .absent
    | some true =>
      match annotate O o r with
      | .ok r => .out r
      | .dropped => .absent
      | .panic => .panic

end ObiVerif.Annotate
