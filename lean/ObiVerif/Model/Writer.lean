import ObiVerif.Model.Reseq
/-!
# Model of the four writers (C04)

`WriteFasta` / `WriteFastq` push formatted chunks to `WriteSeqFileChunk`; `WriteJSON` and `WriteCSV`
carry an inline copy of the same re-sequencing loop.  A chunk is `(order, text)`; the text is the
output of the real formatter and is data for the model.  The writers differ only in what they emit
around the texts.
-/
namespace ObiVerif.Writer
open ObiVerif.Reseq

abbrev Bytes := List UInt8

def sepJson : Bytes := [44, 10]          -- ",\n"
def openJson : Bytes := [91, 10]         -- "[\n"
def closeJson : Bytes := [10, 93, 10]    -- "\n]\n"

/-- FASTA / FASTQ / CSV: every released chunk is appended (`writer.Write(chunk.Raw.Bytes())`) -/
def emitRaw (out : Bytes) (t : Bytes) : Bytes := out ++ t

/-- `WriteSeqFileChunk` and the writer goroutine of `WriteCSV` -/
def writeRaw (arr : List (Nat × Bytes)) : Bytes := (run emitRaw emitRaw [] arr).acc

/-- JSON writer state: bytes written so far and whether an element has already been written -/
structure JS where
  out : Bytes
  some : Bool

/-- JSON: an empty chunk writes nothing; a non-empty one is preceded by `,\n` unless it is the first
element written.  The same function serves chunks in turn and chunks drained from the buffer. -/
def emitJson (s : JS) (t : Bytes) : JS :=
  if t.isEmpty then s
  else if s.some then ⟨s.out ++ sepJson ++ t, true⟩
  else ⟨s.out ++ t, true⟩

def writeJson (arr : List (Nat × Bytes)) : Bytes :=
  (run emitJson emitJson ⟨openJson, false⟩ arr).acc.out ++ closeJson

end ObiVerif.Writer
