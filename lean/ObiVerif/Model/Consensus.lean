import ObiVerif.Model.DeBruijn
import ObiVerif.Model.DeBruijnCov
import ObiVerif.Model.DeBruijnHeap
/-!
# Model of the glue of the obiconsensus command above the De Bruijn graph (C19, short glue pass)

`pkg/obitools/obiconsensus/obiconsensus.go`: `BuildConsensus` (0 reads -> error, 1 read -> copy flagged
`obiconsensus_consensus = false`, the estimate of the k-mer size when `kmer_size < 0`, the loop
`MakeDeBruijnGraph(k)` + `Push` of every read + `HasCycle` -> `k++`, `LongestConsensus`, the annotations), and
the choice made by `MinionDenoise` for every vertex of a sample (degree > 4: consensus of the neighbours and the
vertex itself, fall-back to a copy of the vertex on error; otherwise a copy).

The loop has NO upper bound in the code.  It ends all the same: `Push` ignores a read shorter than `k`, so at
`k = (longest read) + 1` the graph is empty, `HasCycle` answers false, and `LongestConsensus` returns the error
"graph is empty" (`kLoop_spec` in `Lemmas/Consensus.lean`).  Beyond `k = 32` the `uint64` word no longer holds the
k-mer: `kmermask` is all ones (`^uint64(0) << 64.. = 0` in Go), `prevc/g/t = 0`, the nodes are the LAST 32 bases of
every window of `k` bases; `makeGraph` (shifts modulo 2^64) is the same function there, and the `cons` operation
ties it on the real code; the path theorems need `k ≤ 32` (`Graph.WF`).

The estimate (`obisuffix.BuildSuffixArray` on the read alone, `slices.Max(CommonSuffix())`, `+ 1`) is modelled
by its specification — the length of the longest substring occurring at two different positions of a read,
maximum over the reads, plus one — not by a transcription of the suffix sort; an empty read makes
`slices.Max` panic on the empty list (outcome `panic`).
-/
namespace ObiVerif.DeBruijn
open ObiVerif.Kmer

/-- the loop `for _, s := range seqs { graph.Push(s) }` on a fresh `MakeDeBruijnGraph(k)` -/
def graphOf (k : Nat) (reads : List (Bytes × Nat)) : Graph :=
  reads.foldl (fun g r => g.push r.1 r.2) (makeGraph k)

/-- length of the longest common prefix -/
def lcp : Bytes → Bytes → Nat
  | a :: s, b :: t => if a = b then lcp s t + 1 else 0
  | _, _ => 0

/-- the longest prefix of `s` that starts at some position of `t` -/
def maxLcp (s : Bytes) : Bytes → Nat
  | [] => 0
  | b :: t => max (lcp s (b :: t)) (maxLcp s t)

/-- length of the longest substring occurring at two different positions (overlaps allowed):
`slices.Max(sa.CommonSuffix())` of the suffix array of the read alone -/
def lrs : Bytes → Nat
  | [] => 0
  | b :: t => max (maxLcp (b :: t) t) (lrs t)

/-- `kmer_size = slices.Max(longest) + 1`; `none` = panic (`slices.Max` of an empty list: a read without base) -/
def estimateK (reads : List (Bytes × Nat)) : Option Nat :=
  if reads.any (fun r => r.1.isEmpty) then none
  else some ((reads.map fun r => lrs r.1).foldl max 0 + 1)

def maxLen (reads : List (Bytes × Nat)) : Nat := (reads.map fun r => r.1.length).foldl max 0

/-- the `for { … if !graph.HasCycle() { break }; kmer_size++ }` loop; the fuel counts the trials
(`none` = out of fuel: never with `loopFuel`, `kLoop_spec`) -/
def kLoop (reads : List (Bytes × Nat)) : Nat → Nat → Option (Nat × Graph)
  | 0, _ => none
  | f + 1, k =>
    let g := graphOf k reads
    match g.hasCycle with
    | some false => some (k, g)
    | some true => kLoop reads f (k + 1)
    | none => none

/-- enough trials to reach `k = maxLen + 1`, where the graph is empty -/
def loopFuel (reads : List (Bytes × Nat)) (k0 : Nat) : Nat := maxLen reads + 1 - k0 + 1

/-- the k-mer size the loop starts from: `--kmer-size` when it is not negative, else the estimate -/
def startK (reads : List (Bytes × Nat)) (kopt : Int) : Option Nat :=
  if kopt < 0 then estimateK reads else some kopt.toNat

def sumCounts (reads : List (Bytes × Nat)) : Nat := (reads.map Prod.snd).sum

/-- what `BuildConsensus` returns -/
inductive BuildOut where
  | noSeq                                        -- error "no sequence provided"
  | single (s : Bytes) (w : Nat)                 -- copy of the only read, obiconsensus_consensus = false
  | panic
  | fuel
  | err (k : Nat)                                -- (nil, error) of LongestConsensus on the graph of size k
  | cons (s : Bytes) (k weight maxOcc size : Nat) -- consensus, obiconsensus_kmer_size, _weight, _kmer_max_occur, _full/_filtered_graph_size
  deriving DecidableEq, Repr

/-- `BuildConsensus(seqs, id, kmer_size, min_cov, …)`, `lc` being `LongestConsensus(id, min_cov)` -/
def buildConsensusWith (lc : Graph → ConsOut) (reads : List (Bytes × Nat)) (kopt : Int) : BuildOut :=
  match reads with
  | [] => .noSeq
  | [r] => .single r.1 r.2
  | _ =>
    match startK reads kopt with
    | none => .panic
    | some k0 =>
      match kLoop reads (loopFuel reads k0) k0 with
      | none => .fuel
      | some (k, g) =>
        match lc g with
        | .seq s => .cons s k (sumCounts reads) g.maxWeight g.len
        | .err => .err k
        | .panic => .panic
        | .fuel => .fuel

/-- with `--low-coverage` at its default 0 -/
def buildConsensus (fuel : Nat) (reads : List (Bytes × Nat)) (kopt : Int) : BuildOut :=
  buildConsensusWith (fun g => g.longestConsensusH fuel) reads kopt

/-! ## `MinionDenoise`: one output record per vertex of the sample -/

/-- what is written for a vertex: the sequence, `obiconsensus_consensus`, and the k-mer size when a consensus was built -/
structure Denoised where
  seq : Bytes
  isCons : Bool
  k : Nat
  weight : Nat
  deriving DecidableEq, Repr

/-- `degree > 4`: `BuildConsensus(neighbours ++ [v])`; on error the copy of the vertex flagged false
(`obiconsensus_weight` defaults to 1); otherwise a fresh record with the sequence of the vertex.
`none` = panic / out of fuel. -/
def denoiseVertex (fuel : Nat) (kopt : Int) (v : Bytes × Nat) (nbrs : List (Bytes × Nat)) : Option Denoised :=
  if nbrs.length > 4 then
    match buildConsensus fuel (nbrs ++ [v]) kopt with
    | .cons s k w _ _ => some ⟨s, true, k, w⟩
    | .err _ | .noSeq => some ⟨v.1, false, 0, 1⟩
    | .single s _ => some ⟨s, false, 0, 1⟩
    | .panic | .fuel => none
  else some ⟨v.1, false, 0, 1⟩

end ObiVerif.DeBruijn
