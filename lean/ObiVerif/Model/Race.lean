import ObiVerif.Model.Clean
/-!
# Shared counters under an arbitrary interleaving (property C13) — the worker pool of graph.go

`buildSamplePairs` / `extendSimilarityGraph` start `workers` goroutines that take row indices from a channel; the
worker that owns row `i` appends the edges of row `i` to `son.Edges` (touched by nobody else) and does
`father.SonCount++` on the node of ANOTHER row. Here:

* a thread is the list of micro-steps it still has to do; `x++` is either ONE indivisible step (`Step.atomic` :
  `atomic.Add`, or the increment under a lock) or TWO (`Step.load` : `reg := x`, then `Step.store` : `x := reg + 1`),
  which is what the unsynchronised `father.SonCount++` compiles to;
* an interleaving is the list `picks` of thread numbers: `picks[k]` makes its next micro-step at time `k`
  (a pick of a finished or non-existent thread does nothing). The theorems quantify over EVERY `picks`;
* `poolThreads` : worker `t` handles the rows `assign[t]` in that order, so its steps are the increments of the
  fathers of the edges of those rows; the theorems quantify over every `assign` (number of workers, which worker
  gets which row, in what order) such that every row is handled exactly once.
-/
namespace ObiVerif.Race
open ObiVerif.Clean

/-- one micro-step of a thread on the shared counters -/
inductive Step where
  /-- `counter[c]++` in one indivisible step -/
  | atomic (c : Nat)
  /-- first half of a non-atomic `counter[c]++` : `reg := counter[c]` -/
  | load (c : Nat)
  /-- second half : `counter[c] := reg + 1` -/
  | store (c : Nat)
  deriving DecidableEq, Repr

/-- the micro-steps of one `counter[c]++` -/
def incSteps (atomic : Bool) (c : Nat) : List Step :=
  if atomic then [.atomic c] else [.load c, .store c]

def upd (f : Nat → Nat) (k v : Nat) : Nat → Nat := fun x => if x = k then v else f x

structure Machine where
  /-- the shared counters -/
  mem : Nat → Nat
  /-- the private register of each thread -/
  regs : Nat → Nat
  /-- what each thread still has to do -/
  threads : List (List Step)

def Machine.init (threads : List (List Step)) : Machine := { mem := fun _ => 0, regs := fun _ => 0, threads := threads }

/-- thread `t` makes its next micro-step -/
def Machine.step (m : Machine) (t : Nat) : Machine :=
  match m.threads[t]? with
  | some (s :: rest) =>
    match s with
    | .atomic c => { m with threads := m.threads.set t rest, mem := upd m.mem c (m.mem c + 1) }
    | .load c => { m with threads := m.threads.set t rest, regs := upd m.regs t (m.mem c) }
    | .store c => { m with threads := m.threads.set t rest, mem := upd m.mem c (m.regs t + 1) }
  | _ => m

/-- run an interleaving -/
def Machine.run (m : Machine) (picks : List Nat) : Machine := picks.foldl Machine.step m

/-- every thread has finished -/
def Machine.done (m : Machine) : Bool := m.threads.all List.isEmpty

/-! ## the worker pool -/

/-- thread of the worker that handles the rows `rows`, in that order; `targets i` = the counters row `i` increments -/
def workerSteps (atomic : Bool) (targets : Nat → List Nat) (rows : List Nat) : List Step :=
  rows.flatMap (fun i => (targets i).flatMap (incSteps atomic))

def poolThreads (atomic : Bool) (targets : Nat → List Nat) (assign : List (List Nat)) : List (List Step) :=
  assign.map (workerSteps atomic targets)

/-- the edge list of row `i` at the end: appended once each time row `i` is handled -/
def poolEdges {α : Type} (rowOut : Nat → List α) (assign : List (List Nat)) (i : Nat) : List α :=
  (List.replicate (assign.flatten.count i) (rowOut i)).flatten

/-- one parallel phase over `n` rows: `(son.Edges contribution, SonCount contribution)` -/
def parPhase (n : Nat) (rowOut : Nat → List Edge) (atomic : Bool) (assign : List (List Nat)) (picks : List Nat) :
    List (List Edge) × List Nat :=
  let m := (Machine.init (poolThreads atomic (fun i => (rowOut i).map (·.father)) assign)).run picks
  ((List.range n).map (poolEdges rowOut assign), (List.range n).map m.mem)

/-- the final machine of a phase (to state that the schedule is complete) -/
def parMachine (rowOut : Nat → List Edge) (atomic : Bool) (assign : List (List Nat)) (picks : List Nat) : Machine :=
  (Machine.init (poolThreads atomic (fun i => (rowOut i).map (·.father)) assign)).run picks

/-- a schedule of one phase: who handles which rows, and the interleaving of the micro-steps -/
structure Sched where
  assign : List (List Nat)
  picks : List Nat

/-- `cleanSample` with the two worker pools made explicit -/
def cleanSamplePar (K : Kernels) (cfg : Config) (sample : List Node) (atomic : Bool) (s1 s2 : Sched) : Outcome :=
  let ns := (sortByCount sample).toArray
  let r1 := parPhase ns.size (rowEdges1 K ns) atomic s1.assign s1.picks
  let r2 := parPhase ns.size (fun i => if cfg.maxError > 1 then rowEdges2 K cfg.maxError ns (r1.1.getD i []) i else [])
    atomic s2.assign s2.picks
  finish cfg ns r1.1 r1.2 r2.1 r2.2

/-- `cleanDataset` with the worker pools of every sample made explicit: `sch name` = the schedules of the two
parallel phases of sample `name` -/
def cleanDatasetPar (K : Kernels) (cfg : Config) (db : List Rec) (atomic : Bool) (sch : Nat → Sched × Sched) :
    Option (List Annot) :=
  (runSamples (fun name s => cleanSamplePar K cfg s atomic (sch name).1 (sch name).2) db).map (annotateAll db)

end ObiVerif.Race
