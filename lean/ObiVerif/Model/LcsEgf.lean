import ObiVerif.Model.Lcs
/-!
# Structural and specification layers of `FastLCSEGFScoreByte` with endgapfree = true (`FastLCSEGFScore`), C09

What the code does in this mode (fastlcsegf.go; `A` = the LONGER sequence after the swap — the first argument when
the lengths are equal — indexed by the column `j`; `B` = the shorter one, row `i`):
* row 0 holds `encodeValues(0, 0, false)` everywhere (`Sleft = encodeValues(0,0,false)` in the case `i == 0`, and
  the initial cell (0,1)): a prefix of `A` standing before the first symbol of `B` costs no alignment column;
* column 0 holds `encodeValues(0, i, false)`: a prefix of `B` standing before `A` IS counted (`i` columns);
* a horizontal move (a symbol of `A` against a gap) in the LAST row `i = lB` does not increment the path length
  (`if (i > 0 && i < lB) || !endgapfree { Sleft = _incpath(Sleft) }`): a suffix of `A` after the last symbol of `B`
  costs no column;
* the bound is widened by the length difference (`maxError += delta`): the free overhang is at least `delta` long.

So the gaps at both ends of the SHORTER sequence (= the overhangs of the longer one) are free, the gaps at the ends
of the longer one are not.

Specification: `EgfAli m A B s l` = `A = pre ++ mid ++ suf` and `mid` has an alignment with the WHOLE of `B` with `l`
columns, `s` of which are matches. The kernel must return the best `(s, l)` (highest `s`, then smallest `l`).

Structural layer: `bandEGF`, the banded matrix by rows exactly as `bandLCS` of Model/Lcs.lean, with the three
changes above in `bandCellE`.
-/
namespace ObiVerif.Lcs

/-! ## Specification -/

/-- an end-gap-free alignment of `A` (the longer sequence) and `B`: an alignment of a FACTOR of `A` with all of `B` -/
def EgfAli (m : UInt8 → UInt8 → Bool) (A B : Seq) (s l : Nat) : Prop :=
  ∃ pre mid suf : Seq, A = pre ++ mid ++ suf ∧ Ali m mid B s l

/-- `(s, l)` is the end-gap-free optimum: realised, and no end-gap-free alignment has a higher score, or the same
score with fewer columns -/
def EgfOpt (m : UInt8 → UInt8 → Bool) (A B : Seq) (s l : Nat) : Prop :=
  EgfAli m A B s l ∧ ∀ s' l', EgfAli m A B s' l' → (s' < s ∨ (s' = s ∧ l ≤ l'))

/-! ## Executable reference: the naive full-matrix recurrence (no band, no packed cells)

`egfRow` is one row of the recurrence on pairs `(score, length)`; `last` says that the row is the last one (free
horizontal moves). Mirrors `c09Naive` of the harness. -/

/-- cells `(i, j), (i, j+1), …` of row `i ≥ 1`; `left` = cell `(i, j-1)`, last argument = row `i-1` from column
`j-1` on -/
def egfRowGo (m : UInt8 → UInt8 → Bool) (last : Bool) (y : UInt8) : Nat × Nat → Seq → List (Nat × Nat) → List (Nat × Nat)
  | left, x :: as, diag :: up :: rest =>
    let v := best2 (best2 (diag.1 + (if m x y then 1 else 0), diag.2 + 1) (up.1, up.2 + 1))
                   (left.1, if last then left.2 else left.2 + 1)
    v :: egfRowGo m last y v as (up :: rest)
  | _, _, _ => []

def egfRows (m : UInt8 → UInt8 → Bool) (A : Seq) : Nat → Seq → List (Nat × Nat) → List (Nat × Nat)
  | _, [], prev => prev
  | i, y :: bs, prev => egfRows m A (i + 1) bs ((0, i) :: egfRowGo m bs.isEmpty y (0, i) A prev)

/-- the naive end-gap-free recurrence, `A` the longer sequence: (score, length without the end gaps) -/
def egfDPAB (m : UInt8 → UInt8 → Bool) (A B : Seq) : Nat × Nat :=
  (egfRows m A 1 B (List.replicate (A.length + 1) (0, 0))).getLastD (0, 0)

def egfDP (m : UInt8 → UInt8 → Bool) (a b : Seq) : Nat × Nat :=
  if a.length < b.length then egfDPAB m b a else egfDPAB m a b

/-! ## Structural layer: the banded matrix by rows, endgapfree = true -/

/-- cell `(i, j)` from its three neighbours; `lB` = number of rows; `m` = `_samenuc(bA[j-1], bB[i-1])` -/
def bandCellE (lo hi : Int) (lB i j : Nat) (m : Bool) (diag up left : UInt64) : UInt64 :=
  let d : Int := (j : Int) - (i : Int)
  let score :=
    if i = 0 then (pick notavailV notavailV (encodeValues 0 0 false)).1
    else if j = 0 then (pick notavailV (encodeValues 0 i false) notavailV).1
    else (pick (if m then incscore (incpath diag) else incpath diag)
               (if d < hi then incpath up else outV)
               (if d > lo then (if i < lB then incpath left else left) else outV)).1
  if d = lo ∨ d = hi then setout score else score

def bandRowGoE (lo hi : Int) (lB i : Nat) (y : UInt8) : Nat → UInt64 → Seq → List UInt64 → List UInt64
  | j, left, x :: as, diag :: up :: rest =>
    let v := bandCellE lo hi lB i j (samenuc x y) diag up left
    v :: bandRowGoE lo hi lB i y (j + 1) v as (up :: rest)
  | _, _, _, _ => []

def bandRow0E (lo hi : Int) (lB : Nat) : Nat → Seq → List UInt64
  | j, [] => [bandCellE lo hi lB 0 j false 0 0 0]
  | j, _ :: as => bandCellE lo hi lB 0 j false 0 0 0 :: bandRow0E lo hi lB (j + 1) as

def bandRowE (lo hi : Int) (lB : Nat) (A : Seq) (i : Nat) (y : UInt8) (prev : List UInt64) : List UInt64 :=
  bandCellE lo hi lB i 0 false 0 0 0 :: bandRowGoE lo hi lB i y 1 (bandCellE lo hi lB i 0 false 0 0 0) A prev

def bandRowsE (lo hi : Int) (lB : Nat) (A : Seq) : Nat → Seq → List UInt64 → List UInt64
  | _, [], prev => prev
  | i, y :: bs, prev => bandRowsE lo hi lB A (i + 1) bs (bandRowE lo hi lB A i y prev)

def bandLastE (lo hi : Int) (A B : Seq) : List UInt64 :=
  bandRowsE lo hi B.length A 1 B (bandRow0E lo hi B.length 0 A)

/-- the band for endgapfree = true: `maxError += delta` before the test and before `extra` is computed -/
def bandGeoE (lA lB : Nat) (maxError : Int) : Option (Int × Int) :=
  let e : Int := if maxError == -1 then 2 * (lA : Int) else maxError
  let delta : Int := (lA : Int) - (lB : Int)
  let e := e + delta
  if delta > e then none else
  let extra := e - delta + 1
  some (-(2 * extra), 2 * (delta + extra))

/-- `A` is the longer sequence -/
def bandEGFAB (A B : Seq) (maxError : Int) : Option (Nat × Nat) :=
  match bandGeoE A.length B.length maxError with
  | none => none
  | some g => bandResult ((bandLastE g.1 g.2 A B).getLastD 0)

/-- `FastLCSEGFScore` (score, end-gap-free length) on the banded matrix: `none` = (-1, -1, -1) -/
def bandEGF (a b : Seq) (maxError : Int) : Option (Nat × Nat) :=
  if a.length < b.length then bandEGFAB b a maxError else bandEGFAB a b maxError

/-! ## the exported wrapper, and `_lpath` -/

/-- `FastLCSEGFScore(seqA, seqB, maxError, buffer)` = `FastLCSEGFScoreByte(seqA.Sequence(), seqB.Sequence(), maxError,
true, buffer)` (nil buffer) -/
def fastLCSEGFScore (a b : Seq) (maxError : Int) : Except Err (Int × Int × Int) :=
  fastLCSEGFScoreByte a b maxError true none

/-- `_lpath` (fastlcs.go) -/
def lpath (v : UInt64) : Nat := (((v + 1) ^^^ mask) &&& mask).toNat

end ObiVerif.Lcs
