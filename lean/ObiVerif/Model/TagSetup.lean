import ObiVerif.Model.TagTV
/-!
# The set-up code around the searches (C15, round 4)

What `obitag.CLIAssignTaxonomy`, `obitag2.CLIAssignTaxonomy`, `obirefidx.IndexReferenceDB` and
`obirefidx.MakeIndexingSliceWorker` do BEFORE the first search: which records of the reference file are kept, and
the PARALLEL ARRAYS built from them (`references`, `refcounts`, `taxa`).  The loops are transcribed as the index
loops they are (in-place compaction of `references`, writes at the compaction index `j`), on lists used as arrays
(`List.set`); `Lemmas/TagSetup.lean` proves them equal to `List.filter` on the records with a known taxid and proves
the alignment invariant `refcounts[i] = Count4Mer(references[i])`, `taxa[i] = taxon of references[i]`.

The searches of `Model/TagV.lean` recompute the shared 4-mer counts from the byte strings (`findClosestsV`,
`indexSequenceV`): they ASSUME the alignment.  Here the same loops take the tables of 4-mers as the separate array
the Go code hands them (`findClosestsVC`, `indexSequenceVC`: `cw[i] = Common4Mer(seqwords, refcounts[i])`,
`cw[i] = Common4Mer((*kmers)[seqidx], (*kmers)[i])`) and the map `taxa` as it is after the set-up — a slot may hold
a nil `*TaxNode` (`taxa[j], err = taxo.Taxon(..)` stores nil on error), on which `IndexSequence` ends in
`log.Panicf("Try to get LCA of nil taxon")`.
-/
namespace ObiVerif.Tag

open ObiVerif.Kmer (Bytes)
open ObiVerif.Lcs (Err)

/-- a record of the reference file: its bytes and its `taxid` attribute (`none` = no attribute: `Taxid()` = 1) -/
structure RefRec where
  seq : Bytes
  taxid : Option Nat
deriving Repr, DecidableEq

/-- `seq.Taxid()` -/
def RefRec.tid (r : RefRec) : Nat := Tax.seqTaxid r.taxid

/-- `_, err := taxo.Taxon(seq.Taxid()); err == nil` -/
def known (t : Tax.Taxo) (r : RefRec) : Bool := (Tax.resolve t r.tid).isSome

/-- a slot of the map `taxa` (`obitax.TaxonSet = map[int]*TaxNode`): `none` = the key is absent, `some none` = the
key holds a nil node, `some (some id)` = the key holds the node of taxid `id` -/
abbrev Slot := Option (Option Nat)

/-! ## `obitag.CLIAssignTaxonomy` -/

/-- the variables of the set-up loop of `obitag.CLIAssignTaxonomy` -/
structure SetupState where
  refs : List RefRec                    -- `references` (compacted in place)
  counts : List (Option (Array Nat))    -- `refcounts` (`make([]*Table4mer, n)`: nil pointers)
  taxa : List Slot                      -- `taxa` (`make(TaxonSet, n)`: an EMPTY map), keys `0..n-1`
  j : Nat

/-- one iteration `i` of
```go
for _, seq := range references {       // reads references[i] of the array being compacted
    references[j] = seq
    refcounts[j] = obikmer.Count4Mer(seq, &buffer, nil)
    taxa[j], err = taxo.Taxon(seq.Taxid())
    if err == nil { j++ } else { log.Warnf(...) }
}
``` -/
def tag1Step (t : Tax.Taxo) (st : SetupState) (i : Nat) : SetupState :=
  match st.refs[i]? with
  | none => st
  | some seq =>
    { refs := st.refs.set st.j seq
      counts := st.counts.set st.j (some (Kmer.count4mer seq.seq))
      taxa := st.taxa.set st.j (some (Tax.resolve t seq.tid))
      j := if known t seq then st.j + 1 else st.j }

def tag1Init (recs : List RefRec) : SetupState :=
  { refs := recs, counts := recs.map fun _ => none, taxa := recs.map fun _ => none, j := 0 }

/-- the state after the loop -/
def tag1Loop (t : Tax.Taxo) (recs : List RefRec) : SetupState :=
  (List.range recs.length).foldl (tag1Step t) (tag1Init recs)

/-- what the worker closure captures: `references[:j]`, `refcounts[:j]`, `taxa` (the map is NOT truncated) -/
structure SetupOut where
  refs : List RefRec
  counts : List (Option (Array Nat))
  taxa : List Slot

def tag1Setup (t : Tax.Taxo) (recs : List RefRec) : SetupOut :=
  let st := tag1Loop t recs
  { refs := st.refs.take st.j, counts := st.counts.take st.j, taxa := st.taxa }

/-! ## the arrays as the searches read them -/

/-- `references[i].Sequence()` (out of range: never read, the empty string) -/
def refFn (refs : List RefRec) (i : Nat) : Bytes := ((refs[i]?).map (·.seq)).getD []

/-- `refcounts[i]` (a nil table / out of range is never read: the table of the empty string) -/
def countFn (counts : List (Option (Array Nat))) (i : Nat) : Array Nat :=
  match counts[i]? with
  | some (some c) => c
  | _ => Kmer.count4mer []

/-- some key of the map holds a nil node -/
def hasNil (taxa : List Slot) : Bool := taxa.any fun s => s == some none

/-- the taxids of the non-nil nodes of the map, by increasing key -/
def taxaIds (taxa : List Slot) : List Nat := taxa.filterMap fun s => s.join

/-! ## the searches on separate arrays -/

/-- `FindClosests(sequence, references, refcounts, runExact)` with `cw[i] = Common4Mer(seqwords, refcounts[i])`
read from the array `counts` (cf. `findClosestsV`, which recomputes the tables from `refs`) -/
def findClosestsVC (v : Variant) (q : Bytes) (refs : Nat → Bytes) (counts : Nat → Array Nat) (o : List Nat) :
    Except Err FCOut :=
  match o with
  | [] => .ok .panic
  | o0 :: _ =>
    let cq := Kmer.count4mer q
    match fcLoopV wmNew v q refs (fun i => common4mer cq (counts i)) o
        { maxe := none, wordmin := 0, bestidxs := [], bestId := (0, 1), bestmatch := o0 } #[] with
    | .error x => .error x
    | .ok (st, _) =>
      .ok (match st.maxe, st.bestidxs with
        | some e, _ :: _ => .ok e st.bestId st.bestmatch st.bestidxs
        | _, _ => .panic)

/-- `IndexSequence(seqidx, references, kmers, taxa, taxo)` with `sw = (*kmers)[seqidx]`,
`cw[i] = Common4Mer(sw, (*kmers)[i])` read from the array `counts` (cf. `indexSequenceV`) -/
def indexSequenceVC (t : Tax.Taxo) (fuel : Nat) (taxids : List Nat) (seqidx : Nat) (refs : Nat → Bytes)
    (counts : Nat → Array Nat) (ow : List Nat) : Except Err (Tax.Res (List (Nat × Nat))) :=
  let tseq := taxids.getD seqidx 0
  match lcaAll t fuel tseq taxids with
  | .error e => .ok (.error e)
  | .ok lcas =>
    match Tax.path t fuel tseq with
    | .error e => .ok (.error e)
    | .ok p =>
      let s := refs seqidx
      match ixOuterV thrNew s refs (fun j => common4mer (counts seqidx) (counts j)) (fun j => lcas.getD j 0) ow
          p.reverse { mini := none, wordmin := 0 } #[] with
      | .error x => .error x
      | .ok ds => .ok (.ok (ixRecord p.reverse ds s.length))

/-- `IndexSequence` on the map `taxa` as the set-up leaves it: `for i, taxon := range *taxa { lca[i], _ =
tseq.LCA(taxon) }` ends in `log.Panicf` as soon as one key holds a nil node -/
def indexSequenceVT (t : Tax.Taxo) (fuel : Nat) (taxa : List Slot) (seqidx : Nat) (refs : Nat → Bytes)
    (counts : Nat → Array Nat) (ow : List Nat) : Except Err (Tax.Res (List (Nat × Nat))) :=
  if hasNil taxa then .ok (.error .panic) else indexSequenceVC t fuel (taxaIds taxa) seqidx refs counts ow

/-- `Identify(sequence, references, refcounts, taxa, taxo, runExact)` of obitag on the arrays of the set-up
(cf. `identifyTextV`): every kernel call verbatim, the indices built lazily by `IndexSequence` on the SAME arrays,
held as text and read back by the verbatim selection loop -/
def identifyTextVC (t : Tax.Taxo) (fuel : Nat) (v : Variant) (name rank : Nat → Text) (q : Bytes) (refs : Nat → Bytes)
    (counts : Nat → Array Nat) (taxa : List Slot) (o : List Nat) (ows : Nat → List Nat) : IdOut :=
  match findClosestsVC v q refs counts o with
  | .error _ => .bad .panic
  | .ok fc =>
    identifyText t fuel fc (fun b =>
      match indexSequenceVT t fuel taxa b refs counts (ows b) with
      | .error _ => .error .panic
      | .ok r => r.map (textIndex name rank))

/-- the worker returned by `obitag.CLIAssignTaxonomy(iterator, references, taxo)` applied to one query: `o` = the
candidate order of the query among the kept references, `ows b` = the candidate order of kept reference `b`;
`bestmatch` is a position in the KEPT list -/
def cliAssign1 (t : Tax.Taxo) (fuel : Nat) (name rank : Nat → Text) (recs : List RefRec) (q : Bytes) (o : List Nat)
    (ows : Nat → List Nat) : IdOut :=
  let s := tag1Setup t recs
  identifyTextVC t fuel .tag1 name rank q (refFn s.refs) (countFn s.counts) s.taxa o ows

/-- positions (in the file) of the records with a known taxid, in file order -/
def keptPos (t : Tax.Taxo) (recs : List RefRec) : List Nat :=
  (List.range recs.length).filter fun i => ((recs[i]?).map (known t)).getD false

/-! ## `obirefidx.IndexReferenceDB` -/

structure RefIdxState where
  refs : List RefRec
  taxa : List Slot
  j : Nat

/-- one iteration of
```go
for i, seq := range references {
    taxon, err := taxo.Taxon(seq.Taxid())
    if err == nil { taxa[j] = taxon; references[j] = references[i]; j++ }
}
``` -/
def refidxStep (t : Tax.Taxo) (st : RefIdxState) (i : Nat) : RefIdxState :=
  match st.refs[i]? with
  | none => st
  | some seq =>
    match Tax.resolve t seq.tid with
    | some n => { refs := st.refs.set st.j seq, taxa := st.taxa.set st.j (some (some n)), j := st.j + 1 }
    | none => st

def refidxLoop (t : Tax.Taxo) (recs : List RefRec) : RefIdxState :=
  (List.range recs.length).foldl (refidxStep t) { refs := recs, taxa := recs.map fun _ => none, j := 0 }

/-- `references = references[0:j]`, then `refcounts[i] = Count4Mer(references[i])` on the compacted list -/
def refidxSetup (t : Tax.Taxo) (recs : List RefRec) : SetupOut :=
  let st := refidxLoop t recs
  let refs := st.refs.take st.j
  { refs := refs, counts := refs.map fun r => some (Kmer.count4mer r.seq), taxa := st.taxa }

/-- the index `IndexReferenceDB` writes on kept reference `b` (`ow` = its candidate order among the kept ones) -/
def refidxIndex (t : Tax.Taxo) (fuel : Nat) (recs : List RefRec) (b : Nat) (ow : List Nat) :
    Except Err (Tax.Res (List (Nat × Nat))) :=
  let s := refidxSetup t recs
  indexSequenceVT t fuel s.taxa b (refFn s.refs) (countFn s.counts) ow

/-! ## `obitag2.CLIAssignTaxonomy` : nothing is dropped -/

/-- the exact-match table of `obitag2.CLIAssignTaxonomy` for one group of references holding the same bytes (taxids
in file order): `t, _ := taxo.Taxon(seqs[0].Taxid())`, then `t, err = t.LCA(t2)` for the others — `log.Panicf` on a
nil receiver or argument, i.e. as soon as the group has two members and one of them has an unknown taxid;
`.ok none` = a table entry holding a NIL taxon (one member, unknown taxid): `Identify` dereferences it on a hit -/
def exactGroup (t : Tax.Taxo) (fuel : Nat) : List Nat → Tax.Res (Option Nat)
  | [] => .ok none
  | [x] => .ok (Tax.resolve t x)
  | x :: ys =>
    match Tax.resolve t x, ys.mapM (Tax.resolve t) with
    | some x', some ys' => (lcaChain t fuel x' ys').map some
    | _, _ => .error .panic

/-- the groups of positions holding the same bytes, by first occurrence -/
def groupsOf (recs : List RefRec) : List (List Nat) :=
  let idx := List.range recs.length
  (idx.filter fun i => (idx.take i).all fun k => refFn recs k != refFn recs i).map fun i =>
    idx.filter fun k => refFn recs k == refFn recs i

/-- does the set-up of `obitag2.CLIAssignTaxonomy` end normally? (`taxa[i], _ = taxo.Taxon(..)` stores nil for an
unknown taxid, nothing is dropped; the only failure is the exact-match table) -/
def tag2SetupOk (t : Tax.Taxo) (fuel : Nat) (recs : List RefRec) : Bool :=
  (groupsOf recs).all fun g =>
    match exactGroup t fuel (g.map fun i => ((recs[i]?).map (·.tid)).getD 1) with
    | .ok _ => true
    | .error _ => false

/-! ## `obirefidx.MakeIndexingSliceWorker` : the tables fetched through the id slot -/

/-- `kmercounts[i] = (*kmers)[j]` with `j` = the attribute `idslot` of `sequences[i]`; `taxa[i], _ =
taxonomy.Taxon(seq.Taxid())` (nil for an unknown taxid).  `ids` = the attribute of each sequence (`none` = absent:
the worker returns an error); `kmers` = the tables of the whole data base.  `.error .err` = the error returned,
`.error .panic` = `(*kmers)[j]` out of range -/
def sliceWorkerSetup (t : Tax.Taxo) (kmers : List (Array Nat)) (seqs : List RefRec) (ids : List (Option Nat)) :
    Tax.Res SetupOut :=
  let rec go : List RefRec → List (Option Nat) → Tax.Res (List (Option (Array Nat)) × List Slot)
    | [], _ => .ok ([], [])
    | _ :: _, [] => .error .err
    | _ :: _, none :: _ => .error .err
    | r :: rs, some j :: js =>
      match kmers[j]? with
      | none => .error .panic
      | some c =>
        match go rs js with
        | .error e => .error e
        | .ok (cs, ts) => .ok (some c :: cs, some (Tax.resolve t r.tid) :: ts)
  match go seqs ids with
  | .error e => .error e
  | .ok (cs, ts) => .ok { refs := seqs, counts := cs, taxa := ts }

end ObiVerif.Tag
