import ObiVerif.Model.LoopSteps
import ObiVerif.Model.Iter
/-!
# Small-step model of `IBioSequence.Pool` (C03, "always terminates"; `pkg/obiiter/batchiterator.go`)

`Pool` is the one combinator of `pkg/obiiter` with SEVERAL loop goroutines writing one output: for each of
the `N` pooled iterators a goroutine runs

    for iterator.Next() { s := iterator.Get(); newIter.Push(s.Reorder(nextCounter())) }
    newIter.Done()

`nextCounter` being a shared atomic counter, and one more goroutine runs `newIter.WaitAndClose()`.  (The
single-loop combinators are `Model/LoopSteps.lean`, the worker stage + `SortBatches` is
`Model/ReseqSteps.lean`.)

State: per goroutine `i < N` what its own input still delivers (`todo`: the batches in the order this
input delivers them — `Next()` on one's own iterator involves no other goroutine of the stage, so the
upstream producer and channel are folded into the list), the renumbered batch it is trying to push (`hand`:
between `nextCounter()` and the completion of `Push`), `done` (`Done()` called); the shared `counter`; the
output channel `cout` of capacity `cap ≥ 0` (`cap = 0`: the unbuffered channel of the code, a push then
meets the consumer directly: `pushHand`); `closed`; what the consumer has received (`delivered`).
`taken` is a ghost variable: the input batches in the order in which they were numbered.
-/
namespace ObiVerif.PoolSteps
open ObiVerif.LoopSteps (upd sumTo b2n)
open ObiVerif.Iter (Batch)

structure G where
  todo : List Batch
  hand : Option Batch
  done : Bool

structure St where
  g : Nat → G
  counter : Nat
  cout : List Batch
  closed : Bool
  delivered : List Batch
  taken : List Batch

def init (ins : Nat → List Batch) : St :=
  { g := fun i => { todo := ins i, hand := none, done := false }, counter := 0, cout := [], closed := false,
    delivered := [], taken := [] }

inductive Step (N cap : Nat) : St → St → Prop where
  /-- goroutine `i`: `iterator.Next()` is true, `s.Reorder(nextCounter())` -/
  | take (s : St) (i : Nat) (k : Batch) (t : List Batch) : i < N → (s.g i).todo = k :: t →
      (s.g i).hand = none → (s.g i).done = false →
      Step N cap s { s with g := upd s.g i { todo := t, hand := some (s.counter, k.2), done := false },
                            counter := s.counter + 1, taken := s.taken ++ [k] }
  /-- goroutine `i`: `newIter.Push` into a free slot -/
  | push (s : St) (i : Nat) (b : Batch) : i < N → (s.g i).hand = some b → s.cout.length < cap →
      Step N cap s { s with g := upd s.g i { s.g i with hand := none }, cout := s.cout ++ [b] }
  /-- goroutine `i`: `newIter.Push` meets the consumer waiting on the empty channel -/
  | pushHand (s : St) (i : Nat) (b : Batch) : i < N → (s.g i).hand = some b → s.cout = [] →
      Step N cap s { s with g := upd s.g i { s.g i with hand := none }, delivered := s.delivered ++ [b] }
  /-- goroutine `i`: `iterator.Next()` is false, `newIter.Done()` -/
  | finish (s : St) (i : Nat) : i < N → (s.g i).todo = [] → (s.g i).hand = none → (s.g i).done = false →
      Step N cap s { s with g := upd s.g i { s.g i with done := true } }
  /-- `WaitAndClose`: every goroutine has called `Done()`, the channel is empty -/
  | close (s : St) : (∀ i, i < N → (s.g i).done = true) → s.cout = [] → s.closed = false →
      Step N cap s { s with closed := true }
  /-- the consumer's `Next()` takes the head of the channel -/
  | consume (s : St) (k : Batch) (t : List Batch) : s.cout = k :: t →
      Step N cap s { s with cout := t, delivered := s.delivered ++ [k] }

inductive Reach (N cap : Nat) (s0 : St) : St → Prop where
  | init : Reach N cap s0 s0
  | step {s s' : St} : Reach N cap s0 s → Step N cap s s' → Reach N cap s0 s'

inductive Run (N cap : Nat) : St → St → Nat → Prop where
  | nil (s : St) : Run N cap s s 0
  | cons {s s' s'' : St} {n : Nat} : Step N cap s s' → Run N cap s' s'' n → Run N cap s s'' (n + 1)

/-- the consumer has seen the end of the stream -/
def Final (s : St) : Prop := s.closed = true ∧ s.cout = []

/-- concatenation of `f (g i)` for `i < n` -/
def catTo {α β : Type} (f : β → List α) : Nat → (Nat → β) → List α
  | 0, _ => []
  | n + 1, g => catTo f n g ++ f (g n)

/-- ranking of one goroutine -/
def rG (x : G) : Nat := 3 * x.todo.length + (if x.hand.isSome then 2 else 0) + b2n x.done

def rank (N : Nat) (s : St) : Nat := sumTo N (fun i => rG (s.g i)) + s.cout.length + b2n s.closed

/-! ## An executable scheduler (used by the driver to run the machine next to `Iter.pool`)

`schedStep` picks an enabled step: the consumer first, then a goroutine holding a batch, then a goroutine
that has not finished — the goroutines being scanned in turn from `start` (`start, …, N-1, 0, …, start-1`);
`schedRun` moves `start` on after every step (round-robin), so that the numbering interleaves the inputs.
`none` = no step is enabled.  `sched_sound` (Lemmas): every step it takes is a `Step`. -/

/-- first `j` in `lo, lo+1, …, lo+len-1` with `p j` -/
def findIn (p : Nat → Bool) : Nat → Nat → Option Nat
  | 0, _ => none
  | len + 1, lo => if p lo then some lo else findIn p len (lo + 1)

def findRot (N : Nat) (p : Nat → Bool) (start : Nat) : Option Nat :=
  match findIn p (N - start) start with
  | some j => some j
  | none => findIn p (min start N) 0

def schedStep (N cap : Nat) (start : Nat) (s : St) : Option St :=
  match s.cout with
  | k :: t => some { s with cout := t, delivered := s.delivered ++ [k] }
  | [] =>
    match findRot N (fun i => (s.g i).hand.isSome) start with
    | some i =>
      match (s.g i).hand with
      | some b =>
        if 0 < cap then some { s with g := upd s.g i { s.g i with hand := none }, cout := s.cout ++ [b] }
        else some { s with g := upd s.g i { s.g i with hand := none }, delivered := s.delivered ++ [b] }
      | none => none
    | none =>
      match findRot N (fun i => !(s.g i).done) start with
      | some i =>
        match (s.g i).todo with
        | k :: t => some { s with g := upd s.g i { todo := t, hand := some (s.counter, k.2), done := false },
                                  counter := s.counter + 1, taken := s.taken ++ [k] }
        | [] => some { s with g := upd s.g i { s.g i with done := true } }
      | none => if s.closed then none else some { s with closed := true }

def schedRun (N cap : Nat) : Nat → Nat → St → St
  | 0, _, s => s
  | fuel + 1, start, s =>
    match schedStep N cap start s with
    | some s' => schedRun N cap fuel (if start + 1 < N then start + 1 else 0) s'
    | none => s

/-- the machine run to its end on `ins` (a list of streams) under the round-robin scheduler -/
def poolRun (cap : Nat) (ins : List (List Batch)) : St :=
  let f : Nat → List Batch := fun i => ins.getD i []
  schedRun ins.length cap (rank ins.length (init f) + 1) 0 (init f)

end ObiVerif.PoolSteps
