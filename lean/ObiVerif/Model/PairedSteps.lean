import ObiVerif.Model.Reseq
/-!
# Small-step model of the goroutines of a paired output (C04): two writers chained by `iterator.PairedWith()`

`WriteFastaToFile` / `WriteFastqToFile` / `WriteJSONToFile` / `WriteCSVToFile` with `WritePairedReadsTo(f2)`
(`pkg/obiformats/fastseq_write_fasta.go`, `…_fastq.go`, `json_writer.go`, `csv_writer.go`, `obiiter/paired.go`):

```
source ──► N1 formatting workers `ff` of writer 1 ──(chunkchan 1)──► writer goroutine 1 ──► file 1
                 │ newIter.Push(batch)            (unbuffered channel of newIter 1)
                 ▼
           goroutine of `PairedWith()`  (batch ↦ batch of the mates, same order number)
                 │ newIter.Push              (unbuffered channel)
                 ▼
           N2 formatting workers of writer 2 ──(chunkchan 2)──► writer goroutine 2 ──► file 2
                 │ newIter.Push(batch)
                 ▼  consumer (the command drains the returned iterator)
```

* a formatting worker: `for iterator.Next() { batch := Get(); chunkchan <- format(batch); newIter.Push(batch) }; newIter.Done()`:
  `idle` = in `Next()`, `fmt k` = holds batch `k`, blocked in `chunkchan <- …` (formatting is local), `push k` = the chunk has
  been taken by the writer goroutine, blocked in `newIter.Push`, `done` = saw the closed channel, called `Done()`;
* all channels are unbuffered (`make(chan …)`): every transfer is a rendezvous with a waiting receiver;
* a writer goroutine is always ready to receive; on a chunk it runs the re-sequencing step of `Model/Reseq.lean` atomically
  (`w1`, `w2`: counter, map of early chunks, batch numbers written so far); once all its workers are done the channel is
  closed and it closes the file (`close1`, `close2`);
* `WaitAndClose` / `Wait…Close` of `newIter` of writer 1 (`mid1Close`: all workers of writer 1 done), of the iterator of
  `PairedWith` (`mid2Close`), of the returned iterator (`outClose`).  FASTA/FASTQ close the iterator after the file,
  JSON/CSV before: both orders are interleavings of `close*` and `*Close`;
* the consumer is always ready (`delivered`).

`arrived1` / `arrived2` are ghost variables: the order in which the writer goroutines received the chunks.
A batch is represented by its order number (its content and its mates are functions of the number: `Model/WriterFmt.lean`
`writePaired`).
-/
namespace ObiVerif.PairedSteps
open ObiVerif.Reseq

inductive FPc where
  | idle
  | fmt (k : Nat)
  | push (k : Nat)
  | done
  deriving DecidableEq, Repr

/-- a writer goroutine: `next_to_send` / `nextToPrint`, the map of early chunks, the batch numbers written to the file -/
abbrev Wr := WS (List Nat) Nat

/-- the writer goroutine receives chunk `k`: the re-sequencing step (write in turn + drain, or store) -/
def recv (w : Wr) (k : Nat) : Wr := step (fun l x => l ++ [x]) (fun l x => l ++ [x]) w (k, k)

structure St where
  todo : List Nat
  srcDone : Bool
  ws1 : List FPc
  w1 : Wr
  arrived1 : List Nat
  closed1 : Bool
  mid1Closed : Bool
  pw : Option Nat
  pwDone : Bool
  mid2Closed : Bool
  ws2 : List FPc
  w2 : Wr
  arrived2 : List Nat
  closed2 : Bool
  outClosed : Bool
  delivered : List Nat

/-- `src`: the batch numbers in the order the source delivers them; `N1`, `N2` formatting workers -/
def init (src : List Nat) (N1 N2 : Nat) : St :=
  { todo := src, srcDone := false, ws1 := List.replicate N1 .idle, w1 := ⟨0, [], []⟩, arrived1 := [], closed1 := false,
    mid1Closed := false, pw := none, pwDone := false, mid2Closed := false, ws2 := List.replicate N2 .idle,
    w2 := ⟨0, [], []⟩, arrived2 := [], closed2 := false, outClosed := false, delivered := [] }

inductive Step : St → St → Prop where
  /-- the source hands batch `k` to worker `i` of writer 1 waiting in `Next()` -/
  | srcHand (s : St) (k : Nat) (t : List Nat) (i : Nat) : s.todo = k :: t → s.ws1[i]? = some .idle →
      Step s { s with todo := t, ws1 := s.ws1.set i (.fmt k) }
  /-- the source iterator is closed -/
  | srcClose (s : St) : s.todo = [] → s.srcDone = false → Step s { s with srcDone := true }
  /-- worker `i` of writer 1 sees the closed source; `newIter.Done()` -/
  | f1Finish (s : St) (i : Nat) : s.ws1[i]? = some .idle → s.srcDone = true →
      Step s { s with ws1 := s.ws1.set i .done }
  /-- worker `i` of writer 1: `chunkchan <- chunk k` meets writer goroutine 1 -/
  | f1Chunk (s : St) (i k : Nat) : s.ws1[i]? = some (.fmt k) →
      Step s { s with ws1 := s.ws1.set i (.push k), w1 := recv s.w1 k, arrived1 := s.arrived1 ++ [k] }
  /-- worker `i` of writer 1: `newIter.Push(batch k)` meets the goroutine of `PairedWith()` waiting in `Next()` -/
  | f1Push (s : St) (i k : Nat) : s.ws1[i]? = some (.push k) → s.pw = none → s.pwDone = false →
      Step s { s with ws1 := s.ws1.set i .idle, pw := some k }
  /-- all workers of writer 1 done: `close(chunkchan)`; writer goroutine 1 leaves its loop and closes file 1 -/
  | close1 (s : St) : (∀ pc ∈ s.ws1, pc = .done) → s.closed1 = false → Step s { s with closed1 := true }
  /-- all workers of writer 1 done: the iterator returned by writer 1 is closed -/
  | mid1Close (s : St) : (∀ pc ∈ s.ws1, pc = .done) → s.mid1Closed = false → Step s { s with mid1Closed := true }
  /-- `PairedWith()`: `newIter.Push(mates of k)` meets worker `j` of writer 2 waiting in `Next()` -/
  | pwHand (s : St) (k j : Nat) : s.pw = some k → s.ws2[j]? = some .idle →
      Step s { s with pw := none, ws2 := s.ws2.set j (.fmt k) }
  /-- `PairedWith()`: `Next()` sees the closed iterator of writer 1; `newIter.Done()` -/
  | pwFinish (s : St) : s.pw = none → s.mid1Closed = true → s.pwDone = false → Step s { s with pwDone := true }
  | mid2Close (s : St) : s.pwDone = true → s.mid2Closed = false → Step s { s with mid2Closed := true }
  | f2Finish (s : St) (j : Nat) : s.ws2[j]? = some .idle → s.mid2Closed = true →
      Step s { s with ws2 := s.ws2.set j .done }
  | f2Chunk (s : St) (j k : Nat) : s.ws2[j]? = some (.fmt k) →
      Step s { s with ws2 := s.ws2.set j (.push k), w2 := recv s.w2 k, arrived2 := s.arrived2 ++ [k] }
  /-- worker `j` of writer 2: `newIter.Push(batch)` meets the consumer -/
  | f2Push (s : St) (j k : Nat) : s.ws2[j]? = some (.push k) →
      Step s { s with ws2 := s.ws2.set j .idle, delivered := s.delivered ++ [k] }
  | close2 (s : St) : (∀ pc ∈ s.ws2, pc = .done) → s.closed2 = false → Step s { s with closed2 := true }
  | outClose (s : St) : (∀ pc ∈ s.ws2, pc = .done) → s.outClosed = false → Step s { s with outClosed := true }

inductive Reach (src : List Nat) (N1 N2 : Nat) : St → Prop where
  | init : Reach src N1 N2 (init src N1 N2)
  | step {s s' : St} : Reach src N1 N2 s → Step s s' → Reach src N1 N2 s'

/-- both files closed, the returned iterator closed: the command goes on to its end -/
def Final (s : St) : Prop := s.closed1 = true ∧ s.closed2 = true ∧ s.outClosed = true

def fmtHeld : List FPc → List Nat
  | [] => []
  | .fmt k :: t => k :: fmtHeld t
  | _ :: t => fmtHeld t

def pushHeld : List FPc → List Nat
  | [] => []
  | .push k :: t => k :: pushHeld t
  | _ :: t => pushHeld t

def optL : Option Nat → List Nat
  | none => []
  | some k => [k]

def notDone : List FPc → Nat
  | [] => 0
  | .done :: t => notDone t
  | _ :: t => notDone t + 1

def b2n (b : Bool) : Nat := if b then 0 else 1

/-- ranking function: every step decreases it (termination of every interleaving) -/
def rank (s : St) : Nat :=
  8 * s.todo.length + 7 * (fmtHeld s.ws1).length + 6 * (pushHeld s.ws1).length + 5 * (optL s.pw).length +
  4 * (fmtHeld s.ws2).length + 3 * (pushHeld s.ws2).length +
  b2n s.srcDone + notDone s.ws1 + b2n s.closed1 + b2n s.mid1Closed + b2n s.pwDone + b2n s.mid2Closed +
  notDone s.ws2 + b2n s.closed2 + b2n s.outClosed

end ObiVerif.PairedSteps
