import ObiVerif.Model.Kmer
import ObiVerif.Model.Tax
/-!
# Model of the assignment search of obitag / obitag2 and of the reference index of obirefidx (C15)

Transcription of

* `pkg/obikmer/counting.go` : `Common4Mer` (on the `Count4Mer` tables of `Model/Kmer.lean`);
* `pkg/obitools/obitag/obitag.go` and `pkg/obitools/obitag2/obitag.go` : `FindClosests`, **as repaired** by
  `notes/patches/C15-findclosests-wordmin-best-length` (the pruning threshold `wordmin` is computed from the
  length of the query only) and `C15-obitag2-candidate-cap` (obitag2 no longer stops after 1001 candidates);
  the unrepaired threshold is kept as `wmOld` for the counterexample theorem;
* `pkg/obitools/obirefidx/obirefidx.go` : `IndexSequence` (also the indexing function of
  `famlilyindexing.go`), **as repaired** by `C15-indexsequence-break-threshold` (`thrOld` = unrepaired);
* `obitag.Identify` / `obitag2.Obitag2RefDB.BestConsensus` : selection of the index entry by the observed
  distance and LCA over the best references (`pkg/obitax/lca.go` through `Model/Tax.lean`).

The loops are transcribed over ABSTRACT candidate data (`Cand`): what the loops see of reference `i` is its
length, the number `cw` of 4-mers it shares with the scanned sequence, and the answer `(lcs, alilength)` of
`obialign.FastLCSScore` WITHOUT bound (the LCS kernels are property C09's).  The bounded calls are read as

* `FastLCSScore(q, r, e)`, `e ≥ 2` : the unbounded answer when `alilength - lcs ≤ e`, `-1` otherwise.  The
  band of the real kernel is wider than `e`: it also answers some pairs whose distance exceeds `e`, always with
  `alilength - lcs > e` (checked by the harness on every pair, signature `hyp.bounded-lcs`); both loops
  discard such an answer exactly as they discard `-1` (`score < maxe`, `score == maxe`, `errs < mini` all false);
* `D1Or0(q, r)` : `0` / `1` when the unbounded distance is `0` / `1`, `-1` otherwise (`hyp.d1or0`);
* obitag2's byte comparison at `maxe = 0` : distance `0` (sequences over `a c g t`).

The candidate order `o` (`obiutils.Reverse(obiutils.IntOrder(cw), true)`, an unstable `sort.Sort`) is a
parameter: the harness passes the order computed by the same functions; the theorems only use that it is a
permutation sorted by non-increasing `cw`.
-/
namespace ObiVerif.Tag

open ObiVerif.Kmer (Bytes)

/-! ## shared 4-mers -/

/-- `Common4Mer` : `sum += int(min(count1[i], count2[i]))` for `i = 0..255` -/
def common4mer (c1 c2 : Array Nat) : Nat :=
  (List.range 256).foldl (fun s i => s + min (c1.getD i 0) (c2.getD i 0)) 0

/-- `Common4Mer(Count4Mer(a), Count4Mer(b))` -/
def common4 (a b : Bytes) : Nat := common4mer (Kmer.count4mer a) (Kmer.count4mer b)

/-! ## candidates -/

/-- what the search loops see of one reference -/
structure Cand where
  len : Nat   -- `ref.Len()`
  cw : Nat    -- `cw[i]` : 4-mers shared with the scanned sequence
  lcs : Nat   -- `FastLCSScore(seq, ref, -1)` : LCS length …
  ali : Nat   -- … and alignment length
deriving Repr, DecidableEq, Inhabited

/-- the LCS distance `alilength - lcs` -/
def Cand.dist (c : Cand) : Nat := c.ali - c.lcs

/-- `FastLCSScore(seq, ref, e)` for a bound `e ≥ 0` (see the header) -/
def boundedLCS (c : Cand) (e : Nat) : Option (Nat × Nat) :=
  if c.dist ≤ e then some (c.lcs, c.ali) else none

/-- `D1Or0(seq, ref)` : `some d` for `d ≥ 0` -/
def d1or0 (c : Cand) : Option Nat := if c.dist ≤ 1 then some c.dist else none

/-! ## `FindClosests` -/

/-- `obitag` or `obitag2` -/
inductive Variant where
  | tag1 | tag2
deriving Repr, DecidableEq

structure FCState where
  maxe : Option Nat       -- `maxe` (`none` = -1)
  wordmin : Nat           -- `wordmin` (never negative: `max(0, …)`)
  bestidxs : List Nat     -- `bestidxs` (`bests[k] = references[bestidxs[k]]`)
  bestId : Nat × Nat      -- `bestId = float64(lcs) / float64(alilength)` kept as the pair
  bestmatch : Nat         -- `bestmatch` : index of the reference whose id it is
deriving Repr, DecidableEq

/-- repaired threshold: `max(0, sequence.Len()-3-4*maxe)` -/
def wmNew (lq _lbest maxe : Nat) : Nat := lq - 3 - 4 * maxe

/-- unrepaired threshold: `max(0, max(sequence.Len(), ref.Len())-3-4*maxe)`, `ref` the new best reference -/
def wmOld (lq lbest maxe : Nat) : Nat := max lq lbest - 3 - 4 * maxe

/-- `id > bestId` on quotients of integers (`x/0` is NaN or ±Inf only for `0/0`: every comparison false) -/
def idGt (x y : Nat × Nat) : Bool := x.2 ≠ 0 && y.2 ≠ 0 && x.1 * y.2 > y.1 * x.2

/-- the comparison of candidate `c` with the query: `(score, lcs, alilength)` when `lcs >= 0` -/
def fcCompare (v : Variant) (lq : Nat) (c : Cand) : Option Nat → Option (Nat × Nat × Nat)
  | none => some (c.dist, c.lcs, c.ali)                          -- `FastLCSScore(…, -1)`
  | some e =>
    if e = 0 ∧ v = .tag2 then                                     -- obitag2 `case 0`: equal byte strings
      if c.dist = 0 then some (0, lq, lq) else none
    else if e ≤ 1 then                                            -- `D1Or0`
      match d1or0 c with
      | some d => some (d, max lq c.len - d, max lq c.len)
      | none => none
    else
      match boundedLCS c e with
      | some (l, a) => some (a - l, l, a)
      | none => none

/-- the body of the loop for a candidate that was compared with `lcs >= 0` -/
def fcUpdate (wm : Nat → Nat → Nat → Nat) (lq : Nat) (c : Cand) (i : Nat) (st : FCState)
    (score lcs ali : Nat) : FCState :=
  let better := match st.maxe with
    | none => true
    | some e => score < e
  let st1 : FCState :=
    if better then
      { maxe := some score, wordmin := wm lq c.len score, bestidxs := [],
        bestId := (lcs, ali), bestmatch := i }
    else st
  if st1.maxe = some score then
    let st2 := { st1 with bestidxs := st1.bestidxs ++ [i] }
    if idGt (lcs, ali) st2.bestId then { st2 with bestId := (lcs, ali), bestmatch := i } else st2
  else st1

/-- `for _, order := range o { if cw[order] < wordmin { break }; … }` -/
def fcLoop (wm : Nat → Nat → Nat → Nat) (v : Variant) (lq : Nat) (c : Nat → Cand) :
    List Nat → FCState → FCState
  | [], st => st
  | i :: rest, st =>
    if (c i).cw < st.wordmin then st
    else
      match fcCompare v lq (c i) st.maxe with
      | none => fcLoop wm v lq c rest st
      | some (score, lcs, ali) => fcLoop wm v lq c rest (fcUpdate wm lq (c i) i st score lcs ali)

/-- what `FindClosests` returns; `panic` : `references[o[0]]` on an empty data base (index out of range) -/
inductive FCOut where
  | panic
  | ok (maxe : Nat) (bestId : Nat × Nat) (bestmatch : Nat) (idxs : List Nat)
deriving Repr, DecidableEq

def findClosestsWith (wm : Nat → Nat → Nat → Nat) (v : Variant) (lq : Nat) (c : Nat → Cand) (o : List Nat) : FCOut :=
  match o with
  | [] => .panic
  | o0 :: _ =>
    let st := fcLoop wm v lq c o { maxe := none, wordmin := 0, bestidxs := [], bestId := (0, 1), bestmatch := o0 }
    match st.maxe, st.bestidxs with
    | some e, _ :: _ => .ok e st.bestId st.bestmatch st.bestidxs
    | _, _ => .panic          -- `references[bestidxs[0]]` (argument of the final log.Debugln)

/-- `FindClosests` of the repaired code -/
def findClosests := findClosestsWith wmNew

/-! ## `IndexSequence` -/

structure IxState where
  mini : Option Nat     -- `mini` (`none` = -1)
  wordmin : Int         -- `wordmin` (may be negative here)
deriving Repr, DecidableEq

/-- repaired threshold `lseq - 3 - 4*mini` -/
def thrNew (lseq _lcand mini : Nat) : Int := (lseq : Int) - 3 - 4 * (mini : Int)

/-- unrepaired threshold `max(sequence.Len(), references[order].Len()) - 3 - 4*mini` -/
def thrOld (lseq lcand mini : Nat) : Int := ((max lseq lcand : Nat) : Int) - 3 - 4 * (mini : Int)

/-- `errs` (`none` = 1e9) -/
def ixErrs (c : Cand) : Option Nat → Option Nat
  | none => some c.dist                                      -- `FastLCSScore(…, -1)`
  | some m => if m ≤ 1 then d1or0 c else (boundedLCS c m).map (fun la => la.2 - la.1)

/-- `if mini == -1 || errs < mini { mini = errs }` -/
def ixMin : Option Nat → Option Nat → Option Nat
  | some e, none => some e
  | some e, some m => if e < m then some e else some m
  | none, m => m

/-- `for _, order := range ow { if lca[order] == ancestor { …; if cw[order] < wordmin { break }; … } }` -/
def ixInner (thr : Nat → Nat → Nat → Int) (lseq : Nat) (c : Nat → Cand) (anc : Nat → Nat) (a : Nat) :
    List Nat → IxState → IxState
  | [], st => st
  | j :: rest, st =>
    if anc j = a then
      let wm := match st.mini with
        | some m => thr lseq (c j).len m
        | none => st.wordmin
      if ((c j).cw : Int) < wm then { st with wordmin := wm }
      else ixInner thr lseq c anc a rest { mini := ixMin (ixErrs (c j) st.mini) st.mini, wordmin := wm }
    else ixInner thr lseq c anc a rest st

/-- `for i, ancestor := range *pseq { …; mindiff[i] = mini }` : the list `mindiff` -/
def ixOuter (thr : Nat → Nat → Nat → Int) (lseq : Nat) (c : Nat → Cand) (anc : Nat → Nat) (ow : List Nat) :
    List Nat → IxState → List (Option Nat)
  | [], _ => []
  | a :: as, st =>
    let st' := ixInner thr lseq c anc a ow st
    st'.mini :: ixOuter thr lseq c anc ow as st'

/-- `old := lseq; for i, d := range mindiff { if d != -1 && d < old { index[d] = pseq[i]; old = d } }` :
the entries `(d, taxid)` in insertion order (the keys are strictly decreasing: no entry is overwritten) -/
def ixRecord : List Nat → List (Option Nat) → Nat → List (Nat × Nat)
  | a :: as, some d :: ds, old => if d < old then (d, a) :: ixRecord as ds d else ixRecord as ds old
  | _ :: as, none :: ds, old => ixRecord as ds old
  | _, _, _ => []

/-- `IndexSequence` once `lca[i]` (`anc`) and the root-first path `pseq` are known -/
def indexWith (thr : Nat → Nat → Nat → Int) (lseq : Nat) (c : Nat → Cand) (anc : Nat → Nat) (ow pseq : List Nat) :
    List (Nat × Nat) :=
  ixRecord pseq (ixOuter thr lseq c anc ow pseq { mini := none, wordmin := 0 }) lseq

def indexCore := indexWith thrNew

/-- `lca[i], _ = tseq.LCA(taxon)` for every reference -/
def lcaAll (t : Tax.Taxo) (fuel tseq : Nat) : List Nat → Tax.Res (List Nat)
  | [] => .ok []
  | x :: xs =>
    match Tax.lca t fuel tseq x with
    | .error e => .error e
    | .ok z => match lcaAll t fuel tseq xs with
      | .error e => .error e
      | .ok zs => .ok (z :: zs)

/-- `IndexSequence(seqidx, references, kmers, taxa, taxo)`; `taxids` = taxid of each reference -/
def indexSequence (t : Tax.Taxo) (fuel : Nat) (taxids : List Nat) (seqidx lseq : Nat) (c : Nat → Cand)
    (ow : List Nat) : Tax.Res (List (Nat × Nat)) :=
  let tseq := taxids.getD seqidx 0
  match lcaAll t fuel tseq taxids with
  | .error e => .error e
  | .ok lcas =>
    match Tax.path t fuel tseq with
    | .error e => .error e
    | .ok p => .ok (indexCore lseq c (fun j => lcas.getD j 0) ow p.reverse)

/-! ## `Identify` / `BestConsensus` -/

/-- `idx[d]` -/
def idxGet (idx : List (Nat × Nat)) (d : Nat) : Option Nat := (idx.find? (fun e => e.1 = d)).map (·.2)

/-- `for !ok && d >= 0 { identification, ok = idx[d]; d-- }` -/
def lookDown (idx : List (Nat × Nat)) : Nat → Option Nat
  | 0 => idxGet idx 0
  | d + 1 => match idxGet idx (d + 1) with
    | some t => some t
    | none => lookDown idx d

/-- `for !ok && d <= 1000 { identification, ok = idx[d]; d++ }` started at `d = -1`: the keys `0 … 1000`
upwards; `fuel` = number of keys still to try -/
def lookUp (idx : List (Nat × Nat)) : Nat → Nat → Option Nat
  | 0, _ => none
  | f + 1, d => match idxGet idx d with
    | some t => some t
    | none => lookUp idx f (d + 1)

/-- the "horrible hack" loop of `Identify` / `BestConsensus` on an index whose entries are all well-formed
(`taxid@name@rank` of a taxon of the taxonomy), closed form: the entry of the largest recorded distance `≤ d`;
if there is none the smallest recorded distance `≤ 1000` (upward scan); if there is none the next iteration of
the outer loop scans downwards from `d = 1001`, i.e. looks at the key 1001 (model repaired in the deepening
round: the key 1001 was missing); if that fails too the Go loop repeats the same two scans for ever.  The loop
itself is transcribed verbatim on the TEXT of the entries in `Model/TagSel.lean` (`selLoop`); the two are proved
equal in `Lemmas/TagSel.lean` (`selectText_wellformed`). -/
def selectEntry (idx : List (Nat × Nat)) (d : Nat) : Tax.Res Nat :=
  match lookDown idx d with
  | some t => .ok t
  | none => match lookUp idx 1001 0 with
    | some t => .ok t
    | none => match idxGet idx 1001 with
      | some t => .ok t
      | none => .error .hang

/-- `taxon = taxon.LCA(match_taxon)` over the best references -/
def consensus (t : Tax.Taxo) (fuel : Nat) : Option Nat → List Nat → Tax.Res (Option Nat)
  | acc, [] => .ok acc
  | none, m :: ms => consensus t fuel (some m) ms
  | some x, m :: ms =>
    match Tax.lca t fuel x m with
    | .error e => .error e
    | .ok z => consensus t fuel (some z) ms

/-- entries selected for each best reference (`index b` = `IndexSequence` of reference `b`) -/
def selectAll (index : Nat → Tax.Res (List (Nat × Nat))) (d : Nat) : List Nat → Tax.Res (List Nat)
  | [] => .ok []
  | b :: bs =>
    match index b with
    | .error e => .error e
    | .ok idx => match selectEntry idx d with
      | .error e => .error e
      | .ok m => match selectAll index d bs with
        | .error e => .error e
        | .ok ms => .ok (m :: ms)

inductive IdOut where
  | bad (b : Tax.Bad)
  | ok (taxid bestmatch count : Nat)
deriving Repr, DecidableEq

/-- `Identify` (obitag) / `FindClosests` + `BestConsensus` (obitag2): `fc` is the answer of `FindClosests`,
`index b` the index of reference `b`.  `identity >= 0.5` is `2*lcs >= alilength` (NaN, i.e. `0/0`: false). -/
def identify (t : Tax.Taxo) (fuel : Nat) (fc : FCOut) (index : Nat → Tax.Res (List (Nat × Nat))) : IdOut :=
  match fc with
  | .panic => .bad .panic
  | .ok maxe bestId bestmatch idxs =>
    if bestId.2 ≠ 0 ∧ 2 * bestId.1 ≥ bestId.2 then
      match selectAll index maxe idxs with
      | .error e => .bad e
      | .ok ms => match consensus t fuel none ms with
        | .error e => .bad e
        | .ok none => .bad .panic            -- `taxon.Taxid()` on a nil taxon (no best reference)
        | .ok (some z) => .ok z bestmatch idxs.length
    else
      match t.node 1 with                    -- `taxon, _ = taxo.Taxon(1)`; nil dereference if absent
      | some _ => .ok 1 bestmatch idxs.length
      | none => .bad .panic

/-! ## specification side: the LCS distance of two words over `a c g t` (textbook matrix, the ordering of the
packed cells of the kernel: larger score first, then shorter alignment) — used by the `qg`/`qgn` operations of
the driver to recompute the q-gram slack independently of the real kernel -/

def lcsBetter (x y : Nat × Nat) : Nat × Nat :=
  if x.1 > y.1 ∨ (x.1 = y.1 ∧ x.2 ≤ y.2) then x else y

def lcsRowGo (a : UInt8) : List UInt8 → Nat × Nat → List (Nat × Nat) → Nat × Nat → List (Nat × Nat)
  | bj :: bs, diag, up :: ups, left =>
    let d := (diag.1 + (if a = bj then 1 else 0), diag.2 + 1)
    let u := (up.1, up.2 + 1)
    let l := (left.1, left.2 + 1)
    let cell := lcsBetter d (lcsBetter u l)
    cell :: lcsRowGo a bs up ups cell
  | _, _, _, _ => []

def lcsRow (b : List UInt8) (prev : List (Nat × Nat)) (a : UInt8) : List (Nat × Nat) :=
  match prev with
  | [] => []
  | p0 :: ps => let first := (0, p0.2 + 1); first :: lcsRowGo a b p0 ps first

/-- `(lcs, alilength)` of the full matrix -/
def lcsPair (a b : Bytes) : Nat × Nat :=
  let row0 := (List.range (b.length + 1)).map (fun j => (0, j))
  ((a.foldl (lcsRow b) row0).getLast?).getD (0, 0)

/-- `common + 3 + 4*distance - max(|a|,|b|)` : the q-gram bound says `≥ 0` -/
def slack (a b : Bytes) : Int :=
  let p := lcsPair a b
  (common4 a b : Int) + 3 + 4 * ((p.2 - p.1 : Nat) : Int) - ((max a.length b.length : Nat) : Int)

end ObiVerif.Tag
