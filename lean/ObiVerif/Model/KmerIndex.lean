import ObiVerif.Model.Kmer
/-!
# Model of the k-mer index proper: `KmerMap.Push`, the indexing loop and final filter of `NewKmerMap`,
`KmerMap.Query`, `KmerMatch.FilterMinCount` (`pkg/obikmer/kmermap.go`) (C19)

A sequence (`*obiseq.BioSequence`) is identified by a natural number (the references are numbered 0, 1, … in
the order of the slice given to `NewKmerMap`).  The Go map `index map[T][]*BioSequence` is an association
list k-mer → list of identifiers.  `Query` sorts the collected pointers **by address**: the model is given
`rank`, the rank of the address of every sequence (data produced by the real run; `Lemmas/KmerIndexLim.lean`
proves that the answer does not depend on it).  `Query` is modelled **as repaired** by
`notes/patches/C19-query-self-last` (see `scanResult`).
-/
namespace ObiVerif.Kmer

abbrev Index := List (Nat × List Nat)

/-- `k.index[kmer]` (nil when missing) -/
def idxGet (idx : Index) (x : Nat) : List Nat := (idx.lookup x).getD []

/-- `k.index[kmer] = seqs` -/
def idxSet : Index → Nat → List Nat → Index
  | [], x, v => [(x, v)]
  | (y, u) :: t, x, v => if y = x then (y, v) :: t else (y, u) :: idxSet t x v

/-- `KmerMap.Push(sequence, maxocc)`: every canonical k-mer of the sequence (with repetitions) lists the
sequence, unless the k-mer already lists more than `maxocc` sequences (`maxocc = -1`: no limit) -/
def kmPush (m : KmerMap) (maxocc : Int) (idx : Index) (id : Nat) (s : Bytes) : Index :=
  (normalizedKmerSlice m s).foldl (fun idx kmer =>
    let seqs := idxGet idx kmer
    if maxocc = -1 ∨ (seqs.length : Int) ≤ maxocc then idxSet idx kmer (seqs ++ [id]) else idx) idx

/-- the indexing loop of `NewKmerMap`, from identifier `i` on -/
def kmPushAll (m : KmerMap) (maxocc : Int) : Index → Nat → List Bytes → Index
  | idx, _, [] => idx
  | idx, i, s :: t => kmPushAll m maxocc (kmPush m maxocc idx i s) (i + 1) t

/-- `NewKmerMap(sequences, k, sparse, maxoccurs)`: the index (the parameters are `newKmerMap`); when
`maxoccurs ≥ 0` the k-mers listing `maxoccurs` sequences or more are deleted -/
def newIndex (m : KmerMap) (maxocc : Int) (refs : List Bytes) : Index :=
  let idx := kmPushAll m maxocc [] 0 refs
  if maxocc ≥ 0 then idx.filter fun p => !decide ((p.2.length : Int) ≥ maxocc) else idx

/-- `Len` -/
def Index.len (idx : Index) : Nat := idx.length

/-- `sort.Slice(seqs, address order)`: equal ranks are equal pointers, so every sort gives this list (merge
sort of the Lean core library) -/
def sortRank (rank : Nat → Nat) (l : List Nat) : List Nat := l.mergeSort fun a b => decide (rank a ≤ rank b)

/-- Go map write on `KmerMatch` -/
def matchSet : List (Nat × Nat) → Nat → Nat → List (Nat × Nat)
  | [], x, v => [(x, v)]
  | (y, u) :: t, x, v => if y = x then (y, v) :: t else (y, u) :: matchSet t x v

/-- loop state of `Query`: `prevseq`, `n`, `rep` -/
structure Scan where
  prev : Option Nat
  n : Nat
  rep : List (Nat × Nat)

/-- one iteration of
```go
if seq != prevseq {
    if prevseq != nil && prevseq != sequence { rep[prevseq] = n }
    n = 1
    prevseq = seq
}
n++
```
(`n` restarts at 1 and is incremented for the first element too: a sequence met `c` times is recorded with
`c + 1`; the query sequence itself is not recorded). -/
def scanStep (qid : Nat) (st : Scan) (seq : Nat) : Scan :=
  let st : Scan :=
    if st.prev ≠ some seq then
      let rep := match st.prev with
        | some p => if p ≠ qid then matchSet st.rep p st.n else st.rep
        | none => st.rep
      ⟨some seq, 1, rep⟩
    else st
  { st with n := st.n + 1 }

/-- after the loop: `if prevseq != nil && prevseq != sequence { rep[prevseq] = n }` (**as repaired** by
`notes/patches/C19-query-self-last`: the unrepaired statement had no `prevseq != sequence` and reported the query
sequence itself exactly when its address was the largest of the matched ones) -/
def scanResult (qid : Nat) (st : Scan) : List (Nat × Nat) :=
  match st.prev with
  | some p => if p ≠ qid then matchSet st.rep p st.n else st.rep
  | none => st.rep

/-- `KmerMap.Query(sequence)`; `qid` identifies the query sequence (a number that is not a reference when the
query is not in the index) -/
def kmQuery (m : KmerMap) (idx : Index) (rank : Nat → Nat) (qid : Nat) (q : Bytes) : List (Nat × Nat) :=
  let seqs := (normalizedKmerSlice m q).flatMap fun kmer => idxGet idx kmer
  scanResult qid ((sortRank rank seqs).foldl (scanStep qid) ⟨none, 0, []⟩)

/-- `KmerMatch.FilterMinCount(mincount)` -/
def filterMinCount (rep : List (Nat × Nat)) (mincount : Int) : List (Nat × Nat) :=
  rep.filter fun p => !decide ((p.2 : Int) < mincount)

end ObiVerif.Kmer
