import ObiVerif.Model.TaxLoad
/-!
# The `ITaxonSet` iterator protocol of `pkg/obitax/iterator.go` and the pipelines built on it (C14, third pass)

`Model/TaxLoad.lean` models the filters of filter_on_subclade_of.go / filter_on_rank.go *drained* into a slice.
Here is the protocol underneath, as the code has it:

* an `ITaxonSet` is a handle `{source chan *TaxNode, current *TaxNode, finished bool, p_finished *bool}`; the
  producer goroutine of `TaxonSet.Iterator` / `TaxonSlice.Iterator` / of a filter sends the taxa one by one on
  the unbuffered channel `source` and closes it.  The state shared by a handle and all its `Split()`s is `Chan`:
  what the producer still has to send (`rest`, in sending order — the slice order, or Go's map order for a
  `TaxonSet`) and the flag `*p_finished`.
* `Next` : `if *p_finished {return false}; next, ok := <-source; if ok {current = next; return true};
  current = nil; *p_finished = true; return false` — `next`.
* `TaxonSlice()` / `TaxonSet()` : `for iterator.Next() { … iterator.Get() … }` — `drain` (with a fuel; running
  out of fuel is the outcome `none`, shown impossible with fuel `len + 1`) and `dedup`.
* `Split()` : a second handle on the same channel and the same `p_finished`; `runSched` runs any sequence of
  `Next` calls on the two handles (channel receives are atomic: a sequential interleaving is what two consumers
  can observe).
* obifind's `ITaxonRestrictions` : `rankfilter(iterator).IFilterBelongingSubclades(clades)` — `findRestrict`.

Taxa are their taxids (one `TaxNode` per taxid).
-/
namespace ObiVerif.TaxIter
open ObiVerif.Tax ObiVerif.TaxLoad

/-- the state shared by an iterator handle and its `Split()`s -/
structure Chan where
  rest : List Nat
  fin : Bool
deriving Repr, DecidableEq

/-- `TaxonSlice.Iterator()` / `TaxonSet.Iterator()` on the sending order `src` -/
def Chan.ofList (src : List Nat) : Chan := ⟨src, false⟩

/-- `iterator.Next()` on a handle whose `current` is `cur`: the answer, the new `current`, the shared state -/
def next (c : Chan) (cur : Option Nat) : Bool × Option Nat × Chan :=
  if c.fin then (false, cur, c)
  else match c.rest with
    | x :: r => (true, some x, { c with rest := r })
    | [] => (false, none, { c with fin := true })

/-- `for iterator.Next() { slice = append(slice, iterator.Get()) }` (`ITaxonSet.TaxonSlice`), `acc` reversed;
returns the slice, the `current` of the handle and the shared state afterwards -/
def drain : Nat → Chan → Option Nat → List Nat → Option (List Nat × Option Nat × Chan)
  | 0, _, _, _ => none
  | f + 1, c, cur, acc =>
    match next c cur with
    | (true, cur', c') => drain f c' cur' (match cur' with | some x => x :: acc | none => acc)
    | (false, cur', c') => some (acc.reverse, cur', c')

/-- `ITaxonSet.TaxonSlice()` on a fresh handle -/
def taxonSlice (c : Chan) : Option (List Nat × Option Nat × Chan) := drain (c.rest.length + 1) c none []

/-- the keys of `ITaxonSet.TaxonSet()` (`set[taxon.taxid] = taxon` for every taxon received): one per taxid -/
def dedup : List Nat → List Nat
  | [] => []
  | x :: r => if x ∈ r then dedup r else x :: dedup r

/-- two handles `a` (the iterator) and `b` (`a.Split()`): the shared state, the `current` of each, what each
has received so far (reversed) -/
structure Two where
  c : Chan
  curA : Option Nat
  curB : Option Nat
  gotA : List Nat
  gotB : List Nat
deriving Repr

def Two.start (src : List Nat) : Two := ⟨Chan.ofList src, none, none, [], []⟩

/-- one `if h.Next() { got = append(got, h.Get()) }`, `h` = `b` when `onB` -/
def step (s : Two) (onB : Bool) : Two :=
  if onB then
    match next s.c s.curB with
    | (true, some x, c') => { s with c := c', curB := some x, gotB := x :: s.gotB }
    | (_, cur', c') => { s with c := c', curB := cur' }
  else
    match next s.c s.curA with
    | (true, some x, c') => { s with c := c', curA := some x, gotA := x :: s.gotA }
    | (_, cur', c') => { s with c := c', curA := cur' }

/-- any sequence of `Next` calls on the two handles -/
def runSched (s : Two) (sched : List Bool) : Two := sched.foldl step s

/-- obifind `ITaxonRestrictions()(iterator)` drained: `IFilterRankRestriction` (the identity when `--rank` is
not given, i.e. the empty string) then `IFilterBelongingSubclades(clades)` (`clades`: the distinct resolved
`--restrict-to-taxon` values) -/
def findRestrict (t : Taxo) (fuel : Nat) (rank : String) (clades : List Nat) (src : List Nat) : Res (List Nat) :=
  filterBelonging t fuel clades (if rank = "" then src else filterRank t rank src)

end ObiVerif.TaxIter
