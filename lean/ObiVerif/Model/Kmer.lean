import ObiVerif.Gen.Tables
/-!
# Model of the 4-mer encoder / counter and of the canonical k-mer index (C19)

Transcription of `pkg/obikmer/encodefourmer.go` (`Encode4mer`), `counting.go` (`Count4Mer`) and
`kmermap.go` (`NewKmerMap`, `KmerMap.NormalizedKmerSlice`, `KmerMap.KmerAsString`) **as repaired** by the
patches `notes/patches/C19-encode4mer-short`, `C19-kmer-roll-mask`, `C19-kmermask-full-width`.

Machine words.  The k-mer index is generic over the fixed-width integers of `pkg/obifp`
(`Uint64/Uint128/Uint256`).  Here a word is a `Nat` below `2^W` and the obifp operations are used through
their arithmetic meaning, which is what property C20 proves of `Model/Fp.lean` (`u*_shl_exact`,
`u*_shr_exact`, limb-wise `Nat.land/lor`):
`LeftShift n = (x * 2^n) % 2^W`, `RightShift n = x / 2^n`, `And/Or = &&& / |||`, `Not = 2^W - 1 - x`,
`Sub` panics on underflow, `LessThan = <`.  The tables `iupac`, `revcompnuc`, `decode`,
`__single_base_code__` are the generated ones (`ObiVerif.Gen`).  Sequences are the stored (lower-case) bytes.
-/
namespace ObiVerif.Kmer

abbrev Bytes := List UInt8

/-- `obiutils.InPlaceToLower` (applied by `BioSequence.SetSequence`) -/
def lower (b : UInt8) : UInt8 := if 65 ≤ b.toNat ∧ b.toNat ≤ 90 then UInt8.ofNat (b.toNat + 32) else b

/-! ## 4-mers -/

/-- `__single_base_code__[b & 31]` (the table has 32 entries: the index is always in range) -/
def baseCode (b : UInt8) : Nat := Gen.singleBaseCode.getD (b.toNat % 32) 0

/-- second loop of `Encode4mer`: `code <<= 2; code |= tbl[...]; append` on a `byte` -/
def encode4Roll (code : Nat) : Bytes → List Nat
  | [] => []
  | b :: t =>
    let c := ((code * 4) % 256) ||| baseCode b
    c :: encode4Roll c t

/-- first loop of `Encode4mer`: `code <<= 2; code += tbl[...]` on a `byte`, four times -/
def encode4First (s : Bytes) : Nat :=
  (s.take 4).foldl (fun c b => ((c * 4) % 256 + baseCode b) % 256) 0

/-- `Encode4mer` (with `length <= 0 → nil`, patch C19-encode4mer-short; the unpatched test `length < 0`
let a 3-base sequence through to `rawseq[3]`: index out of range) -/
def encode4mer (s : Bytes) : List Nat :=
  if s.length < 4 then [] else
    let code := encode4First s
    code :: encode4Roll code (s.drop 4)

/-- `Count4Mer`: a table of 256 `uint16` cells, zeroed, then `counts[code]++` for every code -/
def count4mer (s : Bytes) : Array Nat :=
  (encode4mer s).foldl (fun t c => t.modify c (fun x => (x + 1) % 65536)) (Array.replicate 256 0)

/-! ## obifp words as naturals below `2^W` -/

def shl (W x n : Nat) : Nat := (x * 2 ^ n) % 2 ^ W
def shr (x n : Nat) : Nat := x / 2 ^ n
def notW (W x : Nat) : Nat := 2 ^ W - 1 - x
/-- `Sub`: `log.Panicf` on underflow -/
def subW (x y : Nat) : Except Unit Nat := if x < y then .error () else .ok (x - y)

/-! ## tables -/

/-- Go `iupac[b]` (a missing key gives the nil slice) -/
def iupac (b : Nat) : List Nat := (Gen.kmerIupac.lookup b).getD []
/-- Go `revcompnuc[b]` (a missing key gives 0) -/
def revcompnuc (b : Nat) : Nat := (Gen.kmerRevcompnuc.lookup b).getD 0
/-- Go `decode[c]` (a missing key gives 0) -/
def decode (c : Nat) : UInt8 := UInt8.ofNat ((Gen.kmerDecode.lookup c).getD 0)

/-! ## the k-mer index -/

structure KmerMap where
  W : Nat
  kmersize : Nat
  kmermask : Nat
  leftMask : Nat
  rightMask : Nat
  /-- `-1` in dense mode -/
  sparseAt : Int
  deriving Repr

/-- `NewKmerMap` (the part that fixes the parameters): `k` is made odd in sparse mode, even in dense mode;
`kmermask = ^(^0 << 2k)` (patch C19-kmermask-full-width; `(1 << 2k) - 1` panicked for `2k = W`) -/
def newKmerMap (W k : Nat) (sparse : Bool) : Except Unit KmerMap := do
  let k := if sparse && k % 2 == 0 then k + 1 else k
  let k := if !sparse && k % 2 == 1 then k - 1 else k
  let sparseAt : Int := if sparse then ((k / 2 : Nat) : Int) else -1
  let kmermask := notW W (shl W (notW W 0) (k * 2))
  if sparseAt ≥ 0 then
    if sparseAt ≥ (k : Int) then
      pure ⟨W, k, kmermask, 0, 0, -1⟩
    else
      let sp := sparseAt.toNat
      let pos := k - 1 - sp
      let left := sp * 2
      let right := pos * 2
      let l ← subW (shl W 1 left) 1
      let r ← subW (shl W 1 right) 1
      pure ⟨W, k, kmermask, shl W l (right + 2), r, sparseAt⟩
  else
    pure ⟨W, k, kmermask, 0, 0, sparseAt⟩

/-- `makeSparseAt` -/
def makeSparseAt (m : KmerMap) (kmer : Nat) : Nat :=
  if m.sparseAt = -1 then kmer else shr (kmer &&& m.leftMask) 2 ||| (kmer &&& m.rightMask)

/-- `normalizedKmer` -/
def normalizedKmer (m : KmerMap) (fw rv : Nat) : Nat :=
  let fw := makeSparseAt m fw
  let rv := makeSparseAt m rv
  if fw < rv then fw else rv

/-- loop state of `NormalizedKmerSlice` -/
structure Roll where
  current : Nat
  ccurrent : Nat
  size : Nat

/-- one iteration of the loop of `NormalizedKmerSlice`: the new state and the k-mer emitted, if any.
`ccode[0]` cannot fail: when `iupac[nuc]` has one element, `iupac[revcompnuc[nuc]]` has one too
(`Lemmas/Kmer.lean`, decided over the generated tables). -/
def rollStep (m : KmerMap) (st : Roll) (nuc : UInt8) : Roll × Option Nat :=
  let current := shl m.W st.current 2 &&& m.kmermask        -- patch C19-kmer-roll-mask: `.And(k.kmermask)`
  let ccurrent := shr st.ccurrent 2
  let code := iupac nuc.toNat
  let ccode := iupac (revcompnuc nuc.toNat)
  if code.length ≠ 1 then (⟨0, 0, 0⟩, none) else
    let current := current ||| code.headD 0
    let ccurrent := ccurrent ||| shl m.W (ccode.headD 0) (2 * (m.kmersize - 1))
    let size := st.size + 1
    if size = m.kmersize then
      (⟨current, ccurrent, size - 1⟩, some (normalizedKmer m current ccurrent))
    else (⟨current, ccurrent, size⟩, none)

def rollLoop (m : KmerMap) : Roll → Bytes → List Nat
  | _, [] => []
  | st, b :: t =>
    match rollStep m st b with
    | (st', some x) => x :: rollLoop m st' t
    | (st', none) => rollLoop m st' t

/-- `KmerMap.NormalizedKmerSlice` (nil and the empty slice are both `[]`) -/
def normalizedKmerSlice (m : KmerMap) (s : Bytes) : List Nat :=
  if s.length < m.kmersize then [] else rollLoop m ⟨0, 0, 0⟩ s

/-- loop of `KmerAsString`; `j1 = j + 1` (the Go index `j` ends at -1) -/
def kmerStrLoop (m : KmerMap) : Nat → Nat → Nat → Array UInt8 → Array UInt8
  | 0, _, _, buff => buff
  | n + 1, kmer, j1, buff =>
    let buff := buff.setIfInBounds (j1 - 1) (decode (kmer &&& 3))
    let j1 := j1 - 1
    let (buff, j1) :=
      if m.sparseAt ≥ 0 ∧ (j1 : Int) - 1 = m.sparseAt then (buff.setIfInBounds (j1 - 1) 35, j1 - 1) else (buff, j1)
    kmerStrLoop m n (shr kmer 2) j1 buff

/-- `KmerMap.KmerAsString` -/
def kmerAsString (m : KmerMap) (kmer : Nat) : Bytes :=
  let ks := if m.sparseAt ≥ 0 then m.kmersize - 1 else m.kmersize
  (kmerStrLoop m ks kmer m.kmersize (Array.replicate m.kmersize 0)).toList

end ObiVerif.Kmer
