import ObiVerif.Model.WriterWfile
/-!
# The glue between the commands and the writers, seen from the batches (C04)

`pkg/obiformats/universal_write.go` `WriteSequence` — the writer every command reaches through
`obiconvert.CLIWriteBioSequences` when no output format is forced — PEEKS at the iterator before it starts a writer:

```go
ok := iterator.Next()
if ok {
    batch := iterator.Get()
    iterator.PushBack()
    if len(batch.Slice()) > 0 {
        if batch.Slice()[0].HasQualities() { WriteFastq(iterator, file, …) } else { WriteFasta(iterator, file, …) }
    } else { WriteFasta(iterator, file, …) }
}
if iterator.Finished() { return iterator, nil }
return obiiter.NilIBioSequence, fmt.Errorf("input iterator not ready")
```

The iterator object (`obiiter/batchiterator.go`, `_IBioSequence`) is modelled as its consumer sees it: the batches
still to come out of `channel` (in the order they will come out; then the channel is closed), `current`, the
`pushBack` flag, `finished`.  `PushBack()` can give back ONE batch, the current one: a peek that calls `Next()` more
than once loses the batches read before the last one, and the re-sequencing writer downstream then waits for ever for
their numbers (`skipping_peek_loses` in `Props/C04G.lean`).

`WriteFasta` / `WriteFastq` (`fastseq_write_fasta.go`, `fastseq_write_fastq.go`) then start the formatting workers:
`go ff(iterator)` for the first one, `go ff(iterator.Split())` for the others.  `Split()` shares the channel and the
`finished` flag but has a fresh `pushBack` flag and no current batch: the pushed-back batch is redelivered by the
FIRST worker only.  Each worker loops `for iterator.Next() { batch := iterator.Get(); chunkchan <- format(batch) … }`:
a worker that holds a batch may be overtaken by another one before it sends its chunk.  `Pool` is that transition
system; `sent` is the arrival history at the writer goroutine (the `arr` of `WriterFmt.writeFile`).

`obiconvert.CLIWriteBioSequences` (`pkg/obitools/obiconvert/sequence_writer.go`) is transcribed in `Cli` / `cliOne` /
`cliWrite`: the format options (`CLIOutputFormat`: fastq, else fasta, else json, else guessed = `WriteSequence`), file or
standard output, the second file of a paired iterator, `--skip-empty` (not passed to a paired file).
-/
set_option Elab.async false
namespace ObiVerif.WriterPeek
open ObiVerif.WriterFmt ObiVerif.Reseq ObiVerif.WriterWfile

/-- a batch: `(order, records)`; the slice of a batch that went through `Push` is never nil (`Push` panics on it) -/
abbrev Batch := Nat × List Rec

/-- `_IBioSequence` as seen by the goroutine that consumes it -/
structure It where
  chan : List Batch               -- what is still to be received from `channel`, in reception order; then closed
  current : Option Batch := none  -- `none` = `NilBioSequenceBatch`
  pushBack : Bool := false
  finished : Bool := false

/-- a fresh iterator whose producer(s) deliver `arr` -/
def It.ofArrival (arr : List Batch) : It := { chan := arr }

/-- `IBioSequence.Next()` -/
def It.next (it : It) : Bool × It :=
  if it.pushBack then (true, { it with pushBack := false })
  else if it.finished then (false, it)
  else match it.chan with
    | b :: rest => (true, { it with chan := rest, current := some b })
    | [] => (false, { it with current := none, finished := true })

/-- `IBioSequence.PushBack()`: `if !current.IsNil() { pushBack.Set() }` -/
def It.pushBackOp (it : It) : It := if it.current.isSome then { it with pushBack := true } else it

/-- `IBioSequence.Get()` -/
def It.get (it : It) : Option Batch := it.current

/-- `BioSequence.HasQualities()`: `qualities != nil && len(qualities) > 0` -/
def hasQual (r : Rec) : Bool :=
  match r.qual with
  | some (_ :: _) => true
  | _ => false

/-- the format test of `WriteSequence` on the batch returned by `Get()` -/
def pick (b : Option Batch) : Kind :=
  match b with
  | some (_, r :: _) => if hasQual r then .fastq else .fasta
  | _ => .fasta

inductive Started
  | start (k : Kind) (it : It)     -- `WriteFastq` / `WriteFasta` called on `it`
  | nothing                        -- `return iterator, nil`: no writer is started, the output is not touched
  | notReady                       -- `fmt.Errorf("input iterator not ready")`

/-- `WriteSequence`, down to the call of the writer -/
def writeSequence (it : It) : Started :=
  let r := it.next
  if r.1 then .start (pick r.2.get) r.2.pushBackOp
  else if r.2.finished then .nothing
  else .notReady

/-! ## the formatting workers of `WriteFasta` / `WriteFastq` / `WriteJSON` -/

/-- the workers and what they share: worker 0 runs on the iterator itself, workers 1, 2, … on `Split()`s of it -/
structure Pool where
  chan : List Batch             -- shared channel
  pb : Option Batch             -- the batch the first `Next()` of worker 0 redelivers (`pushBack` set)
  hold : List (Nat × Batch)     -- worker ↦ the batch it received and has not yet sent to `chunkchan`
  sent : List Batch             -- what the writer goroutine has received from `chunkchan`, in order

/-- the pool started on iterator `it` -/
def Pool.ofIt (it : It) : Pool :=
  { chan := if it.finished then [] else it.chan, pb := if it.pushBack then it.current else none, hold := [], sent := [] }

/-- one step of worker `w`: it sends the chunk of the batch it holds, or else calls `Next()` (worker 0: the
pushed-back batch first; everybody: the head of the channel; nothing left: the worker ends) -/
def Pool.step (p : Pool) (w : Nat) : Pool :=
  match lookupK w p.hold with
  | some b => { p with hold := eraseK w p.hold, sent := p.sent ++ [b] }
  | none =>
    match (if w = 0 then p.pb else none) with
    | some b => { p with pb := none, hold := (w, b) :: p.hold }
    | none =>
      match p.chan with
      | b :: rest => { p with chan := rest, hold := (w, b) :: p.hold }
      | [] => p

def Pool.run (p : Pool) (sched : List Nat) : Pool := sched.foldl Pool.step p

/-- every worker has seen `Next()` return false and holds nothing -/
def Pool.done (p : Pool) : Bool := p.chan.isEmpty && p.pb.isNone && p.hold.isEmpty

/-- the schedule of a single worker that takes and sends `m` batches (used by the executable model) -/
def soloSched (m : Nat) : List Nat := List.replicate (2 * m) 0

/-! ## `CLIWriteBioSequences` -/

/-- what `CLIWriteBioSequences` reads from the options and the iterator -/
structure Cli where
  format : Option Kind      -- `CLIOutputFormat()`: `--fastq-output`, else `--fasta-output`, else `--json-output`; `none` = guessed
  toFile : Bool             -- `CLIOutPutFileName() != "-"` or a file name argument: `…ToFile`, else `…ToStdout`
  paired : Bool             -- `iterator.IsPaired()`
  skipEmpty : Bool          -- `CLISkipEmpty()`
  shift : UInt8 := 33       -- `obioptions.OutputQualityShift()`

/-- `CLIOutputFormat()` from the three option flags -/
def outputFormat (fastq fasta json : Bool) : Option Kind :=
  if fastq then some .fastq else if fasta then some .fasta else if json then some .json else none

/-- the options received by the writer of format `k` (`--skip-empty` does not reach a paired file) -/
def Cli.cfg (c : Cli) (k : Kind) : Cfg :=
  { kind := k, shift := c.shift, skipEmpty := cliSkipEmpty (c.toFile && c.paired) c.skipEmpty }

/-- one output stream: `arr` = the batches in the order the iterator handed to `Write…` delivers them, `sched` = the
schedule of the formatting workers.  `none` = a formatter died / the dead error branch; `some []` for a result without
any batch when the format is guessed: the file was created and is left empty, no writer is started. -/
def cliOne (c : Cli) (arr : List Batch) (sched : List Nat) : Option B :=
  match c.format with
  | some k => writeFile (c.cfg k) ((Pool.ofIt (It.ofArrival arr)).run sched).sent
  | none =>
    match writeSequence (It.ofArrival arr) with
    | .start k it => writeFile (c.cfg k) ((Pool.ofIt it).run sched).sent
    | .nothing => some []
    | .notReady => none

/-- `CLIWriteBioSequences`: the file of the records and, for a paired iterator written to files, the `_R2` file of the
mates, read through `PairedWith()` from the iterator returned by the first writer (own arrival order `arr2`) -/
def cliWrite (c : Cli) (arr1 arr2 : List (Nat × PBatch)) (s1 s2 : List Nat) : Option B × Option (Option B) :=
  (cliOne c (arr1.map fun a => (a.1, a.2.map Prod.fst)) s1,
   if c.toFile && c.paired then some (cliOne c (arr2.map fun a => (a.1, a.2.map Prod.snd)) s2) else none)

/-! ## the regression the seeded changes make: a peek that looks for the first non-empty batch -/

/-- `for batch.Len() == 0 && iterator.Next() { batch = iterator.Get() }` (fuel = number of batches) -/
def skipEmptyBatches : Nat → It → It
  | 0, it => it
  | fuel + 1, it =>
    match it.get with
    | some (_, []) =>
      let r := it.next
      if r.1 then skipEmptyBatches fuel r.2 else r.2
    | _ => it

/-- `WriteSequence` with that loop between `Get()` and `PushBack()` (NOT the code of /repo) -/
def writeSequenceSkipping (it : It) : Started :=
  let r := it.next
  if r.1 then
    let it2 := skipEmptyBatches r.2.chan.length r.2
    .start (pick it2.get) it2.pushBackOp
  else if r.2.finished then .nothing
  else .notReady

end ObiVerif.WriterPeek
