import ObiVerif.Model.PEArena
/-!
# `PEAlign`, fast mode, on everything the arena holds (C08, third round)

`Model/PEArena.lean` (`peAlignFastFromB`) runs the local fill over the flat matrices and `_Backtracking` over
the path buffer, but (a) takes the result of the 4-mer vote as an argument, (b) in the "identical overlap"
branch models only the returned path, and (c) extends the path as a list.  Here the rest of the state that
one `obipairing` worker reuses from pair to pair is transcribed:

* `arena.fastIndex`: the 256 position lists of `obikmer.Index4mer` — `(*index)[i] = (*index)[i][:0]` for
  **every** `i < 256`, then `append` — starting from whatever the previous forward read left (`index4mer`);
* `FastShiftFourMer` reading the position lists (`shiftCountsIdx`) and its `shifts` map, emptied by the
  `delete` of the selection loop (`voteLoop`);
* the path **slice**: after `_Backtracking` it is the window `(*path)[p:cap]` at the END of the arena
  buffer (`len = cap`: every `append` reallocates), in the identical-overlap branch it is
  `append(arena.path[:0], 0, partLen)` — the window `[0,2)` at the START of the arena buffer when that buffer has
  at least two cells, `append(path, extra3, 0)` then writes cells 2 and 3 in place when there are four — and the
  extension statements `path[0] += extra5`, `path[len-2] += extra3` read and write **through the buffer**.

`Lemmas/PEFastArena.lean` proves the result independent of all of it (`peAlignFastC_eq`).
-/
namespace ObiVerif.PEAlign

/-! ## `Index4mer` -/

/-- `arena.fastIndex` -/
abbrev FIndex := Array (List Nat)

/-- `for i := 0; i < 256; i++ { (*index)[i] = (*index)[i][:0] }` -/
def clearIndex (idx : FIndex) : FIndex := (List.range 256).foldl (fun ix i => ix.setIfInBounds i []) idx

/-- `(*index)[code] = append((*index)[code], pos)` -/
def indexPush (ix : FIndex) (pc : Nat × UInt8) : FIndex :=
  ix.setIfInBounds pc.2.toNat (ix.getD pc.2.toNat [] ++ [pc.1])

/-- `Index4mer` after `Encode4mer` (`ka`): a new index when the slice is too short, every cell emptied, then
the positions appended in increasing order -/
def index4mer (idx0 : FIndex) (ka : List UInt8) : FIndex :=
  let idx := if idx0.size < 256 then Array.replicate 256 [] else idx0
  (enumFrom 0 ka).foldl indexPush (clearIndex idx)

/-- the counting loop of `FastShiftFourMer`: `for pos, code := range kb { for _, refpos := range index[code] {…} }`
on the map `m0` it is handed -/
def shiftCountsIdx (idx : FIndex) (kb : List UInt8) (m0 : List (Int × Nat)) : List (Int × Nat) :=
  (enumFrom 0 kb).foldl (fun acc (pb : Nat × UInt8) =>
    (idx.getD pb.2.toNat []).foldl (fun acc (refpos : Nat) => bump ((refpos : Int) - (pb.1 : Int)) acc) acc) m0

/-- the selection loop `for shift, count := range *shifts { delete(*shifts, shift); … }`: state = (best so far,
what is left in the map) -/
def voteLoop (rel : Bool) (la lb : Nat) : List (Int × Nat) → Vote × List (Int × Nat) → Vote × List (Int × Nat)
  | [], st => st
  | e :: t, (v, m) => voteLoop rel la lb t (voteStep rel la lb v e, m.filter (fun x => x.1 ≠ e.1))

/-- `FastShiftFourMer(index, shifts, lindex, seq, relscore, nil)`: the vote and the map it leaves -/
def fastShiftIdx (rel : Bool) (la lb : Nat) (idx : FIndex) (kb : List UInt8) (m0 : List (Int × Nat)) :
    Vote × List (Int × Nat) :=
  let m := shiftCountsIdx idx kb m0
  voteLoop rel la lb m (⟨0, 0, -1, 1⟩, m)

/-! ## the path slice -/

/-- where the local `path` slice lives: a window of the arena buffer, or an array of its own -/
inductive PLoc where
  | arena (off len : Nat)
  | fresh (data : List Int)
  deriving Repr, DecidableEq

def plLen : PLoc → Nat
  | .arena _ len => len
  | .fresh d => d.length

/-- `path[k]` -/
def plGet (buf : List Int) : PLoc → Nat → Int
  | .arena off _, k => buf.getD (off + k) 0
  | .fresh d, k => d.getD k 0

/-- the slice as a list (what the caller receives) -/
def plList (buf : List Int) : PLoc → List Int
  | .arena off len => (buf.drop off).take len
  | .fresh d => d

/-- `path[k] = v` -/
def plSet (buf : List Int) : PLoc → Nat → Int → List Int × PLoc
  | .arena off len, k, v => (buf.set (off + k) v, .arena off len)
  | .fresh d, k, v => (buf, .fresh (d.set k v))

/-- `path = append(path, x, y)`: in place when the capacity — the end of the arena buffer — allows it -/
def plAppend2 (buf : List Int) : PLoc → Int → Int → List Int × PLoc
  | .arena off len, x, y =>
    if off + len + 2 ≤ buf.length then ((buf.set (off + len) x).set (off + len + 1) y, .arena off (len + 2))
    else (buf, .fresh ((buf.drop off).take len ++ [x, y]))
  | .fresh d, x, y => (buf, .fresh (d ++ [x, y]))

/-- `if path[0]*extra5 < 0 { path = append([]int{extra5, 0}, path...) } else { path[0] += extra5 }`,
reading `path[0]` through the slice -/
def extend5C (extra5 : Int) (buf : List Int) (pl : PLoc) : List Int × PLoc :=
  let p0 := plGet buf pl 0
  if p0 * extra5 < 0 then (buf, PLoc.fresh (extra5 :: 0 :: plList buf pl)) else plSet buf pl 0 (p0 + extra5)

/-- `if path[len-1] == 0 && path[len-2]*extra3 >= 0 { path[len-2] += extra3 } else { path = append(path, extra3, 0) }` -/
def extend3C (extra3 : Int) (buf : List Int) (pl : PLoc) : List Int × PLoc :=
  let n := plLen pl
  let last := plGet buf pl (n - 1)
  let prev := plGet buf pl (n - 2)
  if last = 0 ∧ prev * extra3 ≥ 0 then plSet buf pl (n - 2) (prev + extra3) else plAppend2 buf pl extra3 0

/-- the two extension statements of `PEAlign` (fast mode); `none` = index out of range (a path of fewer than
two cells) -/
def extendC (extra5 extra3 : Int) (buf : List Int) (pl : PLoc) : Option (List Int × PLoc) :=
  if plLen pl < 2 then none
  else
    let st1 := extend5C extra5 buf pl
    some (extend3C extra3 st1.1 st1.2)

/-- `path = arena.pointer.path[:0]; path = append(path, 0, partLen)` -/
def identicalPath (buf : List Int) (partLen : Int) : List Int × PLoc :=
  if 2 ≤ buf.length then ((buf.set 0 0).set 1 partLen, .arena 0 2) else (buf, .fresh [0, partLen])

/-- the window `(*path)[p:cap]` returned by `_Backtracking`: the last `path.length` cells of the buffer -/
def backWindow (buf : Array Int) (path : Path) : PLoc := .arena (buf.size - path.length) path.length

/-- `PEAlign`, fast mode after the vote, on the whole arena; returns the result, the matrices and the path
buffer as the call leaves them -/
def peAlignFastFromC (s : Nat → Nat → Int) (g : Int) (la lb : Nat) (delta : Nat) (shift count : Int) (ar : Arena) :
    Option (PERes × Mats × List Int) :=
  let ov := over la lb shift
  let local_ : Option ((Bool × Int × Int × Int) × Mats × List Int × PLoc) :=
    if count < 1 ∨ count + 3 < ov then
      if shift > 0 then
        let startA := (shift - delta).toNat
        if startA > la then none
        else
          let lra := la - startA
          let partLen := min lra lb
          match fillLeftB (fun i j => s (startA + i) j) g lra partLen ar with
          | some (r, a1) => some ((true, r.score, -(startA : Int), (lb : Int) - partLen), a1.m, a1.path.toList, backWindow a1.path r.path)
          | none => none
      else
        let startB := (-shift - delta).toNat
        if startB > lb then none
        else
          let lrb := lb - startB
          let partLen := min lrb la
          match fillRightB (fun i j => s i (startB + j)) g partLen lrb ar with
          | some (r, a1) => some ((false, r.score, (startB : Int), (partLen : Int) - la), a1.m, a1.path.toList, backWindow a1.path r.path)
          | none => none
    else
      if shift > 0 then
        let startA := shift.toNat
        if startA > la then none
        else
          let partLen := la - startA
          if partLen > lb then none
          else
            let ip := identicalPath ar.path.toList (partLen : Int)
            some ((true, diagScore s partLen startA 0, -(startA : Int), (lb : Int) - partLen), ar.m, ip.1, ip.2)
      else
        let startB := (-shift).toNat
        if startB > lb then none
        else
          let partLen := lb - startB
          if partLen > la then none
          else
            let ip := identicalPath ar.path.toList (partLen : Int)
            some ((false, diagScore s partLen 0 startB, (startB : Int), (partLen : Int) - la), ar.m, ip.1, ip.2)
  match local_ with
  | some ((isLeft, score, extra5, extra3), m, buf, pl) =>
    match extendC extra5 extra3 buf pl with
    | some (buf', pl') => some (⟨isLeft, score, plList buf' pl'⟩, m, buf')
    | none => none
  | none => none

/-- everything one worker keeps from pair to pair -/
structure FastArena where
  ar : Arena
  idx : FIndex
  shifts : List (Int × Nat)

structure FastOut where
  res : PERes
  vote : Vote
  m : Mats
  pathBuf : List Int
  idx : FIndex
  shifts : List (Int × Nat)

/-- `PEAlign(seqA, seqB, gap, scale, true, delta, fastScoreRel, arena, shift_buff)` -/
def peAlignFastC (s : Nat → Nat → Int) (g : Int) (rel : Bool) (a b : Bytes) (delta : Nat) (fa : FastArena) :
    Option FastOut :=
  let idx := index4mer fa.idx (encode4mer a)
  let (v, sh) := fastShiftIdx rel a.length b.length idx (encode4mer b) fa.shifts
  match peAlignFastFromC s g a.length b.length delta v.shift v.count fa.ar with
  | some (r, m, buf) => some ⟨r, v, m, buf, idx, sh⟩
  | none => none

end ObiVerif.PEAlign
