import ObiVerif.Model.KmerIndex
/-!
# Model of the GLUE of the commands obikmersimcount / obikmermatch (C19, glue pass)

Transcription of `pkg/obitools/obikmersim/options.go` (the option variables and their getters) and
`obikmersim.go` (`CLILookForSharedKmers`, `CLIAlignSequences`, `MakeCountMatchWorker`, the candidate selection of
`MakeKmerAlignWorker`) together with the three lines of `cmd/obitools/obikmersimcount/main.go` /
`obikmermatch/main.go` that choose the reads (`--self`: the references themselves), **as repaired** by
`notes/patches/C19-kmersim-kmer-too-large` (`checkKmerSize`: the unrepaired commands answered with every canonical
k-mer equal to 0 when the effective k-mer size needs more than 128 bits, e.g. `--kmer-size 64 --sparse`).

Steps between the command line and the kernel, as the code has them:
1. `--kmer-size` (`-k`) (default 30) → `uint(_KmerSize)`; `--sparse` (`-S`); `--min-shared-kmers` (`-m`) (default 1);
   `--max-kmers` (`-M`) (default -1); `--self` (`-s`); `--reference` (`-r`) (one file);
2. `CLIReference()`: the references, in file order;
3. `NewKmerMap[obifp.Uint128](references, uint(CLIKmerSize()), CLISparseMode(), CLIMaxKmerOccurs())`: the WORD TYPE is
   the constant `Uint128` (`wordWidth`), the k-mer size is adjusted by `NewKmerMap` itself (`newKmerMap`);
4. `checkKmerSize(kmerMatch.Kmersize)`: `log.Fatalf` when `2 × Kmersize > 128`;
5. the reads: with `--self` `IBatchOver(references)` — the SAME records, so that `Query` skips the record itself —
   otherwise the records of the input;
6. per read (`MakeCountMatchWorker`): `Query`, `FilterMinCount(CLIMinSharedKmers())`, `Len` → `obikmer_match_count`,
   `k.Kmersize` → `obikmer_kmer_size`, `k.SparseAt >= 0` → `obikmer_sparse_kmer`; the worker returns the read itself, always
   (nothing is dropped by `FilterEmpty`); `MakeKmerAlignWorker`: the same `Query` + `FilterMinCount`, `n = len(candidates)`
   → `obikmer_match_count` of every record written for the read, one record at most per candidate
   (`obikmer_match_id`), kept when the alignment passes (`obialign`: property C08, not modelled here).
-/
namespace ObiVerif.KmerSim
open ObiVerif.Kmer

/-- the option variables of `options.go` after the parse; the defaults are the initial values of the variables -/
structure Opts where
  /-- `uint(_KmerSize)` -/
  kmerSize : Nat := 30
  sparse : Bool := false
  minShared : Int := 1
  maxOcc : Int := -1
  self : Bool := false
  deriving Repr

/-- the type argument of `obikmer.NewKmerMap[obifp.Uint128]` in both command functions -/
def wordWidth : Nat := 128

inductive Out (α : Type) where
  /-- `log.Fatalf` of `checkKmerSize` -/
  | fatal
  /-- `log.Panicf` of `obifp.Sub` inside `NewKmerMap` (sparse sizes of 128 bases and more) -/
  | panic
  | ok (a : α)
  deriving Repr

def Out.isFatal {α : Type} : Out α → Bool
  | .fatal => true
  | _ => false

/-- steps 3–4: the parameters of the index as the command derives them -/
def cliKmerMap (o : Opts) : Out KmerMap :=
  match newKmerMap wordWidth o.kmerSize o.sparse with
  | .error _ => .panic
  | .ok m => if 2 * m.kmersize > wordWidth then .fatal else .ok m

/-- what `MakeCountMatchWorker` writes on a read -/
structure Rec where
  matchCount : Nat
  kmerSize : Nat
  sparseKmer : Bool
  deriving Repr, DecidableEq

/-- `matches := k.Query(sequence); matches.FilterMinCount(minKmerCount)` -/
def candidates (m : KmerMap) (idx : Index) (rank : Nat → Nat) (minShared : Int) (qid : Nat) (q : Bytes) :
    List (Nat × Nat) :=
  filterMinCount (kmQuery m idx rank qid q) minShared

/-- `MakeCountMatchWorker(k, minKmerCount)(sequence)` -/
def countWorker (m : KmerMap) (idx : Index) (rank : Nat → Nat) (minShared : Int) (qid : Nat) (q : Bytes) : Rec :=
  ⟨(candidates m idx rank minShared qid q).length, m.kmersize, decide (m.sparseAt ≥ 0)⟩

/-- step 5: the reads with their identity: reference `i` itself with `--self`, otherwise fresh records numbered after
the references -/
def queries (o : Opts) (refs reads : List Bytes) : List (Nat × Bytes) :=
  if o.self then (List.range refs.length).zip refs
  else (List.range reads.length).map (fun i => (refs.length + i, reads.getD i []))

/-- `CLILookForSharedKmers` (obikmersimcount): one record per read, in order -/
def cliLookForSharedKmers (o : Opts) (rank : Nat → Nat) (refs reads : List Bytes) : Out (List Rec) :=
  match cliKmerMap o with
  | .fatal => .fatal
  | .panic => .panic
  | .ok m =>
    let idx := newIndex m o.maxOcc refs
    .ok ((queries o refs reads).map fun q => countWorker m idx rank o.minShared q.1 q.2)

/-- `CLIAlignSequences` (obikmermatch), up to the alignment: for every read the candidate references (sorted) — the
records written for the read carry `obikmer_match_count = ` their number and name distinct candidates -/
def cliAlignCandidates (o : Opts) (rank : Nat → Nat) (refs reads : List Bytes) : Out (List (List Nat)) :=
  match cliKmerMap o with
  | .fatal => .fatal
  | .panic => .panic
  | .ok m =>
    let idx := newIndex m o.maxOcc refs
    .ok ((queries o refs reads).map fun q => (candidates m idx rank o.minShared q.1 q.2).map Prod.fst)

end ObiVerif.KmerSim
