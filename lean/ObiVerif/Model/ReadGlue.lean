import ObiVerif.Model.ReadErr
import ObiVerif.Model.ReadMulti
/-!
# The glue between the commands and the readers (C17, fifth pass)

`CLIReadBioSequences` (pkg/obitools/obiconvert/sequence_reader.go) expands its arguments into a list of files
(`ExpandListOfFiles`), chooses the per-file reader (`ReadSequencesFromFile`, or `ReadFastaFromFile`, … when the
format is forced) and

* no argument: reads the standard input;
* exactly one file: calls the reader itself (an error returned → `OpenSequenceDataErrorMessage` → exit 1), plus the
  reader of `--paired-with`;
* two files or more: hands the list to `ReadSequencesBatchFromFiles` (pkg/obiformats/batch_of_files_reader.go):
  `concurrent_readers` goroutines take file names from a channel, call the reader (an error returned →
  `log.Panicf`), and push the batches of the file, renumbered with a shared counter, on the common iterator.

What one reader makes of one file is a `FileRes`; the multi-file plumbing is a small-step transition system over the
states of the reader goroutines, every interleaving being a path of `Step`.
-/
namespace ObiVerif.ReadGlue
open ObiVerif.ReadErr

/-- what a per-file reader (`IBatchReader`) does with one file -/
inductive FileRes (β : Type) where
  /-- it returns `(obiiter.NilIBioSequence, err)` -/
  | openErr
  /-- it dies in `log.Fatalf` before returning (`ReadSequencesFromFile` when `Ropen` fails) -/
  | openFatal
  /-- it returns an iterator that delivers the batches `bs` and then ends normally (`.ok`), or the process dies in the
  `log.Fatalf` of the chunk reader of that file (`.fatal`) - at the latest when the batches have been consumed -/
  | stream (bs : List β) (fin : Outcome)
  deriving DecidableEq, Repr

/-- the file is not a complete, readable input -/
def FileRes.faulted {β : Type} : FileRes β → Bool
  | .stream _ .ok => false
  | _ => true

def FileRes.batches {β : Type} : FileRes β → List β
  | .stream bs _ => bs
  | _ => []

/-- `ReadSequencesFromFile` (the format is guessed: 1 MiB peek) or one of `ReadFastaFromFile`, `ReadFastqFromFile`,
`ReadEMBLFromFile`, `ReadGenbankFromFile`, `ReadEcoPCRFromFile` (--fasta, …: no peek, the error of `Ropen` is returned) -/
inductive Mode | guess | forced
  deriving DecidableEq, Repr

/-- the per-file reader over the decompressed stream `s` of the file (see `ReadErr.readFile`, of which this is the
refinement that tells an error RETURNED from a `log.Fatalf`): `Ropen` reads the first rune: a clean end there is
`ErrNoContent` → `ReadEmptyFile` (an iterator without batch), another error is returned by `Ropen` (→ `log.Fatalf` in
`ReadSequencesFromFile`, returned by the forced readers); then `OBIMimeTypeGuesser` returns the error met in its
peek; then the chunk reader of the format runs -/
def openFile (mode : Mode) (split : Bytes → Int) (peek bufsz : Nat) (s : Stream) : FileRes Bytes :=
  if s.data.length = 0 then
    if s.final = .eof then .stream [] .ok
    else match mode with
      | .guess => .openFatal
      | .forced => .openErr
  else match mode with
    | .forced => let r := readChunks split bufsz s; .stream r.1 r.2
    | .guess =>
      match guessPeek peek s with
      | .fatal => .openErr
      | .ok =>
        let s' : Stream := if peek ≤ s.data.length then s else ⟨s.data, .eof⟩
        let r := readChunks split bufsz s'
        .stream r.1 r.2

/-- the four ways a reader ends on a file -/
inductive FileClass | openErr | openFatal | streamFatal | good
  deriving DecidableEq, Repr

def FileRes.cls {β : Type} : FileRes β → FileClass
  | .openErr => .openErr
  | .openFatal => .openFatal
  | .stream _ .fatal => .streamFatal
  | .stream _ .ok => .good

/-- closed form of `(openFile …).cls` (proved: `Props.C17Glue.openFile_cls`): only the length of the decompressed
stream, its final error and the size of the peek matter -/
def openClass (mode : Mode) (peek n : Nat) (e : Err) : FileClass :=
  if n = 0 then
    (if e = .eof then .good else match mode with | .guess => .openFatal | .forced => .openErr)
  else if e = .eof then .good
  else match mode with
    | .forced => .streamFatal
    | .guess => if n < peek then .openErr else .streamFatal

/-! ## `ReadSequencesBatchFromFiles` -/

/-- one of the `concurrent_readers` goroutines -/
inductive RState (β : Type) where
  /-- at `for filename := range filenameChan` -/
  | idle
  /-- in `for iter.Next()` on a file whose batches `rest` are still to come and which ends with `fin` -/
  | reading (rest : List β) (fin : Outcome)
  /-- after `batchiter.Done()` -/
  | done
  deriving Repr

structure St (β : Type) where
  /-- the file names not yet taken from `filenameChan` (what their reader will make of them) -/
  queue : List (FileRes β)
  readers : List (RState β)
  /-- `nextCounter` -/
  counter : Nat
  /-- the batches pushed on `batchiter` so far, with their new order number -/
  out : List (Nat × β)
  /-- the process died: `log.Panicf` of the plumbing or `log.Fatalf` of a reader -/
  dead : Bool

def init {β : Type} (files : List (FileRes β)) (nreader : Nat) : St β :=
  ⟨files, List.replicate nreader .idle, 0, [], false⟩

/-- one move of one reader goroutine (the one between `l` and `t`); a dead process does not move -/
inductive Step {β : Type} : St β → St β → Prop where
  /-- `iter, err := reader(filename)`: `err != nil` → `log.Panicf` (or the reader died in `log.Fatalf` itself) -/
  | takeBad (f : FileRes β) (q : List (FileRes β)) (l t : List (RState β)) (c : Nat) (out : List (Nat × β)) :
      (f = .openErr ∨ f = .openFatal) →
      Step ⟨f :: q, l ++ .idle :: t, c, out, false⟩ ⟨q, l ++ .idle :: t, c, out, true⟩
  /-- the reader returned an iterator -/
  | take (bs : List β) (fin : Outcome) (q : List (FileRes β)) (l t : List (RState β)) (c : Nat) (out : List (Nat × β)) :
      Step ⟨.stream bs fin :: q, l ++ .idle :: t, c, out, false⟩ ⟨q, l ++ .reading bs fin :: t, c, out, false⟩
  /-- `batchiter.Push(batch.Reorder(nextCounter()))` -/
  | push (b : β) (rest : List β) (fin : Outcome) (q : List (FileRes β)) (l t : List (RState β)) (c : Nat)
      (out : List (Nat × β)) :
      Step ⟨q, l ++ .reading (b :: rest) fin :: t, c, out, false⟩ ⟨q, l ++ .reading rest fin :: t, c + 1, out ++ [(c, b)], false⟩
  /-- end of a complete file: back to the channel of file names -/
  | fileEnd (q : List (FileRes β)) (l t : List (RState β)) (c : Nat) (out : List (Nat × β)) :
      Step ⟨q, l ++ .reading [] .ok :: t, c, out, false⟩ ⟨q, l ++ .idle :: t, c, out, false⟩
  /-- the chunk reader of a faulted file meets the fault: `log.Fatalf`, at any moment (its goroutine runs ahead of
  the consumer), at the latest when all the batches before the fault have been consumed: the iterator never ends -/
  | die (rest : List β) (q : List (FileRes β)) (l t : List (RState β)) (c : Nat) (out : List (Nat × β)) :
      Step ⟨q, l ++ .reading rest .fatal :: t, c, out, false⟩ ⟨q, l ++ .reading rest .fatal :: t, c, out, true⟩
  /-- `filenameChan` is closed and drained: `batchiter.Done()` -/
  | finish (l t : List (RState β)) (c : Nat) (out : List (Nat × β)) :
      Step ⟨[], l ++ .idle :: t, c, out, false⟩ ⟨[], l ++ .done :: t, c, out, false⟩

/-- the states an execution can reach -/
inductive Reach {β : Type} (s0 : St β) : St β → Prop where
  | start : Reach s0 s0
  | next {a b : St β} : Reach s0 a → Step a b → Reach s0 b

def RState.isDone {β : Type} : RState β → Bool
  | .done => true
  | _ => false

/-- `batchiter.WaitAndClose()` returns: every reader called `Done()`; the command then ends with status 0 -/
def St.endedOk {β : Type} (s : St β) : Prop := s.dead = false ∧ ∀ r ∈ s.readers, r.isDone = true

/-! ### executable form (the driver runs it on a schedule) -/

/-- the move of reader `i`, if it has one; `early`: a reader of a faulted file dies before its batches are consumed -/
def stepAt {β : Type} (early : Bool) (i : Nat) (s : St β) : Option (St β) :=
  if s.dead then none else
  match s.readers.take i, s.readers.drop i with
  | l, .idle :: t =>
    (match s.queue with
     | [] => some ⟨[], l ++ .done :: t, s.counter, s.out, false⟩
     | .stream bs fin :: q => some ⟨q, l ++ .reading bs fin :: t, s.counter, s.out, false⟩
     | _ :: q => some ⟨q, l ++ .idle :: t, s.counter, s.out, true⟩)
  | l, .reading [] .ok :: t => some ⟨s.queue, l ++ .idle :: t, s.counter, s.out, false⟩
  | l, .reading (b :: rest) fin :: t =>
    if early && fin == .fatal then some ⟨s.queue, l ++ .reading (b :: rest) fin :: t, s.counter, s.out, true⟩
    else some ⟨s.queue, l ++ .reading rest fin :: t, s.counter + 1, s.out ++ [(s.counter, b)], false⟩
  | l, .reading [] .fatal :: t => some ⟨s.queue, l ++ .reading [] .fatal :: t, s.counter, s.out, true⟩
  | _, _ => none

/-- the first of the readers `0 .. k-1` (highest index first) that can move -/
def firstMove {β : Type} (early : Bool) (s : St β) : Nat → Option (St β)
  | 0 => none
  | k + 1 =>
    match stepAt early k s with
    | some s' => some s'
    | none => firstMove early s k

/-- the move of reader `i` if it has one, else of the first reader that has one -/
def pick {β : Type} (early : Bool) (s : St β) (i : Nat) : Option (St β) :=
  match stepAt early i s with
  | some s' => some s'
  | none => firstMove early s s.readers.length

/-- run with the schedule `sched` (the reader asked to move at each turn, cyclically; when it cannot move, another one
that can) until no reader can move -/
def run {β : Type} (early : Bool) : Nat → List Nat → St β → St β
  | 0, _, s => s
  | fuel + 1, sched, s =>
    match pick early s (sched.headD 0) with
    | none => s
    | some s' => run early fuel (sched.tail ++ sched.take 1) s'

/-- fuel enough for every execution (`Props.C17Glue.step_measure`) -/
def measure {β : Type} (s : St β) : Nat :=
  if s.dead then 0 else
  1 + (s.queue.map (fun f => f.batches.length + 3)).sum +
    (s.readers.map (fun r => match r with | .idle => 1 | .reading rest _ => rest.length + 2 | .done => 0)).sum

/-! ## `CLIReadBioSequences` -/

/-- outcome of a command: status 0 with the batches it was given (in the order of their numbers), or not 0 -/
inductive CmdOut (β : Type) where
  | fatal
  | ok (batches : List β)
  deriving Repr

/-- what the argument list expands to (`ExpandListOfFiles`), see `expand` below: an error (a path that cannot be
opened) or the list of files -/
def cliRead {β : Type} (early : Bool) (sched : List Nat) (nreader : Nat) (expanded : Option (List (FileRes β)))
    (paired : Option (FileRes β)) : CmdOut β :=
  match expanded with
  | none => .fatal            -- `return NilIBioSequence, err` → OpenSequenceDataErrorMessage → os.Exit(1)
  | some [] => .fatal         -- `list_of_files[0]`: index out of range (arguments given, no file found)
  | some [f] =>
    (match f with
     | .stream bs .ok =>
       (match paired with
        | none => .ok bs
        | some (.stream _ .ok) => .ok bs    -- PairTo: the batches of `f` paired with those of the second file
        | some _ => .fatal)
     | _ => .fatal)           -- error returned → exit 1; log.Fatalf of the reader
  | some fs =>
    -- two files or more: `--paired-with` is ignored
    let s0 := init fs nreader
    let s := run early (measure s0) sched s0
    if s.dead then .fatal else .ok (s.out.map Prod.snd)

/-! ## `ExpandListOfFiles` -/

/-- a path that is not a directory -/
inductive Leaf where
  | file (path : String)
  /-- a path that does not exist / a dangling symbolic link -/
  | bad (path : String)
  deriving Repr

/-- one argument of the command -/
inductive Entry where
  | leaf (l : Leaf)
  /-- a directory and the non-directory paths `filepath.Walk` finds under it, at any depth, in the order of the walk
  (inside a directory `check_ext` is true at every depth: the sub-directories need no separate treatment; the files a
  sub-directory adds twice - once by the recursive call, once by the walk going on into it - are added once to the
  ordered set) -/
  | dir (path : String) (under : List Leaf)
  deriving Repr

/-- the suffixes accepted inside a directory -/
def seqSuffixes : List String :=
  ["fasta", "fasta.gz", "fastq", "fastq.gz", "seq", "seq.gz", "gb", "gb.gz", "dat", "dat.gz", "ecopcr", "ecopcr.gz"]

def hasSeqSuffix (path : String) : Bool :=
  seqSuffixes.any (fun s => s.toList.isSuffixOf path.toList)

/-- `list_of_files.Add(path)` (an ordered set) -/
def addNew (acc : List String) (p : String) : List String := if acc.contains p then acc else acc ++ [p]

/-- the call-back of `filepath.Walk` on a path that is not a directory -/
def walkLeaf (checkExt : Bool) (acc : List String) : Leaf → Option (List String)
  | .bad _ => none
  | .file p => some (if !checkExt || hasSeqSuffix p then addNew acc p else acc)

def walkLeaves (acc : List String) : List Leaf → Option (List String)
  | [] => some acc
  | x :: xs =>
    match walkLeaf true acc x with
    | none => none
    | some a => walkLeaves a xs

/-- the loop over the arguments.  As in the code, `check_ext` is a variable of the whole call: once an argument was a
directory it stays true for the arguments that follow -/
def walkArgs (checkExt : Bool) (acc : List String) : List Entry → Option (List String)
  | [] => some acc
  | .leaf x :: es =>
    (match walkLeaf checkExt acc x with
     | none => none
     | some a => walkArgs checkExt a es)
  | .dir _ xs :: es =>
    (match walkLeaves acc xs with
     | none => none
     | some a => walkArgs true a es)

/-- `ExpandListOfFiles(false, filenames...)` -/
def expand (args : List Entry) : Option (List String) := walkArgs false [] args

end ObiVerif.ReadGlue
