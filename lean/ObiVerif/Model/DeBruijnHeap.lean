import ObiVerif.Model.DeBruijn
/-!
# `container/heap` over `UInt64Heap`, and `HaviestPath` on that queue (C19)

Verbatim (index-loop) transcription of the Go standard library `container/heap` (`up`, `down`, `Push`, `Pop`)
instantiated on `obikmer.UInt64Heap` (`Less(i,j) = h[i] < h[j]`, `Swap`, `Push` = append, `Pop` = remove the
last element), as used by `DeBruijnGraph.HaviestPath` (`heap.Init` on the empty heap, `heap.Push`, `heap.Pop`).
The slice is an `Array Nat`.  The two loops have a fuel argument (structural recursion); the fuel handed by
`heapPush` / `heapPop` is the length of the slice, which the number of iterations cannot exceed (the index is
halved / at least doubled at every turn): `Lemmas/DeBruijnHeap.lean` proves that the result is the heap the Go
loop computes (heap order restored), so the fuel is never the reason for stopping.

`hpLoopH` … `Graph.heaviestPathH` are `hpLoop` … `Graph.heaviestPath` of `Model/DeBruijn.lean` with the sorted
list replaced by this binary heap; `Lemmas/DeBruijnHeap.lean` proves them equal for every graph and fuel.
-/
namespace ObiVerif.DeBruijn

/-- `h.Swap(i, j)` -/
def swapA (a : Array Nat) (i j : Nat) : Array Nat :=
  (a.setIfInBounds i (a.getD j 0)).setIfInBounds j (a.getD i 0)

/-- `up(h, j)`:
```go
for { i := (j - 1) / 2 // parent
      if i == j || !h.Less(j, i) { break }
      h.Swap(i, j); j = i }
```
(`(j-1)/2` is 0 for `j = 0` in Go — truncated division of -1 — and in `Nat`). -/
def heapUp : Nat → Array Nat → Nat → Array Nat
  | 0, a, _ => a
  | fuel + 1, a, j =>
    let i := (j - 1) / 2
    if i = j ∨ ¬ (a.getD j 0 < a.getD i 0) then a else heapUp fuel (swapA a i j) i

/-- `down(h, i0, n)` (the boolean result is not used by `Pop`):
```go
i := i0
for { j1 := 2*i + 1
      if j1 >= n || j1 < 0 { break }
      j := j1
      if j2 := j1 + 1; j2 < n && h.Less(j2, j1) { j = j2 }
      if !h.Less(j, i) { break }
      h.Swap(i, j); i = j }
```
-/
def heapDown : Nat → Array Nat → Nat → Nat → Array Nat
  | 0, a, _, _ => a
  | fuel + 1, a, i, n =>
    let j1 := 2 * i + 1
    if j1 ≥ n then a else
      let j := if j1 + 1 < n ∧ a.getD (j1 + 1) 0 < a.getD j1 0 then j1 + 1 else j1
      if ¬ (a.getD j 0 < a.getD i 0) then a else heapDown fuel (swapA a i j) j n

/-- `heap.Push(h, x)`: `h.Push(x); up(h, h.Len()-1)` -/
def heapPush (a : Array Nat) (x : Nat) : Array Nat :=
  let a := a.push x
  heapUp a.size a (a.size - 1)

/-- `heap.Pop(h)`: `n := h.Len() - 1; h.Swap(0, n); down(h, 0, n); return h.Pop()` (`none`: empty heap, the
Go code would panic with an index out of range; `HaviestPath` only pops when `len(*queue) > 0`) -/
def heapPop (a : Array Nat) : Option (Nat × Array Nat) :=
  if a.size = 0 then none else
    let n := a.size - 1
    let a := heapDown a.size (swapA a 0 n) 0 n
    some (a.getD n 0, a.pop)

/-- state of `HaviestPath` with the real queue -/
structure HPH where
  dist : List (Nat × Nat)
  visited : List (Nat × Nat)
  prev : List (Nat × Nat)
  queue : Array Nat
  hNode : Nat
  hWeight : Nat

/-- `relax` on the binary heap -/
def relaxH (g : Graph) (cur : Nat) : List Nat → HPH → HPH
  | [], h => h
  | nx :: t, h =>
    let w := g.weight nx + getD0 h.dist cur
    if getD0 h.dist nx < w then
      let h : HPH := { h with dist := setKV h.dist nx w, prev := setKV h.prev nx cur,
                              visited := setKV h.visited nx 0, queue := heapPush h.queue nx }
      let h : HPH := if w > h.hWeight then { h with hWeight := w, hNode := nx } else h
      relaxH g cur t h
    else relaxH g cur t h

/-- `hpLoop` on the binary heap -/
def hpLoopH (g : Graph) : Nat → HPH → Option HPH
  | 0, h => if h.queue.isEmpty then some h else none
  | fuel + 1, h =>
    match heapPop h.queue with
    | none => some h
    | some (cur, q) =>
      let h : HPH := { h with queue := q }
      if getD0 h.visited cur = 1 then hpLoopH g fuel h else
        let h : HPH := { h with visited := setKV h.visited cur 1 }
        let weight := getD0 h.dist cur
        let h : HPH := if weight > h.hWeight then { h with hWeight := weight, hNode := cur } else h
        hpLoopH g fuel (relaxH g cur (g.succ cur) h)

/-- `hpInit` on the binary heap -/
def hpInitH (g : Graph) : HPH :=
  g.heads.foldl (fun h n => { h with queue := heapPush h.queue n, dist := setKV h.dist n (g.weight n),
                                     prev := setKV h.prev n 0, visited := setKV h.visited n 0 })
    ⟨[], [], [], #[], 0, 0⟩

/-- `HaviestPath`, the queue being the transcription of `container/heap` -/
def Graph.heaviestPathH (g : Graph) (fuel : Nat) : HPOut :=
  match g.hasCycle with
  | none => .fuel
  | some true => .nil
  | some false =>
    match hpLoopH g fuel (hpInitH g) with
    | none => .fuel
    | some h => hpBack g.heads h.prev (g.nodes.length + 2) h.hNode []

/-- `LongestConsensus(id, 0)` over `heaviestPathH` -/
def Graph.longestConsensusH (g : Graph) (fuel : Nat) : ConsOut :=
  if g.nodes.isEmpty then .err else
    match g.heaviestPathH fuel with
    | .fuel => .fuel
    | .panic => .panic
    | .nil => .err
    | .path p => let s := g.decodePath p; if s.isEmpty then .err else .seq s

end ObiVerif.DeBruijn
