/-!
# Model of the C reader behind `obiconvert < file` (C17): kseq.h over zlib `gzread`

`pkg/obiformats/kseq/kseq.h` (`ks_getc`, `ks_getuntil`, `kseq_read`), `fastseq_read.c`
(`next_fast_sek`) and the loop of `_FastseqReader` (fastseq_read.go).

The byte source is the sequence of the results of the successive `gzread(f, buf, bufsize)` calls
(`Rd`): a full buffer, a short one (`0 ≤ n < bufsize`, which makes kseq set `is_eof`) or `-1`.  `reads`
computes that sequence for a stream = bytes + final status, as zlib delivers it:
`clean` (Z_OK / Z_STREAM_END), `trunc` (all the bytes that could be decoded, then Z_BUF_ERROR) or `hard`
(Z_DATA_ERROR, Z_ERRNO …: the call in which the error is met returns -1 and its bytes are lost).

The kstream state is `cur` = `buf[begin .. end)`, `is_eof`, `buf[0]` (the byte `ks_getc` returns once more
after a failed `gzread`, because it stores -1 in `ks->end` and only tests `end == 0`) and the reads to come.
-/
namespace ObiVerif.Kseq

abbrev Bytes := List UInt8

/-- what `gzerror` says once the end of the stream has been reached -/
inductive Fin | clean | trunc | hard
  deriving DecidableEq, Repr

/-- result of one `gzread(f, buf, bufsize)` -/
inductive Rd
  | full (c : UInt8) (r : Bytes)   -- n = bufsize (≥ 1) bytes
  | short (b : Bytes)              -- 0 ≤ n < bufsize
  | fail                           -- n = -1
  deriving Repr

/-- the `gzread` results for the stream `d` + `fin`, buffer size `bufsz`; fuel = `d.length + 1` -/
def reads (bufsz : Nat) (fin : Fin) : Nat → Bytes → List Rd
  | 0, _ => [.fail]
  | fuel+1, d =>
    if bufsz ≤ d.length ∧ 0 < bufsz then
      match d.take bufsz with
      | c :: r => .full c r :: reads bufsz fin fuel (d.drop bufsz)
      | [] => [.short []]
    else if fin = .hard then [.fail] else [.short d]

structure KS where
  cur : Bytes
  isEof : Bool
  buf0 : UInt8
  next : List Rd

def rdSize : Rd → Nat
  | .full _ r => r.length + 2
  | .short b => b.length + 1
  | .fail => 1

def nextSize : List Rd → Nat
  | [] => 0
  | r :: rs => rdSize r + nextSize rs

/-- termination measure: everything `ks_getc` can still return -/
def size (ks : KS) : Nat := ks.cur.length + nextSize ks.next

/-- `ks_getc` (with the byte returned as an unsigned char); `none` = -1 -/
def getc (ks : KS) : Option UInt8 × KS :=
  match ks.cur with
  | c :: r => (some c, { ks with cur := r })
  | [] =>
    if ks.isEof then (none, ks) else
    match ks.next with
    | [] => (none, { ks with isEof := true })
    | .full c r :: rest => (some c, ⟨r, false, c, rest⟩)
    | .short [] :: rest => (none, ⟨[], true, ks.buf0, rest⟩)
    | .short (c :: r) :: rest => (some c, ⟨r, true, c, rest⟩)
    -- `ks->end = -1; if (ks->end < bufsize) is_eof = 1; if (ks->end == 0) return -1;` is not taken:
    -- `buf[0]` of the previous fill is returned, `begin` becomes 1 (> end)
    | .fail :: rest => (some ks.buf0, ⟨[], true, ks.buf0, rest⟩)

/-- the `for (;;)` loop of `ks_getuntil`: string so far, delimiter met (0 = none), state -/
def guLoop (isSep : UInt8 → Bool) : List Rd → Bytes → Bool → UInt8 → Bytes → Bytes × UInt8 × KS
  | next, cur, isEof, buf0, acc =>
    let acc := acc ++ cur.takeWhile (fun c => !isSep c)
    match cur.dropWhile (fun c => !isSep c) with
    | d :: r => (acc, d, ⟨r, isEof, buf0, next⟩)
    | [] =>
      if isEof then (acc, 0, ⟨[], true, buf0, next⟩) else
      match next with
      | [] => (acc, 0, ⟨[], true, buf0, []⟩)
      -- end = -1: nothing is copied, begin = 1, next turn breaks on is_eof
      | .fail :: rest => (acc, 0, ⟨[], true, buf0, rest⟩)
      | .short b :: rest => guLoop isSep rest b true (b.headD buf0) acc
      | .full c r :: rest => guLoop isSep rest (c :: r) false c acc

structure GU where
  ret : Int
  str : Bytes
  dret : UInt8
  ks : KS

/-- `ks_getuntil(ks, delimiter, str, &dret)` -/
def getuntil (isSep : UInt8 → Bool) (ks : KS) : GU :=
  if ks.cur.isEmpty && ks.isEof then ⟨-1, [], 0, ks⟩
  else
    let r := guLoop isSep ks.next ks.cur ks.isEof ks.buf0 []
    ⟨r.1.length, r.1, r.2.1, r.2.2⟩

/-- `isspace` in the C locale -/
def isSpace (c : UInt8) : Bool := c == 32 || (9 ≤ c && c ≤ 13)
/-- `isgraph` in the C locale -/
def isGraph (c : UInt8) : Bool := 33 ≤ c && c ≤ 126

theorem getc_lt {ks ks' : KS} {c : UInt8} (h : getc ks = (some c, ks')) : size ks' < size ks := by
  unfold getc at h
  split at h
  · rename_i c0 r hc
    simp only [Prod.mk.injEq] at h
    obtain ⟨_, rfl⟩ := h
    simp [size, hc]
  · rename_i hc
    split at h
    · simp at h
    · split at h <;> simp only [Prod.mk.injEq, reduceCtorEq, false_and] at h
      all_goals (obtain ⟨_, rfl⟩ := h; simp_all [size, nextSize, rdSize]; try omega)

theorem getc_le (ks : KS) : size (getc ks).2 ≤ size ks := by
  unfold getc
  split
  · rename_i c0 r hc; simp [size, hc]
  · rename_i hc
    split
    · exact Nat.le_refl _
    · split <;> (simp_all [size, nextSize, rdSize]; try omega)

theorem getc_none_eof {ks ks' : KS} (h : getc ks = (none, ks')) : ks'.isEof = true := by
  unfold getc at h
  split at h
  · simp at h
  · split at h
    · rename_i he
      simp only [Prod.mk.injEq, true_and] at h
      subst h; exact he
    · split at h <;> simp only [Prod.mk.injEq, reduceCtorEq, false_and, true_and] at h
      all_goals (subst h; rfl)

/-- `while ((c = ks_getc(ks)) != -1 && c != '>' && c != '@');` -/
def skipToHeader (ks : KS) : Option UInt8 × KS :=
  match h : getc ks with
  | (none, ks') => (none, ks')
  | (some c, ks') => if c == 62 || c == 64 then (some c, ks') else skipToHeader ks'
termination_by size ks
decreasing_by all_goals exact getc_lt h

/-- `while ((c = ks_getc(ks)) != -1 && c != '>' && c != '+' && c != '@') if (isgraph(c)) seq += c` -/
def seqLoop (ks : KS) (acc : Bytes) : Option UInt8 × Bytes × KS :=
  match h : getc ks with
  | (none, ks') => (none, acc, ks')
  | (some c, ks') =>
    if c == 62 || c == 43 || c == 64 then (some c, acc, ks')
    else if isGraph c then seqLoop ks' (acc ++ [c]) else seqLoop ks' acc
termination_by size ks
decreasing_by all_goals exact getc_lt h

/-- `while ((c = ks_getc(ks)) != -1 && c != '\n');` -/
def skipLine (ks : KS) : Option UInt8 × KS :=
  match h : getc ks with
  | (none, ks') => (none, ks')
  | (some c, ks') => if c == 10 then (some c, ks') else skipLine ks'
termination_by size ks
decreasing_by all_goals exact getc_lt h

/-- `while ((c = ks_getc(ks)) != -1 && qual.l < seq.l) if (c >= 33 && c <= 127) qual += c` -/
def qualLoop (n : Nat) (ks : KS) (acc : Bytes) : Bytes × KS :=
  match h : getc ks with
  | (none, ks') => (acc, ks')
  | (some c, ks') =>
    if acc.length < n then
      (if 33 ≤ c && c ≤ 127 then qualLoop n ks' (acc ++ [c]) else qualLoop n ks' acc)
    else (acc, ks')
termination_by size ks
decreasing_by all_goals exact getc_lt h

structure Rec where
  name : Bytes
  comment : Bytes
  seq : Bytes
  qual : Bytes
  deriving Repr

structure St where
  lastChar : UInt8
  ks : KS

/-- `kseq_read` from `seq->comment.l = seq->seq.l = seq->qual.l = 0;` on; `lc` = `seq->last_char` -/
def kseqBody (lc : UInt8) (ks : KS) : Int × Rec × St :=
  let g := getuntil isSpace ks
  if g.ret < 0 then (-1, ⟨[], [], [], []⟩, ⟨lc, g.ks⟩) else
  let cm := if g.dret != 10 then getuntil (fun c => c == 10) g.ks else ⟨0, [], 0, g.ks⟩
  let s := seqLoop cm.ks []
  let lc2 := match s.1 with
    | some c => if c == 62 || c == 64 then c else lc
    | none => lc
  if s.1 != some 43 then ((s.2.1.length : Int), ⟨g.str, cm.str, s.2.1, []⟩, ⟨lc2, s.2.2⟩) else
  let k := skipLine s.2.2
  match k.1 with
  | none => (-2, ⟨g.str, cm.str, s.2.1, []⟩, ⟨lc2, k.2⟩)
  | some _ =>
    let q := qualLoop s.2.1.length k.2 []
    if s.2.1.length != q.1.length then (-2, ⟨g.str, cm.str, s.2.1, q.1⟩, ⟨0, q.2⟩)
    else ((s.2.1.length : Int), ⟨g.str, cm.str, s.2.1, q.1⟩, ⟨0, q.2⟩)

/-- `kseq_read`: ≥ 0 length of the sequence, -1 end of file, -2 truncated quality string -/
def kseqRead (st : St) : Int × Rec × St :=
  if st.lastChar == 0 then
    let h := skipToHeader st.ks
    match h.1 with
    | none => (-1, ⟨[], [], [], []⟩, ⟨0, h.2⟩)
    | some c => kseqBody c h.2
  else kseqBody st.lastChar st.ks

/-- `gzerror` after a call of `kseq_read`: once kseq has seen a short or failed `gzread` the end of the
stream has been reached and the final status is known; before that zlib, which decodes ahead of what it
delivers, may (`early`) or may not have met the damage already -/
def errnum (fin : Fin) (early : Bool) (ks : KS) : Fin :=
  if ks.isEof || early then fin else .clean

/-- `next_fast_sek`: > 0 a record was read (the value is a file offset, here 1), 0 regular end,
-1 error of the stream, -2 quality shorter than the sequence, -4 record without sequence -/
def nextFastSek (fin : Fin) (early : Bool) (st : St) : Int × Rec × St :=
  let r := kseqRead st
  if r.1 ≤ 0 then
    let l : Int :=
      if errnum fin early r.2.2.ks != .clean then -1
      else if r.1 == -1 then 0
      else if r.1 == 0 then -4
      else r.1
    (l, r.2.1, r.2.2)
  else (1, r.2.1, r.2.2)

inductive Outcome
  | ok
  | fatal (code : Int)
  | stuck   -- a positive answer of `next_fast_sek` that consumed nothing (proved impossible: `readLoop_not_stuck`)
  deriving DecidableEq, Repr

/-- `for l := next_fast_sek(); l != 0; l = next_fast_sek() { if l < 0 { log.Fatalf } … }` of
`_FastseqReader`: the records read and the outcome -/
def readLoop (fin : Fin) (early : Bool) (st : St) (acc : List Rec) : List Rec × Outcome :=
  let r := nextFastSek fin early st
  if r.1 == 0 then (acc, .ok)
  else if r.1 < 0 then (acc, .fatal r.1)
  else if h : size r.2.2.ks < size st.ks then readLoop fin early r.2.2 (acc ++ [r.2.1])
  else (acc, .stuck)
termination_by size st.ks

/-- state after `kseq_init`: empty buffer (`junk` = the uninitialised `buf[0]`), `last_char = 0` -/
def initSt (bufsz : Nat) (fin : Fin) (junk : UInt8) (d : Bytes) : St :=
  ⟨0, ⟨[], false, junk, reads bufsz fin (d.length + 1) d⟩⟩

/-- the whole reader on a stream -/
def readAll (bufsz : Nat) (fin : Fin) (early : Bool) (junk : UInt8) (d : Bytes) : List Rec × Outcome :=
  readLoop fin early (initSt bufsz fin junk d) []

/-! ## what `_FastseqReader` makes of the C strings -/

/-- `C.GoString`: up to the first NUL -/
def goString (b : Bytes) : Bytes := b.takeWhile (fun c => c != 0)

def trimRightCR (b : Bytes) : Bytes := (b.reverse.dropWhile (fun c => c == 13)).reverse
def trimLeftBlank (b : Bytes) : Bytes := b.dropWhile (fun c => c == 32 || c == 9)

def toLower (c : UInt8) : UInt8 := if 65 ≤ c && c ≤ 90 then c + 32 else c

/-- identifier, definition, sequence (lower case), quality characters of the BioSequence built from a record -/
def goRec (r : Rec) : Bytes × Bytes × Bytes × Bytes :=
  (goString r.name,
   if r.comment.length > 0 then trimLeftBlank (trimRightCR (goString r.comment)) else [],
   r.seq.map toLower,
   r.qual)

end ObiVerif.Kseq
