import ObiVerif.Model.Pcr
/-!
# C11 model, second part: the annotations of a reported amplicon and `CLIPCR` end to end

* `annotate` — the annotation map `_Pcr` (`pkg/obiapat/pcr.go`, both orientation blocks) leaves on an amplicon: the
  annotations of the template (`Subsequence` copies them, `obiutils.MustFillMap(annot, reference.Annotations())` writes them
  again), then, in this order, `forward_primer`, `forward_match`, `forward_error`, `reverse_primer`, `reverse_match`,
  `reverse_error`, `direction` — a template annotation carrying one of these seven names is overwritten.
  `forward_primer` / `reverse_primer` are `ApatPattern.String()` = the Go string given to `MakeApatPattern`, verbatim (not
  upper-cased, not cut at a NUL).  In BOTH blocks `forward_*` speaks of the forward primer and `reverse_*` of the reverse
  primer: in the reverse block the direct site is the reverse primer's (`reverse_match` as it is in the template,
  `reverse_error = fm[2]`) and the complemented site is the forward primer's (`forward_match` reverse-complemented,
  `forward_error = rm[2]`) — `emitReverse` of `Model/Pcr.lean`.
* `cliPieces` / `cliRun` — `obipcr.CLIPCR` on one template (`pkg/obitools/obipcr/pcr.go`), as repaired by
  `notes/patches/C11-circular-not-fragmented.diff`: `--fragmented` is ignored with `--circular`.
-/
namespace ObiVerif.Pcr
open ObiVerif ObiVerif.Apat

/-- the seven keys `_Pcr` writes -/
inductive PcrKey
  | forwardPrimer | forwardMatch | forwardError | reversePrimer | reverseMatch | reverseError | direction
  deriving Repr, DecidableEq

/-- an annotation key: one of the seven, or any other name -/
inductive Key
  | pcr (k : PcrKey)
  | other (name : Bytes)
  deriving Repr, DecidableEq

/-- an annotation value (the two kinds `_Pcr` writes; the harness gives the templates values of these kinds) -/
inductive AVal
  | int (n : Int)
  | str (s : Bytes)
  deriving Repr, DecidableEq

/-- a Go `map[string]interface{}`: at most one entry per key is visible (`get` returns the first), the order is irrelevant
(printed sorted) -/
abbrev Annot := List (Key × AVal)

def Annot.get (a : Annot) (k : Key) : Option AVal :=
  match a with
  | [] => none
  | (k', v) :: r => if k' = k then some v else Annot.get r k

/-- `annot[k] = v` -/
def Annot.set (a : Annot) (k : Key) (v : AVal) : Annot := (k, v) :: a.filter (fun kv => kv.1 ≠ k)

def dirBytes (isForward : Bool) : Bytes :=
  if isForward then [102, 111, 114, 119, 97, 114, 100] else [114, 101, 118, 101, 114, 115, 101]   -- "forward" / "reverse"

/-- the annotations of an amplicon reported for a template carrying the annotations `tpl`; `fwd`, `rev`: the primer strings
as given to `OptionForwardPrimer` / `OptionReversePrimer` -/
def annotate (fwd rev : Bytes) (tpl : Annot) (x : Amplicon) : Annot :=
  (((((((tpl.set (.pcr .forwardPrimer) (.str fwd)).set (.pcr .forwardMatch) (.str x.fmatch)).set (.pcr .forwardError)
    (.int x.ferr)).set (.pcr .reversePrimer) (.str rev)).set (.pcr .reverseMatch) (.str x.rmatch)).set (.pcr .reverseError)
    (.int x.rerr)).set (.pcr .direction) (.str (dirBytes x.isForward)))

/-! ## `CLIPCR` -/

/-- the pieces `CLIPCR` makes of a template of `len` symbols: `IFragments` with the parameters of `cliFragParams` when
`--fragmented` is given WITHOUT `--circular` (outer `none`: `IFragments` does not advance; inner `none`: searched whole) -/
def cliPieces (mx : Int) (lf lr : Nat) (delta : Int) (circ frag : Bool) (len : Nat) : Option (Option (List (Nat × Nat))) :=
  if frag && !circ then
    let p := cliFragParams mx lf lr delta
    fragments p.1 p.2.1 p.2.2 len
  else some none

/-- `CLIPCR` on one (lower-cased) template: the cuts `(start, end)` and, for each, what `_Pcr` returns with the options of
`cliOpts` -/
def cliRun (P : Primers) (lf lr : Nat) (mn mx delta : Int) (full circ frag : Bool) (t : Bytes) :
    Option (Except Bad (List ((Nat × Nat) × List Amplicon))) :=
  match cliPieces mx lf lr delta circ frag t.length with
  | none => none
  | some frs =>
    let cuts : List (Nat × Nat) := match frs with
      | none => [(0, t.length)]
      | some l => l
    some ((pcrSlice P (cliOpts mn mx delta full circ) (cuts.map fun c => (t.drop c.1).take (c.2 - c.1))).map fun per =>
      cuts.zip per)

end ObiVerif.Pcr
