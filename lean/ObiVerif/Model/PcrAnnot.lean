import ObiVerif.Model.Pcr
/-!
# C11 model, second part: the annotations of a reported amplicon and `CLIPCR` end to end

* `annotate` — the annotation map `_Pcr` (`pkg/obiapat/pcr.go`, both orientation blocks) leaves on an amplicon: the
  annotations of the template (`Subsequence` copies them, `obiutils.MustFillMap(annot, reference.Annotations())` writes them
  again), then, in this order, `forward_primer`, `forward_match`, `forward_error`, `reverse_primer`, `reverse_match`,
  `reverse_error`, `direction` — a template annotation carrying one of these seven names is overwritten.
  `forward_primer` / `reverse_primer` are `ApatPattern.String()` = the Go string given to `MakeApatPattern`, verbatim (not
  upper-cased, not cut at a NUL).  In BOTH blocks `forward_*` speaks of the forward primer and `reverse_*` of the reverse
  primer: in the reverse block the direct site is the reverse primer's (`reverse_match` as it is in the template,
  `reverse_error = fm[2]`) and the complemented site is the forward primer's (`forward_match` reverse-complemented,
  `forward_error = rm[2]`) — `emitReverse` of `Model/Pcr.lean`.
* `pcrE` — `_Pcr` on a piece cut by `IFragments`, as repaired by `notes/patches/C11-fragment-inner-ends.diff`: a piece end that
  is not an end of the fragmented sequence does not clip a flank, the pair is skipped.
* `cliPieces` / `cliRun` — `obipcr.CLIPCR` on one template (`pkg/obitools/obipcr/pcr.go`), as repaired by
  `notes/patches/C11-circular-not-fragmented.diff`: `--fragmented` is ignored with `--circular`.
-/
namespace ObiVerif.Pcr
open ObiVerif ObiVerif.Apat

/-- the seven keys `_Pcr` writes -/
inductive PcrKey
  | forwardPrimer | forwardMatch | forwardError | reversePrimer | reverseMatch | reverseError | direction
  deriving Repr, DecidableEq

/-- an annotation key: one of the seven, or any other name -/
inductive Key
  | pcr (k : PcrKey)
  | other (name : Bytes)
  deriving Repr, DecidableEq

/-- an annotation value (the two kinds `_Pcr` writes; the harness gives the templates values of these kinds) -/
inductive AVal
  | int (n : Int)
  | str (s : Bytes)
  deriving Repr, DecidableEq

/-- a Go `map[string]interface{}`: at most one entry per key is visible (`get` returns the first), the order is irrelevant
(printed sorted) -/
abbrev Annot := List (Key × AVal)

def Annot.get (a : Annot) (k : Key) : Option AVal :=
  match a with
  | [] => none
  | (k', v) :: r => if k' = k then some v else Annot.get r k

/-- `annot[k] = v` -/
def Annot.set (a : Annot) (k : Key) (v : AVal) : Annot := (k, v) :: a.filter (fun kv => kv.1 ≠ k)

def dirBytes (isForward : Bool) : Bytes :=
  if isForward then [102, 111, 114, 119, 97, 114, 100] else [114, 101, 118, 101, 114, 115, 101]   -- "forward" / "reverse"

/-- the annotations of an amplicon reported for a template carrying the annotations `tpl`; `fwd`, `rev`: the primer strings
as given to `OptionForwardPrimer` / `OptionReversePrimer` -/
def annotate (fwd rev : Bytes) (tpl : Annot) (x : Amplicon) : Annot :=
  (((((((tpl.set (.pcr .forwardPrimer) (.str fwd)).set (.pcr .forwardMatch) (.str x.fmatch)).set (.pcr .forwardError)
    (.int x.ferr)).set (.pcr .reversePrimer) (.str rev)).set (.pcr .reverseMatch) (.str x.rmatch)).set (.pcr .reverseError)
    (.int x.rerr)).set (.pcr .direction) (.str (dirBytes x.isForward)))

/-! ## pieces of a fragmented template (patch `notes/patches/C11-fragment-inner-ends.diff`)

`IFragments` marks each piece with the ends that are not ends of the sequence it was cut from
(`BioSequence.MarkFragmentEnds(i > 0, end < s.Len())`); `_Pcr` reads the marks of its template (`FragmentEnds`) and, where the
unpatched code clipped a flank (`if from < 0 { from = 0 }`, `if to > seq.Len() { to = seq.Len() }`), skips the pair
(`continue`) when the clipping end is marked; the marks are removed from the annotations of the amplicons
(`ClearFragmentEnds`). -/

/-- the marks of a template -/
structure Ends where
  innerStart : Bool
  innerEnd : Bool
  deriving Repr, DecidableEq

/-- a template that is not a piece -/
def Ends.none : Ends := ⟨false, false⟩

/-- the two `continue`: a flank would be clipped by an end that is not an end of the fragmented sequence -/
def endsReject (e : Ends) (o : Opts) (L : Int) (fm rm : Hit) : Bool :=
  o.hasExtension && !o.fullExtension && !o.circular &&
    ((decide (fm.1 - o.extension < 0) && e.innerStart) || (decide (rm.2.1 + o.extension > L) && e.innerEnd))

/-- `pairStep` of the patched code (same order of the tests) -/
def pairStepE (e : Ends) (isFwd : Bool) (o : Opts) (seq : Bytes) (wrapLen : Int) (fm rm : Hit) : Option (Except Bad Amplicon) :=
  let L : Int := seq.length
  if lengthOk o (pairLength o L wrapLen fm rm) then
    if endsReject e o L fm rm then none
    else
      let ft := bounds o L fm rm
      if boundsOk o L ft then
        some (if isFwd then emitForward o seq fm rm ft else emitReverse o seq fm rm ft)
      else none
  else none

/-- one orientation block of the patched `_Pcr` on a template carrying the marks `e` -/
def blockE (e : Ends) (isFwd : Bool) (D C : Pattern) (wrapLen winLen : Int) (o : Opts) (seq : Bytes) : List (Except Bad Amplicon) :=
  let L : Int := seq.length
  let fms := findAllIndex D seq o.circular 0 (-1)
  match fms.head?, fms.getLast? with
  | some first, some last =>
    let w := revWindow o L winLen first last
    let rms := findAllIndex C seq o.circular w.1 w.2
    fms.flatMap fun fm =>
      if fm.1 < L then
        rms.filterMap fun rm => if rm.1 < L then pairStepE e isFwd o seq wrapLen fm rm else none
      else []
  | _, _ => []

def pcrRawE (e : Ends) (P : Primers) (o : Opts) (seq : Bytes) : List (Except Bad Amplicon) :=
  blockE e true P.forward P.crev P.forward.patlen P.reverse.patlen o seq ++
  blockE e false P.reverse P.cfwd P.reverse.patlen P.reverse.patlen o seq

/-- `_Pcr` (patched) on a template carrying the marks `e`; `pcrE Ends.none = pcr` (`Lemmas/PcrEnds.lean`) -/
def pcrE (e : Ends) (P : Primers) (o : Opts) (seq : Bytes) : Except Bad (List Amplicon) := (pcrRawE e P o seq).mapM id

def pcrSliceE (P : Primers) (o : Opts) (seqs : List (Ends × Bytes)) : Except Bad (List (List Amplicon)) :=
  seqs.mapM fun es => pcrE es.1 P o es.2

/-- the marks of the piece `[a, b)` of a sequence of `len` symbols -/
def pieceEnds (len : Nat) (c : Nat × Nat) : Ends := ⟨decide (0 < c.1), decide (c.2 < len)⟩

/-! ## `CLIPCR` -/

/-- the pieces `CLIPCR` makes of a template of `len` symbols: `IFragments` with the parameters of `cliFragParams` when
`--fragmented` is given WITHOUT `--circular` (outer `none`: `IFragments` does not advance; inner `none`: searched whole) -/
def cliPieces (mx : Int) (lf lr : Nat) (delta : Int) (circ frag : Bool) (len : Nat) : Option (Option (List (Nat × Nat))) :=
  if frag && !circ then
    let p := cliFragParams mx lf lr delta
    fragments p.1 p.2.1 p.2.2 len
  else some none

/-- the cuts `(start, end)` with their marks: the whole template unmarked, or the pieces of `IFragments` -/
def cutsOf (len : Nat) (frs : Option (List (Nat × Nat))) : List ((Nat × Nat) × Ends) :=
  match frs with
  | none => [((0, len), Ends.none)]
  | some l => l.map fun c => (c, pieceEnds len c)

/-- `IFragments` then `_PCRSlice` over the (marked) pieces -/
def pcrCuts (P : Primers) (o : Opts) (t : Bytes) (cuts : List ((Nat × Nat) × Ends)) :
    Except Bad (List ((Nat × Nat) × List Amplicon)) :=
  (pcrSliceE P o (cuts.map fun c => (c.2, (t.drop c.1.1).take (c.1.2 - c.1.1)))).map fun per => (cuts.map (·.1)).zip per

/-- `CLIPCR` on one (lower-cased) template: the cuts `(start, end)` and, for each, what `_Pcr` returns with the options of
`cliOpts` -/
def cliRun (P : Primers) (lf lr : Nat) (mn mx delta : Int) (full circ frag : Bool) (t : Bytes) :
    Option (Except Bad (List ((Nat × Nat) × List Amplicon))) :=
  match cliPieces mx lf lr delta circ frag t.length with
  | none => none
  | some frs => some (pcrCuts P (cliOpts mn mx delta full circ) t (cutsOf t.length frs))

end ObiVerif.Pcr
