/-!
# Small-step model of the single-goroutine combinators of `pkg/obiiter` (C03, "always terminates")

`Model/ReseqSteps.lean` treats the shape *source → N workers → SortBatches → consumer*.  Every other
combinator the commands use (`Rebatch`, `FilterEmpty`, `DivideOn`, `Distribute`, `Concat`, the zip loop of
`PairTo`, `CopyTee`, `CompleteFileIterator`, `IMergeSequenceBatch`, `PairedWith`, `LimitMemory`, `Speed`) is
ONE goroutine running a sequential loop over the `Next` / `Push` / `Done` protocol, between `nin` input
iterators and `nout` output iterators, plus the `WaitAndClose` closers.  This file is that shape, once,
with the loop as a parameter:

* the loop is a deterministic machine `act : σ → Act σ`: in state `m` it is blocked in `inputs[i].Next()`
  (`recv i onItem onClosed`), in `outputs[j].Push(b)` (`send j b k`), in `news <- j` (`announce j k`:
  `Distribute` telling its client that output `j` now exists — the client then starts the consumer of `j`),
  or it has left the loop (`halt`: `Done()` on every output).  Local computation between two channel
  operations is merged into the step that precedes it;
* input `i`: a producer pushing `todo i` (any list of batches), the channel `cin i`, and the
  `WaitAndClose` of that iterator (`inClosed i`);
* output `j`: the channel `cout j`, its consumer (`delivered j`; it exists once `opened j`; `absent j` = the
  caller never consumes that output), and the closer goroutine, which closes the outputs one after the
  other (`trueIter.WaitAndClose(); falseIter.WaitAndClose()` in `DivideOn`, `first.WaitAndClose();
  second.Close()` in `CopyTee`, the `range outputs` loop of `Distribute`) once the loop is over;
* channels have capacity `cap ≥ 0`; a send meets a receiver waiting on an empty channel directly
  (`…Hand`), the only way to communicate when `cap = 0` (the `make(chan BioSequenceBatch)` of the code).

`sent` is a ghost variable: the pushes done so far, `(output, batch)` in program order.

`Exec` is the big-step reading of the same machine (what it pushes when it is fed the input lists): the
safety invariant says that at every moment *pushes done so far ++ big-step run of the machine from its
current state on what is still upstream = big-step run from the start* — nothing lost, nothing
duplicated, nothing reordered, whatever the scheduling — and that every batch pushed on `j` is either
delivered or in `cout j`, in push order.
-/
namespace ObiVerif.LoopSteps

abbrev Rec := Nat
abbrev Item := Nat × List Rec

inductive Act (σ : Type) where
  | recv (i : Nat) (onItem : Item → σ) (onClosed : σ)
  | send (j : Nat) (b : Item) (k : σ)
  | announce (j : Nat) (k : σ)
  | halt

/-- `f[i := v]` -/
def upd {α : Type} (f : Nat → α) (i : Nat) (v : α) : Nat → α := fun x => if x = i then v else f x

structure Sys (σ : Type) where
  act : σ → Act σ
  nin : Nat
  nout : Nat
  cap : Nat
  absent : Nat → Bool

structure St (σ : Type) where
  todo : Nat → List Item
  cin : Nat → List Item
  inClosed : Nat → Bool
  m : σ
  halted : Bool
  opened : Nat → Bool
  cout : Nat → List Item
  outClosed : Nat → Bool
  delivered : Nat → List Item
  sent : List (Nat × Item)

def init {σ : Type} (ins : Nat → List Item) (m0 : σ) (opened0 : Nat → Bool) : St σ :=
  { todo := ins, cin := fun _ => [], inClosed := fun _ => false, m := m0, halted := false,
    opened := opened0, cout := fun _ => [], outClosed := fun _ => false, delivered := fun _ => [],
    sent := [] }

inductive Step {σ : Type} (S : Sys σ) : St σ → St σ → Prop where
  /-- producer of input `i`: `Push` into a free slot -/
  | prodSend (s : St σ) (i : Nat) (k : Item) (t : List Item) : i < S.nin → s.todo i = k :: t →
      (s.cin i).length < S.cap →
      Step S s { s with todo := upd s.todo i t, cin := upd s.cin i (s.cin i ++ [k]) }
  /-- producer of input `i` meets the loop waiting in `inputs[i].Next()` -/
  | prodHand (s : St σ) (i : Nat) (k : Item) (t : List Item) (f : Item → σ) (c : σ) :
      s.halted = false → S.act s.m = .recv i f c → s.todo i = k :: t → s.cin i = [] →
      Step S s { s with todo := upd s.todo i t, m := f k }
  /-- `WaitAndClose` of input `i` -/
  | inClose (s : St σ) (i : Nat) : i < S.nin → s.todo i = [] → s.cin i = [] → s.inClosed i = false →
      Step S s { s with inClosed := upd s.inClosed i true }
  /-- the loop: `Next()` takes the head of `cin i` -/
  | mRecv (s : St σ) (i : Nat) (k : Item) (t : List Item) (f : Item → σ) (c : σ) :
      s.halted = false → S.act s.m = .recv i f c → s.cin i = k :: t →
      Step S s { s with cin := upd s.cin i t, m := f k }
  /-- the loop: `Next()` sees input `i` closed -/
  | mRecvClosed (s : St σ) (i : Nat) (f : Item → σ) (c : σ) :
      s.halted = false → S.act s.m = .recv i f c → s.cin i = [] → s.inClosed i = true →
      Step S s { s with m := c }
  /-- the loop: `Push` into a free slot of `cout j` -/
  | mSend (s : St σ) (j : Nat) (b : Item) (k : σ) :
      s.halted = false → S.act s.m = .send j b k → (s.cout j).length < S.cap →
      Step S s { s with cout := upd s.cout j (s.cout j ++ [b]), m := k, sent := s.sent ++ [(j, b)] }
  /-- the loop meets the consumer of output `j` -/
  | mHand (s : St σ) (j : Nat) (b : Item) (k : σ) :
      s.halted = false → S.act s.m = .send j b k → s.cout j = [] → s.opened j = true → S.absent j = false →
      Step S s { s with delivered := upd s.delivered j (s.delivered j ++ [b]), m := k,
                        sent := s.sent ++ [(j, b)] }
  /-- the loop: `news <- j` received by the client, which starts the consumer of output `j` -/
  | mAnnounce (s : St σ) (j : Nat) (k : σ) :
      s.halted = false → S.act s.m = .announce j k →
      Step S s { s with opened := upd s.opened j true, m := k }
  /-- the loop is over: `Done()` -/
  | mHalt (s : St σ) : s.halted = false → S.act s.m = .halt → Step S s { s with halted := true }
  /-- the closer goroutine closes output `j` (after the outputs before it) -/
  | outClose (s : St σ) (j : Nat) : j < S.nout → s.halted = true → s.cout j = [] → s.outClosed j = false →
      (∀ j', j' < j → s.outClosed j' = true) →
      Step S s { s with outClosed := upd s.outClosed j true }
  /-- consumer of output `j`: `Next()` takes the head of `cout j` -/
  | cRecv (s : St σ) (j : Nat) (k : Item) (t : List Item) : j < S.nout →
      s.cout j = k :: t → s.opened j = true → S.absent j = false →
      Step S s { s with cout := upd s.cout j t, delivered := upd s.delivered j (s.delivered j ++ [k]) }

inductive Reach {σ : Type} (S : Sys σ) (s0 : St σ) : St σ → Prop where
  | init : Reach S s0 s0
  | step {s s' : St σ} : Reach S s0 s → Step S s s' → Reach S s0 s'

/-- every consumer has seen the end of its stream -/
def Final {σ : Type} (S : Sys σ) (s : St σ) : Prop :=
  ∀ j, j < S.nout → s.outClosed j = true ∧ s.cout j = []

/-- big-step reading of the loop: fed the input lists `ins` from state `m` it pushes `tr` -/
inductive Exec {σ : Type} (act : σ → Act σ) : σ → (Nat → List Item) → List (Nat × Item) → Prop where
  | halt {m : σ} {ins : Nat → List Item} : act m = .halt → Exec act m ins []
  | send {m : σ} {ins : Nat → List Item} {j : Nat} {b : Item} {k : σ} {tr : List (Nat × Item)} :
      act m = .send j b k → Exec act k ins tr → Exec act m ins ((j, b) :: tr)
  | ann {m : σ} {ins : Nat → List Item} {j : Nat} {k : σ} {tr : List (Nat × Item)} :
      act m = .announce j k → Exec act k ins tr → Exec act m ins tr
  | item {m : σ} {ins : Nat → List Item} {i : Nat} {f : Item → σ} {c : σ} {it : Item} {rest : List Item}
      {tr : List (Nat × Item)} :
      act m = .recv i f c → ins i = it :: rest → Exec act (f it) (upd ins i rest) tr → Exec act m ins tr
  | closed {m : σ} {ins : Nat → List Item} {i : Nat} {f : Item → σ} {c : σ} {tr : List (Nat × Item)} :
      act m = .recv i f c → ins i = [] → Exec act c ins tr → Exec act m ins tr

/-- the batches pushed on output `j`, in push order -/
def proj (j : Nat) (tr : List (Nat × Item)) : List Item := (tr.filter fun e => e.1 == j).map (·.2)

def sumTo : Nat → (Nat → Nat) → Nat
  | 0, _ => 0
  | n + 1, f => sumTo n f + f n

def b2n (b : Bool) : Nat := if b then 0 else 1

/-- weighted length: every item counts `3 * w it + c` -/
def wt (w : Item → Nat) (c : Nat) : List Item → Nat
  | [] => 0
  | it :: t => 3 * w it + c + wt w c t

/-- ranking function (`μ` ranks the loop's own state, `w` bounds what receiving an item adds to it) -/
def rank {σ : Type} (S : Sys σ) (μ : σ → Nat) (w : Item → Nat) (s : St σ) : Nat :=
  3 * μ s.m + sumTo S.nin (fun i => wt w 2 (s.todo i) + wt w 1 (s.cin i) + b2n (s.inClosed i)) +
  (if s.halted then 0 else 1) + sumTo S.nout (fun j => 2 * (s.cout j).length + b2n (s.outClosed j))

/-- what the generic theorems need of a loop: ports in range, a ranking of its own states, and — for the
lazily created outputs of `Distribute` — it pushes only on outputs it has announced (`known`) -/
structure Law {σ : Type} (S : Sys σ) (μ : σ → Nat) (w : Item → Nat) (known : σ → Nat → Prop) : Prop where
  recv_lt : ∀ {m i f c}, S.act m = .recv i f c → i < S.nin
  send_lt : ∀ {m j b k}, S.act m = .send j b k → j < S.nout
  μ_send : ∀ {m j b k}, S.act m = .send j b k → μ k < μ m
  μ_ann : ∀ {m j k}, S.act m = .announce j k → μ k < μ m
  μ_item : ∀ {m i f c}, S.act m = .recv i f c → ∀ it, μ (f it) ≤ μ m + w it
  μ_closed : ∀ {m i f c}, S.act m = .recv i f c → μ c < μ m
  k_send : ∀ {m j b k}, S.act m = .send j b k → known m j ∧ ∀ x, known k x → known m x
  k_ann : ∀ {m j k}, S.act m = .announce j k → ∀ x, known k x → known m x ∨ x = j
  k_item : ∀ {m i f c}, S.act m = .recv i f c → ∀ it x, known (f it) x → known m x
  k_closed : ∀ {m i f c}, S.act m = .recv i f c → ∀ x, known c x → known m x

end ObiVerif.LoopSteps
