import ObiVerif.Model.Kmer
/-!
# Model of the De Bruijn graph of `pkg/obikmer/debruijn.go` (C19)

`MakeDeBruijnGraph`, `Push` (**as repaired** by `notes/patches/C19-push-read-of-k-bases` and
`C19-push-ambiguity-weights`), `Weight`, `Nexts`, `Previouses`, `Heads`, `HasCycle`, `HaviestPath`,
`DecodeNode`, `DecodePath`, `LongestConsensus` (with `min_cov = 0`: the trimming branch works on floats and
is not modelled).

The Go `map[uint64]uint` is an association list word → weight with at most one entry per word (insertion
order; nothing observable depends on the order).  A k-mer word is a `Nat` below `2^64`, 2 bits per base;
`x << 2` is `(x * 4) % 2^64`.  Weights are naturals (`uint`/`int` overflow is outside the model: assumption
"total weight below 2^63").
-/
namespace ObiVerif.DeBruijn
open ObiVerif.Kmer

abbrev W64 : Nat := 18446744073709551616

structure Graph where
  k : Nat
  mask : Nat
  prevc : Nat
  prevg : Nat
  prevt : Nat
  nodes : List (Nat × Nat)

/-- `MakeDeBruijnGraph` (`kmersize ≥ 1`): `kmermask = ^(^0 << 2k)`, `prevX = X << 2(k-1)` -/
def makeGraph (k : Nat) : Graph :=
  { k := k
    mask := notW 64 (shl 64 (notW 64 0) (k * 2))
    prevc := shl 64 1 ((k - 1) * 2)
    prevg := shl 64 2 ((k - 1) * 2)
    prevt := shl 64 3 ((k - 1) * 2)
    nodes := [] }

/-- `_, ok := g.graph[x]` -/
def has (nodes : List (Nat × Nat)) (x : Nat) : Bool := (nodes.lookup x).isSome

/-- `Weight` -/
def weightOf (nodes : List (Nat × Nat)) (x : Nat) : Nat := (nodes.lookup x).getD 0

def Graph.weight (g : Graph) (x : Nat) : Nat := weightOf g.nodes x

/-- `graph.graph[x] = uint(graph.Weight(x) + w)` -/
def addWeight : List (Nat × Nat) → Nat → Nat → List (Nat × Nat)
  | [], x, w => [(x, w)]
  | (y, v) :: t, x, w => if y = x then (y, v + w) :: t else (y, v) :: addWeight t x w

/-- insertion in a strictly increasing list (`slices.Sort` followed by `slices.Compact`) -/
def insertU (x : Nat) : List Nat → List Nat
  | [] => [x]
  | y :: t => if x < y then x :: y :: t else if x = y then y :: t else y :: insertU x t

def sortDedup (l : List Nat) : List Nat := l.foldr insertU []

/-- the readings of the window after one more base: every reading shifted, masked, completed by every
nucleotide of the code; sorted, duplicates removed -/
def pushStep (mask : Nat) (codes : List Nat) (kmers : List Nat) : List Nat :=
  sortDedup (kmers.flatMap fun key => codes.map fun c => (((key * 4) % W64) &&& mask) ||| c)

/-- the loop of `Push`: `i` is the index of the base, `kmers` the distinct readings of the last bases -/
def pushLoop (k mask w : Nat) : Nat → List Nat → List (Nat × Nat) → Bytes → List (Nat × Nat)
  | _, _, nodes, [] => nodes
  | i, kmers, nodes, b :: t =>
    let kmers := pushStep mask (iupac b.toNat) kmers
    let nodes := if i + 1 ≥ k then kmers.foldl (fun n key => addWeight n key w) nodes else nodes
    pushLoop k mask w (i + 1) kmers nodes t

/-- `Push` of a read `s` of count `w` -/
def Graph.push (g : Graph) (s : Bytes) (w : Nat) : Graph :=
  if s.length < g.k then g else { g with nodes := pushLoop g.k g.mask w 0 [0] g.nodes s }

/-- `Nexts` (`none` = `log.Panicf`: the node is not in the graph) -/
def Graph.nexts (g : Graph) (x : Nat) : Option (List Nat) :=
  if !has g.nodes x then none else
    let idx := ((x * 4) % W64) &&& g.mask
    some ([idx, idx ||| 1, idx ||| 2, idx ||| 3].filter (has g.nodes))

/-- `Previouses` -/
def Graph.previouses (g : Graph) (x : Nat) : Option (List Nat) :=
  if !has g.nodes x then none else
    let idx := x / 4
    some ([idx, idx ||| g.prevc, idx ||| g.prevg, idx ||| g.prevt].filter (has g.nodes))

/-- `Nexts` on a node known to be in the graph -/
def Graph.succ (g : Graph) (x : Nat) : List Nat := (g.nexts x).getD []

/-- `Heads`: the nodes without predecessor (in the order of the association list) -/
def Graph.heads (g : Graph) : List Nat :=
  (g.nodes.map Prod.fst).filter fun x => (g.previouses x).getD [] == []

/-! ## `HasCycle`: depth-first search with the `visited` and `stack` maps -/

structure Dfs where
  visited : List Nat
  stack : List Nat

inductive DfsOut where
  | cycle
  | done (st : Dfs)
  | fuel

/-- the `for _, nextNode := range nextNodes` loop of `dfs`, the recursive call being the parameter `f` -/
def forNexts (f : Nat → Dfs → DfsOut) : List Nat → Dfs → DfsOut
  | [], st => .done st
  | n :: t, st =>
    if !st.visited.contains n then
      match f n st with
      | .done st => forNexts f t st
      | r => r
    else if st.stack.contains n then .cycle
    else forNexts f t st

/-- `dfs(node)`; the fuel bounds the recursion depth (every nested call is on a node not yet visited) -/
def dfs (g : Graph) : Nat → Nat → Dfs → DfsOut
  | 0, _, _ => .fuel
  | fuel + 1, node, st =>
    match forNexts (dfs g fuel) (g.succ node) ⟨node :: st.visited, node :: st.stack⟩ with
    | .done st => .done ⟨st.visited, st.stack.erase node⟩        -- stack[node] = false
    | r => r

/-- the `for node := range g.graph` loop -/
def dfsAll (g : Graph) (fuel : Nat) : List Nat → Dfs → DfsOut
  | [], st => .done st
  | n :: t, st =>
    if !st.visited.contains n then
      match dfs g fuel n st with
      | .done st => dfsAll g fuel t st
      | r => r
    else dfsAll g fuel t st

/-- `HasCycle` (`none` = the model ran out of fuel; the fuel given is the number of nodes plus one, which
the recursion depth cannot exceed) -/
def Graph.hasCycle (g : Graph) : Option Bool :=
  match dfsAll g (g.nodes.length + 1) (g.nodes.map Prod.fst) ⟨[], []⟩ with
  | .cycle => some true
  | .done _ => some false
  | .fuel => none

/-! ## `HaviestPath` -/

/-- Go map read with zero default -/
def getD0 (m : List (Nat × Nat)) (x : Nat) : Nat := (m.lookup x).getD 0

/-- Go map write -/
def setKV : List (Nat × Nat) → Nat → Nat → List (Nat × Nat)
  | [], x, v => [(x, v)]
  | (y, u) :: t, x, v => if y = x then (y, v) :: t else (y, u) :: setKV t x v

/-- the queue: `container/heap` over `UInt64Heap` (`Less` = `<` on node words) is a real binary min-heap,
`heap.Pop` returns a minimum of the multiset of queued words: the pop order only depends on the multiset.
The queue is kept as a sorted list. -/
def qPush (x : Nat) : List Nat → List Nat
  | [] => [x]
  | y :: t => if x ≤ y then x :: y :: t else y :: qPush x t

structure HP where
  dist : List (Nat × Nat)
  visited : List (Nat × Nat)      -- 1 = true
  prev : List (Nat × Nat)
  queue : List Nat
  hNode : Nat
  hWeight : Nat

/-- the inner loop: relax the edges `cur → next` -/
def relax (g : Graph) (cur : Nat) : List Nat → HP → HP
  | [], h => h
  | nx :: t, h =>
    let w := g.weight nx + getD0 h.dist cur
    if getD0 h.dist nx < w then
      let h : HP := { h with dist := setKV h.dist nx w, prev := setKV h.prev nx cur,
                             visited := setKV h.visited nx 0, queue := qPush nx h.queue }
      let h : HP := if w > h.hWeight then { h with hWeight := w, hNode := nx } else h
      relax g cur t h
    else relax g cur t h

/-- the main loop (`none` = out of fuel) -/
def hpLoop (g : Graph) : Nat → HP → Option HP
  | 0, h => if h.queue.isEmpty then some h else none
  | fuel + 1, h =>
    match h.queue with
    | [] => some h
    | cur :: q =>
      let h : HP := { h with queue := q }
      if getD0 h.visited cur = 1 then hpLoop g fuel h else
        let h : HP := { h with visited := setKV h.visited cur 1 }
        let weight := getD0 h.dist cur
        let h : HP := if weight > h.hWeight then { h with hWeight := weight, hNode := cur } else h
        hpLoop g fuel (relax g cur (g.succ cur) h)

/-- initialisation from the heads -/
def hpInit (g : Graph) : HP :=
  g.heads.foldl (fun h n => { h with queue := qPush n h.queue, dist := setKV h.dist n (g.weight n),
                                     prev := setKV h.prev n 0, visited := setKV h.visited n 0 })
    ⟨[], [], [], [], 0, 0⟩

inductive HPOut where
  | nil                      -- `return nil`: the graph has a cycle
  | path (p : List Nat)
  | panic                    -- `log.Panicf("Cycle detected …")` (reached on the empty graph: node 0 is its own predecessor)
  | fuel
  deriving DecidableEq, Repr

/-- path reconstruction: `for !start[cur] && !contains(path, cur) { path = append(path, cur); cur = prev[cur] }`;
the path is accumulated already reversed. -/
def hpBack (starts : List Nat) (prev : List (Nat × Nat)) : Nat → Nat → List Nat → HPOut
  | 0, _, _ => .fuel
  | fuel + 1, cur, acc =>
    if starts.contains cur then .path (cur :: acc)
    else if acc.contains cur then .panic
    else hpBack starts prev fuel (getD0 prev cur) (cur :: acc)

/-- `HaviestPath` -/
def Graph.heaviestPath (g : Graph) (fuel : Nat) : HPOut :=
  match g.hasCycle with
  | none => .fuel
  | some true => .nil
  | some false =>
    match hpLoop g fuel (hpInit g) with
    | none => .fuel
    | some h => hpBack g.heads h.prev (g.nodes.length + 2) h.hNode []

/-! ## decoding -/

/-- `DecodeNode` -/
def decodeNode : Nat → Nat → List UInt8 → List UInt8
  | 0, _, acc => acc
  | n + 1, x, acc => decodeNode n (x / 4) (decode (x &&& 3) :: acc)

/-- `DecodePath` -/
def Graph.decodePath (g : Graph) : List Nat → List UInt8
  | [] => []
  | x :: t => decodeNode g.k x [] ++ t.map fun y => decode (y &&& 3)

inductive ConsOut where
  | err
  | seq (s : List UInt8)
  | panic
  | fuel
  deriving DecidableEq, Repr

/-- `LongestConsensus(id, 0)` -/
def Graph.longestConsensus (g : Graph) (fuel : Nat) : ConsOut :=
  if g.nodes.isEmpty then .err else
    match g.heaviestPath fuel with
    | .fuel => .fuel
    | .panic => .panic
    | .nil => .err                          -- DecodePath(nil) = "" → "cannot identify optimum path"
    | .path p => let s := g.decodePath p; if s.isEmpty then .err else .seq s

end ObiVerif.DeBruijn
