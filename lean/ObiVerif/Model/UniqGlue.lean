import ObiVerif.Model.Uniq
/-!
# The glue between the obiuniq command line and the dereplication kernel (property C06, fifth pass)

Transcribed from `/repo`:

* `pkg/obitools/obiuniq/options.go`  the option variables (`-m` or `--merge` repeated, `-c` or `--category-attribute` repeated,
  `--na-value`, `--no-singleton`, `--in-memory`, `--chunk-count`), `CLINumberOfChunks` (`<= 1` becomes 1)
* `pkg/obitools/obiuniq/unique.go`   `CLIUnique`: the list of `obichunk.WithOption` setters, in the order of the code
* `pkg/obichunk/options.go`          `MakeOptions` (defaults, the setters applied in order), `OptionStatOn`
  (**`statsOn[d.Name] = d`**), `OptionSubCategory` (append), …
* `pkg/obiseq/merge.go`              `MakeStatsOnDescription` (`strings.SplitN(descriptor, ":", 2)`: `Name` = the whole
  descriptor, `Key` = the part before the first colon, `Weight` = `Count()` without colon, else
  `GetIntAttribute(<part after the colon>)` or 0), and `StatsOn` / `StatsPlusOne` / `BioSequence.Merge` /
  `BioSequenceSlice.Merge` **with descriptors**: the slot is `merged_<desc.Name>`, the value read is the attribute
  `desc.Key`, the weight is `desc.Weight`; `Merge` tests `tomerge.HasStatsOn(key)` and stores under
  `StatsOnSlotName(key)` with the MAP KEY of the `StatsOnDescriptions`, not with `desc.Name`.
* `pkg/obiseq/attributes.go`         `GetIntAttribute`, `Count` and `pkg/obiutils/goutils.go` `InterfaceToInt` on typed values
  (`Val` below).

`Model/Uniq.lean` is the special case "every descriptor is a plain key" (`uniqD_plain` in `Lemmas/UniqGlue.lean`).
A Go `StatsOnDescriptions` map is an association list with distinct keys in insertion order; the kernel folds over it
(Go: map order) — the theorems hold for every order (`descs` is any list with distinct keys).
-/
namespace ObiVerif.Uniq

/-- `obiseq.StatsOnDescription`; `wattr = none`: `Weight = Count()`, `some w`: `GetIntAttribute(w)`, 0 when not an integer -/
structure Desc where
  name  : String
  key   : String
  wattr : Option String
deriving DecidableEq, Repr, Inhabited

/-- `strings.SplitN(s, ":", 2)`: the part before the first colon and, if there is a colon, the rest -/
def splitColon : List Char → List Char × Option (List Char)
  | [] => ([], none)
  | c :: t => if c = ':' then ([], some t) else
    let p := splitColon t
    (c :: p.1, p.2)

/-- `obiseq.MakeStatsOnDescription` -/
def makeDesc (descriptor : String) : Desc :=
  let p := splitColon descriptor.toList
  { name := descriptor, key := String.ofList p.1, wattr := p.2.map String.ofList }

/-- the decimal number a rendering starts with when it is a non-negative integer rendering (`fmt.Sprint` of an `int`
or of an integer-valued `float64`), 0 otherwise (`GetIntAttribute` not ok: string, bool, map …) -/
def natOfRendering (s : String) : Nat :=
  if s.isEmpty ∨ ¬ s.toList.all Char.isDigit then 0 else s.toList.foldl (fun n c => 10 * n + (c.toNat - 48)) 0

/-- `desc.Weight(sequence)` -/
def Desc.weight (d : Desc) (r : Rec) : Nat :=
  match d.wattr with
  | none => r.count
  | some w => if w = "count" then r.cnt.getD 0 else natOfRendering ((r.attrs.lookup w).getD "")

/-! ## `obichunk.OptionStatOn` and its regression -/

/-- `for _, k := range keys { d := MakeStatsOnDescription(k); statsOn[d.Name] = d }` -/
def optionStatOn (m : List (String × Desc)) (keys : List String) : List (String × Desc) :=
  keys.foldl (fun m k => let d := makeDesc k; setKey m d.name d) m

/-- NOT the code: the descriptors indexed by attribute key, first one wins (seeded regression C06-m6); kept to state
what goes wrong (`Props/C06G.lean` `statOn_by_key_loses_weights`) -/
def optionStatOnByKey (m : List (String × Desc)) (keys : List String) : List (String × Desc) :=
  keys.foldl (fun m k => let d := makeDesc k; if (m.lookup d.key).isSome then m else setKey m d.key d) m

/-! ## `merge.go` with descriptors -/

/-- `sequence.StatsOn(desc, na)` -/
def statsOnD (na : String) (d : Desc) (r : Rec) : Rec × Stats :=
  match r.merged.lookup d.name with
  | some m => (r, m)
  | none =>
    let m := addW [] (r.value d.key na) (d.weight r)
    ({ r with merged := setKey r.merged d.name m }, m)

/-- `sequence.StatsPlusOne(desc, toAdd, na)` -/
def statsPlusOneD (na : String) (d : Desc) (r toAdd : Rec) : Rec :=
  let (r', m) := statsOnD na d r
  { r' with merged := setKey r'.merged d.name (addW m (toAdd.value d.key na) (d.weight toAdd)) }

/-- body of `for key, desc := range statsOn` in `BioSequence.Merge` (`key` = the map key) -/
def mergeKeyD (na : String) (tm r : Rec) (e : String × Desc) : Rec :=
  if tm.hasStats e.1 then
    let (r', smk) := statsOnD na e.2 r
    let (_, mmk) := statsOnD na e.2 tm
    { r' with merged := setKey r'.merged e.1 (mergeStats smk mmk) }
  else statsPlusOneD na e.2 r tm

/-- `sequence.Merge(tomerge, na, true, statsOn)` -/
def mergeIntoD (na : String) (descs : List (String × Desc)) (r tm : Rec) : Rec :=
  let count := r.count + tm.count
  let r1 := descs.foldl (mergeKeyD na tm) r
  { r1 with attrs := r1.attrs.filter (fun kv => tm.attrs.lookup kv.1 == some kv.2),
            cnt := some (setCount count) }

/-- `BioSequenceSlice.Merge(na, statsOn)` -/
def mergeClassD (na : String) (descs : List (String × Desc)) : List Rec → Option Rec
  | [] => none
  | [r] =>
    let r0 := { r with cnt := some (setCount r.count) }
    some (descs.foldl (fun r e => (statsOnD na e.2 r).1) r0)
  | r :: rs => some (rs.foldl (mergeIntoD na descs) r)

/-! ## `obichunk.MakeOptions` and `obiuniq.CLIUnique` -/

/-- `obichunk.__options__` -/
structure ChunkOptions where
  statsOn         : List (String × Desc)
  categories      : List String
  navalue         : String
  cacheOnDisk     : Bool
  batchCount      : Int
  batchSize       : Nat
  parallelWorkers : Nat
  noSingleton     : Bool
deriving DecidableEq, Repr

/-- the `obichunk.WithOption` constructors `CLIUnique` uses -/
inductive Setter where
  | batchCount (n : Int)
  | sortOnDisk
  | sortOnMemory
  | noSingleton
  | statOn (keys : List String)
  | subCategory (keys : List String)
  | parallelWorkers (n : Nat)
  | batchSize (n : Nat)
  | naValue (na : String)
deriving Repr

def Setter.apply (o : ChunkOptions) : Setter → ChunkOptions
  | .batchCount n => { o with batchCount := n }
  | .sortOnDisk => { o with cacheOnDisk := true }
  | .sortOnMemory => { o with cacheOnDisk := false }
  | .noSingleton => { o with noSingleton := true }
  | .statOn keys => { o with statsOn := optionStatOn o.statsOn keys }
  | .subCategory keys => { o with categories := o.categories ++ keys }
  | .parallelWorkers n => { o with parallelWorkers := n }
  | .batchSize n => { o with batchSize := n }
  | .naValue na => { o with navalue := na }

/-- `obichunk.MakeOptions`: the defaults (`batchSize`, `parallelWorkers` from `obioptions`), then the setters in order -/
def makeOptions (dBatch dWorkers : Nat) (setters : List Setter) : ChunkOptions :=
  setters.foldl Setter.apply
    { statsOn := [], categories := [], navalue := "NA", cacheOnDisk := false, batchCount := 100,
      batchSize := dBatch, parallelWorkers := dWorkers, noSingleton := false }

/-- the option variables of `pkg/obitools/obiuniq/options.go` after the command line was parsed (`-m` and `-c` in
command-line order, every occurrence appended), with `obioptions.CLIParallelWorkers()` / `CLIBatchSize()` -/
structure Cli where
  merge       : List String := []
  cats        : List String := []
  na          : String := "NA"
  noSingleton : Bool := false
  inMemory    : Bool := false
  chunkCount  : Int := 100
  workers     : Nat := 1
  batchSize   : Nat := 1
deriving Repr

/-- `CLINumberOfChunks` -/
def Cli.numberOfChunks (c : Cli) : Int := if c.chunkCount ≤ 1 then 1 else c.chunkCount

/-- the `options` slice `CLIUnique` builds, in the order of the code -/
def cliSetters (c : Cli) : List Setter :=
  [.batchCount c.numberOfChunks] ++
  (if c.inMemory then [.sortOnMemory] else [.sortOnDisk]) ++
  (if c.noSingleton then [.noSingleton] else []) ++
  [.statOn c.merge, .subCategory c.cats, .parallelWorkers c.workers, .batchSize c.batchSize, .naValue c.na]

/-- the `opts` of `IUniqueSequence` when called by `CLIUnique` -/
def cliOptions (c : Cli) : ChunkOptions := makeOptions c.batchSize c.workers (cliSetters c)

/-- options of the dereplication model with descriptors -/
structure OptsD where
  cats : List String
  descs : List (String × Desc)
  na : String
  noSingleton : Bool

/-- the part of the options the classification stages look at (`terminals`, `dropped` of `Model/Uniq.lean`) -/
def OptsD.base (o : OptsD) : Opts :=
  { cats := o.cats, stats := o.descs.map (·.1), na := o.na, noSingleton := o.noSingleton }

def ChunkOptions.optsD (o : ChunkOptions) : OptsD :=
  { cats := o.categories, descs := o.statsOn, na := o.navalue, noSingleton := o.noSingleton }

/-- `IUniqueSequence` with descriptors: the classification of `Model/Uniq.lean`, the merge with descriptors -/
def uniqD (h : Seq → Nat) (o : OptsD) (input : List Rec) : List Rec :=
  ((terminals h o.base input).filter (fun b => !dropped o.base b)).filterMap (mergeClassD o.na o.descs)

/-- `obiuniq.CLIUnique` (hash chunks: `HashClassifier(opts.BatchCount())`; workers: 1 on disk) -/
def cliUnique (c : Cli) (input : List Rec) : List Rec :=
  let o := cliOptions c
  uniqD (hashCode o.batchCount.toNat) o.optsD input

/-! ## typed attribute values: `GetIntAttribute`, `Count` -/

/-- a Go attribute value as far as `InterfaceToInt` distinguishes it -/
inductive Val where
  /-- `int` (and the other integer types) -/
  | int (n : Int)
  /-- `float64` / `float32` whose truncation toward zero is `trunc`; `exact`: the value is that integer -/
  | flt (trunc : Int) (exact : Bool)
  | str (s : String)
  | bool (b : Bool)
  /-- maps, slices, nil … -/
  | other
deriving DecidableEq, Repr

/-- `obiutils.InterfaceToInt` (`none`: the error `NotAnInteger`) -/
def interfaceToInt : Val → Option Int
  | .int n => some n
  | .flt t _ => some t
  | _ => none

/-- `GetIntAttribute(key)` on a record whose attribute `key` is `v` (`none`: absent): value, ok, and the attribute
afterwards (`s.SetAttribute(key, val)` when a non-`int` value was converted) -/
def getIntAttribute : Option Val → Int × Bool × Option Val
  | none => (0, false, none)
  | some (.int n) => (n, true, some (.int n))
  | some v => match interfaceToInt v with
    | some n => (n, true, some (.int n))
    | none => (0, false, some v)

/-- `Count()` -/
def countOfVal (v : Option Val) : Int :=
  let r := getIntAttribute v
  if r.2.1 then r.1 else 1

end ObiVerif.Uniq
