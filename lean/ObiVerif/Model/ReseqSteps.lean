/-!
# Small-step model of a parallel worker stage followed by the re-sequencing stage (C03, "always terminates")

The goroutines and channels of `source.MakeISliceWorker(w, _, N).SortBatches()` drained by a consumer
(`pkg/obiiter/workers.go`, `batchiterator.go`: `Push`/`Next`, `Add`/`Done`/`WaitAndClose`, `Split`,
`SortBatches`) as a transition system.  A batch is represented by its order number (its content is a
function of the number: `v k` before the worker, `w k` after — `Model/Iter.lean` `workerStage`).

* producer: pushes the batches `todo` (any order) on the input channel `cin`, then calls `Done()`;
* `WaitAndClose` of the input iterator: once the producer is done and `len(channel) == 0`, closes `cin`;
* `N` worker goroutines (`f(iterator.Split())`): `idle` = blocked in `iterator.Next()`, `hold k` = blocked
  in `newIter.Push(batch)`, `done` = saw the channel closed (shared `finished` flag) and called `newIter.Done()`;
* `WaitAndClose` of the workers' iterator: all workers done and `cmid` empty → close `cmid`;
* the `SortBatches` goroutine: `recv` = in `iterator.Next()`, `send k` = blocked in
  `newIter.pointer.channel <- batch` (the batch in turn, then the drain loop over the `received` map =
  `pending`, with the counter `next` = `next_to_send`), `done` = called `newIter.Done()`;
* `WaitAndClose` of the sorted iterator: sorter done and `cout` empty → close `cout`;
* the consumer: receives from `cout` (always ready); the run is over when `cout` is closed and empty.

Channels have capacity `cap ≥ 0`.  A send on a channel with a free slot enqueues (`…Send`); whatever the
capacity, a send meets a receiver that is waiting on an empty channel directly (`…Hand`: the only way to
communicate when `cap = 0`, the unbuffered channels `make(chan BioSequenceBatch)` of the present code).
Local computation between two channel operations is merged into the step that precedes it.
`arrived` is a ghost variable: the order in which the sorter received the batches.
-/
namespace ObiVerif.ReseqSteps

inductive WPc where
  | idle
  | hold (k : Nat)
  | done
  deriving DecidableEq, Repr

inductive SPc where
  | recv
  | send (k : Nat)
  | done
  deriving DecidableEq, Repr

structure St where
  todo : List Nat
  cin : List Nat
  inClosed : Bool
  ws : List WPc
  cmid : List Nat
  midClosed : Bool
  spc : SPc
  next : Nat
  pending : List Nat
  cout : List Nat
  outClosed : Bool
  delivered : List Nat
  arrived : List Nat
  deriving Repr

/-- initial state: `src` = the batch numbers in the order the source pushes them, `N` workers -/
def init (src : List Nat) (N : Nat) : St :=
  { todo := src, cin := [], inClosed := false, ws := List.replicate N .idle, cmid := [], midClosed := false,
    spc := .recv, next := 0, pending := [], cout := [], outClosed := false, delivered := [], arrived := [] }

/-- the sorter has received batch `k`: `if batch.order == next_to_send {send…} else {received[order] = batch}` -/
def sorterGot (s : St) (k : Nat) : St :=
  if k = s.next then { s with spc := .send k, arrived := s.arrived ++ [k] }
  else { s with pending := k :: s.pending, arrived := s.arrived ++ [k] }

/-- after a send completed: `next_to_send++; batch, ok := received[next_to_send]; for ok { … }` -/
def afterSend (s : St) : St :=
  if s.next + 1 ∈ s.pending then
    { s with next := s.next + 1, spc := .send (s.next + 1), pending := s.pending.erase (s.next + 1) }
  else { s with next := s.next + 1, spc := .recv }

inductive Step (cap : Nat) : St → St → Prop where
  /-- producer: `it.Push(b)` into a free slot of `cin` -/
  | prodSend (s : St) (k : Nat) (t : List Nat) : s.todo = k :: t → s.cin.length < cap →
      Step cap s { s with todo := t, cin := s.cin ++ [k] }
  /-- producer meets worker `i` waiting in `Next()` -/
  | prodHand (s : St) (k : Nat) (t : List Nat) (i : Nat) : s.todo = k :: t → s.cin = [] →
      s.ws[i]? = some .idle → Step cap s { s with todo := t, ws := s.ws.set i (.hold k) }
  /-- `WaitAndClose` of the source iterator -/
  | inClose (s : St) : s.todo = [] → s.cin = [] → s.inClosed = false → Step cap s { s with inClosed := true }
  /-- worker `i`: `Next()` takes the head of `cin` (then applies the slice worker) -/
  | wRecv (s : St) (i k : Nat) (t : List Nat) : s.ws[i]? = some .idle → s.cin = k :: t →
      Step cap s { s with cin := t, ws := s.ws.set i (.hold k) }
  /-- worker `i`: `Next()` sees the closed channel; `newIter.Done()` -/
  | wFinish (s : St) (i : Nat) : s.ws[i]? = some .idle → s.cin = [] → s.inClosed = true →
      Step cap s { s with ws := s.ws.set i .done }
  /-- worker `i`: `newIter.Push(batch)` into a free slot of `cmid` -/
  | wSend (s : St) (i k : Nat) : s.ws[i]? = some (.hold k) → s.cmid.length < cap →
      Step cap s { s with cmid := s.cmid ++ [k], ws := s.ws.set i .idle }
  /-- worker `i` meets the sorter waiting in `Next()` -/
  | wHand (s : St) (i k : Nat) : s.ws[i]? = some (.hold k) → s.cmid = [] → s.spc = .recv →
      Step cap s (sorterGot { s with ws := s.ws.set i .idle } k)
  /-- `WaitAndClose` of the workers' iterator -/
  | midClose (s : St) : (∀ pc ∈ s.ws, pc = .done) → s.cmid = [] → s.midClosed = false →
      Step cap s { s with midClosed := true }
  /-- sorter: `Next()` takes the head of `cmid` -/
  | sRecv (s : St) (k : Nat) (t : List Nat) : s.spc = .recv → s.cmid = k :: t →
      Step cap s (sorterGot { s with cmid := t } k)
  /-- sorter: `Next()` sees the closed channel; `newIter.Done()` (what is still in `received` is dropped) -/
  | sFinish (s : St) : s.spc = .recv → s.cmid = [] → s.midClosed = true → Step cap s { s with spc := .done }
  /-- sorter: send into a free slot of `cout` -/
  | sSend (s : St) (k : Nat) : s.spc = .send k → s.cout.length < cap →
      Step cap s (afterSend { s with cout := s.cout ++ [k] })
  /-- sorter meets the consumer -/
  | sHand (s : St) (k : Nat) : s.spc = .send k → s.cout = [] →
      Step cap s (afterSend { s with delivered := s.delivered ++ [k] })
  /-- `WaitAndClose` of the sorted iterator -/
  | outClose (s : St) : s.spc = .done → s.cout = [] → s.outClosed = false → Step cap s { s with outClosed := true }
  /-- consumer: `Next()` takes the head of `cout` -/
  | cRecv (s : St) (k : Nat) (t : List Nat) : s.cout = k :: t →
      Step cap s { s with cout := t, delivered := s.delivered ++ [k] }

/-- reachable from the initial state -/
inductive Reach (cap : Nat) (src : List Nat) (N : Nat) : St → Prop where
  | init : Reach cap src N (init src N)
  | step {s s' : St} : Reach cap src N s → Step cap s s' → Reach cap src N s'

/-- the consumer's `Next()` returned false: the command goes on to its end -/
def Final (s : St) : Prop := s.outClosed = true ∧ s.cout = []

/-- batches held by workers blocked in `Push` -/
def held : List WPc → List Nat
  | [] => []
  | .hold k :: t => k :: held t
  | _ :: t => held t

def sheld : SPc → List Nat
  | .send k => [k]
  | _ => []

/-- number of copies of batch `k` in the whole system -/
def cnt (s : St) (k : Nat) : Nat :=
  s.todo.count k + s.cin.count k + (held s.ws).count k + s.cmid.count k + s.pending.count k +
  (sheld s.spc).count k + s.cout.count k + s.delivered.count k

def notDone : List WPc → Nat
  | [] => 0
  | .done :: t => notDone t
  | _ :: t => notDone t + 1

def b2n (b : Bool) : Nat := if b then 0 else 1

/-- ranking function: distance of every batch to the consumer + protocol steps still to do -/
def rank (s : St) : Nat :=
  8 * s.todo.length + 7 * s.cin.length + 6 * (held s.ws).length + 5 * s.cmid.length +
  4 * s.pending.length + 3 * (sheld s.spc).length + 2 * s.cout.length +
  b2n s.inClosed + notDone s.ws + b2n s.midClosed + (if s.spc = .done then 0 else 1) + b2n s.outClosed

end ObiVerif.ReseqSteps
