import ObiVerif.Model.FlatFile
/-!
# Format sniffing at the logic level: `Buf` (xopen.go) and `OBIMimeTypeGuesser` (universal_read.go)

`Buf` peeks at the first bytes of the stream: gzip / zstd / xz / bzip2 magic numbers (in that order, each test
needing that many bytes to be available: a shorter stream is taken as plain), then drops a UTF-8 byte-order
mark.  `OBIMimeTypeGuesser` reads up to 1 MiB into a zero-filled buffer and calls `mimetype.Detect(buf)`, which
hands the first 3072 bytes (`mimetype`'s read limit; zero padding included for a shorter file) to the detectors.
The five OBITools detectors are attached, in this order (asked in the REVERSE order, see `guessRaw`), to
`text/plain` and to the root `application/octet-stream`: fasta `^>[^ ]`, fastq `^@[^ ](.*\n([^ ]+\n\+|[^ \n]*\n?$)|[^\n\x00]*$)` (third alternative: patch `C02-fastq-sniff-long-title`; second alternative: patches
`C01-fastq-sniff-long-read` and `C01-fastq-sniff-window-edge`), ecopcr2 (prefix), genbank (prefix `LOCUS       ` or
`^[^ ]* +Genetic Sequence Data Bank *\n`), embl (prefix `ID   `); then csv.  `guess` = the first of the five that
fires in the order they are asked.  NOT modelled: the csv detector (asked after the five since patch
`C01-sniff-csv-asked-last`; before it, it was asked first and claimed FASTQ files with commas and quotes in
their titles).  The built-in detectors of gabriel-vasile/mimetype (binary magic numbers; html, xml, svg,
json, …) are asked AFTER the five: whenever the real code answers one of them the model must say `other`.
-/
namespace ObiVerif.Sniff
open ObiVerif.Chunk ObiVerif.Parse

inductive Kind where
  | plain | gzip | zstd | xz | bzip2
  deriving Repr, DecidableEq

/-- `Buf`: which decompressor is put in front of the stream -/
def magic (d : Seq) : Kind :=
  if d.length < 2 then .plain
  else if d.take 2 == [0x1f, 0x8b] then .gzip
  else if d.length < 4 then .plain
  else if d.take 4 == [0x28, 0xb5, 0x2f, 0xfd] then .zstd
  else if d.length < 6 then .plain
  else if d.take 6 == [0xfd, 0x37, 0x7a, 0x58, 0x5a, 0x00] then .xz
  else if d.take 3 == [0x42, 0x5a, 0x68] then .bzip2
  else .plain

/-- `b.ReadRune()`; `if t != '﻿' { b.UnreadRune() }` -/
def stripBOM (d : Seq) : Seq := if d.take 3 == [0xEF, 0xBB, 0xBF] then d.drop 3 else d

/-- `mimetype` read limit -/
def limit : Nat := 3072

/-- what the detectors see: the first `limit` bytes of the zero-filled 1 MiB buffer -/
def window (payload : Seq) : Seq := (payload ++ List.replicate limit 0).take limit

inductive Mime where
  | fasta | fastq | ecopcr2 | genbank | embl | other
  deriving Repr, DecidableEq

def fastaDetect : Seq → Bool
  | 62 :: c :: _ => c != 32
  | _ => false

/-- `[^ ]+\n\+` from the start of `u`: inside the run of non-blank bytes, a `\n` (not the first byte) followed by `+` -/
def scanPlus : Seq → Bool → Bool
  | [], _ => false
  | c :: rest, consumed =>
    if c == 32 then false
    else if consumed && c == 10 && rest.head? == some 43 then true
    else scanPlus rest true

/-- `[^ \n]*\n?$`: neither blank nor line feed up to the end of the window, except a line feed as very last
byte (patch `C01-fastq-sniff-window-edge`) -/
def lineToEnd (u : Seq) : Bool :=
  match u.dropWhile (fun c => c != 32 && c != 10) with
  | [] => true
  | [c] => c == 10
  | _ => false

/-- `[^ \n]+$`, the second alternative before patch `C01-fastq-sniff-window-edge` (kept for the theorem that
shows what the patch repairs): `u` is not empty and has neither blank nor line feed up to the end of the window -/
def lineToEndOld (u : Seq) : Bool := !u.isEmpty && u.all (fun c => c != 32 && c != 10)

def fastqDetectWith (lte : Seq → Bool) : Seq → Bool
  | 64 :: c :: t =>
    c != 32 &&
    (match t.dropWhile (· != 10) with
     | 10 :: u => scanPlus u false || lte u
     | [] => t.all (· != 0)        -- `[^\n\x00]*$`: the window ends inside the title line (patch `C02-fastq-sniff-long-title`)
     | _ => false)
  | _ => false

def fastqDetect : Seq → Bool := fastqDetectWith lineToEnd
/-- the detector before patch `C01-fastq-sniff-window-edge` -/
def fastqDetectOld : Seq → Bool := fastqDetectWith lineToEndOld

/-- `#@ecopcr-v2` -/
def ecopcrKey : Seq := [35, 64, 101, 99, 111, 112, 99, 114, 45, 118, 50]
/-- `Genetic Sequence Data Bank` -/
def gsdbKey : Seq := [71, 101, 110, 101, 116, 105, 99, 32, 83, 101, 113, 117, 101, 110, 99, 101, 32, 68, 97, 116, 97, 32, 66, 97, 110, 107]

/-- `^[^ ]* +Genetic Sequence Data Bank *\n` -/
def gsdbDetect (raw : Seq) : Bool :=
  let a := raw.dropWhile (· != 32)
  let b := a.dropWhile (· == 32)
  a.head? == some 32 && hasPrefix gsdbKey b && ((b.drop gsdbKey.length).dropWhile (· == 32)).head? == some 10

def genbankDetect (raw : Seq) : Bool := hasPrefix gbLOCUS raw || gsdbDetect raw

/-- `mimetype.MIME.Extend` PREPENDS the new node to the children of its parent (`m.children = append([]*MIME{c},
m.children...)`) and `match` asks the children in order: the detectors attached last are asked first, all of
them before the built-in detectors of the library.  Order of the questions (patch `C01-sniff-csv-asked-last`:
csv is attached first, hence asked last): embl, genbank, ecopcr2, fastq, fasta, then csv (not modelled:
`encoding/csv` reader over the window; only asked when the five said no), then the built-in detectors.
`guessRaw` = the first of the five that fires. -/
def guessRaw (raw : Seq) : Mime :=
  if hasPrefix emID raw then .embl
  else if genbankDetect raw then .genbank
  else if hasPrefix ecopcrKey raw then .ecopcr2
  else if fastqDetect raw then .fastq
  else if fastaDetect raw then .fasta
  else .other

/-- the reader `ReadSequencesFromFile` dispatches to, for the (decompressed, BOM-free) payload -/
def guess (payload : Seq) : Mime := guessRaw (window payload)

/-- `Ropen` (`Buf`) + `OBIMimeTypeGuesser` on the bytes `d` of a file: `none` = a decompressor is put in front
of the stream (what it delivers is then sniffed in the same way: `guess (stripBOM payload)`) -/
def sniffFile (d : Seq) : Option Mime := if magic d != .plain then none else some (guess (stripBOM d))

def Mime.name : Mime → String
  | .fasta => "text/fasta" | .fastq => "text/fastq" | .ecopcr2 => "text/ecopcr2"
  | .genbank => "text/genbank" | .embl => "text/embl" | .other => "other"

end ObiVerif.Sniff
