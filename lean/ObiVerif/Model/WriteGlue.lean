import ObiVerif.Model.WriteDev
import ObiVerif.Model.WriteProc
/-!
# The glue between the commands and the four anchored writers (C18)

`pkg/obiformats/universal_write.go` `WriteSequence` (the format-guessing wrapper every command uses by default),
`WriteSequencesToStdout` / `WriteSequencesToFile`, and `pkg/obitools/obiconvert/sequence_writer.go`
`CLIWriteBioSequences` (output format options, `-o`, `-Z`, paired outputs, `--skip-empty`, the stdout default),
transcribed **as they are**, down to the call of `WriteFasta` / `WriteFastq` / `WriteJSON` (the models of
`Model/WriteErr.lean`, `Model/WriteDev.lean`).

A batch is what the glue and the formatters see of it: its order number, whether its slice is empty and, if not,
`batch.Slice()[0].HasQualities()`, and the text each formatter makes of it (data: the formatters are C04's subject).

`WriteSequence(iterator, file, options...)`:

```go
ok := iterator.Next()
if ok {
    batch := iterator.Get(); iterator.PushBack()
    if len(batch.Slice()) > 0 {
        if batch.Slice()[0].HasQualities() { WriteFastq(iterator, file, options...) } else { WriteFasta(...) }
    } else { WriteFasta(...) }
    return newIter, err
}
if iterator.Finished() { return iterator, nil }          // a result with NO batch: the output is not touched at all
return obiiter.NilIBioSequence, fmt.Errorf("input iterator not ready")
```

`Next()` returns false only after setting (or finding) `finished` (`obiiter/batchiterator.go`), so the third branch
is dead; it is kept in the transcription (`Choice.notReady`) and proved unreachable (`Props/C18G.lean`).
-/
namespace ObiVerif.WriteGlue
open ObiVerif.WriteErr ObiVerif.Reseq ObiVerif.WriteProc

/-- one batch as seen by the glue -/
structure GB where
  order : Nat
  firstQual : Option Bool     -- `none`: `len(batch.Slice()) = 0`; `some q`: `batch.Slice()[0].HasQualities() = q`
  fa : Bytes                  -- `FormatFastaBatch`
  fq : Bytes                  -- `FormatFastqBatch`
  js : Bytes                  -- `FormatJSONBatch`

inductive Fmt | fasta | fastq | json
  deriving DecidableEq, Repr

def GB.text (f : Fmt) (b : GB) : Bytes :=
  match f with
  | .fasta => b.fa
  | .fastq => b.fq
  | .json => b.js

/-- the stream handed to a writer: compressed or not (`OptionsCompressed`), how many bytes it accepts, whether its
`Close` fails, whether the writer closes it (`OptionCloseFile` / `OptionDontCloseFile`) -/
structure Out where
  gz : Bool
  limit : Nat
  cf : Bool
  own : Bool

/-- outcome, bytes the stream holds, number of `Close` calls it received when the outcome is `ok` -/
structure Res where
  out : Outcome
  got : Bytes
  closes : Nat
  deriving DecidableEq

/-- the parameters of the `Wfile` models that do not belong to the glue: the compressor, the schedule at which a
pushed pgzip error becomes visible, the size of the `bufio` buffer -/
structure Env where
  c : Codec
  rep : Nat → Bool
  size : Nat

/-- `WriteFasta` / `WriteFastq` / `WriteJSON` over the stream: always starts a writer goroutine, which wraps the
stream (`CompressStream`) and closes the wrapper at the end, for every result, the empty one included -/
def writer (e : Env) (f : Fmt) (o : Out) (arr : List GB) : Res :=
  let chunks := arr.map fun b => (b.order, b.text f)
  let r : Outcome × Bytes :=
    match f, o.gz with
    | .json, true => writeJsonZ e.c e.rep e.size o.limit o.cf o.own chunks
    | .json, false => writeJsonO e.size o.limit o.cf o.own chunks
    | _, true => writeRawZ e.c e.rep e.size o.limit o.cf o.own chunks
    | _, false => writeRawO e.size o.limit o.cf o.own chunks
  ⟨r.1, r.2, if o.own then 1 else 0⟩

/-- `iterator.Next()` on the iterator delivering the batches `arr`: `(ok, iterator.Finished() afterwards)` -/
def next (arr : List GB) : Bool × Bool :=
  match arr with
  | [] => (false, true)      -- channel closed: `finished.Set(); return false`
  | _ :: _ => (true, false)

inductive Choice | start (f : Fmt) | nothing | notReady
  deriving DecidableEq, Repr

/-- the three branches of `WriteSequence` -/
def choice (arr : List GB) : Choice :=
  let (ok, fin) := next arr
  if ok then
    match arr.head? with
    | some b =>
      match b.firstQual with
      | some q => if q then .start .fastq else .start .fasta
      | none => .start .fasta           -- the first batch is empty
    | none => .start .fasta             -- (not reachable: `ok`)
  else if fin then .nothing
  else .notReady

/-- `WriteSequence`: the batch peeked at is pushed back, so the writer receives the whole arrival history -/
def writeSequence (e : Env) (o : Out) (arr : List GB) : Res :=
  match choice arr with
  | .start f => writer e f o arr
  | .nothing => ⟨.ok, [], 0⟩            -- `return iterator, nil`: nothing written, no `Close`
  | .notReady => ⟨.fatal, [], 0⟩        -- the error reaches `log.Fatalf("Write file error")` of `CLIWriteBioSequences`

/-! ## `CLIWriteBioSequences` -/

/-- the options read by `CLIWriteBioSequences` -/
structure Cli where
  format : Option Fmt      -- `CLIOutputFormat()`: `--fastq-output` / `--fasta-output` / `--json-output`, else "guessed"
  toFile : Bool            -- `CLIOutPutFileName() != "-"` (or a file name argument): `…ToFile`, else `…ToStdout`
  gz : Bool                -- `CLICompressed()` (`-Z`)
  paired : Bool            -- `iterator.IsPaired()`
  skipEmpty : Bool         -- `CLISkipEmpty()`

/-- the value of `OptionsSkipEmptySequence` received by the formatter (not passed on paired files) -/
def Cli.skipPassed (c : Cli) : Bool := if c.toFile && c.paired then false else c.skipEmpty

/-- the streams written: `(mate stream?, own)`.  `…ToFile`: the file, plus the `_R2` file of the mates when the iterator
is paired, always `OptionCloseFile`.  `…ToStdout`: standard output only (a paired iterator loses its mates);
`WriteSequencesToStdout` / `WriteFastaToStdout` / `WriteFastqToStdout` append `OptionCloseFile`, `WriteJSONToStdout`
`OptionDontCloseFile`. -/
def Cli.streams (c : Cli) : List (Bool × Bool) :=
  if c.toFile then (if c.paired then [(false, true), (true, true)] else [(false, true)])
  else [(false, c.format != some .json)]

/-- what the file system / the inherited descriptor gives for one stream -/
structure Dest where
  openable : Bool     -- `os.OpenFile(…, O_WRONLY|O_CREATE|O_TRUNC)` succeeds (standard output: always)
  limit : Nat
  cf : Bool

/-- one stream: `os.OpenFile` (`log.Fatalf("open file error")` before any writer exists), then the writer chosen by
the option, or `WriteSequence` -/
def cliOne (e : Env) (c : Cli) (own : Bool) (d : Dest) (arr : List GB) : Res :=
  if !d.openable then ⟨.fatal, [], 0⟩
  else
    let o : Out := ⟨c.gz, d.limit, d.cf, own⟩
    match c.format with
    | some f => writer e f o arr
    | none => writeSequence e o arr

/-- `CLIWriteBioSequences`: `fwd` / `rev` are the arrival histories of the result and of its mates (the second one
is read through `PairedWith()` from the iterator returned by the first writer), `ds` the destinations in the order
of `Cli.streams` -/
def cliWrite (e : Env) (c : Cli) (ds : List Dest) (fwd rev : List GB) : List Res :=
  (c.streams.zip ds).map fun (s, d) => cliOne e c s.2 d (if s.1 then rev else fwd)

/-- the exit status of the command under a schedule of its writer goroutines (`Model/WriteProc.lean`) -/
def cliExit (e : Env) (c : Cli) (ds : List Dest) (fwd rev : List GB) (sched : List Tid) : Option Nat :=
  exitOf ((cliWrite e c ds fwd rev).map fun r => r.out == .fatal) sched

end ObiVerif.WriteGlue
