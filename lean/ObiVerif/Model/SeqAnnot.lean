import ObiVerif.Model.SeqOps
import ObiVerif.Model.SeqHeap
/-!
# Whole-object value model of `ReverseComplement`, `Subsequence`, `Copy`, `Join` (C07)

`Model/SeqOps.lean` has the byte-level functions; here an object is the value of everything these
methods read or rewrite: bases, qualities, the `pairing_mismatches` attribute (a Go `map[string]int`
whose keys look like `(a:30)->(c:12)` and whose values are 1-based positions; rewritten by
`_revcmpMutation` and `_subseqMutation`), and the other annotations (deep-copied by `GetAnnotation`).

A Go map is listed in any order, keys pairwise distinct; Go strings are byte strings.  Assumption of
`subW` (documented in lib/cfg/C07.py): qualities are absent or as long as the sequence.
-/
namespace ObiVerif.SeqAnnot
open ObiVerif.SeqOps

/-- `pairing_mismatches` -/
abbrev Mm := List (Bytes × Int)

structure WObj where
  seq : Bytes
  /-- `[]` = no qualities (`HasQualities()` is `len > 0`) -/
  qual : Bytes
  /-- `none` = the attribute is absent -/
  mm : Option Mm
  rest : Ann
  deriving DecidableEq

/-- the loop of `_revcmpMutation` over the entries: `cmut[rev(m)] = lseq - p + 1`; `none` = panic (a key
shorter than 13 bytes: index out of range in `rev`) -/
def revcmpMm (lseq : Nat) : Mm → Option Mm
  | [] => some []
  | (k, p) :: t =>
    match revcmpKey k, revcmpMm lseq t with
    | some k', some t' => some ((k', revcmpPos lseq p) :: t')
    | _, _ => none

/-- `_revcmpMutation`: nothing happens when the attribute is absent or empty (`ok && len(mut) > 0`) -/
def rcMut (lseq : Nat) : Option Mm → Option (Option Mm)
  | none => some none
  | some [] => some (some [])
  | some m => (revcmpMm lseq m).map some

/-- the quality loop of `ReverseComplement` runs over `sequence.Len()` positions of `qualities`: it
panics when there are qualities but fewer than bases (this is what `Join` leaves behind), and reverses
only the first `Len()` of them when there are more -/
def rcQual (n : Nat) (q : Bytes) : Option Bytes :=
  if q = [] then some []
  else if q.length < n then none
  else some (reverseInPlace (q.take n) ++ q.drop n)

/-- `ReverseComplement` on the whole object; `none` = panic -/
def rcW (o : WObj) : Option WObj :=
  match rcQual o.seq.length o.qual, rcMut o.seq.length o.mm with
  | some q, some mm => some ⟨revcompInPlace o.seq, q, mm, o.rest⟩
  | _, _ => none

/-- the loop of `_subseqMutation(shift, origlen)` -/
def subMm (shift origLen lseq : Nat) (m : Mm) : Mm :=
  m.filterMap fun kp => (subseqPos shift origLen lseq kp.2).map fun np => (kp.1, np)

def subMut (shift origLen lseq : Nat) : Option Mm → Option Mm
  | none => none
  | some [] => some []
  | some m => some (subMm shift origLen lseq m)

/-- the bytes `Subsequence` takes out of a slice for the normalised window -/
def cut (l : Bytes) (fr to n : Nat) : Bytes :=
  if fr < to then SeqHeap.win l fr to else SeqHeap.win l fr n ++ l.take to

/-- `Subsequence(from, to, circular)` on the whole object -/
def subW (o : WObj) (f t : Int) (c : Bool) : Except SubErr WObj :=
  match SeqHeap.subWindow o.seq.length f t c with
  | .error e => .error e
  | .ok (fr, to) =>
    let s := cut o.seq fr to o.seq.length
    .ok ⟨s, cut o.qual fr to o.seq.length, subMut fr o.seq.length s.length o.mm, o.rest⟩

/-- `Copy()` -/
def copyW (o : WObj) : WObj := o

/-- `Join(seq2, _)`: `sequence.Write(seq2.Sequence())` — the qualities are NOT extended -/
def joinW (o o2 : WObj) : WObj := { o with seq := o.seq ++ o2.seq }

/-- a key `rev` can rewrite without panicking -/
def keyLong (k : Bytes) : Bool := 13 ≤ k.length

end ObiVerif.SeqAnnot
