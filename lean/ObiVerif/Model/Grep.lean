/-!
# Model of the record selection of `obigrep` (C16)

Anchors: `pkg/obitools/obigrep/options.go` (the `CLI*Predicate` builders and
`CLISequenceSelectionPredicate`), `pkg/obitools/obigrep/grep.go` (`CLIFilterSequence`),
`pkg/obiseq/predicate.go` (`And`, `Or`, `Not`, `PairedPredicat` and the elementary predicates),
`pkg/obiseq/attributes.go` (`Count`, `GetAttribute`), `pkg/obiseq/class.go`
(`DualAnnotationClassifier`).

A record is `(id, sequence, attribute association list)`; the definition is the attribute
`definition` (as in `BioSequence.Definition`).  Regular expressions, the expression language (gval),
the taxonomy and the approximate pattern matcher are **oracle parameters** (`Oracles`): the theorems
hold for every value of them, the correspondence check instantiates them with the verdicts of the
real libraries passed as data.

A Go predicate that is `nil` ("no constraint") is `none`; a predicate evaluates to `Option Bool`,
`none` being the `log.Fatalf` of `ExpressionPredicat` when an expression cannot be evaluated.
-/
namespace ObiVerif.Grep

/-- attribute values that occur: string, int, bool, float64 (opaque: what `fmt.Sprint` prints and
what `int(f)` gives), statistics maps (opaque) -/
inductive AVal where
  | str (s : String)
  | int (n : Int)
  | bool (b : Bool)
  | flt (shown : String) (trunc : Int)
  /-- a value of another Go type (the `map[string]int` statistics of `merged_taxid`): opaque, known by
  its canonical text -/
  | other (shown : String)
  deriving DecidableEq, Repr, Inhabited

/-- `fmt.Sprint(v)` / `fmt.Sprintf("%v", v)` -/
def AVal.shown : AVal → String
  | .str s => s
  | .int n => toString n
  | .bool b => if b then "true" else "false"
  | .flt s _ => s
  | .other s => s

structure Rec where
  id : String
  seq : List UInt8
  attrs : List (String × AVal)
  deriving DecidableEq, Repr, Inhabited

def bytes (s : String) : List UInt8 := s.toUTF8.toList

/-- `BioSequence.Len` -/
def Rec.len (r : Rec) : Int := r.seq.length

/-- `obiutils.InterfaceToInt` on the value types that occur -/
def AVal.toInt? : AVal → Option Int
  | .int n => some n
  | .flt _ t => some t
  | _ => none

/-- `BioSequence.Count`: the `count` attribute if it converts to an integer, else 1 -/
def Rec.count (r : Rec) : Int :=
  match r.attrs.lookup "count" with
  | some v => (v.toInt?).getD 1
  | none => 1

/-- `BioSequence.Definition` -/
def Rec.definition (r : Rec) : String :=
  match r.attrs.lookup "definition" with
  | some v => v.shown
  | none => ""

/-- the libraries the selection relies on, as parameters -/
structure Oracles where
  /-- `regexp.MustCompile(pat).Match(subject)` -/
  matchRe : String → List UInt8 → Bool
  /-- `OBILang.NewEvaluable(e).EvalBool(record)`; `none` = evaluation error -/
  evalBool : String → Rec → Option Bool
  /-- `Taxonomy.IsSubCladeOf(taxid)` -/
  subCladeOf : Int → Rec → Bool
  /-- `Taxonomy.IsSubCladeOfSlot(slot)` -/
  subCladeOfSlot : String → Rec → Bool
  /-- `Taxonomy.HasRequiredRank(rank)` -/
  hasRank : String → Rec → Bool
  /-- `obiapat.IsPatternMatchSequence(pattern, errormax, bothStrand, allowIndels)` -/
  apat : String → Int → Bool → Bool → Rec → Bool

/-- the option globals of `obigrep/options.go` after parsing -/
structure GrepOpts where
  belongTaxa : List String := []
  notBelongTaxa : List Int := []
  requiredRanks : List String := []
  minLength : Int := 0
  maxLength : Int := 2000000000
  minCount : Int := 0
  maxCount : Int := 2000000000
  seqPatterns : List String := []
  defPatterns : List String := []
  idPatterns : List String := []
  predicates : List String := []
  /-- `_IdList`: `none` = option absent, `some ids` = the trimmed lines of the file -/
  idList : Option (List String) := none
  requiredAttrs : List String := []
  /-- `_AttributePatterns` (a Go map: distinct keys) -/
  attrPatterns : List (String × String) := []
  invert : Bool := false
  approxPatterns : List String := []
  patternError : Int := 0
  patternIndel : Bool := false
  patternOnlyForward : Bool := false
  deriving Inhabited

/-- a runtime predicate -/
abbrev PFun := Rec → Option Bool
/-- a Go `SequencePredicate`, `none` = `nil` -/
abbrev Pred := Option PFun

def pure (f : Rec → Bool) : Pred := some fun r => some (f r)

/-- `SequencePredicate.And` -/
def Pred.and : Pred → Pred → Pred
  | none, q => q
  | some p, none => some p
  | some p, some q => some fun r =>
      match p r with
      | some true => q r
      | x => x

/-- `SequencePredicate.Or` -/
def Pred.or : Pred → Pred → Pred
  | none, q => q
  | some p, none => some p
  | some p, some q => some fun r =>
      match p r with
      | some false => q r
      | x => x

/-- `SequencePredicate.Not` (repaired: the negation of "no constraint" rejects every record; the
unrepaired code returned `nil`, so that `-v` alone kept everything) -/
def Pred.not : Pred → Pred
  | none => some fun _ => some false
  | some p => some fun r => (p r).map (!·)

/-- `p1.And(p2).And(p3)…` over a non-empty list of elementary predicates, as every builder does
(`p := f(l[0]); for x in l[1:] { p = p.And(f(x)) }`); `nil` on the empty list -/
def andAll (l : List PFun) : Pred :=
  match l with
  | [] => none
  | p :: t => t.foldl (fun acc q => Pred.and acc (some q)) (some p)

def orAll (l : List PFun) : Pred :=
  match l with
  | [] => none
  | p :: t => t.foldl (fun acc q => Pred.or acc (some q)) (some p)

def tot (f : Rec → Bool) : PFun := fun r => some (f r)

/-- `CLISequenceSizePredicate` (repaired: the minimum is requested when it is `> 0`, the default being
0; the unrepaired code had default 1 and tested `> 1`, so that `-l 1` was ignored) -/
def sizePredicate (o : GrepOpts) : Pred :=
  if o.minLength > 0 then
    let p := pure fun r => r.len ≥ o.minLength
    if o.maxLength ≠ 2000000000 then p.and (pure fun r => r.len ≤ o.maxLength) else p
  else if o.maxLength ≠ 2000000000 then pure fun r => r.len ≤ o.maxLength
  else none

/-- `CLISequenceCountPredicate` (repaired: the second guard tests `_MaximumCount`; the unrepaired code
tested `_MaximumLength`; and, as for the length, the minimum is requested when `> 0`) -/
def countPredicate (o : GrepOpts) : Pred :=
  if o.minCount > 0 then
    let p := pure fun r => r.count ≥ o.minCount
    if o.maxCount ≠ 2000000000 then p.and (pure fun r => r.count ≤ o.maxCount) else p
  else if o.maxCount ≠ 2000000000 then pure fun r => r.count ≤ o.maxCount
  else none

/-- one `--restrict-to-taxon` argument: `strconv.Atoi` succeeds → taxid, else slot name -/
def taxonPred (O : Oracles) (s : String) : PFun :=
  match s.toInt? with
  | some t => tot (O.subCladeOf t)
  | none => tot (O.subCladeOfSlot s)

/-- `CLIRestrictTaxonomyPredicate` -/
def restrictTaxonomyPredicate (O : Oracles) (o : GrepOpts) : Pred :=
  orAll (o.belongTaxa.map (taxonPred O))

/-- `CLIAvoidTaxonomyPredicate` -/
def avoidTaxonomyPredicate (O : Oracles) (o : GrepOpts) : Pred :=
  match o.notBelongTaxa with
  | [] => none
  | l => (orAll (l.map fun t => tot (O.subCladeOf t))).not

/-- `CLIHasRankDefinedPredicate` -/
def hasRankPredicate (O : Oracles) (o : GrepOpts) : Pred :=
  andAll (o.requiredRanks.map fun k => tot (O.hasRank k))

/-- `CLITaxonomyFilterPredicate` -/
def taxonomyPredicate (O : Oracles) (o : GrepOpts) : Pred :=
  ((hasRankPredicate O o).and (restrictTaxonomyPredicate O o)).and (avoidTaxonomyPredicate O o)

/-- `CLIPredicatesPredicate` -/
def expressionPredicate (O : Oracles) (o : GrepOpts) : Pred :=
  andAll (o.predicates.map fun e => O.evalBool e)

/-- `CLISequencePatternPredicate` / `IsSequenceMatch`: the pattern is compiled with `(?i)` -/
def seqPatternPredicate (O : Oracles) (o : GrepOpts) : Pred :=
  andAll (o.seqPatterns.map fun p => tot fun r => O.matchRe ("(?i)" ++ p) r.seq)

/-- `CLIDefinitionPatternPredicate` / `IsDefinitionMatch` -/
def defPatternPredicate (O : Oracles) (o : GrepOpts) : Pred :=
  andAll (o.defPatterns.map fun p => tot fun r => O.matchRe p (bytes r.definition))

/-- `CLIIdPatternPredicate` / `IsIdMatch` -/
def idPatternPredicate (O : Oracles) (o : GrepOpts) : Pred :=
  andAll (o.idPatterns.map fun p => tot fun r => O.matchRe p (bytes r.id))

/-- `CLIIdListPredicate` / `IsIdIn` -/
def idListPredicate (o : GrepOpts) : Pred :=
  match o.idList with
  | none => none
  | some ids => pure fun r => ids.contains r.id

/-- `obiseq.HasAttribute(name)` (the predicate: only the annotation map is consulted) -/
def hasAttr (k : String) (r : Rec) : Bool := (r.attrs.lookup k).isSome

/-- `CLIHasAttibutePredicate` -/
def hasAttributePredicate (o : GrepOpts) : Pred :=
  andAll (o.requiredAttrs.map fun k => tot (hasAttr k))

/-- `obiseq.IsAttributeMatch(name, pattern)` -/
def attrMatch (O : Oracles) (k pat : String) (r : Rec) : Bool :=
  match r.attrs.lookup k with
  | some v => O.matchRe pat (bytes v.shown)
  | none => false

/-- `CLIIsAttibuteMatchPredicate`: `p := nil; for k, pat := range map { p = p.And(IsAttributeMatch(k, pat)) }` -/
def attrMatchPredicate (O : Oracles) (o : GrepOpts) : Pred :=
  o.attrPatterns.foldl (fun acc kp => Pred.and acc (some (tot (attrMatch O kp.1 kp.2)))) none

/-- `CLISequenceAgrep` -/
def agrepPredicate (O : Oracles) (o : GrepOpts) : Pred :=
  andAll (o.approxPatterns.map fun p => tot (O.apat p o.patternError (!o.patternOnlyForward) o.patternIndel))

/-- `CLISequenceSelectionPredicate` -/
def cliPredicate (O : Oracles) (o : GrepOpts) : Pred :=
  let p := sizePredicate o
  let p := p.and (countPredicate o)
  let p := p.and (taxonomyPredicate O o)
  let p := p.and (expressionPredicate O o)
  let p := p.and (seqPatternPredicate O o)
  let p := p.and (defPatternPredicate O o)
  let p := p.and (idPatternPredicate O o)
  let p := p.and (idListPredicate o)
  let p := p.and (hasAttributePredicate o)
  let p := p.and (attrMatchPredicate O o)
  let p := p.and (agrepPredicate O o)
  if o.invert then p.not else p

/-- verdict of a (possibly nil) predicate on a record, as `CLIFilterSequence` uses it: nil keeps
the record -/
def Pred.eval (p : Pred) (r : Rec) : Option Bool :=
  match p with
  | none => some true
  | some f => f r

/-! ## paired reads -/

inductive Mode where
  | forward | reverse | and | or | andnot | xor
  deriving DecidableEq, Repr, Inhabited

/-- `CLIPairedReadMode`; `none` = `log.Fatalf` -/
def parseMode (s : String) : Option Mode :=
  if s = "forward" then some .forward
  else if s = "reverse" then some .reverse
  else if s = "and" then some .and
  else if s = "or" then some .or
  else if s = "andnot" then some .andnot
  else if s = "xor" then some .xor
  else none

/-- the `switch mode` of `PairedPredicat` -/
def combine (m : Mode) (good pgood : Bool) : Bool :=
  match m with
  | .forward => good
  | .reverse => pgood
  | .and => good && pgood
  | .or => good || pgood
  | .andnot => good && !pgood
  | .xor => (good || pgood) && !(good && pgood)

/-- `SequencePredicate.PairedPredicat(mode)` applied to a record and its mate (`none` = unpaired):
the predicate is always evaluated on the record itself first, on the mate only when there is one and
the mode is not `forward` -/
def pairedFun (m : Mode) (p : PFun) (r : Rec) (mate : Option Rec) : Option Bool :=
  match p r with
  | none => none
  | some good =>
    match mate with
    | some q =>
      if m ≠ .forward then
        match p q with
        | none => none
        | some pgood => some (combine m good pgood)
      else some good
    | none => some good

/-- `PairedPredicat(mode)` of a possibly nil predicate: `none` = nil (repaired: for `andnot` and `xor`
the nil predicate is replaced by the one that accepts everything; the unrepaired code returned nil
for every mode, so that these two modes kept every pair when no criterion was effective) -/
def pairedPred (m : Mode) (p : Pred) : Option (Rec → Option Rec → Option Bool) :=
  match p with
  | none => if m = .andnot ∨ m = .xor then some (pairedFun m fun _ => some true) else none
  | some f => some (pairedFun m f)

/-- verdict used by `CLIFilterSequence` on paired input: a nil predicate keeps the record -/
def pairedEval (m : Mode) (p : Pred) (r : Rec) (mate : Option Rec) : Option Bool :=
  match pairedPred m p with
  | none => some true
  | some f => f r mate

/-! ## obidistribute: `DualAnnotationClassifier(key1, key2, na)` — the class of a record -/

def dualClass (key1 key2 na : String) (r : Rec) : String × String :=
  if r.attrs.isEmpty then (na, "")
  else
    let v1 := match r.attrs.lookup key1 with
      | some v => v.shown
      | none => na
    let v2 := if key2 ≠ "" then
        match r.attrs.lookup key2 with
        | some v => v.shown
        | none => na
      else ""
    (v1, v2)

end ObiVerif.Grep
