import ObiVerif.Model.WriteErr
/-!
# `bufio.Writer` over an arbitrary `io.Writer`; compressed `Wfile`; owned / not owned output (C18)

`Model/WriteErr.lean` transcribes `bufio.Writer` over a sink that fails after `limit` bytes.  Here the same
transcription is made generic in the underlying writer (`GW σ` over a device of state `σ` with a write function
`w : σ → Bytes → σ × Nat × Bool` returning the new state, `n` and `err != nil`), so that

* the underlying writer may be **any** `io.Writer`: short writes with a nil error (`n < len(p)`), temporary
  errors, errors that do not depend on a capacity (`Dev`, a device scripted by an arbitrary function of the
  call index, of the bytes it holds and of `len(p)`);
* the underlying writer may be the **pgzip** writer of the compressed `Wfile` (`GZ`), modelled abstractly:
  a compressor is any pair of functions `pre` (the bytes — header and complete blocks — that have been handed
  to the output once the input `h` has been accepted; the block boundaries of pgzip fall at multiples of the
  block size of the *input*, whatever the slicing of the `Write` calls) and `fin` (the last block and the
  trailer, written by `Close`).  The blocks are written to the sink by pgzip's listener goroutine, which
  stops writing after the first failure (`failed`); the error is *pushed* and becomes visible to
  `Write` only later: `rep` is an arbitrary schedule saying, for each check of `z.checkError()` in `Write`,
  whether a pushed error is already seen.  `Close` always sees it (it waits for the listener).

`Wfile.Close` (obiutils/gzipfile.go): `fw.Flush()`, then `gf.Close()` when compressed, then `out.Close()` only
when the `Wfile` owns its output (`OptionCloseFile`; the `...ToStdout` variants of JSON and CSV do not);
any error is fatal in the writers.
-/
namespace ObiVerif.WriteErr
open ObiVerif.Reseq

/-! ## generic `bufio.Writer` -/

structure GW (σ : Type) where
  size : Nat
  buf : Bytes
  err : Bool
  dev : σ

abbrev WFn (σ : Type) := σ → Bytes → σ × Nat × Bool

/-- `(*bufio.Writer).Flush`: `n, err := b.wr.Write(b.buf[0:b.n]); if n < b.n && err == nil { err = io.ErrShortWrite }` -/
def GW.flush {σ} (w : WFn σ) (b : GW σ) : GW σ :=
  if b.err then b
  else if b.buf.length = 0 then b
  else
    let r := w b.dev b.buf
    if r.2.2 || decide (r.2.1 < b.buf.length) then { b with buf := b.buf.drop r.2.1, err := true, dev := r.1 }
    else { b with buf := [], dev := r.1 }

/-- the loop of `(*bufio.Writer).Write`; in the direct path (`n, b.err = b.wr.Write(p)`) a short write with a
nil error is not an error: the loop goes on with `p[n:]` -/
def GW.writeLoop {σ} (w : WFn σ) : Nat → GW σ → Bytes → GW σ × Bytes
  | 0, b, p => (b, p)
  | fuel+1, b, p =>
    if p.length > b.size - b.buf.length && !b.err then
      if b.buf.length = 0 then
        let r := w b.dev p
        GW.writeLoop w fuel { b with err := r.2.2, dev := r.1 } (p.drop r.2.1)
      else
        let n := min p.length (b.size - b.buf.length)
        let b := GW.flush w { b with buf := b.buf ++ p.take n }
        GW.writeLoop w fuel b (p.drop n)
    else (b, p)

def GW.fin {σ} : GW σ × Bytes → GW σ
  | (b, p) => if b.err then b else { b with buf := b.buf ++ p }

/-- `(*bufio.Writer).Write(p)`.  The fuel `len(p)+2` is that of `BW.write`; it is adequate for every device
that makes progress (`n ≥ 1` or an error when `len(p) > 0`), `Lemmas/WriteDev.lean`. -/
def GW.write {σ} (w : WFn σ) (b : GW σ) (p : Bytes) : GW σ :=
  GW.fin (GW.writeLoop w (p.length + 2) b p)

/-- FASTA / FASTQ / CSV: one `Write` per released chunk -/
def emitRawG {σ} (w : WFn σ) (b : GW σ) (t : Bytes) : GW σ := b.write w t

/-- JSON: `started` flag; separator and text are two `Write` calls -/
structure JG (σ : Type) where
  bw : GW σ
  started : Bool

def emitJsonG {σ} (w : WFn σ) (s : JG σ) (t : Bytes) : JG σ :=
  if t.isEmpty then s
  else if s.started then ⟨(s.bw.write w sepJson).write w t, true⟩
  else ⟨s.bw.write w t, true⟩

/-! ## a scripted device: any `io.Writer` -/

/-- `beh calls held len` = `(n, err)` returned by the `calls`-th `Write` of `len` bytes when the device already
holds `held` bytes; `n` is capped by `len`.  The device holds the bytes it accepted. -/
structure Dev where
  beh : Nat → Nat → Nat → Nat × Bool
  calls : Nat
  got : Bytes
  closeFails : Bool

def Dev.write (d : Dev) (p : Bytes) : Dev × Nat × Bool :=
  let r := d.beh d.calls d.got.length p.length
  let n := min r.1 p.length
  ({ d with calls := d.calls + 1, got := d.got ++ p.take n }, n, r.2)

/-- the sink of `Model/WriteErr.lean` as a scripted device -/
def limitBeh (limit : Nat) : Nat → Nat → Nat → Nat × Bool :=
  fun _ held len => (min len (limit - held), decide (min len (limit - held) < len))

/-- uncompressed `Wfile.Close` over a device: `Flush`, then `out.Close()` if owned -/
def closeDev (own : Bool) (b : GW Dev) : Outcome × Bytes :=
  let b := b.flush Dev.write
  if b.err || (own && b.dev.closeFails) then (.fatal, b.dev.got) else (.ok, b.dev.got)

def writeRawDev (size : Nat) (beh : Nat → Nat → Nat → Nat × Bool) (cf own : Bool) (arr : List (Nat × Bytes)) :
    Outcome × Bytes :=
  closeDev own (run (emitRawG Dev.write) (emitRawG Dev.write) ⟨size, [], false, ⟨beh, 0, [], cf⟩⟩ arr).acc

def writeJsonDev (size : Nat) (beh : Nat → Nat → Nat → Nat × Bool) (cf own : Bool) (arr : List (Nat × Bytes)) :
    Outcome × Bytes :=
  let b0 : GW Dev := (⟨size, [], false, ⟨beh, 0, [], cf⟩⟩ : GW Dev).write Dev.write openJson
  closeDev own ((run (emitJsonG Dev.write) (emitJsonG Dev.write) ⟨b0, false⟩ arr).acc.bw.write Dev.write closeJson)

/-! ## the compressed `Wfile`: `bufio.Writer` over pgzip over the sink -/

/-- an abstract streaming compressor (see the header) -/
structure Codec where
  pre : Bytes → Bytes
  fin : Bytes → Bytes

/-- the complete compressed stream of the input `e` -/
def Codec.stream (c : Codec) (e : Bytes) : Bytes := c.pre e ++ c.fin e

structure GZ where
  ein : Bytes      -- input accepted so far (`z.digest`, `z.size`, the blocks are functions of it)
  sent : Bytes     -- compressed bytes handed to the listener goroutine so far
  failed : Bool    -- the listener met an error (`pushError`): it writes nothing any more
  checks : Nat     -- number of `checkError()` evaluated in `Write` so far (index in `rep`)
  sink : Sink

/-- the listener goroutine brings the output up to `target` (`z.w.Write(buf)` for each new block) -/
def GZ.push (g : GZ) (target : Bytes) : GZ :=
  if g.failed then g
  else
    let r := g.sink.write (target.drop g.sent.length)
    { g with sent := target, failed := r.2.2, sink := r.1 }

/-- `(*pgzip.Writer).Write`: `checkError()` at entry (`return 0, err`); header and complete blocks go to the
listener; `return len(p), z.checkError()` -/
def GZ.write (c : Codec) (rep : Nat → Bool) (g : GZ) (p : Bytes) : GZ × Nat × Bool :=
  if g.failed && rep g.checks then ({ g with checks := g.checks + 1 }, 0, true)
  else
    let g1 := GZ.push { g with ein := g.ein ++ p, checks := g.checks + 2 } (c.pre (g.ein ++ p))
    (g1, p.length, g1.failed && rep (g.checks + 1))

/-- `(*pgzip.Writer).Close`: a pushed error is returned; otherwise the last block and the trailer are written -/
def GZ.close (c : Codec) (g : GZ) : GZ × Bool :=
  if g.failed then (g, true)
  else
    let g1 := GZ.push g (c.stream g.ein)
    (g1, g1.failed)

/-- compressed `Wfile.Close`: `fw.Flush()`, `gf.Close()`, `out.Close()` if owned -/
def closeZ (c : Codec) (rep : Nat → Bool) (own : Bool) (b : GW GZ) : Outcome × Bytes :=
  let b := b.flush (GZ.write c rep)
  let r := GZ.close c b.dev
  if b.err || r.2 || (own && r.1.sink.closeFails) then (.fatal, r.1.sink.got) else (.ok, r.1.sink.got)

def gz0 (limit : Nat) (cf : Bool) : GZ := ⟨[], [], false, 0, ⟨limit, [], cf⟩⟩

def writeRawZ (c : Codec) (rep : Nat → Bool) (size limit : Nat) (cf own : Bool) (arr : List (Nat × Bytes)) :
    Outcome × Bytes :=
  closeZ c rep own (run (emitRawG (GZ.write c rep)) (emitRawG (GZ.write c rep)) ⟨size, [], false, gz0 limit cf⟩ arr).acc

def writeJsonZ (c : Codec) (rep : Nat → Bool) (size limit : Nat) (cf own : Bool) (arr : List (Nat × Bytes)) :
    Outcome × Bytes :=
  let b0 : GW GZ := (⟨size, [], false, gz0 limit cf⟩ : GW GZ).write (GZ.write c rep) openJson
  closeZ c rep own ((run (emitJsonG (GZ.write c rep)) (emitJsonG (GZ.write c rep)) ⟨b0, false⟩ arr).acc.bw.write (GZ.write c rep) closeJson)

/-- the compressor used by the executable model: the theorems (`Props/C18Z.lean`) show that outcome and sink only
depend on the complete stream, so any codec with the stream length measured on the real pgzip will do -/
def lenCodec (zlen : Nat) : Codec := ⟨fun _ => [], fun _ => List.replicate zlen 0⟩

end ObiVerif.WriteErr
