import ObiVerif.Model.Header
import ObiVerif.Model.Json
/-!
# Linear, stack-safe versions of the C02 model functions (fourth pass: sizes at and above the buffer boundaries)

The functions of `Model/Header.lean` / `Model/Json.lean` are the ones the theorems of `Props/C02.lean` talk about.
Two of their traits make them unusable on lines of 64 KiB – 2 MiB:

* the chunk-parser machines append every byte at the END of a list (`idB ++ [c]`, `defB ++ [c]`, `seqB ++ [c]`,
  `qualB ++ [c]`, `out ++ [r]`): quadratic in the length of a line;
* `encStrBody` / `decStrBody` recurse once per byte of a string NOT in tail position: a stack frame per byte.

This file holds the versions the DRIVER runs on the big cases (`op big`): buffers accumulated in reverse, explicit
tail-recursive loops.  Nothing here is used by a property theorem.  `Lemmas/HeaderFast.lean` proves, for every input,
`parseFastaF = parseFasta`, `parseFastqF = parseFastq`, `encStrBodyF = encStrBody`, `decStrBodyF = decStrBody`,
`encodeObjF = encodeObj`, `infoF = info goJson`, `decodeObjF = decodeObj`, `fold60F = fold60`, `formatFastaF = formatFasta`
(restated in `Props/C02.lean`: `fast_model_is_model`); the driver additionally evaluates both versions on every
`rt` / `conc` case and prints `FAST-MISMATCH` when they differ.
-/
namespace ObiVerif.HeaderFast
open ObiVerif.Header
open ObiVerif.Json (JVal JList JMems escByte decU unesc numChar isNumLit lit4)

/-! ## chunk parsers with reversed buffers -/

structure FSt where
  state : Nat := 0
  idR : Bytes := []
  defR : Bytes := []
  seqR : Bytes := []
  qualR : Bytes := []
  ident : Bytes := []
  defn : Bytes := []
  prev : UInt8 := 0
  outR : List Rec := []
deriving Repr

/-- the machine state of `Model/Header.lean` a fast state stands for -/
def FSt.abs (s : FSt) : PSt :=
  { state := s.state, idB := s.idR.reverse, defB := s.defR.reverse, seqB := s.seqR.reverse, qualB := s.qualR.reverse,
    ident := s.ident, defn := s.defn, prev := s.prev, out := s.outR.reverse }

/-- `faStep` on reversed buffers -/
def faStepF (st : FSt) (c : UInt8) : Except Err FSt :=
  match st.state with
  | 0 => if c = 62 then .ok { st with state := 1, prev := c } else .error .fatal
  | 1 => if isSep c then .error .fatal else .ok { st with idR := [c], state := 2, prev := c }
  | 2 =>
    let st := if isSep c then { st with ident := st.idR.reverse, idR := [], state := 3 } else { st with idR := c :: st.idR }
    let st := if isEol c then { st with defn := [], state := 5 } else st
    .ok { st with prev := c }
  | 3 =>
    if isEol c then .ok { st with defn := [], state := 5, prev := c }
    else if !isSpace c then .ok { st with defR := [c], state := 4, prev := c }
    else .ok { st with prev := c }
  | 4 =>
    if isEol c then .ok { st with defn := st.defR.reverse, state := 5, prev := c }
    else .ok { st with defR := c :: st.defR, prev := c }
  | 5 =>
    if !isEol c then
      let C := lower c
      if seqOK C then .ok { st with seqR := [C], state := 6, prev := C } else .error .fatal
    else .ok { st with prev := c }
  | 6 =>
    if c = 62 then
      if st.prev = 13 ∨ st.prev = 10 then
        if st.seqR = [] then .error .fatal
        else .ok { st with outR := ⟨st.ident, st.defn, st.seqR.reverse, none⟩ :: st.outR, state := 1, prev := c }
      else .error .fatal
    else if !isSep c then
      let C := lower c
      if seqOK C then .ok { st with seqR := C :: st.seqR, prev := C } else .error .fatal
    else .ok { st with prev := c }
  | _ => .ok { st with prev := c }

/-- the loop, in tail position -/
def goFa : FSt → Bytes → Except Err FSt
  | st, [] => .ok st
  | st, c :: t =>
    match faStepF st c with
    | .error e => .error e
    | .ok st' => goFa st' t

def parseFastaF (text : Bytes) : Except Err (List Rec) :=
  match text with
  | [] => .error .panic
  | [c] => if c ≠ 62 then .error .fatal else .error .panic
  | c :: d :: _ =>
    if c ≠ 62 then .error .fatal
    else if d = 32 then .error .fatal
    else
      match goFa ({} : FSt) text with
      | .error e => .error e
      | .ok st =>
        if st.state = 6 then
          if st.seqR = [] then .error .fatal
          else .ok ((⟨st.ident, st.defn, st.seqR.reverse, none⟩ :: st.outR).reverse)
        else .ok st.outR.reverse

/-- `storeQ` on the reversed record list: the last record is the head -/
def storeQF (shift : UInt8) (st : FSt) : Except Err FSt :=
  match st.outR with
  | [] => .error .panic
  | last :: rest =>
    if st.qualR = [] then .error .fatal
    else if st.qualR.length ≠ last.seq.length then .error .fatal
    else .ok { st with outR := { last with qual := some (st.qualR.reverse.map (readQ shift)) } :: rest }

/-- `fqStep` on reversed buffers -/
def fqStepF (shift : UInt8) (withQ : Bool) (st : FSt) (c : UInt8) : Except Err FSt :=
  match st.state with
  | 0 => if c = 64 then .ok { st with state := 1, prev := c } else .error .fatal
  | 1 => if isSep c then .error .fatal else .ok { st with idR := [c], state := 2, prev := c }
  | 2 =>
    let st := if isSep c then { st with ident := st.idR.reverse, state := 3 } else { st with idR := c :: st.idR }
    let st := if isEol c then { st with defn := [], state := 5 } else st
    .ok { st with prev := c }
  | 3 =>
    if isEol c then .ok { st with defn := [], state := 5, prev := c }
    else if !isSpace c then .ok { st with defR := [c], state := 4, prev := c }
    else .ok { st with prev := c }
  | 4 =>
    if isEol c then .ok { st with defn := st.defR.reverse, state := 5, prev := c }
    else .ok { st with defR := c :: st.defR, prev := c }
  | 5 =>
    if !isEol c then
      let C := lower c
      .ok { st with seqR := [C], state := 6, prev := C }
    else .ok { st with prev := c }
  | 6 =>
    if isEol c then
      if st.seqR = [] then .error .fatal
      else .ok { st with outR := ⟨st.ident, st.defn, st.seqR.reverse, none⟩ :: st.outR, state := 7, prev := c }
    else
      let C := lower c
      if seqOK C then .ok { st with seqR := C :: st.seqR, prev := C } else .error .fatal
  | 7 =>
    if isEol c then .ok { st with prev := c }
    else if c = 43 then .ok { st with state := 8, prev := c }
    else .error .fatal
  | 8 => if isEol c then .ok { st with state := 9, prev := c } else .ok { st with prev := c }
  | 9 =>
    if isEol c then .ok { st with prev := c }
    else .ok { st with state := 10, qualR := [c], prev := c }
  | 10 =>
    if isEol c then
      match (if withQ then storeQF shift st else .ok st) with
      | .error e => .error e
      | .ok st => .ok { st with state := 11, prev := c }
    else .ok { st with qualR := c :: st.qualR, prev := c }
  | 11 =>
    if isEol c then .ok { st with prev := c }
    else if c = 64 then .ok { st with state := 1, prev := c }
    else .error .fatal
  | _ => .ok { st with prev := c }

def goFq (shift : UInt8) (withQ : Bool) : FSt → Bytes → Except Err FSt
  | st, [] => .ok st
  | st, c :: t =>
    match fqStepF shift withQ st c with
    | .error e => .error e
    | .ok st' => goFq shift withQ st' t

def parseFastqF (shift : UInt8) (withQ : Bool) (text : Bytes) : Except Err (List Rec) :=
  match goFq shift withQ ({} : FSt) text with
  | .error e => .error e
  | .ok st =>
    if st.outR ≠ [] ∧ st.state = 10 then
      match (if withQ then storeQF shift st else .ok st) with
      | .error e => .error e
      | .ok st => .ok st.outR.reverse
    else .ok st.outR.reverse

/-! ## JSON strings: encoder / decoder bodies with an accumulator -/

/-- `encStrBody` with the output accumulated in reverse -/
def encStrBodyRev : Bytes → Bytes → Bytes
  | acc, [] => acc
  | acc, c :: d :: e :: t' =>
    if c = 0xE2 ∧ d = 0x80 ∧ (e = 0xA8 ∨ e = 0xA9) then
      encStrBodyRev ([92, 117, 50, 48, 50, (if e = 0xA8 then 56 else 57)].reverse ++ acc) t'
    else encStrBodyRev ((escByte c).reverse ++ acc) (d :: e :: t')
  | acc, c :: t => encStrBodyRev ((escByte c).reverse ++ acc) t

def encStrBodyF (s : Bytes) : Bytes := (encStrBodyRev [] s).reverse

/-- `decStrBody` with the decoded bytes accumulated in reverse -/
def decStrBodyRev : Bytes → Bytes → Option (Bytes × Bytes)
  | _, [] => none
  | acc, c :: t =>
    if c = 34 then some (acc.reverse, t)
    else if c = 92 then
      match t with
      | [] => none
      | e :: t' =>
        if e = 117 then
          match t' with
          | h1 :: h2 :: h3 :: h4 :: t'' =>
            match decU h1 h2 h3 h4 with
            | some u => decStrBodyRev (u.reverse ++ acc) t''
            | none => none
          | _ => none
        else match unesc e with
          | some b => decStrBodyRev (b :: acc) t'
          | none => none
    else if c < 32 then none
    else decStrBodyRev (c :: acc) t

def decStrBodyF (s : Bytes) : Option (Bytes × Bytes) := decStrBodyRev [] s

/-! ## the encoder / decoder of `Model/Json.lean` calling the fast string functions (same text otherwise) -/

mutual
  def encValF : JVal → Bytes
    | .null => [110, 117, 108, 108]
    | .bool true => [116, 114, 117, 101]
    | .bool false => [102, 97, 108, 115, 101]
    | .num lit => lit
    | .str s => 34 :: (encStrBodyF s ++ [34])
    | .arr l => 91 :: (encElemsF l ++ [93])
    | .obj m => 123 :: (encMemsF m ++ [125])
  def encElemsF : JList → Bytes
    | .nil => []
    | .cons v .nil => encValF v
    | .cons v t => encValF v ++ 44 :: encElemsF t
  def encMemsF : JMems → Bytes
    | .nil => []
    | .cons k v .nil => 34 :: (encStrBodyF k ++ 34 :: 58 :: encValF v)
    | .cons k v t => 34 :: (encStrBodyF k ++ 34 :: 58 :: (encValF v ++ 44 :: encMemsF t))
end

mutual
  def decValF : Nat → Bytes → Option (JVal × Bytes)
    | 0, _ => none
    | _ + 1, [] => none
    | n + 1, c :: t =>
      if c = 34 then (decStrBodyF t).map (fun p => (.str p.1, p.2))
      else if c = 123 then
        match t with
        | [] => none
        | d :: r => if d = 125 then some (.obj .nil, r) else (decMemsF n t).map (fun p => (.obj p.1, p.2))
      else if c = 91 then
        match t with
        | [] => none
        | d :: r => if d = 93 then some (.arr .nil, r) else (decElemsF n t).map (fun p => (.arr p.1, p.2))
      else if c = 116 then lit4 114 117 101 (.bool true) t
      else if c = 110 then lit4 117 108 108 .null t
      else if c = 102 then
        match t with
        | a :: r => if a = 97 then lit4 108 115 101 (.bool false) r else none
        | [] => none
      else if numChar c then
        let lit := (c :: t).takeWhile numChar
        if isNumLit lit then some (.num lit, (c :: t).dropWhile numChar) else none
      else none
  def decElemsF : Nat → Bytes → Option (JList × Bytes)
    | 0, _ => none
    | n + 1, s =>
      match decValF n s with
      | none => none
      | some (v, r) =>
        match r with
        | [] => none
        | d :: r' =>
          if d = 44 then (decElemsF n r').map (fun p => (.cons v p.1, p.2))
          else if d = 93 then some (.cons v .nil, r')
          else none
  def decMemsF : Nat → Bytes → Option (JMems × Bytes)
    | 0, _ => none
    | _ + 1, [] => none
    | n + 1, q :: s =>
      if q ≠ 34 then none else
      match decStrBodyF s with
      | none => none
      | some (k, r) =>
        match r with
        | [] => none
        | col :: r1 =>
          if col ≠ 58 then none else
          match decValF n r1 with
          | none => none
          | some (v, r2) =>
            match r2 with
            | [] => none
            | d :: r3 =>
              if d = 44 then (decMemsF n r3).map (fun p => (.cons k v p.1, p.2))
              else if d = 125 then some (.cons k v .nil, r3)
              else none
end

def decodeObjF (s : Bytes) : Option JMems :=
  match decValF (2 * s.length + 2) s with
  | some (.obj m, []) => some m
  | _ => none

def encodeObjF (m : JMems) : Bytes := encValF (.obj m)

/-- `info goJson` with the fast encoder -/
def infoF (ann : JMems) (defn : Option Bytes) : Bytes :=
  if ann = ObiVerif.Json.goJson.empty ∧ defn = none then [] else encodeObjF (ObiVerif.Json.withDef ann defn)

/-! ## the 60-column folding with an accumulator -/

/-- `foldLinesF` with the lines accumulated in reverse -/
def foldRev : Nat → Bytes → Bytes → Bytes
  | 0, acc, _ => acc
  | n + 1, acc, s => if s = [] then acc else foldRev n (10 :: ((s.take 60).reverse ++ acc)) (s.drop 60)

/-- `fold60` -/
def fold60F (s : Bytes) : Bytes := if s = [] then [] else ((foldRev s.length [] s).drop 1).reverse

def formatFastaF (id info seq : Bytes) : Bytes := 62 :: id ++ 32 :: info ++ 10 :: fold60F seq

end ObiVerif.HeaderFast
