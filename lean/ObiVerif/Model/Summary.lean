import ObiVerif.Model.Command
/-!
# obisummary, field by field (C05 glue pass)

`pkg/obitools/obisummary/obisummary.go`: `DataSummary` (6 integer counters, 7 maps of counters), `Update` (what one
record adds to the summary of the worker that met it), `Add` (the merge of two per-worker summaries, ONE FIELD AT A TIME
as the code has it), `ISummary` (one summary per worker, `rep = summaries[0]; rep = rep.Add(summaries[i])`, then the
document that is printed, with its conditions: the `annotations` section only when some annotation key was met, the
`samples` section inside it, the `obiclean_bad` figure of every sample only when
`rep.variant_count == rep.has_obiclean_status`).

Keys (annotation keys, sample names) are natural numbers (any injective coding of the strings); a `map[string]int` is
a `Counters` association list kept sorted by key (`Model/Command.lean`), so that the number of entries is `len(map)`.
Core Lean only.
-/
namespace ObiVerif.Summary
open ObiVerif.Command

/-- what `Update` looks at in a record; every component is independent of the others (a record may carry
`obiclean_status` without `obiclean_weight`, `merged_sample` without status, both `merged_sample` and `sample`, …) -/
structure SRec where
  /-- `s.Count()` -/
  count : Nat
  /-- `s.Len()` -/
  len : Nat
  /-- `s.HasAttribute("merged_sample")`, with the result of `s.GetIntMap("merged_sample")` (sample → reads; no entry
  when the attribute is not a map of integers) -/
  merged : Option (List (Nat × Nat))
  /-- `s.GetStringMap("obiclean_status")` when it succeeds: sample → `obiclean[k] == "i"` -/
  status : Option (List (Nat × Bool))
  /-- `s.HasAttribute("sample")`, with `s.GetStringAttribute("sample")` -/
  sample : Option Nat
  /-- `s.HasAttribute("obiclean_status")` -/
  hasStatus : Bool
  /-- `s.HasAttribute("obiclean_weight")` -/
  hasWeight : Bool
  /-- the keys of `s.Annotations()` whose value is neither a map nor a slice / is a map / is a slice -/
  scalars : List Nat
  maps : List Nat
  vectors : List Nat

structure DataSummary where
  read_count : Nat
  variant_count : Nat
  symbole_count : Nat
  has_merged_sample : Nat
  has_obiclean_status : Nat
  has_obiclean_weight : Nat
  tags : Counters
  map_tags : Counters
  vector_tags : Counters
  samples : Counters
  sample_variants : Counters
  sample_singletons : Counters
  sample_obiclean_bad : Counters
deriving Repr

/-- `NewDataSummary` -/
def empty : DataSummary := ⟨0, 0, 0, 0, 0, 0, [], [], [], [], [], [], []⟩

/-- `countUpdateIntMap(m1, m2)`: +1 for every key of `m2` -/
def countUpdate (m1 : Counters) (m2 : List (Nat × Nat)) : Counters :=
  m2.foldl (fun m kv => addKey kv.1 1 m) m1

/-- `obc_ok && obiclean[k] == "i"` -/
def isI (status : Option (List (Nat × Bool))) (k : Nat) : Bool :=
  match status with
  | none => false
  | some st => st.lookup k == some true

/-- `plusOneUpdateIntMap(m, key)` over a list of keys (`for k, v := range s.Annotations()` restricted to one kind) -/
def plusOnes (m : Counters) (keys : List Nat) : Counters := keys.foldl (fun m k => addKey k 1 m) m

/-- `DataSummary.Update`, statement by statement -/
def update (d : DataSummary) (s : SRec) : DataSummary :=
  let d := { d with read_count := d.read_count + s.count, variant_count := d.variant_count + 1,
                    symbole_count := d.symbole_count + s.len }
  let d := match s.merged with
    | some samples =>
      { d with has_merged_sample := d.has_merged_sample + 1
               samples := mergeCounters d.samples samples
               sample_variants := countUpdate d.sample_variants samples
               sample_singletons := samples.foldl (fun (m : Counters) (kv : Nat × Nat) => if kv.2 == 1 then addKey kv.1 1 m else m) d.sample_singletons
               sample_obiclean_bad := samples.foldl
                 (fun (m : Counters) (kv : Nat × Nat) => if 1 < kv.2 && isI s.status kv.1 then addKey kv.1 1 m else m) d.sample_obiclean_bad }
    | none =>
      match s.sample with
      | some k =>
        { d with samples := addKey k s.count d.samples
                 sample_variants := addKey k 1 d.sample_variants
                 sample_singletons := if s.count = 1 then addKey k 1 d.sample_singletons else d.sample_singletons }
      | none => d
  let d := if s.hasStatus then { d with has_obiclean_status := d.has_obiclean_status + 1 } else d
  let d := if s.hasWeight then { d with has_obiclean_weight := d.has_obiclean_weight + 1 } else d
  { d with tags := plusOnes d.tags s.scalars, map_tags := plusOnes d.map_tags s.maps,
           vector_tags := plusOnes d.vector_tags s.vectors }

/-- `DataSummary.Add`, one field at a time as the code has it -/
def add (data1 data2 : DataSummary) : DataSummary where
  read_count := data1.read_count + data2.read_count
  variant_count := data1.variant_count + data2.variant_count
  symbole_count := data1.symbole_count + data2.symbole_count
  has_merged_sample := data1.has_merged_sample + data2.has_merged_sample
  has_obiclean_status := data1.has_obiclean_status + data2.has_obiclean_status
  has_obiclean_weight := data1.has_obiclean_weight + data2.has_obiclean_weight
  tags := mergeCounters data1.tags data2.tags
  map_tags := mergeCounters data1.map_tags data2.map_tags
  vector_tags := mergeCounters data1.vector_tags data2.vector_tags
  samples := mergeCounters data1.samples data2.samples
  sample_variants := mergeCounters data1.sample_variants data2.sample_variants
  sample_singletons := mergeCounters data1.sample_singletons data2.sample_singletons
  sample_obiclean_bad := mergeCounters data1.sample_obiclean_bad data2.sample_obiclean_bad

/-- the goroutine `ff` of `ISummary`: the batches a worker took from the channel, in the order it took them -/
def workerSummary (share : List (List SRec)) : DataSummary :=
  share.foldl (fun d batch => batch.foldl update d) empty

/-- `rep := summaries[0]; for i := 1; i < nproc; i++ { rep = rep.Add(summaries[i]) }` (`none`: no worker at all,
`summaries[0]` is out of range) -/
def mergeSummaries : List DataSummary → Option DataSummary
  | [] => none
  | s0 :: rest => some (rest.foldl add s0)

/-- the summary of a data set read by ONE worker in input order: the reference -/
def summaryOf (input : List SRec) : DataSummary := input.foldl update empty

/-- the leaves of the printed document -/
inductive Path where
  | variants | reads | totalLength
  | scalarAttributes | mapAttributes | vectorAttributes
  | keyScalar (k : Nat) | keyMap (k : Nat) | keyVector (k : Nat)
  | sampleCount
  | sampleReads (k : Nat) | sampleVariants (k : Nat) | sampleSingletons (k : Nat) | sampleBad (k : Nat)
deriving DecidableEq, Repr

def lookupD (m : Counters) (k : Nat) : Nat := (m.lookup k).getD 0

/-- the `dict` built at the end of `ISummary` -/
def render (rep : DataSummary) : List (Path × Nat) :=
  [(Path.variants, rep.variant_count), (Path.reads, rep.read_count), (Path.totalLength, rep.symbole_count)] ++
  (if rep.tags.length + rep.map_tags.length + rep.vector_tags.length > 0 then
    [(Path.scalarAttributes, rep.tags.length), (Path.mapAttributes, rep.map_tags.length),
     (Path.vectorAttributes, rep.vector_tags.length)] ++
    rep.tags.map (fun kv => (Path.keyScalar kv.1, kv.2)) ++
    rep.map_tags.map (fun kv => (Path.keyMap kv.1, kv.2)) ++
    rep.vector_tags.map (fun kv => (Path.keyVector kv.1, kv.2)) ++
    (if rep.samples.length > 0 then
      (Path.sampleCount, rep.samples.length) ::
      rep.samples.flatMap (fun kv =>
        [(Path.sampleReads kv.1, kv.2), (Path.sampleVariants kv.1, lookupD rep.sample_variants kv.1),
         (Path.sampleSingletons kv.1, lookupD rep.sample_singletons kv.1)] ++
        (if rep.variant_count = rep.has_obiclean_status then
          [(Path.sampleBad kv.1, lookupD rep.sample_obiclean_bad kv.1)] else []))
    else [])
  else [])

/-- `ISummary`: `shares` = for every worker (`nproc` of them), the batches it took, in order -/
def iSummary (shares : List (List (List SRec))) : Option (List (Path × Nat)) :=
  (mergeSummaries (shares.map workerSummary)).map render

/-! ## the specification: what every field must be for a data set -/

def b2n (b : Bool) : Nat := if b then 1 else 0

def itSamples (s : SRec) : List (Nat × Nat) :=
  match s.merged with
  | some samples => samples
  | none => match s.sample with | some k => [(k, s.count)] | none => []

def itVariants (s : SRec) : List (Nat × Nat) :=
  match s.merged with
  | some samples => samples.map fun kv => (kv.1, 1)
  | none => match s.sample with | some k => [(k, 1)] | none => []

def itSingletons (s : SRec) : List (Nat × Nat) :=
  match s.merged with
  | some samples => (samples.filter fun kv => kv.2 == 1).map fun kv => (kv.1, 1)
  | none => match s.sample with | some k => if s.count = 1 then [(k, 1)] else [] | none => []

def itBad (s : SRec) : List (Nat × Nat) :=
  match s.merged with
  | some samples => (samples.filter fun kv => 1 < kv.2 && isI s.status kv.1).map fun kv => (kv.1, 1)
  | none => []

def ones (keys : List Nat) : List (Nat × Nat) := keys.map fun k => (k, 1)

/-- `d` plus the contributions of the records `l`: every integer field is a SUM over the records, every map the
union-with-sum of the records' (key, increment) pairs -/
def plusRecs (d : DataSummary) (l : List SRec) : DataSummary where
  read_count := d.read_count + (l.map (·.count)).sum
  variant_count := d.variant_count + l.length
  symbole_count := d.symbole_count + (l.map (·.len)).sum
  has_merged_sample := d.has_merged_sample + (l.map fun s => b2n s.merged.isSome).sum
  has_obiclean_status := d.has_obiclean_status + (l.map fun s => b2n s.hasStatus).sum
  has_obiclean_weight := d.has_obiclean_weight + (l.map fun s => b2n s.hasWeight).sum
  tags := mergeCounters d.tags (l.flatMap fun s => ones s.scalars)
  map_tags := mergeCounters d.map_tags (l.flatMap fun s => ones s.maps)
  vector_tags := mergeCounters d.vector_tags (l.flatMap fun s => ones s.vectors)
  samples := mergeCounters d.samples (l.flatMap itSamples)
  sample_variants := mergeCounters d.sample_variants (l.flatMap itVariants)
  sample_singletons := mergeCounters d.sample_singletons (l.flatMap itSingletons)
  sample_obiclean_bad := mergeCounters d.sample_obiclean_bad (l.flatMap itBad)

end ObiVerif.Summary
