/-!
# Model of `pkg/obifp` (Uint64 / Uint128 / Uint256)

Hand transcription of `uint64.go`, `uint128.go`, `uint256.go` (every exported method) and of the generic
constructors of `unint.go`.  Limbs are `Nat`s below `W = 2^64`
(well-formedness is the predicate `WF`); `math/bits` primitives are modelled by their documented
arithmetic meaning (trusted base).  `log.Panicf` is the outcome `.error ()`.  `log.Warnf` has no
effect on the returned value; the number of warnings a call logs is a separate outcome component
(`…Warns`, last section).
-/
namespace ObiVerif.Fp

abbrev W : Nat := 18446744073709551616  -- 2^64

/-- `bits.Mul64` : (hi, lo) -/
def bitsMul64 (x y : Nat) : Nat × Nat := ((x * y) / W, (x * y) % W)
/-- `bits.Add64` : (sum, carryOut) -/
def bitsAdd64 (x y c : Nat) : Nat × Nat := ((x + y + c) % W, (x + y + c) / W)
/-- `bits.Sub64` : (diff, borrowOut) -/
def bitsSub64 (x y b : Nat) : Nat × Nat :=
  if y + b ≤ x then (x - y - b, 0) else (x + W - y - b, 1)
/-- `bits.Div64(hi, lo, y)` panics when `y = 0` or `y ≤ hi` -/
def bitsDiv64 (hi lo y : Nat) : Except Unit (Nat × Nat) :=
  if y = 0 ∨ y ≤ hi then .error () else .ok ((hi * W + lo) / y, (hi * W + lo) % y)
/-- `bits.LeadingZeros64` -/
def bitsLeadingZeros64 (x : Nat) : Nat := 64 - Nat.log2 x - (if x = 0 then 0 else 1)

/-- Go `x << n` on uint64 (n may be ≥ 64, giving 0) -/
def shl64 (x n : Nat) : Nat := (x * 2 ^ n) % W
/-- Go `x >> n` on uint64 -/
def shr64 (x n : Nat) : Nat := x / 2 ^ n
/-- Go `^x` on uint64 -/
def not64 (x : Nat) : Nat := W - 1 - x

/-! ## Uint64 -/

/-- `Uint64.LeftShift64(n, carryIn)`: (value, carry) -/
def leftShift64 (w n carryIn : Nat) : Nat × Nat :=
  if n = 0 then (w, 0)
  else if n < 64 then (Nat.lor (shl64 w n) (Nat.land carryIn (2 ^ n - 1)), shr64 w (64 - n))
  else if n = 64 then (carryIn, w)
  else if n < 128 then (carryIn, shl64 w (n - 64))
  else (0, 0)

/-- `Uint64.RightShift64(n, carryIn)`: (value, carry) -/
def rightShift64 (w n carryIn : Nat) : Nat × Nat :=
  if n = 0 then (w, 0)
  else if n < 64 then (Nat.lor (shr64 w n) (Nat.land carryIn (not64 (2 ^ (64 - n) - 1))), shl64 w (64 - n))
  else if n = 64 then (carryIn, w)
  else if n < 128 then (carryIn, shr64 w (n - 64))
  else (0, 0)

structure U64 where
  w0 : Nat
  deriving Repr, DecidableEq

namespace U64
def WF (u : U64) : Prop := u.w0 < W
def toNat (u : U64) : Nat := u.w0
def leftShift (u : U64) (n : Nat) : U64 := ⟨(leftShift64 u.w0 n 0).1⟩
def rightShift (u : U64) (n : Nat) : U64 := ⟨(rightShift64 u.w0 n 0).1⟩
def add (u v : U64) : Except Unit U64 :=
  let (value, carry) := bitsAdd64 u.w0 v.w0 0
  if carry != 0 then .error () else .ok ⟨value⟩
def sub (u v : U64) : Except Unit U64 :=
  let (value, carry) := bitsSub64 u.w0 v.w0 0
  if carry != 0 then .error () else .ok ⟨value⟩
/-- `Uint64.Mul64`: `carry, value = bits.Mul64(u.w0, v.w0)` -/
def mul64 (u v : U64) : Nat × Nat :=
  let (carry, value) := bitsMul64 u.w0 v.w0
  (value, carry)
def mul (u v : U64) : Except Unit U64 :=
  let (value, carry) := mul64 u v
  if carry != 0 then .error () else .ok ⟨value⟩
def cmp (u v : U64) : Int :=
  if u.w0 < v.w0 then -1 else if u.w0 > v.w0 then 1 else 0
def and (u v : U64) : U64 := ⟨Nat.land u.w0 v.w0⟩
def or (u v : U64) : U64 := ⟨Nat.lor u.w0 v.w0⟩
def xor (u v : U64) : U64 := ⟨Nat.xor u.w0 v.w0⟩
def not (u : U64) : U64 := ⟨not64 u.w0⟩
end U64

/-! ## Uint128 -/

structure U128 where
  w1 : Nat
  w0 : Nat
  deriving Repr, DecidableEq

namespace U128
def WF (u : U128) : Prop := u.w1 < W ∧ u.w0 < W
def toNat (u : U128) : Nat := u.w1 * W + u.w0
def ofNat (n : Nat) : U128 := ⟨(n / W) % W, n % W⟩

def leftShift (u : U128) (n : Nat) : U128 :=
  let (lo, carry) := leftShift64 u.w0 n 0
  let (hi, _) := leftShift64 u.w1 n carry
  ⟨hi, lo⟩
def rightShift (u : U128) (n : Nat) : U128 :=
  let (hi, carry) := rightShift64 u.w1 n 0
  let (lo, _) := rightShift64 u.w0 n carry
  ⟨hi, lo⟩
def add (u v : U128) : Except Unit U128 :=
  let (lo, carry) := bitsAdd64 u.w0 v.w0 0
  let (hi, carry) := bitsAdd64 u.w1 v.w1 carry
  if carry != 0 then .error () else .ok ⟨hi, lo⟩
def add64 (u : U128) (v : Nat) : Except Unit U128 :=
  let (lo, carry) := bitsAdd64 u.w0 v 0
  let (hi, carry) := bitsAdd64 u.w1 0 carry
  if carry != 0 then .error () else .ok ⟨hi, lo⟩
def sub (u v : U128) : Except Unit U128 :=
  let (lo, borrow) := bitsSub64 u.w0 v.w0 0
  let (hi, borrow) := bitsSub64 u.w1 v.w1 borrow
  if borrow != 0 then .error () else .ok ⟨hi, lo⟩
/-- `Uint128.Mul`.  NB: the product `u.w1 * v.w1` (weight 2^128) is not looked at — the
repository's own test `TestUint128_Mul/simple_multiplication` pins `{1,2}*{3,4} = {10,8}`
(known finding D27b). -/
def mul (u v : U128) : Except Unit U128 :=
  let (hi, lo) := bitsMul64 u.w0 v.w0
  let (p0, p1) := bitsMul64 u.w1 v.w0
  let (p2, p3) := bitsMul64 u.w0 v.w1
  let (hi, c0) := bitsAdd64 hi p1 0
  let (hi, c1) := bitsAdd64 hi p3 0
  if p0 != 0 || p2 != 0 || c0 != 0 || c1 != 0 then .error () else .ok ⟨hi, lo⟩
def mul64 (u : U128) (v : Nat) : Except Unit U128 :=
  let (hi, lo) := bitsMul64 u.w0 v
  let (p0, p1) := bitsMul64 u.w1 v
  let (hi, c0) := bitsAdd64 hi p1 0
  if p0 != 0 || c0 != 0 then .error () else .ok ⟨hi, lo⟩
def cmp (u v : U128) : Int :=
  if u.w1 > v.w1 then 1 else if u.w1 < v.w1 then -1
  else if u.w0 > v.w0 then 1 else if u.w0 < v.w0 then -1 else 0
def cmp64 (u : U128) (v : Nat) : Int :=
  if u.w1 > 0 then 1 else if u.w0 > v then 1 else if u.w0 < v then -1 else 0
/-- `QuoRem64`: (q, r) -/
def quoRem64 (u : U128) (v : Nat) : Except Unit (U128 × Nat) :=
  if u.w1 < v then do
    let (q0, r) ← bitsDiv64 u.w1 u.w0 v
    pure (⟨0, q0⟩, r)
  else do
    let (q1, r) ← bitsDiv64 0 u.w1 v
    let (q0, r) ← bitsDiv64 r u.w0 v
    pure (⟨q1, q0⟩, r)
def quoRem (u v : U128) : Except Unit (U128 × U128) :=
  if v.w1 = 0 then do
    let (q, r64) ← quoRem64 u v.w0
    pure (q, ⟨0, r64⟩)
  else do
    let n := bitsLeadingZeros64 v.w1
    let v1 := v.leftShift n
    let u1 := u.rightShift 1
    let (tq, _) ← bitsDiv64 u1.w1 u1.w0 v1.w1
    let tq := shr64 tq (63 - n)
    let tq := if tq != 0 then tq - 1 else tq
    let q : U128 := ⟨0, tq⟩
    let m ← v.mul64 tq
    let r ← u.sub m
    if r.cmp v ≥ 0 then do
      let q ← q.add64 1
      let r ← r.sub v
      pure (q, r)
    else pure (q, r)
def and (u v : U128) : U128 := ⟨Nat.land u.w1 v.w1, Nat.land u.w0 v.w0⟩
def or (u v : U128) : U128 := ⟨Nat.lor u.w1 v.w1, Nat.lor u.w0 v.w0⟩
def xor (u v : U128) : U128 := ⟨Nat.xor u.w1 v.w1, Nat.xor u.w0 v.w0⟩
def not (u : U128) : U128 := ⟨not64 u.w1, not64 u.w0⟩
end U128

/-! ## Uint256 -/

structure U256 where
  w3 : Nat
  w2 : Nat
  w1 : Nat
  w0 : Nat
  deriving Repr, DecidableEq

namespace U256
def WF (u : U256) : Prop := u.w3 < W ∧ u.w2 < W ∧ u.w1 < W ∧ u.w0 < W
def toNat (u : U256) : Nat := ((u.w3 * W + u.w2) * W + u.w1) * W + u.w0
def isZero (u : U256) : Bool := u.w3 == 0 && u.w2 == 0 && u.w1 == 0 && u.w0 == 0

/-- the whole-limb loop `for ; n >= 64; n -= 64 { u = {u.w2,u.w1,u.w0,0} }` (n < 256: at most 3 turns) -/
def limbsLeft : Nat → U256 → Nat → U256 × Nat
  | 0, u, n => (u, n)
  | fuel+1, u, n => if n ≥ 64 then limbsLeft fuel ⟨u.w2, u.w1, u.w0, 0⟩ (n - 64) else (u, n)
def limbsRight : Nat → U256 → Nat → U256 × Nat
  | 0, u, n => (u, n)
  | fuel+1, u, n => if n ≥ 64 then limbsRight fuel ⟨0, u.w3, u.w2, u.w1⟩ (n - 64) else (u, n)
def leftShift (u : U256) (n : Nat) : U256 :=
  if n ≥ 256 then ⟨0,0,0,0⟩ else
  let (u, n) := limbsLeft 4 u n
  let (w0, carry) := leftShift64 u.w0 n 0
  let (w1, carry) := leftShift64 u.w1 n carry
  let (w2, carry) := leftShift64 u.w2 n carry
  let (w3, _) := leftShift64 u.w3 n carry
  ⟨w3, w2, w1, w0⟩
def rightShift (u : U256) (n : Nat) : U256 :=
  if n ≥ 256 then ⟨0,0,0,0⟩ else
  let (u, n) := limbsRight 4 u n
  let (w3, carry) := rightShift64 u.w3 n 0
  let (w2, carry) := rightShift64 u.w2 n carry
  let (w1, carry) := rightShift64 u.w1 n carry
  let (w0, _) := rightShift64 u.w0 n carry
  ⟨w3, w2, w1, w0⟩
def cmp (u v : U256) : Int :=
  if u.w3 > v.w3 then 1 else if u.w3 < v.w3 then -1
  else if u.w2 > v.w2 then 1 else if u.w2 < v.w2 then -1
  else if u.w1 > v.w1 then 1 else if u.w1 < v.w1 then -1
  else if u.w0 > v.w0 then 1 else if u.w0 < v.w0 then -1 else 0
def add (u v : U256) : Except Unit U256 :=
  let (w0, carry) := bitsAdd64 u.w0 v.w0 0
  let (w1, carry) := bitsAdd64 u.w1 v.w1 carry
  let (w2, carry) := bitsAdd64 u.w2 v.w2 carry
  let (w3, carry) := bitsAdd64 u.w3 v.w3 carry
  if carry != 0 then .error () else .ok ⟨w3, w2, w1, w0⟩
def sub (u v : U256) : Except Unit U256 :=
  let (w0, borrow) := bitsSub64 u.w0 v.w0 0
  let (w1, borrow) := bitsSub64 u.w1 v.w1 borrow
  let (w2, borrow) := bitsSub64 u.w2 v.w2 borrow
  let (w3, borrow) := bitsSub64 u.w3 v.w3 borrow
  if borrow != 0 then .error () else .ok ⟨w3, w2, w1, w0⟩
/-- inner loop of `Uint256.Mul` for row `i`: `j` runs over the limbs `bs` of `v` starting at `j` -/
def mulInner (ai : Nat) (i : Nat) : List Nat → Nat → List Nat → Nat → List Nat × Nat
  | [], _, r, carry => (r, carry)
  | bj :: bs, j, r, carry =>
    let (hi, lo) := bitsMul64 ai bj
    let (lo, c) := bitsAdd64 lo (r.getD (i + j) 0) 0
    let hi := (hi + c) % W
    let (lo, c) := bitsAdd64 lo carry 0
    let hi := (hi + c) % W
    mulInner ai i bs (j + 1) (r.set (i + j) lo) hi
/-- outer loop: rows `as` starting at index `i` -/
def mulOuter (b : List Nat) : List Nat → Nat → List Nat → List Nat
  | [], _, r => r
  | ai :: as, i, r =>
    let (r, carry) := mulInner ai i b 0 r 0
    mulOuter b as (i + 1) (r.set (i + 4) carry)
/-- `Uint256.Mul` (schoolbook product into 8 limbs, little endian) -/
def mul (u v : U256) : Except Unit U256 :=
  let r := mulOuter [v.w0, v.w1, v.w2, v.w3] [u.w0, u.w1, u.w2, u.w3] 0 [0,0,0,0,0,0,0,0]
  if r.getD 4 0 != 0 || r.getD 5 0 != 0 || r.getD 6 0 != 0 || r.getD 7 0 != 0 then .error ()
  else .ok ⟨r.getD 3 0, r.getD 2 0, r.getD 1 0, r.getD 0 0⟩
def lessThan (u v : U256) : Bool := u.cmp v < 0
def greaterThan (u v : U256) : Bool := u.cmp v > 0
def lessThanOrEqual (u v : U256) : Bool := !(u.greaterThan v)
def greaterThanOrEqual (u v : U256) : Bool := !(u.lessThan v)

/-- inner loop of `Div`: `for t.LeftShift(1).LessThanOrEqual(r) { t <<= 1; m <<= 1 }`; `none` = fuel
exhausted (the Go loop does not terminate) -/
def divInner (r : U256) : Nat → U256 → U256 → Option (U256 × U256)
  | 0, _, _ => none
  | fuel+1, t, m =>
    if shr64 t.w3 63 == 0 && (t.leftShift 1).lessThanOrEqual r then divInner r fuel (t.leftShift 1) (m.leftShift 1)
    else some (t, m)
def divOuter (v : U256) : Nat → U256 → U256 → Option (Except Unit U256)
  | 0, _, _ => none
  | fuel+1, q, r =>
    if r.greaterThanOrEqual v then
      match divInner r 300 v ⟨0,0,0,1⟩ with
      | none => none
      | some (t, m) =>
        match r.sub t, q.add m with
        | .ok r', .ok q' => divOuter v fuel q' r'
        | _, _ => some (.error ())
    else some (.ok q)
/-- `Uint256.Div`; `none` = does not terminate (fuel 300 per loop is above the 256 useful iterations) -/
def div (u v : U256) : Option (Except Unit U256) :=
  if v.isZero then some (.error ())
  else if u.isZero || u.lessThan v then some (.ok ⟨0,0,0,0⟩)
  else if v.cmp ⟨0,0,0,1⟩ == 0 then some (.ok u)
  else divOuter v 300 ⟨0,0,0,0⟩ u
def and (u v : U256) : U256 := ⟨Nat.land u.w3 v.w3, Nat.land u.w2 v.w2, Nat.land u.w1 v.w1, Nat.land u.w0 v.w0⟩
def or (u v : U256) : U256 := ⟨Nat.lor u.w3 v.w3, Nat.lor u.w2 v.w2, Nat.lor u.w1 v.w1, Nat.lor u.w0 v.w0⟩
def xor (u v : U256) : U256 := ⟨Nat.xor u.w3 v.w3, Nat.xor u.w2 v.w2, Nat.xor u.w1 v.w1, Nat.xor u.w0 v.w0⟩
def not (u : U256) : U256 := ⟨not64 u.w3, not64 u.w2, not64 u.w1, not64 u.w0⟩
end U256

/-! ## Constants, predicates, casts and thin wrappers (every remaining exported method)

Receivers that the Go method ignores (`Zero`, `MaxValue`, `Set64`) are kept as an argument so that the
signature is the one of the Go method. -/

namespace U64
/-- `Uint64.Zero` -/
def zero (_u : U64) : U64 := ⟨0⟩
/-- `Uint64.MaxValue`: `math.MaxUint64` -/
def maxValue (_u : U64) : U64 := ⟨18446744073709551615⟩
/-- `Uint64.IsZero` -/
def isZero (u : U64) : Bool := u.w0 == 0
/-- `Uint64.Uint64` (no-op cast) -/
def toU64 (u : U64) : U64 := u
/-- `Uint64.Uint128` -/
def toU128 (u : U64) : U128 := ⟨0, u.w0⟩
/-- `Uint64.Uint256` -/
def toU256 (u : U64) : U256 := ⟨0, 0, 0, u.w0⟩
/-- `Uint64.Set64` -/
def set64 (_u : U64) (v : Nat) : U64 := ⟨v⟩
/-- `Uint64.Add64(v, carryIn)` = `bits.Add64(u.w0, v.w0, carryIn)` : (value, carry).  `bits.Add64` documents
"the carry input must be 0 or 1; otherwise the behavior is undefined". -/
def add64 (u v : U64) (carryIn : Nat) : Nat × Nat := bitsAdd64 u.w0 v.w0 carryIn
/-- `Uint64.Sub64(v, carryIn)` = `bits.Sub64(u.w0, v.w0, carryIn)` : (value, borrow), borrow-in 0 or 1 -/
def sub64 (u v : U64) (carryIn : Nat) : Nat × Nat := bitsSub64 u.w0 v.w0 carryIn
def equals (u v : U64) : Bool := u.cmp v == 0
def lessThan (u v : U64) : Bool := u.cmp v < 0
def greaterThan (u v : U64) : Bool := u.cmp v > 0
def lessThanOrEqual (u v : U64) : Bool := !(u.greaterThan v)
def greaterThanOrEqual (u v : U64) : Bool := !(u.lessThan v)
/-- `Uint64.AsUint64` -/
def asUint64 (u : U64) : Nat := u.w0
end U64

namespace U128
def zero (_u : U128) : U128 := ⟨0, 0⟩
def maxValue (_u : U128) : U128 := ⟨18446744073709551615, 18446744073709551615⟩
/-- `Uint128.IsZero`: `u.w0 == 0 && u.w1 == 0` -/
def isZero (u : U128) : Bool := u.w0 == 0 && u.w1 == 0
/-- `Uint128.Uint64`: keeps the low limb (`log.Warnf` when `w1 ≠ 0`, no effect on the value) -/
def toU64 (u : U128) : U64 := ⟨u.w0⟩
def toU128 (u : U128) : U128 := u
def toU256 (u : U128) : U256 := ⟨0, 0, u.w1, u.w0⟩
def set64 (_u : U128) (v : Nat) : U128 := ⟨0, v⟩
/-- `Uint128.Div`: `q, _ := u.QuoRem(v)` -/
def div (u v : U128) : Except Unit U128 := do let (q, _) ← u.quoRem v; pure q
/-- `Uint128.Mod`: `_, r := u.QuoRem(v)` -/
def mod (u v : U128) : Except Unit U128 := do let (_, r) ← u.quoRem v; pure r
/-- `Uint128.Div64`: `q, _ := u.QuoRem64(v)` -/
def div64 (u : U128) (v : Nat) : Except Unit U128 := do let (q, _) ← u.quoRem64 v; pure q
/-- `Uint128.Mod64`: `_, r := u.QuoRem64(v)` -/
def mod64 (u : U128) (v : Nat) : Except Unit Nat := do let (_, r) ← u.quoRem64 v; pure r
def equals (u v : U128) : Bool := u.cmp v == 0
def lessThan (u v : U128) : Bool := u.cmp v < 0
def greaterThan (u v : U128) : Bool := u.cmp v > 0
def lessThanOrEqual (u v : U128) : Bool := !(u.greaterThan v)
def greaterThanOrEqual (u v : U128) : Bool := !(u.lessThan v)
def asUint64 (u : U128) : Nat := u.w0
end U128

namespace U256
def zero (_u : U256) : U256 := ⟨0, 0, 0, 0⟩
def maxValue (_u : U256) : U256 :=
  ⟨18446744073709551615, 18446744073709551615, 18446744073709551615, 18446744073709551615⟩
/-- `Uint256.Uint64`: keeps the low limb (`log.Warnf` when a higher limb is non-zero) -/
def toU64 (u : U256) : U64 := ⟨u.w0⟩
/-- `Uint256.Uint128`: keeps the two low limbs -/
def toU128 (u : U256) : U128 := ⟨u.w1, u.w0⟩
def toU256 (u : U256) : U256 := u
def set64 (_u : U256) (v : Nat) : U256 := ⟨0, 0, 0, v⟩
def equals (u v : U256) : Bool := u.cmp v == 0
def asUint64 (u : U256) : Nat := u.w0
end U256

/-! ## `unint.go`: the generic constructors, instantiated at the three widths

`ZeroUint[T]() = *new(T)` (the Go zero value: every limb 0), `OneUint[T]() = ZeroUint[T]().Set64(1)`,
`From64[T](v) = ZeroUint[T]().Set64(v)`. -/

def zeroUint64 : U64 := ⟨0⟩
def zeroUint128 : U128 := ⟨0, 0⟩
def zeroUint256 : U256 := ⟨0, 0, 0, 0⟩
def from64_64 (v : Nat) : U64 := zeroUint64.set64 v
def from64_128 (v : Nat) : U128 := zeroUint128.set64 v
def from64_256 (v : Nat) : U256 := zeroUint256.set64 v
def oneUint64 : U64 := zeroUint64.set64 1
def oneUint128 : U128 := zeroUint128.set64 1
def oneUint256 : U256 := zeroUint256.set64 1

/-! ## `log.Warnf` as an outcome component

The number of `log.Warnf` calls a method executes (logrus warnings: no effect on the returned value, but observable;
the harness captures them with a logrus hook and compares the count on every case line).  Only the narrowing casts
and `LeftShift64`/`RightShift64` (and their callers) contain a `log.Warnf`; every other method logs nothing.
`Gen/FpGen.lean` regenerates these counts from the Go source (`<method>_warns`), `Props/C20Gen.lean` proves them equal. -/

/-- `Uint64.LeftShift64(n, _)`: the `log.Warnf("Uint64 overflow at LeftShift64 …")` after the switch is reached iff
no case matched, i.e. `n ≥ 128` -/
def leftShift64Warns (n : Nat) : Nat := if n < 128 then 0 else 1
/-- `Uint64.RightShift64(n, _)` -/
def rightShift64Warns (n : Nat) : Nat := if n < 128 then 0 else 1

namespace U64
/-- `Uint64.LeftShift(n)` = one `LeftShift64` -/
def leftShiftWarns (_u : U64) (n : Nat) : Nat := leftShift64Warns n
def rightShiftWarns (_u : U64) (n : Nat) : Nat := rightShift64Warns n
end U64

namespace U128
/-- `Uint128.Uint64`: `if u.w1 != 0 { log.Warnf(…) }` -/
def toU64Warns (u : U128) : Nat := if u.w1 != 0 then 1 else 0
/-- `Uint128.LeftShift(n)` = two `LeftShift64` with the same `n` -/
def leftShiftWarns (_u : U128) (n : Nat) : Nat := leftShift64Warns n + leftShift64Warns n
def rightShiftWarns (_u : U128) (n : Nat) : Nat := rightShift64Warns n + rightShift64Warns n
end U128

namespace U256
/-- `Uint256.Uint64`: `if u.w3 != 0 || u.w2 != 0 || u.w1 != 0 { log.Warnf(…) }` -/
def toU64Warns (u : U256) : Nat := if u.w3 != 0 || u.w2 != 0 || u.w1 != 0 then 1 else 0
/-- `Uint256.Uint128`: `if u.w3 != 0 || u.w2 != 0 { log.Warnf(…) }` -/
def toU128Warns (u : U256) : Nat := if u.w3 != 0 || u.w2 != 0 then 1 else 0
/-- `Uint256.LeftShift(n)`: nothing for `n ≥ 256` (early return), else four `LeftShift64` with the amount left by
the whole-limb loop (hand transcribed like `leftShift`: the method has a `for`) -/
def leftShiftWarns (u : U256) (n : Nat) : Nat :=
  if n ≥ 256 then 0 else
  let m := (limbsLeft 4 u n).2
  leftShift64Warns m + leftShift64Warns m + leftShift64Warns m + leftShift64Warns m
def rightShiftWarns (u : U256) (n : Nat) : Nat :=
  if n ≥ 256 then 0 else
  let m := (limbsRight 4 u n).2
  rightShift64Warns m + rightShift64Warns m + rightShift64Warns m + rightShift64Warns m
end U256

end ObiVerif.Fp
