import ObiVerif.Model.ReadErr
/-!
# Multi-member compressed files behind `ReadSequencesFromFile` (C17)

A gzip file may consist of several members (`cat a.gz b.gz`, bgzip / BGZF), a bzip2, xz or zstd file of several
concatenated streams / frames.  The decompression libraries decode one member after the other; the error that
ends the decoding is reported where it is met: inside a member (truncation, damaged data, checksum) or **at a
member boundary**, where the next header is expected (`gzip.ErrHeader`, `zstd.ErrMagicMismatch`, …: a damaged
identification byte, garbage after the last member).

The libraries are external: what they make of each member is data (`Member`).  What the toolkit does with their
verdict is modelled: `Buf` (xopen.go) only wraps the decoder in a `bufio.Reader`, so the error reaches
`OBIMimeTypeGuesser` / `ReadSeqFileChunk` unchanged (`bufErr`); in particular an error reported at a member
boundary is NOT the end of the file.
-/
namespace ObiVerif.ReadErr

/-- how a decompression library ends what it could decode -/
inductive LibErr
  | eof       -- clean end of the data
  | ueof      -- io.ErrUnexpectedEOF: the input ends inside a member
  | header    -- no valid member header where one is expected (gzip.ErrHeader, zstd.ErrMagicMismatch)
  | checksum  -- gzip.ErrChecksum, zstd.ErrCRCMismatch …
  | corrupt   -- invalid compressed data (flate.CorruptInputError …)
  | other
  deriving DecidableEq, Repr

/-- `Buf` (xopen.go): `rdr, err = kgzip.NewReader(b); b = bufio.NewReaderSize(rdr, bufSize)` (and the same for
zstd, xz, bzip2): the decoder's final error is what the readers see; only the two errors the readers tell apart
(`io.EOF`, `io.ErrUnexpectedEOF`) keep their identity -/
def bufErr : LibErr → Err
  | .eof => .eof
  | .ueof => .ueof
  | _ => .other

/-- one member as the decoder sees it: the bytes it delivers for it and how it ends (`none` = complete member,
the decoder goes on with the next one; `some e` = the decoding stops here with `e` — `some .eof` being a
library that stops silently, as ulikunitz/xz does on a stream cut in its first block header) -/
structure Member where
  data : Bytes
  err : Option LibErr
  deriving DecidableEq, Repr

/-- the multi-member decoding loop of the libraries: members are decoded in turn until one fails -/
def decodeMembers : List Member → Bytes × LibErr
  | [] => ([], .eof)
  | m :: ms =>
    match m.err with
    | some e => (m.data, e)
    | none => let r := decodeMembers ms; (m.data ++ r.1, r.2)

/-- the stream `ReadSequencesFromFile` works on -/
def memberStream (ms : List Member) : Stream :=
  let r := decodeMembers ms
  ⟨r.1, bufErr r.2⟩

/-- `ReadSequencesFromFile` on a multi-member file -/
def readMulti (split : Bytes → Int) (peek bufsz : Nat) (ms : List Member) : FileOutcome :=
  readFile split peek bufsz (memberStream ms)

/-- the members of a file as they are known from the sizes of the members (`sizes`) and the verdict of the
library on the whole file (`n` bytes delivered, then `e`): the members that fit in `n` are complete, the next
one delivers the rest and ends with `e` (the bytes themselves are irrelevant for the verdict: `fill`) -/
def membersOf (fill : UInt8) : List Nat → Nat → LibErr → List Member
  | [], n, e => if n = 0 ∧ e = .eof then [] else [⟨List.replicate n fill, some e⟩]
  | s :: rest, n, e =>
    if s ≤ n then ⟨List.replicate s fill, none⟩ :: membersOf fill rest (n - s) e
    else [⟨List.replicate n fill, some e⟩]

end ObiVerif.ReadErr
