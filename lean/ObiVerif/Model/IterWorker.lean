import ObiVerif.Model.Iter
/-!
# Record-to-slice adapters of `pkg/obiseq/worker.go` and the worker-stage constructors of
`pkg/obiiter/workers.go` (C03)

`SeqToSliceWorker` / `SeqToSliceConditionalWorker` turn a per-record worker
(`SeqWorker = func(*BioSequence) (BioSequenceSlice, error)`) into a per-batch worker by writing the
results of every record into a pre-sized output slice which is **grown on demand**:

```go
output := MakeBioSequenceSlice(len(input))      // len = cap = len(input), cells nil
i := 0
for _, s := range input {
    r, err := worker(s)
    if err == nil {
        for _, rs := range r {
            if i == len(output) {
                output = slices.Grow(output, cap(output))
                output = output[:cap(output)]
            }
            output[i] = rs
            i++
        }
    } else if breakOnError { return BioSequenceSlice{}, err } else { log.Warnf(...) }
}
return output[0:i], nil
```

The slice is transcribed as the list of its cells (`none` = a nil pointer never written) — `len = cap`
is an invariant of the code (`output[:cap(output)]`).  The capacity the Go runtime gives after
`slices.Grow(output, cap(output))` is at least `len + cap` but otherwise unspecified (size classes):
it is the parameter `g` (new capacity as a function of the old one) the theorems quantify over.
`output[i] = rs` with `i ≥ len(output)` is the explicit outcome `panic`, a `nil` cell inside
`output[0:i]` too (the consumers dereference every record).
-/
namespace ObiVerif.Iter

/-- a per-record worker: `none` = the worker returned an error -/
abbrev SeqWorker := Rec → Option (List Rec)

/-- outcome of a `SeqSliceWorker` call -/
inductive SliceRes where
  | ok (out : List Rec)
  | error   -- `(BioSequenceSlice{}, err)`: breakOnError and a record failed
  | panic   -- index out of range / nil record
  deriving Repr, DecidableEq

/-- the output slice: its cells (`len = cap`) and the write index `i` -/
abbrev OutSt := List (Option Rec) × Nat

/-- `if i == len(output) { output = slices.Grow(output, cap(output)); output = output[:cap(output)] }` -/
def growIfFull (g : Nat → Nat) (st : OutSt) : OutSt :=
  if st.2 = st.1.length then (st.1 ++ List.replicate (g st.1.length - st.1.length) none, st.2) else st

/-- `output[i] = rs; i++` (index out of range = `none`) -/
def writeCell (st : OutSt) (rs : Rec) : Option OutSt :=
  if st.2 < st.1.length then some (st.1.set st.2 (some rs), st.2 + 1) else none

/-- the inner loop `for _, rs := range r { … }` -/
def storeAll (g : Nat → Nat) : OutSt → List Rec → Option OutSt
  | st, [] => some st
  | st, rs :: r =>
    match writeCell (growIfFull g st) rs with
    | none => none
    | some st' => storeAll g st' r

/-- every cell of `output[0:i]` holds a record -/
def allSome : List (Option Rec) → Option (List Rec)
  | [] => some []
  | none :: _ => none
  | some x :: t => match allSome t with
    | none => none
    | some l => some (x :: l)

/-- the outer loop over the input records (`cond` = the condition of `SeqToSliceConditionalWorker`,
constantly true for `SeqToSliceWorker`) -/
def sliceLoop (g : Nat → Nat) (cond : Rec → Bool) (worker : SeqWorker) (breakOnError : Bool) :
    OutSt → List Rec → SliceRes
  | st, [] => match allSome (st.1.take st.2) with
    | some l => .ok l
    | none => .panic
  | st, s :: input =>
    if cond s then
      match worker s with
      | some r =>
        match storeAll g st r with
        | none => .panic
        | some st' => sliceLoop g cond worker breakOnError st' input
      | none => if breakOnError then .error else sliceLoop g cond worker breakOnError st input
    else sliceLoop g cond worker breakOnError st input

/-- `SeqToSliceWorker(worker, breakOnError)` (non-nil worker) applied to `input` -/
def seqToSlice (g : Nat → Nat) (worker : SeqWorker) (breakOnError : Bool) (input : List Rec) : SliceRes :=
  sliceLoop g (fun _ => true) worker breakOnError (List.replicate input.length none, 0) input

/-- `SeqToSliceConditionalWorker(condition, worker, breakOnError)` (non-nil condition and worker).
As the code is: a record that does not satisfy the condition is **not** copied to the output. -/
def seqToSliceCond (g : Nat → Nat) (cond : Rec → Bool) (worker : SeqWorker) (breakOnError : Bool)
    (input : List Rec) : SliceRes :=
  sliceLoop g cond worker breakOnError (List.replicate input.length none, 0) input

/-- the capacity growth used when the model is executed: the least one `slices.Grow` may give -/
def growMin (c : Nat) : Nat := c + c

/-- `worker.ChainWorkers(next)` (both non-nil): `slice, err := worker(seq); if err == nil { slice, err =
SeqToSliceWorker(next, false)(slice) }` — an error of `next` on a record is logged and that record's
results are skipped; a panic of the adapter is `none`, as an error is (`chainPanics` tells them apart) -/
def chainWorkers (g : Nat → Nat) (worker next : SeqWorker) : SeqWorker := fun s =>
  match worker s with
  | none => none
  | some slice =>
    match seqToSlice g next false slice with
    | .ok out => some out
    | _ => none

/-- does the adapter inside `ChainWorkers` panic on this record? -/
def chainPanics (g : Nat → Nat) (worker next : SeqWorker) (s : Rec) : Bool :=
  match worker s with
  | none => false
  | some slice => seqToSlice g next false slice == .panic

/-- what the adapters must compute: the results of the records the worker accepts, in input order
(`breakOnError = false`: failing records are skipped) -/
def keepOk (worker : SeqWorker) (input : List Rec) : List Rec :=
  input.flatMap fun s => (worker s).getD []

/-- specification of the adapters -/
def sliceSpec (cond : Rec → Bool) (worker : SeqWorker) (breakOnError : Bool) (input : List Rec) : SliceRes :=
  let sel := input.filter cond
  if breakOnError && sel.any (fun s => (worker s).isNone) then .error else .ok (keepOk worker sel)

/-- outcome of a worker stage (`MakeISliceWorker` and the constructors built on it) -/
inductive StageRes where
  | ok (pushed : List Batch)
  | fatal   -- `log.Fatalf("Error on sequence processing")`: breakOnError and the slice worker failed
  | panic
  deriving Repr, DecidableEq

/-- `MakeISliceWorker(worker, breakOnError, n)` with a slice worker that may fail: every batch keeps its
number and gets the worker's records; when the worker fails and `breakOnError` is false the batch is
pushed with the (empty) slice the worker returned.  Push order = arrival order here; the real push order
of the `n` goroutines is not determined — callers sort (see `workerStage`). -/
def sliceWorkerStage (w : List Rec → SliceRes) (breakOnError : Bool) : List Batch → StageRes
  | [] => .ok []
  | b :: arr =>
    match w b.2 with
    | .panic => .panic
    | .error =>
      if breakOnError then .fatal else
      match sliceWorkerStage w breakOnError arr with
      | .ok out => .ok ((b.1, []) :: out)
      | r => r
    | .ok l =>
      match sliceWorkerStage w breakOnError arr with
      | .ok out => .ok ((b.1, l) :: out)
      | r => r

/-- `MakeIWorker(worker, breakOnError, n)` = `MakeISliceWorker(SeqToSliceWorker(worker, breakOnError), …)` -/
def iWorker (g : Nat → Nat) (worker : SeqWorker) (breakOnError : Bool) (arr : List Batch) : StageRes :=
  sliceWorkerStage (seqToSlice g worker breakOnError) breakOnError arr

/-- `MakeIConditionalWorker(predicate, worker, breakOnError, n)` -/
def iCondWorker (g : Nat → Nat) (cond : Rec → Bool) (worker : SeqWorker) (breakOnError : Bool)
    (arr : List Batch) : StageRes :=
  sliceWorkerStage (seqToSliceCond g cond worker breakOnError) breakOnError arr

/-! ## nil worker / nil condition branches of the adapters (`pkg/obiseq/worker.go`) -/

/-- `SeqToSliceWorker(worker, breakOnError)`, `worker == nil` included: `return input, nil` -/
def seqToSliceOpt (g : Nat → Nat) (worker : Option SeqWorker) (breakOnError : Bool) (input : List Rec) : SliceRes :=
  match worker with
  | none => .ok input
  | some w => seqToSlice g w breakOnError input

/-- `NilSeqWorker`: `BioSequenceSlice{seq}, nil` -/
def nilSeqWorker : SeqWorker := fun s => some [s]

/-- `SeqToSliceConditionalWorker(condition, worker, breakOnError)` with its nil branches: no condition =
`SeqToSliceWorker(worker, …)`; condition but no worker = the selected records kept as they are -/
def seqToSliceCondOpt (g : Nat → Nat) (cond : Option (Rec → Bool)) (worker : Option SeqWorker)
    (breakOnError : Bool) (input : List Rec) : SliceRes :=
  match cond with
  | none => seqToSliceOpt g worker breakOnError input
  | some c => seqToSliceCond g c (worker.getD nilSeqWorker) breakOnError input

/-- `worker.ChainWorkers(next)` with its nil branches: `nil.ChainWorkers(next) = next`,
`worker.ChainWorkers(nil) = worker` -/
def chainWorkersOpt (g : Nat → Nat) (worker next : Option SeqWorker) : Option SeqWorker :=
  match worker, next with
  | none, n => n
  | some w, none => some w
  | some w, some n => some (chainWorkers g w n)

end ObiVerif.Iter
