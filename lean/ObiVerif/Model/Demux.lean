import ObiVerif.Model.SeqOps
/-!
# Model of demultiplexing (C12)

Transcription of `pkg/obingslibrary/multimatch.go` (`Hamming`, `Levenshtein`, `lookForTag`,
`lookForRescueTag`, the six tag extractors, `TagExtractor`, `ClosestForwardTag/ClosestReverseTag`,
`SampleIdentifier`, `ExtractMultiBarcode`) and `marker.go` (`CheckTagLength`).

The primer hits (`AllMatches` of the four compiled patterns of every marker, property C10) are
**data**: the harness obtains them from the real matcher and hands them to the model.
Go `int` is `Int`; a Go slice expression out of bounds / an index out of range is the outcome
`panic`, `log.Fatalf` is the outcome `fatal` — never totalised away.
Reverse complement is `SeqOps.rc` (C07 proves `revcompInPlace = rc`).
-/
namespace ObiVerif.Demux

open ObiVerif.SeqOps (Bytes rc subsequence SubErr)

/-- abnormal outcomes of the Go code -/
inductive Abort | panic | fatal
  deriving DecidableEq, Repr

abbrev R (α : Type) := Except Abort α

/-- Go `s[a:b]` on a string of bytes: panics unless `0 ≤ a ≤ b ≤ len` -/
def slice (s : Bytes) (a b : Int) : R Bytes :=
  if 0 ≤ a ∧ a ≤ b ∧ b ≤ (s.length : Int) then .ok ((s.drop a.toNat).take (b.toNat - a.toNat))
  else .error .panic

/-- `sequence.Subsequence(from, to, false)` as used by the extractors: an error is `log.Fatalf` -/
def subOrFatal (s : Bytes) (a b : Int) : R Bytes :=
  match subsequence s a b false with
  | .ok (x, _) => .ok x
  | .error .panic => .error .panic
  | .error _ => .error .fatal

/-! ## distances -/

/-- `Hamming` -/
def hammingEq : Bytes → Bytes → Nat
  | a :: as, b :: bs => (if a ≠ b then 1 else 0) + hammingEq as bs
  | _, _ => 0

def hamming (a b : Bytes) : Nat :=
  if a.length ≠ b.length then max a.length b.length else hammingEq a b

/-- inner loop of `Levenshtein` for one character `c = s1[i-1]`:
arguments are the rest of `s2` (from index `j-1`), the previous row from index `j-1`
(`prev[j-1] :: prev[j] :: …`) and `curr[j-1]`; returns `curr[j], curr[j+1], …` -/
def levRowAux (c : UInt8) : Bytes → List Nat → Nat → List Nat
  | b :: bs, pd :: pu :: ps, left =>
    let cost := if c ≠ b then 1 else 0
    let v := min (min (pu + 1) (left + 1)) (pd + cost)
    v :: levRowAux c bs (pu :: ps) v
  | _, _, _ => []

/-- one row: `curr[0] = i`, then the inner loop -/
def levRow (s2 : Bytes) (c : UInt8) (i : Nat) (prev : List Nat) : List Nat :=
  i :: levRowAux c s2 prev i

/-- the outer loop: rows `i, i+1, …` for the remaining characters of `s1` -/
def levRows (s2 : Bytes) : Bytes → Nat → List Nat → List Nat
  | [], _, prev => prev
  | c :: cs, i, prev => levRows s2 cs (i + 1) (levRow s2 c i prev)

/-- `Levenshtein` (two-row dynamic programme) -/
def levenshtein (s1 s2 : Bytes) : Nat :=
  if s1.length = 0 then s2.length
  else if s2.length = 0 then s1.length
  else (levRows s2 s1 1 (List.range (s2.length + 1))).getLastD 0

/-! ## delimiter scanners -/

/-- `for i >= 0 && p(seq[i]) { i-- }` with `i1 = i + 1` -/
def skipWhile (s : Array UInt8) (p : UInt8 → Bool) : Nat → Nat
  | 0 => 0
  | i1 + 1 => if p (s.getD i1 0) then skipWhile s p i1 else i1 + 1

/-- `lookForTag` -/
def lookForTag (seq : Bytes) (delim : UInt8) : Bytes :=
  let a := seq.toArray
  let i1 := skipWhile a (· != delim) seq.length
  let i1 := skipWhile a (· == delim) i1
  let e := i1
  let i1 := skipWhile a (· != delim) i1
  let b := i1
  if i1 = 0 then [] else (seq.drop b).take (e - b)

/-- the same loop started at an arbitrary Go index `i` (`seq[i]` with `i ≥ len` panics) -/
def scanDown (s : Array UInt8) (p : UInt8 → Bool) (i : Int) : R Int :=
  if i < 0 then .ok i
  else if i ≥ (s.size : Int) then .error .panic
  else .ok (((skipWhile s p (i.toNat + 1) : Nat) : Int) - 1)

/-- `lookForRescueTag` -/
def lookForRescueTag (seq : Bytes) (delim : UInt8) (taglength border indel : Int) : R Bytes := do
  let a := seq.toArray
  let i0 : Int := (seq.length : Int) - 1
  let i1 ← scanDown a (· != delim) i0
  let i2 ← scanDown a (· == delim) i1
  let delimlen := i1 - i2
  if border - delimlen > indel then return []
  let i3 := if delimlen > border then i2 + (delimlen - border) else i2
  let e := i3 + 1
  let i4 := i3 - (taglength - indel)
  let i5 ← scanDown a (· != delim) i4
  let i6 ← scanDown a (· == delim) i5
  let delimlen2 := min (i5 - i6) border
  let b := i6 + delimlen2 + 1
  let x := taglength - e + b
  let ax := if x < 0 then -x else x            -- `obiutils.Abs`
  if i6 < 0 ∨ ax > indel then return []
  slice seq b e

/-! ## library -/

inductive Mode | strict | hamming | indel
  deriving DecidableEq, Repr

structure Sample where
  ftag : Bytes
  rtag : Bytes
  name : String
  experiment : String
  annots : List (String × String)
  deriving Repr, DecidableEq

structure Marker where
  fprimer : String
  rprimer : String
  ftaglen : Int
  rtaglen : Int
  fspacer : Int
  rspacer : Int
  fdelim : UInt8
  rdelim : UInt8
  findels : Int
  rindels : Int
  fmode : Mode
  rmode : Mode
  samples : List Sample
  deriving Repr

/-- `CheckTagLength`: the common length of the forward tags and of the reverse tags; `none` is the
error "tag length is not the same for all the PCRs" (the sample sheet is then rejected by
`ReadNGSFilter`) -/
def checkTagLength (samples : List Sample) : Option (Nat × Nat) :=
  match samples with
  | [] => none
  | s :: _ =>
    if samples.all (fun x => x.ftag.length = s.ftag.length && x.rtag.length = s.rtag.length)
    then some (s.ftag.length, s.rtag.length) else none

/-- a tag pair is declared at most once per marker (`GetPCR` / "used more than once") -/
def noDupPairs : List Sample → Bool
  | [] => true
  | s :: t => !(t.any (fun x => x.ftag = s.ftag && x.rtag = s.rtag)) && noDupPairs t

/-- `CheckPrimerUnicity`: no primer is used twice in the sheet (as forward or reverse primer of any
marker); otherwise the sample sheet is rejected -/
def allDistinct : List String → Bool
  | [] => true
  | x :: xs => !xs.contains x && allDistinct xs

def primerUnicity (primers : List (String × String)) : Bool :=
  allDistinct (primers.flatMap (fun p => [p.1, p.2]))

/-- which side of the marker an extractor serves -/
structure Side where
  taglen : Int
  spacer : Int
  delim : UInt8
  indels : Int

def Marker.fside (m : Marker) : Side := ⟨m.ftaglen, m.fspacer, m.fdelim, m.findels⟩
def Marker.rside (m : Marker) : Side := ⟨m.rtaglen, m.rspacer, m.rdelim, m.rindels⟩

/-! ## tag extractors (`seq` is the whole read) -/

/-- `beginFixedTagExtractor` -/
def beginFixed (seq : Bytes) (sd : Side) (begin : Int) : R Bytes :=
  let fb := begin - sd.spacer - sd.taglen
  if fb < 0 then .ok [] else slice seq fb (begin - sd.spacer)

/-- `beginDelimitedTagExtractor` -/
def beginDelimited (seq : Bytes) (sd : Side) (begin : Int) : R Bytes := do
  let taglength := 2 * sd.spacer + sd.taglen
  let fb := begin - taglength * 2
  let fb := if fb < 0 then 0 else fb
  let w ← slice seq fb begin
  return lookForTag w sd.delim

/-- `beginRescueTagExtractor` -/
def beginRescue (seq : Bytes) (sd : Side) (begin : Int) : R Bytes := do
  let frglength := sd.spacer + sd.taglen
  let fb := begin - frglength * 2
  let fb := if fb < 0 then 0 else fb
  let w ← slice seq fb begin
  lookForRescueTag w sd.delim sd.taglen sd.spacer sd.indels

/-- `endFixedTagExtractor` -/
def endFixed (seq : Bytes) (sd : Side) (end_ : Int) : R Bytes := do
  let fe := end_ + sd.spacer + sd.taglen
  if fe > (seq.length : Int) then return []
  let t ← subOrFatal seq (end_ + sd.spacer) fe
  return rc t

/-- `endDelimitedTagExtractor` (note: the window is `2*(spacer+taglen)`, the begin side uses
`2*(2*spacer+taglen)`) -/
def endDelimited (seq : Bytes) (sd : Side) (end_ : Int) : R Bytes := do
  let taglength := sd.spacer + sd.taglen
  let fb := end_ + taglength * 2
  let fb := if fb > (seq.length : Int) then (seq.length : Int) else fb
  if end_ ≥ fb then return []
  let t ← subOrFatal seq end_ fb
  return lookForTag (rc t) sd.delim

/-- `endRescueTagExtractor` -/
def endRescue (seq : Bytes) (sd : Side) (end_ : Int) : R Bytes := do
  let frglength := sd.spacer + sd.taglen
  let fb := end_ + frglength * 2
  let fb := if fb > (seq.length : Int) then (seq.length : Int) else fb
  if end_ ≥ fb then return []
  let t ← subOrFatal seq end_ fb
  lookForRescueTag (rc t) sd.delim sd.taglen sd.spacer sd.indels

/-- the dispatch common to `beginTagExtractor` / `endTagExtractor` -/
def beginTag (seq : Bytes) (sd : Side) (begin : Int) : R Bytes :=
  if sd.taglen = 0 then .ok []
  else if sd.delim = 0 then beginFixed seq sd begin
  else if sd.indels = 0 then beginDelimited seq sd begin
  else beginRescue seq sd begin

def endTag (seq : Bytes) (sd : Side) (end_ : Int) : R Bytes :=
  if sd.taglen = 0 then .ok []
  else if sd.delim = 0 then endFixed seq sd end_
  else if sd.indels = 0 then endDelimited seq sd end_
  else endRescue seq sd end_

/-- `TagExtractor`: (forward tag, reverse tag) of the amplicon delimited by `begin` (start of the
first primer match) and `end` (end of the second one), `forward` = orientation of the first -/
def tagExtractor (m : Marker) (seq : Bytes) (begin end_ : Int) (forward : Bool) : R (Bytes × Bytes) := do
  if forward then
    let f ← beginTag seq m.fside begin
    let r ← endTag seq m.rside end_
    return (f, r)
  else
    let x ← beginTag seq m.rside begin
    let y ← endTag seq m.fside end_
    return (y, x)

/-! ## sample identification -/

/-- one step of the loop of `ClosestForwardTag`; `none` is `math.MaxInt` -/
def closestStep (dist : Bytes → Bytes → Nat) (tag : Bytes) (acc : Bytes × Option Nat) (t : Bytes) :
    Bytes × Option Nat :=
  let d := dist t tag
  let mintag := if acc.2 = some d ∧ acc.1 ≠ [] ∧ t ≠ acc.1 then [] else acc.1
  match acc.2 with
  | none => (t, some d)
  | some md => if d < md then (t, some d) else (mintag, some md)

/-- `ClosestForwardTag` / `ClosestReverseTag` over the tags of the samples, in the order the Go map
delivers them -/
def closestUnique (dist : Bytes → Bytes → Nat) (tags : List Bytes) (tag : Bytes) : Bytes × Option Nat :=
  tags.foldl (closestStep dist tag) ([], none)

/-- proposed tag and distance for one side (`tag ≠ ""`) -/
def propose (mode : Mode) (tags : List Bytes) (tag : Bytes) : Bytes × Option Nat :=
  match mode with
  | .strict => (tag, some 0)
  | .hamming => closestUnique hamming tags tag
  | .indel => closestUnique levenshtein tags tag

def lookupPair (samples : List Sample) (f r : Bytes) : Option Sample :=
  samples.find? (fun s => s.ftag = f && s.rtag = r)

structure Ident where
  fprop : Option (Bytes × Option Nat)   -- present iff the extracted forward tag is not ""
  rprop : Option (Bytes × Option Nat)
  pcr : Option Sample

/-- `SampleIdentifier` -/
def identify (m : Marker) (ftag rtag : Bytes) : Ident :=
  let fp := if ftag ≠ [] then some (propose m.fmode (m.samples.map (·.ftag)) ftag) else none
  let rp := if rtag ≠ [] then some (propose m.rmode (m.samples.map (·.rtag)) rtag) else none
  let f := match fp with | some (t, _) => t | none => []
  let r := match rp with | some (t, _) => t | none => []
  ⟨fp, rp, lookupPair m.samples f r⟩

/-! ## primer hits and the forward → reverse state machine -/

structure PrimerMatch where
  begin : Int
  end_ : Int
  mism : Int
  marker : Int      -- `i` for the forward / reverse primer, `-i` for the complemented partner
  forward : Bool
  deriving DecidableEq, Repr

/-- hits of the four patterns of one marker as returned by `AllMatches`
(`creverse`/`cforward` searched from `locs[0][0]+1` by the code: the harness passes what the real
calls return) -/
structure Hits where
  f : List (Int × Int × Int)
  cr : List (Int × Int × Int)
  r : List (Int × Int × Int)
  cf : List (Int × Int × Int)

def mkMatches (l : List (Int × Int × Int)) (marker : Int) (fwd : Bool) : List PrimerMatch :=
  l.map (fun (b, e, k) => ⟨b, e, k, marker, fwd⟩)

/-- the collection loop of `ExtractMultiBarcode`; markers are numbered from `i` -/
def collect : List Hits → Int → List PrimerMatch
  | [], _ => []
  | h :: hs, i =>
    (if h.f ≠ [] then mkMatches h.f i true ++ mkMatches h.cr (-i) true else []) ++
    (if h.r ≠ [] then mkMatches h.r i false ++ mkMatches h.cf (-i) false else []) ++
    collect hs (i + 1)

/-- stable insertion sort on `Begin` (`slices.SortStableFunc(matches, a.Begin - b.Begin)`) -/
def insertByBegin (x : PrimerMatch) : List PrimerMatch → List PrimerMatch
  | [] => [x]
  | y :: ys => if x.begin ≤ y.begin then x :: y :: ys else y :: insertByBegin x ys

def sortByBegin (l : List PrimerMatch) : List PrimerMatch := l.foldr insertByBegin []

/-- one extracted amplicon, before rendering as annotations -/
structure Amplicon where
  marker : Nat                    -- 1-based index of the marker
  forward : Bool                  -- `from.Forward`: direction
  subFrom : Int                   -- barcode = Subsequence(subFrom, subTo)
  subTo : Int
  barcode : Bytes                 -- oriented forward primer → reverse primer
  fmatch : Bytes
  rmatch : Bytes
  ferr : Int
  rerr : Int
  ftag : Bytes
  rtag : Bytes
  ident : Ident

/-- the body of `case 1` when the partner is found: `none` = nothing appended to `results` -/
def emit (markers : List Marker) (seq : Bytes) (from_ m : PrimerMatch) : R (Option Amplicon) := do
  let len : Int := seq.length
  let idx := from_.marker.toNat
  match markers[idx - 1]? with
  | none => .error .fatal          -- "marker not found" (cannot happen: idx comes from `collect`)
  | some mk =>
    -- match of the first primer: `sequence.String()[from.Begin:from.End]`
    let (err1, m1) ←
      if from_.begin < 0 ∨ from_.end_ > len then pure (true, ([] : Bytes))
      else do let x ← slice seq from_.begin from_.end_; pure (false, x)
    -- match of the second primer: `Subsequence(match.Begin, match.End)`, reverse-complemented
    let (err2, m2) ←
      match subsequence seq m.begin m.end_ false with
      | .ok (x, _) => pure (false, rc x)
      | .error .panic => .error .panic
      | .error _ => pure (true, ([] : Bytes))
    if err1 ∨ err2 then return none
    let (ft, rt) ← tagExtractor mk seq from_.begin m.end_ from_.forward
    match subsequence seq from_.end_ m.begin false with
    | .error .panic => .error .panic
    | .error _ => return none
    | .ok (bc, _) =>
      let bc := if !m.forward then rc bc else bc
      let (fm, rm, fe, re) :=
        if from_.forward then (m1, m2, from_.mism, m.mism) else (m2, m1, m.mism, from_.mism)
      return some ⟨idx, from_.forward, from_.end_, m.begin, bc, fm, rm, fe, re, ft, rt,
        identify mk ft rt⟩

/-- the state machine over the sorted hits: state = `none` (0) or `some from` (1) -/
def machine (markers : List Marker) (seq : Bytes) :
    Option PrimerMatch → List PrimerMatch → R (List Amplicon)
  | _, [] => .ok []
  | none, m :: ms => machine markers seq (if m.marker > 0 then some m else none) ms
  | some from_, m :: ms =>
    if m.marker = -from_.marker ∧ m.forward = from_.forward then do
      let a ← emit markers seq from_ m
      let rest ← machine markers seq none ms
      return (match a with | some x => x :: rest | none => rest)
    else machine markers seq (if m.marker > 0 then some m else none) ms

/-- amplicons of a read given the hits of every marker (markers in the order of the hits) -/
def amplicons (markers : List Marker) (seq : Bytes) (hits : List Hits) : R (List Amplicon) :=
  machine markers seq none (sortByBegin (collect hits 1))

/-! ## rendering as annotated records (what `ExtractMultiBarcode` returns) -/

abbrev Annots := List (String × String)

def Annots.set (a : Annots) (k v : String) : Annots :=
  if a.any (·.1 == k) then a.map (fun p => if p.1 == k then (k, v) else p) else a ++ [(k, v)]

def str (b : Bytes) : String := String.ofList (b.map (fun c => Char.ofNat c.toNat))

def modeName : Mode → String
  | .strict => "strict" | .hamming => "hamming" | .indel => "indel"

def distStr : Option Nat → String
  | some d => toString d
  | none => "9223372036854775807"

structure Record where
  id : String
  seq : Bytes
  annots : Annots

def annotsOf (mk : Marker) (a : Amplicon) : Annots :=
  let an : Annots := []
  let an := an.set "obimultiplex_forward_primer" mk.fprimer
  let an := an.set "obimultiplex_reverse_primer" mk.rprimer
  let an := an.set "obimultiplex_forward_match" (str a.fmatch)
  let an := an.set "obimultiplex_reverse_match" (str a.rmatch)
  let an := an.set "obimultiplex_forward_error" (toString a.ferr)
  let an := an.set "obimultiplex_reverse_error" (toString a.rerr)
  let an := if a.ftag ≠ [] then an.set "obimultiplex_forward_tag" (str a.ftag) else an
  let an := if a.rtag ≠ [] then an.set "obimultiplex_reverse_tag" (str a.rtag) else an
  let an := an.set "obimultiplex_direction" (if a.forward then "forward" else "reverse")
  let an := match a.ident.fprop with
    | some (t, d) =>
      ((an.set "obimultiplex_forward_matching" (modeName mk.fmode)).set
        "obimultiplex_forward_tag_dist" (distStr d)).set "obimultiplex_forward_proposed_tag" (str t)
    | none => an
  let an := match a.ident.rprop with
    | some (t, d) =>
      ((an.set "obimultiplex_reverse_matching" (modeName mk.rmode)).set
        "obimultiplex_reverse_tag_dist" (distStr d)).set "obimultiplex_reverse_proposed_tag" (str t)
    | none => an
  let f := match a.ident.fprop with | some (t, _) => t | none => []
  let r := match a.ident.rprop with | some (t, _) => t | none => []
  match a.ident.pcr with
  | none => an.set "obimultiplex_error"
      ("Cannot associate sample to the tag pair (" ++ str f ++ ":" ++ str r ++ ")")
  | some s =>
    s.annots.foldl (fun acc kv => acc.set kv.1 kv.2)
      ((an.set "sample" s.name).set "experiment" s.experiment)

def rankAll (id : String) (markers : List Marker) (n : Nat) : Nat → List Amplicon → List Record
  | _, [] => []
  | i, a :: as =>
    let mk := markers[a.marker - 1]?
    let an := match mk with | some mk => annotsOf mk a | none => []
    ⟨id ++ "_sub[" ++ toString (a.subFrom + 1) ++ ".." ++ toString a.subTo ++ "]", a.barcode,
      an.set "obimultiplex_amplicon_rank" (toString (i + 1) ++ "/" ++ toString n)⟩
      :: rankAll id markers n (i + 1) as

/-- `ExtractMultiBarcode` -/
def extractMultiBarcode (markers : List Marker) (id : String) (seq : Bytes) (hits : List Hits) :
    R (List Record) := do
  let amps ← amplicons markers seq hits
  if amps.isEmpty then
    return [⟨id, seq, [("obimultiplex_error", "No barcode identified")]⟩]
  return rankAll id markers amps.length 0 amps

/-! ## the obimultiplex stage (`pkg/obitools/obimultiplex/demultiplex.go`, `IExtractBarcode`)

The worker (`ExtractMultiBarcodeSliceWorker`) maps every read to its records; then
* without `--keep-errors` and without `-u`: `FilterOn(HasAttribute("obimultiplex_error").Not())`;
* with `-u file` (which implies "errors are conserved"): `DivideOn(HasAttribute("obimultiplex_error"))`,
  the records with the attribute go to the file, the others to the main output;
* with `--keep-errors` alone: everything goes to the main output. -/

def Annots.get? (a : Annots) (k : String) : Option String :=
  (a.find? (·.1 == k)).map (·.2)

/-- `obiseq.HasAttribute("obimultiplex_error")` -/
def Record.hasError (r : Record) : Bool := r.annots.any (·.1 == "obimultiplex_error")

structure Routed where
  out : List Record
  unidentified : Option (List Record)     -- `none`: no `-u` option

/-- what `IExtractBarcode` does with the records of the worker -/
def route (keepErrors unid : Bool) (recs : List Record) : Routed :=
  if unid then ⟨recs.filter (fun r => !r.hasError), some (recs.filter (·.hasError))⟩
  else if keepErrors then ⟨recs, none⟩
  else ⟨recs.filter (fun r => !r.hasError), none⟩

/-- a data set of reads (identifier, sequence, primer hits) through obimultiplex -/
def obimultiplex (markers : List Marker) (keepErrors unid : Bool)
    (reads : List (String × Bytes × List Hits)) : R Routed := do
  let rs ← reads.mapM (fun rd => extractMultiBarcode markers rd.1 rd.2.1 rd.2.2)
  return route keepErrors unid rs.flatten

end ObiVerif.Demux
