import ObiVerif.Lemmas.Header
/-! refinement of the structural layer (`readFastaS`, `readFastqS`) by the byte state machines
    (`parseFasta`, `parseFastq`) of `Model/Header.lean`, for all texts -/
namespace ObiVerif.Header

/-! ## generic helpers -/

set_option maxRecDepth 100000 in
theorem seqOK_lower_notSep : ∀ c : UInt8, seqOK (lower c) = true → isSep c = false := by
  apply forall_uint8
  decide

theorem isSep_notEol_isSpace {c : UInt8} (h : isSep c = true) (he : isEol c = false) : isSpace c = true := by
  simp [isSep, he] at h; exact h

theorem isSpace_isSep {c : UInt8} (h : isSpace c = true) : isSep c = true := by simp [isSep, h]

theorem unfold_cons_sep {c : UInt8} (t : Bytes) (h : isSep c = true) : unfold (c :: t) = unfold t := by
  simp [unfold, h]

theorem unfold_cons_notSep {c : UInt8} (t : Bytes) (h : isSep c = false) :
    unfold (c :: t) = lower c :: unfold t := by
  simp [unfold, h]

/-! ## FASTA -/

/-- the end of `parseFasta` (what happens to the last pending record) -/
def faFin (st : PSt) : Except Err (List Rec) :=
  if st.state = 6 then
    if st.seqB = [] then .error .fatal
    else pure (st.out ++ [⟨st.ident, st.defn, st.seqB, none⟩])
  else pure st.out

/-- the FASTA machine from an arbitrary state over the remaining text, then the end of the parser -/
def faRun (st : PSt) (l : Bytes) : Except Err (List Rec) := List.foldlM faStep st l >>= faFin

theorem faRun_nil (st : PSt) : faRun st [] = faFin st := rfl

theorem faRun_ok {st st2 : PSt} {c : UInt8} {l : Bytes} (h : faStep st c = .ok st2) :
    faRun st (c :: l) = faRun st2 l := by
  unfold faRun; rw [foldlM_cons_ok faStep st st2 c l h]

theorem faRun_err {st : PSt} {e : Err} {c : UInt8} {l : Bytes} (h : faStep st c = .error e) :
    faRun st (c :: l) = .error e := by
  unfold faRun; simp only [List.foldlM_cons, h]; rfl

theorem parseFasta_eq_faRun (d : UInt8) (t : Bytes) (hd : d ≠ 32) :
    parseFasta (62 :: d :: t) = faRun {} (62 :: d :: t) := by
  simp only [parseFasta, ne_eq, not_true_eq_false, ↓reduceIte, hd]
  rfl

/-- state 6 : without `>` the machine stays in state 6 and collects `unfold` of the text -/
theorem fa_run6 (l : Bytes) (hl : ∀ c ∈ l, c ≠ 62) (i d s q id df : Bytes) (p : UInt8) (r : Rec)
    (h : faRun ⟨6, i, d, s, q, id, df, p, []⟩ l = .ok [r]) : r = ⟨id, df, s ++ unfold l, none⟩ := by
  induction l generalizing s p with
  | nil =>
    rw [faRun_nil] at h
    simp only [faFin, ↓reduceIte, List.nil_append] at h
    split at h
    · cases h
    · simp only [pure, Except.pure, Except.ok.injEq, List.cons.injEq, and_true] at h
      rw [← h]; simp [unfold]
  | cons c t ih =>
    have hne : c ≠ 62 := hl c (by simp)
    have ht : ∀ c ∈ t, c ≠ 62 := fun c hc => hl c (List.mem_cons_of_mem _ hc)
    cases hs : isSep c with
    | true =>
      rw [faRun_ok (st2 := ⟨6, i, d, s, q, id, df, c, []⟩) (by simp [faStep, hne, hs])] at h
      rw [unfold_cons_sep t hs]
      exact ih ht s c h
    | false =>
      cases ho : seqOK (lower c) with
      | false =>
        rw [faRun_err (e := .fatal) (by simp [faStep, hne, hs, ho])] at h
        cases h
      | true =>
        rw [faRun_ok (st2 := ⟨6, i, d, s ++ [lower c], q, id, df, lower c, []⟩)
          (by simp [faStep, hne, hs, ho])] at h
        rw [unfold_cons_notSep t hs, ih ht _ _ h]
        simp

/-- state 5 : ends of line skipped, then state 6 -/
theorem fa_run5 (l : Bytes) (hl : ∀ c ∈ l, c ≠ 62) (i d s q id df : Bytes) (p : UInt8) (r : Rec)
    (h : faRun ⟨5, i, d, s, q, id, df, p, []⟩ l = .ok [r]) : r = ⟨id, df, unfold l, none⟩ := by
  induction l generalizing p with
  | nil =>
    rw [faRun_nil] at h
    simp [faFin, pure, Except.pure] at h
  | cons c t ih =>
    have ht : ∀ c ∈ t, c ≠ 62 := fun c hc => hl c (List.mem_cons_of_mem _ hc)
    cases he : isEol c with
    | true =>
      rw [faRun_ok (st2 := ⟨5, i, d, s, q, id, df, c, []⟩) (by simp [faStep, he])] at h
      rw [unfold_cons_sep t (isEol_isSep he)]
      exact ih ht c h
    | false =>
      cases ho : seqOK (lower c) with
      | false =>
        rw [faRun_err (e := .fatal) (by simp [faStep, he, ho])] at h
        cases h
      | true =>
        rw [faRun_ok (st2 := ⟨6, i, d, [lower c], q, id, df, lower c, []⟩)
          (by simp [faStep, he, ho])] at h
        rw [unfold_cons_notSep t (seqOK_lower_notSep c ho), fa_run6 t ht _ _ _ _ _ _ _ _ h]
        simp

/-- state 4 : the definition up to the end of the title line -/
theorem fa_run4 (l : Bytes) (hl : ∀ c ∈ l.dropWhile (fun c => !isEol c), c ≠ 62)
    (i d s q id df : Bytes) (p : UInt8) (r : Rec)
    (h : faRun ⟨4, i, d, s, q, id, df, p, []⟩ l = .ok [r]) :
    r = ⟨id, d ++ l.takeWhile (fun c => !isEol c), unfold (l.dropWhile (fun c => !isEol c)), none⟩ := by
  induction l generalizing d p with
  | nil =>
    rw [faRun_nil] at h
    simp [faFin, pure, Except.pure] at h
  | cons c t ih =>
    cases he : isEol c with
    | true =>
      rw [faRun_ok (st2 := ⟨5, i, d, s, q, id, d, c, []⟩) (by simp [faStep, he])] at h
      simp only [List.dropWhile_cons, he, Bool.not_true, Bool.false_eq_true, ↓reduceIte,
        List.takeWhile_cons, List.append_nil] at hl ⊢
      rw [unfold_cons_sep t (isEol_isSep he)]
      exact fa_run5 t (fun c hc => hl c (List.mem_cons_of_mem _ hc)) _ _ _ _ _ _ _ _ h
    | false =>
      rw [faRun_ok (st2 := ⟨4, i, d ++ [c], s, q, id, df, c, []⟩) (by simp [faStep, he])] at h
      simp only [List.dropWhile_cons, he, Bool.not_false, ↓reduceIte, List.takeWhile_cons] at hl ⊢
      rw [ih hl _ _ h]
      simp

/-- state 3 : blanks after the identifier -/
theorem fa_run3 (l : Bytes) (hl : ∀ c ∈ l.dropWhile (fun c => !isEol c), c ≠ 62)
    (i d s q id df : Bytes) (p : UInt8) (r : Rec)
    (h : faRun ⟨3, i, d, s, q, id, df, p, []⟩ l = .ok [r]) :
    r = ⟨id, (l.takeWhile (fun c => !isEol c)).dropWhile isSpace,
          unfold (l.dropWhile (fun c => !isEol c)), none⟩ := by
  induction l generalizing p with
  | nil =>
    rw [faRun_nil] at h
    simp [faFin, pure, Except.pure] at h
  | cons c t ih =>
    cases he : isEol c with
    | true =>
      rw [faRun_ok (st2 := ⟨5, i, d, s, q, id, [], c, []⟩) (by simp [faStep, he])] at h
      simp only [List.dropWhile_cons, he, Bool.not_true, Bool.false_eq_true, ↓reduceIte,
        List.takeWhile_cons, List.dropWhile_nil] at hl ⊢
      rw [unfold_cons_sep t (isEol_isSep he)]
      exact fa_run5 t (fun c hc => hl c (List.mem_cons_of_mem _ hc)) _ _ _ _ _ _ _ _ h
    | false =>
      simp only [List.dropWhile_cons, he, Bool.not_false, ↓reduceIte, List.takeWhile_cons] at hl ⊢
      cases hs : isSpace c with
      | true =>
        rw [faRun_ok (st2 := ⟨3, i, d, s, q, id, df, c, []⟩) (by simp [faStep, he, hs])] at h
        exact ih hl _ h
      | false =>
        rw [faRun_ok (st2 := ⟨4, i, [c], s, q, id, df, c, []⟩) (by simp [faStep, he, hs])] at h
        rw [fa_run4 t hl _ _ _ _ _ _ _ _ h]
        simp

/-- state 2 : the identifier, then the rest of the title line, then the body -/
theorem fa_run2 (l : Bytes) (hl : ∀ c ∈ l.dropWhile (fun c => !isEol c), c ≠ 62)
    (i d s q id df : Bytes) (p : UInt8) (r : Rec)
    (h : faRun ⟨2, i, d, s, q, id, df, p, []⟩ l = .ok [r]) :
    r = ⟨i ++ (splitTitle (l.takeWhile (fun c => !isEol c))).1,
          (splitTitle (l.takeWhile (fun c => !isEol c))).2,
          unfold (l.dropWhile (fun c => !isEol c)), none⟩ := by
  induction l generalizing i p with
  | nil =>
    rw [faRun_nil] at h
    simp [faFin, pure, Except.pure] at h
  | cons c t ih =>
    cases hs : isSep c with
    | false =>
      obtain ⟨_, he⟩ := isSep_false hs
      rw [faRun_ok (st2 := ⟨2, i ++ [c], d, s, q, id, df, c, []⟩) (by simp [faStep, he, hs])] at h
      simp only [List.dropWhile_cons, he, Bool.not_false, ↓reduceIte, List.takeWhile_cons] at hl ⊢
      rw [ih hl _ _ h]
      simp [splitTitle, hs]
    | true =>
      cases he : isEol c with
      | true =>
        rw [faRun_ok (st2 := ⟨5, [], d, s, q, i, [], c, []⟩) (by simp [faStep, he, hs])] at h
        simp only [List.dropWhile_cons, he, Bool.not_true, Bool.false_eq_true, ↓reduceIte,
          List.takeWhile_cons] at hl ⊢
        rw [unfold_cons_sep t hs,
          fa_run5 t (fun c hc => hl c (List.mem_cons_of_mem _ hc)) _ _ _ _ _ _ _ _ h]
        simp [splitTitle]
      | false =>
        have hsp := isSep_notEol_isSpace hs he
        rw [faRun_ok (st2 := ⟨3, [], d, s, q, i, df, c, []⟩) (by simp [faStep, he, hs])] at h
        simp only [List.dropWhile_cons, he, Bool.not_false, ↓reduceIte, List.takeWhile_cons] at hl ⊢
        rw [fa_run3 t hl _ _ _ _ _ _ _ _ h]
        simp [splitTitle, hs, hsp]

/-- **FASTA machine refines the structural reading**: when the 7-state machine returns exactly one record on a
    text whose part after the title line holds no `>`, that record is `readFastaS text` -/
theorem parseFasta_refines_structural (text : Bytes) (r : Rec)
    (h : parseFasta text = .ok [r])
    (hbody : ∀ c ∈ (text.drop 1).dropWhile (fun c => !isEol c), c ≠ 62) :
    readFastaS text = some r := by
  match text, h, hbody with
  | [], h, _ => simp [parseFasta] at h
  | [c], h, _ =>
    simp only [parseFasta] at h
    split at h <;> cases h
  | c :: d :: t, h, hbody =>
    by_cases hc : c = 62
    · subst hc
      by_cases hd : d = 32
      · subst hd; simp [parseFasta] at h
      · rw [parseFasta_eq_faRun d t hd] at h
        rw [faRun_ok (st2 := ⟨1, [], [], [], [], [], [], 62, []⟩) (by simp [faStep])] at h
        cases hs : isSep d with
        | true =>
          rw [faRun_err (e := .fatal) (by simp [faStep, hs])] at h
          cases h
        | false =>
          obtain ⟨_, he⟩ := isSep_false hs
          rw [faRun_ok (st2 := ⟨2, [d], [], [], [], [], [], d, []⟩) (by simp [faStep, hs])] at h
          simp only [List.drop_succ_cons, List.drop_zero, List.dropWhile_cons, he, Bool.not_false,
            ↓reduceIte] at hbody
          rw [fa_run2 t hbody _ _ _ _ _ _ _ _ h]
          simp [readFastaS, he, splitTitle, hs]
    · simp [parseFasta, hc] at h

/-! ## FASTQ -/

/-- the end of `parseFastq shift true` -/
def fqFin (sh : UInt8) (st : PSt) : Except Err (List Rec) :=
  if st.out ≠ [] ∧ st.state = 10 then do
    let st ← storeQ sh st
    pure st.out
  else pure st.out

/-- the FASTQ machine from an arbitrary state over the remaining text, then the end of the parser -/
def fqRun (sh : UInt8) (st : PSt) (l : Bytes) : Except Err (List Rec) :=
  List.foldlM (fqStep sh true) st l >>= fqFin sh

theorem fqRun_nil (sh : UInt8) (st : PSt) : fqRun sh st [] = fqFin sh st := rfl

theorem fqRun_ok {sh : UInt8} {st st2 : PSt} {c : UInt8} {l : Bytes} (h : fqStep sh true st c = .ok st2) :
    fqRun sh st (c :: l) = fqRun sh st2 l := by
  unfold fqRun; rw [foldlM_cons_ok (fqStep sh true) st st2 c l h]

theorem fqRun_err {sh : UInt8} {st : PSt} {e : Err} {c : UInt8} {l : Bytes}
    (h : fqStep sh true st c = .error e) : fqRun sh st (c :: l) = .error e := by
  unfold fqRun; simp only [List.foldlM_cons, h]; rfl

theorem parseFastq_eq_fqRun (sh : UInt8) (t : Bytes) : parseFastq sh true t = fqRun sh {} t := rfl

theorem storeQ_len {sh : UInt8} {st st2 : PSt} (h : storeQ sh st = .ok st2) :
    st2.out.length = st.out.length ∧ st2.state = st.state := by
  unfold storeQ at h
  split at h
  · cases h
  · rename_i last revInit hrev
    split at h
    · cases h
    · split at h
      · cases h
      · cases h
        have := congrArg List.length hrev
        simp at this
        simp [this]

theorem fqStep_len {sh : UInt8} {st st2 : PSt} {c : UInt8} (h : fqStep sh true st c = .ok st2) :
    st.out.length ≤ st2.out.length := by
  unfold fqStep at h
  split at h
  all_goals (try split at h)
  all_goals (try split at h)
  all_goals (try split at h)
  all_goals (try (cases h <;> simp <;> done))
  · simp only at h
    split at h
    · cases h; simp
    · cases h
  · cases hs : storeQ sh st with
    | error e => rw [hs] at h; cases h
    | ok st3 =>
      rw [hs] at h
      cases h
      simp [(storeQ_len hs).1]

theorem fqFin_len {sh : UInt8} {st : PSt} {rs : List Rec} (h : fqFin sh st = .ok rs) :
    rs.length = st.out.length := by
  unfold fqFin at h
  split at h
  · cases hs : storeQ sh st with
    | error e => rw [hs] at h; cases h
    | ok st3 => rw [hs] at h; cases h; exact (storeQ_len hs).1
  · cases h; rfl

/-- once two records are out, the answer has at least two records -/
theorem fqRun_len2 (sh : UInt8) (l : Bytes) (st : PSt) (h2 : 2 ≤ st.out.length) (rs : List Rec)
    (h : fqRun sh st l = .ok rs) : 2 ≤ rs.length := by
  induction l generalizing st with
  | nil => rw [fqRun_nil] at h; rw [fqFin_len h]; exact h2
  | cons c t ih =>
    cases hs : fqStep sh true st c with
    | error e => rw [fqRun_err hs] at h; cases h
    | ok st2 =>
      rw [fqRun_ok hs] at h
      exact ih st2 (Nat.le_trans h2 (fqStep_len hs)) h

/-- the machine after the first complete record `x`: waiting for / reading the title and the sequence of a second one -/
def Tail (x : Rec) (st : PSt) : Prop := st.out = [x] ∧ (st.state = 11 ∨ (1 ≤ st.state ∧ st.state ≤ 6))

theorem tail_step {sh : UInt8} {x : Rec} {st st2 : PSt} {c : UInt8} (hT : Tail x st)
    (h : fqStep sh true st c = .ok st2) : Tail x st2 ∨ 2 ≤ st2.out.length := by
  obtain ⟨k, i, d, s, q, id, df, p, out⟩ := st
  obtain ⟨ho, hk⟩ := hT
  simp only at ho hk
  subst ho
  have hk' : k = 11 ∨ k = 1 ∨ k = 2 ∨ k = 3 ∨ k = 4 ∨ k = 5 ∨ k = 6 := by omega
  rcases hk' with rfl | rfl | rfl | rfl | rfl | rfl | rfl
  all_goals simp only [fqStep] at h
  all_goals (try split at h)
  all_goals (try split at h)
  all_goals (try split at h)
  all_goals (cases h <;> simp [Tail] <;> done)

/-- after the first complete record the answer, if it is a single record, is that record -/
theorem fq_tail (sh : UInt8) (x : Rec) (l : Bytes) (st : PSt) (hT : Tail x st) (r : Rec)
    (h : fqRun sh st l = .ok [r]) : r = x := by
  induction l generalizing st with
  | nil =>
    rw [fqRun_nil] at h
    obtain ⟨ho, hk⟩ := hT
    have h10 : st.state ≠ 10 := by omega
    simp only [fqFin, h10, and_false, ↓reduceIte, ho, pure, Except.pure, Except.ok.injEq,
      List.cons.injEq, and_true] at h
    exact h.symm
  | cons c t ih =>
    cases hs : fqStep sh true st c with
    | error e => rw [fqRun_err hs] at h; cases h
    | ok st2 =>
      rw [fqRun_ok hs] at h
      rcases tail_step hT hs with hT2 | h2
      · exact ih st2 hT2 h
      · have := fqRun_len2 sh t st2 h2 _ h
        simp at this

/-- the quality line read from the text that follows the sequence line -/
def qlOf (m : Bytes) : Bytes :=
  (((m.dropWhile isEol).dropWhile (fun c => !isEol c)).dropWhile isEol).takeWhile (fun c => !isEol c)

theorem qlOf_cons_eol {c : UInt8} (t : Bytes) (h : isEol c = true) : qlOf (c :: t) = qlOf t := by
  simp [qlOf, h]

/-- the record read from the text `m` that follows the title -/
def afterTitle (sh : UInt8) (id df m : Bytes) : Rec :=
  ⟨id, df, ((m.dropWhile isEol).takeWhile (fun c => !isEol c)).map lower,
    some ((qlOf ((m.dropWhile isEol).dropWhile (fun c => !isEol c))).map (readQ sh))⟩

theorem afterTitle_cons_eol (sh : UInt8) (id df : Bytes) {c : UInt8} (t : Bytes) (h : isEol c = true) :
    afterTitle sh id df (c :: t) = afterTitle sh id df t := by
  simp [afterTitle, h]

/-- state 10 : the quality line -/
theorem fq_run10 (sh : UInt8) (l : Bytes) (i d s q id df : Bytes) (p : UInt8) (x r : Rec)
    (h : fqRun sh ⟨10, i, d, s, q, id, df, p, [x]⟩ l = .ok [r]) :
    r = { x with qual := some ((q ++ l.takeWhile (fun c => !isEol c)).map (readQ sh)) } := by
  induction l generalizing q p with
  | nil =>
    rw [fqRun_nil] at h
    simp only [fqFin, storeQ, List.reverse_cons, List.reverse_nil, List.nil_append] at h
    simp only [ne_eq, reduceCtorEq, not_false_eq_true, and_self, ↓reduceIte] at h
    split at h
    · cases h
    · split at h
      · cases h
      · simp only [pure, Except.pure, bind, Except.bind, Except.ok.injEq, List.cons.injEq, and_true] at h
        rw [← h]; simp
  | cons c t ih =>
    cases he : isEol c with
    | false =>
      rw [fqRun_ok (st2 := ⟨10, i, d, s, q ++ [c], id, df, c, [x]⟩) (by simp [fqStep, he])] at h
      rw [ih _ _ h]
      simp [he]
    | true =>
      by_cases hq0 : q = []
      · rw [fqRun_err (e := .fatal) (by simp [fqStep, he, storeQ, hq0]; rfl)] at h
        cases h
      · by_cases hlen : q.length = x.seq.length
        · rw [fqRun_ok (st2 := ⟨11, i, d, s, q, id, df, c, [{ x with qual := some (q.map (readQ sh)) }]⟩)
            (by simp [fqStep, he, storeQ, hq0, hlen]; rfl)] at h
          rw [fq_tail sh _ t _ ⟨rfl, Or.inl rfl⟩ r h]
          simp [he]
        · rw [fqRun_err (e := .fatal) (by simp [fqStep, he, storeQ, hq0, hlen]; rfl)] at h
          cases h

/-- state 9 : ends of line before the quality line -/
theorem fq_run9 (sh : UInt8) (l : Bytes) (i d s q id df : Bytes) (p : UInt8) (x r : Rec)
    (hx : x.qual = none) (hq : r.qual.isSome = true)
    (h : fqRun sh ⟨9, i, d, s, q, id, df, p, [x]⟩ l = .ok [r]) :
    r = { x with qual := some (((l.dropWhile isEol).takeWhile (fun c => !isEol c)).map (readQ sh)) } := by
  induction l generalizing p with
  | nil =>
    rw [fqRun_nil] at h
    simp only [fqFin, pure, Except.pure, ne_eq, reduceCtorEq, not_false_eq_true, Nat.reduceEqDiff,
      and_false, ↓reduceIte, Except.ok.injEq, List.cons.injEq, and_true] at h
    rw [← h, hx] at hq; cases hq
  | cons c t ih =>
    cases he : isEol c with
    | true =>
      rw [fqRun_ok (st2 := ⟨9, i, d, s, q, id, df, c, [x]⟩) (by simp [fqStep, he])] at h
      rw [ih _ h]
      simp [he]
    | false =>
      rw [fqRun_ok (st2 := ⟨10, i, d, s, [c], id, df, c, [x]⟩) (by simp [fqStep, he])] at h
      rw [fq_run10 sh t _ _ _ _ _ _ _ _ _ h]
      simp [he]

/-- state 8 : the rest of the `+` line -/
theorem fq_run8 (sh : UInt8) (l : Bytes) (i d s q id df : Bytes) (p : UInt8) (x r : Rec)
    (hx : x.qual = none) (hq : r.qual.isSome = true)
    (h : fqRun sh ⟨8, i, d, s, q, id, df, p, [x]⟩ l = .ok [r]) :
    r = { x with qual := some ((((l.dropWhile (fun c => !isEol c)).dropWhile isEol).takeWhile
          (fun c => !isEol c)).map (readQ sh)) } := by
  induction l generalizing p with
  | nil =>
    rw [fqRun_nil] at h
    simp only [fqFin, pure, Except.pure, ne_eq, reduceCtorEq, not_false_eq_true, Nat.reduceEqDiff,
      and_false, ↓reduceIte, Except.ok.injEq, List.cons.injEq, and_true] at h
    rw [← h, hx] at hq; cases hq
  | cons c t ih =>
    cases he : isEol c with
    | true =>
      rw [fqRun_ok (st2 := ⟨9, i, d, s, q, id, df, c, [x]⟩) (by simp [fqStep, he])] at h
      rw [fq_run9 sh t _ _ _ _ _ _ _ _ _ hx hq h]
      simp [he]
    | false =>
      rw [fqRun_ok (st2 := ⟨8, i, d, s, q, id, df, c, [x]⟩) (by simp [fqStep, he])] at h
      rw [ih _ h]
      simp [he]

/-- state 7 : ends of line after the sequence line, then `+` -/
theorem fq_run7 (sh : UInt8) (l : Bytes) (i d s q id df : Bytes) (p : UInt8) (x r : Rec)
    (hx : x.qual = none) (hq : r.qual.isSome = true)
    (h : fqRun sh ⟨7, i, d, s, q, id, df, p, [x]⟩ l = .ok [r]) :
    r = { x with qual := some ((qlOf l).map (readQ sh)) } := by
  induction l generalizing p with
  | nil =>
    rw [fqRun_nil] at h
    simp only [fqFin, pure, Except.pure, ne_eq, reduceCtorEq, not_false_eq_true, Nat.reduceEqDiff,
      and_false, ↓reduceIte, Except.ok.injEq, List.cons.injEq, and_true] at h
    rw [← h, hx] at hq; cases hq
  | cons c t ih =>
    cases he : isEol c with
    | true =>
      rw [fqRun_ok (st2 := ⟨7, i, d, s, q, id, df, c, [x]⟩) (by simp [fqStep, he])] at h
      rw [ih _ h, qlOf_cons_eol t he]
    | false =>
      by_cases hc : c = 43
      · subst hc
        rw [fqRun_ok (st2 := ⟨8, i, d, s, q, id, df, 43, [x]⟩) (by simp [fqStep, he])] at h
        rw [fq_run8 sh t _ _ _ _ _ _ _ _ _ hx hq h]
        simp [qlOf, he]
      · rw [fqRun_err (e := .fatal) (by simp [fqStep, he, hc])] at h
        cases h

/-- state 6 : the sequence line -/
theorem fq_run6 (sh : UInt8) (l : Bytes) (i d s q id df : Bytes) (p : UInt8) (r : Rec)
    (hq : r.qual.isSome = true)
    (h : fqRun sh ⟨6, i, d, s, q, id, df, p, []⟩ l = .ok [r]) :
    r = ⟨id, df, s ++ (l.takeWhile (fun c => !isEol c)).map lower,
          some ((qlOf (l.dropWhile (fun c => !isEol c))).map (readQ sh))⟩ := by
  induction l generalizing s p with
  | nil =>
    rw [fqRun_nil] at h
    simp [fqFin, pure, Except.pure] at h
  | cons c t ih =>
    cases he : isEol c with
    | true =>
      by_cases hs : s = []
      · rw [fqRun_err (e := .fatal) (by simp [fqStep, he, hs])] at h
        cases h
      · rw [fqRun_ok (st2 := ⟨7, i, d, s, q, id, df, c, [⟨id, df, s, none⟩]⟩)
          (by simp [fqStep, he, hs])] at h
        rw [fq_run7 sh t _ _ _ _ _ _ _ _ _ rfl hq h]
        simp [he, qlOf_cons_eol t he]
    | false =>
      cases ho : seqOK (lower c) with
      | false =>
        rw [fqRun_err (e := .fatal) (by simp [fqStep, he, ho])] at h
        cases h
      | true =>
        rw [fqRun_ok (st2 := ⟨6, i, d, s ++ [lower c], q, id, df, lower c, []⟩)
          (by simp [fqStep, he, ho])] at h
        rw [ih _ _ h]
        simp [he]

/-- state 5 : ends of line after the title line -/
theorem fq_run5 (sh : UInt8) (l : Bytes) (i d s q id df : Bytes) (p : UInt8) (r : Rec)
    (hq : r.qual.isSome = true)
    (h : fqRun sh ⟨5, i, d, s, q, id, df, p, []⟩ l = .ok [r]) : r = afterTitle sh id df l := by
  induction l generalizing p with
  | nil =>
    rw [fqRun_nil] at h
    simp [fqFin, pure, Except.pure] at h
  | cons c t ih =>
    cases he : isEol c with
    | true =>
      rw [fqRun_ok (st2 := ⟨5, i, d, s, q, id, df, c, []⟩) (by simp [fqStep, he])] at h
      rw [ih _ h, afterTitle_cons_eol sh id df t he]
    | false =>
      rw [fqRun_ok (st2 := ⟨6, i, d, [lower c], q, id, df, lower c, []⟩) (by simp [fqStep, he])] at h
      rw [fq_run6 sh t _ _ _ _ _ _ _ _ hq h]
      simp [afterTitle, he]

/-- state 4 : the definition up to the end of the title line -/
theorem fq_run4 (sh : UInt8) (l : Bytes) (i d s q id df : Bytes) (p : UInt8) (r : Rec)
    (hq : r.qual.isSome = true)
    (h : fqRun sh ⟨4, i, d, s, q, id, df, p, []⟩ l = .ok [r]) :
    r = afterTitle sh id (d ++ l.takeWhile (fun c => !isEol c)) (l.dropWhile (fun c => !isEol c)) := by
  induction l generalizing d p with
  | nil =>
    rw [fqRun_nil] at h
    simp [fqFin, pure, Except.pure] at h
  | cons c t ih =>
    cases he : isEol c with
    | true =>
      rw [fqRun_ok (st2 := ⟨5, i, d, s, q, id, d, c, []⟩) (by simp [fqStep, he])] at h
      rw [fq_run5 sh t _ _ _ _ _ _ _ _ hq h]
      simp [he, afterTitle_cons_eol sh _ _ t he]
    | false =>
      rw [fqRun_ok (st2 := ⟨4, i, d ++ [c], s, q, id, df, c, []⟩) (by simp [fqStep, he])] at h
      rw [ih _ _ h]
      simp [he]

/-- state 3 : blanks after the identifier -/
theorem fq_run3 (sh : UInt8) (l : Bytes) (i d s q id df : Bytes) (p : UInt8) (r : Rec)
    (hq : r.qual.isSome = true)
    (h : fqRun sh ⟨3, i, d, s, q, id, df, p, []⟩ l = .ok [r]) :
    r = afterTitle sh id ((l.takeWhile (fun c => !isEol c)).dropWhile isSpace)
          (l.dropWhile (fun c => !isEol c)) := by
  induction l generalizing p with
  | nil =>
    rw [fqRun_nil] at h
    simp [fqFin, pure, Except.pure] at h
  | cons c t ih =>
    cases he : isEol c with
    | true =>
      rw [fqRun_ok (st2 := ⟨5, i, d, s, q, id, [], c, []⟩) (by simp [fqStep, he])] at h
      rw [fq_run5 sh t _ _ _ _ _ _ _ _ hq h]
      simp [he, afterTitle_cons_eol sh _ _ t he]
    | false =>
      cases hs : isSpace c with
      | true =>
        rw [fqRun_ok (st2 := ⟨3, i, d, s, q, id, df, c, []⟩) (by simp [fqStep, he, hs])] at h
        rw [ih _ h]
        simp [he, hs]
      | false =>
        rw [fqRun_ok (st2 := ⟨4, i, [c], s, q, id, df, c, []⟩) (by simp [fqStep, he, hs])] at h
        rw [fq_run4 sh t _ _ _ _ _ _ _ _ hq h]
        simp [he, hs]

/-- state 2 : the identifier, then the rest of the title line, then the rest of the record -/
theorem fq_run2 (sh : UInt8) (l : Bytes) (i d s q id df : Bytes) (p : UInt8) (r : Rec)
    (hq : r.qual.isSome = true)
    (h : fqRun sh ⟨2, i, d, s, q, id, df, p, []⟩ l = .ok [r]) :
    r = afterTitle sh (i ++ (splitTitle (l.takeWhile (fun c => !isEol c))).1)
          (splitTitle (l.takeWhile (fun c => !isEol c))).2 (l.dropWhile (fun c => !isEol c)) := by
  induction l generalizing i p with
  | nil =>
    rw [fqRun_nil] at h
    simp [fqFin, pure, Except.pure] at h
  | cons c t ih =>
    cases hs : isSep c with
    | false =>
      obtain ⟨_, he⟩ := isSep_false hs
      rw [fqRun_ok (st2 := ⟨2, i ++ [c], d, s, q, id, df, c, []⟩) (by simp [fqStep, he, hs])] at h
      rw [ih _ _ h]
      simp [splitTitle, hs, he]
    | true =>
      cases he : isEol c with
      | true =>
        rw [fqRun_ok (st2 := ⟨5, i, d, s, q, i, [], c, []⟩) (by simp [fqStep, he, hs])] at h
        rw [fq_run5 sh t _ _ _ _ _ _ _ _ hq h]
        simp [splitTitle, he, afterTitle_cons_eol sh _ _ t he]
      | false =>
        have hsp := isSep_notEol_isSpace hs he
        rw [fqRun_ok (st2 := ⟨3, i, d, s, q, i, df, c, []⟩) (by simp [fqStep, he, hs])] at h
        rw [fq_run3 sh t _ _ _ _ _ _ _ _ hq h]
        simp [splitTitle, hs, hsp, he]

/-- **FASTQ machine refines the structural reading**: when the 12-state machine (with qualities) returns exactly
    one record and that record carries qualities, it is `readFastqS sh text` -/
theorem parseFastq_refines_structural (sh : UInt8) (text : Bytes) (r : Rec)
    (h : parseFastq sh true text = .ok [r]) (hq : r.qual.isSome = true) :
    readFastqS sh text = some r := by
  rw [parseFastq_eq_fqRun] at h
  match text, h with
  | [], h => simp [fqRun_nil, fqFin, pure, Except.pure] at h
  | [c], h =>
    by_cases hc : c = 64
    · subst hc
      rw [fqRun_ok (st2 := ⟨1, [], [], [], [], [], [], 64, []⟩) (by simp [fqStep])] at h
      simp [fqRun_nil, fqFin, pure, Except.pure] at h
    · rw [fqRun_err (e := .fatal) (by simp [fqStep, hc])] at h
      cases h
  | c :: d :: t, h =>
    by_cases hc : c = 64
    · subst hc
      rw [fqRun_ok (st2 := ⟨1, [], [], [], [], [], [], 64, []⟩) (by simp [fqStep])] at h
      cases hs : isSep d with
      | true =>
        rw [fqRun_err (e := .fatal) (by simp [fqStep, hs])] at h
        cases h
      | false =>
        obtain ⟨_, he⟩ := isSep_false hs
        rw [fqRun_ok (st2 := ⟨2, [d], [], [], [], [], [], d, []⟩) (by simp [fqStep, hs])] at h
        rw [fq_run2 sh t _ _ _ _ _ _ _ _ hq h]
        simp [readFastqS, afterTitle, qlOf, he, splitTitle, hs]
    · rw [fqRun_err (e := .fatal) (by simp [fqStep, hc])] at h
      cases h

/-! ## FASTA : the exact answer of the machine on a one-record text (both directions) -/

def okByte (c : UInt8) : Bool := isSep c || seqOK (lower c)

/-- what the machine answers from the end of the title line on, when the body holds no `>` -/
def faBodyRes (id df body : Bytes) : Except Err (List Rec) :=
  match body.dropWhile isEol with
  | [] => .ok []
  | c :: t =>
    if seqOK (lower c) = true ∧ t.all okByte = true then .ok [⟨id, df, unfold body, none⟩] else .error .fatal

theorem faBodyRes_cons_eol (id df : Bytes) {c : UInt8} (t : Bytes) (h : isEol c = true) :
    faBodyRes id df (c :: t) = faBodyRes id df t := by
  simp [faBodyRes, h, unfold_cons_sep t (isEol_isSep h)]

theorem fa_eq6 (l : Bytes) (hl : ∀ c ∈ l, c ≠ 62) (i d s q id df : Bytes) (p : UInt8) :
    faRun ⟨6, i, d, s, q, id, df, p, []⟩ l =
      if l.all okByte = true then
        (if s ++ unfold l = [] then .error .fatal else .ok [⟨id, df, s ++ unfold l, none⟩])
      else .error .fatal := by
  induction l generalizing s p with
  | nil =>
    rw [faRun_nil]
    simp [faFin, unfold, pure, Except.pure]
  | cons c t ih =>
    have hne : c ≠ 62 := hl c (by simp)
    have ht : ∀ c ∈ t, c ≠ 62 := fun c hc => hl c (List.mem_cons_of_mem _ hc)
    cases hs : isSep c with
    | true =>
      rw [faRun_ok (st2 := ⟨6, i, d, s, q, id, df, c, []⟩) (by simp [faStep, hne, hs])]
      rw [unfold_cons_sep t hs, ih ht]
      simp [okByte, hs]
    | false =>
      cases ho : seqOK (lower c) with
      | false =>
        rw [faRun_err (e := .fatal) (by simp [faStep, hne, hs, ho])]
        simp [okByte, hs, ho]
      | true =>
        rw [faRun_ok (st2 := ⟨6, i, d, s ++ [lower c], q, id, df, lower c, []⟩)
          (by simp [faStep, hne, hs, ho])]
        rw [unfold_cons_notSep t hs, ih ht]
        simp [okByte, hs, ho]

theorem fa_eq5 (l : Bytes) (hl : ∀ c ∈ l, c ≠ 62) (i d s q id df : Bytes) (p : UInt8) :
    faRun ⟨5, i, d, s, q, id, df, p, []⟩ l = faBodyRes id df l := by
  induction l generalizing p with
  | nil => rfl
  | cons c t ih =>
    have ht : ∀ c ∈ t, c ≠ 62 := fun c hc => hl c (List.mem_cons_of_mem _ hc)
    cases he : isEol c with
    | true =>
      rw [faRun_ok (st2 := ⟨5, i, d, s, q, id, df, c, []⟩) (by simp [faStep, he])]
      rw [ih ht, faBodyRes_cons_eol id df t he]
    | false =>
      cases ho : seqOK (lower c) with
      | false =>
        rw [faRun_err (e := .fatal) (by simp [faStep, he, ho])]
        simp [faBodyRes, he, ho]
      | true =>
        rw [faRun_ok (st2 := ⟨6, i, d, [lower c], q, id, df, lower c, []⟩)
          (by simp [faStep, he, ho])]
        rw [fa_eq6 t ht]
        simp [faBodyRes, he, ho, unfold_cons_notSep t (seqOK_lower_notSep c ho)]

theorem fa_eq4 (l : Bytes) (hl : ∀ c ∈ l.dropWhile (fun c => !isEol c), c ≠ 62)
    (i d s q id df : Bytes) (p : UInt8) :
    faRun ⟨4, i, d, s, q, id, df, p, []⟩ l
      = faBodyRes id (d ++ l.takeWhile (fun c => !isEol c)) (l.dropWhile (fun c => !isEol c)) := by
  induction l generalizing d p with
  | nil => rfl
  | cons c t ih =>
    cases he : isEol c with
    | true =>
      rw [faRun_ok (st2 := ⟨5, i, d, s, q, id, d, c, []⟩) (by simp [faStep, he])]
      simp only [List.dropWhile_cons, he, Bool.not_true, Bool.false_eq_true, ↓reduceIte,
        List.takeWhile_cons, List.append_nil] at hl ⊢
      rw [fa_eq5 t (fun c hc => hl c (List.mem_cons_of_mem _ hc)), faBodyRes_cons_eol _ _ t he]
    | false =>
      rw [faRun_ok (st2 := ⟨4, i, d ++ [c], s, q, id, df, c, []⟩) (by simp [faStep, he])]
      simp only [List.dropWhile_cons, he, Bool.not_false, ↓reduceIte, List.takeWhile_cons] at hl ⊢
      rw [ih hl]
      simp

theorem fa_eq3 (l : Bytes) (hl : ∀ c ∈ l.dropWhile (fun c => !isEol c), c ≠ 62)
    (i d s q id df : Bytes) (p : UInt8) :
    faRun ⟨3, i, d, s, q, id, df, p, []⟩ l
      = faBodyRes id ((l.takeWhile (fun c => !isEol c)).dropWhile isSpace)
          (l.dropWhile (fun c => !isEol c)) := by
  induction l generalizing p with
  | nil => rfl
  | cons c t ih =>
    cases he : isEol c with
    | true =>
      rw [faRun_ok (st2 := ⟨5, i, d, s, q, id, [], c, []⟩) (by simp [faStep, he])]
      simp only [List.dropWhile_cons, he, Bool.not_true, Bool.false_eq_true, ↓reduceIte,
        List.takeWhile_cons, List.dropWhile_nil] at hl ⊢
      rw [fa_eq5 t (fun c hc => hl c (List.mem_cons_of_mem _ hc)), faBodyRes_cons_eol _ _ t he]
    | false =>
      simp only [List.dropWhile_cons, he, Bool.not_false, ↓reduceIte, List.takeWhile_cons] at hl ⊢
      cases hs : isSpace c with
      | true =>
        rw [faRun_ok (st2 := ⟨3, i, d, s, q, id, df, c, []⟩) (by simp [faStep, he, hs])]
        rw [ih hl]
        simp
      | false =>
        rw [faRun_ok (st2 := ⟨4, i, [c], s, q, id, df, c, []⟩) (by simp [faStep, he, hs])]
        rw [fa_eq4 t hl]
        simp

theorem fa_eq2 (l : Bytes) (hl : ∀ c ∈ l.dropWhile (fun c => !isEol c), c ≠ 62)
    (i d s q id df : Bytes) (p : UInt8) :
    faRun ⟨2, i, d, s, q, id, df, p, []⟩ l
      = faBodyRes (i ++ (splitTitle (l.takeWhile (fun c => !isEol c))).1)
          (splitTitle (l.takeWhile (fun c => !isEol c))).2 (l.dropWhile (fun c => !isEol c)) := by
  induction l generalizing i p with
  | nil => rfl
  | cons c t ih =>
    cases hs : isSep c with
    | false =>
      obtain ⟨_, he⟩ := isSep_false hs
      rw [faRun_ok (st2 := ⟨2, i ++ [c], d, s, q, id, df, c, []⟩) (by simp [faStep, he, hs])]
      simp only [List.dropWhile_cons, he, Bool.not_false, ↓reduceIte, List.takeWhile_cons] at hl ⊢
      rw [ih hl]
      simp [splitTitle, hs]
    | true =>
      cases he : isEol c with
      | true =>
        rw [faRun_ok (st2 := ⟨5, [], d, s, q, i, [], c, []⟩) (by simp [faStep, he, hs])]
        simp only [List.dropWhile_cons, he, Bool.not_true, Bool.false_eq_true, ↓reduceIte,
          List.takeWhile_cons] at hl ⊢
        rw [fa_eq5 t (fun c hc => hl c (List.mem_cons_of_mem _ hc)), faBodyRes_cons_eol _ _ t he]
        simp [splitTitle]
      | false =>
        have hsp := isSep_notEol_isSpace hs he
        rw [faRun_ok (st2 := ⟨3, [], d, s, q, i, df, c, []⟩) (by simp [faStep, he, hs])]
        simp only [List.dropWhile_cons, he, Bool.not_false, ↓reduceIte, List.takeWhile_cons] at hl ⊢
        rw [fa_eq3 t hl]
        simp [splitTitle, hs, hsp]

/-- **the exact answer of the FASTA machine** on a text `>` `d` … whose part after the title line holds no `>` :
    fatal when `d` is a separator; otherwise nothing (`[]`) when the body holds only ends of line, the structural
    record when the first byte of the body after the ends of line is a letter of the alphabet and every later
    byte is a separator or a letter of the alphabet, fatal in every other case -/
theorem parseFasta_single_eq (d : UInt8) (t : Bytes)
    (hbody : ∀ c ∈ (d :: t).dropWhile (fun c => !isEol c), c ≠ 62) :
    parseFasta (62 :: d :: t) =
      if isSep d = true then .error .fatal
      else faBodyRes (splitTitle ((d :: t).takeWhile (fun c => !isEol c))).1
            (splitTitle ((d :: t).takeWhile (fun c => !isEol c))).2
            ((d :: t).dropWhile (fun c => !isEol c)) := by
  by_cases hd : d = 32
  · subst hd
    have h32 : isSep 32 = true := by decide
    simp [parseFasta, h32]
  · rw [parseFasta_eq_faRun d t hd]
    rw [faRun_ok (st2 := ⟨1, [], [], [], [], [], [], 62, []⟩) (by simp [faStep])]
    cases hs : isSep d with
    | true =>
      rw [faRun_err (e := .fatal) (by simp [faStep, hs])]
      simp
    | false =>
      obtain ⟨_, he⟩ := isSep_false hs
      rw [faRun_ok (st2 := ⟨2, [d], [], [], [], [], [], d, []⟩) (by simp [faStep, hs])]
      simp only [List.dropWhile_cons, he, Bool.not_false, ↓reduceIte, List.takeWhile_cons] at hbody ⊢
      rw [fa_eq2 t hbody]
      simp [splitTitle, hs]

theorem mem_takeWhile_true (p : UInt8 → Bool) (l : Bytes) (c : UInt8) (h : c ∈ l.takeWhile p) : p c = true := by
  induction l with
  | nil => simp at h
  | cons a t ih =>
    rw [List.takeWhile_cons] at h
    split at h
    · rw [List.mem_cons] at h
      rcases h with h | h
      · subst h; assumption
      · exact ih h
    · simp at h

/-- **converse of `parseFasta_refines_structural`**: a text `>` title-line body, whose title starts with a
    non-separator and whose body, after its leading ends of line, starts with a letter of the alphabet and
    continues with separators and letters only, is parsed by the machine as the structural record -/
theorem parseFasta_of_structural (d : UInt8) (t : Bytes) (c0 : UInt8) (b : Bytes) (hd : isSep d = false)
    (hb : ((d :: t).dropWhile (fun c => !isEol c)).dropWhile isEol = c0 :: b)
    (h0 : seqOK (lower c0) = true) (hok : ∀ c ∈ b, isSep c = true ∨ seqOK (lower c) = true)
    (r : Rec) (hr : readFastaS (62 :: d :: t) = some r) :
    parseFasta (62 :: d :: t) = .ok [r] := by
  have h62 : okByte 62 = false := by decide
  have hallb : b.all okByte = true := by
    rw [List.all_eq_true]; intro c hc
    rcases hok c hc with h | h <;> simp [okByte, h]
  have hbody : ∀ c ∈ (d :: t).dropWhile (fun c => !isEol c), c ≠ 62 := by
    intro c hc e; subst e
    have h1 := List.takeWhile_append_dropWhile (p := isEol) (l := (d :: t).dropWhile (fun c => !isEol c))
    rw [← h1, List.mem_append] at hc
    rcases hc with hc | hc
    · have := mem_takeWhile_true isEol _ 62 hc
      revert this; decide
    · rw [hb, List.mem_cons] at hc
      rcases hc with hc | hc
      · rw [← hc] at h0; revert h0; decide
      · have := List.all_eq_true.mp hallb 62 hc
        rw [h62] at this; cases this
  rw [parseFasta_single_eq d t hbody]
  simp only [readFastaS, ↓reduceIte, Option.some.injEq] at hr
  simp only [hd, Bool.false_eq_true, ↓reduceIte, faBodyRes, hb, h0, hallb, and_self, hr]

/-! ## the extra hypotheses are needed; texts examined while looking for counterexamples -/

local instance : DecidableEq (Except Err (List Rec)) := fun a b =>
  match a, b with
  | .ok x, .ok y => if h : x = y then isTrue (by rw [h]) else isFalse (by intro e; cases e; exact h rfl)
  | .error x, .error y => if h : x = y then isTrue (by rw [h]) else isFalse (by intro e; cases e; exact h rfl)
  | .ok _, .error _ => isFalse (by intro e; cases e)
  | .error _, .ok _ => isFalse (by intro e; cases e)

/-- `hbody` is needed: on `">a\nacgt\n>b"` the machine returns the single record `a` (the second record is
    incomplete and dropped) whereas the structural reading swallows `>b` into the sequence -/
theorem parseFasta_refines_needs_hbody :
    parseFasta [62, 97, 10, 97, 99, 103, 116, 10, 62, 98] = .ok [⟨[97], [], [97, 99, 103, 116], none⟩] ∧
    readFastaS [62, 97, 10, 97, 99, 103, 116, 10, 62, 98] = some ⟨[97], [], [97, 99, 103, 116, 62, 98], none⟩ := by
  decide

/-- `hq` is needed: on `"@a\nac\n"` the machine returns the record without qualities whereas the structural
    reading gives `some []` -/
theorem parseFastq_refines_needs_hq :
    parseFastq 33 true [64, 97, 10, 97, 99, 10] = .ok [⟨[97], [], [97, 99], none⟩] ∧
    readFastqS 33 [64, 97, 10, 97, 99, 10] = some ⟨[97], [], [97, 99], some []⟩ := by
  decide

/-- not a counterexample: `"@a\nac\n+\nII\n@b"` (a second record starts) -/
theorem parseFastq_second_record_starts :
    parseFastq 33 true [64, 97, 10, 97, 99, 10, 43, 10, 73, 73, 10, 64, 98]
      = .ok [⟨[97], [], [97, 99], some [40, 40]⟩] ∧
    readFastqS 33 [64, 97, 10, 97, 99, 10, 43, 10, 73, 73, 10, 64, 98]
      = some ⟨[97], [], [97, 99], some [40, 40]⟩ := by
  decide

/-- not a counterexample: `"@a x\r\nAc\r\n\r\n+a x\r\nII\r\n\r\n"` (`\r\n`, text on the `+` line, several ends of line) -/
theorem parseFastq_crlf_plus_text :
    parseFastq 33 true [64, 97, 32, 120, 13, 10, 65, 99, 13, 10, 13, 10, 43, 97, 32, 120, 13, 10, 73, 73, 13, 10, 13, 10]
      = .ok [⟨[97], [120], [97, 99], some [40, 40]⟩] ∧
    readFastqS 33 [64, 97, 32, 120, 13, 10, 65, 99, 13, 10, 13, 10, 43, 97, 32, 120, 13, 10, 73, 73, 13, 10, 13, 10]
      = some ⟨[97], [120], [97, 99], some [40, 40]⟩ := by
  decide

/-- not a counterexample: `"@a\nac\n+\n\n@b\n"` (empty quality line: the next title is taken as the qualities, by both) -/
theorem parseFastq_empty_quality_line :
    parseFastq 33 true [64, 97, 10, 97, 99, 10, 43, 10, 10, 64, 98, 10]
      = .ok [⟨[97], [], [97, 99], some [31, 65]⟩] ∧
    readFastqS 33 [64, 97, 10, 97, 99, 10, 43, 10, 10, 64, 98, 10]
      = some ⟨[97], [], [97, 99], some [31, 65]⟩ := by
  decide

end ObiVerif.Header
