import ObiVerif.Model.DeBruijn
import ObiVerif.Lemmas.KmerSlide
/-!
# Lemmas on the De Bruijn graph model (C19): weights added by `Push` for reads without ambiguity code
-/
namespace ObiVerif.DeBruijn
open ObiVerif.Kmer

theorem weightOf_addWeight (n : List (Nat × Nat)) (x w y : Nat) :
    weightOf (addWeight n x w) y = weightOf n y + (if x = y then w else 0) := by
  induction n with
  | nil =>
    by_cases h : x = y
    · subst h; simp [addWeight, weightOf, List.lookup]
    · have : (y == x) = false := by simp; omega
      simp [addWeight, weightOf, List.lookup, h, this]
  | cons p t ih =>
    obtain ⟨z, v⟩ := p
    simp only [addWeight]
    by_cases hz : z = x
    · subst hz
      by_cases h : z = y
      · subst h; simp [weightOf, List.lookup]
      · have : (y == z) = false := by simp; omega
        simp [weightOf, List.lookup, h, this]
    · simp only [hz, if_false]
      by_cases h : y = z
      · subst h
        have : ¬ x = y := fun e => hz e.symm
        simp [weightOf, List.lookup, this]
      · have h' : (y == z) = false := by simp; omega
        simp only [weightOf, List.lookup, h'] at ih ⊢
        exact ih

theorem makeGraph_mask (k : Nat) (h : 2 * k ≤ 64) : (makeGraph k).mask = 2 ^ (2 * k) - 1 := by
  have := mask_eq 64 (k * 2) (by omega)
  rw [Nat.mul_comm k 2] at this
  simpa [makeGraph, Nat.mul_comm] using this

theorem iupac_of_plain (b : UInt8) (c : Nat) (h : plain b = some c) : iupac b.toNat = [c] := by
  by_cases hl : (iupac b.toNat).length = 1
  · simp only [plain, hl, if_true, Option.some.injEq] at h
    match hi : iupac b.toNat, hl, h with
    | [a], _, h => simp at h; rw [h]
  · simp [plain, hl] at h

theorem pushStep_single (mask v c : Nat) :
    pushStep mask [c] [v] = [(((v * 4) % W64) &&& mask) ||| c] := by
  simp [pushStep, sortDedup, insertU]

/-- the loop of `Push` on a read made of plain bases only: every full window adds `w` to its k-mer -/
theorem pushLoop_plain (k : Nat) (hk : 1 ≤ k) (h2 : 2 * k ≤ 64) (w x : Nat) (bs : Bytes)
    (hp : ∀ b ∈ bs, (plain b).isSome) :
    ∀ (i : Nat) (t : List Nat) (nodes : List (Nat × Nat)), Dig t → t.length = min i k →
      weightOf (pushLoop k (2 ^ (2 * k) - 1) w i [val t] nodes bs) x
        = weightOf nodes x + w * (slideLoop val k t (bs.map plain)).count x := by
  induction bs with
  | nil => intros; simp [pushLoop, slideLoop]
  | cons b bs ih =>
    intro i t nodes hd hl
    obtain ⟨c, hc⟩ := Option.isSome_iff_exists.mp (hp b (by simp))
    have hc4 := plain_lt b c hc
    have hstep : (((val t * 4) % W64) &&& (2 ^ (2 * k) - 1)) ||| c = val (slide k t c) :=
      cur_step 64 k t c hk h2 hd (by omega) hc4
    have hsl := slide_length k t c hk (by omega)
    have hsd := slide_dig k t c hd hc4
    have hl' : (slide k t c).length = min (i + 1) k := by omega
    simp only [pushLoop, iupac_of_plain b c hc, pushStep_single, hstep, List.map_cons, hc, slideLoop]
    by_cases he : i + 1 ≥ k
    · have hfull : (slide k t c).length = k := by omega
      rw [if_pos he, if_pos hfull, ih (fun b hb => hp b (by simp [hb])) (i + 1) _ _ hsd hl']
      simp only [List.foldl_cons, List.foldl_nil, weightOf_addWeight, List.count_cons]
      by_cases hx : val (slide k t c) = x
      · simp [hx, Nat.mul_add]; omega
      · have : ¬ (val (slide k t c) == x) = true := by simpa using hx
        simp [hx, this]
    · have hnf : ¬ (slide k t c).length = k := by omega
      rw [if_neg he, if_neg hnf, ih (fun b hb => hp b (by simp [hb])) (i + 1) _ _ hsd hl']

/-- `Push` of a read of plain bases: the weight of every k-mer grows by the count of the read times the number
of windows of the read equal to it -/
theorem push_plain (g : Graph) (hk : 1 ≤ g.k) (h2 : 2 * g.k ≤ 64) (hm : g.mask = 2 ^ (2 * g.k) - 1)
    (s : Bytes) (w x : Nat) (hp : ∀ b ∈ s, (plain b).isSome) :
    (g.push s w).weight x = g.weight x + w * (winSpec val g.k (s.map plain)).count x := by
  unfold Graph.push
  split
  · rename_i hs
    unfold winSpec
    rw [windowsAll_short _ _ (by simpa using hs)]; simp
  · simp only [Graph.weight, hm]
    have := pushLoop_plain g.k hk h2 w x s hp 0 [] g.nodes (by intro c hc; simp at hc) (by simp)
    simp only [val_nil] at this
    rw [this, slideLoop_nil _ _ hk]

theorem push_k (g : Graph) (s : Bytes) (w : Nat) : (g.push s w).k = g.k ∧ (g.push s w).mask = g.mask := by
  unfold Graph.push; split <;> simp

end ObiVerif.DeBruijn
