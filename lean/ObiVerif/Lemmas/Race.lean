import ObiVerif.Model.Race
/-! lemmas on the interleaving machine of `Model/Race.lean` (property C13) -/
namespace ObiVerif.Race
open ObiVerif.Clean

/-- every remaining micro-step is an indivisible increment -/
def AllAtomic (ths : List (List Step)) : Prop := ∀ th ∈ ths, ∀ s ∈ th, ∃ c, s = Step.atomic c

/-- number of increments of counter `c` still to be done -/
def pend (ths : List (List Step)) (c : Nat) : Nat := ths.flatten.countP (· == Step.atomic c)

theorem countP_flatten_set (p : Step → Bool) :
    ∀ (l : List (List Step)) (t : Nat) (s : Step) (rest : List Step), l[t]? = some (s :: rest) →
      (l.set t rest).flatten.countP p + (if p s then 1 else 0) = l.flatten.countP p := by
  intro l
  induction l with
  | nil => intro t s rest h; simp at h
  | cons x xs ih =>
    intro t s rest h
    cases t with
    | zero =>
      simp only [List.getElem?_cons_zero, Option.some.injEq] at h
      subst h
      simp only [List.set_cons_zero, List.flatten_cons, List.countP_append, List.countP_cons]
      omega
    | succ t =>
      simp only [List.getElem?_cons_succ] at h
      have := ih t s rest h
      simp only [List.set_cons_succ, List.flatten_cons, List.countP_append]
      omega

theorem allAtomic_set {l : List (List Step)} {t : Nat} {s : Step} {rest : List Step}
    (h : AllAtomic l) (ht : l[t]? = some (s :: rest)) : AllAtomic (l.set t rest) := by
  intro th hth x hx
  rcases List.mem_or_eq_of_mem_set hth with hm | he
  · exact h th hm x hx
  · subst he
    exact h _ (List.mem_of_getElem? ht) x (List.mem_cons_of_mem _ hx)

theorem step_atomic (m : Machine) (t : Nat) (h : AllAtomic m.threads) :
    AllAtomic (m.step t).threads ∧ ∀ c, (m.step t).mem c + pend (m.step t).threads c = m.mem c + pend m.threads c := by
  unfold Machine.step
  split
  · rename_i s rest ht
    obtain ⟨c', hc'⟩ := h _ (List.mem_of_getElem? ht) s (List.mem_cons_self)
    subst hc'
    refine ⟨allAtomic_set h ht, fun c => ?_⟩
    have hk := countP_flatten_set (· == Step.atomic c) m.threads t (Step.atomic c') rest ht
    simp only [pend, upd]
    by_cases hcc : c = c'
    · subst hcc
      simp only [beq_self_eq_true, if_true] at hk
      simp only [if_true]
      omega
    · have hne : (Step.atomic c' == Step.atomic c) = false := by
        simp only [beq_eq_false_iff_ne, ne_eq, Step.atomic.injEq]
        exact fun h => hcc h.symm
      simp only [hne, Bool.false_eq_true, if_false, Nat.add_zero] at hk
      simp only [hcc, if_false]
      omega
  · exact ⟨h, fun _ => rfl⟩

theorem run_atomic (picks : List Nat) : ∀ (m : Machine), AllAtomic m.threads →
    ∀ c, (m.run picks).mem c + pend (m.run picks).threads c = m.mem c + pend m.threads c := by
  induction picks with
  | nil => intro m _ c; rfl
  | cons t ts ih =>
    intro m h c
    have hs := step_atomic m t h
    have := ih (m.step t) hs.1 c
    simp only [Machine.run, List.foldl_cons] at this ⊢
    rw [this, hs.2 c]

theorem pend_done {m : Machine} (h : m.done = true) (c : Nat) : pend m.threads c = 0 := by
  have hall : ∀ th ∈ m.threads, th = [] := by
    intro th hth
    have := (List.all_eq_true.1 h) th hth
    simpa using this
  have : m.threads.flatten = [] := by
    rw [List.flatten_eq_nil_iff]
    exact hall
  simp [pend, this]

/-! ## the worker pool -/

theorem flatten_poolThreads (atomic : Bool) (targets : Nat → List Nat) (assign : List (List Nat)) :
    (poolThreads atomic targets assign).flatten = assign.flatten.flatMap (fun i => (targets i).flatMap (incSteps atomic)) := by
  induction assign with
  | nil => rfl
  | cons r rs ih =>
    simp only [poolThreads, List.map_cons, List.flatten_cons, List.flatMap_append, workerSteps] at ih ⊢
    rw [ih]

theorem allAtomic_pool (targets : Nat → List Nat) (assign : List (List Nat)) :
    AllAtomic (poolThreads true targets assign) := by
  intro th hth s hs
  simp only [poolThreads, List.mem_map] at hth
  obtain ⟨rows, _, rfl⟩ := hth
  simp only [workerSteps, List.mem_flatMap, incSteps, if_true, List.mem_singleton] at hs
  obtain ⟨_, _, c, _, rfl⟩ := hs
  exact ⟨c, rfl⟩

theorem countP_atomic_flatMap (c : Nat) (l : List Nat) :
    (l.flatMap (incSteps true)).countP (· == Step.atomic c) = l.count c := by
  induction l with
  | nil => rfl
  | cons x xs ih =>
    simp only [List.flatMap_cons, List.countP_append, ih, List.count_cons, incSteps, if_true, List.countP_cons,
      List.countP_nil, beq_iff_eq, Step.atomic.injEq]
    omega

theorem pend_pool (targets : Nat → List Nat) (assign : List (List Nat)) (c : Nat) :
    pend (poolThreads true targets assign) c = (assign.flatten.flatMap targets).count c := by
  rw [pend, flatten_poolThreads]
  induction assign.flatten with
  | nil => rfl
  | cons x xs ih =>
    simp only [List.flatMap_cons, List.countP_append, List.count_append, ih, countP_atomic_flatMap]

/-- with atomic increments, whatever the interleaving, a complete run of the pool leaves in counter `c` the
number of increments of `c` requested by all the rows handled -/
theorem pool_atomic_mem (targets : Nat → List Nat) (assign : List (List Nat)) (picks : List Nat)
    (hdone : ((Machine.init (poolThreads true targets assign)).run picks).done = true) (c : Nat) :
    ((Machine.init (poolThreads true targets assign)).run picks).mem c = (assign.flatten.flatMap targets).count c := by
  have := run_atomic picks (Machine.init (poolThreads true targets assign)) (allAtomic_pool targets assign) c
  rw [pend_done hdone] at this
  have h0 : (Machine.init (poolThreads true targets assign)).mem c = 0 := rfl
  have hth : (Machine.init (poolThreads true targets assign)).threads = poolThreads true targets assign := rfl
  rw [h0, hth, pend_pool] at this
  omega

end ObiVerif.Race
