import ObiVerif.Lemmas.TaxLoad
import ObiVerif.Lemmas.TaxStr
import ObiVerif.Lemmas.TaxIter
import ObiVerif.Model.TaxRender
/-!
# The model of the NCBI taxdump loader reads back a rendered dump (C14)

`renderNodes` / `renderNames` / `renderMerged` write declarations in the NCBI layout (fields separated
by `"\t|\t"`, lines ended by `"\t|\n"`); `loadDump` on the three rendered files gives the declarations
back (`loadDump_render`), for fields that hold no `|`, no line feed and no double quote, the fields read
back verbatim having no blank at either end (`strings.TrimSpace` would remove it).
-/
namespace ObiVerif.TaxLoad

/-! ## `strings.TrimSpace` on padded fields -/

theorem trimLeft_cons_space {c : UInt8} (b : Bytes) (h : isSpace c = true) : trimLeft (c :: b) = trimLeft b := by
  simp [trimLeft, List.dropWhile, h]

theorem trimLeft_cons_keep {c : UInt8} (b : Bytes) (h : isSpace c = false) : trimLeft (c :: b) = c :: b := by
  simp [trimLeft, List.dropWhile, h]

theorem trimLeft_idem (b : Bytes) : trimLeft (trimLeft b) = trimLeft b := by
  induction b with
  | nil => rfl
  | cons c r ih =>
    cases h : isSpace c
    · rw [trimLeft_cons_keep r h, trimLeft_cons_keep r h]
    · rw [trimLeft_cons_space r h, ih]

theorem trimSpace_trimLeft (b : Bytes) : trimSpace (trimLeft b) = trimSpace b := by
  unfold trimSpace; rw [trimLeft_idem]

theorem trimSpace_cons_space {c : UInt8} (b : Bytes) (h : isSpace c = true) : trimSpace (c :: b) = trimSpace b := by
  unfold trimSpace; rw [trimLeft_cons_space b h]

theorem trimLeft_append_tab (b : Bytes) :
    trimLeft (b ++ [9]) = if trimLeft b = [] then [] else trimLeft b ++ [9] := by
  induction b with
  | nil => decide
  | cons c r ih =>
    cases h : isSpace c
    · rw [List.cons_append, trimLeft_cons_keep _ h, trimLeft_cons_keep _ h]; simp
    · rw [List.cons_append, trimLeft_cons_space _ h, trimLeft_cons_space _ h, ih]

theorem trimSpace_append_tab (b : Bytes) : trimSpace (b ++ [9]) = trimSpace b := by
  unfold trimSpace
  rw [trimLeft_append_tab]
  split
  · rename_i h; rw [h]
  · rw [List.reverse_append]
    show (trimLeft (9 :: (trimLeft b).reverse)).reverse = _
    rw [trimLeft_cons_space _ (by decide)]

theorem trimLeft_noSpace (b : Bytes) (h : ∀ c ∈ b, isSpace c = false) : trimLeft b = b := by
  cases b with
  | nil => rfl
  | cons c r => exact trimLeft_cons_keep r (h c (by simp))

theorem trimSpace_noSpace (b : Bytes) (h : ∀ c ∈ b, isSpace c = false) : trimSpace b = b := by
  unfold trimSpace
  rw [trimLeft_noSpace b h, trimLeft_noSpace b.reverse (fun c hc => h c (List.mem_reverse.1 hc)), List.reverse_reverse]

/-- the hypothesis `trimSpace f = f` of the theorems below, as "no blank at either end" -/
theorem trimSpace_of_ends (f : Bytes) (h : ∀ c, f.head? = some c → isSpace c = false)
    (hl : ∀ c, f.getLast? = some c → isSpace c = false) : trimSpace f = f := by
  have a : ∀ b : Bytes, (∀ c, b.head? = some c → isSpace c = false) → trimLeft b = b := by
    intro b hb
    cases b with
    | nil => rfl
    | cons c r => exact trimLeft_cons_keep r (hb c rfl)
  unfold trimSpace
  rw [a f h, a f.reverse (by intro c hc; rw [List.head?_reverse] at hc; exact hl c hc), List.reverse_reverse]

/-- a field between the tabs of the NCBI layout, after the `TrimLeadingSpace` of the csv reader -/
theorem trimSpace_cell (f : Bytes) : trimSpace (trimLeft (9 :: (f ++ [9]))) = trimSpace f := by
  rw [trimSpace_trimLeft, trimSpace_cons_space _ (by decide), trimSpace_append_tab]

theorem trimSpace_cell0 (f : Bytes) : trimSpace (trimLeft (f ++ [9])) = trimSpace f := by
  rw [trimSpace_trimLeft, trimSpace_append_tab]

theorem trimSpace_showNat (n : Nat) : trimSpace (showNat n) = showNat n :=
  trimSpace_noSpace _ fun c hc => isDigit_not_space (showNat_all_digits n c hc)

theorem num_cell (n : Nat) (h : n < 2 ^ 63) : num (trimLeft (9 :: (showNat n ++ [9]))) = .ok n := by
  unfold num; rw [trimSpace_cell, trimSpace_showNat, atoi_showNat' n h]

theorem num_cell0 (n : Nat) (h : n < 2 ^ 63) : num (trimLeft (showNat n ++ [9])) = .ok n := by
  unfold num; rw [trimSpace_cell0, trimSpace_showNat, atoi_showNat' n h]

theorem isDigit_noSep {c : UInt8} (h : isDigit c = true) : c ≠ 124 ∧ c ≠ 10 ∧ c ≠ 34 ∧ c ≠ 35 := by
  simp [isDigit] at h
  refine ⟨?_, ?_, ?_, ?_⟩ <;> intro e <;> subst e <;> simp at h

theorem noSep_showNat (n : Nat) : NoSep (showNat n) := by
  intro c hc
  have := isDigit_noSep (showNat_all_digits n c hc)
  exact ⟨this.1, this.2.1, this.2.2.1⟩

/-! ## the shape of a rendered line -/

/-- what follows the first field and its `"\t|"` -/
def tailBody : List Bytes → Bytes
  | [] => []
  | f :: r => 9 :: (f ++ 9 :: 124 :: tailBody r)

/-- the line without its final line feed -/
def lineBody (f0 : Bytes) (rest : List Bytes) : Bytes := f0 ++ 9 :: 124 :: tailBody rest

/-- the `|` separated cells after the first one: each field between two tabs, nothing after the last `|` -/
def cellsTail : List Bytes → List Bytes
  | [] => [[]]
  | f :: r => (9 :: (f ++ [9])) :: cellsTail r

theorem ncbiLine_eq : ∀ (rest : List Bytes) (f0 : Bytes), ncbiLine (f0 :: rest) = lineBody f0 rest ++ [10] := by
  intro rest
  induction rest with
  | nil => intro f0; simp [ncbiLine, joinSep, lineBody, tailBody]
  | cons f r ih =>
    intro f0
    have := ih f
    simp only [ncbiLine, lineBody] at this
    simp only [ncbiLine, joinSep, lineBody, tailBody, List.append_assoc, this]
    simp

theorem cellsTail_length (rest : List Bytes) : (cellsTail rest).length = rest.length + 1 := by
  induction rest with
  | nil => rfl
  | cons f r ih => simp [cellsTail, ih]

theorem tailBody_no10 (rest : List Bytes) (h : ∀ f ∈ rest, NoSep f) : 10 ∉ tailBody rest := by
  induction rest with
  | nil => simp [tailBody]
  | cons f r ih =>
    have hf := h f (by simp)
    have hr := ih (fun g hg => h g (by simp [hg]))
    simp only [tailBody, List.mem_cons, List.mem_append, not_or]
    refine ⟨by decide, fun hc => (hf 10 hc).2.1 rfl, by decide, by decide, hr⟩

theorem lineBody_no10 (f0 : Bytes) (rest : List Bytes) (h0 : NoSep f0) (h : ∀ f ∈ rest, NoSep f) :
    10 ∉ lineBody f0 rest := by
  simp only [lineBody, List.mem_cons, List.mem_append, not_or]
  exact ⟨fun hc => (h0 10 hc).2.1 rfl, by decide, by decide, tailBody_no10 rest h⟩

theorem lineBody_getLast : ∀ (rest : List Bytes) (f0 : Bytes), (lineBody f0 rest).getLast? = some 124 := by
  intro rest
  induction rest with
  | nil => intro f0; simp [lineBody, tailBody]
  | cons f r ih =>
    intro f0
    have := ih (f0 ++ 9 :: 124 :: 9 :: f)
    simpa [lineBody, tailBody] using this

theorem tailBody_split (rest : List Bytes) (h : ∀ f ∈ rest, NoSep f) :
    splitOn 124 (tailBody rest) = cellsTail rest := by
  induction rest with
  | nil => rfl
  | cons f r ih =>
    have hf := h f (by simp)
    have hr := ih (fun g hg => h g (by simp [hg]))
    have e : tailBody (f :: r) = (9 :: (f ++ [9])) ++ 124 :: tailBody r := by simp [tailBody]
    rw [e, splitOn_append, hr]; rfl
    simp only [List.mem_cons, List.mem_append, not_or]
    exact ⟨by decide, fun hc => (hf 124 hc).1 rfl, by decide, List.not_mem_nil⟩

theorem lineBody_split (f0 : Bytes) (rest : List Bytes) (h0 : NoSep f0) (h : ∀ f ∈ rest, NoSep f) :
    splitOn 124 (lineBody f0 rest) = (f0 ++ [9]) :: cellsTail rest := by
  have e : lineBody f0 rest = (f0 ++ [9]) ++ 124 :: tailBody rest := by simp [lineBody]
  rw [e, splitOn_append, tailBody_split rest h]
  simp only [List.mem_cons, List.mem_append, not_or]
  exact ⟨fun hc => (h0 124 hc).1 rfl, by decide, List.not_mem_nil⟩

theorem not_mem_trimLeft {c : UInt8} (b : Bytes) (h : c ∉ b) : c ∉ trimLeft b :=
  fun hc => h ((List.dropWhile_sublist _).subset hc)

theorem cellsTail_no34 (rest : List Bytes) (h : ∀ f ∈ rest, NoSep f) : ∀ c ∈ cellsTail rest, 34 ∉ c := by
  induction rest with
  | nil => intro c hc; simp [cellsTail] at hc; subst hc; simp
  | cons f r ih =>
    have hf := h f (by simp)
    have hr := ih (fun g hg => h g (by simp [hg]))
    intro c hc
    simp only [cellsTail, List.mem_cons] at hc
    rcases hc with e | e
    · subst e
      simp only [List.mem_cons, List.mem_append, not_or]
      exact ⟨by decide, fun hc => (hf 34 hc).2.2 rfl, by decide, List.not_mem_nil⟩
    · exact hr c e

theorem checkFields_ok : ∀ (l : List Bytes), (∀ f ∈ l, 34 ∉ f) → checkFields l = .ok l := by
  intro l
  induction l with
  | nil => intro _; rfl
  | cons f r ih =>
    intro h
    have hf := h f (by simp)
    have hr := ih (fun g hg => h g (by simp [hg]))
    have h1 : f.head? ≠ some 34 := fun e => hf (List.mem_of_head? e)
    simp [checkFields, h1, hf, hr]

/-- the record `csv.Reader.Read` returns for a rendered line -/
def recOf (f0 : Bytes) (rest : List Bytes) : List Bytes := trimLeft (f0 ++ [9]) :: (cellsTail rest).map trimLeft

theorem recOf_length (f0 : Bytes) (rest : List Bytes) : (recOf f0 rest).length = rest.length + 2 := by
  simp [recOf, cellsTail_length]

theorem lineFields_ncbiLine (f0 : Bytes) (rest : List Bytes) (h0 : NoSep f0) (h : ∀ f ∈ rest, NoSep f) :
    lineFields (ncbiLine (f0 :: rest)) = .ok (recOf f0 rest) := by
  rw [ncbiLine_eq]
  unfold lineFields
  have e1 : (lineBody f0 rest ++ [10]).getLast? = some 10 := by simp
  have e2 : (lineBody f0 rest ++ [10]).dropLast = lineBody f0 rest := by simp
  rw [e1, if_pos rfl, e2, lineBody_split f0 rest h0 h]
  apply checkFields_ok
  intro f hf
  simp only [List.map_cons, List.mem_cons, List.mem_map] at hf
  rcases hf with e | ⟨g, hg, e⟩
  · subst e
    apply not_mem_trimLeft
    simp only [List.mem_cons, List.mem_append, not_or]
    exact ⟨fun hc => (h0 34 hc).2.2 rfl, by decide, List.not_mem_nil⟩
  · subst e
    exact not_mem_trimLeft _ (cellsTail_no34 rest h g hg)

theorem csvLine_ncbiLine (f0 : Bytes) (rest : List Bytes) : csvLine (ncbiLine (f0 :: rest)) = ncbiLine (f0 :: rest) := by
  rw [ncbiLine_eq]
  unfold csvLine
  have e1 : (lineBody f0 rest ++ [10]).getLast? = some 10 := by simp
  have e2 : (lineBody f0 rest ++ [10]).dropLast = lineBody f0 rest := by simp
  rw [e1, if_pos rfl, e2, lineBody_getLast]
  simp

/-! ## `ReadSlice('\n')` on a rendered file -/

theorem rawLines_line : ∀ (b rest : Bytes), 10 ∉ b → rawLines (b ++ [10] ++ rest) = (b ++ [10]) :: rawLines rest := by
  intro b
  induction b with
  | nil => intro rest _; simp [rawLines]
  | cons c r ih =>
    intro rest h
    have hc : c ≠ 10 := fun e => h (by simp [e])
    have hr : 10 ∉ r := fun e => h (by simp [e])
    have := ih rest hr
    simp only [List.cons_append, List.append_assoc, List.nil_append] at this ⊢
    conv => lhs; unfold rawLines
    simp [hc, this]

theorem rawLines_flatten : ∀ (ls : List Bytes), (∀ l ∈ ls, ∃ b, l = b ++ [10] ∧ 10 ∉ b) → rawLines ls.flatten = ls := by
  intro ls
  induction ls with
  | nil => intro _; rfl
  | cons l r ih =>
    intro h
    obtain ⟨b, e, hb⟩ := h l (by simp)
    subst e
    rw [List.flatten_cons, rawLines_line b _ hb, ih (fun g hg => h g (by simp [hg]))]

/-! ## `csv.Reader` on a rendered file -/

/-- a normalised line that `csv.Reader.Read` turns into the record `r` of `k` fields -/
structure GoodLine (k : Nat) (l : Bytes) (r : List Bytes) : Prop where
  notComment : l.head? ≠ some 35
  notNL : l ≠ [10]
  notEmpty : l ≠ []
  fields : lineFields l = .ok r
  len : r.length = k

/-- lines that all give a record of `k` fields: `FieldsPerRecord` never trips, the reader ends on `io.EOF` -/
theorem csvRecs_good {α : Type} (line : α → Bytes) (rec : α → List Bytes) (k : Nat) :
    ∀ (rows : List α) (n : Option Nat), (n = none ∨ n = some k) →
      (∀ r ∈ rows, GoodLine k (line r) (rec r)) →
      csvRecs (rows.map line) n = ⟨rows.map rec, .eof⟩ := by
  intro rows
  induction rows with
  | nil => intro n _ _; rfl
  | cons r rs ih =>
    intro n hn h
    have g := h r (by simp)
    have hrs : ∀ x ∈ rs, GoodLine k (line x) (rec x) := fun x hx => h x (by simp [hx])
    have i1 := ih (some k) (Or.inr rfl) hrs
    rw [List.map_cons, csvRecs]
    simp only [g.notComment, g.notNL, g.notEmpty, g.fields, if_false, or_self]
    rcases hn with e | e
    · subst e
      simp only [g.len, i1, List.map_cons]
    · subst e
      simp only [g.len, i1, List.map_cons, if_true]

/-- a rendered line whose first field is a number -/
theorem goodLine_ncbiLine (n : Nat) (rest : List Bytes) (h : ∀ f ∈ rest, NoSep f) :
    GoodLine (rest.length + 2) (csvLine (ncbiLine (showNat n :: rest))) (recOf (showNat n) rest) := by
  rw [csvLine_ncbiLine]
  obtain ⟨d, ds, e, hd, _⟩ := showNat_shape n
  have hne : d ≠ 10 ∧ d ≠ 35 := ⟨(isDigit_noSep hd).2.1, (isDigit_noSep hd).2.2.2⟩
  have hl : ncbiLine (showNat n :: rest) = d :: (ds ++ 9 :: 124 :: tailBody rest ++ [10]) := by
    rw [ncbiLine_eq, lineBody, e]; simp
  refine ⟨?_, ?_, ?_, lineFields_ncbiLine _ rest (noSep_showNat n) h, recOf_length _ rest⟩
  · rw [hl]; simp [hne.2]
  · rw [hl]; simp [hne.1]
  · rw [hl]; simp

theorem line_shape (n : Nat) (rest : List Bytes) (h : ∀ f ∈ rest, NoSep f) :
    ∃ b, ncbiLine (showNat n :: rest) = b ++ [10] ∧ 10 ∉ b :=
  ⟨lineBody (showNat n) rest, ncbiLine_eq rest _, lineBody_no10 _ rest (noSep_showNat n) h⟩

/-- the csv reader on a file of rendered lines, all with the same number of fields -/
theorem csvRead_lines {α : Type} (id : α → Nat) (rest : α → List Bytes) (k : Nat) (rows : List α)
    (hk : ∀ r ∈ rows, (rest r).length = k) (h : ∀ r ∈ rows, ∀ f ∈ rest r, NoSep f) :
    csvRead (rows.map fun r => ncbiLine (showNat (id r) :: rest r)).flatten =
      ⟨rows.map fun r => recOf (showNat (id r)) (rest r), .eof⟩ := by
  unfold csvRead
  rw [rawLines_flatten, List.map_map]
  · apply csvRecs_good (fun r => csvLine (ncbiLine (showNat (id r) :: rest r))) _ (k + 2) rows none (Or.inl rfl)
    intro r hr
    have := goodLine_ncbiLine (id r) (rest r) (h r hr)
    rw [hk r hr] at this
    exact this
  · intro l hl
    obtain ⟨r, hr, e⟩ := List.mem_map.1 hl
    subst e
    exact line_shape (id r) (rest r) (h r hr)

theorem allRec_map {α β γ : Type} (R : β → γ → Prop) (f : α → β) (g : α → γ) :
    ∀ (rows : List α), (∀ r ∈ rows, R (f r) (g r)) → AllRec R (rows.map f) (rows.map g) := by
  intro rows
  induction rows with
  | nil => intro _; exact .nil
  | cons r rs ih => intro h; exact .cons (h r (by simp)) (ih fun x hx => h x (by simp [hx]))

/-- **`nodes.dmp`** : the csv reader reaches the end of a rendered file, and its records are, one for
one, the declarations -/
theorem csvRead_renderNodes (rows : List NodeRow) (k : Nat) (hk : ∀ r ∈ rows, r.extra.length = k)
    (hid : ∀ r ∈ rows, r.id < 2 ^ 63 ∧ r.parent < 2 ^ 63)
    (hrank : ∀ r ∈ rows, NoSep r.rank ∧ trimSpace r.rank = r.rank)
    (hextra : ∀ r ∈ rows, ∀ f ∈ r.extra, NoSep f) :
    (csvRead (renderNodes rows)).stop = .eof ∧
      AllRec NodeRec (csvRead (renderNodes rows)).recs (rows.map NodeRow.decl) := by
  have hclean : ∀ r ∈ rows, ∀ f ∈ showNat r.parent :: r.rank :: r.extra, NoSep f := by
    intro r hr f hf
    rcases List.mem_cons.1 hf with e | hf
    · subst e; exact noSep_showNat _
    · rcases List.mem_cons.1 hf with e | hf
      · subst e; exact (hrank r hr).1
      · exact hextra r hr f hf
  have e := csvRead_lines (fun r : NodeRow => r.id) (fun r => showNat r.parent :: r.rank :: r.extra) (k + 2) rows
    (fun r hr => by simp [hk r hr]) hclean
  unfold renderNodes
  rw [e]
  refine ⟨rfl, allRec_map NodeRec _ _ rows ?_⟩
  intro r hr
  refine ⟨_, _, _, _, rfl, num_cell0 _ (hid r hr).1, num_cell _ (hid r hr).2, ?_⟩
  show trimSpace (trimLeft (9 :: (r.rank ++ [9]))) = r.rank
  rw [trimSpace_cell, (hrank r hr).2]

/-- **`merged.dmp`** -/
theorem csvRead_renderMerged (rows : List (Nat × Nat)) (h : ∀ r ∈ rows, r.1 < 2 ^ 63 ∧ r.2 < 2 ^ 63) :
    (csvRead (renderMerged rows)).stop = .eof ∧ AllRec MergedRec (csvRead (renderMerged rows)).recs rows := by
  have e := csvRead_lines (fun r : Nat × Nat => r.1) (fun r => [showNat r.2]) 1 rows
    (fun r _ => rfl) (fun r _ f hf => by simp at hf; subst hf; exact noSep_showNat _)
  unfold renderMerged
  rw [e]
  refine ⟨rfl, ?_⟩
  have := allRec_map MergedRec (fun r : Nat × Nat => recOf (showNat r.1) [showNat r.2]) id rows ?_
  · simpa using this
  · intro r hr
    exact ⟨_, _, _, rfl, num_cell0 _ (h r hr).1, num_cell _ (h r hr).2⟩

/-! ## `names.dmp` : `bufio.Reader.ReadLine` + `strings.Split` -/

theorem trimSpace_cell' (f : Bytes) : trimSpace (9 :: (f ++ [9])) = trimSpace f := by
  rw [trimSpace_cons_space _ (by decide), trimSpace_append_tab]

/-- a rendered line of at most 4096 bytes (its final line feed included) fits the `ReadLine` buffer -/
theorem nameLine_ncbiLine (f0 : Bytes) (rest : List Bytes) (hlen : (ncbiLine (f0 :: rest)).length ≤ 4096) :
    nameLine (ncbiLine (f0 :: rest)) = some (lineBody f0 rest) := by
  rw [ncbiLine_eq] at hlen ⊢
  unfold nameLine
  have e1 : (lineBody f0 rest ++ [10]).getLast? = some 10 := by simp
  have e2 : (lineBody f0 rest ++ [10]).dropLast = lineBody f0 rest := by simp
  have e3 : ¬ (lineBody f0 rest).length ≥ 4096 := by
    simp only [List.length_append, List.length_cons, List.length_nil] at hlen; omega
  simp only [e1, e2, if_true, lineBody_getLast, e3, if_false]
  simp

def nameLineOf (r : NameRow) : Bytes := ncbiLine [showNat r.id, r.name, r.uniq, r.cls]

/-- one turn of the loop of `loadNameTable` on a rendered line -/
theorem loadNameLines_step (isNode : Nat → Bool) (r : NameRow) (ls : List Bytes) (acc : List (Nat × Bytes))
    (hid : r.id < 2 ^ 63)
    (hf : NoSep r.name ∧ trimSpace r.name = r.name ∧ NoSep r.uniq ∧ NoSep r.cls ∧ trimSpace r.cls = r.cls)
    (hlen : (nameLineOf r).length ≤ 4096) :
    loadNameLines isNode (nameLineOf r :: ls) acc =
      if r.cls = sciClass ∧ isNode r.id = true then loadNameLines isNode ls ((r.id, r.name) :: acc)
      else loadNameLines isNode ls acc := by
  obtain ⟨h1, h2, h3, h4, h5⟩ := hf
  have hclean : ∀ f ∈ [r.name, r.uniq, r.cls], NoSep f := by
    intro f hf
    simp only [List.mem_cons, List.not_mem_nil, or_false] at hf
    rcases hf with e | e | e <;> subst e <;> assumption
  have hs := lineBody_split (showNat r.id) [r.name, r.uniq, r.cls] (noSep_showNat _) hclean
  simp only [cellsTail] at hs
  rw [loadNameLines]
  unfold nameLineOf at hlen ⊢
  rw [nameLine_ncbiLine _ _ hlen]
  simp only [hs, trimSpace_append_tab, trimSpace_showNat, atoi_showNat' r.id hid, trimSpace_cell', h2, h5]

/-- the loop of `loadNameTable` over rendered lines, from any state `acc` -/
theorem loadNameLines_lines (isNode : Nat → Bool) : ∀ (rows : List NameRow) (acc : List (Nat × Bytes)),
    (∀ r ∈ rows, r.id < 2 ^ 63) →
    (∀ r ∈ rows, NoSep r.name ∧ trimSpace r.name = r.name ∧ NoSep r.uniq ∧ NoSep r.cls ∧ trimSpace r.cls = r.cls) →
    (∀ r ∈ rows, (nameLineOf r).length ≤ 4096) →
    loadNameLines isNode (rows.map nameLineOf) acc =
      .ok (((rows.filter fun r => decide (r.cls = sciClass) && isNode r.id).map fun r => (r.id, r.name)).reverse ++ acc) := by
  intro rows
  induction rows with
  | nil => intro acc _ _ _; rfl
  | cons r rs ih =>
    intro acc hid hf hlen
    have i1 := fun acc' => ih acc' (fun x hx => hid x (by simp [hx])) (fun x hx => hf x (by simp [hx]))
      (fun x hx => hlen x (by simp [hx]))
    rw [List.map_cons, loadNameLines_step isNode r _ acc (hid r (by simp)) (hf r (by simp)) (hlen r (by simp))]
    by_cases hc : r.cls = sciClass ∧ isNode r.id = true
    · rw [if_pos hc, i1]
      have : (decide (r.cls = sciClass) && isNode r.id) = true := by simp [hc.1, hc.2]
      simp [this]
    · rw [if_neg hc, i1]
      have : (decide (r.cls = sciClass) && isNode r.id) = false := by
        cases hb : (decide (r.cls = sciClass) && isNode r.id)
        · rfl
        · exfalso; apply hc; simpa using hb
      simp [this]

/-- **`names.dmp`** : the scientific names of the declared nodes, the latest first.  `hlen` is exactly the
condition of `nameLine` : `ReadLine` refuses (`isPrefix`) a line whose body, the line without its final
line feed, has 4096 bytes or more, that is a line of more than 4096 bytes with its line feed -/
theorem loadNameLines_renderNames (isNode : Nat → Bool) (rows : List NameRow)
    (hid : ∀ r ∈ rows, r.id < 2 ^ 63)
    (hf : ∀ r ∈ rows, NoSep r.name ∧ trimSpace r.name = r.name ∧ NoSep r.uniq ∧ NoSep r.cls ∧ trimSpace r.cls = r.cls)
    (hlen : ∀ r ∈ rows, (ncbiLine [showNat r.id, r.name, r.uniq, r.cls]).length ≤ 4096) :
    loadNameLines isNode (rawLines (renderNames rows)) [] =
      .ok (((rows.filter fun r => decide (r.cls = sciClass) && isNode r.id).map fun r => (r.id, r.name)).reverse) := by
  have e : rawLines (renderNames rows) = rows.map nameLineOf := by
    unfold renderNames
    apply rawLines_flatten
    intro l hl
    obtain ⟨r, hr, e⟩ := List.mem_map.1 hl
    subst e
    obtain ⟨_, _, h3, h4, _⟩ := hf r hr
    apply line_shape
    intro f hf
    simp only [List.mem_cons, List.not_mem_nil, or_false] at hf
    rcases hf with e | e | e <;> subst e <;> assumption
  rw [e, loadNameLines_lines isNode rows [] hid hf hlen, List.append_nil]

/-! ## the round trip -/

/-- **`LoadNCBITaxDump` reads back a rendered dump** : for clean declarations (no `|`, line feed or double
quote in a field, no blank at either end of a rank, name or name class, numbers in the `int64` range, the
same number of columns on every line of `nodes.dmp`, lines of `names.dmp` that fit the 4096 byte buffer)
the state of the `Taxonomy` is the one declared: every node line is an `AddNewTaxa`, the scientific names
of the declared nodes are set, every line of `merged.dmp` is an alias. -/
theorem loadDump_render (rows : List NodeRow) (nrows : List NameRow) (mrows : List (Nat × Nat)) (k : Nat)
    (hk : ∀ r ∈ rows, r.extra.length = k)
    (hid : ∀ r ∈ rows, r.id < 2 ^ 63 ∧ r.parent < 2 ^ 63)
    (hrank : ∀ r ∈ rows, NoSep r.rank ∧ trimSpace r.rank = r.rank)
    (hextra : ∀ r ∈ rows, ∀ f ∈ r.extra, NoSep f)
    (hnid : ∀ r ∈ nrows, r.id < 2 ^ 63)
    (hnf : ∀ r ∈ nrows, NoSep r.name ∧ trimSpace r.name = r.name ∧ NoSep r.uniq ∧ NoSep r.cls ∧ trimSpace r.cls = r.cls)
    (hnlen : ∀ r ∈ nrows, (ncbiLine [showNat r.id, r.name, r.uniq, r.cls]).length ≤ 4096)
    (hm : ∀ r ∈ mrows, r.1 < 2 ^ 63 ∧ r.2 < 2 ^ 63) :
    loadDump (renderNodes rows) (renderNames nrows) (renderMerged mrows) =
      .ok ⟨(rows.map NodeRow.decl).reverse,
        ((nrows.filter fun r => decide (r.cls = sciClass) &&
            (lookupNode (rows.map NodeRow.decl).reverse r.id).isSome).map fun r => (r.id, r.name)).reverse,
        mrows⟩ := by
  obtain ⟨hn, hnr⟩ := csvRead_renderNodes rows k hk hid hrank hextra
  obtain ⟨hms, hmr⟩ := csvRead_renderMerged mrows hm
  have hnames := loadNameLines_renderNames (fun id => (lookupNode (rows.map NodeRow.decl).reverse id).isSome)
    nrows hnid hnf hnlen
  have h1 := loadNodeRecs_ok _ _ [] hnr
  have h2 := loadMergedRecs_ok _ _ hmr
  simp only [List.append_nil] at h1
  simp [loadDump, csvOk, hn, hms, h1, h2, hnames]

/-! ## non-vacuity -/

/-- `"1\t|\t1\t|\tno rank\t|\n"` -/
example : ncbiLine [[49], [49], [110, 111, 32, 114, 97, 110, 107]] =
    [49, 9, 124, 9, 49, 9, 124, 9, 110, 111, 32, 114, 97, 110, 107, 9, 124, 10] := by decide

/-- `1|1|no rank`, `2|1|genus`, `3|2|species`, two more columns (one empty, `8`) -/
def exRows : List NodeRow :=
  [⟨1, 1, [110, 111, 32, 114, 97, 110, 107], [[], [56]]⟩,
   ⟨2, 1, [103, 101, 110, 117, 115], [[], [56]]⟩,
   ⟨3, 2, [115, 112, 101, 99, 105, 101, 115], [[], [56]]⟩]

/-- `3|H.s||scientific name`, `3|man||common name`, `7|x||scientific name` (7 is not a node) -/
def exNames : List NameRow :=
  [⟨3, [72, 46, 115], [], sciClass⟩,
   ⟨3, [109, 97, 110], [], [99, 111, 109, 109, 111, 110, 32, 110, 97, 109, 101]⟩,
   ⟨7, [120], [], sciClass⟩]

def exMerged : List (Nat × Nat) := [(9, 3)]

example : renderMerged exMerged = [57, 9, 124, 9, 51, 9, 124, 10] := by decide

example : loadDump (renderNodes exRows) (renderNames exNames) (renderMerged exMerged) =
    .ok ⟨[(3, 2, [115, 112, 101, 99, 105, 101, 115]), (2, 1, [103, 101, 110, 117, 115]),
          (1, 1, [110, 111, 32, 114, 97, 110, 107])],
      [(3, [72, 46, 115])], [(9, 3)]⟩ :=
  loadDump_render exRows exNames exMerged 2 (by decide) (by decide) (by decide) (by decide) (by decide)
    (by decide) (by decide) (by decide)

end ObiVerif.TaxLoad
