import ObiVerif.Lemmas.LcsVerbatim
/-!
# C09: the verbatim kernel refines the banded matrix — outer loop, initial writes, final read, top-level statements

`outer_ok` (induction over the outer loop with the row swap), `init_ok` (the three initial writes make the row hold
anti-diagonals 0 and 1 whatever the buffer contained), `runFrom_ok` (the final read is the last cell of the banded
matrix), `setup_ordered` (the geometry of the code is the band `bandGeo` of the structural layer),
`fastLCSBuf_refines`, `fastLCS_verbatim_refines`, `lcsHistory_fresh`.
-/
namespace ObiVerif.Lcs


theorem outer_ok {g : Geo} {A B : Seq} (hg : GeoOK g A B) :
    ∀ (n : Nat) (y : Int) (poff coff : Nat) (st : St),
      (poff + g.width ≤ coff ∨ coff + g.width ≤ poff) → poff + g.width ≤ st.buf.size → coff + g.width ≤ st.buf.size →
      EvenOK g A B st.buf poff (y - 1) → OddOK g A B st.buf poff (y - 1) →
      ∃ st' p', outer g n y poff coff st = .ok (st', p') ∧ st'.endp = st.endp ∧ st'.buf.size = st.buf.size ∧
        (p' = poff ∨ p' = coff) ∧ EvenOK g A B st'.buf p' (y + n - 1) ∧ OddOK g A B st'.buf p' (y + n - 1) := by
  intro n
  induction n with
  | zero =>
    intro y poff coff st _ _ _ hE hO
    exact ⟨st, poff, rfl, rfl, rfl, .inl rfl, by simpa using hE, by simpa using hO⟩
  | succ n ih =>
    intro y poff coff st hd h1 h2 hE hO
    obtain ⟨s1, e1, _, p2, p3, p4, p5⟩ := diagStep_ok hg poff coff hd y st h2 hE hO
    have hE' : EvenOK g A B s1.buf coff (y + 1 - 1) := by simpa using p4
    have hO' : OddOK g A B s1.buf coff (y + 1 - 1) := by simpa using p5
    obtain ⟨s2, p', e2, q1, q2, q3, q4, q5⟩ := ih (y + 1) coff poff s1 (by omega) (by omega) (by omega) hE' hO'
    refine ⟨s2, p', ?_, by omega, by omega, by omega, ?_, ?_⟩
    · simp only [outer, e1, e2]
    · have : y + ((n + 1 : Nat) : Int) - 1 = y + 1 + (n : Int) - 1 := by omega
      rw [this]; exact q4
    · have : y + ((n + 1 : Nat) : Int) - 1 = y + 1 + (n : Int) - 1 := by omega
      rw [this]; exact q5

/-! ## initial writes, final read -/

theorem bandCell_init00 (lo hi : Int) (h0 : lo < 0) (h1 : 0 < hi) : bandCell lo hi 0 0 false 0 0 0 = emptyV := by
  have hb : ¬ (((0 : Nat) : Int) - ((0 : Nat) : Int) = lo ∨ ((0 : Nat) : Int) - ((0 : Nat) : Int) = hi) := by omega
  simp only [bandCell, if_true, if_neg hb, pick_row0 0 (by omega)]; rfl

theorem bandCell_init01 (lo hi : Int) (h0 : lo < 0) (h1 : 1 < hi) : bandCell lo hi 0 1 false 0 0 0 = encodeValues 0 1 false := by
  have hb : ¬ (((1 : Nat) : Int) - ((0 : Nat) : Int) = lo ∨ ((1 : Nat) : Int) - ((0 : Nat) : Int) = hi) := by omega
  simp only [bandCell, if_true, if_neg hb, pick_row0 1 (by omega)]

theorem bandCell_init10 (lo hi : Int) (h0 : lo < -1) (h1 : 0 < hi) : bandCell lo hi 1 0 false 0 0 0 = encodeValues 0 1 false := by
  have hb : ¬ (((0 : Nat) : Int) - ((1 : Nat) : Int) = lo ∨ ((0 : Nat) : Int) - ((1 : Nat) : Int) = hi) := by omega
  simp only [bandCell, if_neg hb, pick_col0 1 (by omega)]; simp

/-- after `previous[extra] = _empty; previous[extra+even] = …; previous[extra+even-1] = …` the row `previous`
holds anti-diagonals 0 and 1, whatever the buffer contained -/
theorem init_ok {g : Geo} {A B : Seq} (hg : GeoOK g A B) (buf : Array UInt64) (hsz : g.width ≤ buf.size) :
    let buf3 := ((buf.setIfInBounds (0 + g.extra.toNat) emptyV).setIfInBounds (0 + (g.extra + g.even).toNat)
      (encodeValues 0 1 false)).setIfInBounds (0 + (g.extra + g.even - 1).toNat) (encodeValues 0 1 false)
    EvenOK g A B buf3 0 0 ∧ OddOK g A B buf3 0 0 := by
  obtain ⟨hA, hB, hlA, hlB, hegf, hle, hextra, heven, hwidth⟩ := hg
  have hlo : gLo g < -1 := by unfold gLo; omega
  have hhi : 1 < gHi g := by unfold gHi; omega
  refine ⟨?_, ?_⟩
  · intro x i j h1 h2 h3 h4 h5 h6
    have ex : x = g.extra := by omega
    have ei : i = 0 := by omega
    have ej : j = 0 := by omega
    subst ex ei ej
    rw [getD_set_ne _ _ _ _ (by omega), getD_set_ne _ _ _ _ (by omega), getD_set_eq _ _ _ (by omega),
      cellM_row0 _ _ _ _ _ (by omega), bandCell_init00 _ _ (by omega) (by omega)]
  · intro x i j h1 h2 h3 h4 h5 h6
    have ex : x = g.extra + g.even ∨ x = g.extra + g.even - 1 := by omega
    rcases ex with ex | ex
    · have ei : i = 0 := by omega
      have ej : j = 1 := by omega
      subst ex ei ej
      rw [getD_set_ne _ _ _ _ (by omega), getD_set_eq _ _ _ (by simp; omega),
        cellM_row0 _ _ _ _ _ (by omega), bandCell_init01 _ _ (by omega) (by omega)]
    · have ei : i = 1 := by omega
      have ej : j = 0 := by omega
      subst ex ei ej
      rw [getD_set_eq _ _ _ (by simp; omega), cellM_col0, bandCell_init10 _ _ (by omega) (by omega)]

theorem wr_ok (st : St) (off width : Nat) (x : Int) (v : UInt64) (h0 : 0 ≤ x) (h1 : x < width) :
    wr st off width x v = .ok ⟨st.buf.setIfInBounds (off + x.toNat) v, st.pend, st.endp⟩ := by
  simp [wr, h0, h1]

theorem rd_ok (buf : Array UInt64) (off width : Nat) (x : Int) (h0 : 0 ≤ x) (h1 : x < width) :
    rd buf off width x = .ok (buf.getD (off + x.toNat) 0) := by
  simp [rd, h0, h1]

/-- the answer of the verbatim kernel (endgapfree = false: `end` stays 0) for an answer of the structural layer -/
def resOf : Option (Nat × Nat) → Int × Int × Int
  | none => (-1, -1, -1)
  | some (s, l) => (s, l, 0)

theorem runFrom_ok (su : Setup) (A B : Seq) (hg : GeoOK su.g A B) (hd : su.delta = su.g.lA - su.g.lB)
    (hN : (su.N : Int) = su.g.lB + su.delta / 2) (buf : Array UInt64) (hsz : 2 * su.g.width ≤ buf.size) :
    ∃ buf', runFrom su buf =
      .ok (resOf (bandResult (cellM (gLo su.g) (gHi su.g) A B B.length A.length)), buf') := by
  have hg' := hg
  obtain ⟨hA, hB, hlA, hlB, hegf, hle, hextra, heven, hwidth⟩ := hg
  obtain ⟨hE0, hO0⟩ := init_ok hg' buf (by omega)
  unfold runFrom
  simp only [hegf, Bool.false_eq_true, if_false]
  rw [wr_ok _ _ _ _ _ (by omega) (by omega)]
  simp only [bind, Except.bind]
  rw [wr_ok _ _ _ _ _ (by omega) (by omega)]
  simp only []
  rw [wr_ok _ _ _ _ _ (by omega) (by omega)]
  simp only []
  obtain ⟨st', p', e1, q1, q2, q3, q4, q5⟩ := outer_ok hg' su.N 1 0 su.g.width
    ⟨((buf.setIfInBounds (0 + su.g.extra.toNat) emptyV).setIfInBounds (0 + (su.g.extra + su.g.even).toNat)
      (encodeValues 0 1 false)).setIfInBounds (0 + (su.g.extra + su.g.even - 1).toNat) (encodeValues 0 1 false), 0, 0⟩
    (by omega) (by simp; omega) (by simp; omega) (by simpa using hE0) (by simpa using hO0)
  rw [e1]
  simp only []
  simp only [Array.size_setIfInBounds] at q2
  have hx0 : 0 ≤ su.delta % 2 * su.g.even + su.g.extra + su.delta / 2 := by
    have : 0 ≤ su.delta % 2 * su.g.even := Int.mul_nonneg (by omega) (by omega)
    omega
  have hpar : su.delta % 2 = 0 ∨ su.delta % 2 = 1 := by omega
  have hx1 : su.delta % 2 * su.g.even + su.g.extra + su.delta / 2 < (su.g.width : Int) := by
    rcases hpar with h | h <;> rw [h] <;> omega
  rw [rd_ok _ _ _ _ hx0 hx1]
  simp only []
  have hv : st'.buf.getD (p' + (su.delta % 2 * su.g.even + su.g.extra + su.delta / 2).toNat) 0 =
      cellM (gLo su.g) (gHi su.g) A B B.length A.length := by
    rcases hpar with h | h
    · rw [h]
      exact q4 _ _ _ (by omega) (by omega) (by omega) (by omega) (by omega) (by omega)
    · rw [h]
      exact q5 _ _ _ (by omega) (by omega) (by omega) (by omega) (by omega) (by omega)
  rw [hv]
  refine ⟨st'.buf, ?_⟩
  simp only [bandResult, q1]
  split <;> rfl

/-! ## the head of the function -/

theorem setup_swap (a b : Seq) (e : Int) (egf : Bool) (h : a.length < b.length) : setup a b e egf = setup b a e egf := by
  have h' : ¬ b.length < a.length := by omega
  simp only [setup, h, h', if_true, if_false]

theorem setup_ordered (A B : Seq) (h : B.length ≤ A.length) (e : Int) :
    (setup A B e false = none ∧ bandGeo A.length B.length e = none) ∨
    ∃ su, setup A B e false = some su ∧ GeoOK su.g A B ∧ su.delta = su.g.lA - su.g.lB ∧
      (su.N : Int) = su.g.lB + su.delta / 2 ∧ bandGeo A.length B.length e = some (gLo su.g, gHi su.g) := by
  have h' : ¬ A.length < B.length := by omega
  simp only [setup, bandGeo, h', if_false, Bool.false_eq_true]
  have hm : (if (e == -1) = true then (A.length : Int) * 2 else e) = (if (e == -1) = true then 2 * (A.length : Int) else e) := by
    split <;> omega
  rw [hm]
  generalize (if (e == -1) = true then 2 * (A.length : Int) else e) = me
  by_cases hd : (A.length : Int) - (B.length : Int) > me
  · left; simp [hd]
  · right
    simp only [hd, if_false]
    refine ⟨_, rfl, ⟨rfl, rfl, rfl, rfl, rfl, h, by simp only []; omega, rfl, by simp only []; omega⟩, rfl, ?_, ?_⟩
    · simp only []; omega
    · simp only [gLo, gHi]

theorem bandLCS_swap_def (a b : Seq) (e : Int) :
    bandLCS a b e = if a.length < b.length then bandLCSAB b a e else bandLCSAB a b e := rfl

/-- **refinement on an ordered pair**, any caller buffer large enough -/
theorem runFrom_refines_AB (A B : Seq) (h : B.length ≤ A.length) (e : Int) :
    match setup A B e false with
    | none => bandLCSAB A B e = none
    | some su => ∀ buf : Array UInt64, 2 * su.g.width ≤ buf.size →
        ∃ buf', runFrom su buf = .ok (resOf (bandLCSAB A B e), buf') := by
  rcases setup_ordered A B h e with ⟨h1, h2⟩ | ⟨su, h1, hg, hd, hN, h2⟩
  · rw [h1]; simp only [bandLCSAB, h2]
  · rw [h1]
    intro buf hsz
    obtain ⟨buf', hb⟩ := runFrom_ok su A B hg hd hN buf hsz
    refine ⟨buf', ?_⟩
    rw [hb]
    simp only [bandLCSAB, h2, bandLast_getLastD]

/-- **refinement**, any pair, any bound, any caller buffer large enough -/
theorem runFrom_refines (a b : Seq) (e : Int) :
    match setup a b e false with
    | none => bandLCS a b e = none
    | some su => ∀ buf : Array UInt64, 2 * su.g.width ≤ buf.size →
        ∃ buf', runFrom su buf = .ok (resOf (bandLCS a b e), buf') := by
  by_cases h : a.length < b.length
  · rw [setup_swap a b e false h, bandLCS_swap_def, if_pos h]
    exact runFrom_refines_AB b a (by omega) e
  · rw [bandLCS_swap_def, if_neg h]
    exact runFrom_refines_AB a b (by omega) e

theorem callerBuf_size (width : Nat) (buf0 : Array UInt64) : 2 * width ≤ (callerBuf width buf0).size := by
  unfold callerBuf
  split
  · simp; omega
  · omega

theorem fillBuf_size (width : Nat) (fill : Option UInt64) : 2 * width ≤ (fillBuf width fill).size := by
  cases fill <;> simp [fillBuf]; omega

/-- **`fastLCSBuf_refines`** — one call of the verbatim kernel (endgapfree = false) on the caller's buffer `buf0`,
WHATEVER it contains and whatever its capacity: no panic, and the answer is the structural layer's. -/
theorem fastLCSBuf_refines (a b : Seq) (e : Int) (buf0 : Array UInt64) :
    ∃ buf', fastLCSBuf a b e false buf0 = .ok (resOf (bandLCS a b e), buf') := by
  have := runFrom_refines a b e
  unfold fastLCSBuf
  split
  · rename_i h; rw [h] at this; simp only [] at this
    exact ⟨buf0, by rw [this]; rfl⟩
  · rename_i su h; rw [h] at this
    exact this _ (callerBuf_size _ _)

/-- **`fastLCS_verbatim_refines`** — the verbatim transcription `fastLCSEGFScoreByte` (endgapfree = false), for all
sequences, every bound and every `fill` (fresh or stale buffer), returns what the structural layer returns. -/
theorem fastLCS_verbatim_refines (a b : Seq) (e : Int) (fill : Option UInt64) :
    fastLCSEGFScoreByte a b e false fill = .ok (resOf (bandLCS a b e)) := by
  have := runFrom_refines a b e
  rw [fastLCSEGFScoreByte_eq_runFrom]
  split
  · rename_i h; rw [h] at this; simp only [] at this
    rw [this]; rfl
  · rename_i su h; rw [h] at this
    obtain ⟨buf', hb⟩ := this _ (fillBuf_size su.g.width fill)
    rw [hb]; rfl

/-- a history of endgapfree = false calls on one scratch buffer: every answer is the answer of a fresh call,
whatever the buffer contained at the start and whatever order the calls come in -/
theorem lcsHistory_fresh (calls : List (Seq × Seq × Int × Bool)) (hegf : ∀ c ∈ calls, c.2.2.2 = false) :
    ∀ buf0 : Array UInt64,
      lcsHistory calls buf0 = calls.map (fun c => fastLCSEGFScoreByte c.1 c.2.1 c.2.2.1 false none) := by
  induction calls with
  | nil => intro _; rfl
  | cons c cs ih =>
    intro buf0
    obtain ⟨a, b, e, egf⟩ := c
    have h1 : egf = false := hegf (a, b, e, egf) (by simp)
    subst h1
    obtain ⟨buf', hb⟩ := fastLCSBuf_refines a b e buf0
    simp only [lcsHistory, hb, List.map_cons, fastLCS_verbatim_refines]
    rw [ih (fun c hc => hegf c (by simp [hc])) buf']
    simp only [fastLCS_verbatim_refines]


end ObiVerif.Lcs
