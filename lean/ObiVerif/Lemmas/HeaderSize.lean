import ObiVerif.Lemmas.Header
import ObiVerif.Lemmas.Json
/-!
# Records of every size (fourth pass of C02)

`sized n m d k`: identifier of `n+1` bytes, one string annotation of `m` bytes, a definition of `d` bytes, a sequence of
`k+1` bases with qualities.  Its title line has exactly `n + m + d + 26` bytes; it satisfies the hypotheses of the
round-trip theorems for every `n m d k`.  Core Lean only.
-/
set_option Elab.async false
namespace ObiVerif.HeaderSize
open ObiVerif.Header ObiVerif.Json

def sized (n m d k : Nat) : Record JMems :=
  { id := List.replicate (n + 1) 120, seq := List.replicate (k + 1) 97, qual := some (List.replicate (k + 1) 30),
    ann := .cons [107] (.str (List.replicate m 118)) .nil, defn := some (List.replicate d 100) }

theorem escByte_plain (c : UInt8) (h : c = 118 ∨ c = 100) : escByte c = [c] := by
  rcases h with rfl | rfl <;> decide

theorem encStrBody_plain_aux : ∀ (n : Nat) (s : Bytes), s.length ≤ n → (∀ c ∈ s, c = 118 ∨ c = 100) → encStrBody s = s := by
  intro n
  induction n with
  | zero =>
    intro s hs _
    match s, hs with
    | [], _ => simp [encStrBody]
  | succ n ih =>
    intro s hs h
    match s, hs, h with
    | [], _, _ => simp [encStrBody]
    | [c], _, h => simp [encStrBody, escByte_plain c (h c (by simp))]
    | [c, d], _, h => simp [encStrBody, escByte_plain c (h c (by simp)), escByte_plain d (h d (by simp))]
    | c :: d :: e :: t', hs, h =>
      have hc := h c (by simp)
      have hne : ¬ (c = 0xE2 ∧ d = 0x80 ∧ (e = 0xA8 ∨ e = 0xA9)) := by
        rintro ⟨rfl, _⟩; rcases hc with hc | hc <;> exact absurd hc (by decide)
      rw [encStrBody, if_neg hne, escByte_plain c hc,
        ih (d :: e :: t') (by simp at hs ⊢; omega) (fun x hx => h x (by simp at hx ⊢; right; exact hx))]
      rfl

theorem encStrBody_plain (s : Bytes) (h : ∀ c ∈ s, c = 118 ∨ c = 100) : encStrBody s = s :=
  encStrBody_plain_aux s.length s (Nat.le_refl _) h

theorem sized_annOK (n m d k : Nat) : AnnOK (sized n m d k).ann where
  wf := by simp [sized, JMems.WF, JVal.WF]
  noDef := by simp [sized, JMems.hasKey, defKey]

theorem sized_WF (n m d k : Nat) : WF (sized n m d k) where
  id_ne := by simp [sized]
  id_noBlank := by
    intro c hc
    simp [sized] at hc
    rw [hc]; decide
  seq_ne := by simp [sized]
  seq_ok := by
    intro c hc
    simp [sized] at hc
    rw [hc]; decide

theorem sized_info (n m d k : Nat) :
    info goJson (sized n m d k).ann (sized n m d k).defn
      = [123, 34, 100, 101, 102, 105, 110, 105, 116, 105, 111, 110, 34, 58, 34] ++ List.replicate d 100
        ++ [34, 44, 34, 107, 34, 58, 34] ++ List.replicate m 118 ++ [34, 125] := by
  have hins : JMems.insert defKey (.str (List.replicate d 100)) (.cons [107] (.str (List.replicate m 118)) .nil)
      = .cons defKey (.str (List.replicate d 100)) (.cons [107] (.str (List.replicate m 118)) .nil) := by
    have : bytesLt (encKey defKey) (encKey [107]) = true := by decide
    simp [JMems.insert, this]
  have h1 : encStrBody (List.replicate d 100) = List.replicate d 100 :=
    encStrBody_plain _ (by intro c hc; simp at hc; right; exact hc.2)
  have h2 : encStrBody (List.replicate m 118) = List.replicate m 118 :=
    encStrBody_plain _ (by intro c hc; simp at hc; left; exact hc.2)
  have h3 : encStrBody defKey = defKey := by decide
  have h4 : encStrBody [107] = [107] := by decide
  simp [info, sized, goJson, withDef, hins, encodeObj, encVal, encMems, h1, h2, h3, h4]
  simp [defKey]

/-- the title line (after `>` / `@`, before the end of line) of `sized n m d k` has exactly `n + m + d + 26` bytes -/
theorem sized_title_length (n m d k : Nat) :
    (writeTitle (sized n m d k).id (info goJson (sized n m d k).ann (sized n m d k).defn)).length = n + m + d + 26 := by
  rw [sized_info]
  simp [writeTitle, sized]
  omega

theorem sized_seq_length (n m d k : Nat) : (sized n m d k).seq.length = k + 1 := by simp [sized]

theorem sized_qual (n m d k : Nat) :
    (qualities (sized n m d k).seq (sized n m d k).qual).length = (sized n m d k).seq.length := by
  simp [sized, qualities]

end ObiVerif.HeaderSize
