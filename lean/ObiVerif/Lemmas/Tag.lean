import ObiVerif.Model.Tag
/-!
# Lemmas on the search loops of obitag / obirefidx (C15) — `FindClosests`
-/
namespace ObiVerif.Tag

/-- the q-gram bound (q = 4) read on the candidates seen from a sequence of length `lq`: a candidate within
`d` differences shares at least `max(lq, len) - 3 - 4*d` 4-mers (truncated at 0) with it.  A HYPOTHESIS of
the pruning theorems; the harness validates it on every pair it meets. -/
def QGramBound (lq : Nat) (c : Nat → Cand) (o : List Nat) : Prop :=
  ∀ i ∈ o, ∀ d, (c i).dist ≤ d → max lq (c i).len - 3 - 4 * d ≤ (c i).cw

/-- the candidates are scanned by non-increasing number of shared 4-mers -/
def SortedByCw (c : Nat → Cand) (o : List Nat) : Prop :=
  o.Pairwise (fun i j => (c j).cw ≤ (c i).cw)

/-! ## the comparison of one candidate -/

theorem fcCompare_none (v : Variant) (lq : Nat) (c : Cand) :
    fcCompare v lq c none = some (c.dist, c.lcs, c.ali) := rfl

/-- with a bound `e`: either no answer and the candidate is farther than `e`, or the exact distance -/
theorem fcCompare_some (v : Variant) (lq : Nat) (c : Cand) (e : Nat) :
    (fcCompare v lq c (some e) = none ∧ e < c.dist) ∨
    (∃ l a, fcCompare v lq c (some e) = some (c.dist, l, a)) := by
  unfold fcCompare
  by_cases h0 : e = 0 ∧ v = .tag2
  · simp only [h0, and_self, if_true]
    by_cases hd : c.dist = 0
    · right; exact ⟨lq, lq, by simp [hd]⟩
    · left; simp [hd]; omega
  · simp only [h0, if_false]
    by_cases h1 : e ≤ 1
    · simp only [h1, if_true, d1or0]
      by_cases hd : c.dist ≤ 1
      · right; simp [hd]
      · left; simp [hd]; omega
    · simp only [h1, if_false, boundedLCS]
      by_cases hd : c.dist ≤ e
      · right; exact ⟨c.lcs, c.ali, by rw [if_pos hd]; rfl⟩
      · left; simp [hd]; omega

/-! ## one step of the loop -/

/-- the part of the state the answer is read from, after a candidate at distance `s` was compared -/
theorem fcUpdate_fields (wm : Nat → Nat → Nat → Nat) (lq : Nat) (c : Cand) (i : Nat) (st : FCState) (s l a : Nat) :
    let st' := fcUpdate wm lq c i st s l a
    (st.maxe = none → st'.maxe = some s ∧ st'.wordmin = wm lq c.len s ∧ st'.bestidxs = [i]) ∧
    (∀ e, st.maxe = some e → s < e → st'.maxe = some s ∧ st'.wordmin = wm lq c.len s ∧ st'.bestidxs = [i]) ∧
    (∀ e, st.maxe = some e → s = e → st'.maxe = some e ∧ st'.wordmin = st.wordmin ∧ st'.bestidxs = st.bestidxs ++ [i]) ∧
    (∀ e, st.maxe = some e → e < s → st'.maxe = some e ∧ st'.wordmin = st.wordmin ∧ st'.bestidxs = st.bestidxs) := by
  refine ⟨?_, ?_, ?_, ?_⟩
  · intro h
    by_cases hid : idGt (l, a) (l, a) = true <;> simp [fcUpdate, h, hid]
  · intro e h hlt
    by_cases hid : idGt (l, a) (l, a) = true <;> simp [fcUpdate, h, hlt, hid]
  · intro e h heq
    subst heq
    by_cases hid : idGt (l, a) st.bestId = true <;> simp [fcUpdate, h, hid]
  · intro e h hlt
    have h1 : ¬ s < e := by omega
    have h2 : ¬ (e = s) := by omega
    simp [fcUpdate, h, h1, h2]

/-! ## the invariant of the scan -/

/-- the state after the candidates `pre` have been compared -/
def FCInv (lq : Nat) (c : Nat → Cand) (pre : List Nat) (st : FCState) : Prop :=
  match st.maxe with
  | none => pre = [] ∧ st.wordmin = 0 ∧ st.bestidxs = []
  | some m => (∀ i ∈ pre, m ≤ (c i).dist) ∧ (∃ i ∈ pre, (c i).dist = m) ∧
      st.bestidxs = pre.filter (fun i => (c i).dist = m) ∧ st.wordmin = lq - 3 - 4 * m

/-- a candidate sharing fewer 4-mers than the threshold is farther than the best distance -/
theorem far_of_cw_lt {lq : Nat} {c : Cand} {m : Nat}
    (hq : ∀ d, c.dist ≤ d → max lq c.len - 3 - 4 * d ≤ c.cw) (h : c.cw < lq - 3 - 4 * m) : m < c.dist := by
  by_cases hd : c.dist ≤ m
  · have := hq m hd
    have : lq ≤ max lq c.len := Nat.le_max_left _ _
    omega
  · omega

theorem fcLoop_spec (v : Variant) (lq : Nat) (c : Nat → Cand) :
    ∀ (rest pre : List Nat) (st : FCState), FCInv lq c pre st → SortedByCw c rest → QGramBound lq c rest →
      FCInv lq c (pre ++ rest) (fcLoop wmNew v lq c rest st) := by
  intro rest
  induction rest with
  | nil => intro pre st h _ _; simpa [fcLoop] using h
  | cons i rest ih =>
    intro pre st hinv hs hq
    have hs' : SortedByCw c rest := (List.pairwise_cons.1 hs).2
    have hle : ∀ j ∈ rest, (c j).cw ≤ (c i).cw := (List.pairwise_cons.1 hs).1
    have hq' : QGramBound lq c rest := fun j hj => hq j (List.mem_cons_of_mem _ hj)
    have hqi := hq i (List.mem_cons_self)
    have happ : pre ++ i :: rest = (pre ++ [i]) ++ rest := by simp
    unfold fcLoop
    by_cases hbrk : (c i).cw < st.wordmin
    · -- break: nothing after `i` can be at the best distance
      simp only [hbrk, if_true]
      unfold FCInv at hinv ⊢
      cases hm : st.maxe with
      | none => rw [hm] at hinv; simp only at hinv; omega
      | some m =>
        rw [hm] at hinv
        simp only at hinv ⊢
        obtain ⟨h1, h2, h3, h4⟩ := hinv
        have hfar : ∀ j ∈ i :: rest, m < (c j).dist := by
          intro j hj
          apply far_of_cw_lt (hq j hj)
          rcases List.mem_cons.1 hj with e | hj'
          · subst e; omega
          · have := hle j hj'; omega
        refine ⟨?_, ?_, ?_, h4⟩
        · intro j hj
          rcases List.mem_append.1 hj with hj | hj
          · exact h1 j hj
          · exact Nat.le_of_lt (hfar j hj)
        · obtain ⟨j, hj, e⟩ := h2
          exact ⟨j, List.mem_append_left _ hj, e⟩
        · rw [h3, List.filter_append]
          have : (i :: rest).filter (fun j => (c j).dist = m) = [] := by
            apply List.filter_eq_nil_iff.2
            intro j hj
            have := hfar j hj
            simp; omega
          rw [this]; simp
    · simp only [hbrk, if_false]
      -- the candidate is compared
      cases hm : st.maxe with
      | none =>
        have hinv' := hinv
        unfold FCInv at hinv'
        rw [hm] at hinv'
        simp only at hinv'
        obtain ⟨hp, _, hb⟩ := hinv'
        rw [fcCompare_none]
        simp only
        rw [happ]
        apply ih _ _ _ hs' hq'
        have hf := (fcUpdate_fields wmNew lq (c i) i st (c i).dist (c i).lcs (c i).ali).1 hm
        unfold FCInv
        rw [hf.1]
        simp only
        subst hp
        refine ⟨by simp, ⟨i, by simp, rfl⟩, ?_, ?_⟩
        · rw [hf.2.2]; simp
        · rw [hf.2.1]; rfl
      | some e =>
        have hinv' := hinv
        unfold FCInv at hinv'
        rw [hm] at hinv'
        simp only at hinv'
        obtain ⟨h1, h2, h3, h4⟩ := hinv'
        rcases fcCompare_some v lq (c i) e with ⟨hn, hfar⟩ | ⟨l, a, hsome⟩
        · -- no answer: farther than the best so far
          rw [hn]
          simp only
          rw [happ]
          apply ih _ _ _ hs' hq'
          unfold FCInv
          rw [hm]
          simp only
          refine ⟨?_, ?_, ?_, h4⟩
          · intro j hj
            rcases List.mem_append.1 hj with hj | hj
            · exact h1 j hj
            · simp at hj; subst hj; omega
          · obtain ⟨j, hj, e'⟩ := h2
            exact ⟨j, List.mem_append_left _ hj, e'⟩
          · rw [h3, List.filter_append]
            have : [i].filter (fun j => (c j).dist = e) = [] := by
              apply List.filter_eq_nil_iff.2
              intro j hj
              simp at hj; subst hj; simp; omega
            rw [this]; simp
        · rw [hsome]
          simp only
          rw [happ]
          apply ih _ _ _ hs' hq'
          obtain ⟨_, f2, f3, f4⟩ := fcUpdate_fields wmNew lq (c i) i st (c i).dist l a
          unfold FCInv
          rcases Nat.lt_trichotomy (c i).dist e with hlt | heq | hgt
          · obtain ⟨g1, g2, g3⟩ := f2 e hm hlt
            rw [g1]
            simp only
            refine ⟨?_, ⟨i, by simp, rfl⟩, ?_, ?_⟩
            · intro j hj
              rcases List.mem_append.1 hj with hj | hj
              · have := h1 j hj; omega
              · simp at hj; subst hj; exact Nat.le_refl _
            · rw [g3, List.filter_append]
              have : pre.filter (fun j => (c j).dist = (c i).dist) = [] := by
                apply List.filter_eq_nil_iff.2
                intro j hj
                have := h1 j hj
                simp; omega
              rw [this]; simp
            · rw [g2]; rfl
          · obtain ⟨g1, g2, g3⟩ := f3 e hm heq
            rw [g1]
            simp only
            refine ⟨?_, ?_, ?_, ?_⟩
            · intro j hj
              rcases List.mem_append.1 hj with hj | hj
              · exact h1 j hj
              · simp at hj; subst hj; omega
            · exact ⟨i, by simp, heq⟩
            · rw [g3, h3, List.filter_append]; simp [heq]
            · rw [g2]; exact h4
          · obtain ⟨g1, g2, g3⟩ := f4 e hm hgt
            rw [g1]
            simp only
            refine ⟨?_, ?_, ?_, ?_⟩
            · intro j hj
              rcases List.mem_append.1 hj with hj | hj
              · exact h1 j hj
              · simp at hj; subst hj; omega
            · obtain ⟨j, hj, e'⟩ := h2
              exact ⟨j, List.mem_append_left _ hj, e'⟩
            · rw [g3, h3, List.filter_append]
              have : [i].filter (fun j => (c j).dist = e) = [] := by
                apply List.filter_eq_nil_iff.2
                intro j hj
                simp at hj; subst hj; simp; omega
              rw [this]; simp
            · rw [g2]; exact h4


/-! ## the brute-force answer and the theorem on the whole search -/

/-- brute force: the least distance over ALL the references (`none`: empty data base) -/
def bruteMin (c : Nat → Cand) : List Nat → Option Nat
  | [] => none
  | i :: o => match bruteMin c o with
    | none => some (c i).dist
    | some m => some (min (c i).dist m)

/-- brute force: the least distance and ALL the references at that distance (in scan order) -/
def bruteClosests (c : Nat → Cand) (o : List Nat) : Option (Nat × List Nat) :=
  (bruteMin c o).map fun m => (m, o.filter (fun i => (c i).dist = m))

theorem bruteMin_spec (c : Nat → Cand) : ∀ (o : List Nat) (m : Nat),
    bruteMin c o = some m ↔ ((∀ i ∈ o, m ≤ (c i).dist) ∧ ∃ i ∈ o, (c i).dist = m) := by
  intro o
  induction o with
  | nil => intro m; simp [bruteMin]
  | cons i o ih =>
    intro m
    unfold bruteMin
    cases h : bruteMin c o with
    | none =>
      have hnil : o = [] := by
        cases o with
        | nil => rfl
        | cons j o' =>
          unfold bruteMin at h
          cases h' : bruteMin c o' <;> rw [h'] at h <;> simp at h
      subst hnil
      simp only [Option.some.injEq]
      constructor
      · intro e; subst e; simp
      · rintro ⟨_, j, hj, e⟩; simp at hj; subst hj; exact e
    | some m' =>
      obtain ⟨a1, j, hj, ej⟩ := (ih m').1 h
      simp only [Option.some.injEq]
      constructor
      · intro e
        subst e
        refine ⟨?_, ?_⟩
        · intro k hk
          rcases List.mem_cons.1 hk with e | hk
          · subst e; exact Nat.min_le_left _ _
          · exact Nat.le_trans (Nat.min_le_right _ _) (a1 k hk)
        · by_cases hle : (c i).dist ≤ m'
          · exact ⟨i, List.mem_cons_self, by omega⟩
          · exact ⟨j, List.mem_cons_of_mem _ hj, by omega⟩
      · rintro ⟨b1, k, hk, ek⟩
        have hi := b1 i List.mem_cons_self
        have hj' := b1 j (List.mem_cons_of_mem _ hj)
        rcases List.mem_cons.1 hk with e | hk
        · subst e; have := a1; omega
        · have := a1 k hk; omega

/-- the scan of the whole candidate list ends in a state that holds the brute-force answer -/
theorem findClosests_spec (v : Variant) (lq : Nat) (c : Nat → Cand) (o : List Nat)
    (hs : SortedByCw c o) (hq : QGramBound lq c o) (hne : o ≠ []) :
    ∃ m bestId bestmatch, findClosests v lq c o = .ok m bestId bestmatch (o.filter (fun i => (c i).dist = m)) ∧
      (∀ i ∈ o, m ≤ (c i).dist) ∧ ∃ i ∈ o, (c i).dist = m := by
  cases o with
  | nil => exact absurd rfl hne
  | cons o0 rest =>
    have h := fcLoop_spec v lq c (o0 :: rest) []
      { maxe := none, wordmin := 0, bestidxs := [], bestId := (0, 1), bestmatch := o0 }
      (by simp [FCInv]) hs hq
    simp only [List.nil_append] at h
    unfold findClosests findClosestsWith
    simp only
    generalize fcLoop wmNew v lq c (o0 :: rest)
      { maxe := none, wordmin := 0, bestidxs := [], bestId := (0, 1), bestmatch := o0 } = st at h
    unfold FCInv at h
    cases hm : st.maxe with
    | none => rw [hm] at h; simp at h
    | some m =>
      rw [hm] at h
      simp only at h
      obtain ⟨h1, h2, h3, _⟩ := h
      obtain ⟨j, hj, ej⟩ := h2
      have hne' : st.bestidxs ≠ [] := by
        rw [h3]
        intro hnil
        have := List.filter_eq_nil_iff.1 hnil j hj
        simp [ej] at this
      cases hb : st.bestidxs with
      | nil => exact absurd hb hne'
      | cons b bs =>
        simp only
        refine ⟨m, st.bestId, st.bestmatch, ?_, h1, ⟨j, hj, ej⟩⟩
        rw [← hb, h3]

end ObiVerif.Tag
