import ObiVerif.Lemmas.PEAlign
import ObiVerif.Spec.AlignSteps
/-!
# C08: error-free reads with a single positively scoring diagonal satisfy the strictness condition

Read A has `d + ov` bases, read B has `ov + e` bases, the true alignment puts `A[d+k]` on `B[k]`.  When the
columns of that diagonal are the only positively scoring ones (and the bases of A before B starts / of B
after A ended are free), the filled matrix has, in every cell the true walk enters, a *strict* winner:
`strictAlong … (stepsOf [-d, ov, e, 0]) = true`.  All auxiliary names are prefixed `sd_`.
-/
namespace ObiVerif.PEAlign
open ObiVerif.Align

/-! ## generic facts: `runD`, `walk`, `strictAlong`, `strictAt` -/

theorem sd_runD_snoc (s : Nat → Nat → Int) :
    ∀ (n i j : Nat), runD s (n + 1) i j = runD s n i j + s (i + n) (j + n)
  | 0, i, j => by simp [runD]
  | n + 1, i, j => by
    have ih := sd_runD_snoc s n (i + 1) (j + 1)
    have e1 : i + 1 + n = i + (n + 1) := by omega
    have e2 : j + 1 + n = j + (n + 1) := by omega
    rw [e1, e2] at ih
    rw [runD, ih, runD]
    omega

theorem sd_walk_append : ∀ (xs ys : List Step) (i j : Nat),
    walk i j (xs ++ ys) = walk (walk i j xs).1 (walk i j xs).2 ys
  | [], _, _, _ => rfl
  | t :: ts, ys, i, j => by
    simp only [List.cons_append, walk]
    exact sd_walk_append ts ys _ _

theorem sd_strictAlong_append (M s : Nat → Nat → Int) (cA cB : Nat → Int) :
    ∀ (xs ys : List Step) (i j : Nat),
      strictAlong M s cA cB i j (xs ++ ys) =
        (strictAlong M s cA cB i j xs && strictAlong M s cA cB (walk i j xs).1 (walk i j xs).2 ys)
  | [], _, _, _ => by simp [strictAlong, walk]
  | t :: ts, ys, i, j => by
    simp only [List.cons_append, strictAlong, walk]
    rw [sd_strictAlong_append M s cA cB ts ys, Bool.and_assoc]

theorem sd_walk_repA : ∀ (n i j : Nat), walk i j (List.replicate n Step.A) = (i + n, j)
  | 0, _, _ => rfl
  | n + 1, i, j => by
    simp only [List.replicate_succ, walk, Step.di, Step.dj, Nat.add_zero]
    rw [sd_walk_repA n]
    congr 1; omega

theorem sd_walk_repB : ∀ (n i j : Nat), walk i j (List.replicate n Step.B) = (i, j + n)
  | 0, _, _ => rfl
  | n + 1, i, j => by
    simp only [List.replicate_succ, walk, Step.di, Step.dj, Nat.add_zero]
    rw [sd_walk_repB n]
    congr 1; omega

theorem sd_walk_repD : ∀ (n i j : Nat), walk i j (List.replicate n Step.D) = (i + n, j + n)
  | 0, _, _ => rfl
  | n + 1, i, j => by
    simp only [List.replicate_succ, walk, Step.di, Step.dj]
    rw [sd_walk_repD n]
    congr 1 <;> omega

theorem sd_runA (M s : Nat → Nat → Int) (cA cB : Nat → Int) :
    ∀ (n i j : Nat), (∀ m, m < n → strictAt M s cA cB (i + m + 1) j Step.A = true) →
      strictAlong M s cA cB i j (List.replicate n Step.A) = true
  | 0, _, _, _ => rfl
  | n + 1, i, j, h => by
    simp only [List.replicate_succ, strictAlong, Step.di, Step.dj, Nat.add_zero, Bool.and_eq_true]
    refine ⟨h 0 (by omega), sd_runA M s cA cB n (i + 1) j ?_⟩
    intro m hm
    have := h (m + 1) (by omega)
    have e : i + (m + 1) + 1 = i + 1 + m + 1 := by omega
    rw [e] at this; exact this

theorem sd_runB (M s : Nat → Nat → Int) (cA cB : Nat → Int) :
    ∀ (n i j : Nat), (∀ m, m < n → strictAt M s cA cB i (j + m + 1) Step.B = true) →
      strictAlong M s cA cB i j (List.replicate n Step.B) = true
  | 0, _, _, _ => rfl
  | n + 1, i, j, h => by
    simp only [List.replicate_succ, strictAlong, Step.di, Step.dj, Nat.add_zero, Bool.and_eq_true]
    refine ⟨h 0 (by omega), sd_runB M s cA cB n i (j + 1) ?_⟩
    intro m hm
    have := h (m + 1) (by omega)
    have e : j + (m + 1) + 1 = j + 1 + m + 1 := by omega
    rw [e] at this; exact this

theorem sd_runDiag (M s : Nat → Nat → Int) (cA cB : Nat → Int) :
    ∀ (n i j : Nat), (∀ m, m < n → strictAt M s cA cB (i + m + 1) (j + m + 1) Step.D = true) →
      strictAlong M s cA cB i j (List.replicate n Step.D) = true
  | 0, _, _, _ => rfl
  | n + 1, i, j, h => by
    simp only [List.replicate_succ, strictAlong, Step.di, Step.dj, Bool.and_eq_true]
    refine ⟨h 0 (by omega), sd_runDiag M s cA cB n (i + 1) (j + 1) ?_⟩
    intro m hm
    have := h (m + 1) (by omega)
    have e1 : i + (m + 1) + 1 = i + 1 + m + 1 := by omega
    have e2 : j + (m + 1) + 1 = j + 1 + m + 1 := by omega
    rw [e1, e2] at this; exact this

/-- in column 0 the step `A` has no competitor -/
theorem sd_strictAt_A0 (M s : Nat → Nat → Int) (cA cB : Nat → Int) (i : Nat) :
    strictAt M s cA cB (i + 1) 0 Step.A = true := by
  simp [strictAt, cand]

theorem sd_strictAt_D (M s : Nat → Nat → Int) (cA cB : Nat → Int) (i j : Nat)
    (hB : M (i + 1) j + cB (i + 1) < M i j + s i j)
    (hA : M i (j + 1) + cA (j + 1) < M i j + s i j) :
    strictAt M s cA cB (i + 1) (j + 1) Step.D = true := by
  simp [strictAt, cand, hA, hB]

theorem sd_strictAt_B (M s : Nat → Nat → Int) (cA cB : Nat → Int) (i j : Nat)
    (hD : M i j + s i j < M (i + 1) j + cB (i + 1))
    (hA : M i (j + 1) + cA (j + 1) < M (i + 1) j + cB (i + 1)) :
    strictAt M s cA cB (i + 1) (j + 1) Step.B = true := by
  simp [strictAt, cand, hA, hD]

theorem sd_stepsOf (d ov e : Nat) :
    stepsOf [-(d : Int), (ov : Int), (e : Int), 0] =
      List.replicate d Step.A ++ (List.replicate ov Step.D ++ List.replicate e Step.B) := by
  have h2 : (-(d : Int)).toNat = 0 := by omega
  have h3 : (-(e : Int)).toNat = 0 := by omega
  simp [stepsOf, h2, h3]

/-! ## the diagonal bound -/

/-- score of the first `k` columns of the true diagonal -/
def sd_R (s : Nat → Nat → Int) (d k : Nat) : Int := runD s k d 0

/-- the part of the true diagonal a walk ending in (i, j) can have collected -/
def sd_T (s : Nat → Nat → Int) (d i j : Nat) : Int := runD s (min j (i - d)) d 0

section SD
variable {s : Nat → Nat → Int} {cA cB : Nat → Int} {M P : Nat → Nat → Int} {d ov e : Nat}

theorem sd_T_eq (i j k : Nat) (h : min j (i - d) = k) : sd_T s d i j = sd_R s d k := by
  subst h; rfl

theorem sd_R_zero : sd_R s d 0 = 0 := rfl

theorem sd_R_succ (k : Nat) : sd_R s d (k + 1) = sd_R s d k + s (d + k) k := by
  unfold sd_R
  rw [sd_runD_snoc, Nat.zero_add]

theorem sd_R_lt (hpos : ∀ k, k < ov → 0 < s (d + k) k) (k : Nat) (hk : k < ov) :
    sd_R s d k < sd_R s d (k + 1) := by
  have := hpos k hk
  rw [sd_R_succ]; omega

theorem sd_R_mono (hpos : ∀ k, k < ov → 0 < s (d + k) k) :
    ∀ m n, n ≤ m → m ≤ ov → sd_R s d n ≤ sd_R s d m
  | 0, n, h, _ => by
    have : n = 0 := by omega
    subst this; exact Int.le_refl _
  | m + 1, n, h, hm => by
    by_cases hn : n = m + 1
    · subst hn; exact Int.le_refl _
    · have ih := sd_R_mono hpos m n (by omega) (by omega)
      have := sd_R_lt hpos m (by omega)
      omega

theorem sd_T_mono (hpos : ∀ k, k < ov → 0 < s (d + k) k) (i j i' j' : Nat)
    (h1 : min j (i - d) ≤ min j' (i' - d)) (h2 : min j' (i' - d) ≤ ov) :
    sd_T s d i j ≤ sd_T s d i' j' :=
  sd_R_mono hpos _ _ h1 h2

theorem sd_col0 {la lb : Nat} (hf : IsFill s cA cB la lb M P) (hcA0 : cA 0 = 0) : ∀ i, i ≤ la → M i 0 = 0
  | 0, _ => hf.m00
  | i + 1, h => by
    have h1 := (hf.col0 i (by omega)).1
    have h2 := sd_col0 hf hcA0 i (by omega)
    omega

/-- one inner cell of the invariant -/
theorem sd_inv_step (hf : IsFill s cA cB (d + ov) (ov + e) M P)
    (hcA : ∀ j, cA j ≤ 0) (hcB : ∀ i, cB i ≤ 0)
    (hpos : ∀ k, k < ov → 0 < s (d + k) k)
    (hneg : ∀ i j, i < d + ov → j < ov + e → i ≠ d + j → s i j < 0)
    (i j : Nat) (hi : i < d + ov) (hj : j < ov + e)
    (hD : M i j ≤ sd_T s d i j) (hB : M (i + 1) j ≤ sd_T s d (i + 1) j)
    (hA : M i (j + 1) ≤ sd_T s d i (j + 1)) :
    M (i + 1) (j + 1) ≤ sd_T s d (i + 1) (j + 1) := by
  have hDle : M i j + s i j ≤ sd_T s d (i + 1) (j + 1) := by
    by_cases hij : i = d + j
    · subst hij
      have e1 : sd_T s d (d + j) j = sd_R s d j := sd_T_eq _ _ _ (by omega)
      have e2 : sd_T s d (d + j + 1) (j + 1) = sd_R s d (j + 1) := sd_T_eq _ _ _ (by omega)
      rw [e2, sd_R_succ]; rw [e1] at hD; omega
    · have h1 := hneg i j hi hj hij
      have h2 := sd_T_mono hpos i j (i + 1) (j + 1) (by omega) (by omega)
      omega
  have hBle : M (i + 1) j + cB (i + 1) ≤ sd_T s d (i + 1) (j + 1) := by
    have h1 := hcB (i + 1)
    have h2 := sd_T_mono hpos (i + 1) j (i + 1) (j + 1) (by omega) (by omega)
    omega
  have hAle : M i (j + 1) + cA (j + 1) ≤ sd_T s d (i + 1) (j + 1) := by
    have h1 := hcA (j + 1)
    have h2 := sd_T_mono hpos i (j + 1) (i + 1) (j + 1) (by omega) (by omega)
    omega
  have h := congrArg Prod.fst (hf.inner i j hi hj)
  rcases best_cases (M i j + s i j) (M (i + 1) j + cB (i + 1)) (M i (j + 1) + cA (j + 1)) with hb | hb | hb <;>
    (rw [hb.1] at h; simp only at h; omega)

/-- **invariant**: no cell exceeds the part of the true diagonal it can have collected -/
theorem sd_inv (hf : IsFill s cA cB (d + ov) (ov + e) M P)
    (hcA : ∀ j, cA j ≤ 0) (hcB : ∀ i, cB i ≤ 0) (hcA0 : cA 0 = 0)
    (hpos : ∀ k, k < ov → 0 < s (d + k) k)
    (hneg : ∀ i j, i < d + ov → j < ov + e → i ≠ d + j → s i j < 0) :
    ∀ (j i : Nat), i ≤ d + ov → j ≤ ov + e → M i j ≤ sd_T s d i j
  | 0, i, hi, _ => by
    rw [sd_col0 hf hcA0 i hi, sd_T_eq i 0 0 (by omega), sd_R_zero]
    exact Int.le_refl _
  | j + 1, 0, _, hj => by
    have h1 := (hf.row0 j (by omega)).1
    have h2 := sd_inv hf hcA hcB hcA0 hpos hneg j 0 (by omega) (by omega)
    have h3 := hcB 0
    rw [sd_T_eq 0 j 0 (by omega), sd_R_zero] at h2
    rw [sd_T_eq 0 (j + 1) 0 (by omega), sd_R_zero]
    omega
  | j + 1, i + 1, hi, hj =>
    sd_inv_step hf hcA hcB hpos hneg i j (by omega) (by omega)
      (sd_inv hf hcA hcB hcA0 hpos hneg j i (by omega) (by omega))
      (sd_inv hf hcA hcB hcA0 hpos hneg j (i + 1) hi (by omega))
      (sd_inv hf hcA hcB hcA0 hpos hneg (j + 1) i (by omega) hj)

/-! ## exact values along the true walk -/

theorem sd_diag_val (hf : IsFill s cA cB (d + ov) (ov + e) M P)
    (hcA : ∀ j, cA j ≤ 0) (hcB : ∀ i, cB i ≤ 0) (hcA0 : cA 0 = 0)
    (hpos : ∀ k, k < ov → 0 < s (d + k) k)
    (hneg : ∀ i j, i < d + ov → j < ov + e → i ≠ d + j → s i j < 0)
    (k : Nat) (hk : k ≤ ov) : M (d + k) k = sd_R s d k := by
  have h1 := sd_inv hf hcA hcB hcA0 hpos hneg k (d + k) (by omega) (by omega)
  rw [sd_T_eq (d + k) k k (by omega)] at h1
  have h2 := runD_le hf k d 0 (by omega) (by omega)
  rw [sd_col0 hf hcA0 d (by omega), Nat.zero_add] at h2
  unfold sd_R at *
  omega

theorem sd_tail_val (hf : IsFill s cA cB (d + ov) (ov + e) M P)
    (hcA : ∀ j, cA j ≤ 0) (hcB : ∀ i, cB i ≤ 0) (hcA0 : cA 0 = 0) (hcBl : cB (d + ov) = 0)
    (hpos : ∀ k, k < ov → 0 < s (d + k) k)
    (hneg : ∀ i j, i < d + ov → j < ov + e → i ≠ d + j → s i j < 0)
    (m : Nat) (hm : m ≤ e) : M (d + ov) (ov + m) = sd_R s d ov := by
  have h1 := sd_inv hf hcA hcB hcA0 hpos hneg (ov + m) (d + ov) (by omega) (by omega)
  rw [sd_T_eq (d + ov) (ov + m) ov (by omega)] at h1
  have h2 := runB_le hf m (d + ov) ov (by omega) (by omega)
  rw [hcBl, sd_diag_val hf hcA hcB hcA0 hpos hneg ov (Nat.le_refl _), Int.mul_zero] at h2
  omega

/-! ## strictness in the three kinds of cells -/

theorem sd_cell_D (hf : IsFill s cA cB (d + ov) (ov + e) M P)
    (hcA : ∀ j, cA j ≤ 0) (hcB : ∀ i, cB i ≤ 0) (hcA0 : cA 0 = 0)
    (hpos : ∀ k, k < ov → 0 < s (d + k) k)
    (hneg : ∀ i j, i < d + ov → j < ov + e → i ≠ d + j → s i j < 0)
    (k : Nat) (hk : k < ov) : strictAt M s cA cB (d + k + 1) (k + 1) Step.D = true := by
  have hv := sd_diag_val hf hcA hcB hcA0 hpos hneg k (by omega)
  have hp := hpos k hk
  have hB := sd_inv hf hcA hcB hcA0 hpos hneg k (d + k + 1) (by omega) (by omega)
  rw [sd_T_eq (d + k + 1) k k (by omega)] at hB
  have hA := sd_inv hf hcA hcB hcA0 hpos hneg (k + 1) (d + k) (by omega) (by omega)
  rw [sd_T_eq (d + k) (k + 1) k (by omega)] at hA
  have c1 := hcB (d + k + 1)
  have c2 := hcA (k + 1)
  exact sd_strictAt_D M s cA cB (d + k) k (by omega) (by omega)

theorem sd_cell_B (hf : IsFill s cA cB (d + (ov + 1)) (ov + 1 + e) M P)
    (hcA : ∀ j, cA j ≤ 0) (hcB : ∀ i, cB i ≤ 0) (hcA0 : cA 0 = 0) (hcBl : cB (d + (ov + 1)) = 0)
    (hpos : ∀ k, k < ov + 1 → 0 < s (d + k) k)
    (hneg : ∀ i j, i < d + (ov + 1) → j < ov + 1 + e → i ≠ d + j → s i j < 0)
    (m : Nat) (hm : m < e) : strictAt M s cA cB (d + ov + 1) (ov + 1 + m + 1) Step.B = true := by
  have hv := sd_tail_val hf hcA hcB hcA0 hcBl hpos hneg m (by omega)
  have hlt := sd_R_lt hpos ov (by omega)
  have hD := sd_inv hf hcA hcB hcA0 hpos hneg (ov + 1 + m) (d + ov) (by omega) (by omega)
  rw [sd_T_eq (d + ov) (ov + 1 + m) ov (by omega)] at hD
  have hA := sd_inv hf hcA hcB hcA0 hpos hneg (ov + 1 + m + 1) (d + ov) (by omega) (by omega)
  rw [sd_T_eq (d + ov) (ov + 1 + m + 1) ov (by omega)] at hA
  have hs := hneg (d + ov) (ov + 1 + m) (by omega) (by omega) (by omega)
  have c2 := hcA (ov + 1 + m + 1)
  have e1 : d + (ov + 1) = d + ov + 1 := rfl
  rw [e1] at hv hcBl
  exact sd_strictAt_B M s cA cB (d + ov) (ov + 1 + m) (by omega) (by omega)

end SD

/-! ## the theorem -/

theorem strictAlong_single_diagonal {s : Nat → Nat → Int} {cA cB : Nat → Int} {M P : Nat → Nat → Int}
    (d ov e : Nat) (hov : 0 < ov)
    (hf : IsFill s cA cB (d + ov) (ov + e) M P)
    (hcA : ∀ j, cA j ≤ 0) (hcB : ∀ i, cB i ≤ 0)
    (hcA0 : cA 0 = 0)
    (hcBl : cB (d + ov) = 0)
    (hpos : ∀ k, k < ov → 0 < s (d + k) k)
    (hneg : ∀ i j, i < d + ov → j < ov + e → i ≠ d + j → s i j < 0) :
    strictAlong M s cA cB 0 0 (stepsOf [-(d : Int), (ov : Int), (e : Int), 0]) = true := by
  rw [sd_stepsOf, sd_strictAlong_append, sd_strictAlong_append, sd_walk_repA, sd_walk_repD]
  simp only [Nat.zero_add, Bool.and_eq_true]
  refine ⟨?_, ?_, ?_⟩
  · apply sd_runA
    intro m _
    rw [Nat.zero_add]
    exact sd_strictAt_A0 M s cA cB m
  · apply sd_runDiag
    intro m hm
    rw [Nat.zero_add]
    exact sd_cell_D hf hcA hcB hcA0 hpos hneg m hm
  · apply sd_runB
    intro m hm
    obtain ⟨ov', rfl⟩ : ∃ ov', ov = ov' + 1 := ⟨ov - 1, by omega⟩
    exact sd_cell_B hf hcA hcB hcA0 hcBl hpos hneg m hm

/-- non-vacuity: a 3 × 3 instance (one base of A alone, two diagonal columns, one base of B alone) with
the left end-gap-free scheme and the executed fill -/
example :
    strictAlong (Mf (fun i j => if i = j + 1 then 2 else -1) (cALeft (-3)) (cBLeft (-3) 3) 3)
      (fun i j => if i = j + 1 then 2 else -1) (cALeft (-3)) (cBLeft (-3) 3) 0 0
      (stepsOf [-((1 : Nat) : Int), ((2 : Nat) : Int), ((1 : Nat) : Int), 0]) = true := by
  apply strictAlong_single_diagonal 1 2 1 (by omega)
    (isFill_cells (fun i j => if i = j + 1 then 2 else -1) (cALeft (-3)) (cBLeft (-3) 3) (1 + 2) (2 + 1))
  · intro j; unfold cALeft; split <;> omega
  · intro i; unfold cBLeft; split <;> omega
  · rfl
  · rfl
  · intro k _
    have : 1 + k = k + 1 := by omega
    simp [this]
  · intro i j _ _ h
    have : ¬ i = j + 1 := by omega
    simp [this]

end ObiVerif.PEAlign
