import ObiVerif.Model.ReadMulti
import ObiVerif.Lemmas.ReadErr
/-! lemmas on the multi-member decoding loop (C17) -/
namespace ObiVerif.ReadErr

theorem bufErr_eof_iff (e : LibErr) : bufErr e = .eof ↔ e = .eof := by
  cases e <;> simp [bufErr]

/-- the decoding ends with an error iff some member fails with that error after complete members only -/
theorem decodeMembers_err (ms : List Member) (e : LibErr) (he : e ≠ .eof) :
    (decodeMembers ms).2 = e ↔
      ∃ pre m post, ms = pre ++ m :: post ∧ (∀ x ∈ pre, x.err = none) ∧ m.err = some e := by
  induction ms with
  | nil =>
    simp only [decodeMembers]
    constructor
    · intro h; exact absurd h.symm he
    · rintro ⟨pre, m, post, h, _⟩
      cases pre <;> simp at h
  | cons a rest ih =>
    cases ha : a.err with
    | some e' =>
      simp only [decodeMembers, ha]
      constructor
      · intro h; subst h
        exact ⟨[], a, rest, rfl, by simp, ha⟩
      · rintro ⟨pre, m, post, h, hpre, hm⟩
        cases pre with
        | nil =>
          simp only [List.nil_append, List.cons.injEq] at h
          rw [← h.1, ha] at hm
          exact Option.some.inj hm
        | cons p pre' =>
          simp only [List.cons_append, List.cons.injEq] at h
          have := hpre p (by simp)
          rw [← h.1, ha] at this
          cases this
    | none =>
      simp only [decodeMembers, ha]
      rw [ih]
      constructor
      · rintro ⟨pre, m, post, h, hpre, hm⟩
        refine ⟨a :: pre, m, post, by simp [h], ?_, hm⟩
        intro x hx
        simp only [List.mem_cons] at hx
        rcases hx with rfl | hx
        · exact ha
        · exact hpre x hx
      · rintro ⟨pre, m, post, h, hpre, hm⟩
        cases pre with
        | nil =>
          simp only [List.nil_append, List.cons.injEq] at h
          rw [← h.1, ha] at hm
          cases hm
        | cons p pre' =>
          simp only [List.cons_append, List.cons.injEq] at h
          exact ⟨pre', m, post, h.2, fun x hx => hpre x (by simp [hx]), hm⟩

/-- when every member is complete the decoder delivers the concatenation of all the members and ends cleanly -/
theorem decodeMembers_complete (ms : List Member) (h : ∀ m ∈ ms, m.err = none) :
    decodeMembers ms = ((ms.map Member.data).flatten, .eof) := by
  induction ms with
  | nil => rfl
  | cons a rest ih =>
    have ha : a.err = none := h a (by simp)
    simp only [decodeMembers, ha, List.map_cons, List.flatten_cons]
    rw [ih (fun m hm => h m (by simp [hm]))]

/-- a clean end of the decoding: every member is complete, or the library itself stopped silently (`some .eof`) -/
theorem decodeMembers_eof (ms : List Member) (h : (decodeMembers ms).2 = .eof) :
    (∀ m ∈ ms, m.err = none) ∨ ∃ m ∈ ms, m.err = some .eof := by
  induction ms with
  | nil => left; intro m hm; cases hm
  | cons a rest ih =>
    cases ha : a.err with
    | some e' =>
      simp only [decodeMembers, ha] at h
      subst h
      exact Or.inr ⟨a, by simp, ha⟩
    | none =>
      simp only [decodeMembers, ha] at h
      rcases ih h with h1 | ⟨m, hm, hme⟩
      · left
        intro m hm
        simp only [List.mem_cons] at hm
        rcases hm with rfl | hm
        · exact ha
        · exact h1 m hm
      · exact Or.inr ⟨m, by simp [hm], hme⟩

end ObiVerif.ReadErr

namespace ObiVerif.ReadErr

/-- whatever the sizes of the members, the member list reconstructed from the verdict of the library on the
whole file decodes to that verdict -/
theorem decodeMembers_membersOf (fill : UInt8) (sizes : List Nat) (n : Nat) (e : LibErr) :
    decodeMembers (membersOf fill sizes n e) = (List.replicate n fill, e) := by
  induction sizes generalizing n with
  | nil =>
    simp only [membersOf]
    split
    · rename_i h
      rw [h.1, h.2]; rfl
    · rfl
  | cons s rest ih =>
    simp only [membersOf]
    split
    · rename_i h
      simp only [decodeMembers, ih]
      have : List.replicate s fill ++ List.replicate (n - s) fill = List.replicate n fill := by
        rw [List.replicate_append_replicate]
        congr 1
        omega
      rw [this]
    · rfl

end ObiVerif.ReadErr
