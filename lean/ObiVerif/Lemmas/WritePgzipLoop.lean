import ObiVerif.Lemmas.WritePgzip
/-!
# `compressCurrent`, the loop of `Write` and `Write` itself keep the stream on track (C18, transcribed pgzip)

`Tracks c limit z X`: the writer has been fed `X`; its cut of the input (`done`, `cur`) is the one of `feed`, and the
virtual stream is the header followed by the complete blocks of `X`.
-/
namespace ObiVerif.WriteErr

theorem core_dead_mono {limit : Nat} {V V' : Bytes} {z : PZ} (h : Core limit V z) (he : z.err = true)
    (hp : V <+: V') : Core limit V' z := by
  refine ⟨h.lim, ?_, ?_⟩
  · intro hf; rw [he] at hf; cases hf
  · intro _
    obtain ⟨h1, t, h2, h3, h4⟩ := h.dead he
    exact ⟨h1, t, List.IsPrefix.trans h2 hp, h3, h4⟩

theorem lstep_not_listening {z : PZ} (h : z.listening = false) : z.lstep = z := by
  unfold PZ.lstep; simp [h]

theorem lrun_not_listening (n : Nat) {z : PZ} (h : z.listening = false) : PZ.lrun n z = z := by
  induction n with
  | zero => rfl
  | succ k ih => rw [PZ.lrun, lstep_not_listening h, ih]

theorem lstep_pend_nil {z : PZ} (h : z.pend = []) : z.lstep = z := by
  unfold PZ.lstep; split
  · rfl
  · simp [h]

theorem lrun_pend_nil (n : Nat) {z : PZ} (h : z.pend = []) : PZ.lrun n z = z := by
  induction n with
  | zero => rfl
  | succ k ih => rw [PZ.lrun, lstep_pend_nil h, ih]

theorem sync_err {s : Sched} {z : PZ} (h : z.err = true) : (z.sync s).err = true := lrun_err _ h

theorem sync_err_false {s : Sched} {z : PZ} (h : (z.sync s).err = false) : z.err = false := by
  cases hz : z.err with
  | false => rfl
  | true => rw [sync_err hz] at h; cases h

/-! ## `compressCurrent` -/

theorem cc_frame (c : PCodec) (s : Sched) (flush : Bool) (z : PZ) : Frame z (z.compressCurrent c s flush) := by
  unfold PZ.compressCurrent
  have h1 := sync_frame s z
  dsimp only
  split
  · exact h1
  · split
    · refine Frame.trans h1 (Frame.trans ?_ (lrun_frame _ _))
      exact ⟨rfl, rfl, rfl, rfl, rfl⟩
    · exact Frame.trans h1 ⟨rfl, rfl, rfl, rfl, rfl⟩

theorem cc_spec (c : PCodec) (s : Sched) (flush : Bool) {limit : Nat} {V : Bytes} {z : PZ} (h : Core limit V z) :
    ((z.compressCurrent c s flush).err = true ∧ Core limit V (z.compressCurrent c s flush)) ∨
    (Core limit (V ++ c.blk z.done z.cur z.closed) (z.compressCurrent c s flush) ∧
      (z.compressCurrent c s flush).done = z.done ++ z.cur ∧ (z.compressCurrent c s flush).cur = [] ∧
      (flush = true → z.listening = true → (z.compressCurrent c s flush).pend = [])) := by
  unfold PZ.compressCurrent
  have h1 := sync_core s h
  have hd := sync_dc s z
  have hf := sync_frame s z
  dsimp only
  split
  · rename_i hc
    simp only [Bool.and_eq_true] at hc
    exact Or.inl ⟨hc.1, h1⟩
  · right
    have he := enqueue_core h1 (c.blk (z.sync s).done (z.sync s).cur (z.sync s).closed)
      ((z.sync s).done ++ (z.sync s).cur) []
    rw [hd.dn, hd.cu, hf.cl] at he
    cases flush with
    | false =>
      simp only [Bool.false_eq_true, if_false]
      refine ⟨?_, ?_, by first | rfl | trivial, ?_⟩
      · rw [hd.dn, hd.cu, hf.cl]; exact he
      · show (z.sync s).done ++ (z.sync s).cur = _
        rw [hd.dn, hd.cu]
      · intro hh; cases hh
    | true =>
      simp only [if_true]
      rw [hd.dn, hd.cu, hf.cl]
      refine ⟨lrun_core _ he, ?_, ?_, ?_⟩
      · exact (lrun_dc _ _).dn
      · exact (lrun_dc _ _).cu
      · intro _ hl
        apply lrun_all_pend
        · show (z.sync s).listening = true
          rw [hf.li]; exact hl
        · exact Nat.le_refl _

/-! ## the loop of `Write` -/

structure Tracks (c : PCodec) (limit : Nat) (z : PZ) (X : Bytes) : Prop where
  core : Core limit (c.pre X) z
  fd : (c.feed X).done = z.done
  fc : (c.feed X).cur = z.cur
  lt : z.cur.length < c.bs

theorem loop_frame (c : PCodec) (s : Sched) (fuel : Nat) (z : PZ) (q : Bytes) (plen : Nat) :
    Frame z (PZ.loop c s fuel z q plen).1 := by
  induction fuel generalizing z q with
  | zero => exact Frame.refl z
  | succ f ih =>
    rw [PZ.loop]
    split
    · exact sync_frame s z
    · dsimp only
      split
      · split
        · refine Frame.trans ?_ (sync_frame s _)
          refine Frame.trans ?_ (cc_frame c s false _)
          exact ⟨rfl, rfl, rfl, rfl, rfl⟩
        · refine Frame.trans ?_ (ih _ _)
          refine Frame.trans ?_ (sync_frame s _)
          refine Frame.trans ?_ (cc_frame c s false _)
          exact ⟨rfl, rfl, rfl, rfl, rfl⟩
      · refine Frame.trans ?_ (ih _ _)
        exact ⟨rfl, rfl, rfl, rfl, rfl⟩

theorem pre_mono (c : PCodec) (X q : Bytes) : c.pre X <+: c.pre (X ++ q) := pmono c X q

theorem loop_spec (c : PCodec) (hbs : 0 < c.bs) (s : Sched) {limit : Nat} (fuel : Nat) (z : PZ) (q : Bytes)
    (plen : Nat) (X : Bytes) (hq : q.length < fuel) (hT : Tracks c limit z X) (hnc0 : q.length ≠ 0 → z.closed = false) :
    ((PZ.loop c s fuel z q plen).2.2 = false → (PZ.loop c s fuel z q plen).2.1 = plen ∧
      (PZ.loop c s fuel z q plen).1.err = false ∧ Tracks c limit (PZ.loop c s fuel z q plen).1 (X ++ q)) ∧
    ((PZ.loop c s fuel z q plen).2.2 = true → (PZ.loop c s fuel z q plen).1.err = true ∧
      Core limit (c.pre (X ++ q)) (PZ.loop c s fuel z q plen).1) := by
  induction fuel generalizing z q X with
  | zero => omega
  | succ f ih =>
    rw [PZ.loop]
    by_cases hq0 : q.length = 0
    · rw [if_pos hq0]
      have hqn : q = [] := List.eq_nil_of_length_eq_zero hq0
      subst hqn
      simp only [List.append_nil]
      have hc := sync_core s hT.core
      have hd := sync_dc s z
      constructor
      · intro he
        exact ⟨by first | rfl | trivial, he, ⟨hc, hT.fd.trans hd.dn.symm, hT.fc.trans hd.cu.symm, by rw [hd.cu]; exact hT.lt⟩⟩
      · intro he
        exact ⟨he, hc⟩
    · rw [if_neg hq0]
      dsimp only
      have hnc : z.closed = false := hnc0 hq0
      have hlt := hT.lt
      have hlen : (q.take (min q.length (c.bs - z.cur.length))).length = min q.length (c.bs - z.cur.length) := by
        rw [List.length_take]; omega
      have hpos : 1 ≤ min q.length (c.bs - z.cur.length) := by omega
      have hXq : X ++ q.take (min q.length (c.bs - z.cur.length)) ++ q.drop (min q.length (c.bs - z.cur.length)) = X ++ q := by
        rw [List.append_assoc, List.take_append_drop]
      generalize hL : min q.length (c.bs - z.cur.length) = len at *
      by_cases hfull : (z.cur ++ q.take len).length = c.bs
      · rw [if_pos hfull]
        have hne : q.take len ≠ [] := by
          intro h0; rw [h0] at hlen; simp at hlen; omega
        have hsum : (c.feed X).cur.length + (q.take len).length = c.bs := by
          rw [hT.fc, ← List.length_append]; exact hfull
        have hfeed : c.feed (X ++ q.take len) = ⟨z.done ++ (z.cur ++ q.take len), [],
            (c.feed X).out ++ c.blk z.done (z.cur ++ q.take len) false⟩ := by
          rw [feed_append, foldl_feed1_fill c _ _ hne hsum, hT.fd, hT.fc]
        have hpre : c.pre (X ++ q.take len) = c.pre X ++ c.blk z.done (z.cur ++ q.take len) false := by
          unfold PCodec.pre; rw [hfeed]; simp
        have hc1 : Core limit (c.pre X) { z with cur := z.cur ++ q.take len } :=
          ⟨hT.core.lim, hT.core.live, hT.core.dead⟩
        have hcc := cc_spec c s false hc1
        have hfr := cc_frame c s false { z with cur := z.cur ++ q.take len }
        generalize ({ z with cur := z.cur ++ q.take len } : PZ).compressCurrent c s false = z2 at hcc hfr ⊢
        have hcl2 : z2.closed = false := hfr.cl.trans hnc
        by_cases he3 : (z2.sync s).err = true
        · rw [if_pos he3]
          refine ⟨fun h => ?_, fun _ => ⟨he3, ?_⟩⟩
          · exact absurd h (by simp)
          rcases hcc with ⟨_, hcv⟩ | ⟨hcv, _, _, _⟩
          · exact core_dead_mono (sync_core s hcv) he3 (pre_mono c X q)
          · simp only [hnc] at hcv
            rw [← hpre] at hcv
            have := core_dead_mono (sync_core s hcv) he3 (pre_mono c (X ++ q.take len) (q.drop len))
            rwa [hXq] at this
        · rw [if_neg he3]
          have he3' : (z2.sync s).err = false := by simpa using he3
          have he2 : z2.err = false := sync_err_false he3'
          rcases hcc with ⟨hbad, _⟩ | ⟨hcv, hdn, hcu, _⟩
          · rw [he2] at hbad; cases hbad
          · simp only [hnc] at hcv hdn hcu
            rw [← hpre] at hcv
            have hd3 := sync_dc s z2
            have hT3 : Tracks c limit (z2.sync s) (X ++ q.take len) := by
              refine ⟨sync_core s hcv, ?_, ?_, ?_⟩
              · rw [hfeed, hd3.dn, hdn]
              · rw [hfeed, hd3.cu, hcu]
              · rw [hd3.cu, hcu]; exact hbs
            have hcl3 : (z2.sync s).closed = false := (sync_frame s z2).cl.trans hcl2
            have := ih (z2.sync s) (q.drop len) (X ++ q.take len) (by rw [List.length_drop]; omega) hT3 (fun _ => hcl3)
            rwa [hXq] at this
      · rw [if_neg hfull]
        have hsmall : (c.feed X).cur.length + (q.take len).length < c.bs := by
          rw [hT.fc, hlen]
          have : (z.cur ++ q.take len).length ≠ c.bs := hfull
          rw [List.length_append, hlen] at this
          omega
        have hfeed : c.feed (X ++ q.take len) = ⟨z.done, z.cur ++ q.take len, (c.feed X).out⟩ := by
          rw [feed_append, foldl_feed1_small c _ _ hsmall, hT.fd, hT.fc]
        have hpre : c.pre (X ++ q.take len) = c.pre X := by
          unfold PCodec.pre; rw [hfeed]
        have hT1 : Tracks c limit { z with cur := z.cur ++ q.take len } (X ++ q.take len) := by
          refine ⟨?_, ?_, ?_, ?_⟩
          · rw [hpre]; exact ⟨hT.core.lim, hT.core.live, hT.core.dead⟩
          · rw [hfeed]
          · rw [hfeed]
          · show (z.cur ++ q.take len).length < c.bs
            rw [List.length_append, hlen]; rw [hT.fc, hlen] at hsmall; exact hsmall
        have := ih { z with cur := z.cur ++ q.take len } (q.drop len) (X ++ q.take len)
          (by rw [List.length_drop]; omega) hT1 (fun _ => hnc)
        rwa [hXq] at this

end ObiVerif.WriteErr
