import ObiVerif.Lemmas.DeBruijnCov
/-!
# The graph queries do not depend on the order of the association list that models the Go map (C19)

`Graph.Equiv g g'`: same parameters and the same finite map word → weight, whatever the order of the entries.
`heaviestPath_equiv` / `longestConsensus_equiv`: two equivalent graphs with distinct keys give the same heaviest
path and consensus; `pushes_perm_equiv`: pushing the same reads in another order gives an equivalent graph;
hence `consensus_of_multiset`: the result is a function of the multiset of reads.
-/
namespace ObiVerif.DeBruijn
open ObiVerif.Kmer

def Graph.Equiv (g g' : Graph) : Prop :=
  g.k = g'.k ∧ g.mask = g'.mask ∧ g.prevc = g'.prevc ∧ g.prevg = g'.prevg ∧ g.prevt = g'.prevt ∧
    ∀ x, g.nodes.lookup x = g'.nodes.lookup x

namespace Graph.Equiv
variable {g g' : Graph}

theorem has_eq (h : g.Equiv g') : has g.nodes = has g'.nodes := by
  funext x; unfold has; rw [h.2.2.2.2.2 x]

theorem weight_eq (h : g.Equiv g') : g.weight = g'.weight := by
  funext x; unfold Graph.weight weightOf; rw [h.2.2.2.2.2 x]

theorem nexts_eq (h : g.Equiv g') : g.nexts = g'.nexts := by
  funext x; unfold Graph.nexts; rw [h.has_eq, h.2.1]

theorem previouses_eq (h : g.Equiv g') : g.previouses = g'.previouses := by
  funext x; unfold Graph.previouses; rw [h.has_eq, h.2.2.1, h.2.2.2.1, h.2.2.2.2.1]

theorem succ_eq (h : g.Equiv g') : g.succ = g'.succ := by
  funext x; unfold Graph.succ; rw [h.nexts_eq]

theorem mem_keys (h : g.Equiv g') (x : Nat) : x ∈ g.keys ↔ x ∈ g'.keys := by
  rw [← Graph.has_iff, ← Graph.has_iff, h.has_eq]

theorem walk_iff (h : g.Equiv g') : ∀ p, g.Walk p ↔ g'.Walk p := by
  intro p
  induction p with
  | nil => simp [Graph.Walk]
  | cons x t ih =>
    cases t with
    | nil => simp [Graph.Walk, h.mem_keys]
    | cons y t' =>
      simp only [Graph.Walk, Graph.Edge, h.succ_eq] at ih ⊢
      rw [ih]

theorem cyclic_iff (h : g.Equiv g') : g.Cyclic ↔ g'.Cyclic := by
  unfold Graph.Cyclic
  constructor
  · rintro ⟨x, p, hw⟩; exact ⟨x, p, (h.walk_iff _).1 hw⟩
  · rintro ⟨x, p, hw⟩; exact ⟨x, p, (h.walk_iff _).2 hw⟩

theorem hasCycle_eq (h : g.Equiv g') : g.hasCycle = g'.hasCycle := by
  rcases hasCycle_spec g with ⟨h1, c1⟩ | ⟨h1, c1⟩ <;> rcases hasCycle_spec g' with ⟨h2, c2⟩ | ⟨h2, c2⟩
  · rw [h1, h2]
  · exact absurd (h.cyclic_iff.1 c1) c2
  · exact absurd (h.cyclic_iff.2 c2) c1
  · rw [h1, h2]

theorem keys_perm (h : g.Equiv g') (hn : g.keys.Nodup) (hn' : g'.keys.Nodup) : g.keys.Perm g'.keys :=
  (List.perm_ext_iff_of_nodup hn hn').2 h.mem_keys

theorem heads_perm (h : g.Equiv g') (hn : g.keys.Nodup) (hn' : g'.keys.Nodup) : g.heads.Perm g'.heads := by
  unfold Graph.heads
  rw [h.previouses_eq]
  exact (h.keys_perm hn hn').filter _

theorem length_eq (h : g.Equiv g') (hn : g.keys.Nodup) (hn' : g'.keys.Nodup) : g.nodes.length = g'.nodes.length := by
  have := (h.keys_perm hn hn').length_eq
  simpa [Graph.keys] using this

end Graph.Equiv

/-! ## the search state up to the order of its maps -/

def HP.Equiv (h h' : HP) : Prop :=
  (∀ x, h.dist.lookup x = h'.dist.lookup x) ∧ (∀ x, h.visited.lookup x = h'.visited.lookup x) ∧
  (∀ x, h.prev.lookup x = h'.prev.lookup x) ∧ h.queue = h'.queue ∧ h.hNode = h'.hNode ∧ h.hWeight = h'.hWeight

theorem HP.Equiv.refl (h : HP) : HP.Equiv h h := ⟨fun _ => rfl, fun _ => rfl, fun _ => rfl, rfl, rfl, rfl⟩

theorem HP.Equiv.trans {a b c : HP} (h1 : HP.Equiv a b) (h2 : HP.Equiv b c) : HP.Equiv a c :=
  ⟨fun x => (h1.1 x).trans (h2.1 x), fun x => (h1.2.1 x).trans (h2.2.1 x), fun x => (h1.2.2.1 x).trans (h2.2.2.1 x),
   h1.2.2.2.1.trans h2.2.2.2.1, h1.2.2.2.2.1.trans h2.2.2.2.2.1, h1.2.2.2.2.2.trans h2.2.2.2.2.2⟩

theorem getD0_congr {m m' : List (Nat × Nat)} (h : ∀ x, m.lookup x = m'.lookup x) (x : Nat) : getD0 m x = getD0 m' x := by
  unfold getD0; rw [h x]

theorem setKV_congr {m m' : List (Nat × Nat)} (h : ∀ x, m.lookup x = m'.lookup x) (a v : Nat) :
    ∀ x, (setKV m a v).lookup x = (setKV m' a v).lookup x := by
  intro x; rw [lookup_setKV, lookup_setKV, h x]

theorem qPush_swap (x y : Nat) (l : List Nat) : qPush x (qPush y l) = qPush y (qPush x l) := by
  induction l with
  | nil =>
    simp only [qPush]
    by_cases h1 : x ≤ y <;> by_cases h2 : y ≤ x
    · have : x = y := by omega
      subst this; rfl
    · simp [h1, h2]
    · simp [h1, h2]
    · omega
  | cons a t ih =>
    simp only [qPush]
    by_cases hy : y ≤ a <;> by_cases hx : x ≤ a
    · simp only [hy, hx, if_true, qPush]
      by_cases h1 : x ≤ y <;> by_cases h2 : y ≤ x
      · have : x = y := by omega
        subst this; rfl
      · simp [h1, h2]
      · simp [h1, h2]
      · omega
    · have h1 : ¬ x ≤ y := by omega
      have h2 : y ≤ x := by omega
      simp [hy, hx, qPush, h1]
    · have h1 : x ≤ y := by omega
      have h2 : ¬ y ≤ x := by omega
      simp [hy, hx, qPush, h2]
    · simp only [hy, hx, if_false, qPush]
      rw [ih]

/-- one step of the initialisation fold -/
def initStepW (w : Nat → Nat) (h : HP) (n : Nat) : HP :=
  { h with queue := qPush n h.queue, dist := setKV h.dist n (w n), prev := setKV h.prev n 0,
           visited := setKV h.visited n 0 }

theorem hpInit_eq (g : Graph) : hpInit g = g.heads.foldl (initStepW g.weight) ⟨[], [], [], [], 0, 0⟩ := rfl

theorem initStepW_congr (w : Nat → Nat) {h h' : HP} (e : HP.Equiv h h') (n : Nat) :
    HP.Equiv (initStepW w h n) (initStepW w h' n) := by
  obtain ⟨e1, e2, e3, e4, e5, e6⟩ := e
  exact ⟨setKV_congr e1 n _, setKV_congr e2 n _, setKV_congr e3 n _, by simp [initStepW, e4], e5, e6⟩

theorem setKV_swap (m : List (Nat × Nat)) (f : Nat → Nat) (a b x : Nat) :
    (setKV (setKV m a (f a)) b (f b)).lookup x = (setKV (setKV m b (f b)) a (f a)).lookup x := by
  simp only [lookup_setKV]
  by_cases h1 : x = a <;> by_cases h2 : x = b
  · subst h1; subst h2; simp
  · subst h1; simp only [if_true]; rw [if_neg h2]
  · subst h2; simp only [if_true]; rw [if_neg h1]
  · simp [h1, h2]

theorem initStepW_swap (w : Nat → Nat) (h : HP) (a b : Nat) :
    HP.Equiv (initStepW w (initStepW w h a) b) (initStepW w (initStepW w h b) a) :=
  ⟨setKV_swap h.dist w a b, setKV_swap h.visited (fun _ => 0) a b, setKV_swap h.prev (fun _ => 0) a b,
   qPush_swap b a h.queue, rfl, rfl⟩

theorem foldl_initStepW_congr (w : Nat → Nat) (l : List Nat) : ∀ {h h' : HP}, HP.Equiv h h' →
    HP.Equiv (l.foldl (initStepW w) h) (l.foldl (initStepW w) h') := by
  induction l with
  | nil => intro h h' e; exact e
  | cons a t ih => intro h h' e; exact ih (initStepW_congr w e a)

theorem foldl_initStepW_perm (w : Nat → Nat) {l l' : List Nat} (p : l.Perm l') : ∀ (h : HP),
    HP.Equiv (l.foldl (initStepW w) h) (l'.foldl (initStepW w) h) := by
  induction p with
  | nil => intro h; exact HP.Equiv.refl h
  | cons x _ ih => intro h; exact ih _
  | swap x y l => intro h; exact foldl_initStepW_congr w l (initStepW_swap w h y x)
  | trans _ _ ih1 ih2 => intro h; exact (ih1 h).trans (ih2 h)

/-! ## the loop -/

theorem relax_equiv {g g' : Graph} (e : g.Equiv g') (cur : Nat) (l : List Nat) : ∀ {h h' : HP}, HP.Equiv h h' →
    HP.Equiv (relax g cur l h) (relax g' cur l h') := by
  induction l with
  | nil => intro h h' eh; exact eh
  | cons nx t ih =>
    intro h h' eh
    obtain ⟨e1, e2, e3, e4, e5, e6⟩ := eh
    simp only [relax]
    rw [← e.weight_eq, getD0_congr e1 cur, getD0_congr e1 nx]
    split
    · apply ih
      rw [e6]
      split
      · exact ⟨setKV_congr e1 _ _, setKV_congr e2 _ _, setKV_congr e3 _ _, by simp [e4], rfl, rfl⟩
      · exact ⟨setKV_congr e1 _ _, setKV_congr e2 _ _, setKV_congr e3 _ _, by simp [e4], e5, rfl⟩
    · exact ih ⟨e1, e2, e3, e4, e5, e6⟩

def OptEquiv : Option HP → Option HP → Prop
  | none, none => True
  | some a, some b => HP.Equiv a b
  | _, _ => False

theorem hpLoop_equiv {g g' : Graph} (e : g.Equiv g') : ∀ (fuel : Nat) {h h' : HP}, HP.Equiv h h' →
    OptEquiv (hpLoop g fuel h) (hpLoop g' fuel h') := by
  intro fuel
  induction fuel with
  | zero =>
    intro h h' eh
    simp only [hpLoop]
    rw [eh.2.2.2.1]
    split
    · exact eh
    · trivial
  | succ n ih =>
    intro h h' eh
    obtain ⟨e1, e2, e3, e4, e5, e6⟩ := eh
    simp only [hpLoop]
    rw [← e4]
    cases hq : h.queue with
    | nil => exact ⟨e1, e2, e3, e4, e5, e6⟩
    | cons cur q =>
      simp only []
      rw [getD0_congr e2 cur]
      split
      · exact ih ⟨e1, e2, e3, rfl, e5, e6⟩
      · rw [getD0_congr e1 cur, e6, ← e.succ_eq]
        apply ih
        apply relax_equiv e
        split
        · exact ⟨e1, setKV_congr e2 _ _, e3, rfl, rfl, rfl⟩
        · exact ⟨e1, setKV_congr e2 _ _, e3, rfl, e5, rfl⟩

theorem hpBack_congr (starts starts' : List Nat) (prev prev' : List (Nat × Nat))
    (hs : ∀ x, x ∈ starts ↔ x ∈ starts') (hp : ∀ x, prev.lookup x = prev'.lookup x) :
    ∀ (n cur : Nat) (acc : List Nat), hpBack starts prev n cur acc = hpBack starts' prev' n cur acc := by
  intro n
  induction n with
  | zero => intro cur acc; rfl
  | succ n ih =>
    intro cur acc
    simp only [hpBack]
    have hc : starts.contains cur = starts'.contains cur := by
      rw [Bool.eq_iff_iff]; simp [hs cur]
    rw [hc, getD0_congr hp cur, ih]

theorem hpInit_equiv {g g' : Graph} (e : g.Equiv g') (hn : g.keys.Nodup) (hn' : g'.keys.Nodup) :
    HP.Equiv (hpInit g) (hpInit g') := by
  rw [hpInit_eq, hpInit_eq, ← e.weight_eq]
  exact foldl_initStepW_perm g.weight (e.heads_perm hn hn') _

/-- **Order independence of `HaviestPath`**: two graphs holding the same map (each key once, as in a Go map), in
whatever order, return the same path. -/
theorem heaviestPath_equiv (g g' : Graph) (e : g.Equiv g') (hn : g.keys.Nodup) (hn' : g'.keys.Nodup) (fuel : Nat) :
    g.heaviestPath fuel = g'.heaviestPath fuel := by
  unfold Graph.heaviestPath
  rw [← e.hasCycle_eq, ← e.length_eq hn hn']
  cases g.hasCycle with
  | none => rfl
  | some b =>
    cases b with
    | true => rfl
    | false =>
      simp only []
      have hl := hpLoop_equiv e fuel (hpInit_equiv e hn hn')
      cases h1 : hpLoop g fuel (hpInit g) with
      | none =>
        cases h2 : hpLoop g' fuel (hpInit g') with
        | none => rfl
        | some b => rw [h1, h2] at hl; exact absurd hl (by simp [OptEquiv])
      | some a =>
        cases h2 : hpLoop g' fuel (hpInit g') with
        | none => rw [h1, h2] at hl; exact absurd hl (by simp [OptEquiv])
        | some b =>
          rw [h1, h2] at hl
          simp only []
          have hl : HP.Equiv a b := hl
          rw [hl.2.2.2.2.1]
          exact hpBack_congr _ _ _ _ (fun x => (e.heads_perm hn hn').mem_iff) hl.2.2.1 _ _ _

theorem decodePath_equiv {g g' : Graph} (e : g.Equiv g') (p : List Nat) : g.decodePath p = g'.decodePath p := by
  cases p with
  | nil => rfl
  | cons x t => simp [Graph.decodePath, e.1]

/-- **Order independence of `LongestConsensus(id, 0)`** -/
theorem longestConsensus_equiv (g g' : Graph) (e : g.Equiv g') (hn : g.keys.Nodup) (hn' : g'.keys.Nodup) (fuel : Nat) :
    g.longestConsensus fuel = g'.longestConsensus fuel := by
  unfold Graph.longestConsensus
  have hl := e.length_eq hn hn'
  have he : g.nodes.isEmpty = g'.nodes.isEmpty := by
    cases h1 : g.nodes <;> cases h2 : g'.nodes <;> simp_all
  rw [he, heaviestPath_equiv g g' e hn hn' fuel]
  split
  · rfl
  · cases g'.heaviestPath fuel with
    | path p => simp only [decodePath_equiv e]
    | _ => rfl

/-! ## graphs built from the same reads in another order -/

theorem lookup_eq_has_weight (nodes : List (Nat × Nat)) (x : Nat) :
    nodes.lookup x = if has nodes x then some (weightOf nodes x) else none := by
  unfold has weightOf
  cases nodes.lookup x <;> simp

theorem push_params (g : Graph) (s : Bytes) (w : Nat) :
    (g.push s w).k = g.k ∧ (g.push s w).mask = g.mask ∧ (g.push s w).prevc = g.prevc ∧
    (g.push s w).prevg = g.prevg ∧ (g.push s w).prevt = g.prevt := by
  unfold Graph.push; split <;> simp

theorem pushes_params (reads : List (Bytes × Nat)) : ∀ (g : Graph),
    (reads.foldl (fun g r => g.push r.1 r.2) g).k = g.k ∧ (reads.foldl (fun g r => g.push r.1 r.2) g).mask = g.mask ∧
    (reads.foldl (fun g r => g.push r.1 r.2) g).prevc = g.prevc ∧
    (reads.foldl (fun g r => g.push r.1 r.2) g).prevg = g.prevg ∧
    (reads.foldl (fun g r => g.push r.1 r.2) g).prevt = g.prevt := by
  induction reads with
  | nil => intro g; simp
  | cons r rs ih =>
    intro g
    obtain ⟨a, b, c, d, e⟩ := ih (g.push r.1 r.2)
    obtain ⟨a', b', c', d', e'⟩ := push_params g r.1 r.2
    simp only [List.foldl_cons]
    exact ⟨a.trans a', b.trans b', c.trans c', d.trans d', e.trans e'⟩

/-- with counts ≥ 1 a word is a node exactly when its weight is positive -/
theorem pushes_has_iff (k : Nat) (reads : List (Bytes × Nat)) (hc : ∀ r ∈ reads, 1 ≤ r.2) (x : Nat) :
    has (reads.foldl (fun g r => g.push r.1 r.2) (makeGraph k)).nodes x = true ↔
      0 < (reads.foldl (fun g r => g.push r.1 r.2) (makeGraph k)).weight x := by
  constructor
  · intro h; exact pushes_pos k reads hc x ((Graph.has_iff _ x).1 h)
  · intro h
    cases hh : has (reads.foldl (fun g r => g.push r.1 r.2) (makeGraph k)).nodes x with
    | true => rfl
    | false =>
      have := getD0_of_not_has _ x hh
      unfold getD0 at this
      unfold Graph.weight weightOf at h
      omega

/-- **The graph is a function of the multiset of reads**: pushing the same reads (counts ≥ 1) in another order
gives the same map. -/
theorem pushes_perm_equiv (k : Nat) (hk : 1 ≤ k) (h32 : k ≤ 32) (reads reads' : List (Bytes × Nat))
    (hp : reads.Perm reads') (hc : ∀ r ∈ reads, 1 ≤ r.2) :
    (reads.foldl (fun g r => g.push r.1 r.2) (makeGraph k)).Equiv
      (reads'.foldl (fun g r => g.push r.1 r.2) (makeGraph k)) := by
  have hc' : ∀ r ∈ reads', 1 ≤ r.2 := fun r hr => hc r (hp.mem_iff.2 hr)
  obtain ⟨a, b, c, d, e⟩ := pushes_params reads (makeGraph k)
  obtain ⟨a', b', c', d', e'⟩ := pushes_params reads' (makeGraph k)
  refine ⟨a.trans a'.symm, b.trans b'.symm, c.trans c'.symm, d.trans d'.symm, e.trans e'.symm, ?_⟩
  intro x
  have hw : (reads.foldl (fun g r => g.push r.1 r.2) (makeGraph k)).weight x
      = (reads'.foldl (fun g r => g.push r.1 r.2) (makeGraph k)).weight x := by
    rw [pushes_weight k hk (by omega), pushes_weight k hk (by omega)]
    exact (hp.map _).sum_nat
  have hh : has (reads.foldl (fun g r => g.push r.1 r.2) (makeGraph k)).nodes x
      = has (reads'.foldl (fun g r => g.push r.1 r.2) (makeGraph k)).nodes x := by
    rw [Bool.eq_iff_iff, pushes_has_iff k reads hc, pushes_has_iff k reads' hc', hw]
  rw [lookup_eq_has_weight, lookup_eq_has_weight, hh]
  unfold Graph.weight at hw
  rw [hw]

theorem heaviestPath_of_multiset (k : Nat) (hk : 1 ≤ k) (h32 : k ≤ 32) (reads reads' : List (Bytes × Nat))
    (hp : reads.Perm reads') (hc : ∀ r ∈ reads, 1 ≤ r.2) (fuel : Nat) :
    (reads.foldl (fun g r => g.push r.1 r.2) (makeGraph k)).heaviestPath fuel
      = (reads'.foldl (fun g r => g.push r.1 r.2) (makeGraph k)).heaviestPath fuel :=
  heaviestPath_equiv _ _ (pushes_perm_equiv k hk h32 reads reads' hp hc) (pushes_nodup k reads) (pushes_nodup k reads') fuel

theorem consensus_of_multiset (k : Nat) (hk : 1 ≤ k) (h32 : k ≤ 32) (reads reads' : List (Bytes × Nat))
    (hp : reads.Perm reads') (hc : ∀ r ∈ reads, 1 ≤ r.2) (fuel : Nat) :
    (reads.foldl (fun g r => g.push r.1 r.2) (makeGraph k)).longestConsensus fuel
      = (reads'.foldl (fun g r => g.push r.1 r.2) (makeGraph k)).longestConsensus fuel :=
  longestConsensus_equiv _ _ (pushes_perm_equiv k hk h32 reads reads' hp hc) (pushes_nodup k reads) (pushes_nodup k reads') fuel

end ObiVerif.DeBruijn
