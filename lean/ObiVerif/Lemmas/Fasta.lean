import ObiVerif.Model.Fasta
import ObiVerif.Lemmas.Chunk
/-!
# Lemmas for the FASTA reader: the splitter cuts at a `>` that starts a line, and the chunk parser
restarts identically at such a `>` whenever it is inside a sequence.
-/
namespace ObiVerif.Parse
open ObiVerif.Chunk

/-! ## EndOfLastFastaEntry -/

/-- emitted part ends with an end-of-line byte, carried-over part starts with `>` -/
def FastaCut (a b : Seq) : Prop := (∃ a' e, a = a' ++ [e] ∧ isEol e = true) ∧ (∃ t, b = 62 :: t)

theorem fastaLoop_two (l : List UInt8) (last : Nat) :
    fastaLoop l 2 last = (2, last, (l.length : Int) - 1) := by
  cases l with
  | nil => simp [fastaLoop]
  | cons c rest => simp [fastaLoop] <;> omega

theorem fastaLoop_found : ∀ (l : List UInt8) (st last st' last' : Nat) (i : Int), st < 2 →
    fastaLoop l st last = (st', last', i) →
    st' < 2 ∨
    (st' = 2 ∧ st = 1 ∧ ∃ e l2, l = e :: l2 ∧ isEol e = true ∧ last' = last ∧ i = (l2.length : Int) - 1) ∨
    (st' = 2 ∧ ∃ l1 e l2, l = l1 ++ 62 :: e :: l2 ∧ isEol e = true ∧ last' = l2.length + 1 ∧
        i = (l2.length : Int) - 1) := by
  intro l
  induction l with
  | nil =>
    intro st last st' last' i hst h
    simp only [fastaLoop, Prod.mk.injEq] at h
    left; omega
  | cons c rest ih =>
    intro st last st' last' i hst h
    rw [fastaLoop] at h
    simp only [hst, if_true] at h
    split at h
    · -- '>' in state 0
      rename_i hc
      simp only [Bool.and_eq_true, beq_iff_eq] at hc
      have hih := ih 1 rest.length st' last' i (by omega) h
      rcases hih with hlt | ⟨h2, _, e, l2, hl, he, hlast, hi⟩ | ⟨h2, l1, e, l2, hl, he, hlast, hi⟩
      · left; exact hlt
      · right; right
        refine ⟨h2, [], e, l2, ?_, he, ?_, hi⟩
        · rw [hl, hc.1]; rfl
        · rw [hlast, hl]; simp
      · right; right
        exact ⟨h2, c :: l1, e, l2, by rw [hl]; rfl, he, hlast, hi⟩
    · split at h
      · -- end of line in state 1
        rename_i hc
        simp only [Bool.and_eq_true, beq_iff_eq] at hc
        rw [fastaLoop_two] at h
        simp only [Prod.mk.injEq] at h
        right; left
        exact ⟨h.1.symm, hc.1, c, rest, rfl, hc.2, h.2.1.symm, h.2.2.symm⟩
      · have hih := ih 0 last st' last' i (by omega) h
        rcases hih with hlt | ⟨_, h0, _⟩ | ⟨h2, l1, e, l2, hl, he, hlast, hi⟩
        · left; exact hlt
        · omega
        · right; right
          exact ⟨h2, c :: l1, e, l2, by rw [hl]; rfl, he, hlast, hi⟩

/-- `splitFasta_spec`: a non-negative result is the offset (≥ 1) of a `>` preceded by an end-of-line
byte; otherwise the result is −1 -/
theorem splitFasta_spec (buf : Seq) :
    splitFasta buf = -1 ∨
    ∃ pre e post, buf = pre ++ e :: 62 :: post ∧ isEol e = true ∧ splitFasta buf = ((pre.length + 1 : Nat) : Int) := by
  unfold splitFasta
  generalize hfl : fastaLoop buf.reverse 0 0 = r
  obtain ⟨st', last', i⟩ := r
  simp only
  split
  · left; rfl
  · rename_i hcond
    simp only [Bool.or_eq_true, beq_iff_eq, bne_iff_ne, ne_eq, not_or, Decidable.not_not] at hcond
    right
    rcases fastaLoop_found _ _ _ _ _ _ (by omega) hfl with hlt | ⟨_, h0, _⟩ | ⟨h2, l1, e, l2, hl, he, hlast, hi⟩
    · omega
    · omega
    · refine ⟨l2.reverse, e, l1.reverse, ?_, he, ?_⟩
      · have := List.reverse_eq_append_iff.mp hl
        rw [this]; simp
      · rw [hlast]; simp

theorem splitFasta_ok : SplitterOK splitFasta FastaCut := by
  constructor
  · intro buf
    rcases splitFasta_spec buf with h | ⟨pre, e, post, hb, he, hr⟩
    · left; omega
    · right
      rw [hr, hb]
      simp only [List.length_append, List.length_cons]
      omega
  · intro buf hpos
    rcases splitFasta_spec buf with h | ⟨pre, e, post, hb, he, hr⟩
    · omega
    · rw [hr]
      simp only [Int.toNat_natCast]
      have hb' : buf = (pre ++ [e]) ++ (62 :: post) := by rw [hb]; simp
      have hlen : (pre ++ [e]).length = pre.length + 1 := by simp
      constructor
      · refine ⟨pre, e, ?_, he⟩
        rw [hb']; exact List.take_left' hlen
      · refine ⟨post, ?_⟩
        rw [hb']; exact List.drop_left' hlen
  · intro a b x h
    obtain ⟨ha, t, hb⟩ := h
    exact ⟨ha, t ++ x, by rw [hb]; rfl⟩

/-! ## FastaChunkParser -/

theorem faRun_append (s : FaSt) (a b : Seq) :
    faRun s (a ++ b) =
      match faRun s a with
      | .error e => .error e
      | .ok (s', r1) =>
        match faRun s' b with
        | .error e => .error e
        | .ok (s'', r2) => .ok (s'', r1 ++ r2) := by
  induction a generalizing s with
  | nil =>
    simp only [List.nil_append, faRun]
    cases faRun s b with
    | error e => rfl
    | ok p => obtain ⟨s'', r2⟩ := p; simp
  | cons c t ih =>
    simp only [List.cons_append, faRun]
    cases hstep : faStep s c with
    | error e => rfl
    | ok p =>
      obtain ⟨s', r⟩ := p
      simp only
      rw [ih]
      cases faRun s' t with
      | error e => rfl
      | ok p2 =>
        obtain ⟨s2, r1⟩ := p2
        simp only
        cases faRun s2 b with
        | error e => rfl
        | ok p3 => obtain ⟨s3, r2⟩ := p3; simp

theorem faRun_cons (s : FaSt) (c : UInt8) (t : Seq) :
    faRun s (c :: t) =
      match faStep s c with
      | .error e => .error e
      | .ok (s', r) =>
        match faRun s' t with
        | .error e => .error e
        | .ok (s'', rs) => .ok (s'', r.toList ++ rs) := rfl

theorem eol_cases {c : UInt8} (h : isEol c = true) : c = 10 ∨ c = 13 := by
  simpa [isEol] using h

theorem eol_isSep {c : UInt8} (h : isEol c = true) : isSep c = true := by
  simp [isSep, h]

/-- after a successful step on an end-of-line byte the parser waits for the sequence (state 5) or is
inside one with `previous` = end of line; nothing is emitted -/
theorem faStep_eol {s s' : FaSt} {c : UInt8} {o : Option Rec} (hc : isEol c = true)
    (h : faStep s c = .ok (s', o)) :
    o = none ∧ ((∃ id d, s' = .s5 id d) ∨
      (∃ id d sq pe, s = .s6 id d sq pe ∧ s' = .s6 id d sq true)) := by
  have hsep := eol_isSep hc
  rcases eol_cases hc with rfl | rfl <;>
  cases s <;> simp [faStep, isSep, isEol, isSpace] at h ⊢ <;>
  (obtain ⟨rfl, rfl⟩ := h; simp)

/-- in state 5 a `>` is fatal (empty sequence) -/
theorem faStep_s5_gt (id d : Seq) : faStep (.s5 id d) 62 = .error .fatal := by
  simp [faStep, isEol, seqOK, lower]

/-- run over end-of-line bytes ending in state 6: it started in state 6 with the same payload -/
theorem faRun_eols_s6 : ∀ (e : Seq) (s : FaSt) (id d sq : Seq) (pe : Bool) (rs : List Rec),
    AllEol e → faRun s e = .ok (.s6 id d sq pe, rs) → ∃ pe', s = .s6 id d sq pe' ∧ rs = [] := by
  intro e
  induction e with
  | nil =>
    intro s id d sq pe rs _ h
    simp only [faRun, Except.ok.injEq, Prod.mk.injEq] at h
    exact ⟨pe, h.1, h.2.symm⟩
  | cons c t ih =>
    intro s id d sq pe rs hall h
    have hc : isEol c = true := hall c (by simp)
    have ht : AllEol t := fun x hx => hall x (by simp [hx])
    simp only [faRun] at h
    cases hstep : faStep s c with
    | error e => rw [hstep] at h; cases h
    | ok p =>
      obtain ⟨s1, o⟩ := p
      rw [hstep] at h
      simp only at h
      cases hrun : faRun s1 t with
      | error e => rw [hrun] at h; cases h
      | ok p2 =>
        obtain ⟨s2, r2⟩ := p2
        rw [hrun] at h
        simp only [Except.ok.injEq, Prod.mk.injEq] at h
        obtain ⟨rfl, rfl⟩ := h
        obtain ⟨pe', hs1, hr2⟩ := ih s1 id d sq pe r2 ht hrun
        obtain ⟨ho, hcase⟩ := faStep_eol hc hstep
        rcases hcase with ⟨id', d', hs5⟩ | ⟨id', d', sq', pe'', hs, hs6⟩
        · rw [hs5] at hs1; cases hs1
        · rw [hs6] at hs1
          cases hs1
          exact ⟨pe'', hs, by rw [ho, hr2]; rfl⟩

/-- a run over end-of-line bytes from state 6 stays there and emits nothing -/
theorem faRun_s6_eols : ∀ (e : Seq) (id d sq : Seq) (pe : Bool), AllEol e →
    ∃ pe', faRun (.s6 id d sq pe) e = .ok (.s6 id d sq pe', []) := by
  intro e
  induction e with
  | nil => intro id d sq pe _; exact ⟨pe, rfl⟩
  | cons c t ih =>
    intro id d sq pe hall
    have hc : isEol c = true := hall c (by simp)
    have ht : AllEol t := fun x hx => hall x (by simp [hx])
    obtain ⟨pe', h⟩ := ih id d sq true ht
    refine ⟨pe', ?_⟩
    have hstep : faStep (.s6 id d sq pe) c = .ok (.s6 id d sq true, none) := by
      rcases eol_cases hc with rfl | rfl <;> simp [faStep, isSep, isEol, isSpace]
    simp only [faRun, hstep, h]
    rfl

/-- the sequence accumulated in state 6 is never empty -/
def FaInv : FaSt → Prop
  | .s6 _ _ sq _ => sq ≠ []
  | _ => True

theorem faStep_inv {s s' : FaSt} {c : UInt8} {o : Option Rec} (hi : FaInv s) (h : faStep s c = .ok (s', o)) :
    FaInv s' := by
  cases s <;> simp only [faStep] at h <;> (repeat' split at h) <;>
    simp only [Except.ok.injEq, Prod.mk.injEq, reduceCtorEq] at h <;>
    (try (obtain ⟨rfl, _⟩ := h)) <;> simp_all [FaInv]

theorem faRun_inv : ∀ (c : Seq) (s s' : FaSt) (rs : List Rec), FaInv s → faRun s c = .ok (s', rs) → FaInv s' := by
  intro c
  induction c with
  | nil =>
    intro s s' rs hi h
    simp only [faRun, Except.ok.injEq, Prod.mk.injEq] at h
    rw [← h.1]; exact hi
  | cons a t ih =>
    intro s s' rs hi h
    simp only [faRun] at h
    cases hstep : faStep s a with
    | error e => rw [hstep] at h; cases h
    | ok p =>
      obtain ⟨s1, o⟩ := p
      rw [hstep] at h
      simp only at h
      cases hrun : faRun s1 t with
      | error e => rw [hrun] at h; cases h
      | ok p2 =>
        obtain ⟨s2, r2⟩ := p2
        rw [hrun] at h
        simp only [Except.ok.injEq, Prod.mk.injEq] at h
        rw [← h.1]
        exact ih s1 s2 r2 (faStep_inv hi hstep) hrun

/-- "a whole number of records": the byte loop reads `c` without error from the initial state and
ends inside a sequence (state 6), having completed the records `rs`; the last record is
`mkRec id d sq` -/
def FaComplete (c : Seq) (rs : List Rec) (id d sq : Seq) : Prop :=
  ∃ pe, faRun .s0 c = .ok (.s6 id d sq pe, rs)

/-- the chunk parser on a whole number of records: the completed records plus the last one -/
theorem parseFasta_complete {c : Seq} {rs : List Rec} {id d sq : Seq} (h : FaComplete c rs id d sq) :
    parseFasta c = .ok (rs ++ [mkRec id d sq]) := by
  obtain ⟨pe, hrun⟩ := h
  have hinv : FaInv (.s6 id d sq pe) := faRun_inv c .s0 _ rs trivial hrun
  have hsq : sq.isEmpty = false := by
    cases sq with
    | nil => exact absurd rfl hinv
    | cons a t => rfl
  cases c with
  | nil => simp [faRun] at hrun
  | cons a t =>
    have ha : a = 62 := by
      apply Classical.byContradiction
      intro hne
      simp [faRun, faStep, hne] at hrun
    subst ha
    cases t with
    | nil => simp [faRun, faStep] at hrun
    | cons b t' =>
      have hb : (b == 32) = false := by
        cases hb : (b == 32) with
        | false => rfl
        | true =>
          exfalso
          have : b = 32 := by simpa using hb
          subst this
          simp [faRun, faStep, isSep, isSpace] at hrun
      simp only [parseFasta, hb, hrun, faFinish, hsq]
      simp

/-- **locality**: if the loop, started in any state, gets through `a ++ '>' :: t` without error and `a`
ends with an end-of-line byte, then after `a` the parser is inside a sequence, the `>` completes that
record, and the rest of the run is the run of a fresh parser on `'>' :: t`. -/
theorem faRun_cut {s0 sF : FaSt} {a' t : Seq} {e : UInt8} {rs : List Rec} (he : isEol e = true)
    (h : faRun s0 (a' ++ [e] ++ 62 :: t) = .ok (sF, rs)) :
    ∃ id d sq rs1 rs2, faRun s0 (a' ++ [e]) = .ok (.s6 id d sq true, rs1) ∧
      faRun .s0 (62 :: t) = .ok (sF, rs2) ∧ sq ≠ [] ∧ rs = rs1 ++ mkRec id d sq :: rs2 := by
  rw [faRun_append] at h
  cases hA : faRun s0 (a' ++ [e]) with
  | error x => rw [hA] at h; cases h
  | ok p =>
    obtain ⟨sA, rs1⟩ := p
    rw [hA] at h
    simp only at h
    -- state after the end-of-line byte
    have hA2 := hA
    rw [faRun_append] at hA2
    cases hP : faRun s0 a' with
    | error x => rw [hP] at hA2; cases hA2
    | ok p1 =>
      obtain ⟨sP, rP⟩ := p1
      rw [hP] at hA2
      simp only [faRun] at hA2
      cases hstep : faStep sP e with
      | error x => rw [hstep] at hA2; cases hA2
      | ok p2 =>
        obtain ⟨sE, o⟩ := p2
        rw [hstep] at hA2
        simp only [Except.ok.injEq, Prod.mk.injEq] at hA2
        obtain ⟨hsE, _⟩ := hA2
        subst hsE
        obtain ⟨_, hcase⟩ := faStep_eol he hstep
        -- the step on '>'
        simp only [faRun] at h
        rcases hcase with ⟨id, d, hs5⟩ | ⟨id, d, sq, pe, _, hs6⟩
        · subst hs5
          rw [faStep_s5_gt] at h
          cases h
        · subst hs6
          cases hgt : faStep (.s6 id d sq true) 62 with
          | error x => rw [hgt] at h; cases h
          | ok p3 =>
            obtain ⟨s1, o1⟩ := p3
            have hgt' := hgt
            simp only [faStep, beq_self_eq_true, if_true] at hgt'
            split at hgt'
            · cases hgt'
            · rename_i hne
              simp only [Except.ok.injEq, Prod.mk.injEq] at hgt'
              obtain ⟨rfl, rfl⟩ := hgt'
              rw [hgt] at h
              simp only at h
              have h0 : faStep .s0 62 = .ok (.s1, none) := by simp [faStep]
              cases hT : faRun .s1 t with
              | error x => rw [hT] at h; cases h
              | ok p4 =>
                obtain ⟨sT, rT⟩ := p4
                rw [hT] at h
                simp only [Except.ok.injEq, Prod.mk.injEq] at h
                obtain ⟨rfl, rfl⟩ := h
                refine ⟨id, d, sq, rs1, rT, rfl, ?_, ?_, ?_⟩
                · simp only [faRun, h0, hT]; rfl
                · intro hh; rw [hh] at hne; simp at hne
                · rfl

/-- a non-empty run of end-of-line bytes from state 6 ends with `previous` = end of line -/
theorem faRun_s6_eols_true : ∀ (e : Seq) (id d sq : Seq) (pe : Bool), AllEol e → e ≠ [] →
    faRun (.s6 id d sq pe) e = .ok (.s6 id d sq true, []) := by
  intro e
  induction e with
  | nil => intro id d sq pe _ h; exact absurd rfl h
  | cons c t ih =>
    intro id d sq pe hall _
    have hc : isEol c = true := hall c (by simp)
    have ht : AllEol t := fun x hx => hall x (by simp [hx])
    have hstep : faStep (.s6 id d sq pe) c = .ok (.s6 id d sq true, none) := by
      rcases eol_cases hc with rfl | rfl <;> simp [faStep, isSep, isEol, isSpace]
    cases t with
    | nil => simp only [faRun, hstep]; rfl
    | cons c' t' =>
      have := ih id d sq true ht (by simp)
      simp only [faRun, hstep] at this ⊢
      rw [this]; rfl

/-- the loop and the final record, without the `Peek` checks on the first two bytes -/
def faBody (c : Seq) : Except Fatal (List Rec) :=
  match faRun .s0 c with
  | .error e => .error e
  | .ok (s, rs) =>
    match faFinish s with
    | .error e => .error e
    | .ok l => .ok (rs ++ l)

/-- on a chunk that starts with `>` and has a second byte the `Peek` checks are subsumed by the loop -/
theorem parseFasta_eq_body (b : UInt8) (t : Seq) : parseFasta (62 :: b :: t) = faBody (62 :: b :: t) := by
  by_cases hb : b = 32
  · subst hb
    simp [parseFasta, faBody, faRun, faStep, isSep, isSpace]
  · have : (b == 32) = false := by simpa using hb
    simp only [parseFasta, faBody, this]
    rfl

/-- a whole-records chunk starts with `>` and a second byte -/
theorem complete_shape {c : Seq} {rs : List Rec} {id d sq : Seq} (h : FaComplete c rs id d sq) :
    ∃ b t, c = 62 :: b :: t := by
  obtain ⟨pe, hrun⟩ := h
  cases c with
  | nil => simp [faRun] at hrun
  | cons a t =>
    have ha : a = 62 := by
      apply Classical.byContradiction
      intro hne
      simp [faRun, faStep, hne] at hrun
    subst ha
    cases t with
    | nil => simp [faRun, faStep] at hrun
    | cons b t' => exact ⟨b, t', rfl⟩

theorem complete_not_allEol {t : Seq} {rs : List Rec} {id d sq : Seq} (h : FaComplete t rs id d sq)
    (ha : AllEol t) : False := by
  obtain ⟨pe, hrun⟩ := h
  cases t with
  | nil => simp [faRun] at hrun
  | cons c t' =>
    have hc : isEol c = true := ha c (by simp)
    rcases eol_cases hc with rfl | rfl <;> simp [faRun, faStep] at hrun

theorem complete_strip {t : Seq} {rs : List Rec} {id d sq : Seq} (h : FaComplete t rs id d sq) :
    FaComplete (stripEol t) rs id d sq := by
  obtain ⟨pe, hrun⟩ := h
  obtain ⟨e, he, hall⟩ := stripEol_decomp t
  rw [he, faRun_append] at hrun
  cases h1 : faRun .s0 (stripEol t) with
  | error x => rw [h1] at hrun; cases hrun
  | ok p =>
    obtain ⟨s', r1⟩ := p
    rw [h1] at hrun
    simp only at hrun
    cases h2 : faRun s' e with
    | error x => rw [h2] at hrun; cases hrun
    | ok p2 =>
      obtain ⟨s'', r2⟩ := p2
      rw [h2] at hrun
      simp only [Except.ok.injEq, Prod.mk.injEq] at hrun
      obtain ⟨rfl, rfl⟩ := hrun
      obtain ⟨pe', hs, hr⟩ := faRun_eols_s6 e s' id d sq pe r2 hall h2
      subst hs; subst hr
      exact ⟨pe', by simpa using h1⟩

/-- what the workers produce from the chunks of a whole-records text, taken in chunk order -/
theorem pieces_parse {cs : List Seq} {t : Seq} (hp : Pieces FastaCut cs t) :
    ∀ (rs : List Rec) (id d sq : Seq), FaComplete t rs id d sq →
      (∃ rss : List (List Rec), cs.map parseFasta = rss.map Except.ok ∧ rss.flatten = rs ++ [mkRec id d sq]) ∧
      ∀ c ∈ cs, ∃ rs' id' d' sq', FaComplete c rs' id' d' sq' := by
  induction hp with
  | nil h0 => intro rs id d sq hc; exact absurd h0 (fun h => complete_not_allEol hc h)
  | @lastStripped t _ =>
    intro rs id d sq hc
    have hs := complete_strip hc
    refine ⟨⟨[rs ++ [mkRec id d sq]], ?_, by simp⟩, ?_⟩
    · simp [parseFasta_complete hs]
    · intro c hcm; simp at hcm; subst hcm; exact ⟨rs, id, d, sq, hs⟩
  | @lastRaw t _ =>
    intro rs id d sq hc
    refine ⟨⟨[rs ++ [mkRec id d sq]], ?_, by simp⟩, ?_⟩
    · simp [parseFasta_complete hc]
    · intro c hcm; simp at hcm; subst hcm; exact ⟨rs, id, d, sq, hc⟩
  | @cut a b cs hcut _ _ ih =>
    intro rs id d sq hc
    obtain ⟨⟨a', e, ha, he⟩, t', hb⟩ := hcut
    obtain ⟨pe, hrun⟩ := hc
    subst ha; subst hb
    obtain ⟨id1, d1, sq1, rs1, rs2, hA, hB, _, hrs⟩ := faRun_cut he hrun
    have hca : FaComplete (a' ++ [e]) rs1 id1 d1 sq1 := ⟨true, hA⟩
    have hcb : FaComplete (62 :: t') rs2 id d sq := ⟨pe, hB⟩
    obtain ⟨⟨rss, hmap, hflat⟩, hall⟩ := ih rs2 id d sq hcb
    have hsa := complete_strip hca
    refine ⟨⟨(rs1 ++ [mkRec id1 d1 sq1]) :: rss, ?_, ?_⟩, ?_⟩
    · simp [parseFasta_complete hsa, hmap]
    · simp [hflat, hrs]
    · intro c hcm
      simp only [List.mem_cons] at hcm
      rcases hcm with rfl | hcm
      · exact ⟨rs1, id1, d1, sq1, hsa⟩
      · exact hall c hcm
  | @skip a b cs hcut hnil _ _ =>
    intro rs id d sq hc
    obtain ⟨⟨a', e, ha, he⟩, t', hb⟩ := hcut
    obtain ⟨pe, hrun⟩ := hc
    subst ha; subst hb
    obtain ⟨id1, d1, sq1, rs1, rs2, hA, _, _, _⟩ := faRun_cut he hrun
    exact absurd (allEol_of_strip_nil hnil) (fun h => complete_not_allEol ⟨true, hA⟩ h)

end ObiVerif.Parse
