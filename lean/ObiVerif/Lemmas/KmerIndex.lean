import ObiVerif.Model.KmerIndex
/-!
# Lemmas on the k-mer index: `Push` / `NewKmerMap` without occurrence limit, `Query` (C19)
-/
namespace ObiVerif.Kmer

theorem lookup_idxSet (m : Index) (x : Nat) (v : List Nat) (y : Nat) :
    (idxSet m x v).lookup y = if y = x then some v else m.lookup y := by
  induction m with
  | nil =>
    by_cases h : y = x
    · subst h; simp [idxSet]
    · have : (y == x) = false := by simpa using h
      simp [idxSet, List.lookup, h, this]
  | cons p t ih =>
    obtain ⟨z, u⟩ := p
    simp only [idxSet]
    by_cases hz : z = x
    · subst hz
      by_cases h : y = z
      · subst h; simp
      · have : (y == z) = false := by simpa using h
        simp [List.lookup, h, this]
    · simp only [hz, if_false]
      by_cases h : y = z
      · subst h
        have : ¬ y = x := hz
        simp [List.lookup, this]
      · have h' : (y == z) = false := by simpa using h
        simp only [List.lookup, h']
        exact ih

theorem lookup_matchSet (m : List (Nat × Nat)) (x v y : Nat) :
    (matchSet m x v).lookup y = if y = x then some v else m.lookup y := by
  induction m with
  | nil =>
    by_cases h : y = x
    · subst h; simp [matchSet]
    · have : (y == x) = false := by simpa using h
      simp [matchSet, List.lookup, h, this]
  | cons p t ih =>
    obtain ⟨z, u⟩ := p
    simp only [matchSet]
    by_cases hz : z = x
    · subst hz
      by_cases h : y = z
      · subst h; simp
      · have : (y == z) = false := by simpa using h
        simp [List.lookup, h, this]
    · simp only [hz, if_false]
      by_cases h : y = z
      · subst h
        have : ¬ y = x := hz
        simp [List.lookup, this]
      · have h' : (y == z) = false := by simpa using h
        simp only [List.lookup, h']
        exact ih

theorem idxGet_idxSet (m : Index) (x : Nat) (v : List Nat) (y : Nat) :
    idxGet (idxSet m x v) y = if y = x then v else idxGet m y := by
  unfold idxGet; rw [lookup_idxSet]; split <;> rfl

/-! ## the index without occurrence limit -/

theorem foldl_push_get (id : Nat) (kmers : List Nat) : ∀ (idx : Index) (x : Nat),
    idxGet (kmers.foldl (fun idx kmer =>
      if (-1 : Int) = -1 ∨ ((idxGet idx kmer).length : Int) ≤ -1 then idxSet idx kmer (idxGet idx kmer ++ [id]) else idx) idx) x
      = idxGet idx x ++ List.replicate (kmers.count x) id := by
  induction kmers with
  | nil => intro idx x; simp
  | cons k t ih =>
    intro idx x
    simp only [List.foldl_cons, true_or, if_true]
    have := ih (idxSet idx k (idxGet idx k ++ [id])) x
    simp only [true_or, if_true] at this
    rw [this, idxGet_idxSet]
    by_cases h : x = k
    · subst h
      simp [List.replicate_succ]
    · have h' : ¬ k = x := fun e => h e.symm
      simp [h, h']

/-- `Push` without limit: the sequence is appended to the list of each of its canonical k-mers, once per
occurrence -/
theorem kmPush_get (m : KmerMap) (idx : Index) (id : Nat) (s : Bytes) (x : Nat) :
    idxGet (kmPush m (-1) idx id s) x = idxGet idx x ++ List.replicate ((normalizedKmerSlice m s).count x) id := by
  unfold kmPush
  exact foldl_push_get id _ idx x

/-- the identifiers listed under `x` by the references numbered from `i` -/
def refOcc (m : KmerMap) (x : Nat) : Nat → List Bytes → List Nat
  | _, [] => []
  | i, s :: t => List.replicate ((normalizedKmerSlice m s).count x) i ++ refOcc m x (i + 1) t

theorem kmPushAll_get (m : KmerMap) (x : Nat) (refs : List Bytes) : ∀ (idx : Index) (i : Nat),
    idxGet (kmPushAll m (-1) idx i refs) x = idxGet idx x ++ refOcc m x i refs := by
  induction refs with
  | nil => intro idx i; simp [kmPushAll, refOcc]
  | cons s t ih =>
    intro idx i
    simp only [kmPushAll, refOcc]
    rw [ih, kmPush_get, List.append_assoc]

theorem count_refOcc (m : KmerMap) (x j : Nat) (refs : List Bytes) : ∀ (i : Nat),
    (refOcc m x i refs).count j =
      if i ≤ j ∧ j < i + refs.length then (normalizedKmerSlice m (refs.getD (j - i) [])).count x else 0 := by
  induction refs with
  | nil => intro i; simp [refOcc]; omega
  | cons s t ih =>
    intro i
    simp only [refOcc, List.count_append, ih (i + 1), List.count_replicate, List.length_cons]
    by_cases h1 : j = i
    · subst h1
      have : ¬ (j + 1 ≤ j ∧ j < j + 1 + t.length) := by omega
      simp [this]
    · have h1' : ¬ (i = j) := fun e => h1 e.symm
      have hb : (i == j) = false := by simpa using h1'
      simp only [hb, Bool.false_eq_true, if_false, Nat.zero_add]
      by_cases h2 : i + 1 ≤ j ∧ j < i + 1 + t.length
      · have h3 : i ≤ j ∧ j < i + (t.length + 1) := by omega
        rw [if_pos h2, if_pos h3]
        have : j - i = (j - (i + 1)) + 1 := by omega
        rw [this]; simp
      · have h3 : ¬ (i ≤ j ∧ j < i + (t.length + 1)) := by omega
        rw [if_neg h2, if_neg h3]

/-! ## the scan of `Query` -/

theorem sortRank_perm (rank : Nat → Nat) (l : List Nat) : (sortRank rank l).Perm l :=
  List.mergeSort_perm l _

theorem sortRank_sorted (rank : Nat → Nat) (l : List Nat) : (sortRank rank l).Pairwise (fun a b => rank a ≤ rank b) := by
  have h := List.pairwise_mergeSort (le := fun a b => decide (rank a ≤ rank b))
    (by intro a b c h1 h2; simp only [decide_eq_true_eq] at *; omega)
    (by intro a b; simp only [Bool.or_eq_true, decide_eq_true_eq]; omega) l
  exact h.imp (by intro a b hab; simpa using hab)

/-- invariant of the scan: `R` is the part already read, most recent first -/
def ScanInv (qid : Nat) (R : List Nat) (st : Scan) : Prop :=
  match R with
  | [] => st.prev = none ∧ st.rep = []
  | p :: R0 => st.prev = some p ∧ st.n = (p :: R0).count p + 1 ∧
      ∀ j, st.rep.lookup j = if j ∈ R0 ∧ j ≠ p ∧ j ≠ qid then some ((p :: R0).count j + 1) else none

theorem scan_inv (qid : Nat) (rank : Nat → Nat) : ∀ (S R : List Nat) (st : Scan), ScanInv qid R st →
    (∀ a ∈ R, ∀ b ∈ S, rank a ≤ rank b) → S.Pairwise (fun a b => rank a ≤ rank b) →
    (∀ a ∈ R, rank a ≤ rank (R.headD 0)) →
    (∀ a b, (a ∈ R ∨ a ∈ S) → (b ∈ R ∨ b ∈ S) → rank a = rank b → a = b) →
    ScanInv qid (S.reverse ++ R) (S.foldl (scanStep qid) st) := by
  intro S
  induction S with
  | nil => intro R st h _ _ _ _; simpa using h
  | cons y S' ih =>
    intro R st hinv h1 h2 h3 hinj
    rw [List.pairwise_cons] at h2
    simp only [List.foldl_cons, List.reverse_cons, List.append_assoc, List.singleton_append]
    apply ih
    · -- the invariant after reading y
      cases R with
      | nil =>
        obtain ⟨hp, hr⟩ := hinv
        simp only [ScanInv, scanStep, hp]
        refine ⟨by simp, by simp, ?_⟩
        intro j; simp [hr]
      | cons p R0 =>
        obtain ⟨hp, hn, hr⟩ := hinv
        by_cases hy : y = p
        · subst hy
          simp only [ScanInv, scanStep, hp, ne_eq, not_true_eq_false, if_false]
          refine ⟨trivial, by rw [hn]; simp, ?_⟩
          intro j
          rw [hr j]
          by_cases hj : j = y
          · subst hj; simp
          · have hj' : ¬ (y = j) := fun e => hj e.symm
            simp [hj, hj']
        · -- a new sequence: it is not in R
          have hnotin : y ∉ p :: R0 := by
            intro hm
            have e1 : rank y ≤ rank p := by simpa using h3 y hm
            have e2 : rank p ≤ rank y := h1 p (by simp) y (by simp)
            exact hy (hinj y p (Or.inl hm) (Or.inl (by simp)) (by omega))
          have hne : ¬ (some p = some y) := by intro e; exact hy (Option.some.inj e).symm
          simp only [ScanInv, scanStep, hp, ne_eq, hne, not_false_eq_true, if_true]
          have hc0 : (p :: R0).count y = 0 := List.count_eq_zero_of_not_mem hnotin
          refine ⟨trivial, ?_, ?_⟩
          · rw [List.count_cons_self, hc0]
          · intro j
            have hcj : ∀ j, j ≠ y → (y :: p :: R0).count j = (p :: R0).count j := by
              intro j hj
              have : ¬ (y = j) := fun e => hj e.symm
              rw [List.count_cons]; simp [this]
            by_cases hpq : p = qid
            · rw [if_neg (fun hh => hh hpq)]
              rw [hr j]
              by_cases hjy : j = y
              · subst hjy
                have : j ∉ R0 := fun hm => hnotin (by simp [hm])
                simp [this]
              · rw [hcj j hjy]
                by_cases hjp : j = p
                · subst hjp; simp [hpq]
                · simp [hjp, hjy]
            · simp only [hpq, not_false_eq_true, if_true, lookup_matchSet]
              by_cases hjp : j = p
              · subst hjp
                have : ¬ (j = y) := fun e => hy e.symm
                rw [hcj j this, hn]
                simp [this, hpq]
              · simp only [hjp, if_false]
                rw [hr j]
                by_cases hjy : j = y
                · subst hjy
                  have : j ∉ R0 := fun hm => hnotin (by simp [hm])
                  simp [this]
                · rw [hcj j hjy]
                  simp [hjp, hjy]
    · intro a ha b hb
      rcases List.mem_cons.mp ha with rfl | ha
      · exact h2.1 b hb
      · exact h1 a ha b (by simp [hb])
    · exact h2.2
    · intro a ha
      simp only [List.headD_cons]
      rcases List.mem_cons.mp ha with rfl | ha
      · exact Nat.le_refl _
      · exact h1 a ha y (by simp)
    · intro a b ha hb
      apply hinj a b
      · rcases ha with ha | ha
        · rcases List.mem_cons.mp ha with rfl | ha
          · right; simp
          · left; exact ha
        · right; simp [ha]
      · rcases hb with hb | hb
        · rcases List.mem_cons.mp hb with rfl | hb
          · right; simp
          · left; exact hb
        · right; simp [hb]

/-- **the result of the scan** of a list sorted by an injective rank: every sequence met other than the query
sequence is reported with its number of occurrences **plus one**; the query sequence never is (patch
`C19-query-self-last`) -/
theorem scan_general (qid : Nat) (rank : Nat → Nat) (L : List Nat) (hs : L.Pairwise (fun a b => rank a ≤ rank b))
    (hinj : ∀ a b, a ∈ L → b ∈ L → rank a = rank b → a = b) (j : Nat) :
    (scanResult qid (L.foldl (scanStep qid) ⟨none, 0, []⟩)).lookup j =
      if j ∈ L ∧ j ≠ qid then some (L.count j + 1) else none := by
  unfold scanResult
  have h := scan_inv qid rank L [] ⟨none, 0, []⟩ ⟨rfl, rfl⟩ (by simp) hs (by simp)
    (by intro a b ha hb; simp at ha hb; exact hinj a b ha hb)
  simp only [List.append_nil] at h
  generalize L.foldl (scanStep qid) ⟨none, 0, []⟩ = st at h
  cases hR : L.reverse with
  | nil =>
    rw [hR] at h
    have : L = [] := by simpa using hR
    subst this
    obtain ⟨h1, h2⟩ := h
    simp [h1, h2]
  | cons p R0 =>
    rw [hR] at h
    obtain ⟨h1, h2, h3⟩ := h
    have hmem : ∀ x, x ∈ L ↔ x ∈ p :: R0 := by intro x; rw [← hR]; simp
    have hcnt : ∀ x, L.count x = (p :: R0).count x := by
      intro x; rw [← hR]; exact (List.reverse_perm L).count_eq x |>.symm
    simp only [h1]
    by_cases hpq : p = qid
    · -- the last run is the query sequence: nothing is recorded for it
      have : ¬ (p ≠ qid) := fun hh => hh hpq
      rw [if_neg this, h3 j, hcnt j]
      by_cases hm : j ∈ R0
      · have hL : j ∈ L := (hmem j).2 (by simp [hm])
        by_cases hj : j = p
        · have : ¬ (j ≠ qid) := by rw [hj, hpq]; simp
          simp [hj, hpq]
        · have hjq : j ≠ qid := by rw [← hpq]; exact hj
          simp [hm, hj, hjq, hL]
      · by_cases hj : j = p
        · have : ¬ (j ≠ qid) := by rw [hj, hpq]; simp
          simp [hm, this]
        · have : j ∉ L := by
            intro h; rcases List.mem_cons.mp ((hmem j).1 h) with h | h
            · exact hj h
            · exact hm h
          simp [hm, this]
    · have hpq' : p ≠ qid := hpq
      rw [if_pos hpq', lookup_matchSet]
      by_cases hj : j = p
      · subst hj
        have : j ∈ L := (hmem j).2 (by simp)
        simp [this, h2, hcnt, hpq]
      · simp only [hj, if_false]
        rw [h3 j, hcnt j]
        by_cases hm : j ∈ R0
        · have hL : j ∈ L := (hmem j).2 (by simp [hm])
          by_cases hjq : j = qid
          · simp [hjq]
          · simp [hm, hj, hjq, hL]
        · have : j ∉ L := by
            intro h; rcases List.mem_cons.mp ((hmem j).1 h) with h | h
            · exact hj h
            · exact hm h
          simp [hm, this]

/-- the query sequence is not in the list: every sequence met is reported -/
theorem scan_fresh (qid : Nat) (rank : Nat → Nat) (L : List Nat) (hs : L.Pairwise (fun a b => rank a ≤ rank b))
    (hinj : ∀ a b, a ∈ L → b ∈ L → rank a = rank b → a = b) (hq : qid ∉ L) (j : Nat) :
    (scanResult qid (L.foldl (scanStep qid) ⟨none, 0, []⟩)).lookup j = if j ∈ L then some (L.count j + 1) else none := by
  rw [scan_general qid rank L hs hinj j]
  by_cases hj : j ∈ L
  · have : j ≠ qid := fun e => hq (e ▸ hj)
    simp [hj, this]
  · simp [hj]

/-! ## `Query` of a sequence that is not in the index, no occurrence limit -/

/-- number of shared canonical k-mer occurrences: for every canonical k-mer of the query (with repetitions),
its number of occurrences among the canonical k-mers of reference `j` -/
def shared (m : KmerMap) (refs : List Bytes) (q : Bytes) (j : Nat) : Nat :=
  ((normalizedKmerSlice m q).map fun x => (normalizedKmerSlice m (refs.getD j [])).count x).sum

theorem newIndex_unlimited (m : KmerMap) (refs : List Bytes) : newIndex m (-1) refs = kmPushAll m (-1) [] 0 refs := by
  unfold newIndex
  have : ¬ ((-1 : Int) ≥ 0) := by decide
  simp only [this, if_false]

theorem idxGet_newIndex (m : KmerMap) (refs : List Bytes) (x : Nat) :
    idxGet (newIndex m (-1) refs) x = refOcc m x 0 refs := by
  rw [newIndex_unlimited, kmPushAll_get]
  simp [idxGet]

theorem count_seqs (m : KmerMap) (refs : List Bytes) (j : Nat) : ∀ (kmers : List Nat),
    (kmers.flatMap fun kmer => idxGet (newIndex m (-1) refs) kmer).count j =
      if j < refs.length then (kmers.map fun x => (normalizedKmerSlice m (refs.getD j [])).count x).sum else 0 := by
  intro kmers
  induction kmers with
  | nil => simp
  | cons k t ih =>
    rw [List.flatMap_cons, List.count_append, ih]
    simp only [idxGet_newIndex, count_refOcc, Nat.zero_le, true_and,
      Nat.zero_add, Nat.sub_zero, List.map_cons, List.sum_cons]
    split <;> rfl

/-- **`Query`, exactly** (query not in the index, no occurrence limit, addresses pairwise distinct): reference `j`
is reported iff it shares a canonical k-mer occurrence with the query, and the number reported is the number of
shared occurrences **plus one** (`n = 1` then `n++` also for the first element). -/
theorem kmQuery_fresh (m : KmerMap) (refs : List Bytes) (q : Bytes) (rank : Nat → Nat) (qid : Nat)
    (hq : refs.length ≤ qid)
    (hinj : ∀ a b, a < refs.length → b < refs.length → rank a = rank b → a = b) (j : Nat) :
    (kmQuery m (newIndex m (-1) refs) rank qid q).lookup j =
      if j < refs.length ∧ 0 < shared m refs q j then some (shared m refs q j + 1) else none := by
  unfold kmQuery
  generalize hseqs : ((normalizedKmerSlice m q).flatMap fun kmer => idxGet (newIndex m (-1) refs) kmer) = seqs
  have hcount : ∀ i, seqs.count i = if i < refs.length then shared m refs q i else 0 := by
    intro i; rw [← hseqs]; exact count_seqs m refs i _
  have hlt : ∀ i, i ∈ seqs → i < refs.length := by
    intro i hi
    have := List.count_pos_iff.2 hi
    rw [hcount i] at this
    by_cases h : i < refs.length
    · exact h
    · simp [h] at this
  have hperm := sortRank_perm rank seqs
  have hmem : ∀ i, i ∈ sortRank rank seqs ↔ i ∈ seqs := fun i => hperm.mem_iff
  have key := scan_fresh qid rank (sortRank rank seqs) (sortRank_sorted rank seqs)
    (fun a b ha hb e => hinj a b (hlt a ((hmem a).1 ha)) (hlt b ((hmem b).1 hb)) e)
    (fun h => by have := hlt qid ((hmem qid).1 h); omega) j
  dsimp only
  rw [key, hperm.count_eq j, hcount j]
  by_cases hj : j < refs.length
  · by_cases hs : 0 < shared m refs q j
    · have : j ∈ sortRank rank seqs := (hmem j).2 (List.count_pos_iff.1 (by rw [hcount j]; simp [hj, hs]))
      simp [hj, hs, this]
    · have : j ∉ sortRank rank seqs := by
        intro h
        have := List.count_pos_iff.2 ((hmem j).1 h)
        rw [hcount j] at this; simp [hj] at this; omega
      simp [hj, hs, this]
  · have : j ∉ sortRank rank seqs := fun h => hj (hlt j ((hmem j).1 h))
    simp [hj, this]

theorem shared_perm (m : KmerMap) (refs : List Bytes) (q q' : Bytes) (j : Nat)
    (h : (normalizedKmerSlice m q').Perm (normalizedKmerSlice m q)) : shared m refs q' j = shared m refs q j := by
  unfold shared
  exact (h.map _).sum_nat

end ObiVerif.Kmer
