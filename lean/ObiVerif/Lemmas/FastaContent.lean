import ObiVerif.Lemmas.FastaGrammar
/-!
# FASTA: the content of every record is what its own text says (property C01)

A *renderer* from abstract source records plus an arbitrary lay-out (end-of-line runs, folding) to
bytes, `faFileText`, whose images are exactly the files of the grammar `WellFormedFasta`
(`faFileText_wellFormed`, `wellFormed_faFileText`), and the exact value `FastaChunkParser` returns on
them (`parseFasta_content`): identifier = title up to the first blank/tab, definition = the rest after
that run of blanks/tabs (trailing blanks kept), sequence = the sequence lines concatenated and
lower-cased.  No record depends on its neighbours or on the lay-out of the end-of-line runs.
-/
namespace ObiVerif.Parse
open ObiVerif.Chunk

/-- identifier of a title line: the bytes before the first blank or tab -/
def titleId (h : Seq) : Seq := h.takeWhile (fun c => !isSep c)
/-- definition of a title line: what follows the first run of blanks/tabs (trailing blanks are kept) -/
def titleDef (h : Seq) : Seq := (h.dropWhile (fun c => !isSep c)).dropWhile isSpace

/-- source text of one FASTA record -/
structure FaSrc where
  /-- the title line after `>` -/
  title : Seq
  /-- the end-of-line run after the title (`\n`, `\r\n`, blank lines …) -/
  eol : Seq
  /-- first sequence line -/
  first : Seq
  /-- further (end-of-line run, sequence line) pairs: a folded sequence -/
  more : List (Seq × Seq)

def moreText (more : List (Seq × Seq)) : Seq := more.flatMap (fun p => p.1 ++ p.2)
def moreSeq (more : List (Seq × Seq)) : Seq := more.flatMap (fun p => p.2)

/-- the record text after its `>` -/
def FaSrc.body (r : FaSrc) : Seq := r.title ++ r.eol ++ r.first ++ moreText r.more
def FaSrc.text (r : FaSrc) : Seq := 62 :: r.body
def FaSrc.OK (r : FaSrc) : Prop :=
  TitleOK r.title ∧ EolRun r.eol ∧ SeqLineOK r.first ∧ ∀ p ∈ r.more, EolRun p.1 ∧ SeqLineOK p.2
/-- the nucleotides of the record: its sequence lines, concatenated -/
def FaSrc.nuc (r : FaSrc) : Seq := r.first ++ moreSeq r.more
/-- **what the record's own text implies** -/
def FaSrc.record (r : FaSrc) : Rec :=
  { id := titleId r.title, defn := titleDef r.title, seq := r.nuc.map lower }

def restText (rest : List (Seq × FaSrc)) : Seq := rest.flatMap (fun p => p.1 ++ p.2.text)

/-- a file: a first record, further records each preceded by a separating end-of-line run, a tail -/
def faFileText (r0 : FaSrc) (rest : List (Seq × FaSrc)) (tail : Seq) : Seq :=
  r0.text ++ restText rest ++ tail

theorem lower_lower (c : UInt8) : lower (lower c) = lower c := by
  unfold lower
  by_cases h : (65 ≤ c && c ≤ 90) = true
  · simp only [h, if_true]
    have h1 : 65 ≤ c.toNat ∧ c.toNat ≤ 90 := by
      simp only [Bool.and_eq_true, decide_eq_true_eq] at h
      exact ⟨UInt8.le_iff_toNat_le.mp h.1, UInt8.le_iff_toNat_le.mp h.2⟩
    have h2 : ¬ ((65 ≤ c + 32 && c + 32 ≤ 90) = true) := by
      simp only [Bool.and_eq_true, decide_eq_true_eq]
      intro ⟨_, hb⟩
      have := UInt8.le_iff_toNat_le.mp hb
      simp [UInt8.toNat_add] at this
      omega
    simp [h2]
  · simp [h]

theorem map_lower_lower (l : Seq) : (l.map lower).map lower = l.map lower := by
  simp [List.map_map, Function.comp_def, lower_lower]

/-- the record the machine builds from already lower-cased bytes -/
theorem mkRec_lower (id d nuc : Seq) : mkRec id d (nuc.map lower) = { id := id, defn := d, seq := nuc.map lower } := by
  unfold mkRec
  rw [map_lower_lower]

/-! ## the title line, tracked exactly -/

theorem noEol_sep_space {c : UInt8} (h : isEol c = false) : isSep c = isSpace c := by
  simp [isSep, h]

theorem faRun_s4_title : ∀ (t : Seq) (id d : Seq) (x : UInt8), NoEol t → isEol x = true →
    faRun (.s4 id d) (t ++ [x]) = .ok (.s5 id (d ++ t), []) := by
  intro t
  induction t with
  | nil =>
    intro id d x _ hx
    simp [faRun, faStep, hx]
  | cons c t ih =>
    intro id d x hne hx
    have hc : isEol c = false := hne c (by simp)
    have ht : NoEol t := fun y hy => hne y (by simp [hy])
    have hstep : faStep (.s4 id d) c = .ok (.s4 id (d ++ [c]), none) := by simp [faStep, hc]
    simp only [List.cons_append, faRun_cons, hstep, ih id (d ++ [c]) x ht hx]
    simp

theorem faRun_s3_title : ∀ (t : Seq) (id : Seq) (x : UInt8), NoEol t → isEol x = true →
    faRun (.s3 id) (t ++ [x]) = .ok (.s5 id (t.dropWhile isSpace), []) := by
  intro t
  induction t with
  | nil =>
    intro id x _ hx
    simp [faRun, faStep, hx]
  | cons c t ih =>
    intro id x hne hx
    have hc : isEol c = false := hne c (by simp)
    have ht : NoEol t := fun y hy => hne y (by simp [hy])
    by_cases hs : isSpace c = true
    · have hstep : faStep (.s3 id) c = .ok (.s3 id, none) := by simp [faStep, hc, hs]
      simp only [List.cons_append, faRun_cons, hstep, ih id x ht hx, List.dropWhile_cons, hs, if_true]
      rfl
    · have hs' : isSpace c = false := by simpa using hs
      have hstep : faStep (.s3 id) c = .ok (.s4 id [c], none) := by simp [faStep, hc, hs']
      simp only [List.cons_append, faRun_cons, hstep, faRun_s4_title t id [c] x ht hx, List.dropWhile_cons, hs']
      simp

theorem faRun_s2_title : ∀ (t : Seq) (idB : Seq) (x : UInt8), NoEol t → isEol x = true →
    faRun (.s2 idB) (t ++ [x]) = .ok (.s5 (idB ++ titleId t) (titleDef t), []) := by
  intro t
  induction t with
  | nil =>
    intro idB x _ hx
    simp [faRun, faStep, hx, titleId, titleDef]
  | cons c t ih =>
    intro idB x hne hx
    have hc : isEol c = false := hne c (by simp)
    have ht : NoEol t := fun y hy => hne y (by simp [hy])
    by_cases hs : isSep c = true
    · have hsp : isSpace c = true := by rw [← noEol_sep_space hc]; exact hs
      have hstep : faStep (.s2 idB) c = .ok (.s3 idB, none) := by simp [faStep, hc, hs]
      simp only [List.cons_append, faRun_cons, hstep, faRun_s3_title t idB x ht hx]
      simp [titleId, titleDef, List.takeWhile_cons, List.dropWhile_cons, hs, hsp]
    · have hs' : isSep c = false := by simpa using hs
      have hstep : faStep (.s2 idB) c = .ok (.s2 (idB ++ [c]), none) := by simp [faStep, hc, hs']
      simp only [List.cons_append, faRun_cons, hstep, ih (idB ++ [c]) x ht hx]
      simp [titleId, titleDef, List.takeWhile_cons, List.dropWhile_cons, hs']

/-- title line and the end-of-line run after it, from state 1 (just after `>`) -/
theorem faRun_title_content {h e : Seq} (hh : TitleOK h) (he : EolRun e) :
    faRun .s1 (h ++ e) = .ok (.s5 (titleId h) (titleDef h), []) := by
  obtain ⟨c, t, rfl, hc, ht⟩ := hh
  obtain ⟨hne, hall⟩ := he
  cases e with
  | nil => exact absurd rfl hne
  | cons x e' =>
    have hx : isEol x = true := hall x (by simp)
    have he' : AllEol e' := fun y hy => hall y (by simp [hy])
    have h1 : faStep .s1 c = .ok (.s2 [c], none) := by simp [faStep, hc]
    have hsplit : c :: t ++ x :: e' = c :: ((t ++ [x]) ++ e') := by simp
    rw [hsplit, faRun_cons, h1]
    simp only
    rw [faRun_append, faRun_s2_title t [c] x ht hx]
    simp only [faRun_s5_eols e' _ _ he']
    simp [titleId, titleDef, List.takeWhile_cons, List.dropWhile_cons, hc]

/-! ## the sequence lines, tracked exactly -/

theorem faRun_seqBytes_content : ∀ (l : Seq) (id d sq : Seq) (pe : Bool), SeqBytes l →
    ∃ pe', faRun (.s6 id d sq pe) l = .ok (.s6 id d (sq ++ l.map lower) pe', []) := by
  intro l
  induction l with
  | nil => intro id d sq pe _; exact ⟨pe, by simp [faRun]⟩
  | cons c t ih =>
    intro id d sq pe hl
    have hc := hl c (by simp)
    have ht : SeqBytes t := fun x hx => hl x (by simp [hx])
    obtain ⟨h62, hsep⟩ := seqByte_facts hc
    have hstep : faStep (.s6 id d sq pe) c = .ok (.s6 id d (sq ++ [lower c]) false, none) := by
      simp [faStep, h62, hsep, hc]
    obtain ⟨pe', hrun⟩ := ih id d (sq ++ [lower c]) false ht
    exact ⟨pe', by simp only [faRun_cons, hstep, hrun]; simp⟩

theorem faRun_firstLine_content {l : Seq} (hl : SeqLineOK l) (id d : Seq) :
    ∃ pe', faRun (.s5 id d) l = .ok (.s6 id d (l.map lower) pe', []) := by
  obtain ⟨hne, hb⟩ := hl
  cases l with
  | nil => exact absurd rfl hne
  | cons c t =>
    have hc := hb c (by simp)
    have ht : SeqBytes t := fun x hx => hb x (by simp [hx])
    obtain ⟨_, hsep⟩ := seqByte_facts hc
    have heol : isEol c = false := by
      cases h : isEol c with
      | false => rfl
      | true => simp [isSep, h] at hsep
    have hstep : faStep (.s5 id d) c = .ok (.s6 id d [lower c] false, none) := by
      simp [faStep, heol, hc]
    obtain ⟨pe', hrun⟩ := faRun_seqBytes_content t id d [lower c] false ht
    exact ⟨pe', by simp only [faRun_cons, hstep, hrun]; simp⟩

theorem faRun_more_content : ∀ (more : List (Seq × Seq)) (id d sq : Seq) (pe : Bool),
    (∀ p ∈ more, EolRun p.1 ∧ SeqLineOK p.2) →
    ∃ pe', faRun (.s6 id d sq pe) (moreText more) = .ok (.s6 id d (sq ++ (moreSeq more).map lower) pe', []) := by
  intro more
  induction more with
  | nil => intro id d sq pe _; exact ⟨pe, by simp [moreText, moreSeq, faRun]⟩
  | cons p t ih =>
    intro id d sq pe h
    obtain ⟨he, hl⟩ := h p (by simp)
    have h1 := faRun_s6_eols_true p.1 id d sq pe he.2 he.1
    obtain ⟨pe1, h2⟩ := faRun_seqBytes_content p.2 id d sq true hl.2
    obtain ⟨pe', h3⟩ := ih id d (sq ++ p.2.map lower) pe1 (fun q hq => h q (by simp [hq]))
    refine ⟨pe', ?_⟩
    have : moreText (p :: t) = p.1 ++ (p.2 ++ moreText t) := by simp [moreText]
    rw [this, faRun_append, h1]
    simp only
    rw [faRun_append, h2]
    simp only [h3]
    simp [moreSeq]

/-- one record from state 1 (after its `>`): the accumulators hold exactly what its text says -/
theorem faRun_body_content {r : FaSrc} (h : r.OK) :
    ∃ pe, faRun .s1 r.body = .ok (.s6 (titleId r.title) (titleDef r.title) (r.nuc.map lower) pe, []) := by
  obtain ⟨ht, he, hf, hm⟩ := h
  obtain ⟨pe1, h2⟩ := faRun_firstLine_content hf (titleId r.title) (titleDef r.title)
  obtain ⟨pe, h3⟩ := faRun_more_content r.more (titleId r.title) (titleDef r.title) (r.first.map lower) pe1 hm
  refine ⟨pe, ?_⟩
  unfold FaSrc.body
  rw [List.append_assoc, List.append_assoc, ← List.append_assoc r.title, faRun_append, faRun_title_content ht he]
  simp only
  rw [faRun_append, h2]
  simp only [h3]
  simp [FaSrc.nuc]

theorem nuc_ne_nil {r : FaSrc} (h : r.OK) : r.nuc.map lower ≠ [] := by
  obtain ⟨_, _, ⟨hne, _⟩, _⟩ := h
  unfold FaSrc.nuc
  cases hf : r.first with
  | nil => exact absurd hf hne
  | cons a t => simp

/-! ## the whole file -/

/-- from inside the last sequence line of a record: the following records -/
theorem faRun_rest_content : ∀ (rest : List (Seq × FaSrc)) (id d sq : Seq) (pe : Bool) (tail : Seq),
    sq ≠ [] → (∀ p ∈ rest, EolRun p.1 ∧ p.2.OK) → AllEol tail →
    ∃ (idL dL nucL : Seq) (peL : Bool) (rs : List Rec),
      faRun (.s6 id d sq pe) (restText rest ++ tail) = .ok (.s6 idL dL (nucL.map lower) peL, rs) ∧
      rs ++ [mkRec idL dL (nucL.map lower)] = mkRec id d sq :: rest.map (fun p => p.2.record) ∨
      (rest = [] ∧ faRun (.s6 id d sq pe) (restText rest ++ tail) = .ok (.s6 id d sq peL, [])) := by
  intro rest
  induction rest with
  | nil =>
    intro id d sq pe tail _ _ ht
    obtain ⟨pe', h⟩ := faRun_s6_eols tail id d sq pe ht
    exact ⟨id, d, [], pe', [], Or.inr ⟨rfl, by simpa [restText] using h⟩⟩
  | cons p t ih =>
    intro id d sq pe tail hsq h ht
    obtain ⟨he, hok⟩ := h p (by simp)
    have h1 := faRun_s6_eols_true p.1 id d sq pe he.2 he.1
    have hsqe : sq.isEmpty = false := by
      cases sq with
      | nil => exact absurd rfl hsq
      | cons a t => rfl
    have hgt : faStep (.s6 id d sq true) 62 = .ok (.s1, some (mkRec id d sq)) := by simp [faStep, hsqe]
    obtain ⟨pe2, h2⟩ := faRun_body_content hok
    have hshape : restText (p :: t) ++ tail = p.1 ++ (62 :: (p.2.body ++ (restText t ++ tail))) := by
      simp [restText, FaSrc.text]
    obtain ⟨idL, dL, nucL, peL, rs, hih⟩ :=
      ih (titleId p.2.title) (titleDef p.2.title) (p.2.nuc.map lower) pe2 tail (nuc_ne_nil hok)
        (fun q hq => h q (by simp [hq])) ht
    rcases hih with ⟨hrun, hrs⟩ | ⟨ht0, hrun⟩
    · refine ⟨idL, dL, nucL, peL, mkRec id d sq :: rs, Or.inl ⟨?_, ?_⟩⟩
      · rw [hshape, faRun_append, h1]
        simp only
        rw [faRun_cons, hgt]
        simp only
        rw [faRun_append, h2]
        simp only [hrun]
        simp
      · simp only [List.cons_append, hrs, List.map_cons]
        simp [FaSrc.record, mkRec_lower]
    · subst ht0
      refine ⟨titleId p.2.title, titleDef p.2.title, p.2.nuc, peL, [mkRec id d sq], Or.inl ⟨?_, ?_⟩⟩
      · rw [hshape, faRun_append, h1]
        simp only
        rw [faRun_cons, hgt]
        simp only
        rw [faRun_append, h2]
        simp only [hrun]
        simp
      · simp [FaSrc.record, mkRec_lower]

/-- **parseFasta_content**: on every rendered file — any lay-out of the end-of-line runs, any folding,
any title bytes but CR/LF — `FastaChunkParser` returns, in order, exactly the records their own texts imply -/
theorem parseFasta_content (r0 : FaSrc) (rest : List (Seq × FaSrc)) (tail : Seq) (h0 : r0.OK)
    (hrest : ∀ p ∈ rest, EolRun p.1 ∧ p.2.OK) (ht : AllEol tail) :
    parseFasta (faFileText r0 rest tail) = .ok (r0.record :: rest.map (fun p => p.2.record)) := by
  obtain ⟨pe, h1⟩ := faRun_body_content h0
  obtain ⟨idL, dL, nucL, peL, rs, hcase⟩ :=
    faRun_rest_content rest (titleId r0.title) (titleDef r0.title) (r0.nuc.map lower) pe tail (nuc_ne_nil h0) hrest ht
  have h0s : faStep .s0 62 = .ok (.s1, none) := by simp [faStep]
  have hshape : faFileText r0 rest tail = 62 :: (r0.body ++ (restText rest ++ tail)) := by
    simp [faFileText, FaSrc.text]
  rcases hcase with ⟨hrun, hrs⟩ | ⟨hr0, hrun⟩
  · have hc : FaComplete (faFileText r0 rest tail) rs idL dL (nucL.map lower) := by
      refine ⟨peL, ?_⟩
      rw [hshape, faRun_cons, h0s]
      simp only
      rw [faRun_append, h1]
      simp only [hrun]
      simp
    rw [parseFasta_complete hc, hrs]
    simp [FaSrc.record, mkRec_lower]
  · subst hr0
    have hc : FaComplete (faFileText r0 [] tail) [] (titleId r0.title) (titleDef r0.title) (r0.nuc.map lower) := by
      refine ⟨peL, ?_⟩
      rw [hshape, faRun_cons, h0s]
      simp only
      rw [faRun_append, h1]
      simp only [hrun]
      simp
    rw [parseFasta_complete hc]
    simp [FaSrc.record, mkRec_lower]

/-! ## the rendered files are exactly the files of the grammar -/

theorem seqLines_of_more : ∀ (more : List (Seq × Seq)) (first : Seq), SeqLineOK first →
    (∀ p ∈ more, EolRun p.1 ∧ SeqLineOK p.2) → SeqLines (first ++ moreText more) := by
  intro more
  induction more with
  | nil => intro first hf _; simpa [moreText] using SeqLines.one hf
  | cons p t ih =>
    intro first hf h
    obtain ⟨he, hl⟩ := h p (by simp)
    have := SeqLines.more hf he (ih p.2 hl (fun q hq => h q (by simp [hq])))
    simpa [moreText, List.append_assoc] using this

theorem fastaRecords_of_src : ∀ (rest : List (Seq × FaSrc)) (r0 : FaSrc), r0.OK →
    (∀ p ∈ rest, EolRun p.1 ∧ p.2.OK) → FastaRecords (r0.text ++ restText rest) := by
  intro rest
  induction rest with
  | nil =>
    intro r0 h0 _
    obtain ⟨ht, he, hf, hm⟩ := h0
    have := FastaRecords.one ht he (seqLines_of_more r0.more r0.first hf hm)
    simpa [restText, FaSrc.text, FaSrc.body, List.append_assoc] using this
  | cons p t ih =>
    intro r0 h0 h
    obtain ⟨ht, he, hf, hm⟩ := h0
    obtain ⟨hsep, hok⟩ := h p (by simp)
    have := FastaRecords.more ht he (seqLines_of_more r0.more r0.first hf hm) hsep
      (ih p.2 hok (fun q hq => h q (by simp [hq])))
    simpa [restText, FaSrc.text, FaSrc.body, List.append_assoc] using this

theorem faFileText_wellFormed (r0 : FaSrc) (rest : List (Seq × FaSrc)) (tail : Seq) (h0 : r0.OK)
    (hrest : ∀ p ∈ rest, EolRun p.1 ∧ p.2.OK) (ht : AllEol tail) :
    WellFormedFasta (faFileText r0 rest tail) :=
  ⟨r0.text ++ restText rest, tail, fastaRecords_of_src rest r0 h0 hrest, ht, rfl⟩

theorem more_of_seqLines {body : Seq} (h : SeqLines body) :
    ∃ first more, SeqLineOK first ∧ (∀ p ∈ more, EolRun p.1 ∧ SeqLineOK p.2) ∧ body = first ++ moreText more := by
  induction h with
  | @one l hl => exact ⟨l, [], hl, by simp, by simp [moreText]⟩
  | @more l e rest hl he _ ih =>
    obtain ⟨f, m, hf, hm, rfl⟩ := ih
    refine ⟨l, (e, f) :: m, hl, ?_, by simp [moreText]⟩
    intro p hp
    simp only [List.mem_cons] at hp
    rcases hp with rfl | hp
    · exact ⟨he, hf⟩
    · exact hm p hp

theorem src_of_fastaRecords {recs : Seq} (h : FastaRecords recs) :
    ∃ (r0 : FaSrc) (rest : List (Seq × FaSrc)), r0.OK ∧ (∀ p ∈ rest, EolRun p.1 ∧ p.2.OK) ∧ recs = r0.text ++ restText rest := by
  induction h with
  | @one h e body hh he hb =>
    obtain ⟨f, m, hf, hm, rfl⟩ := more_of_seqLines hb
    exact ⟨⟨h, e, f, m⟩, [], ⟨hh, he, hf, hm⟩, by simp, by simp [restText, FaSrc.text, FaSrc.body]⟩
  | @more h e body e' rest hh he hb he' _ ih =>
    obtain ⟨f, m, hf, hm, rfl⟩ := more_of_seqLines hb
    obtain ⟨r1, rest1, h1, hr1, rfl⟩ := ih
    refine ⟨⟨h, e, f, m⟩, (e', r1) :: rest1, ⟨hh, he, hf, hm⟩, ?_, by simp [restText, FaSrc.text, FaSrc.body]⟩
    intro p hp
    simp only [List.mem_cons] at hp
    rcases hp with rfl | hp
    · exact ⟨he', h1⟩
    · exact hr1 p hp

/-- every file of the grammar is a rendered file -/
theorem wellFormed_faFileText {file : Seq} (h : WellFormedFasta file) :
    ∃ (r0 : FaSrc) (rest : List (Seq × FaSrc)) (tail : Seq), r0.OK ∧ (∀ p ∈ rest, EolRun p.1 ∧ p.2.OK) ∧ AllEol tail ∧
      file = faFileText r0 rest tail := by
  obtain ⟨recs, tail, hr, htail, rfl⟩ := h
  obtain ⟨r0, rest, h0, hrest, rfl⟩ := src_of_fastaRecords hr
  exact ⟨r0, rest, tail, h0, hrest, htail, rfl⟩

end ObiVerif.Parse
