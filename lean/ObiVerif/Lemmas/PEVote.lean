import ObiVerif.Model.PEAlign
/-!
# Lemmas for C08: the 4-mer diagonal vote (`FastShiftFourMer`)

* the per-shift counts (`shiftCounts`, a Go `map[int]int`) have pairwise distinct keys, every count is
  at least 1 and at most the number of 4-mers of either read on that diagonal;
* the selection loop returns **the** entry with the best score, the smallest shift among the entries
  with that score (`voteFold_spec`); the order `(score, −shift)` is total on entries with distinct
  shifts, hence the result does not depend on the order in which the map is iterated (`voteFold_perm`);
* the result is always in the range `PEAlign` relies on (`fastShift_inRange`).
-/
namespace ObiVerif.PEAlign

/-! ## the association list of counts -/

/-- the count stored for shift `x` (0 when absent) -/
def cntOf : List (Int × Nat) → Int → Nat
  | [], _ => 0
  | (k, c) :: t, x => if k = x then c else cntOf t x

theorem cntOf_bump (sh : Int) : ∀ (acc : List (Int × Nat)) (x : Int),
    cntOf (bump sh acc) x = if x = sh then cntOf acc x + 1 else cntOf acc x
  | [], x => by
    by_cases h : x = sh
    · subst h; simp [bump, cntOf]
    · have h' : ¬ sh = x := fun e => h e.symm
      simp [bump, cntOf, h, h']
  | (k, c) :: t, x => by
    unfold bump
    by_cases hk : k = sh
    · subst hk
      by_cases hx : x = k
      · subst hx; simp [cntOf]
      · have hx' : ¬ k = x := fun e => hx e.symm
        simp [cntOf, hx, hx']
    · simp only [hk, if_false, cntOf]
      by_cases hkx : k = x
      · have : ¬ x = sh := by intro e; exact hk (hkx.trans e)
        simp [hkx, this]
      · simp only [hkx, if_false]
        exact cntOf_bump sh t x

theorem mem_keys_bump (sh : Int) : ∀ (acc : List (Int × Nat)) (x : Int),
    x ∈ (bump sh acc).map Prod.fst → x = sh ∨ x ∈ acc.map Prod.fst
  | [], x, h => by simp [bump] at h; exact Or.inl h
  | (k, c) :: t, x, h => by
    unfold bump at h
    by_cases hk : k = sh
    · simp only [hk, if_true, List.map_cons, List.mem_cons] at h ⊢
      rcases h with h | h
      · exact Or.inl h
      · exact Or.inr (Or.inr h)
    · simp only [hk, if_false, List.map_cons, List.mem_cons] at h ⊢
      rcases h with h | h
      · exact Or.inr (Or.inl h)
      · rcases mem_keys_bump sh t x h with h | h
        · exact Or.inl h
        · exact Or.inr (Or.inr h)

/-- distinct keys, counts ≥ 1 -/
def WellCounted (acc : List (Int × Nat)) : Prop := (acc.map Prod.fst).Nodup ∧ ∀ e ∈ acc, 1 ≤ e.2

theorem wellCounted_bump (sh : Int) : ∀ (acc : List (Int × Nat)), WellCounted acc → WellCounted (bump sh acc)
  | [], _ => by simp [bump, WellCounted]
  | (k, c) :: t, ⟨hn, hp⟩ => by
    simp only [List.map_cons, List.nodup_cons] at hn
    unfold bump
    by_cases hk : k = sh
    · simp only [hk, if_true]
      refine ⟨by simp only [List.map_cons, List.nodup_cons]; exact ⟨hk ▸ hn.1, hn.2⟩, ?_⟩
      intro e he
      simp only [List.mem_cons] at he
      rcases he with rfl | he
      · simp
      · exact hp e (List.mem_cons_of_mem _ he)
    · simp only [hk, if_false]
      have ih := wellCounted_bump sh t ⟨hn.2, fun e he => hp e (List.mem_cons_of_mem _ he)⟩
      refine ⟨?_, ?_⟩
      · simp only [List.map_cons, List.nodup_cons]
        refine ⟨?_, ih.1⟩
        intro hmem
        rcases mem_keys_bump sh t k hmem with h | h
        · exact hk h
        · exact hn.1 h
      · intro e he
        simp only [List.mem_cons] at he
        rcases he with rfl | he
        · exact hp _ (List.mem_cons_self)
        · exact ih.2 e he

theorem cntOf_of_mem : ∀ (acc : List (Int × Nat)), (acc.map Prod.fst).Nodup → ∀ e ∈ acc, cntOf acc e.1 = e.2
  | [], _, e, he => by simp at he
  | (k, c) :: t, hn, e, he => by
    simp only [List.map_cons, List.nodup_cons] at hn
    simp only [List.mem_cons] at he
    rcases he with rfl | he
    · simp [cntOf]
    · have hne : ¬ k = e.1 := by
        intro h
        exact hn.1 (h ▸ List.mem_map_of_mem (f := Prod.fst) he)
      simp only [cntOf, hne, if_false]
      exact cntOf_of_mem t hn.2 e he

theorem eq_of_key_eq : ∀ (l : List (Int × Nat)), (l.map Prod.fst).Nodup → ∀ e ∈ l, ∀ e' ∈ l, e.1 = e'.1 → e = e' := by
  intro l hn e he e' he' hk
  have h1 := cntOf_of_mem l hn e he
  have h2 := cntOf_of_mem l hn e' he'
  rw [hk] at h1
  exact Prod.ext hk (by rw [← h1, ← h2])

/-! ## the double loop that fills the map -/

/-- number of positions `pb < nb` of the second read whose diagonal partner `pb + k` is a position of the first -/
def diagUb (na nb : Nat) (k : Int) : Int := max 0 (min (nb : Int) ((na : Int) - k) - max 0 (-k))

/-- bound inside the inner loop: the positions `pa < n` of the first read have been compared with `pb = nb` -/
def CountBound (na nb n : Nat) (acc : List (Int × Nat)) : Prop :=
  ∀ k : Int, (cntOf acc k : Int) ≤ diagUb na nb k + (if 0 ≤ (nb : Int) + k ∧ (nb : Int) + k < (n : Int) then 1 else 0)

theorem inner_inv (na nb : Nat) (x : UInt8) : ∀ (l : List UInt8) (n : Nat) (acc : List (Int × Nat)),
    WellCounted acc → CountBound na nb n acc →
    WellCounted ((enumFrom n l).foldl (fun acc (pa : Nat × UInt8) =>
        if pa.2 = x then bump ((pa.1 : Int) - (nb : Int)) acc else acc) acc) ∧
    CountBound na nb (n + l.length) ((enumFrom n l).foldl (fun acc (pa : Nat × UInt8) =>
        if pa.2 = x then bump ((pa.1 : Int) - (nb : Int)) acc else acc) acc)
  | [], n, acc, hw, hb => by simpa [enumFrom] using ⟨hw, hb⟩
  | y :: t, n, acc, hw, hb => by
    simp only [enumFrom, List.foldl_cons, List.length_cons]
    have e : n + (t.length + 1) = n + 1 + t.length := by omega
    rw [e]
    by_cases hy : y = x
    · simp only [hy, if_true]
      apply inner_inv na nb x t (n + 1) _ (wellCounted_bump _ _ hw)
      intro k
      have := hb k
      rw [cntOf_bump]
      by_cases hk : k = (n : Int) - (nb : Int)
      · simp only [hk, if_true, Int.natCast_add, Int.natCast_one] at this ⊢
        split at this <;> split <;> omega
      · simp only [hk, if_false, Int.natCast_add, Int.natCast_one]
        split at this <;> split <;> omega
    · simp only [hy, if_false]
      apply inner_inv na nb x t (n + 1) _ hw
      intro k
      have := hb k
      simp only [Int.natCast_add, Int.natCast_one]
      split at this <;> split <;> omega

theorem outer_inv (ka : List UInt8) : ∀ (l : List UInt8) (nb : Nat) (acc : List (Int × Nat)),
    WellCounted acc → CountBound ka.length nb 0 acc →
    WellCounted ((enumFrom nb l).foldl (fun acc (pb : Nat × UInt8) =>
      (enumFrom 0 ka).foldl (fun acc (pa : Nat × UInt8) =>
        if pa.2 = pb.2 then bump ((pa.1 : Int) - (pb.1 : Int)) acc else acc) acc) acc) ∧
    CountBound ka.length (nb + l.length) 0 ((enumFrom nb l).foldl (fun acc (pb : Nat × UInt8) =>
      (enumFrom 0 ka).foldl (fun acc (pa : Nat × UInt8) =>
        if pa.2 = pb.2 then bump ((pa.1 : Int) - (pb.1 : Int)) acc else acc) acc) acc)
  | [], nb, acc, hw, hb => by simpa [enumFrom] using ⟨hw, hb⟩
  | y :: t, nb, acc, hw, hb => by
    simp only [enumFrom, List.foldl_cons, List.length_cons]
    have e : nb + (t.length + 1) = nb + 1 + t.length := by omega
    rw [e]
    obtain ⟨hw1, hb1⟩ := inner_inv ka.length nb y ka 0 acc hw hb
    apply outer_inv ka t (nb + 1) _ hw1
    intro k
    have := hb1 k
    unfold diagUb at this ⊢
    simp only [Nat.zero_add, Int.natCast_add, Int.natCast_one] at this ⊢
    split at this <;> split <;> omega

theorem shiftCounts_inv (ka kb : List UInt8) :
    WellCounted (shiftCounts ka kb) ∧ CountBound ka.length kb.length 0 (shiftCounts ka kb) := by
  have := outer_inv ka kb 0 [] (by simp [WellCounted]) (by
    intro k; simp only [cntOf]; unfold diagUb; split <;> omega)
  simpa [shiftCounts] using this

/-- what is known about every entry of the map when the selection loop starts -/
theorem shiftCounts_entry (ka kb : List UInt8) (e : Int × Nat) (he : e ∈ shiftCounts ka kb) :
    1 ≤ e.2 ∧ (e.2 : Int) ≤ diagUb ka.length kb.length e.1 := by
  obtain ⟨hw, hb⟩ := shiftCounts_inv ka kb
  refine ⟨hw.2 e he, ?_⟩
  have := hb e.1
  rw [cntOf_of_mem _ hw.1 e he] at this
  split at this <;> omega

theorem shiftCounts_keys_nodup (ka kb : List UInt8) : ((shiftCounts ka kb).map Prod.fst).Nodup :=
  (shiftCounts_inv ka kb).1.1

/-- keys are diagonals that cross both reads; a count never exceeds the number of 4-mers of either read -/
theorem shiftCounts_range (ka kb : List UInt8) (e : Int × Nat) (he : e ∈ shiftCounts ka kb) :
    1 ≤ e.2 ∧ -(kb.length : Int) < e.1 ∧ e.1 < (ka.length : Int) ∧
    (e.2 : Int) ≤ (ka.length : Int) ∧ (e.2 : Int) ≤ (kb.length : Int) ∧
    (e.1 > 0 → 1 ≤ (ka.length : Int) - e.1) ∧ (e.1 < 0 → 1 ≤ (kb.length : Int) + e.1) := by
  obtain ⟨h1, h2⟩ := shiftCounts_entry ka kb e he
  unfold diagUb at h2
  omega

/-! ## `Encode4mer` -/

theorem encodeRest_length : ∀ (c : UInt8) (l : Bytes), (encodeRest c l).length = l.length
  | _, [] => rfl
  | c, b :: t => by simp [encodeRest, encodeRest_length _ t]

theorem encode4mer_length (a : Bytes) : (encode4mer a).length = a.length - 3 := by
  match a with
  | [] => rfl
  | [_] => rfl
  | [_, _] => rfl
  | [_, _, _] => rfl
  | _ :: _ :: _ :: _ :: rest => simp [encode4mer, encodeRest_length]

/-! ## the selection loop -/

/-- the candidate an entry stands for -/
def mkVote (rel : Bool) (la lb : Nat) (e : Int × Nat) : Vote := ⟨e.1, e.2, e.2, voteDen rel la lb e.1⟩

/-- `r` is at least as good as `v`: strictly higher score, or equal score and shift not larger -/
def VGe (r v : Vote) : Prop :=
  v.num * r.den < r.num * v.den ∨ (v.num * r.den = r.num * v.den ∧ r.shift ≤ v.shift)

theorem cross_le_trans (n1 n2 n3 d1 d2 d3 : Int) (_h1 : 0 < d1) (h2 : 0 < d2) (h3 : 0 < d3)
    (a : n2 * d1 ≤ n1 * d2) (b : n3 * d2 ≤ n2 * d3) : n3 * d1 ≤ n1 * d3 := by
  have A := Int.mul_le_mul_of_nonneg_right a (Int.le_of_lt h3)
  have B := Int.mul_le_mul_of_nonneg_right b (Int.le_of_lt _h1)
  have e1 : n3 * d2 * d1 = n3 * d1 * d2 := Int.mul_right_comm _ _ _
  have e2 : n2 * d3 * d1 = n2 * d1 * d3 := Int.mul_right_comm _ _ _
  have e3 : n1 * d2 * d3 = n1 * d3 * d2 := Int.mul_right_comm _ _ _
  rw [e1, e2] at B
  rw [e3] at A
  exact Int.le_of_mul_le_mul_right (Int.le_trans B A) h2

theorem cross_lt_of_lt_of_le (n1 n2 n3 d1 d2 d3 : Int) (h1 : 0 < d1) (h2 : 0 < d2) (h3 : 0 < d3)
    (a : n2 * d1 < n1 * d2) (b : n3 * d2 ≤ n2 * d3) : n3 * d1 < n1 * d3 := by
  have A := Int.mul_lt_mul_of_pos_right a h3
  have B := Int.mul_le_mul_of_nonneg_right b (Int.le_of_lt h1)
  have e1 : n3 * d2 * d1 = n3 * d1 * d2 := Int.mul_right_comm _ _ _
  have e2 : n2 * d3 * d1 = n2 * d1 * d3 := Int.mul_right_comm _ _ _
  have e3 : n1 * d2 * d3 = n1 * d3 * d2 := Int.mul_right_comm _ _ _
  rw [e1, e2] at B
  rw [e3] at A
  exact Int.lt_of_mul_lt_mul_right (Int.lt_of_le_of_lt B A) (Int.le_of_lt h2)

theorem cross_lt_of_le_of_lt (n1 n2 n3 d1 d2 d3 : Int) (h1 : 0 < d1) (h2 : 0 < d2) (h3 : 0 < d3)
    (a : n2 * d1 ≤ n1 * d2) (b : n3 * d2 < n2 * d3) : n3 * d1 < n1 * d3 := by
  have A := Int.mul_le_mul_of_nonneg_right a (Int.le_of_lt h3)
  have B := Int.mul_lt_mul_of_pos_right b h1
  have e1 : n3 * d2 * d1 = n3 * d1 * d2 := Int.mul_right_comm _ _ _
  have e2 : n2 * d3 * d1 = n2 * d1 * d3 := Int.mul_right_comm _ _ _
  have e3 : n1 * d2 * d3 = n1 * d3 * d2 := Int.mul_right_comm _ _ _
  rw [e1, e2] at B
  rw [e3] at A
  exact Int.lt_of_mul_lt_mul_right (Int.lt_of_lt_of_le B A) (Int.le_of_lt h2)

theorem VGe.refl (v : Vote) : VGe v v := Or.inr ⟨rfl, Int.le_refl _⟩

theorem VGe.trans {r v x : Vote} (hr : 0 < r.den) (hv : 0 < v.den) (hx : 0 < x.den) (a : VGe r v) (b : VGe v x) :
    VGe r x := by
  unfold VGe at *
  rcases a with a | ⟨a1, a2⟩
  · left
    rcases b with b | ⟨b1, _⟩
    · exact cross_lt_of_lt_of_le _ _ _ _ _ _ hr hv hx a (Int.le_of_lt b)
    · exact cross_lt_of_lt_of_le _ _ _ _ _ _ hr hv hx a (Int.le_of_eq b1)
  · rcases b with b | ⟨b1, b2⟩
    · left
      exact cross_lt_of_le_of_lt _ _ _ _ _ _ hr hv hx (Int.le_of_eq a1) b
    · right
      refine ⟨?_, Int.le_trans a2 b2⟩
      have l1 := cross_le_trans _ _ _ _ _ _ hr hv hx (Int.le_of_eq a1) (Int.le_of_eq b1)
      have l2 := cross_le_trans _ _ _ _ _ _ hx hv hr (Int.le_of_eq b1.symm) (Int.le_of_eq a1.symm)
      omega

/-- one iteration of `for shift, count := range *shifts` -/
theorem voteStep_ge (rel : Bool) (la lb : Nat) (cur : Vote) (e : Int × Nat) :
    (voteStep rel la lb cur e = cur ∨ voteStep rel la lb cur e = mkVote rel la lb e) ∧
    VGe (voteStep rel la lb cur e) cur ∧ VGe (voteStep rel la lb cur e) (mkVote rel la lb e) := by
  unfold voteStep
  by_cases h1 : (e.2 : Int) * cur.den > cur.num * voteDen rel la lb e.1
  · simp only [h1, if_true]
    refine ⟨Or.inr rfl, Or.inl ?_, VGe.refl _⟩
    exact h1
  · simp only [h1, if_false]
    by_cases h2 : (e.2 : Int) * cur.den = cur.num * voteDen rel la lb e.1 ∧ e.1 < cur.shift
    · simp only [h2, and_self, if_true]
      refine ⟨Or.inr rfl, Or.inr ⟨?_, ?_⟩, VGe.refl _⟩
      · exact h2.1.symm
      · exact Int.le_of_lt h2.2
    · simp only [h2, if_false]
      refine ⟨Or.inl trivial, VGe.refl _, ?_⟩
      unfold VGe mkVote
      simp only
      by_cases h3 : (e.2 : Int) * cur.den = cur.num * voteDen rel la lb e.1
      · right
        refine ⟨h3, ?_⟩
        have : ¬ e.1 < cur.shift := fun h => h2 ⟨h3, h⟩
        omega
      · left; omega

theorem voteFold_inv (rel : Bool) (la lb : Nat) : ∀ (l : List (Int × Nat)) (v : Vote), 0 < v.den →
    (∀ e ∈ l, 0 < voteDen rel la lb e.1) →
    0 < (l.foldl (voteStep rel la lb) v).den ∧
    (l.foldl (voteStep rel la lb) v = v ∨ ∃ e ∈ l, l.foldl (voteStep rel la lb) v = mkVote rel la lb e) ∧
    (∀ e ∈ l, VGe (l.foldl (voteStep rel la lb) v) (mkVote rel la lb e)) ∧
    (∀ x : Vote, 0 < x.den → VGe v x → VGe (l.foldl (voteStep rel la lb) v) x)
  | [], v, hv, _ => by
    simp only [List.foldl_nil]
    exact ⟨hv, Or.inl trivial, fun _ h => by simp at h, fun _ _ h => h⟩
  | e :: t, v, hv, hd => by
    simp only [List.foldl_cons]
    obtain ⟨hc, g1, g2⟩ := voteStep_ge rel la lb v e
    have hde := hd e List.mem_cons_self
    have hv1 : 0 < (voteStep rel la lb v e).den := by
      rcases hc with h | h
      · rw [h]; exact hv
      · rw [h]; exact hde
    obtain ⟨i1, i2, i3, i4⟩ := voteFold_inv rel la lb t (voteStep rel la lb v e) hv1
      (fun e' he' => hd e' (List.mem_cons_of_mem _ he'))
    refine ⟨i1, ?_, ?_, ?_⟩
    · rcases i2 with h | ⟨e', he', h⟩
      · rcases hc with h' | h'
        · left; rw [h, h']
        · right; exact ⟨e, List.mem_cons_self, by rw [h, h']⟩
      · right; exact ⟨e', List.mem_cons_of_mem _ he', h⟩
    · intro e' he'
      simp only [List.mem_cons] at he'
      rcases he' with rfl | he'
      · exact i4 _ hde g2
      · exact i3 e' he'
    · intro x hx hvx
      exact i4 x hx (VGe.trans hv1 hv hx g1 hvx)

/-- the start value of the loop: `maxshift = 0, maxcount = 0, maxscore = -1.0` -/
def vote0 : Vote := ⟨0, 0, -1, 1⟩

/-- **what the selection loop returns**: nothing seen → the start value; otherwise an entry of the map,
no entry has a strictly higher score, and among the entries with the same score none has a smaller shift -/
theorem voteFold_spec (rel : Bool) (la lb : Nat) (l : List (Int × Nat))
    (hpos : ∀ e ∈ l, 1 ≤ e.2 ∧ 0 < voteDen rel la lb e.1) :
    (l = [] → l.foldl (voteStep rel la lb) vote0 = vote0) ∧
    (l ≠ [] → ∃ e ∈ l, l.foldl (voteStep rel la lb) vote0 = mkVote rel la lb e ∧
      ∀ e' ∈ l, (e'.2 : Int) * voteDen rel la lb e.1 ≤ (e.2 : Int) * voteDen rel la lb e'.1 ∧
        ((e'.2 : Int) * voteDen rel la lb e.1 = (e.2 : Int) * voteDen rel la lb e'.1 → e.1 ≤ e'.1)) := by
  refine ⟨fun h => by rw [h]; rfl, ?_⟩
  intro hne
  match l, hne, hpos with
  | e0 :: t, _, hpos =>
    have h0 := hpos e0 List.mem_cons_self
    have hfirst : voteStep rel la lb vote0 e0 = mkVote rel la lb e0 := by
      unfold voteStep vote0 mkVote
      have : (e0.2 : Int) * 1 > -1 * voteDen rel la lb e0.1 := by omega
      simp only [this, if_true]
    obtain ⟨_, i2, i3, i4⟩ := voteFold_inv rel la lb t (mkVote rel la lb e0) h0.2
      (fun e he => (hpos e (List.mem_cons_of_mem _ he)).2)
    simp only [List.foldl_cons, hfirst]
    have main : ∃ e ∈ e0 :: t, t.foldl (voteStep rel la lb) (mkVote rel la lb e0) = mkVote rel la lb e := by
      rcases i2 with h | ⟨e, he, h⟩
      · exact ⟨e0, List.mem_cons_self, h⟩
      · exact ⟨e, List.mem_cons_of_mem _ he, h⟩
    obtain ⟨e, he, hr⟩ := main
    refine ⟨e, he, hr, ?_⟩
    intro e' he'
    have hge : VGe (mkVote rel la lb e) (mkVote rel la lb e') := by
      rw [← hr]
      simp only [List.mem_cons] at he'
      rcases he' with rfl | he'
      · exact i4 _ h0.2 (VGe.refl _)
      · exact i3 e' he'
    unfold VGe mkVote at hge
    simp only at hge
    omega

/-- **independence of the map iteration order**: two enumerations of the same map (distinct shifts) give
the same result -/
theorem voteFold_perm (rel : Bool) (la lb : Nat) (l l' : List (Int × Nat)) (hp : l.Perm l')
    (hnd : (l.map Prod.fst).Nodup) (hpos : ∀ e ∈ l, 1 ≤ e.2 ∧ 0 < voteDen rel la lb e.1) :
    l.foldl (voteStep rel la lb) vote0 = l'.foldl (voteStep rel la lb) vote0 := by
  have hpos' : ∀ e ∈ l', 1 ≤ e.2 ∧ 0 < voteDen rel la lb e.1 := fun e he => hpos e (hp.mem_iff.mpr he)
  obtain ⟨a1, a2⟩ := voteFold_spec rel la lb l hpos
  obtain ⟨b1, b2⟩ := voteFold_spec rel la lb l' hpos'
  by_cases hl : l = []
  · have hl' : l' = [] := by subst hl; exact hp.symm.eq_nil
    rw [a1 hl, b1 hl']
  · have hl' : l' ≠ [] := by
      intro h; subst h; exact hl hp.eq_nil
    obtain ⟨e, he, hr, hd⟩ := a2 hl
    obtain ⟨e', he', hr', hd'⟩ := b2 hl'
    have x1 := hd e' (hp.mem_iff.mpr he')
    have x2 := hd' e (hp.mem_iff.mp he)
    have hk : e.1 = e'.1 := by omega
    have := eq_of_key_eq l hnd e he e' (hp.mem_iff.mpr he') hk
    rw [hr, hr', this]

/-! ## the vote on two reads -/

theorem voteDen_pos_of_key (rel : Bool) (a b : Bytes) (e : Int × Nat)
    (he : e ∈ shiftCounts (encode4mer a) (encode4mer b)) : 0 < voteDen rel a.length b.length e.1 := by
  have h := shiftCounts_range _ _ e he
  rw [encode4mer_length, encode4mer_length] at h
  unfold voteDen
  cases rel
  · simp
  · simp only [if_true]
    split
    · omega
    · split <;> omega

theorem fastShift_hyps (rel : Bool) (a b : Bytes) :
    ∀ e ∈ shiftCounts (encode4mer a) (encode4mer b), 1 ≤ e.2 ∧ 0 < voteDen rel a.length b.length e.1 :=
  fun e he => ⟨(shiftCounts_range _ _ e he).1, voteDen_pos_of_key rel a b e he⟩

/-- whatever order the Go runtime enumerates the map in, `FastShiftFourMer` returns the same triple -/
theorem fastShift_order_independent (rel : Bool) (a b : Bytes) (l' : List (Int × Nat))
    (h : (shiftCounts (encode4mer a) (encode4mer b)).Perm l') :
    l'.foldl (voteStep rel a.length b.length) vote0 = fastShift rel a b := by
  unfold fastShift
  exact (voteFold_perm rel a.length b.length _ l' h (shiftCounts_keys_nodup _ _) (fastShift_hyps rel a b)).symm

/-- the reads share no 4-mer (in particular: a read shorter than 4 bases): `(0, 0, -1.0)` -/
theorem fastShift_none (rel : Bool) (a b : Bytes) (h : shiftCounts (encode4mer a) (encode4mer b) = []) :
    fastShift rel a b = vote0 := by
  unfold fastShift; rw [h]; rfl

/-- **the vote is in range**: the diagonal crosses both reads and a diagonal with `count` matching 4-mers
is at least `count + 3` long in both reads -/
theorem fastShift_inRange (rel : Bool) (a b : Bytes) (ha : 0 < a.length) (hb : 0 < b.length) :
    -(b.length : Int) < (fastShift rel a b).shift ∧ (fastShift rel a b).shift < (a.length : Int) ∧
    0 ≤ (fastShift rel a b).count ∧
    (1 ≤ (fastShift rel a b).count →
      (fastShift rel a b).count + 3 ≤ (a.length : Int) ∧ (fastShift rel a b).count + 3 ≤ (b.length : Int)) := by
  obtain ⟨s1, s2⟩ := voteFold_spec rel a.length b.length _ (fastShift_hyps rel a b)
  by_cases hl : shiftCounts (encode4mer a) (encode4mer b) = []
  · have : fastShift rel a b = vote0 := s1 hl
    rw [this]
    simp only [vote0]
    omega
  · obtain ⟨e, he, hr, _⟩ := s2 hl
    have : fastShift rel a b = mkVote rel a.length b.length e := hr
    rw [this]
    have h := shiftCounts_range _ _ e he
    rw [encode4mer_length, encode4mer_length] at h
    simp only [mkVote]
    omega

end ObiVerif.PEAlign
