import ObiVerif.Lemmas.Header
/-! helper lemmas for property C02: several FASTQ records in one chunk through the 12-state machine -/
namespace ObiVerif.Header

/-! ## FASTQ: any number of records in one chunk -/

/-- the text of one FASTQ record after its leading `@` (as `_formatFastq` prints it; `Q` = the quality line) -/
def fqBody (id info seq Q : Bytes) : Bytes := id ++ 32 :: (info ++ 10 :: (seq ++ 10 :: 43 :: 10 :: (Q ++ [10])))

theorem formatFastq_eq (so : UInt8) (id info seq : Bytes) (q : Option Bytes) :
    formatFastq so id info seq q = 64 :: fqBody id info seq ((qualities seq q).map (writeQ so)) := by
  simp [formatFastq, fqBody]

/-- one written record drives the FASTQ machine from state 1 to state 11 with the record appended -/
theorem fq_record (si : UInt8) (id info seq Q rest : Bytes)
    (hid0 : id ≠ []) (hid : ∀ c ∈ id, isSep c = false)
    (hinfo : ∀ c ∈ info, isEol c = false) (hhead : ∀ c, info.head? = some c → isSpace c = false)
    (hseq0 : seq ≠ []) (hseq : ∀ c ∈ seq, seqOK c = true)
    (hQl : Q.length = seq.length) (hqe : ∀ c ∈ Q, isEol c = false)
    (idB dB sB qB ident defn : Bytes) (prev : UInt8) (out : List Rec) :
    ∃ st', List.foldlM (fqStep si true) ⟨1, idB, dB, sB, qB, ident, defn, prev, out⟩ (fqBody id info seq Q ++ rest)
        = List.foldlM (fqStep si true) st' rest
      ∧ st'.state = 11 ∧ st'.out = out ++ [⟨id, info, seq, some (Q.map (readQ si))⟩] := by
  cases id with
  | nil => exact absurd rfl hid0
  | cons i0 id' =>
  cases seq with
  | nil => exact absurd rfl hseq0
  | cons s0 seq' =>
  cases Q with
  | nil => simp at hQl
  | cons q0 Q' =>
  have hi0 := hid i0 (by simp)
  obtain ⟨hs0sep, hs0low⟩ := seqOK_spec s0 (hseq s0 (by simp))
  obtain ⟨_, hs0e⟩ := isSep_false hs0sep
  have e32s : isSep 32 = true := by decide
  have e32e : isEol 32 = false := by decide
  have e10 : isEol 10 = true := by decide
  have e43 : isEol 43 = false := by decide
  have hq0 := hqe q0 (by simp)
  have htext : fqBody (i0 :: id') info (s0 :: seq') (q0 :: Q') ++ rest
      = i0 :: (id' ++ 32 :: (info ++ 10 :: s0 :: (seq' ++ 10 :: 43 :: 10 :: q0 :: (Q' ++ 10 :: rest)))) := by
    simp [fqBody]
  rw [htext]
  rw [foldlM_cons_ok (fqStep si true) _ ⟨2, [i0], dB, sB, qB, ident, defn, i0, out⟩ _ _ (by simp [fqStep, hi0])]
  obtain ⟨p1, h1⟩ := fq_id si id' (32 :: (info ++ 10 :: s0 :: (seq' ++ 10 :: 43 :: 10 :: q0 :: (Q' ++ 10 :: rest))))
    (fun c h => hid c (List.mem_cons_of_mem _ h)) [i0] dB sB qB ident defn i0 out
  rw [h1]
  rw [foldlM_cons_ok (fqStep si true) _ ⟨3, [i0] ++ id', dB, sB, qB, i0 :: id', defn, 32, out⟩ _ _
    (by simp [fqStep, e32s, e32e])]
  obtain ⟨p2, d2, h2⟩ := fq_title si info (s0 :: (seq' ++ 10 :: 43 :: 10 :: q0 :: (Q' ++ 10 :: rest))) hinfo hhead
    ([i0] ++ id') dB sB qB (i0 :: id') defn 32 out
  rw [h2]
  rw [foldlM_cons_ok (fqStep si true) _ ⟨6, [i0] ++ id', d2, [s0], qB, i0 :: id', info, s0, out⟩ _ _
    (by simp [fqStep, hs0e, hs0low])]
  obtain ⟨p3, h3⟩ := fq_seq si seq' (10 :: 43 :: 10 :: q0 :: (Q' ++ 10 :: rest))
    (fun c h => hseq c (List.mem_cons_of_mem _ h)) ([i0] ++ id') d2 [s0] qB (i0 :: id') info s0 out
  rw [h3]
  rw [foldlM_cons_ok (fqStep si true) _
    ⟨7, [i0] ++ id', d2, [s0] ++ seq', qB, i0 :: id', info, 10, out ++ [⟨i0 :: id', info, [s0] ++ seq', none⟩]⟩ _ _
    (by simp [fqStep, e10])]
  rw [foldlM_cons_ok (fqStep si true) _
    ⟨8, [i0] ++ id', d2, [s0] ++ seq', qB, i0 :: id', info, 43, out ++ [⟨i0 :: id', info, [s0] ++ seq', none⟩]⟩ _ _
    (by simp [fqStep, e43])]
  rw [foldlM_cons_ok (fqStep si true) _
    ⟨9, [i0] ++ id', d2, [s0] ++ seq', qB, i0 :: id', info, 10, out ++ [⟨i0 :: id', info, [s0] ++ seq', none⟩]⟩ _ _
    (by simp [fqStep, e10])]
  rw [foldlM_cons_ok (fqStep si true) _
    ⟨10, [i0] ++ id', d2, [s0] ++ seq', [q0], i0 :: id', info, q0, out ++ [⟨i0 :: id', info, [s0] ++ seq', none⟩]⟩ _ _
    (by simp [fqStep, hq0])]
  obtain ⟨p4, h4⟩ := fq_qual si Q' (10 :: rest) (fun c h => hqe c (List.mem_cons_of_mem _ h))
    ([i0] ++ id') d2 ([s0] ++ seq') [q0] (i0 :: id') info q0 (out ++ [⟨i0 :: id', info, [s0] ++ seq', none⟩])
  rw [h4]
  refine ⟨⟨11, [i0] ++ id', d2, [s0] ++ seq', [q0] ++ Q', i0 :: id', info, 10,
      out ++ [⟨i0 :: id', info, [s0] ++ seq', some (([q0] ++ Q').map (readQ si))⟩]⟩, ?_, rfl, rfl⟩
  rw [foldlM_cons_ok (fqStep si true) _ _ _ _
    (by
      have hl' : Q'.length = seq'.length := by simpa using hQl
      simp [fqStep, e10, storeQ, hl']
      rfl)]
  rfl

/-- identifier, title remainder, sequence, quality line of a written record -/
abbrev R4 := Bytes × Bytes × Bytes × Bytes

def recOf4 (si : UInt8) (r : R4) : Rec := ⟨r.1, r.2.1, r.2.2.1, some (r.2.2.2.map (readQ si))⟩

def OK4 (r : R4) : Prop :=
  r.1 ≠ [] ∧ (∀ c ∈ r.1, isSep c = false) ∧ (∀ c ∈ r.2.1, isEol c = false) ∧
  (∀ c, r.2.1.head? = some c → isSpace c = false) ∧ r.2.2.1 ≠ [] ∧ (∀ c ∈ r.2.2.1, seqOK c = true) ∧
  r.2.2.2.length = r.2.2.1.length ∧ ∀ c ∈ r.2.2.2, isEol c = false

/-- `FormatFastqBatch` on a list of records -/
def fqText : List R4 → Bytes
  | [] => []
  | r :: rs => 64 :: (fqBody r.1 r.2.1 r.2.2.1 r.2.2.2 ++ fqText rs)

theorem fq_records (si : UInt8) (rs : List R4) (hrs : ∀ x ∈ rs, OK4 x) (st : PSt) (hst : st.state = 11 ∨ st.state = 0) :
    ∃ st', List.foldlM (fqStep si true) st (fqText rs) = .ok st'
      ∧ (st'.state = 11 ∨ st'.state = 0) ∧ st'.out = st.out ++ rs.map (recOf4 si) := by
  induction rs generalizing st with
  | nil => exact ⟨st, rfl, hst, by simp⟩
  | cons r rs ih =>
    obtain ⟨h1, h2, h3, h4, h5, h6, h7, h8⟩ := hrs r (by simp)
    obtain ⟨state, idB, dB, sB, qB, ident, defn, prev, out⟩ := st
    simp only at hst
    have hstep : fqStep si true ⟨state, idB, dB, sB, qB, ident, defn, prev, out⟩ 64
        = .ok ⟨1, idB, dB, sB, qB, ident, defn, 64, out⟩ := by
      have e64 : isEol 64 = false := by decide
      rcases hst with rfl | rfl <;> simp [fqStep, e64]
    obtain ⟨st1, e1, e2, e3⟩ := fq_record si r.1 r.2.1 r.2.2.1 r.2.2.2 (fqText rs) h1 h2 h3 h4 h5 h6 h7 h8
      idB dB sB qB ident defn 64 out
    obtain ⟨st2, f1, f2, f3⟩ := ih (fun x hx => hrs x (List.mem_cons_of_mem _ hx)) st1 (Or.inl e2)
    refine ⟨st2, ?_, f2, ?_⟩
    · rw [fqText, foldlM_cons_ok (fqStep si true) _ _ _ _ hstep, e1, f1]
    · rw [f3, e3]; simp [recOf4]

/-- **FASTQ, any number of records**: what `FormatFastqBatch` prints for a list of records is parsed back by the real
    state machine as exactly these records, in order -/
theorem parseFastq_fqText (si : UInt8) (rs : List R4) (hrs : ∀ x ∈ rs, OK4 x) :
    parseFastq si true (fqText rs) = .ok (rs.map (recOf4 si)) := by
  obtain ⟨st, e1, e2, e3⟩ := fq_records si rs hrs {} (Or.inr rfl)
  simp only [parseFastq]
  rw [e1]
  have h10 : ¬ (st.out ≠ [] ∧ st.state = 10) := by
    rintro ⟨_, h⟩; rcases e2 with e | e <;> rw [e] at h <;> cases h
  show (if st.out ≠ [] ∧ st.state = 10 then _ else pure st.out) = _
  rw [if_neg h10, e3]; rfl

def toR4 {α : Type} [DecidableEq α] (J : JsonLib α) (sh : UInt8) (x : Record α) : R4 :=
  (x.id, info J x.ann x.defn, x.seq, (qualities x.seq x.qual).map (writeQ sh))

theorem writeFastq_flatten {α : Type} [DecidableEq α] (J : JsonLib α) (sh : UInt8) (rs : List (Record α)) :
    (rs.map (writeFastq J sh)).flatten = fqText (rs.map (toR4 J sh)) := by
  induction rs with
  | nil => rfl
  | cons r rs ih =>
    simp only [List.map_cons, List.flatten_cons, ih, fqText, writeFastq, formatFastq_eq, toR4]
    rfl

theorem toR4_OK {α : Type} [DecidableEq α] (J : JsonLib α) (sh : UInt8) (hsh : ShiftOK sh) (x : Record α)
    (hJ : J.OKat (x.ann, x.defn)) (h : WF x) (hq : (qualities x.seq x.qual).length = x.seq.length) :
    OK4 (toR4 J sh x) :=
  ⟨h.id_ne, h.id_noBlank, info_oneLine J _ _ hJ, info_head J _ _ hJ, h.seq_ne, h.seq_ok,
    by simp [toR4, hq],
    by intro c hc; simp only [toR4, List.mem_map] at hc; obtain ⟨q, _, rfl⟩ := hc; exact writeQ_noEol sh hsh q⟩

theorem mapM_readRec4 {α : Type} [DecidableEq α] (J : JsonLib α) (sh : UInt8) (rs : List (Record α))
    (hJ : ∀ x ∈ rs, J.OKat (x.ann, x.defn)) :
    ((rs.map (toR4 J sh)).map (recOf4 sh)).mapM (readRec J)
      = some (rs.map (fun x => { x with qual := some ((qualities x.seq x.qual).map (fun q => min q 93)) })) := by
  induction rs with
  | nil => rfl
  | cons r rs ih =>
    have hm : ((qualities r.seq r.qual).map (writeQ sh)).map (readQ sh)
        = (qualities r.seq r.qual).map (fun q => min q 93) := by
      rw [List.map_map]
      apply List.map_congr_left
      intro q _
      simp only [Function.comp, readQ, writeQ]
      rw [UInt8.add_sub_cancel, clamp_eq_min]
    have e : readRec J (recOf4 sh (toR4 J sh r))
        = some { r with qual := some ((qualities r.seq r.qual).map (fun q => min q 93)) } := by
      simp [readRec, recOf4, toR4, header_roundtrip_aux J r.ann r.defn (hJ r (by simp)), hm]
    simp only [List.map_cons]
    rw [List.mapM_cons, e, ih (fun x hx => hJ x (List.mem_cons_of_mem _ hx))]
    rfl

theorem write_read_fastq_many_aux {α : Type} [DecidableEq α] (J : JsonLib α) (sh : UInt8) (hsh : ShiftOK sh)
    (rs : List (Record α)) (hJ : ∀ x ∈ rs, J.OKat (x.ann, x.defn)) (h : ∀ x ∈ rs, WF x)
    (hq : ∀ x ∈ rs, (qualities x.seq x.qual).length = x.seq.length) :
    readFastq J sh (rs.map (writeFastq J sh)).flatten
      = some (rs.map (fun x => { x with qual := some ((qualities x.seq x.qual).map (fun q => min q 93)) })) := by
  unfold readFastq
  rw [writeFastq_flatten,
    parseFastq_fqText sh (rs.map (toR4 J sh))
      (by
        intro x hx
        obtain ⟨y, hy, rfl⟩ := List.mem_map.mp hx
        exact toR4_OK J sh hsh y (hJ y hy) (h y hy) (hq y hy))]
  exact mapM_readRec4 J sh rs hJ

end ObiVerif.Header
