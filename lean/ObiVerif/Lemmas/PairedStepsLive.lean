import ObiVerif.Lemmas.PairedSteps
/-! # Termination of every interleaving of the paired-output protocol (C04): each step decreases `rank` -/
set_option Elab.async false
namespace ObiVerif.PairedSteps

theorem fmtHeld_set_length (ws : List FPc) (i : Nat) (old new : FPc) (h : ws[i]? = some old) :
    (fmtHeld (ws.set i new)).length + (fmtHeld [old]).length = (fmtHeld ws).length + (fmtHeld [new]).length := by
  induction ws generalizing i with
  | nil => simp at h
  | cons a t ih =>
    cases i with
    | zero =>
      simp at h; subst h
      cases a <;> cases new <;> simp [fmtHeld]
    | succ j =>
      have := ih j (by simpa using h)
      cases a <;> simp [fmtHeld] at this ⊢ <;> omega

theorem pushHeld_set_length (ws : List FPc) (i : Nat) (old new : FPc) (h : ws[i]? = some old) :
    (pushHeld (ws.set i new)).length + (pushHeld [old]).length = (pushHeld ws).length + (pushHeld [new]).length := by
  induction ws generalizing i with
  | nil => simp at h
  | cons a t ih =>
    cases i with
    | zero =>
      simp at h; subst h
      cases a <;> cases new <;> simp [pushHeld]
    | succ j =>
      have := ih j (by simpa using h)
      cases a <;> simp [pushHeld] at this ⊢ <;> omega

theorem notDone_set (ws : List FPc) (i : Nat) (old new : FPc) (h : ws[i]? = some old) :
    notDone (ws.set i new) + notDone [old] = notDone ws + notDone [new] := by
  induction ws generalizing i with
  | nil => simp at h
  | cons a t ih =>
    cases i with
    | zero =>
      simp at h; subst h
      cases a <;> cases new <;> simp [notDone] <;> omega
    | succ j =>
      have := ih j (by simpa using h)
      cases a <;> simp [notDone] at this ⊢ <;> omega

/-- every step of every goroutine decreases the ranking function -/
theorem step_rank {s s' : St} (st : Step s s') : rank s' < rank s := by
  cases st with
  | srcHand k t i ht hi =>
    have a := fmtHeld_set_length s.ws1 i _ (.fmt k) hi
    have b := pushHeld_set_length s.ws1 i _ (.fmt k) hi
    have c := notDone_set s.ws1 i _ (.fmt k) hi
    simp only [fmtHeld, pushHeld, notDone, List.length_cons, List.length_nil] at a b c
    simp only [rank, ht, List.length_cons]; omega
  | srcClose ht hd => simp only [rank, hd, b2n]; simp
  | f1Finish i hi hd =>
    have a := fmtHeld_set_length s.ws1 i _ .done hi
    have b := pushHeld_set_length s.ws1 i _ .done hi
    have c := notDone_set s.ws1 i _ .done hi
    simp only [fmtHeld, pushHeld, notDone, List.length_cons, List.length_nil] at a b c
    simp only [rank]; omega
  | f1Chunk i k hi =>
    have a := fmtHeld_set_length s.ws1 i _ (.push k) hi
    have b := pushHeld_set_length s.ws1 i _ (.push k) hi
    have c := notDone_set s.ws1 i _ (.push k) hi
    simp only [fmtHeld, pushHeld, notDone, List.length_cons, List.length_nil] at a b c
    simp only [rank]; omega
  | f1Push i k hi hpw hpd =>
    have a := fmtHeld_set_length s.ws1 i _ .idle hi
    have b := pushHeld_set_length s.ws1 i _ .idle hi
    have c := notDone_set s.ws1 i _ .idle hi
    simp only [fmtHeld, pushHeld, notDone, List.length_cons, List.length_nil] at a b c
    simp only [rank, hpw, optL, List.length_cons, List.length_nil]; omega
  | close1 hall hc => simp only [rank, hc, b2n]; simp
  | mid1Close hall hc => simp only [rank, hc, b2n]; simp
  | pwHand k j hpw hj =>
    have a := fmtHeld_set_length s.ws2 j _ (.fmt k) hj
    have b := pushHeld_set_length s.ws2 j _ (.fmt k) hj
    have c := notDone_set s.ws2 j _ (.fmt k) hj
    simp only [fmtHeld, pushHeld, notDone, List.length_cons, List.length_nil] at a b c
    simp only [rank, hpw, optL, List.length_cons, List.length_nil]; omega
  | pwFinish hpw hm1 hpd => simp only [rank, hpd, b2n]; simp
  | mid2Close hpd hm2 => simp only [rank, hm2, b2n]; simp
  | f2Finish j hj hm2 =>
    have a := fmtHeld_set_length s.ws2 j _ .done hj
    have b := pushHeld_set_length s.ws2 j _ .done hj
    have c := notDone_set s.ws2 j _ .done hj
    simp only [fmtHeld, pushHeld, notDone, List.length_cons, List.length_nil] at a b c
    simp only [rank]; omega
  | f2Chunk j k hj =>
    have a := fmtHeld_set_length s.ws2 j _ (.push k) hj
    have b := pushHeld_set_length s.ws2 j _ (.push k) hj
    have c := notDone_set s.ws2 j _ (.push k) hj
    simp only [fmtHeld, pushHeld, notDone, List.length_cons, List.length_nil] at a b c
    simp only [rank]; omega
  | f2Push j k hj =>
    have a := fmtHeld_set_length s.ws2 j _ .idle hj
    have b := pushHeld_set_length s.ws2 j _ .idle hj
    have c := notDone_set s.ws2 j _ .idle hj
    simp only [fmtHeld, pushHeld, notDone, List.length_cons, List.length_nil] at a b c
    simp only [rank]; omega
  | close2 hall hc => simp only [rank, hc, b2n]; simp
  | outClose hall hc => simp only [rank, hc, b2n]; simp

/-- a run of `m` steps -/
inductive Run : St → St → Nat → Prop where
  | nil (s : St) : Run s s 0
  | cons {s s' s'' : St} {m : Nat} : Step s s' → Run s' s'' m → Run s s'' (m + 1)

theorem run_bounded {s s' : St} {m : Nat} (r : Run s s' m) : m + rank s' ≤ rank s := by
  induction r with
  | nil => omega
  | cons st _ ih => have := step_rank st; omega

/-- the workers of a writer: one is blocked in `Push`, or one is blocked on `chunkchan`, or one waits in `Next()`, or
all are done -/
theorem ws_cases (ws : List FPc) :
    (∃ i k : Nat, ws[i]? = some (FPc.push k)) ∨ (∃ i k : Nat, ws[i]? = some (FPc.fmt k)) ∨
      (∃ i : Nat, ws[i]? = some FPc.idle) ∨
      (∀ pc ∈ ws, pc = FPc.done) := by
  induction ws with
  | nil => right; right; right; simp
  | cons a t ih =>
    rcases ih with ⟨i, k, h⟩ | ⟨i, k, h⟩ | ⟨i, h⟩ | h
    · exact Or.inl ⟨i + 1, k, by simpa using h⟩
    · exact Or.inr (Or.inl ⟨i + 1, k, by simpa using h⟩)
    · cases a with
      | push k => exact Or.inl ⟨0, k, rfl⟩
      | fmt k => exact Or.inr (Or.inl ⟨0, k, rfl⟩)
      | idle => exact Or.inr (Or.inr (Or.inl ⟨0, rfl⟩))
      | done => exact Or.inr (Or.inr (Or.inl ⟨i + 1, by simpa using h⟩))
    · cases a with
      | push k => exact Or.inl ⟨0, k, rfl⟩
      | fmt k => exact Or.inr (Or.inl ⟨0, k, rfl⟩)
      | idle => exact Or.inr (Or.inr (Or.inl ⟨0, rfl⟩))
      | done =>
        refine Or.inr (Or.inr (Or.inr ?_))
        intro pc hpc
        rcases List.mem_cons.mp hpc with rfl | h'
        · rfl
        · exact h pc h'

theorem ne_nil_of_len {ws : List FPc} {N : Nat} (h : ws.length = N) (hN : 0 < N) : ∃ pc, pc ∈ ws := by
  cases ws with
  | nil => simp at h; omega
  | cons a t => exact ⟨a, by simp⟩

/-- **deadlock freedom**: in every reachable state that is not final some goroutine can take a step — no interleaving
of the two writers, of `PairedWith()` and of the consumer gets stuck -/
theorem progress {src : List Nat} {N1 N2 : Nat} (hN1 : 0 < N1) (hN2 : 0 < N2) {s : St} (h : Inv src N1 N2 s)
    (hnf : ¬ Final s) : ∃ s', Step s s' := by
  rcases ws_cases s.ws2 with ⟨j, k, hj⟩ | ⟨j, k, hj⟩ | hidle2
  · exact ⟨_, .f2Push s j k hj⟩
  · exact ⟨_, .f2Chunk s j k hj⟩
  -- no worker of writer 2 holds anything
  cases hpw : s.pw with
  | some k =>
    rcases hidle2 with ⟨j, hj⟩ | hall2
    · exact ⟨_, .pwHand s k j hpw hj⟩
    · exfalso
      obtain ⟨pc, hpc⟩ := ne_nil_of_len h.len2 hN2
      have := (h.fpw (h.fmid2 (h.fw2 pc hpc (hall2 pc hpc)))).2
      rw [hpw] at this; cases this
  | none =>
    rcases ws_cases s.ws1 with ⟨i, k, hi⟩ | ⟨i, k, hi⟩ | hidle1
    · cases hpd : s.pwDone with
      | false => exact ⟨_, .f1Push s i k hi hpw hpd⟩
      | true =>
        exfalso
        exact not_all_done hi (by intro e; cases e) (h.fmid1 (h.fpw hpd).1)
    · exact ⟨_, .f1Chunk s i k hi⟩
    cases htd : s.todo with
    | cons k t =>
      rcases hidle1 with ⟨i, hi⟩ | hall1
      · exact ⟨_, .srcHand s k t i htd hi⟩
      · exfalso
        have := all_done_todo h hN1 hall1
        rw [htd] at this; cases this
    | nil =>
      cases hsd : s.srcDone with
      | false => exact ⟨_, .srcClose s htd hsd⟩
      | true =>
        rcases hidle1 with ⟨i, hi⟩ | hall1
        · exact ⟨_, .f1Finish s i hi hsd⟩
        cases hc1 : s.closed1 with
        | false => exact ⟨_, .close1 s hall1 hc1⟩
        | true =>
          cases hm1 : s.mid1Closed with
          | false => exact ⟨_, .mid1Close s hall1 hm1⟩
          | true =>
            cases hpd : s.pwDone with
            | false => exact ⟨_, .pwFinish s hpw hm1 hpd⟩
            | true =>
              cases hm2 : s.mid2Closed with
              | false => exact ⟨_, .mid2Close s hpd hm2⟩
              | true =>
                rcases hidle2 with ⟨j, hj⟩ | hall2
                · exact ⟨_, .f2Finish s j hj hm2⟩
                cases hc2 : s.closed2 with
                | false => exact ⟨_, .close2 s hall2 hc2⟩
                | true =>
                  cases hoc : s.outClosed with
                  | false => exact ⟨_, .outClose s hall2 hoc⟩
                  | true => exact absurd ⟨hc1, hc2, hoc⟩ hnf

end ObiVerif.PairedSteps
