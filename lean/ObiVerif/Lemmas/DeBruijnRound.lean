import ObiVerif.Lemmas.DeBruijnCov
/-!
# The float roundings of `LongestConsensus(id, min_cov)` never cross a representable value (C19)

`rnd n e` rounds `n × 2^e` to 53 significant bits, ties to even.  Proved here, for every `n`, `e`:

* `rneQ_le` / `rneQ_ge`: the rounded quotient stays on the same side of every integer `M` as `n / 2^s`;
* `rnd_le_of_le` / `rnd_ge_of_ge`: **the rounding never crosses a representable value** `K × 2^f`
  (`K ≤ 2^53`): `n × 2^e ≤ K × 2^f → rnd (n × 2^e) ≤ K × 2^f` and the same for `≥`;
* `rnd_mono`: **round-to-nearest-even is monotone** (`n₁ ≤ n₂ → rnd n₁ e ≤ rnd n₂ e` as values, any `e`);
* `covThreshold_le_mode`: `uint(float64(mode) × min_cov + 0.5) ≤ mode` for **every** float `min_cov ≤ 1`
  (`m × 2^-s`, `m ≤ 2^s`) and every `mode < 2^52`, whatever the roundings;
* `covThreshold_above_mode`: the bound `2^52` is sharp (`mode = 2^52 + 1`, `min_cov = 1` → `mode + 1`).
-/
set_option Elab.async false
namespace ObiVerif.DeBruijn

/-- `A × 2^a ≤ B × 2^b` only depends on `a - b` -/
theorem pow_shift_le (A B a b c d : Nat) (h : A * 2 ^ a ≤ B * 2 ^ b) (e : a + d = b + c) :
    A * 2 ^ c ≤ B * 2 ^ d := by
  apply Nat.le_of_mul_le_mul_right (c := 2 ^ a) _ (Nat.two_pow_pos a)
  calc A * 2 ^ c * 2 ^ a = (A * 2 ^ a) * 2 ^ c := by rw [Nat.mul_right_comm]
    _ ≤ (B * 2 ^ b) * 2 ^ c := Nat.mul_le_mul_right _ h
    _ = B * 2 ^ (b + c) := by rw [Nat.mul_assoc, ← Nat.pow_add]
    _ = B * 2 ^ (a + d) := by rw [e]
    _ = B * 2 ^ d * 2 ^ a := by rw [Nat.add_comm, Nat.pow_add, Nat.mul_assoc]

/-- the quotient `n / 2^s` rounded to nearest, ties to even (the `q` of `rnd`) -/
def rneQ (n s : Nat) : Nat :=
  if n % 2 ^ s > 2 ^ (s - 1) ∨ (n % 2 ^ s = 2 ^ (s - 1) ∧ n / 2 ^ s % 2 = 1) then n / 2 ^ s + 1 else n / 2 ^ s

theorem rnd_big (n : Nat) (e : Int) (h : ¬ bitLen n ≤ 53) :
    rnd n e = (rneQ n (bitLen n - 53), e + ((bitLen n - 53 : Nat) : Int)) := by
  unfold rnd rneQ
  rw [if_neg h]

theorem rneQ_le (n s M : Nat) (h : n ≤ M * 2 ^ s) : rneQ n s ≤ M := by
  have hq : n / 2 ^ s ≤ M := Nat.div_le_of_le_mul (by rw [Nat.mul_comm]; exact h)
  have hdm := Nat.div_add_mod n (2 ^ s)
  have hP := Nat.two_pow_pos (s - 1)
  unfold rneQ
  by_cases hlt : n / 2 ^ s < M
  · split <;> omega
  · have hqM : n / 2 ^ s = M := by omega
    rw [hqM, Nat.mul_comm] at hdm
    have hr : n % 2 ^ s = 0 := by omega
    rw [hr, hqM]
    have : ¬ (0 > 2 ^ (s - 1) ∨ (0 = 2 ^ (s - 1) ∧ M % 2 = 1)) := by omega
    rw [if_neg this]
    exact Nat.le_refl _

theorem rneQ_ge (n s M : Nat) (h : M * 2 ^ s ≤ n) : M ≤ rneQ n s := by
  have hq : M ≤ n / 2 ^ s := (Nat.le_div_iff_mul_le (Nat.two_pow_pos s)).2 h
  unfold rneQ
  split <;> omega

theorem bitLen_bounds (n : Nat) (h : ¬ bitLen n ≤ 53) :
    2 ^ (52 + (bitLen n - 53)) ≤ n ∧ n < 2 ^ (53 + (bitLen n - 53)) := by
  have h1 : ¬ bitLen n ≤ 52 + (bitLen n - 53) := by omega
  have h2 : bitLen n ≤ 53 + (bitLen n - 53) := by omega
  rw [bitLen_le_iff] at h1 h2
  exact ⟨by omega, h2⟩

/-- **The rounding never crosses a representable value from below**: if `n × 2^e ≤ K × 2^(e+d)` with `K ≤ 2^53`
then `rnd n e`, as a value, is at most `K × 2^(e+d)` (both sides scaled by `2^-e`); the exponent never decreases. -/
theorem rnd_le_of_le (n K d : Nat) (e : Int) (hK : K ≤ 2 ^ 53) (h : n ≤ K * 2 ^ d) :
    e ≤ (rnd n e).2 ∧ (rnd n e).1 * 2 ^ ((rnd n e).2 - e).toNat ≤ K * 2 ^ d := by
  by_cases hb : bitLen n ≤ 53
  · have : rnd n e = (n, e) := by unfold rnd; rw [if_pos hb]
    rw [this]
    refine ⟨Int.le_refl _, ?_⟩
    have : (e - e).toNat = 0 := by omega
    simp only [this, Nat.pow_zero, Nat.mul_one]
    exact h
  · rw [rnd_big n e hb]
    obtain ⟨hlo, _⟩ := bitLen_bounds n hb
    generalize bitLen n - 53 = s at hlo
    refine ⟨by omega, ?_⟩
    have : (e + (s : Int) - e).toNat = s := by omega
    simp only [this]
    by_cases hds : s ≤ d
    · have e1 : K * 2 ^ d = (K * 2 ^ (d - s)) * 2 ^ s := by
        rw [Nat.mul_assoc, ← Nat.pow_add]; congr 2; omega
      rw [e1]
      exact Nat.mul_le_mul_right _ (rneQ_le n s _ (by rw [← e1]; exact h))
    · have h1 : K * 2 ^ d ≤ 2 ^ 53 * 2 ^ d := Nat.mul_le_mul_right _ hK
      have h2 : 2 ^ 53 * 2 ^ d ≤ 2 ^ (52 + s) := by
        rw [← Nat.pow_add]; exact Nat.pow_le_pow_right (by decide) (by omega)
      have h3 : n ≤ 2 ^ 52 * 2 ^ s := by rw [← Nat.pow_add]; omega
      have h4 := Nat.mul_le_mul_right (2 ^ s) (rneQ_le n s _ h3)
      rw [← Nat.pow_add] at h4
      omega

/-- **… nor from above**: if `K × 2^(e+d) ≤ n × 2^e` with `K < 2^53` representable, `rnd n e ≥ K × 2^(e+d)` -/
theorem rnd_ge_of_ge (n K d : Nat) (e : Int) (hK : K < 2 ^ 53) (h : K * 2 ^ d ≤ n) :
    K * 2 ^ d ≤ (rnd n e).1 * 2 ^ ((rnd n e).2 - e).toNat := by
  by_cases hb : bitLen n ≤ 53
  · have : rnd n e = (n, e) := by unfold rnd; rw [if_pos hb]
    rw [this]
    have : (e - e).toNat = 0 := by omega
    simp only [this, Nat.pow_zero, Nat.mul_one]
    exact h
  · rw [rnd_big n e hb]
    obtain ⟨hlo, _⟩ := bitLen_bounds n hb
    generalize bitLen n - 53 = s at hlo
    have : (e + (s : Int) - e).toNat = s := by omega
    simp only [this]
    by_cases hds : s ≤ d
    · have e1 : K * 2 ^ d = (K * 2 ^ (d - s)) * 2 ^ s := by
        rw [Nat.mul_assoc, ← Nat.pow_add]; congr 2; omega
      rw [e1]
      exact Nat.mul_le_mul_right _ (rneQ_ge n s _ (by rw [← e1]; exact h))
    · -- K × 2^d < 2^(53+d) ≤ 2^(52+s) ≤ rneQ × 2^s
      have h1 : K * 2 ^ d ≤ 2 ^ 53 * 2 ^ d := Nat.mul_le_mul_right _ (Nat.le_of_lt hK)
      have h2 : 2 ^ 53 * 2 ^ d ≤ 2 ^ (52 + s) := by
        rw [← Nat.pow_add]; exact Nat.pow_le_pow_right (by decide) (by omega)
      have h3 : 2 ^ 52 * 2 ^ s ≤ n := by rw [← Nat.pow_add]; exact hlo
      have h4 := Nat.mul_le_mul_right (2 ^ s) (rneQ_ge n s _ h3)
      rw [← Nat.pow_add] at h4
      omega

/-- the rounded significand fits 53 bits, or is exactly `2^53` (carry) -/
theorem rnd_fst_le (n : Nat) (e : Int) : (rnd n e).1 ≤ 2 ^ 53 := by
  by_cases hb : bitLen n ≤ 53
  · have : rnd n e = (n, e) := by unfold rnd; rw [if_pos hb]
    rw [this]; exact Nat.le_of_lt ((bitLen_le_iff n 53).1 hb)
  · rw [rnd_big n e hb]
    obtain ⟨_, hhi⟩ := bitLen_bounds n hb
    apply rneQ_le
    rw [← Nat.pow_add]; exact Nat.le_of_lt hhi

/-- **Round-to-nearest-even is monotone**: for two values on the same grid `2^e × ℕ` (any two dyadic values are,
for `e` small enough), `n₁ ≤ n₂` implies `rnd n₁ e ≤ rnd n₂ e` as values (`q × 2^(e')`, compared after scaling
by `2^-e`). -/
theorem rnd_mono (n1 n2 : Nat) (e : Int) (h : n1 ≤ n2) :
    (rnd n1 e).1 * 2 ^ ((rnd n1 e).2 - e).toNat ≤ (rnd n2 e).1 * 2 ^ ((rnd n2 e).2 - e).toNat := by
  by_cases hb2 : bitLen n2 ≤ 53
  · -- n2 is representable: n1 never crosses it
    have e2 : rnd n2 e = (n2, e) := by unfold rnd; rw [if_pos hb2]
    rw [e2]
    have : (e - e).toNat = 0 := by omega
    simp only [this, Nat.pow_zero, Nat.mul_one]
    have := (rnd_le_of_le n1 n2 0 e (Nat.le_of_lt ((bitLen_le_iff n2 53).1 hb2)) (by simpa using h)).2
    simpa using this
  · -- rnd n2 = Q × 2^s; if n1 ≤ Q × 2^s it does not cross it; otherwise n1 and n2 share quotient Q and binade
    obtain ⟨hlo2, hhi2⟩ := bitLen_bounds n2 hb2
    have e2 := rnd_big n2 e hb2
    generalize bitLen n2 - 53 = s at hlo2 hhi2 e2
    rw [e2]
    have hts : (e + (s : Int) - e).toNat = s := by omega
    simp only [hts]
    by_cases hle : n1 ≤ rneQ n2 s * 2 ^ s
    · have hQ : rneQ n2 s ≤ 2 ^ 53 := rneQ_le n2 s _ (by rw [← Nat.pow_add]; exact Nat.le_of_lt hhi2)
      exact (rnd_le_of_le n1 (rneQ n2 s) s e hQ hle).2
    · -- rneQ n2 s × 2^s < n1 ≤ n2: n2 is rounded down, q0 := n2 / 2^s = rneQ n2 s
      have hlt : rneQ n2 s * 2 ^ s < n1 := by omega
      have hdm2 := Nat.div_add_mod n2 (2 ^ s)
      have hdm1 := Nat.div_add_mod n1 (2 ^ s)
      have hr2 := Nat.mod_lt n2 (Nat.two_pow_pos s)
      have hr1 := Nat.mod_lt n1 (Nat.two_pow_pos s)
      have hq0 : rneQ n2 s = n2 / 2 ^ s := by
        have hge : n2 / 2 ^ s ≤ rneQ n2 s := by unfold rneQ; split <;> omega
        have hle' : rneQ n2 s ≤ n2 / 2 ^ s + 1 := by unfold rneQ; split <;> omega
        rcases Nat.lt_or_ge (n2 / 2 ^ s) (rneQ n2 s) with hh | hh
        · -- rounded up: (q0+1) × 2^s > n2 ≥ n1, contradiction
          have hup : rneQ n2 s = n2 / 2 ^ s + 1 := by omega
          rw [hup, Nat.add_mul, Nat.mul_comm] at hlt
          omega
        · omega
      have hlo52 : 2 ^ 52 ≤ n2 / 2 ^ s := by
        rw [Nat.le_div_iff_mul_le (Nat.two_pow_pos s), ← Nat.pow_add]; exact hlo2
      -- n1 has the same quotient
      have hq1 : n1 / 2 ^ s = n2 / 2 ^ s := by
        apply Nat.le_antisymm (Nat.div_le_div_right h)
        rw [Nat.le_div_iff_mul_le (Nat.two_pow_pos s), ← hq0]; omega
      have hb1 : ¬ bitLen n1 ≤ 53 := by
        rw [bitLen_le_iff]
        have : 2 ^ 52 * 2 ^ s ≤ n2 / 2 ^ s * 2 ^ s := Nat.mul_le_mul_right _ hlo52
        have h53 : (2 : Nat) ^ 53 ≤ 2 ^ 52 * 2 ^ s := by
          rw [← Nat.pow_add]
          exact Nat.pow_le_pow_right (by decide) (by
            have : s ≠ 0 := by
              intro h0; subst h0
              simp only [Nat.pow_zero, Nat.mul_one, Nat.add_zero] at hhi2 hlo52 hlt hq0
              rw [Nat.div_one] at hlo52 hq0
              omega
            omega)
        rw [hq0] at hlt
        omega
      have hs1 : bitLen n1 - 53 = s := by
        have a1 : bitLen n1 ≤ 53 + s := by rw [bitLen_le_iff]; omega
        have a2 : ¬ bitLen n1 ≤ 52 + s := by
          rw [bitLen_le_iff, Nat.pow_add]
          have : 2 ^ 52 * 2 ^ s ≤ n2 / 2 ^ s * 2 ^ s := Nat.mul_le_mul_right _ hlo52
          rw [hq0] at hlt; omega
        omega
      rw [rnd_big n1 e hb1, hs1]
      simp only [hts]
      apply Nat.mul_le_mul_right
      -- same quotient, smaller remainder, and n2 is rounded down: so is n1
      have hr12 : n1 % 2 ^ s ≤ n2 % 2 ^ s := by rw [hq1] at hdm1; omega
      have hdown : ¬ (n2 % 2 ^ s > 2 ^ (s - 1) ∨ (n2 % 2 ^ s = 2 ^ (s - 1) ∧ n2 / 2 ^ s % 2 = 1)) := by
        intro hc
        have : rneQ n2 s = n2 / 2 ^ s + 1 := by unfold rneQ; rw [if_pos hc]
        omega
      rw [hq0]
      unfold rneQ
      rw [hq1]
      have : ¬ (n1 % 2 ^ s > 2 ^ (s - 1) ∨ (n1 % 2 ^ s = 2 ^ (s - 1) ∧ n2 / 2 ^ s % 2 = 1)) := by omega
      rw [if_neg this]
      exact Nat.le_refl _

/-- `+ 0.5`, rounding, `uint(·)`: when the product `pn × 2^pe` is at most `mode < 2^52`, the result is at most
`mode` (`mode + 0.5` is representable: the rounding cannot cross it) -/
theorem add_half_floor_le (pn : Nat) (pe : Int) (mode s : Nat) (hmode : mode < 2 ^ 52)
    (hp2 : -(s : Int) ≤ pe) (hp1 : pn * 2 ^ (pe + s).toNat ≤ mode * 2 ^ s) :
    (if (rnd (pn * 2 ^ (pe - min pe (-1)).toNat + 2 ^ (-1 - min pe (-1)).toNat) (min pe (-1))).2 ≥ 0
      then (rnd (pn * 2 ^ (pe - min pe (-1)).toNat + 2 ^ (-1 - min pe (-1)).toNat) (min pe (-1))).1 *
        2 ^ (rnd (pn * 2 ^ (pe - min pe (-1)).toNat + 2 ^ (-1 - min pe (-1)).toNat) (min pe (-1))).2.toNat
      else (rnd (pn * 2 ^ (pe - min pe (-1)).toNat + 2 ^ (-1 - min pe (-1)).toNat) (min pe (-1))).1 /
        2 ^ (-(rnd (pn * 2 ^ (pe - min pe (-1)).toNat + 2 ^ (-1 - min pe (-1)).toNat) (min pe (-1))).2).toNat) ≤ mode := by
  generalize he' : min pe (-1) = e'
  have hn : pn * 2 ^ (pe - e').toNat + 2 ^ (-1 - e').toNat ≤ (2 * mode + 1) * 2 ^ (-1 - e').toNat := by
    have h1 : pn * 2 ^ (pe - e').toNat ≤ mode * 2 ^ ((-1 - e').toNat + 1) :=
      pow_shift_le pn mode _ s _ _ hp1 (by omega)
    rw [Nat.pow_succ] at h1
    rw [Nat.add_mul, Nat.one_mul, Nat.mul_comm 2 mode, Nat.mul_assoc, Nat.mul_comm 2]
    omega
  obtain ⟨hq2, hq1⟩ := rnd_le_of_le _ (2 * mode + 1) _ e' (by omega) hn
  generalize rnd (pn * 2 ^ (pe - e').toNat + 2 ^ (-1 - e').toNat) e' = q at hq1 hq2
  obtain ⟨qn, qe⟩ := q
  simp only at hq1 hq2 ⊢
  split
  · have h2 : qn * 2 ^ (qe.toNat + 1) ≤ (2 * mode + 1) * 2 ^ 0 :=
      pow_shift_le qn (2 * mode + 1) _ _ _ _ hq1 (by omega)
    rw [Nat.pow_succ, ← Nat.mul_assoc] at h2
    generalize qn * 2 ^ qe.toNat = X at h2 ⊢
    omega
  · have hpos : 1 ≤ (-qe).toNat := by omega
    have h2 : qn * 2 ^ 0 ≤ (2 * mode + 1) * 2 ^ ((-qe).toNat - 1) :=
      pow_shift_le qn (2 * mode + 1) _ _ _ _ hq1 (by omega)
    apply Nat.le_of_lt_succ
    rw [Nat.div_lt_iff_lt_mul (Nat.two_pow_pos _)]
    have e2 : 2 ^ (-qe).toNat = 2 * 2 ^ ((-qe).toNat - 1) := by
      have : (-qe).toNat = ((-qe).toNat - 1) + 1 := by omega
      rw [this, Nat.pow_succ, Nat.mul_comm]; simp
    rw [e2]
    have hP := Nat.two_pow_pos ((-qe).toNat - 1)
    generalize 2 ^ ((-qe).toNat - 1) = P at h2 hP ⊢
    rw [Nat.add_mul, Nat.one_mul, Nat.mul_assoc] at h2
    rw [Nat.succ_mul, Nat.mul_left_comm]
    generalize mode * P = Y at h2 ⊢
    omega

/-- **The float threshold never exceeds the mode**: for every `min_cov = m × 2^-s ≤ 1` (every positive
`float64` at most 1 has this form: `e = exponent - 1075 ≤ -52`) and every `mode < 2^52`,
`uint(float64(mode) × min_cov + 0.5) ≤ mode`, whatever the two roundings do. -/
theorem covThreshold_le_mode (mode m s : Nat) (hmode : mode < 2 ^ 52) (hm : m ≤ 2 ^ s) :
    covThreshold mode m (-(s : Int)) ≤ mode := by
  have hm53 : mode < 2 ^ 53 := by omega
  obtain ⟨hp2, hp1⟩ := rnd_le_of_le (mode * m) mode s (-(s : Int)) (by omega) (Nat.mul_le_mul_left mode hm)
  have key := add_half_floor_le (rnd (mode * m) (-(s : Int))).1 (rnd (mode * m) (-(s : Int))).2 mode s hmode hp2
    (by
      have : ((rnd (mode * m) (-(s : Int))).2 + (s : Int)).toNat = ((rnd (mode * m) (-(s : Int))).2 - -(s : Int)).toNat := by
        congr 1; omega
      rw [this]; exact hp1)
  unfold covThreshold
  rw [rnd_small mode 0 hm53]
  simp only [Int.zero_add]
  exact key

/-- the bound `mode < 2^52` is sharp: at `mode = 2^52 + 1` (odd, `mode + 0.5` is a tie between `mode` and
`mode + 1`, the even one) and `min_cov = 1` the threshold is `mode + 1` — `LongestConsensus` then panics. -/
theorem covThreshold_above_mode : covThreshold (2 ^ 52 + 1) 1 0 = 2 ^ 52 + 2 := by decide

end ObiVerif.DeBruijn
