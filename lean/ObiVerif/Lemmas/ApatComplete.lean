import ObiVerif.Model.Apat
import ObiVerif.Lemmas.Apat
import ObiVerif.Lemmas.ApatLocate
import ObiVerif.Lemmas.ApatIndel
import ObiVerif.Lemmas.ApatBest
/-!
# Completeness of `AllMatches` / `BestMatch` in indel mode on a linear sequence (C10)

(a) transfer of the edit distance between the two symbol comparisons: compiled codes against encoded symbols (`accepts`)
    and pattern characters against sequence bytes (`_samenuc`): `Compat`, `CompatEq`, `editDist_samenuc_le`,
    `editDist_samenuc_eq`;
(b) `FilterBestMatch` represents every raw hit by a kept hit reached through a chain of overlapping hits (`Linked`,
    `filterBest_linked`); the kept hit has at most as many errors (`Linked.err_le`) and, when it has as many errors,
    its error-extended interval intersects the one of the raw hit (`Touch`, `Linked.touch`).  The stronger claim
    "some kept hit with at most as many errors touches the raw hit" is FALSE (`touch_counterexample`);
(c) the re-alignment keeps the hit: `realign_exists`, `realign_keeps` (any fragment `seq[S:E]`, so also the one of
    `BestMatch`), `allMatchStep_keeps` (generic in the hit: linear or circular);
then `allMatches_complete`, `allMatches_complete_substring`, `bestMatch_found`, `bestMatch_complete`,
`bestMatch_matched_iff`; `compatCheck` / `compat_of_check` / `compat_letters` to establish `Compat`; `compat_fails_X`:
the two IUPAC tables disagree on `X` (a pattern with an `X` is matched by the automaton but every re-alignment counts the
`X` as an error).
-/
namespace ObiVerif.Apat

/-! ## (a) alignments under a change of symbol comparison -/

section Transfer
variable {α β : Type}

/-- element-wise relation between two lists (core Lean has no `List.Forall₂`) -/
inductive Rel2 (R : α → β → Prop) : List α → List β → Prop
  | nil : Rel2 R [] []
  | cons {a : α} {b : β} {l : List α} {l' : List β} : R a b → Rel2 R l l' → Rel2 R (a :: l) (b :: l')

theorem Rel2.of_getD (R : α → β → Prop) (d : α) (d' : β) : ∀ (l : List α) (l' : List β), l'.length = l.length →
    (∀ j, j < l.length → R (l.getD j d) (l'.getD j d')) → Rel2 R l l' := by
  intro l
  induction l with
  | nil =>
    intro l' hl _
    cases l' with
    | nil => exact Rel2.nil
    | cons b l' => simp at hl
  | cons a l ih =>
    intro l' hl h
    cases l' with
    | nil => simp at hl
    | cons b l' =>
      refine Rel2.cons ?_ (ih l' ?_ ?_)
      · have := h 0 (by simp)
        simpa using this
      · simpa using hl
      · intro j hj
        have := h (j + 1) (by simp only [List.length_cons]; omega)
        simpa using this

theorem Rel2.of_map (R : α → β → Prop) (f : β → α) (S : β → Prop) (hR : ∀ c, S c → R (f c) c) :
    ∀ (w : List β), (∀ c ∈ w, S c) → Rel2 R (w.map f) w := by
  intro w
  induction w with
  | nil => intro _; exact Rel2.nil
  | cons c w ih =>
    intro h
    exact Rel2.cons (hR c (h c (by simp))) (ih (fun x hx => h x (List.mem_cons_of_mem _ hx)))

theorem Rel2.flip {R : α → β → Prop} {l : List α} {l' : List β} (h : Rel2 R l l') : Rel2 (fun b a => R a b) l' l := by
  induction h with
  | nil => exact Rel2.nil
  | cons h _ ih => exact Rel2.cons h ih

theorem subCost_le_one (mt : α → α → Bool) (a c : α) : subCost mt a c ≤ 1 := by
  unfold subCost; split <;> omega

/-- an alignment is carried along element-wise relations of the pattern and of the text under which a match stays a
match: the cost does not increase -/
theorem Ali.transfer {mt : α → α → Bool} {mt' : β → β → Bool} (Rp Rw : α → β → Prop)
    (hR : ∀ a a' c c', Rp a a' → Rw c c' → mt a c = true → mt' a' c' = true)
    {p w : List α} {k : Nat} (h : Ali mt p w k) :
    ∀ (p' w' : List β), Rel2 Rp p p' → Rel2 Rw w w' → ∃ k', k' ≤ k ∧ Ali mt' p' w' k' := by
  induction h with
  | nil =>
    intro p' w' hp hw
    cases hp; cases hw
    exact ⟨0, Nat.le_refl _, Ali.nil⟩
  | sub a c _ ih =>
    intro p' w' hp hw
    cases hp with
    | cons ha hp =>
      cases hw with
      | cons hc hw =>
        rename_i a' p'' c' w''
        obtain ⟨k', hk, hali⟩ := ih _ _ hp hw
        refine ⟨k' + subCost mt' a' c', ?_, Ali.sub a' c' hali⟩
        by_cases hm : mt a c = true
        · have := hR _ _ _ _ ha hc hm
          simp only [subCost, hm, this, if_true]
          omega
        · have := subCost_le_one mt' a' c'
          simp only [subCost, hm] at this ⊢
          simp only [Bool.false_eq_true, if_false]
          omega
  | del a _ ih =>
    intro p' w' hp hw
    cases hp with
    | cons ha hp =>
      rename_i a' p''
      obtain ⟨k', hk, hali⟩ := ih _ _ hp hw
      exact ⟨k' + 1, by omega, Ali.del a' hali⟩
  | ins c _ ih =>
    intro p' w' hp hw
    cases hw with
    | cons hc hw =>
      rename_i c' w''
      obtain ⟨k', hk, hali⟩ := ih _ _ hp hw
      exact ⟨k' + 1, by omega, Ali.ins c' hali⟩

theorem editDist_transfer {mt : α → α → Bool} {mt' : β → β → Bool} (Rp Rw : α → β → Prop)
    (hR : ∀ a a' c c', Rp a a' → Rw c c' → mt a c = true → mt' a' c' = true)
    (p w : List α) (p' w' : List β) (hp : Rel2 Rp p p') (hw : Rel2 Rw w w') :
    editDist mt' p' w' ≤ editDist mt p w := by
  obtain ⟨k', hk, hali⟩ := (ali_editDist mt p w).transfer Rp Rw hR p' w' hp hw
  exact Nat.le_trans (editDist_le hali) hk

/-- **an alignment of cost `c` bounds the difference of the lengths** -/
theorem Ali.length_le {mt : α → α → Bool} {p w : List α} {c : Nat} (h : Ali mt p w c) :
    p.length ≤ w.length + c ∧ w.length ≤ p.length + c := by
  induction h with
  | nil => simp
  | sub a c _ ih => simp only [List.length_cons]; omega
  | del a _ ih => simp only [List.length_cons]; omega
  | ins c _ ih => simp only [List.length_cons]; omega

theorem editDist_length_le (mt : α → α → Bool) (p w : List α) :
    p.length ≤ w.length + editDist mt p w ∧ w.length ≤ p.length + editDist mt p w :=
  (ali_editDist mt p w).length_le

end Transfer

/-- **the two symbol comparisons agree in the direction needed for completeness**: the pattern string handed to
`LocatePattern` has one character per compiled position, and whenever the compiled position accepts the encoded byte,
`_samenuc` says that the pattern character and the byte are equal -/
def Compat (P : Pattern) : Prop :=
  P.locPat.length = P.patlen ∧
    ∀ j, j < P.patlen → ∀ c : UInt8, accepts (P.codes.getD j 0) (encodeByte c) = true → samenuc (P.locPat.getD j 0) c = true

/-- the two symbol comparisons agree exactly on the bytes of `seq` -/
def CompatEq (P : Pattern) (seq : Bytes) : Prop :=
  P.locPat.length = P.patlen ∧
    ∀ j, j < P.patlen → ∀ c ∈ seq, (accepts (P.codes.getD j 0) (encodeByte c) = true ↔ samenuc (P.locPat.getD j 0) c = true)

/-- **(a)** under `Compat` the `_samenuc` distance of the pattern string to a word is at most the compiled distance to
the encoded word -/
theorem editDist_samenuc_le (P : Pattern) (hC : Compat P) (w : Bytes) :
    editDist samenuc P.locPat w ≤ editDist accepts P.codes (w.map encodeByte) := by
  apply editDist_transfer (fun (a : Nat) (a' : UInt8) => ∀ c : UInt8, accepts a (encodeByte c) = true → samenuc a' c = true)
    (fun (c : Nat) (c' : UInt8) => c = encodeByte c')
  · intro a a' c c' ha hc hm
    subst hc
    exact ha c' hm
  · exact Rel2.of_getD _ 0 0 _ _ hC.1 hC.2
  · exact Rel2.of_map _ encodeByte (fun _ => True) (fun _ _ => rfl) w (fun _ _ => trivial)

/-- **(a), both directions**: under `CompatEq` the two distances are equal on every word made of bytes of `seq`
(in particular on every substring of `seq`) -/
theorem editDist_samenuc_eq (P : Pattern) (seq : Bytes) (hC : CompatEq P seq) (w : Bytes) (hw : ∀ c ∈ w, c ∈ seq) :
    editDist samenuc P.locPat w = editDist accepts P.codes (w.map encodeByte) := by
  apply Nat.le_antisymm
  · apply editDist_transfer (fun (a : Nat) (a' : UInt8) => ∀ c ∈ seq, accepts a (encodeByte c) = true → samenuc a' c = true)
      (fun (c : Nat) (c' : UInt8) => c = encodeByte c' ∧ c' ∈ seq)
    · intro a a' c c' ha hc hm
      obtain ⟨rfl, hin⟩ := hc
      exact ha c' hin hm
    · exact Rel2.of_getD _ 0 0 _ _ hC.1 (fun j hj c hc => (hC.2 j hj c hc).1)
    · exact Rel2.of_map _ encodeByte (fun c => c ∈ seq) (fun _ h => ⟨rfl, h⟩) w hw
  · apply editDist_transfer (fun (a' : UInt8) (a : Nat) => ∀ c ∈ seq, samenuc a' c = true → accepts a (encodeByte c) = true)
      (fun (c' : UInt8) (c : Nat) => c = encodeByte c' ∧ c' ∈ seq)
    · intro a' a c' c ha hc hm
      obtain ⟨rfl, hin⟩ := hc
      exact ha c' hin hm
    · exact (Rel2.of_getD (fun (a : Nat) (a' : UInt8) => ∀ c ∈ seq, samenuc a' c = true → accepts a (encodeByte c) = true)
        0 0 _ _ hC.1 (fun j hj c hc => (hC.2 j hj c hc).2)).flip
    · exact (Rel2.of_map (fun (c : Nat) (c' : UInt8) => c = encodeByte c' ∧ c' ∈ seq) encodeByte (fun c => c ∈ seq)
        (fun _ h => ⟨rfl, h⟩) w hw).flip

/-- the same on a substring of the sequence -/
theorem editDist_samenuc_eq_sub (P : Pattern) (seq : Bytes) (hC : CompatEq P seq) (a n : Nat) :
    editDist samenuc P.locPat ((seq.drop a).take n) = editDist accepts P.codes (((seq.map encodeByte).drop a).take n) := by
  rw [editDist_samenuc_eq P seq hC _ (fun c hc => List.mem_of_mem_drop (List.mem_of_mem_take hc)), List.map_take, List.map_drop]

theorem editDist_samenuc_le_sub (P : Pattern) (seq : Bytes) (hC : Compat P) (a n : Nat) :
    editDist samenuc P.locPat ((seq.drop a).take n) ≤ editDist accepts P.codes (((seq.map encodeByte).drop a).take n) := by
  have := editDist_samenuc_le P hC ((seq.drop a).take n)
  rwa [List.map_take, List.map_drop] at this

/-! ## (b) `FilterBestMatch` represents every raw hit through a chain of overlapping hits -/

/-- the error-extended intervals `[start - err, end + err)` of two hits intersect -/
def Touch (a b : Hit) : Prop := a.1 - a.2.2 < b.2.1 + b.2.2 ∧ b.1 - b.2.2 < a.2.1 + a.2.2

/-- `Linked r b`: the raw hit `r` is represented by `b` in the `FilterBestMatch` loop — `r` itself; or `r` was swallowed
by the current best `b` (earlier start, overlap test of the loop true, at most as many errors); or the representative was
replaced, as current best, by a later overlapping hit with strictly fewer errors -/
inductive Linked : Hit → Hit → Prop
  | refl (r : Hit) : Linked r r
  | absorbed {r b : Hit} : b.1 < r.1 → r.1 - r.2.2 < b.2.1 + b.2.2 → b.2.2 ≤ r.2.2 → Linked r b
  | replaced {r b c : Hit} : Linked r b → b.1 < c.1 → c.1 - c.2.2 < b.2.1 + b.2.2 → c.2.2 < b.2.2 → Linked r c

theorem Linked.err_le {r b : Hit} (h : Linked r b) : b.2.2 ≤ r.2.2 := by
  induction h with
  | refl => exact Int.le_refl _
  | absorbed _ _ h => exact h
  | replaced _ _ _ h ih => omega

/-- a representative with the same error count touches the raw hit -/
theorem Linked.touch {r b : Hit} (h : Linked r b) (he : b.2.2 = r.2.2) (h0 : 0 ≤ r.2.2) (hr : r.1 < r.2.1) : Touch b r := by
  cases h with
  | refl => unfold Touch; omega
  | absorbed h1 h2 h3 => unfold Touch; omega
  | replaced h1 _ _ h4 => have := h1.err_le; omega

/-- invariant of the `FilterBestMatch` loop, with the chain relation -/
def FilterInvL (seen : List Hit) (st : List Hit × Hit) : Prop :=
  (seen = [] ∧ st = ([], (0, 0, 10000))) ∨
  (st.2 ∈ seen ∧ st.2.2.2 < 10000 ∧ (∀ m ∈ seen, ∃ b ∈ st.2 :: st.1, Linked m b) ∧ ∀ h ∈ st.1, h ∈ seen)

theorem filterStep_filterInvL (seen : List Hit) (st : List Hit × Hit) (m : Hit)
    (hinv : FilterInvL seen st) (hseen : ∀ x ∈ seen, x.1 < m.1) (hm : m.2.2 < 10000) :
    FilterInvL (seen ++ [m]) (filterStep st m) := by
  obtain ⟨filtered, best⟩ := st
  rcases hinv with ⟨hs, hst⟩ | ⟨hb, hb2, hcov, hsub⟩
  · simp only [Prod.mk.injEq] at hst
    obtain ⟨rfl, rfl⟩ := hst
    subst hs
    right
    have : filterStep ([], ((0 : Int), (0 : Int), (10000 : Int))) m = ([], m) := by
      unfold filterStep; simp
    rw [this]
    refine ⟨by simp, hm, ?_, by simp⟩
    intro x hx
    simp only [List.nil_append, List.mem_singleton] at hx
    subst hx
    exact ⟨x, by simp, Linked.refl _⟩
  · right
    simp only at hb hb2 hcov hsub
    have hblt := hseen best hb
    unfold filterStep
    simp only [hb2, decide_true, Bool.true_and, if_true]
    by_cases hov : m.1 - m.2.2 < best.2.1 + best.2.2
    · simp only [hov, decide_true, if_true]
      by_cases hbetter : m.2.2 < best.2.2
      · simp only [hbetter, if_true]
        refine ⟨by simp, hm, ?_, ?_⟩
        · intro x hx
          rcases List.mem_append.1 hx with hx | hx
          · obtain ⟨b, hbm, hl⟩ := hcov x hx
            rcases List.mem_cons.1 hbm with rfl | hbm
            · exact ⟨m, by simp, Linked.replaced hl hblt hov hbetter⟩
            · exact ⟨b, List.mem_cons_of_mem _ hbm, hl⟩
          · simp only [List.mem_singleton] at hx
            subst hx
            exact ⟨x, by simp, Linked.refl _⟩
        · intro h hh
          exact List.mem_append_left _ (hsub h hh)
      · simp only [hbetter, if_false]
        refine ⟨List.mem_append_left _ hb, hb2, ?_, ?_⟩
        · intro x hx
          rcases List.mem_append.1 hx with hx | hx
          · exact hcov x hx
          · simp only [List.mem_singleton] at hx
            subst hx
            exact ⟨best, by simp, Linked.absorbed hblt hov (by omega)⟩
        · intro h hh
          exact List.mem_append_left _ (hsub h hh)
    · simp only [hov, decide_false, Bool.false_eq_true, if_false]
      refine ⟨by simp, hm, ?_, ?_⟩
      · intro x hx
        rcases List.mem_append.1 hx with hx | hx
        · obtain ⟨b, hbm, hl⟩ := hcov x hx
          exact ⟨b, List.mem_cons_of_mem _ hbm, hl⟩
        · simp only [List.mem_singleton] at hx
          subst hx
          exact ⟨x, by simp, Linked.refl _⟩
      · intro h hh
        rcases List.mem_cons.1 hh with rfl | hh
        · exact List.mem_append_left _ hb
        · exact List.mem_append_left _ (hsub h hh)

theorem filterFold_filterInvL (l pre : List Hit) (st : List Hit × Hit) (hinv : FilterInvL pre st)
    (hsorted : (pre ++ l).Pairwise (fun a b => a.1 < b.1)) (hok : ∀ x ∈ pre ++ l, x.2.2 < 10000) :
    FilterInvL (pre ++ l) (l.foldl filterStep st) := by
  induction l generalizing pre st with
  | nil => simpa using hinv
  | cons m l ih =>
    simp only [List.foldl_cons]
    have e : pre ++ m :: l = (pre ++ [m]) ++ l := by simp
    rw [e] at hsorted hok ⊢
    apply ih
    · apply filterStep_filterInvL pre st m hinv
      · intro x hx
        have h1 := (List.pairwise_append.1 hsorted).1
        exact (List.pairwise_append.1 h1).2.2 x hx m (by simp)
      · exact hok m (by simp)
    · exact hsorted
    · exact hok

/-- **(b) `FilterBestMatch` represents every raw hit**: on a list sorted by start position (error counts below the
sentinel) every hit `m` is `Linked` to a kept hit — which has at most as many errors (`Linked.err_le`) and, when it has
exactly as many, touches `m` (`Linked.touch`) -/
theorem filterBest_linked (res : List Hit) (hsorted : res.Pairwise (fun a b => a.1 < b.1)) (hok : ∀ x ∈ res, x.2.2 < 10000) :
    ∀ m ∈ res, ∃ b ∈ filterBest res, Linked m b := by
  intro m hm
  have inv := filterFold_filterInvL res [] ([], (0, 0, 10000)) (Or.inl ⟨rfl, rfl⟩) (by simpa using hsorted) (by simpa using hok)
  simp only [List.nil_append] at inv
  unfold filterBest
  generalize res.foldl filterStep ([], (0, 0, 10000)) = r at inv
  obtain ⟨filtered, best⟩ := r
  rcases inv with ⟨hs, _⟩ | ⟨_, hb2, hcov, _⟩
  · subst hs; cases hm
  · simp only at hb2 hcov
    obtain ⟨b, hb, hl⟩ := hcov m hm
    simp only [hb2, if_true]
    exact ⟨b, by simp only [List.mem_reverse]; exact hb, hl⟩

/-- the statement asked for first — "a kept hit with at most as many errors touches the raw hit" — in the form proved:
the kept hit has at most as many errors, is linked to the raw hit, and touches it when the error counts are equal -/
theorem filterBest_cover_touch (res : List Hit) (hsorted : res.Pairwise (fun a b => a.1 < b.1))
    (hok : ∀ x ∈ res, 0 ≤ x.2.2 ∧ x.2.2 < 10000 ∧ x.1 < x.2.1) :
    ∀ m ∈ res, ∃ b ∈ filterBest res, b.2.2 ≤ m.2.2 ∧ Linked m b ∧ (b.2.2 = m.2.2 → Touch b m) := by
  intro m hm
  obtain ⟨b, hb, hl⟩ := filterBest_linked res hsorted (fun x hx => (hok x hx).2.1) m hm
  exact ⟨b, hb, hl.err_le, hl, fun he => hl.touch he (hok m hm).1 (hok m hm).2.2⟩

/-- **counterexample to the unconditional `Touch` claim** (a sorted list of hits of the same length 10 whose error
counts change by at most one per position): the first hit is replaced by the second, the second by the third, and the only
kept hit `(14, 24, 1)` does not touch `(0, 10, 3)`: `14 - 1 < 10 + 3` is false -/
theorem touch_counterexample :
    filterBest [(0, 10, 3), (2, 12, 2), (14, 24, 1)] = [(14, 24, 1)] ∧ ¬ Touch (14, 24, 1) (0, 10, 3) := by
  refine ⟨by decide, ?_⟩
  unfold Touch
  decide

/-! ## (c) the re-alignment keeps the hit -/

theorem goSlice_eq (s : Bytes) (a b : Int) (h0 : 0 ≤ a) (hab : a ≤ b) (hb : b ≤ (s.length : Int)) :
    goSlice s a b = some ((s.drop a.toNat).take (b - a).toNat) := by
  unfold goSlice
  simp [h0, hab, hb]

theorem locPat_ne_nil (P : Pattern) (hm1 : 1 ≤ P.patlen) (hl : P.locPat.length = P.patlen) : P.locPat ≠ [] := by
  intro h0
  rw [h0] at hl
  simp only [List.length_nil] at hl
  omega

theorem locPat_length (P : Pattern) (hc : P.patlen ≤ P.cpat.length) : P.locPat.length = P.patlen := by
  unfold Pattern.locPat
  rw [List.length_take]
  omega

/-- re-alignment of the pattern string on the Go slice `seq[S:E]` (any `0 ≤ S ≤ E ≤ |seq|`): both calls succeed, the span
translated back to the sequence lies inside `[S, E)`, carries its exact `_samenuc` distance, and no substring of
`seq[S:E]` is closer to the pattern string -/
theorem realign_exists (P : Pattern) (seq : Bytes) (S E : Int) (hp : P.locPat ≠ [])
    (h0 : 0 ≤ S) (hSE : S ≤ E) (hE : E ≤ (seq.length : Int)) :
    ∃ frg pb pe score, goSlice seq S E = some frg ∧ locatePattern (P.cpat.take P.patlen) frg = some (pb, pe, score) ∧
      SpanDist P seq (S + pb, S + pe, score) ∧ S ≤ S + pb ∧ S + pe ≤ E ∧ 0 ≤ score ∧
      ∀ a b : Nat, S ≤ (a : Int) → a ≤ b → (b : Int) ≤ E →
        score ≤ (editDist samenuc P.locPat ((seq.drop a).take (b - a)) : Nat) := by
  have hg := goSlice_eq seq S E h0 hSE hE
  obtain ⟨f, t, k, hl, hft, ht, _, _⟩ := locatePattern_spec P.locPat ((seq.drop S.toNat).take (E - S).toNat) hp
  have hlen : ((seq.drop S.toNat).take (E - S).toNat).length = (E - S).toNat := by
    rw [List.length_take, List.length_drop]; omega
  obtain ⟨r0, r1, r2, r3, r4⟩ := realign_spec P.locPat seq _ S E f t k hg hl
  refine ⟨_, f, t, k, hg, hl, ⟨r0, r1, r2, r3⟩, by omega, by rw [hlen] at ht; omega, by omega, ?_⟩
  intro a b hSa hab hbE
  have := r4 (a - S.toNat) (b - S.toNat)
  rw [sub_slice seq S.toNat (E - S).toNat (a - S.toNat) (b - S.toNat) (by omega)] at this
  have e1 : S.toNat + (a - S.toNat) = a := by omega
  have e2 : b - S.toNat - (a - S.toNat) = b - a := by omega
  rw [e1, e2] at this
  exact this

/-- **(c)** if moreover the fragment contains a substring `seq[a:e]` whose encoded form is within compiled distance `k`
of the pattern, the re-aligned score is at most `k` (`Compat`) -/
theorem realign_keeps (P : Pattern) (seq : Bytes) (S E : Int) (a e k : Nat) (hC : Compat P) (hm1 : 1 ≤ P.patlen)
    (h0 : 0 ≤ S) (hSa : S ≤ (a : Int)) (hae : a ≤ e) (heE : (e : Int) ≤ E) (hE : E ≤ (seq.length : Int))
    (hd : editDist accepts P.codes (((seq.map encodeByte).drop a).take (e - a)) ≤ k) :
    ∃ frg pb pe score, goSlice seq S E = some frg ∧ locatePattern (P.cpat.take P.patlen) frg = some (pb, pe, score) ∧
      SpanDist P seq (S + pb, S + pe, score) ∧ S ≤ S + pb ∧ S + pe ≤ E ∧ 0 ≤ score ∧ score ≤ (k : Int) ∧
      ∀ a b : Nat, S ≤ (a : Int) → a ≤ b → (b : Int) ≤ E →
        score ≤ (editDist samenuc P.locPat ((seq.drop a).take (b - a)) : Nat) := by
  obtain ⟨frg, pb, pe, score, hg, hl, hsd, hb1, hb2, hs0, hmin⟩ :=
    realign_exists P seq S E (locPat_ne_nil P hm1 hC.1) h0 (by omega) hE
  refine ⟨frg, pb, pe, score, hg, hl, hsd, hb1, hb2, hs0, ?_, hmin⟩
  have h1 := hmin a e hSa hae heE
  have h2 := editDist_samenuc_le_sub P seq hC a (e - a)
  omega

/-- the witness substring of a raw hit starts at most `k` symbols before the reported start -/
theorem witness_start (P : Pattern) (seq : Bytes) (a e k : Nat) (hae : a ≤ e) (hen : e ≤ seq.length)
    (hd : editDist accepts P.codes (((seq.map encodeByte).drop a).take (e - a)) ≤ k) :
    e ≤ a + P.patlen + k ∧ P.patlen ≤ e - a + k := by
  have := editDist_length_le accepts P.codes (((seq.map encodeByte).drop a).take (e - a))
  rw [List.length_take, List.length_drop, List.length_map] at this
  unfold Pattern.patlen
  omega

/-- **(c) one iteration of `AllMatches` keeps the hit** (generic: any hit `h = (e - m, e, k)`, `0 < k`, ending inside the
sequence, for which some substring `seq[a:e]` is within compiled distance `k` of the pattern — linear or circular): the
hit is replaced by a span of the re-alignment fragment `[max(s-2k,0), min(max(s-2k,0)+m+4k, n))` with its exact `_samenuc`
distance, minimal over the substrings of the fragment and at most `k` -/
theorem allMatchStep_keeps (P : Pattern) (seq : Bytes) (h : Hit) (a e k : Nat)
    (hi : P.hasIndel = true) (hk : h.2.2 = (k : Int)) (hk0 : 0 < k) (hend : h.2.1 = h.1 + P.patlen) (he : h.2.1 = (e : Int))
    (hen : e ≤ seq.length) (hm1 : 1 ≤ P.patlen) (hC : Compat P) (ha : a ≤ e)
    (hd : editDist accepts P.codes (((seq.map encodeByte).drop a).take (e - a)) ≤ k) :
    ∃ x, allMatchStep P seq h = some x ∧ 0 ≤ x.2.2 ∧ x.2.2 ≤ h.2.2 ∧ SpanDist P seq x ∧
      max (h.1 - 2 * h.2.2) 0 ≤ x.1 ∧ x.2.1 ≤ min (max (h.1 - 2 * h.2.2) 0 + P.patlen + 4 * h.2.2) seq.length ∧
      ∀ a b : Nat, max (h.1 - 2 * h.2.2) 0 ≤ (a : Int) → a ≤ b →
        (b : Int) ≤ min (max (h.1 - 2 * h.2.2) 0 + P.patlen + 4 * h.2.2) seq.length →
        x.2.2 ≤ (editDist samenuc P.locPat ((seq.drop a).take (b - a)) : Nat) := by
  have hw := witness_start P seq a e k ha hen hd
  have e2 : h.2.2 * 2 = 2 * h.2.2 := Int.mul_comm _ _
  obtain ⟨frg, pb, pe, score, hg, hl, hsd, hb1, hb2, hs0, hsk, hmin⟩ :=
    realign_keeps P seq (max (h.1 - h.2.2 * 2) 0) (min (max (h.1 - h.2.2 * 2) 0 + P.patlen + 4 * h.2.2) seq.length)
      a e k hC hm1 (by omega) (by omega) ha (by omega) (by omega) hd
  refine ⟨(max (h.1 - h.2.2 * 2) 0 + pb, max (h.1 - h.2.2 * 2) 0 + pe, score), ?_, hs0, by simp only; omega, hsd, ?_, ?_, ?_⟩
  · unfold allMatchStep
    have hc : (decide (h.2.2 > 0) && P.hasIndel) = true := by
      simp only [hi, Bool.and_true, decide_eq_true_eq]; omega
    simp only [hc, if_true]
    rw [hg]
    simp only
    rw [hl]
  · rw [← e2]; exact hb1
  · rw [← e2]; exact hb2
  · rw [← e2]; exact hmin

/-! ## raw hits in indel mode on a linear sequence (local copies of `Props/C10` `findAllIndex_indel`) -/

theorem encodeByte_lt26 (seq : Bytes) : ∀ c ∈ seq.map encodeByte, c < 26 := by
  intro c hc
  rw [List.mem_map] at hc
  obtain ⟨b, _, rfl⟩ := hc
  unfold encodeByte isLower
  split
  · rename_i h
    simp only [Bool.and_eq_true, decide_eq_true_eq] at h
    have h2 : b.toNat ≤ 122 := by
      have := h.2; exact UInt8.le_iff_toNat_le.mp this
    omega
  · omega

theorem manberAll_eq_indel (P : Pattern) (data : List Nat) (begin length : Nat)
    (hi : P.hasIndel = true) (he : P.maxerr ≠ 0) :
    manberAll P data begin length = manberIndel P data begin length := by
  unfold manberAll
  have hb : (P.maxerr == 0) = false := by simpa using he
  simp [hb, hi]

/-- window start of `FindAllIndex` -/
def winBegin (begin : Int) : Nat := (if begin < 0 then 0 else begin).toNat
/-- exclusive bound on the end positions scanned by `FindAllIndex` on a linear sequence -/
def winEnd (seq : Bytes) (begin length : Int) : Nat :=
  min (winBegin begin + ((if length < 0 then (seq.length : Int) else length).toNat + Gen.apatMaxPatLen)) seq.length

theorem findAllIndex_indel_iff (P : Pattern) (seq : Bytes) (begin length : Int)
    (hi : P.hasIndel = true) (he : P.maxerr ≠ 0) (hm1 : 1 ≤ P.patlen) (hm : P.patlen ≤ 63)
    (hno : ∀ a ∈ P.codes, oblig a = false) (s e k : Int) :
    (s, e, k) ∈ findAllIndex P seq false begin length ↔
      ∃ pos k' : Nat, s = (pos : Int) - P.patlen + 1 ∧ e = s + P.patlen ∧ k = (k' : Int) ∧
        winBegin begin ≤ pos ∧ pos < winEnd seq begin length ∧ k' ≤ P.maxerr ∧
        (∃ a, winBegin begin ≤ a ∧ a ≤ pos + 1 ∧
          editDist accepts P.codes (((seq.map encodeByte).drop a).take (pos + 1 - a)) = k') ∧
        (∀ a, winBegin begin ≤ a → a ≤ pos + 1 →
          k' ≤ editDist accepts P.codes (((seq.map encodeByte).drop a).take (pos + 1 - a))) := by
  unfold findAllIndex seqData winEnd winBegin
  simp only [Bool.false_eq_true, if_false, List.mem_map, Prod.mk.injEq, Prod.exists]
  rw [manberAll_eq_indel P _ _ _ hi he]
  constructor
  · rintro ⟨a, b, hmem, h1, h2, h3⟩
    obtain ⟨pos, hb, hp, hi', hk, hex, hall⟩ := (manberIndel_mem P _ _ _ hm1 hm (encodeByte_lt26 seq) hno a b).1 hmem
    refine ⟨pos, b, by omega, by omega, by omega, hb, by simpa using hp, hk, hex, hall⟩
  · rintro ⟨pos, k', h1, h2, h3, hb, hp, hk, hex, hall⟩
    refine ⟨s, k', ?_, rfl, by omega, by omega⟩
    exact (manberIndel_mem P _ _ _ hm1 hm (encodeByte_lt26 seq) hno _ _).2 ⟨pos, hb, by simpa using hp, h1, hk, hex, hall⟩

/-- a raw hit, unpacked: end position `pos + 1 ≤ |seq|`, error level `k'`, a witness substring `seq[a : pos+1]` -/
theorem rawHit_witness (P : Pattern) (seq : Bytes) (begin length : Int)
    (hi : P.hasIndel = true) (he : P.maxerr ≠ 0) (hm1 : 1 ≤ P.patlen) (hm : P.patlen ≤ 63)
    (hno : ∀ a ∈ P.codes, oblig a = false) (h : Hit) (hh : h ∈ findAllIndex P seq false begin length) :
    ∃ pos k' a : Nat, h.1 = (pos : Int) - P.patlen + 1 ∧ h.2.1 = h.1 + P.patlen ∧ h.2.1 = ((pos + 1 : Nat) : Int) ∧
      h.2.2 = (k' : Int) ∧ pos + 1 ≤ seq.length ∧ k' ≤ P.maxerr ∧ a ≤ pos + 1 ∧
      editDist accepts P.codes (((seq.map encodeByte).drop a).take (pos + 1 - a)) = k' := by
  obtain ⟨s, e, k⟩ := h
  obtain ⟨pos, k', h1, h2, h3, _, hp, hk, ⟨a, _, ha, hd⟩, _⟩ :=
    (findAllIndex_indel_iff P seq begin length hi he hm1 hm hno s e k).1 hh
  refine ⟨pos, k', a, h1, h2, ?_, h3, ?_, hk, ha, hd⟩
  · simp only; omega
  · unfold winEnd at hp; omega

theorem mapM_option_mem_of {α β : Type} (f : α → Option β) (l : List α) (out : List β) (h : l.mapM f = some out) :
    ∀ x ∈ l, ∀ y, f x = some y → y ∈ out := by
  induction l generalizing out with
  | nil => intro x hx; cases hx
  | cons a l ih =>
    cases hfa : f a with
    | none => simp [List.mapM_cons, hfa] at h
    | some b =>
      cases hml : l.mapM f with
      | none => simp [List.mapM_cons, hfa, hml] at h
      | some bs =>
        simp [List.mapM_cons, hfa, hml] at h
        subst h
        intro x hx y hy
        rcases List.mem_cons.1 hx with rfl | hx
        · rw [hfa] at hy
          simp only [Option.some.injEq] at hy
          subst hy
          simp
        · exact List.mem_cons_of_mem _ (ih bs hml x hx y hy)

theorem allMatches_mem_of (P : Pattern) (seq : Bytes) (circular : Bool) (begin length : Int) (out : List Hit)
    (hout : allMatches P seq circular begin length = .ok out) (h x : Hit)
    (hh : h ∈ filterBestMatch P seq circular begin length) (hx : allMatchStep P seq h = some x)
    (hb : x.2.2 ≤ (P.maxerr : Int)) : x ∈ out := by
  unfold allMatches at hout
  split at hout
  · cases hout
  · rename_i l hl
    simp only [Outcome.ok.injEq] at hout
    subst hout
    rw [List.mem_filter]
    refine ⟨mapM_option_mem_of _ _ _ hl h hh x hx, ?_⟩
    simpa using hb

/-! ## completeness of `AllMatches` -/

/-- the re-alignment fragment of `AllMatches` for the hit `h` -/
def amStart (h : Hit) : Int := max (h.1 - 2 * h.2.2) 0
def amEnd (P : Pattern) (seq : Bytes) (h : Hit) : Int := min (amStart h + P.patlen + 4 * h.2.2) seq.length

/-- **completeness of `AllMatches`** (indel mode, linear sequence, no obligatory position, `Compat`): every raw hit `r`
of `FindAllIndex` is represented by a hit `h` kept by `FilterBestMatch` — at most as many errors, linked to `r` through a
chain of overlapping hits, touching `r` when it has as many errors — and `h` gives an element `x` of the result: `h`
itself when it has no error, otherwise a span of the re-alignment fragment of `h` carrying its exact `_samenuc` distance
to the pattern string, which is minimal over all substrings of the fragment and at most the error level of `h`. -/
theorem allMatches_complete (P : Pattern) (seq : Bytes) (begin length : Int) (out : List Hit)
    (hi : P.hasIndel = true) (he : P.maxerr ≠ 0) (hmax : P.maxerr < 10000) (hm1 : 1 ≤ P.patlen) (hm : P.patlen ≤ 63)
    (hno : ∀ a ∈ P.codes, oblig a = false) (hC : Compat P)
    (hout : allMatches P seq false begin length = .ok out) :
    ∀ r ∈ findAllIndex P seq false begin length,
      ∃ h ∈ filterBestMatch P seq false begin length, ∃ x ∈ out,
        h.2.2 ≤ r.2.2 ∧ Linked r h ∧ (h.2.2 = r.2.2 → Touch h r) ∧
        allMatchStep P seq h = some x ∧ 0 ≤ x.2.2 ∧ x.2.2 ≤ h.2.2 ∧ (h.2.2 = 0 → x = h) ∧
        (0 < h.2.2 → SpanDist P seq x ∧ amStart h ≤ x.1 ∧ x.2.1 ≤ amEnd P seq h ∧
          ∀ a b : Nat, amStart h ≤ (a : Int) → a ≤ b → (b : Int) ≤ amEnd P seq h →
            x.2.2 ≤ (editDist samenuc P.locPat ((seq.drop a).take (b - a)) : Nat)) := by
  intro r hr
  have hok : ∀ x ∈ findAllIndex P seq false begin length, 0 ≤ x.2.2 ∧ x.2.2 < 10000 ∧ x.1 < x.2.1 := by
    intro x hx
    obtain ⟨h1, h2, h3⟩ := findAllIndex_err_le P seq false begin length x hx
    exact ⟨h1, by omega, by omega⟩
  obtain ⟨h, hh, hle, hlink, htouch⟩ :=
    filterBest_cover_touch _ (findAllIndex_sorted P seq false begin length) hok r hr
  have hraw := filterBest_subset _ h hh
  obtain ⟨pos, k', a, h1, h2, h3, h4, hp, hk, ha, hd⟩ := rawHit_witness P seq begin length hi he hm1 hm hno h hraw
  by_cases hk0 : k' = 0
  · -- no error: passed unchanged
    have hstep : allMatchStep P seq h = some h := by
      unfold allMatchStep
      have hc : (decide (h.2.2 > 0) && P.hasIndel) = false := by
        simp only [hi, Bool.and_true, decide_eq_false_iff_not]; omega
      simp only [hc, Bool.false_eq_true, if_false]
    refine ⟨h, hh, h, allMatches_mem_of P seq false begin length out hout h h hh hstep (by omega), hle, hlink, htouch,
      hstep, by omega, Int.le_refl _, fun _ => rfl, fun hpos => by omega⟩
  · obtain ⟨x, hstep, hx0, hxle, hsd, hb1, hb2, hmin⟩ :=
      allMatchStep_keeps P seq h a (pos + 1) k' hi h4 (by omega) h2 h3 hp hm1 hC ha (by omega)
    refine ⟨h, hh, x, allMatches_mem_of P seq false begin length out hout h x hh hstep (by omega), hle, hlink, htouch,
      hstep, hx0, hxle, fun h0 => by omega, fun _ => ⟨hsd, hb1, hb2, hmin⟩⟩

/-- **completeness in terms of substrings**: if some substring `seq[a : pos+1]` of the search window, ending at `pos`, is
within compiled edit distance `d ≤ maxerr` of the pattern, then a raw hit `(pos-m+1, pos+1, k)` with `k ≤ d` is reported, a
kept hit `h` with at most `k` errors is linked to it, and the result contains the re-alignment `x` of `h`, with at most
as many errors as `h`. -/
theorem allMatches_complete_substring (P : Pattern) (seq : Bytes) (begin length : Int) (out : List Hit)
    (hi : P.hasIndel = true) (he : P.maxerr ≠ 0) (hmax : P.maxerr < 10000) (hm1 : 1 ≤ P.patlen) (hm : P.patlen ≤ 63)
    (hno : ∀ a ∈ P.codes, oblig a = false) (hC : Compat P)
    (hout : allMatches P seq false begin length = .ok out)
    (pos a : Nat) (hb : winBegin begin ≤ a) (ha : a ≤ pos + 1) (hb' : winBegin begin ≤ pos) (hp : pos < winEnd seq begin length)
    (hd : editDist accepts P.codes (((seq.map encodeByte).drop a).take (pos + 1 - a)) ≤ P.maxerr) :
    ∃ k : Nat, k ≤ editDist accepts P.codes (((seq.map encodeByte).drop a).take (pos + 1 - a)) ∧
      ((pos : Int) - P.patlen + 1, (pos : Int) + 1, (k : Int)) ∈ findAllIndex P seq false begin length ∧
      ∃ h ∈ filterBestMatch P seq false begin length, ∃ x ∈ out,
        h.2.2 ≤ (k : Int) ∧ Linked ((pos : Int) - P.patlen + 1, (pos : Int) + 1, (k : Int)) h ∧
        (h.2.2 = (k : Int) → Touch h ((pos : Int) - P.patlen + 1, (pos : Int) + 1, (k : Int))) ∧
        allMatchStep P seq h = some x ∧ 0 ≤ x.2.2 ∧ x.2.2 ≤ h.2.2 ∧ (h.2.2 = 0 → x = h) ∧
        (0 < h.2.2 → SpanDist P seq x ∧ amStart h ≤ x.1 ∧ x.2.1 ≤ amEnd P seq h ∧
          ∀ a b : Nat, amStart h ≤ (a : Int) → a ≤ b → (b : Int) ≤ amEnd P seq h →
            x.2.2 ≤ (editDist samenuc P.locPat ((seq.drop a).take (b - a)) : Nat)) := by
  have hex : ∃ k, ((pos : Int) - P.patlen + 1, k) ∈
      manberIndel P (seq.map encodeByte) (winBegin begin)
        ((if length < 0 then (seq.length : Int) else length).toNat + Gen.apatMaxPatLen) := by
    apply (manberIndel_hit_iff P _ _ _ hm1 hm (encodeByte_lt26 seq) hno pos).2
    refine ⟨hb', ?_, a, hb, ha, hd⟩
    unfold winEnd at hp
    simpa using hp
  obtain ⟨k, hkmem⟩ := hex
  obtain ⟨pos', q1, q2, q3, q4, q5, q6⟩ := (manberIndel_mem P _ _ _ hm1 hm (encodeByte_lt26 seq) hno _ k).1 hkmem
  have hpp : pos' = pos := by omega
  subst hpp
  have hraw : ((pos' : Int) - P.patlen + 1, (pos' : Int) + 1, (k : Int)) ∈ findAllIndex P seq false begin length := by
    apply (findAllIndex_indel_iff P seq begin length hi he hm1 hm hno _ _ _).2
    exact ⟨pos', k, rfl, by omega, rfl, hb', hp, q4, q5, q6⟩
  refine ⟨k, q6 a hb ha, hraw, ?_⟩
  exact allMatches_complete P seq begin length out hi he hmax hm1 hm hno hC hout _ hraw

/-! ## completeness of `BestMatch` -/

/-- the re-alignment fragment of `BestMatch` for the selected hit `h` -/
def bmStart (h : Hit) : Int := max (h.1 - h.2.2) 0
def bmEnd (P : Pattern) (seq : Bytes) (h : Hit) : Int := min (h.1 + P.patlen + h.2.2) seq.length

/-- a raw hit without error has a non-negative start (its witness substring has the length of the pattern) -/
theorem rawHit_zero_start (P : Pattern) (seq : Bytes) (begin length : Int)
    (hi : P.hasIndel = true) (he : P.maxerr ≠ 0) (hm1 : 1 ≤ P.patlen) (hm : P.patlen ≤ 63)
    (hno : ∀ a ∈ P.codes, oblig a = false) (h : Hit) (hh : h ∈ findAllIndex P seq false begin length)
    (h0 : h.2.2 = 0) : 0 ≤ h.1 := by
  obtain ⟨pos, k', a, h1, h2, h3, h4, hp, hk, ha, hd⟩ := rawHit_witness P seq begin length hi he hm1 hm hno h hh
  have := witness_start P seq a (pos + 1) k' ha hp (by omega)
  omega

/-- **`BestMatch` finds something whenever `FindAllIndex` does** (indel mode, linear sequence): the answer is the selected
raw hit when it has no error, otherwise a span of its re-alignment fragment `[max(s-k,0), min(s+m+k,n))` with its exact
`_samenuc` distance, minimal over the substrings of the fragment -/
theorem bestMatch_found (P : Pattern) (seq : Bytes) (begin length : Int)
    (hi : P.hasIndel = true) (he : P.maxerr ≠ 0) (hmax : P.maxerr < 10000) (hm1 : 1 ≤ P.patlen) (hm : P.patlen ≤ 63)
    (hno : ∀ a ∈ P.codes, oblig a = false) (hl : P.locPat.length = P.patlen)
    (hne : findAllIndex P seq false begin length ≠ []) :
    ∃ s e k, bestMatch P seq false begin length = .ok (s, e, k, true) ∧ 0 ≤ k ∧
      ((bestOf (findAllIndex P seq false begin length)).2.2 = 0 →
        (s, e, k) = bestOf (findAllIndex P seq false begin length)) ∧
      ((bestOf (findAllIndex P seq false begin length)).2.2 ≠ 0 →
        SpanDist P seq (s, e, k) ∧ bmStart (bestOf (findAllIndex P seq false begin length)) ≤ s ∧
        e ≤ bmEnd P seq (bestOf (findAllIndex P seq false begin length)) ∧
        ∀ a b : Nat, bmStart (bestOf (findAllIndex P seq false begin length)) ≤ (a : Int) → a ≤ b →
          (b : Int) ≤ bmEnd P seq (bestOf (findAllIndex P seq false begin length)) →
          k ≤ (editDist samenuc P.locPat ((seq.drop a).take (b - a)) : Nat)) := by
  have hlt : ∀ m ∈ findAllIndex P seq false begin length, m.2.2 < 10000 := by
    intro m hm'
    have := (findAllIndex_err_le P seq false begin length m hm').2.1
    omega
  obtain ⟨hmem, _⟩ := bestOf_mem _ hlt hne
  have hemp : (findAllIndex P seq false begin length).isEmpty = false := by
    cases hres : findAllIndex P seq false begin length with
    | nil => exact absurd hres hne
    | cons x l => rfl
  obtain ⟨pos, k', a, h1, h2, h3, h4, hp, hk, ha, hd⟩ :=
    rawHit_witness P seq begin length hi he hm1 hm hno _ hmem
  have hz := rawHit_zero_start P seq begin length hi he hm1 hm hno _ hmem
  unfold bestMatch
  simp only [hemp, Bool.false_eq_true, if_false]
  generalize bestOf (findAllIndex P seq false begin length) = best at *
  by_cases hk0 : k' = 0
  · have hb0 : best.2.2 = 0 := by omega
    have hg : (decide (best.1 < 0) && (best.2.2 == 0 || !P.hasIndel) || decide (best.2.1 > (seq.length : Int))) = false := by
      have := hz hb0
      simp only [Bool.or_eq_false_iff, Bool.and_eq_false_iff, decide_eq_false_iff_not]
      exact ⟨Or.inl (by omega), by omega⟩
    have hc : (best.2.2 == 0 || !P.hasIndel) = true := by simp [hb0]
    simp only [hg, Bool.false_eq_true, if_false]
    simp only [hc, if_true]
    exact ⟨best.1, best.2.1, best.2.2, rfl, by omega, fun _ => rfl, fun hn => absurd hb0 hn⟩
  · have hc : (best.2.2 == 0 || !P.hasIndel) = false := by
      simp only [hi, Bool.not_true, Bool.or_false, beq_eq_false_iff_ne, ne_eq]; omega
    have hg : (decide (best.1 < 0) && (best.2.2 == 0 || !P.hasIndel) || decide (best.2.1 > (seq.length : Int))) = false := by
      rw [hc]
      simp only [Bool.and_false, Bool.false_or, decide_eq_false_iff_not]
      omega
    simp only [hg, Bool.false_eq_true, if_false]
    simp only [hc, Bool.false_eq_true, if_false]
    obtain ⟨frg, pb, pe, score, hgs, hloc, hsd, hb1, hb2, hs0, hmin⟩ :=
      realign_exists P seq (max (best.1 - best.2.2) 0) (min (best.1 + P.patlen + best.2.2) seq.length)
        (locPat_ne_nil P hm1 hl) (by omega) (by omega) (by omega)
    rw [hgs]
    simp only
    rw [hloc]
    refine ⟨_, _, _, rfl, hs0, fun h0 => by omega, fun _ => ⟨hsd, hb1, hb2, hmin⟩⟩

/-- **completeness of `BestMatch`** (indel mode, linear sequence, no obligatory position, `Compat`): whenever
`FindAllIndex` reports something, `BestMatch` reports a match whose error count is at most the least raw error level -/
theorem bestMatch_complete (P : Pattern) (seq : Bytes) (begin length : Int)
    (hi : P.hasIndel = true) (he : P.maxerr ≠ 0) (hmax : P.maxerr < 10000) (hm1 : 1 ≤ P.patlen) (hm : P.patlen ≤ 63)
    (hno : ∀ a ∈ P.codes, oblig a = false) (hC : Compat P)
    (hne : findAllIndex P seq false begin length ≠ []) :
    ∃ s e k, bestMatch P seq false begin length = .ok (s, e, k, true) ∧ 0 ≤ k ∧
      k ≤ (bestOf (findAllIndex P seq false begin length)).2.2 ∧
      (∀ m ∈ findAllIndex P seq false begin length, k ≤ m.2.2) ∧
      ((bestOf (findAllIndex P seq false begin length)).2.2 = 0 →
        (s, e, k) = bestOf (findAllIndex P seq false begin length)) ∧
      ((bestOf (findAllIndex P seq false begin length)).2.2 ≠ 0 →
        SpanDist P seq (s, e, k) ∧ bmStart (bestOf (findAllIndex P seq false begin length)) ≤ s ∧
        e ≤ bmEnd P seq (bestOf (findAllIndex P seq false begin length)) ∧
        ∀ a b : Nat, bmStart (bestOf (findAllIndex P seq false begin length)) ≤ (a : Int) → a ≤ b →
          (b : Int) ≤ bmEnd P seq (bestOf (findAllIndex P seq false begin length)) →
          k ≤ (editDist samenuc P.locPat ((seq.drop a).take (b - a)) : Nat)) := by
  obtain ⟨s, e, k, hbm, hk0, hzero, hpos⟩ := bestMatch_found P seq begin length hi he hmax hm1 hm hno hC.1 hne
  have hlt : ∀ m ∈ findAllIndex P seq false begin length, m.2.2 < 10000 := by
    intro m hm'
    have := (findAllIndex_err_le P seq false begin length m hm').2.1
    omega
  obtain ⟨hmem, hminall⟩ := bestOf_mem _ hlt hne
  have hkb : k ≤ (bestOf (findAllIndex P seq false begin length)).2.2 := by
    by_cases hb0 : (bestOf (findAllIndex P seq false begin length)).2.2 = 0
    · have := hzero hb0
      rw [← this]
      exact Int.le_refl _
    · obtain ⟨_, _, _, hmin⟩ := hpos hb0
      obtain ⟨pos, k', a, h1, h2, h3, h4, hp, hk, ha, hd⟩ :=
        rawHit_witness P seq begin length hi he hm1 hm hno _ hmem
      have hw := witness_start P seq a (pos + 1) k' ha hp (by omega)
      have h5 := hmin a (pos + 1) (by unfold bmStart; omega) ha (by unfold bmEnd; omega)
      have h6 := editDist_samenuc_le_sub P seq hC a (pos + 1 - a)
      omega
  refine ⟨s, e, k, hbm, hk0, hkb, fun m hm' => ?_, hzero, hpos⟩
  have := hminall m hm'
  omega

/-- **`BestMatch` reports a match iff `FindAllIndex` reports a hit** (indel mode, linear sequence) -/
theorem bestMatch_matched_iff (P : Pattern) (seq : Bytes) (begin length : Int)
    (hi : P.hasIndel = true) (he : P.maxerr ≠ 0) (hmax : P.maxerr < 10000) (hm1 : 1 ≤ P.patlen) (hm : P.patlen ≤ 63)
    (hc : P.patlen ≤ P.cpat.length) (hno : ∀ a ∈ P.codes, oblig a = false) :
    (∃ s e k, bestMatch P seq false begin length = .ok (s, e, k, true)) ↔ findAllIndex P seq false begin length ≠ [] := by
  constructor
  · rintro ⟨s, e, k, h⟩
    exact (bestMatch_spec P seq begin length s e k hmax h).1
  · intro hne
    obtain ⟨s, e, k, h, _⟩ := bestMatch_found P seq begin length hi he hmax hm1 hm hno (locPat_length P hc) hne
    exact ⟨s, e, k, h⟩

/-! ## the compiled distance in place of the `_samenuc` distance; checking `Compat` -/

/-- under `CompatEq` the error count of a re-aligned span is the compiled edit distance of the encoded span -/
theorem spanDist_compiled (P : Pattern) (seq : Bytes) (x : Hit) (hC : CompatEq P seq) (h : SpanDist P seq x) :
    x.2.2 = (editDist accepts P.codes (((seq.map encodeByte).drop x.1.toNat).take (x.2.1.toNat - x.1.toNat)) : Nat) := by
  rw [← editDist_samenuc_eq_sub P seq hC]
  exact h.2.2.2

/-- executable check of `Compat` (all 256 byte values at every position) -/
def compatCheck (P : Pattern) : Bool :=
  P.locPat.length == P.patlen &&
    (List.range P.patlen).all fun j => (List.range 256).all fun n =>
      !accepts (P.codes.getD j 0) (encodeByte (UInt8.ofNat n)) || samenuc (P.locPat.getD j 0) (UInt8.ofNat n)

theorem compat_of_check (P : Pattern) (h : compatCheck P = true) : Compat P := by
  unfold compatCheck at h
  simp only [Bool.and_eq_true, beq_iff_eq, List.all_eq_true, List.mem_range, Bool.or_eq_true, Bool.not_eq_true'] at h
  refine ⟨h.1, ?_⟩
  intro j hj c hacc
  have := h.2 j hj c.toNat (UInt8.toNat_lt c)
  rw [UInt8.ofNat_toNat] at this
  rcases this with h1 | h1
  · rw [h1] at hacc; cases hacc
  · exact h1

/-- whole-table check behind `compat_letters` (`X`, letter 23, left out: see `compat_fails_X`) -/
def letterCheck : Bool :=
  (List.range 26).all fun l => l == 23 || (List.range 256).all fun n =>
    !accepts (Gen.apatDnaCode.getD l 0) (encodeByte (UInt8.ofNat n)) || samenuc (UInt8.ofNat (65 + l)) (UInt8.ofNat n)

set_option maxRecDepth 100000 in
theorem letterCheck_true : letterCheck = true := by decide

/-- the IUPAC table of the matcher against `_samenuc`, whole table: for every pattern letter `A..Z` except `X` and every
byte, if the compiled code of the letter accepts the encoded byte then `_samenuc` equates the letter and the byte — the
position-wise condition of `Compat` for a position that is a plain letter -/
theorem compat_letters (l : Nat) (hl : l < 26) (hX : l ≠ 23) (c : UInt8)
    (h : accepts (Gen.apatDnaCode.getD l 0) (encodeByte c) = true) : samenuc (UInt8.ofNat (65 + l)) c = true := by
  have := letterCheck_true
  unfold letterCheck at this
  simp only [List.all_eq_true, List.mem_range, Bool.or_eq_true, Bool.not_eq_true', beq_iff_eq] at this
  rcases this l hl with h0 | h0
  · exact absurd h0 hX
  · have := h0 c.toNat (UInt8.toNat_lt c)
    rw [UInt8.ofNat_toNat] at this
    rcases this with h1 | h1
    · rw [h1] at h; cases h
    · exact h1

/-- **the two tables disagree on `X`**: `sDnaCode['X']` of the matcher accepts `a`, `c`, `g`, `t`, but `_iupac['x']` of
`obialign` is 0, so `_samenuc('X', ·)` is false on every nucleotide: `Compat` fails for a pattern with an `X` -/
theorem compat_fails_X : accepts (Gen.apatDnaCode.getD 23 0) (encodeByte 97) = true ∧ samenuc 88 97 = false := by decide

set_option maxRecDepth 100000 in
/-- test (consequence of `compat_fails_X`, sample evaluation of the model): pattern `AXGTA`, budget 1, indels, sequence
`ttacgttttt` — `FindAllIndex` reports hits with ONE error, `AllMatches` returns nothing (the re-alignment counts the `X`
as a second error and the budget filter drops the hit) and `BestMatch` answers `matched = true` with 2 errors > budget -/
example : (compile ([65, 88, 71, 84, 65] : Bytes) 1 true).toOption.map
    (fun P => (findAllIndex P ([116, 116, 97, 99, 103, 116, 116, 116, 116, 116] : Bytes) false 0 (-1),
      allMatches P ([116, 116, 97, 99, 103, 116, 116, 116, 116, 116] : Bytes) false 0 (-1)))
    = some ([(1, 6, 1), (2, 7, 1)], .ok []) := by decide
set_option maxRecDepth 100000 in
example : (compile ([65, 88, 71, 84, 65] : Bytes) 1 true).toOption.map
    (fun P => bestMatch P ([116, 116, 97, 99, 103, 116, 116, 116, 116, 116] : Bytes) false 0 (-1))
    = some (.ok (2, 7, 2, true)) := by decide

/-- non-vacuity / test: pattern `ACGTA`, budget 1, indels, sequence `cgtatttt` (first pattern symbol missing at offset 0):
the hypotheses of `allMatches_complete` / `bestMatch_complete` hold (`compatCheck`: all 256 bytes at the 5 positions), the
raw hit is `(-1, 4, 1)`, both entry points answer the span `[0, 4)` with one error -/
example : (compile ([65, 67, 71, 84, 65] : Bytes) 1 true).toOption.map
    (fun P => (P.hasIndel, P.maxerr, P.patlen, decide (∀ a ∈ P.codes, oblig a = false)))
    = some (true, 1, 5, true) := by decide
set_option maxRecDepth 100000 in
example : (compile ([65, 67, 71, 84, 65] : Bytes) 1 true).toOption.map compatCheck = some true := by decide
set_option maxRecDepth 100000 in
example : (compile ([65, 67, 71, 84, 65] : Bytes) 1 true).toOption.map
    (fun P => (findAllIndex P ([99, 103, 116, 97, 116, 116, 116, 116] : Bytes) false 0 (-1),
      allMatches P ([99, 103, 116, 97, 116, 116, 116, 116] : Bytes) false 0 (-1)))
    = some ([(-1, 4, 1)], .ok [(0, 4, 1)]) := by decide
set_option maxRecDepth 100000 in
example : (compile ([65, 67, 71, 84, 65] : Bytes) 1 true).toOption.map
    (fun P => bestMatch P ([99, 103, 116, 97, 116, 116, 116, 116] : Bytes) false 0 (-1))
    = some (.ok (0, 4, 1, true)) := by decide

end ObiVerif.Apat
