import ObiVerif.Model.Lcs
import ObiVerif.Lemmas.Lcs
/-!
# The verbatim `D1Or0` refines the structural `d1F` (property C09)

`d1or0` (Model/Lcs.lean) is the line-by-line transcription of `D1Or0` (pkg/obialign/is_d0_or_d1.go): two index loops
over arrays with `Int` indices, a fuel, and an explicit `Err.panic` outcome for an index out of range.
`d1F` is the prefix / suffix stripping on lists on which the theorems of `Props/C09.lean` are stated.

* `prefixScan_spec` : the forward loop stops at the length of the longest common prefix (`stripPre`);
* `suffixScan_spec` : the backward loop, started on residuals whose lengths differ by at most one, never indexes out of
                      range, never runs out of fuel, and stops where `stripSuf` stops;
* `d1or0_refines`   : `d1or0 a b = .ok (d1F a b)` for all inputs, without hypotheses.
-/
namespace ObiVerif.Lcs

theorem getD_mid (l q : Seq) (x : UInt8) : (l ++ x :: q).toArray.getD l.length 0 = x := by
  simp [Array.getD]

theorem byteAt_mid (l q : Seq) (x : UInt8) (k : Int) (hk : k = l.length) :
    byteAt (l ++ x :: q).toArray k = .ok x := by
  subst hk
  unfold byteAt
  have h : (0:Int) ≤ (l.length : Int) ∧ (l.length : Int) < ((l ++ x :: q).toArray.size : Nat) := by
    simp; omega
  rw [if_pos h]
  simp [Array.getD]

theorem prefixScan_spec (u : Seq) : ∀ (p v : Seq) (fuel : Nat), u.length + 1 ≤ fuel →
    prefixScan (p ++ u).toArray (p ++ v).toArray fuel p.length
      = p.length + (u.length - (stripPre u v).1.length) := by
  induction u with
  | nil =>
    intro p v fuel hf
    obtain ⟨f, rfl⟩ : ∃ f, fuel = f + 1 := ⟨fuel - 1, by omega⟩
    simp [prefixScan, stripPre]
  | cons x us ih =>
    intro p v fuel hf
    obtain ⟨f, rfl⟩ : ∃ f, fuel = f + 1 := ⟨fuel - 1, by omega⟩
    cases v with
    | nil => simp [prefixScan, stripPre]
    | cons y vs =>
      unfold prefixScan
      rw [getD_mid, getD_mid]
      by_cases h : x = y
      · subst h
        have hc : p.length < (p ++ x :: us).toArray.size ∧ p.length < (p ++ x :: vs).toArray.size ∧ (x == x) = true := by
          simp
        rw [if_pos hc]
        have := ih (p ++ [x]) vs f (by simp at hf; omega)
        simp only [List.append_assoc, List.singleton_append, List.length_append, List.length_singleton] at this
        rw [this]
        simp [stripPre]
        have := stripPre_spec us vs
        obtain ⟨pp, h1, _⟩ := this
        have := congrArg List.length h1
        simp at this
        omega
      · have hc : ¬ (p.length < (p ++ x :: us).toArray.size ∧ p.length < (p ++ y :: vs).toArray.size ∧ (x == y) = true) := by
          simp [h]
        rw [if_neg hc]
        simp [stripPre, h]

theorem suffixScan_spec (pa pb : Seq) (bn : Int) (hpa : bn = pa.length) (hpb : bn = pb.length) (xs : Seq) :
    ∀ (ys qa qb : Seq) (fuel : Nat), xs.length + 1 ≤ fuel →
      xs.length ≤ ys.length + 1 → ys.length ≤ xs.length + 1 →
      suffixScan (pa ++ xs.reverse ++ qa).toArray (pb ++ ys.reverse ++ qb).toArray bn fuel
        (bn + xs.length - 1) (bn + ys.length - 1)
      = .ok (bn + (stripSuf xs ys).1.length - 1, bn + (stripSuf xs ys).2.length - 1) := by
  induction xs with
  | nil =>
    intro ys qa qb fuel hf h1 h2
    obtain ⟨f, rfl⟩ : ∃ f, fuel = f + 1 := ⟨fuel - 1, by omega⟩
    unfold suffixScan
    have hc : ¬ (bn + (([] : Seq).length : Int) - 1 > bn ∨ bn + (ys.length : Int) - 1 > bn) := by
      simp at h2 ⊢; omega
    rw [if_neg hc]
    cases ys <;> rfl
  | cons x xs ih =>
    intro ys qa qb fuel hf h1 h2
    obtain ⟨f, rfl⟩ : ∃ f, fuel = f + 1 := ⟨fuel - 1, by omega⟩
    cases ys with
    | nil =>
      unfold suffixScan
      have hc : ¬ (bn + ((x :: xs).length : Int) - 1 > bn ∨ bn + (([] : Seq).length : Int) - 1 > bn) := by
        simp only [List.length_cons, List.length_nil] at h1 ⊢; omega
      rw [if_neg hc]
      rfl
    | cons y ys =>
      unfold suffixScan
      by_cases hc : xs ≠ [] ∨ ys ≠ []
      · have hc' : bn + ((x :: xs).length : Int) - 1 > bn ∨ bn + ((y :: ys).length : Int) - 1 > bn := by
          rcases hc with hc | hc
          · left; have := List.length_pos_iff.mpr hc; simp only [List.length_cons]; omega
          · right; have := List.length_pos_iff.mpr hc; simp only [List.length_cons]; omega
        rw [if_pos hc']
        have ea : pa ++ (x :: xs).reverse ++ qa = (pa ++ xs.reverse) ++ x :: qa := by simp
        have eb : pb ++ (y :: ys).reverse ++ qb = (pb ++ ys.reverse) ++ y :: qb := by simp
        rw [ea, eb]
        rw [byteAt_mid _ _ _ _ (by simp; omega), byteAt_mid _ _ _ _ (by simp; omega)]
        simp only
        by_cases hxy : x = y
        · subst hxy
          simp only [beq_self_eq_true, if_true]
          have := ih ys (x :: qa) (x :: qb) f (by simp at hf; omega) (by simp at h1; omega) (by simp at h2; omega)
          rw [stripSuf_cons_pos ⟨hc, rfl⟩]
          rw [← this]
          congr 1 <;> (simp; omega)
        · have : (x == y) = false := by simp [hxy]
          rw [this]
          rw [stripSuf_cons_neg (fun h => hxy h.2)]
          rfl
      · have hc' : ¬ (bn + ((x :: xs).length : Int) - 1 > bn ∨ bn + ((y :: ys).length : Int) - 1 > bn) := by
          have hx : xs = [] := by
            cases xs with
            | nil => rfl
            | cons _ _ => exact absurd (Or.inl (by simp)) hc
          have hy : ys = [] := by
            cases ys with
            | nil => rfl
            | cons _ _ => exact absurd (Or.inr (by simp)) hc
          subst hx; subst hy; simp
        rw [if_neg hc']
        rw [stripSuf_cons_neg (fun h => hc h.1)]


theorem stripSuf_ne_nil (xs : Seq) : ∀ ys : Seq, (xs ≠ [] ∨ ys ≠ []) →
    ((stripSuf xs ys).1 ≠ [] ∨ (stripSuf xs ys).2 ≠ []) := by
  induction xs with
  | nil =>
    intro ys h
    cases ys with
    | nil => simp at h
    | cons y ys => simp [stripSuf]
  | cons x xs ih =>
    intro ys h
    cases ys with
    | nil => simp [stripSuf]
    | cons y ys =>
      by_cases hc : (xs ≠ [] ∨ ys ≠ []) ∧ x = y
      · rw [stripSuf_cons_pos hc]; exact ih ys hc.1
      · rw [stripSuf_cons_neg hc]; simp

theorem bad_iff (la lb : Nat) (bn : Int) (s : Seq × Seq) :
    ((((la : Int) == (lb : Int)) = true ∧ (bn + (s.1.length : Int) - 1 > bn ∨ bn + (s.2.length : Int) - 1 > bn)) ∨
      ((la : Int) > (lb : Int) ∧ bn + (s.1.length : Int) - 1 > bn) ∨
      ((la : Int) < (lb : Int) ∧ bn + (s.2.length : Int) - 1 > bn)) ↔ d1Bad la lb s = true := by
  unfold d1Bad
  simp only [beq_iff_eq]
  split
  · simp only [decide_eq_true_eq]; omega
  · split
    · simp only [decide_eq_true_eq]; omega
    · simp only [decide_eq_true_eq]; omega


theorem d1or0_tail (a b p r1 r2 : Seq) (ha : a = p ++ r1) (hb : b = p ++ r2)
    (hbn : prefixScan a.toArray b.toArray (a.length + 1) 0 = p.length)
    (hne : ¬ (r1 = [] ∧ r2 = [])) (h1 : r1.length ≤ r2.length + 1) (h2 : r2.length ≤ r1.length + 1) :
    d1or0 a b = .ok (d1Fin a.length b.length r1.length (stripSuf r1.reverse r2.reverse)) := by
  have hla : a.length = p.length + r1.length := by rw [ha]; simp
  have hlb : b.length = p.length + r2.length := by rw [hb]; simp
  have hlaI : (a.length : Int) = (p.length : Int) + (r1.length : Int) := by omega
  have hlbI : (b.length : Int) = (p.length : Int) + (r2.length : Int) := by omega
  -- the backward scan
  have hs := suffixScan_spec p p (p.length : Int) rfl rfl r1.reverse r2.reverse [] []
    (a.length + b.length + 2) (by simp; omega) (by simp; omega) (by simp; omega)
  simp only [List.reverse_reverse, List.append_nil, ← ha, ← hb, List.length_reverse, ← hlaI, ← hlbI] at hs
  obtain ⟨q, hq1, hq2⟩ := stripSuf_spec r1.reverse r2.reverse
  have hnn := stripSuf_ne_nil r1.reverse r2.reverse (by
    simp only [ne_eq, List.reverse_eq_nil_iff]
    by_cases h : r1 = []
    · right; exact fun h' => hne ⟨h, h'⟩
    · left; exact h)
  generalize stripSuf r1.reverse r2.reverse = s at hs hq1 hq2 hnn ⊢
  obtain ⟨s1, s2⟩ := s
  simp only at hs hq1 hq2 hnn
  have e1 : r1 = s1.reverse ++ q.reverse := by
    have := congrArg List.reverse hq1; simpa using this
  have e2 : r2 = s2.reverse ++ q.reverse := by
    have := congrArg List.reverse hq2; simpa using this
  have l1 : r1.length = s1.length + q.length := by rw [e1]; simp
  have l2 : r2.length = s2.length + q.length := by rw [e2]; simp
  have hlen : ¬ ((if (a.length : Int) - (b.length : Int) < 0 then -((a.length : Int) - (b.length : Int))
      else (a.length : Int) - (b.length : Int)) > 1) := by
    split <;> omega
  have hzero : ¬ ((((p.length : Nat) : Int) == (a.length : Int)) = true ∧ (((p.length : Nat) : Int) == (b.length : Int)) = true) := by
    simp only [beq_iff_eq]
    intro h
    apply hne
    constructor <;> apply List.eq_nil_of_length_eq_zero <;> omega
  unfold d1or0
  simp only [bind, Except.bind, pure, Except.pure]
  rw [if_neg hlen, hbn, if_neg hzero, hs]
  simp only
  cases hbad : d1Bad a.length b.length (s1, s2) with
  | true =>
    rw [d1Fin_bad hbad, if_pos ((bad_iff a.length b.length p.length (s1, s2)).mpr hbad)]
  | false =>
    have hnb := fun h => (Bool.eq_false_iff.mp hbad) ((bad_iff a.length b.length p.length (s1, s2)).mp h)
    rw [d1Fin_good hbad, if_neg hnb]
    have hb12 : s1.length ≤ 1 ∧ s2.length ≤ 1 := by
      unfold d1Bad at hbad
      simp only at hbad
      split at hbad
      · simp only [decide_eq_false_iff_not] at hbad; omega
      · split at hbad
        · simp only [decide_eq_false_iff_not] at hbad; omega
        · simp only [decide_eq_false_iff_not] at hbad; omega
    rcases len_le_one_cases _ hb12.1 with hs1 | ⟨x, hs1⟩ <;>
      rcases len_le_one_cases _ hb12.2 with hs2 | ⟨y, hs2⟩ <;> subst hs1 <;> subst hs2
    · simp at hnn
    · have hby : byteAt b.toArray ((p.length : Int) + (([y] : Seq).length : Int) - 1) = .ok y := by
        rw [hb, e2]
        exact byteAt_mid p q.reverse y _ (by simp)
      rw [if_pos (by simp <;> omega), hby]
      simp only
      rw [if_neg (by simp <;> omega)]
      simp only [List.length_nil, List.length_cons, List.headD_cons]
      have hpos : a.length - r1.length = p.length := by omega
      rw [hpos]
      simp
      try omega
    · have hbx : byteAt a.toArray ((p.length : Int) + (([x] : Seq).length : Int) - 1) = .ok x := by
        rw [ha, e1]
        exact byteAt_mid p q.reverse x _ (by simp)
      rw [if_neg (by simp <;> omega), if_pos (by simp <;> omega), hbx]
      simp only [List.length_nil, List.length_cons, List.headD_cons]
      have hpos : a.length - r1.length = p.length := by omega
      rw [hpos]
      simp
      try omega
    · have hbx : byteAt a.toArray ((p.length : Int) + (([x] : Seq).length : Int) - 1) = .ok x := by
        rw [ha, e1]
        exact byteAt_mid p q.reverse x _ (by simp)
      have hby : byteAt b.toArray ((p.length : Int) + (([y] : Seq).length : Int) - 1) = .ok y := by
        rw [hb, e2]
        exact byteAt_mid p q.reverse y _ (by simp)
      rw [if_pos (by simp <;> omega), hby]
      simp only
      rw [if_pos (by simp <;> omega), hbx]
      simp only [List.length_nil, List.length_cons, List.headD_cons]
      have hpos : a.length - r1.length = p.length := by omega
      rw [hpos]
      simp
      try omega

/-- the verbatim index loops of `D1Or0` compute exactly the structural `d1F`, on every input: in particular they
never index out of range (`Err.panic`) and the fuel of the transcription is never exhausted (`Err.fuel`) -/
theorem d1or0_refines (a b : Seq) : d1or0 a b = .ok (d1F a b) := by
  by_cases hlen : a.length > b.length + 1 ∨ b.length > a.length + 1
  · have hc : (if (a.length : Int) - (b.length : Int) < 0 then -((a.length : Int) - (b.length : Int))
        else (a.length : Int) - (b.length : Int)) > 1 := by
      split <;> omega
    unfold d1or0 d1F
    simp only [bind, Except.bind, pure, Except.pure]
    rw [if_pos hc, if_pos hlen]
  · obtain ⟨p, ha, hb, _⟩ := stripPre_spec a b
    have hla : a.length = p.length + (stripPre a b).1.length := by
      have := congrArg List.length ha; simpa using this
    have hlb : b.length = p.length + (stripPre a b).2.length := by
      have := congrArg List.length hb; simpa using this
    have hbn : prefixScan a.toArray b.toArray (a.length + 1) 0 = p.length := by
      have := prefixScan_spec a [] b (a.length + 1) (Nat.le_refl _)
      simp only [List.nil_append, List.length_nil, Nat.zero_add] at this
      rw [this]; omega
    by_cases hnil : (stripPre a b).1 = [] ∧ (stripPre a b).2 = []
    · have e1 : (p.length : Int) = (a.length : Int) := by rw [hla, hnil.1]; simp
      have e2 : (p.length : Int) = (b.length : Int) := by rw [hlb, hnil.2]; simp
      have hc : ¬ ((if (a.length : Int) - (b.length : Int) < 0 then -((a.length : Int) - (b.length : Int))
          else (a.length : Int) - (b.length : Int)) > 1) := by
        split <;> omega
      have hz : (((p.length : Nat) : Int) == (a.length : Int)) = true ∧
          (((p.length : Nat) : Int) == (b.length : Int)) = true := by
        simp only [beq_iff_eq]; exact ⟨e1, e2⟩
      unfold d1or0 d1F d1Mid
      simp only [bind, Except.bind, pure, Except.pure]
      rw [if_neg hc, hbn, if_pos hz, if_neg hlen, if_pos hnil]
    · rw [d1or0_tail a b p _ _ ha hb hbn hnil (by omega) (by omega)]
      unfold d1F d1Mid
      rw [if_neg hlen, if_neg hnil]

end ObiVerif.Lcs
