import ObiVerif.Lemmas.DemuxDelim
/-! helper lemmas for C12: the rescue scanner `lookForRescueTag` on the layout
`… o d^sp T d^sp` (`o ≠ d`), the two rescue tag extractors on the windows of a built read whose tag
length differs from the declared one by at most `indels`, and the limits of the rescue. -/
namespace ObiVerif.Demux
open ObiVerif.SeqOps (Bytes rc subsequence nucComplement)

/-- `scanDown` inside the array is `skipWhile` -/
theorem scanDown_eq (a : Array UInt8) (p : UInt8 → Bool) (i : Int) (h0 : 0 ≤ i)
    (h1 : i < (a.size : Int)) :
    scanDown a p i = .ok (((skipWhile a p (i.toNat + 1) : Nat) : Int) - 1) := by
  unfold scanDown
  rw [if_neg (by omega), if_neg (by omega)]

/-- a run `Q` of characters satisfying `p`, entered anywhere, is skipped down to the character `x`
that stops it -/
theorem skipWhile_run (P Q R : Bytes) (x : UInt8) (p : UInt8 → Bool) (hx : p x = false)
    (hQ : ∀ q ∈ Q, p q = true) (k : Nat) (hk : k ≤ Q.length) :
    skipWhile (P ++ x :: (Q ++ R)).toArray p (P.length + 1 + k) = P.length + 1 := by
  have e : P ++ x :: (Q ++ R) = (P ++ [x]) ++ Q.take k ++ (Q.drop k ++ R) := by
    rw [List.append_assoc (P ++ [x]), ← List.append_assoc (Q.take k), List.take_append_drop]
    simp
  have l : P.length + 1 + k = (P ++ [x]).length + (Q.take k).length := by
    simp only [List.length_append, List.length_cons, List.length_nil, List.length_take]
    omega
  rw [l, e, skipWhile_all (P ++ [x]) (Q.take k) _ p (fun q hq => hQ q (List.mem_of_mem_take hq))]
  have e2 : (P ++ [x]) ++ Q.take k ++ (Q.drop k ++ R) = P ++ x :: (Q.take k ++ (Q.drop k ++ R)) := by
    simp
  have l2 : (P ++ [x]).length = P.length + 1 := by simp
  rw [l2, e2]
  exact skipWhile_stop _ _ x p hx

/-- the trace of `lookForRescueTag` given the four scans -/
theorem rescue_core (seq T : Bytes) (d : UInt8) (n sp t : Nat) (tl ind : Int)
    (hlen : seq.length = n + 2 * sp + t + 1) (hsp : 0 < sp) (ht : 0 < t)
    (h1 : skipWhile seq.toArray (· != d) (n + 2 * sp + t + 1) = n + 2 * sp + t + 1)
    (h2 : skipWhile seq.toArray (· == d) (n + 2 * sp + t + 1) = n + sp + t + 1)
    (h3 : ∀ k, k ≤ t → skipWhile seq.toArray (· != d) (n + sp + 1 + k) = n + sp + 1)
    (h4 : skipWhile seq.toArray (· == d) (n + sp + 1) = n + 1)
    (hs : slice seq ((n : Int) + sp + 1) ((n : Int) + sp + 1 + t) = .ok T)
    (hind : 0 ≤ ind) (hit : ind ≤ tl) (ha : (t : Int) - tl ≤ ind) (hb : tl - (t : Int) ≤ ind) :
    lookForRescueTag seq d tl (sp : Int) ind = .ok T := by
  have hsz : (seq.toArray.size : Int) = (n : Int) + 2 * sp + t + 1 := by
    simp only [List.size_toArray, hlen]; omega
  obtain ⟨i1, hi1, s1⟩ : ∃ i1 : Int, i1 = (n : Int) + 2 * sp + t ∧
      scanDown seq.toArray (· != d) ((seq.length : Int) - 1) = .ok i1 := by
    refine ⟨_, ?_, scanDown_eq _ _ _ (by omega) (by omega)⟩
    rw [show ((seq.length : Int) - 1).toNat + 1 = n + 2 * sp + t + 1 by omega, h1]
    omega
  obtain ⟨i2, hi2, s2⟩ : ∃ i2 : Int, i2 = (n : Int) + sp + t ∧
      scanDown seq.toArray (· == d) i1 = .ok i2 := by
    refine ⟨_, ?_, scanDown_eq _ _ _ (by omega) (by omega)⟩
    rw [show i1.toNat + 1 = n + 2 * sp + t + 1 by omega, h2]
    omega
  obtain ⟨i5, hi5, s5⟩ : ∃ i5 : Int, i5 = (n : Int) + sp ∧
      scanDown seq.toArray (· != d) (i2 - (tl - ind)) = .ok i5 := by
    refine ⟨_, ?_, scanDown_eq _ _ _ (by omega) (by omega)⟩
    rw [show (i2 - (tl - ind)).toNat + 1 = n + sp + 1 + ((t : Int) - (tl - ind)).toNat by omega,
      h3 _ (by omega)]
    omega
  obtain ⟨i6, hi6, s6⟩ : ∃ i6 : Int, i6 = (n : Int) ∧
      scanDown seq.toArray (· == d) i5 = .ok i6 := by
    refine ⟨_, ?_, scanDown_eq _ _ _ (by omega) (by omega)⟩
    rw [show i5.toNat + 1 = n + sp + 1 by omega, h4]
    omega
  unfold lookForRescueTag
  simp only [s1, s2, bind, Except.bind, pure, Except.pure]
  rw [if_neg (by omega), if_neg (by omega)]
  simp only [s5, s6]
  have eb : i6 + min (i5 - i6) (sp : Int) + 1 = (n : Int) + sp + 1 := by omega
  have ee : i2 + 1 = (n : Int) + sp + 1 + t := by omega
  rw [eb, ee, hs, if_neg]
  intro h
  rcases h with h | h
  · omega
  · split at h <;> omega

theorem skipWhile_run' (seq P Q R : Bytes) (x : UInt8) (p : UInt8 → Bool) (hx : p x = false)
    (hQ : ∀ q ∈ Q, p q = true) (k : Nat) (hk : k ≤ Q.length) (e : seq = P ++ x :: (Q ++ R))
    (a b : Nat) (ha : a = P.length + 1 + k) (hb : b = P.length + 1) :
    skipWhile seq.toArray p a = b := by
  subst e ha hb
  exact skipWhile_run P Q R x p hx hQ k hk

theorem replicate_succ_append (k : Nat) (d : UInt8) (Z : Bytes) :
    List.replicate (k + 1) d ++ Z = List.replicate k d ++ d :: Z := by
  rw [List.replicate_succ']; simp

theorem lookForRescueTag_layout_aux (X T : Bytes) (o d : UInt8) (s1 s2 : Nat) (tl ind : Int)
    (h12 : s1 = s2) (hsp : 0 < s1) (hT : T ≠ []) (hd : d ∉ T) (ho : o ≠ d) (hind : 0 ≤ ind)
    (hit : ind ≤ tl) (ha : (T.length : Int) - tl ≤ ind) (hb : tl - (T.length : Int) ≤ ind) :
    lookForRescueTag (X ++ [o] ++ List.replicate s1 d ++ T ++ List.replicate s2 d) d tl (s1 : Int) ind
      = .ok T := by
  obtain ⟨a, rfl⟩ : ∃ k, s1 = k + 1 := ⟨s1 - 1, by omega⟩
  obtain ⟨b, rfl⟩ : ∃ k, s2 = k + 1 := ⟨s2 - 1, by omega⟩
  have hab : a = b := by omega
  obtain ⟨T', c, hTc⟩ : ∃ T' c, T = T' ++ [c] :=
    ⟨T.dropLast, T.getLast hT, (List.dropLast_concat_getLast hT).symm⟩
  have hc : c ≠ d := by intro h; apply hd; simp [hTc, h]
  have hTd : ∀ q ∈ T, (q != d) = true := by
    intro q hq; simp only [bne_iff_ne, ne_eq]; intro h; apply hd; rw [← h]; exact hq
  have hrep : ∀ k, ∀ q ∈ List.replicate k d, (q == d) = true := by
    intro k q hq; simp [List.eq_of_mem_replicate hq]
  have hlen : 0 < T.length := List.length_pos_iff.2 hT
  generalize hseq : X ++ [o] ++ List.replicate (a + 1) d ++ T ++ List.replicate (b + 1) d = seq
  refine rescue_core seq T d X.length (a + 1) T.length tl ind ?_ hsp hlen ?_ ?_ ?_ ?_ ?_ hind hit ha hb
  · rw [← hseq]; simp; omega
  · refine skipWhile_run' seq (X ++ [o] ++ List.replicate (a + 1) d ++ T ++ List.replicate b d) [] []
      d _ (by simp) (by simp) 0 (by simp) ?_ _ _ (by simp; omega) (by simp; omega)
    rw [← hseq, List.replicate_succ' (n := b)]; simp
  · refine skipWhile_run' seq (X ++ [o] ++ List.replicate (a + 1) d ++ T') (List.replicate (b + 1) d) []
      c _ (by simp [hc]) (hrep _) (b + 1) (by simp) ?_ _ _ (by simp [hTc]; omega) (by simp [hTc]; omega)
    rw [← hseq, hTc]; simp
  · intro k hk
    refine skipWhile_run' seq (X ++ [o] ++ List.replicate a d) T (List.replicate (b + 1) d)
      d _ (by simp) hTd k hk ?_ _ _ (by simp) (by simp)
    rw [← hseq]
    simp only [List.append_assoc, List.cons_append, List.nil_append]
    rw [replicate_succ_append a d]
  · refine skipWhile_run' seq X (List.replicate (a + 1) d) (T ++ List.replicate (b + 1) d)
      o _ (by simp [ho]) (hrep _) (a + 1) (by simp) ?_ _ _ (by omega) rfl
    rw [← hseq]; simp
  · have := slice_window (X ++ [o] ++ List.replicate (a + 1) d) T (List.replicate (b + 1) d)
    rw [hseq] at this
    simp only [List.length_append, List.length_cons, List.length_nil, List.length_replicate,
      Int.natCast_add] at this
    rw [show (X.length : Int) + ((a + 1 : Nat) : Int) + 1 = (X.length : Int) + 1 + ((a : Int) + 1) by omega]
    exact this

/-- **the rescue scanner on a well-formed window**: outer base `o ≠ d`, outer border `d^sp`, a
delimiter-free tag whose length differs from the declared `tl` by at most `ind`, inner border
`d^sp`: the tag is returned, whatever precedes -/
theorem lookForRescueTag_layout (X T : Bytes) (o d : UInt8) (sp : Nat) (tl ind : Int)
    (hsp : 0 < sp) (hT : T ≠ []) (hd : d ∉ T) (ho : o ≠ d) (hind : 0 ≤ ind) (hit : ind ≤ tl)
    (ha : (T.length : Int) - tl ≤ ind) (hb : tl - (T.length : Int) ≤ ind) :
    lookForRescueTag (X ++ [o] ++ List.replicate sp d ++ T ++ List.replicate sp d) d tl (sp : Int) ind
      = .ok T :=
  lookForRescueTag_layout_aux X T o d sp sp tl ind rfl hsp hT hd ho hind hit ha hb

/-! ## one side of a marker with rescue (`indels > 0`) against the pieces of a built read -/

/-- rescue layout of one side: the outer flank `F` (read on the strand of the tag) ends with a base `o ≠ delimiter` followed by the outer border `S`; `T` = observed tag (its length may differ from the declared one by at most `indels`) -/
def SideRescue (sd : Side) (T S F : Bytes) : Prop :=
  sd.delim ∈ [97, 99, 103, 116] ∧ 0 < sd.indels ∧ sd.indels < sd.taglen ∧ sd.spacer = S.length ∧ S ≠ [] ∧
  (∀ b ∈ S, b = sd.delim) ∧ sd.delim ∉ T ∧ T ≠ [] ∧
  (T.length : Int) - sd.taglen ≤ sd.indels ∧ sd.taglen - (T.length : Int) ≤ sd.indels ∧
  ∃ X o, F = X ++ [o] ++ S ∧ o ≠ sd.delim

theorem beginRescue_eq (seq : Bytes) (sd : Side) (begin fb : Int)
    (hfb : fb = if begin - (sd.spacer + sd.taglen) * 2 < 0 then 0
      else begin - (sd.spacer + sd.taglen) * 2) :
    beginRescue seq sd begin = (slice seq fb begin).bind
      (fun w => lookForRescueTag w sd.delim sd.taglen sd.spacer sd.indels) := by
  subst hfb; rfl

/-- `beginTagExtractor` with rescue on `… o S T S | primer` -/
theorem beginTag_rescue (F T S B : Bytes) (sd : Side) (h : SideRescue sd T S F) :
    beginTag (F ++ T ++ S ++ B) sd ((F.length : Int) + T.length + S.length) = .ok T := by
  obtain ⟨hacgt, hi0, hit, hs, hS, hall, hd, hT, ha, hb, X, o, hF, ho⟩ := h
  have hSr := eq_replicate_of_all hall
  have hsp : 0 < S.length := List.length_pos_iff.2 hS
  unfold beginTag
  rw [if_neg (by omega), if_neg (acgt_comp_comp _ hacgt).2, if_neg (by omega)]
  subst hF
  have e : X ++ [o] ++ S ++ T ++ S ++ B = X ++ ([o] ++ S ++ T ++ S) ++ B := by simp
  have l : ((X ++ [o] ++ S).length : Int) + T.length + S.length
      = (X.length : Int) + ([o] ++ S ++ T ++ S).length := by
    simp only [List.length_append, List.length_cons, List.length_nil, Int.natCast_add]; omega
  rw [e, l]
  obtain ⟨fb, hfb0, hfb1, hfb⟩ : ∃ fb : Int, 0 ≤ fb ∧ fb ≤ X.length ∧
      fb = if (X.length : Int) + ([o] ++ S ++ T ++ S).length - (sd.spacer + sd.taglen) * 2 < 0 then 0
        else (X.length : Int) + ([o] ++ S ++ T ++ S).length - (sd.spacer + sd.taglen) * 2 := by
    refine ⟨_, ?_, ?_, rfl⟩
    · split <;> omega
    · simp only [List.length_append, List.length_cons, List.length_nil, Int.natCast_add]
      split <;> omega
  rw [beginRescue_eq _ _ _ fb hfb, slice_suffix X _ B fb hfb0 hfb1]
  simp only [Except.bind]
  have := lookForRescueTag_layout (X.drop fb.toNat) T o sd.delim S.length sd.taglen sd.indels hsp hT
    hd ho (by omega) (by omega) ha hb
  rw [← hSr, ← hs] at this
  simp only [List.append_assoc] at this ⊢
  exact this

theorem rc_take (l : Bytes) (k : Nat) : rc (l.take k) = (rc l).drop (l.length - k) := by
  unfold rc
  rw [List.map_take, List.reverse_take]
  simp

/-- `endTagExtractor` with rescue on `primer | rc S  rc T  Rt` where `rc Rt = … o S` -/
theorem endTag_rescue (A S T Rt : Bytes) (sd : Side) (hTA : ∀ b ∈ T, b ∈ alphabet)
    (h : SideRescue sd T S (rc Rt)) :
    endTag (A ++ rc S ++ rc T ++ Rt) sd (A.length : Int) = .ok T := by
  obtain ⟨hacgt, hi0, hit, hs, hS, hall, hd, hT, ha, hb, X, o, hF, ho⟩ := h
  have hSr := eq_replicate_of_all hall
  have hsp : 0 < S.length := List.length_pos_iff.2 hS
  have hlen : 0 < T.length := List.length_pos_iff.2 hT
  have hRl : Rt.length = X.length + 1 + S.length := by
    have := congrArg List.length hF
    simp only [rc_length, List.length_append, List.length_cons, List.length_nil] at this
    omega
  obtain ⟨k, hk⟩ : ∃ k : Nat, k = min ((S.length : Int) + 2 * sd.taglen - T.length).toNat Rt.length :=
    ⟨_, rfl⟩
  obtain ⟨W, hW⟩ : ∃ W : Bytes, W = rc S ++ rc T ++ Rt.take k := ⟨_, rfl⟩
  have hWl : W.length = S.length + T.length + k := by
    simp only [hW, List.length_append, rc_length, List.length_take]
    omega
  have e : A ++ rc S ++ rc T ++ Rt = A ++ W ++ Rt.drop k := by
    simp only [hW, List.append_assoc, List.take_append_drop]
  have hlenS : ((A ++ W ++ Rt.drop k).length : Int)
      = (A.length : Int) + S.length + T.length + Rt.length := by
    simp only [List.length_append, hWl, List.length_drop, Int.natCast_add]
    omega
  unfold endTag
  rw [if_neg (by omega), if_neg (acgt_comp_comp _ hacgt).2, if_neg (by omega)]
  unfold endRescue
  rw [e]
  simp only [hs, hlenS]
  have hfb : (if (A.length : Int) + ((S.length : Int) + sd.taglen) * 2
        > (A.length : Int) + S.length + T.length + Rt.length
      then (A.length : Int) + S.length + T.length + Rt.length
      else (A.length : Int) + ((S.length : Int) + sd.taglen) * 2) = (A.length : Int) + W.length := by
    rw [hWl, hk]
    split <;> omega
  rw [hfb]
  have hge : ¬ ((A.length : Int) ≥ (A.length : Int) + W.length) := by omega
  rw [if_neg hge]
  have hsub := sub_window A W (Rt.drop k) (by omega)
  simp only [subOrFatal, hsub, bind, Except.bind]
  have hrcW : rc W = X.drop (Rt.length - k) ++ [o] ++ List.replicate S.length sd.delim ++ T
      ++ List.replicate S.length sd.delim := by
    have h1 : rc (rc T) = T := rc_rc T hTA
    have h2 : rc (rc S) = S := by
      rw [hSr]; simp [rc, (acgt_comp_comp _ hacgt).1]
    have h3 : rc (Rt.take k) = X.drop (Rt.length - k) ++ [o] ++ S := by
      rw [rc_take, hF, List.append_assoc, List.drop_append_of_le_length (by omega),
        List.append_assoc]
    rw [hW, rc_append, rc_append, h1, h2, h3, ← hSr]
    simp
  rw [hrcW]
  exact lookForRescueTag_layout _ T o sd.delim S.length sd.taglen sd.indels hsp hT hd ho
    (by omega) (by omega) ha hb

/-! ## limits of the rescue (counterexamples, evaluated on the model) -/

theorem ok_of_toOption {α : Type} {r : R α} {x : α} (h : r.toOption = some x) : r = .ok x := by
  cases r with
  | error e => simp [Except.toOption] at h
  | ok y => simp only [Except.toOption, Option.some.injEq] at h; rw [h]

/-- **counterexample**: delimiter `a`, declared tag length 3, border 1, one indel allowed.  On the
window `a ccc a` (the read starts with the outer border: no base before it) the second delimiter
scan runs off the left end (`i < 0`) and the tag is lost (`""`), although the tag `ccc` sits between
its two borders; with one more base in front (`t a ccc a`) the tag is found. -/
theorem rescue_needs_outer_base :
    lookForRescueTag [97, 99, 99, 99, 97] 97 3 1 1 = .ok [] ∧
    lookForRescueTag [116, 97, 99, 99, 99, 97] 97 3 1 1 = .ok [99, 99, 99] :=
  ⟨ok_of_toOption (by decide), ok_of_toOption (by decide)⟩

/-- **counterexample**: same parameters, window `t aa ccc a`: the outer run of delimiters (2) is
longer than the border (1); only `border` delimiters are taken off, the remaining one is returned
as part of the tag (`accc`, accepted because its length is within `indel` of the declared one). -/
theorem rescue_long_border_joins_tag :
    lookForRescueTag [116, 97, 97, 99, 99, 99, 97] 97 3 1 1 = .ok [97, 99, 99, 99] :=
  ok_of_toOption (by decide)

/-! ## built reads whose sides are fixed, delimited or rescued -/

theorem beginTag_any (F T S B : Bytes) (sd : Side)
    (h : SideBuilt sd T S F.getLast? ∨ SideRescue sd T S F) :
    beginTag (F ++ T ++ S ++ B) sd ((F.length : Int) + T.length + S.length) = .ok T := by
  rcases h with h | h
  · exact beginTag_built F T S B sd h
  · exact beginTag_rescue F T S B sd h

theorem endTag_any (A S T Rt : Bytes) (sd : Side) (hTA : ∀ b ∈ T, b ∈ alphabet)
    (h : SideBuilt sd T S (rc Rt).getLast? ∨ SideRescue sd T S (rc Rt)) :
    endTag (A ++ rc S ++ rc T ++ Rt) sd (A.length : Int) = .ok T := by
  rcases h with h | h
  · rw [rc_getLast_eq] at h
    exact endTag_built A S T Rt sd hTA h
  · exact endTag_rescue A S T Rt sd hTA h

/-- `constructed_read_any_tags` extended to rescue: each side of marker `n+1` is fixed-length,
delimited (`SideBuilt`) or delimited with rescue (`SideRescue`: the observed tag may be up to
`indels` longer or shorter than declared, the outer border is preceded by a non-delimiter base).
The read is `builtRead flankL tagF spF pf bc pr spR tagR flankR`, the hits are
`builtHits n n' b1 e1 b2 e2 k1 k2` of `Props/C12.lean`, written out. -/
theorem constructed_read_rescue (ms : List Marker) (n n' : Nat) (mk : Marker)
    (flankL tagF spF pf bc pr spR tagR flankR : Bytes) (k1 k2 : Int)
    (hms : ms[n]? = some mk)
    (hF : SideBuilt mk.fside tagF spF flankL.getLast? ∨ SideRescue mk.fside tagF spF flankL)
    (hR : SideBuilt mk.rside tagR spR (rc flankR).getLast? ∨ SideRescue mk.rside tagR spR (rc flankR))
    (hpf : 0 < pf.length) (hbc : 0 < bc.length) (hpr : 0 < pr.length)
    (halpha : ∀ b ∈ pr ++ tagR, b ∈ alphabet) :
    let b1 : Int := (flankL.length : Int) + tagF.length + spF.length
    let e1 : Int := b1 + pf.length
    let b2 : Int := e1 + bc.length
    let e2 : Int := b2 + pr.length
    amplicons ms ((flankL ++ tagF ++ spF) ++ pf ++ bc ++ rc pr ++ (rc spR ++ rc tagR ++ flankR))
      (List.replicate n noHits ++ [⟨[(b1, e1, k1)], [(b2, e2, k2)], [], []⟩] ++
        List.replicate n' noHits)
      = .ok [{ marker := n + 1, forward := true, subFrom := e1, subTo := b2, barcode := bc,
               fmatch := pf, rmatch := pr, ferr := k1, rerr := k2, ftag := tagF, rtag := tagR,
               ident := identify mk tagF tagR }] := by
  intro b1 e1 b2 e2
  have hprA : ∀ b ∈ pr, b ∈ alphabet := fun b hb => halpha b (by simp [hb])
  have htrA : ∀ b ∈ tagR, b ∈ alphabet := fun b hb => halpha b (by simp [hb])
  have hbt : beginTag ((flankL ++ tagF ++ spF) ++ pf ++ bc ++ rc pr ++ (rc spR ++ rc tagR ++ flankR))
      mk.fside ((flankL ++ tagF ++ spF).length : Int) = .ok tagF := by
    have := beginTag_any flankL tagF spF (pf ++ bc ++ rc pr ++ (rc spR ++ rc tagR ++ flankR))
      mk.fside hF
    simp only [List.length_append, Int.natCast_add]
    simpa only [List.append_assoc] using this
  have het : endTag ((flankL ++ tagF ++ spF) ++ pf ++ bc ++ rc pr ++ (rc spR ++ rc tagR ++ flankR))
      mk.rside (((flankL ++ tagF ++ spF).length : Int) + pf.length + bc.length + pr.length)
      = .ok tagR := by
    have := endTag_any ((flankL ++ tagF ++ spF) ++ pf ++ bc ++ rc pr) spR tagR flankR mk.rside
      htrA hR
    simp only [List.length_append, Int.natCast_add, rc_length] at this ⊢
    simpa only [List.append_assoc] using this
  have := built_core ms n n' mk (flankL ++ tagF ++ spF) pf bc pr (rc spR ++ rc tagR ++ flankR)
    tagF tagR k1 k2 hms hpf hbc hpr hprA hbt het
  simp only [List.length_append, Int.natCast_add] at this
  exact this

/-- the same read on the other strand (`builtRead (rc flankR) tagR spR pr (rc bc) pf spF tagF
(rc flankL)` with the hits `builtHitsRc` of `Props/C12.lean`, written out): direction reverse, same
barcode, same tags -/
theorem constructed_read_rc_rescue (ms : List Marker) (n n' : Nat) (mk : Marker)
    (flankL tagF spF pf bc pr spR tagR flankR : Bytes) (k1 k2 : Int)
    (hms : ms[n]? = some mk)
    (hF : SideBuilt mk.fside tagF spF flankL.getLast? ∨ SideRescue mk.fside tagF spF flankL)
    (hR : SideBuilt mk.rside tagR spR (rc flankR).getLast? ∨ SideRescue mk.rside tagR spR (rc flankR))
    (hpf : 0 < pf.length) (hbc : 0 < bc.length) (hpr : 0 < pr.length)
    (halpha : ∀ b ∈ flankL ++ tagF ++ pf ++ bc, b ∈ alphabet) :
    let b1 : Int := (flankR.length : Int) + tagR.length + spR.length
    let e1 : Int := b1 + pr.length
    let b2 : Int := e1 + bc.length
    let e2 : Int := b2 + pf.length
    amplicons ms ((rc flankR ++ tagR ++ spR) ++ pr ++ rc bc ++ rc pf ++ (rc spF ++ rc tagF ++ rc flankL))
      (List.replicate n noHits ++ [⟨[], [], [(b1, e1, k2)], [(b2, e2, k1)]⟩] ++
        List.replicate n' noHits)
      = .ok [{ marker := n + 1, forward := false, subFrom := e1, subTo := b2, barcode := bc,
               fmatch := pf, rmatch := pr, ferr := k1, rerr := k2, ftag := tagF, rtag := tagR,
               ident := identify mk tagF tagR }] := by
  intro b1 e1 b2 e2
  have hflA : ∀ b ∈ flankL, b ∈ alphabet := fun b hb => halpha b (by simp [hb])
  have hpfA : ∀ b ∈ pf, b ∈ alphabet := fun b hb => halpha b (by simp [hb])
  have htfA : ∀ b ∈ tagF, b ∈ alphabet := fun b hb => halpha b (by simp [hb])
  have hbcA : ∀ b ∈ bc, b ∈ alphabet := fun b hb => halpha b (by simp [hb])
  have hF' : SideBuilt mk.fside tagF spF (rc (rc flankL)).getLast? ∨
      SideRescue mk.fside tagF spF (rc (rc flankL)) := by
    rw [rc_rc flankL hflA]; exact hF
  generalize hfR : rc flankR = fR at *
  generalize hfL : rc flankL = fL at *
  have hfRl : fR.length = flankR.length := by rw [← hfR, rc_length]
  have hbt : beginTag ((fR ++ tagR ++ spR) ++ pr ++ rc bc ++ rc pf ++ (rc spF ++ rc tagF ++ fL))
      mk.rside ((fR ++ tagR ++ spR).length : Int) = .ok tagR := by
    have := beginTag_any fR tagR spR (pr ++ rc bc ++ rc pf ++ (rc spF ++ rc tagF ++ fL))
      mk.rside hR
    simp only [List.length_append, Int.natCast_add]
    simpa only [List.append_assoc] using this
  have het : endTag ((fR ++ tagR ++ spR) ++ pr ++ rc bc ++ rc pf ++ (rc spF ++ rc tagF ++ fL))
      mk.fside (((fR ++ tagR ++ spR).length : Int) + pr.length + (rc bc).length + pf.length)
      = .ok tagF := by
    have := endTag_any ((fR ++ tagR ++ spR) ++ pr ++ rc bc ++ rc pf) spF tagF fL mk.fside
      htfA hF'
    simp only [List.length_append, Int.natCast_add, rc_length] at this ⊢
    simpa only [List.append_assoc] using this
  have := built_core_rc ms n n' mk (fR ++ tagR ++ spR) pf (rc bc) pr (rc spF ++ rc tagF ++ fL)
    tagF tagR k1 k2 hms hpf (by rw [rc_length]; exact hbc) hpr hpfA hbt het
  simp only [List.length_append, Int.natCast_add, rc_length, rc_rc bc hbcA, hfRl] at this
  exact this

/-! ## the hypotheses are satisfiable -/

/-- a marker whose two sides use the rescue: delimiter `a`, border 2, declared tag lengths 3 / 2,
one indel allowed -/
def exRescueMarker : Marker :=
  { fprimer := "acgt", rprimer := "ttga", ftaglen := 3, rtaglen := 2, fspacer := 2, rspacer := 2,
    fdelim := 97, rdelim := 97, findels := 1, rindels := 1, fmode := .indel, rmode := .indel,
    samples := [⟨[99, 103, 116], [103, 116], "s1", "e", []⟩] }

/-- forward tag read with an insertion (`cggt` for `cgt`), reverse tag with a deletion (`g` for
`gt`): both are extracted -/
example := constructed_read_rescue [exRescueMarker] 0 0 exRescueMarker
  [116, 97, 97] [99, 103, 103, 116] [97, 97] [97, 99, 103, 116] [99, 99, 99] [116, 116, 103, 97]
  [97, 97] [103] [116, 116, 103] 0 1
  rfl (Or.inr (by refine ⟨by decide, by decide, by decide, rfl, by decide, by decide, by decide,
    by decide, by decide, by decide, [], 116, rfl, by decide⟩))
  (Or.inr (by refine ⟨by decide, by decide, by decide, rfl, by decide, by decide, by decide,
    by decide, by decide, by decide, [], 99, by decide, by decide⟩))
  (by decide) (by decide) (by decide) (by decide)

end ObiVerif.Demux
