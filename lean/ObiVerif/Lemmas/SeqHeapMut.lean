import ObiVerif.Model.SeqHeapMut
import ObiVerif.Lemmas.SeqHeapRefine
set_option Elab.async false
/-!
# Mutator histories: the heap step refines the value semantics, the invariant is kept (C07)

`mstep_refines` / `mrun_refines`: for EVERY mutator (`Write*`, `Clear*`, `Join`, `SetSequence`, `SetId`,
`SetAttribute`, and `ReverseComplement` / `Subsequence` with their annotation rewriting), every decision of
the pool and of `append`, the outcome observed on every object is the value semantics `mvstep`.
`mstep_inv`: the heap invariant (no two live slice variables / pooled variables show the same array) is
kept.  `appendCell_private`: **an `append` — in place (len < cap) or reallocating — leaves the whole
backing array (spare capacity included) of every other live or pooled slice untouched**.
-/
namespace ObiVerif.SeqHeap
open ObiVerif.SeqOps

/-! ## `s = s[0:0]` -/

theorem truncCell_frame {h : Heap} (hI : Inv h) {c : Nat} (hc : Fld h c) :
    Frame h (h.truncCell c) (· = c) ∧ (h.truncCell c).content c = [] := by
  unfold Heap.truncCell
  cases hs : h.cells c with
  | none => exact ⟨Frame.refl hI _, by simp [Heap.content, hs]⟩
  | some s =>
    simp only []
    have hcell : ∀ c1 s1, upd h.cells c (some (⟨s.buf, 0⟩ : Slice)) c1 = some s1 →
        ∃ s0, h.cells c1 = some s0 ∧ s0.buf = s1.buf ∧ s1.len ≤ s0.len := by
      intro c1 s1 h1
      by_cases e : c1 = c
      · rw [e, upd_same] at h1; cases h1; exact ⟨s, e ▸ hs, rfl, Nat.zero_le _⟩
      · rw [upd_ne _ _ e] at h1; exact ⟨s1, h1, rfl, Nat.le_refl _⟩
    have hclt := hI.cellLt c (fld_owner hc)
    refine ⟨⟨⟨hI.poolNotFld, hI.poolNodup, ?_, hI.disj, hI.cellLt, ?_, ?_, ?_⟩, rfl, ?_, Nat.le_refl _⟩, ?_⟩
    · intro c1 d1 s1 t1 o1 o2 h1 h2 he
      obtain ⟨s0, a1, b1, _⟩ := hcell c1 s1 h1
      obtain ⟨t0, a2, b2, _⟩ := hcell d1 t1 h2
      exact hI.sep c1 d1 s0 t0 o1 o2 a1 a2 (by rw [b1, b2, he])
    · intro c1 h1
      have h1' : h.ncell ≤ c1 := h1
      show upd h.cells c _ c1 = none
      rw [upd_ne _ _ (by omega)]; exact hI.cellFresh c1 h1'
    · intro c1 s1 o1 h1
      obtain ⟨s0, a1, b1, _⟩ := hcell c1 s1 h1
      rw [← b1]; exact hI.bufLt c1 s0 o1 a1
    · intro c1 s1 o1 h1
      obtain ⟨s0, a1, b1, l1⟩ := hcell c1 s1 h1
      show s1.len ≤ (h.bufs s1.buf).length
      rw [← b1]; exact Nat.le_trans l1 (hI.lenLe c1 s0 o1 a1)
    · intro d hd hdc
      refine content_eq_of (h := h) ?_ (fun _ _ => rfl)
      exact upd_ne _ _ hdc
    · simp [Heap.content]

/-! ## replacing the annotations of one object -/

theorem setAnn_spec {h : Heap} (hI : Inv h) {a : String} {oa : HObj} (ha : h.objs a = some oa) (ann : Ann) :
    Inv (h.setAnn a oa.base ann) ∧
      (h.setAnn a oa.base ann).view =
        vput h.view a (some ⟨h.content oa.base, h.content (oa.base + 1), h.content (oa.base + 2), ann⟩) := by
  have hobj : ∀ n o, (h.setAnn a oa.base ann).objs n = some o → ∃ o', h.objs n = some o' ∧ o'.base = o.base := by
    intro n o ho
    unfold Heap.setAnn at ho
    simp only at ho
    by_cases e : n = a
    · rw [if_pos e] at ho; cases ho; exact ⟨oa, e ▸ ha, rfl⟩
    · rw [if_neg e] at ho; exact ⟨o, ho, rfl⟩
  have hfld : ∀ d, Fld (h.setAnn a oa.base ann) d → Fld h d := by
    rintro d ⟨n, o, ho, h1, h2⟩
    obtain ⟨o', ho', e⟩ := hobj n o ho
    exact ⟨n, o', ho', by omega, by omega⟩
  have hown : ∀ d, Owner (h.setAnn a oa.base ann) d → Owner h d := by
    intro d hd
    rcases hd with hd | hd
    · exact Or.inl hd
    · exact Or.inr (hfld d hd)
  refine ⟨⟨fun c hc hf => hI.poolNotFld c hc (hfld c hf), hI.poolNodup, ?_, ?_, fun c hc => hI.cellLt c (hown c hc),
    hI.cellFresh, fun c s hc hs => hI.bufLt c s (hown c hc) hs, fun c s hc hs => hI.lenLe c s (hfld c hc) hs⟩, ?_⟩
  · intro c d s t oc od hs ht heq; exact hI.sep c d s t (hown c oc) (hown d od) hs ht heq
  · intro n m o o' ho ho' hnm
    obtain ⟨p1, hp1, e1⟩ := hobj n o ho
    obtain ⟨p2, hp2, e2⟩ := hobj m o' ho'
    have := hI.disj n m p1 p2 hp1 hp2 hnm
    omega
  · funext n
    unfold vput Heap.view Heap.setAnn
    by_cases e : n = a
    · simp [e, Heap.content]
    · simp [e, Heap.content]

theorem annApply_refines {h : Heap} (hI : Inv h) (b : String) (f : OV → Option Ann) :
    sim (annApply h b f) = vAnnApply h.view b f ∧ ∀ h', annApply h b f = .ok h' → Inv h' := by
  unfold annApply vAnnApply
  cases hb : h.objs b with
  | none => simp only [view_none hb, sim]; exact ⟨trivial, fun h' e => by cases e; exact hI⟩
  | some ob =>
    simp only [view_some hb]
    cases hf : f ⟨h.content ob.base, h.content (ob.base + 1), h.content (ob.base + 2), ob.ann⟩ with
    | none => simp only [sim]; exact ⟨trivial, fun h' e => by cases e⟩
    | some ann =>
      obtain ⟨i1, v1⟩ := setAnn_spec hI hb ann
      simp only [sim]
      exact ⟨by rw [v1], fun h' e => by cases e; exact i1⟩

/-! ## the mutators -/

/-- an action on the fields of the live object `a`, summarised by `Tgt` -/
theorem refines_tgt {h h' : Heap} (hI : Inv h) {a : String} {oa : HObj} (ha : h.objs a = some oa) {s q f : Bytes}
    (t : Tgt h h' oa.base s q f) : h'.view = vput h.view a (some ⟨s, q, f, oa.ann⟩) ∧ Inv h' :=
  ⟨vput_view_eq (t.view (ann := oa.ann) ha) (view_of_frame hI ha t.tf), t.tf.inv⟩

theorem hF_of {h : Heap} {a : String} {oa : HObj} (ha : h.objs a = some oa) : ∀ i, i < 3 → Fld h (oa.base + i) :=
  fun i hi => fld_of ha i hi

/-- `s.sequence = s.sequence[0:0]` / `s.qualities = s.qualities[0:0]` -/
theorem Tgt.trunc0 {h0 h : Heap} {base : Nat} {s q f : Bytes} (t : Tgt h0 h base s q f)
    (hF : ∀ i, i < 3 → Fld h0 (base + i)) : Tgt h0 (h.truncCell base) base [] q f := by
  have g := truncCell_frame (c := base) t.tf.inv ((t.tf.fld _).mpr (hF 0 (by omega)))
  exact t.set0 hF g.1 g.2

theorem Tgt.trunc1 {h0 h : Heap} {base : Nat} {s q f : Bytes} (t : Tgt h0 h base s q f)
    (hF : ∀ i, i < 3 → Fld h0 (base + i)) : Tgt h0 (h.truncCell (base + 1)) base s [] f := by
  have g := truncCell_frame t.tf.inv ((t.tf.fld _).mpr (hF 1 (by omega)))
  exact t.set1 hF g.1 g.2

/-- the step, the value step and the invariant, for an operation that is a base step followed by an
annotation transform of `b` -/
theorem refines_then_ann {h : Heap} (hI : Inv h) (ch : Nat → Nat) (op : HOp) (b : String) (f : OV → Option Ann) :
    sim (match step h ch op with
      | .ok h1 => annApply h1 b f
      | .error e => .error e) =
    (match vstep h.view op with
      | .ok v1 => vAnnApply v1 b f
      | .error e => .error e) ∧
    ∀ h', (match step h ch op with
      | .ok h1 => annApply h1 b f
      | .error e => .error e) = .ok h' → Inv h' := by
  have hr := step_refines hI ch op
  cases hs : step h ch op with
  | error e => rw [hs] at hr; simp only [sim] at hr; rw [← hr]; exact ⟨rfl, fun h' e => by cases e⟩
  | ok h1 =>
    rw [hs] at hr; simp only [sim] at hr; rw [← hr]
    exact annApply_refines (step_ok hI hs).1 b f

/-- **every mutator refines its value semantics and keeps the invariant**, for every decision of the pool
and of `append` -/
theorem mstep_spec {h : Heap} (hI : Inv h) (ch : Nat → Nat) (op : MOp) :
    sim (mstep h ch op) = mvstep h.view op ∧ ∀ h', mstep h ch op = .ok h' → Inv h' := by
  cases op with
  | base op => exact ⟨step_refines hI ch op, fun h' e => (step_ok hI e).1⟩
  | write a data =>
    cases ha : h.objs a with
    | none => simp [mstep, mvstep, ha, sim, view_none ha]
    | some oa =>
      obtain ⟨v1, i1⟩ := refines_tgt hI ha ((Tgt.init hI oa.base).append0 (hF_of ha) data (ch 8))
      simp only [mstep, mvstep, ha, view_some ha, sim]
      exact ⟨by rw [v1], fun h' e => by cases e; exact i1⟩
  | writequal a data =>
    cases ha : h.objs a with
    | none => simp [mstep, mvstep, ha, sim, view_none ha]
    | some oa =>
      obtain ⟨v1, i1⟩ := refines_tgt hI ha ((Tgt.init hI oa.base).append1 (hF_of ha) data (ch 9))
      simp only [mstep, mvstep, ha, view_some ha, sim]
      exact ⟨by rw [v1], fun h' e => by cases e; exact i1⟩
  | clear a =>
    cases ha : h.objs a with
    | none => simp [mstep, mvstep, ha, sim, view_none ha]
    | some oa =>
      obtain ⟨v1, i1⟩ := refines_tgt hI ha ((Tgt.init hI oa.base).trunc0 (hF_of ha))
      simp only [mstep, mvstep, ha, view_some ha, sim]
      exact ⟨by rw [v1], fun h' e => by cases e; exact i1⟩
  | clearqual a =>
    cases ha : h.objs a with
    | none => simp [mstep, mvstep, ha, sim, view_none ha]
    | some oa =>
      obtain ⟨v1, i1⟩ := refines_tgt hI ha ((Tgt.init hI oa.base).trunc1 (hF_of ha))
      simp only [mstep, mvstep, ha, view_some ha, sim]
      exact ⟨by rw [v1], fun h' e => by cases e; exact i1⟩
  | join a b =>
    cases ha : h.objs a with
    | none => simp [mstep, mvstep, ha, sim, view_none ha]
    | some oa =>
      cases hb : h.objs b with
      | none => simp [mstep, mvstep, ha, hb, sim, view_some ha, view_none hb]
      | some ob =>
        obtain ⟨v1, i1⟩ := refines_tgt hI ha ((Tgt.init hI oa.base).append0 (hF_of ha) (h.content ob.base) (ch 8))
        simp only [mstep, mvstep, ha, hb, view_some ha, view_some hb, sim]
        exact ⟨by rw [v1], fun h' e => by cases e; exact i1⟩
  | setseq a s =>
    cases ha : h.objs a with
    | none => simp [mstep, mvstep, ha, sim, view_none ha]
    | some oa =>
      obtain ⟨v1, i1⟩ := refines_tgt hI ha ((Tgt.init hI oa.base).store0 (hF_of ha) (s.map lower) (ch 0))
      simp only [mstep, mvstep, ha, view_some ha, sim]
      exact ⟨by rw [v1], fun h' e => by cases e; exact i1⟩
  | setid a =>
    cases ha : h.objs a with
    | none => simp [mstep, mvstep, ha, sim, view_none ha]
    | some oa =>
      simp only [mstep, mvstep, ha, view_some ha, sim]
      exact ⟨trivial, fun h' e => by cases e; exact hI⟩
  | setann a key m =>
    cases ha : h.objs a with
    | none => simp [mstep, mvstep, ha, sim, view_none ha]
    | some oa =>
      obtain ⟨i1, v1⟩ := setAnn_spec hI ha (assocSet oa.ann key m)
      simp only [mstep, mvstep, ha, view_some ha, sim]
      exact ⟨by rw [v1], fun h' e => by cases e; exact i1⟩
  | rcm a b => exact refines_then_ann hI ch (.rc a b) b _
  | rcim a => exact refines_then_ann hI ch (.rci a) a _
  | subm a b f t c => exact refines_then_ann hI ch (.sub a b f t c) b _

theorem mstep_refines {h : Heap} (hI : Inv h) (ch : Nat → Nat) (op : MOp) :
    sim (mstep h ch op) = mvstep h.view op := (mstep_spec hI ch op).1

theorem mstep_inv {h h' : Heap} (hI : Inv h) {ch : Nat → Nat} {op : MOp} (hs : mstep h ch op = .ok h') : Inv h' :=
  (mstep_spec hI ch op).2 h' hs

theorem mrun_inv (ops : List MOp) (ch : Nat → Nat → Nat) (i : Nat) (h h' : Heap) (hI : Inv h)
    (hr : mrun h ch i ops = .ok h') : Inv h' := by
  induction ops generalizing h i with
  | nil => simp only [mrun, Except.ok.injEq] at hr; subst hr; exact hI
  | cons op t ih =>
    simp only [mrun] at hr
    cases hs : mstep h (ch i) op with
    | error e => rw [hs] at hr; cases hr
    | ok h1 => rw [hs] at hr; exact ih (i + 1) h1 (mstep_inv hI hs) hr

theorem mrun_refines (ops : List MOp) (ch : Nat → Nat → Nat) (i : Nat) (h : Heap) (hI : Inv h) :
    sim (mrun h ch i ops) = mvrun h.view ops := by
  induction ops generalizing h i with
  | nil => rfl
  | cons op t ih =>
    have hr := mstep_refines hI (ch i) op
    simp only [mrun, mvrun]
    cases hs : mstep h (ch i) op with
    | error e =>
      rw [hs] at hr
      simp only [sim] at hr
      rw [← hr]; rfl
    | ok h1 =>
      rw [hs] at hr
      simp only [sim] at hr
      rw [← hr]
      exact ih (i + 1) h1 (mstep_inv hI hs)

/-! ## `append` never touches an array it does not own -/

/-- under the invariant, the array shown by a field of a live object is shown by no other live field and
by no pooled slice variable: the field OWNS its array, spare capacity included -/
theorem fld_owns {h : Heap} (hI : Inv h) {c : Nat} (hc : Fld h c) {s : Slice} (hs : h.cells c = some s)
    {d : Nat} (hd : Owner h d) {t : Slice} (ht : h.cells d = some t) (he : t.buf = s.buf) : d = c :=
  hI.sep d c t s hd (fld_owner hc) ht hs he

/-- **`cell c = append(cell c, data...)` on a field of a live object — in place when the capacity allows
(`len + len(data) ≤ cap`), in a new array otherwise — leaves every other live or pooled slice variable
as it was AND leaves the WHOLE backing array of each of them (the bytes beyond its length too)
untouched.**  (In `SeqHeap.step` / `mstep` every `appendCell` is applied to a field of the target object:
the obligations `Fld` of `Tgt.append0` / `Tgt.append1` in the refinement proofs.) -/
theorem appendCell_private {h : Heap} (hI : Inv h) {c : Nat} (hc : Fld h c) (data : Bytes) (g : Nat)
    {d : Nat} (hd : Owner h d) (hdc : d ≠ c) {t : Slice} (ht : h.cells d = some t) :
    (h.appendCell c data g).cells d = some t ∧ (h.appendCell c data g).bufs t.buf = h.bufs t.buf := by
  have hlt := hI.bufLt d t hd ht
  unfold Heap.appendCell
  cases hs : h.cells c with
  | none =>
    simp only []
    split
    · exact ⟨ht, rfl⟩
    · exact ⟨by show upd h.cells c _ d = some t; rw [upd_ne _ _ hdc]; exact ht,
        by show upd h.bufs h.nbuf _ t.buf = _; rw [upd_ne _ _ (by omega)]⟩
  | some s =>
    simp only []
    have hne : t.buf ≠ s.buf := fun e => hdc (fld_owns hI hc hs hd ht e)
    split
    · exact ⟨by show upd h.cells c _ d = some t; rw [upd_ne _ _ hdc]; exact ht,
        by show upd h.bufs s.buf _ t.buf = _; rw [upd_ne _ _ hne]⟩
    · exact ⟨by show upd h.cells c _ d = some t; rw [upd_ne _ _ hdc]; exact ht,
        by show upd h.bufs h.nbuf _ t.buf = _; rw [upd_ne _ _ (by omega)]⟩

/-- the in-place branch is really taken when the capacity allows: same array, longer slice, the bytes
already shown are kept -/
theorem appendCell_in_place {h : Heap} {c : Nat} {s : Slice} (hs : h.cells c = some s) (data : Bytes) (g : Nat)
    (hcap : s.len + data.length ≤ (h.bufs s.buf).length) :
    (h.appendCell c data g).cells c = some ⟨s.buf, s.len + data.length⟩ ∧ (h.appendCell c data g).nbuf = h.nbuf := by
  unfold Heap.appendCell
  simp only [hs, hcap, if_true, upd_same, and_self]

end ObiVerif.SeqHeap
