import ObiVerif.Model.Tax
/-!
# Lemmas on the taxonomy model (C14)

Specification vocabulary (`Anc`, `IsPath`, `WF`) and the facts the property theorems are assembled from.
-/
namespace ObiVerif.Tax

/-- `Anc t a x` : `a` is `x` or is reached from `x` by following parent links -/
inductive Anc (t : Taxo) : Nat → Nat → Prop
  | refl (x : Nat) : Anc t x x
  | step {a x : Nat} {n : Node} : t.node x = some n → Anc t a n.parent → Anc t a x

/-- `IsPath t x p` : `p` lists `x`, its parent, its grand-parent, … and stops at the first node that
is its own parent -/
inductive IsPath (t : Taxo) : Nat → List Nat → Prop
  | root {x : Nat} {n : Node} : t.node x = some n → n.parent = x → IsPath t x [x]
  | step {x : Nat} {n : Node} {p : List Nat} :
      t.node x = some n → n.parent ≠ x → IsPath t n.parent p → IsPath t x (x :: p)

/-- well-formed taxonomy: `root` is its own parent and the only such node, the parent of a node is a
node, and every node reaches the root (`depth` strictly decreases along parent links) -/
structure WF (t : Taxo) (root : Nat) (depth : Nat → Nat) : Prop where
  root_node : ∃ n, t.node root = some n ∧ n.parent = root
  only_root : ∀ x n, t.node x = some n → n.parent = x → x = root
  parent_node : ∀ x n, t.node x = some n → ∃ m, t.node n.parent = some m
  depth_dec : ∀ x n, t.node x = some n → n.parent ≠ x → depth n.parent < depth x

/-- the fuel given to the walking-up loops exceeds the depth of every node -/
def FuelOK (t : Taxo) (depth : Nat → Nat) (fuel : Nat) : Prop :=
  ∀ x n, t.node x = some n → depth x < fuel

/-! ## Anc -/

theorem Anc.trans {t : Taxo} {a b x : Nat} (h1 : Anc t a b) (h2 : Anc t b x) : Anc t a x := by
  induction h2 with
  | refl => exact h1
  | step hn _ ih => exact Anc.step hn ih

theorem Anc.eq_or_depth_lt {t : Taxo} {root : Nat} {depth : Nat → Nat} (wf : WF t root depth)
    {a x : Nat} (h : Anc t a x) : a = x ∨ depth a < depth x := by
  induction h with
  | refl => exact Or.inl rfl
  | @step x n hn _ ih =>
    by_cases hp : n.parent = x
    · rw [hp] at ih; exact ih
    · have := wf.depth_dec x n hn hp
      rcases ih with h | h
      · right; rw [h]; exact this
      · right; omega

theorem Anc.antisymm {t : Taxo} {root : Nat} {depth : Nat → Nat} (wf : WF t root depth)
    {a x : Nat} (h1 : Anc t a x) (h2 : Anc t x a) : a = x := by
  rcases h1.eq_or_depth_lt wf with h | h
  · exact h
  · rcases h2.eq_or_depth_lt wf with h' | h'
    · exact h'.symm
    · omega

/-! ## IsPath -/

theorem IsPath.functional {t : Taxo} {x : Nat} {p q : List Nat} (hp : IsPath t x p) (hq : IsPath t x q) :
    p = q := by
  induction hp generalizing q with
  | root hn hr =>
    cases hq with
    | root _ _ => rfl
    | step hn' hr' _ => rw [hn] at hn'; cases hn'; exact absurd hr hr'
  | step hn hr _ ih =>
    cases hq with
    | root hn' hr' => rw [hn] at hn'; cases hn'; exact absurd hr' hr
    | step hn' _ hq' => rw [hn] at hn'; cases hn'; rw [ih hq']

theorem IsPath.head {t : Taxo} {x : Nat} {p : List Nat} (hp : IsPath t x p) : ∃ q, p = x :: q := by
  cases hp with
  | root _ _ => exact ⟨[], rfl⟩
  | step _ _ _ => exact ⟨_, rfl⟩

theorem IsPath.isNode {t : Taxo} {x : Nat} {p : List Nat} (hp : IsPath t x p) : ∃ n, t.node x = some n := by
  cases hp with
  | root hn _ => exact ⟨_, hn⟩
  | step hn _ _ => exact ⟨_, hn⟩

/-- the path of `x` contains exactly the ancestors-or-self of `x` -/
theorem IsPath.mem_of_anc {t : Taxo} {a x : Nat} (h : Anc t a x) :
    ∀ {p : List Nat}, IsPath t x p → a ∈ p := by
  induction h with
  | refl => intro p hp; obtain ⟨q, rfl⟩ := hp.head; simp
  | @step x n hn _ ih =>
    intro p hp
    cases hp with
    | root hn' hr =>
      rw [hn] at hn'; cases hn'
      have hp' : IsPath t n.parent [x] := by rw [hr]; exact IsPath.root hn hr
      exact ih hp'
    | step hn' _ hp' => rw [hn] at hn'; cases hn'; exact List.mem_cons_of_mem _ (ih hp')

theorem IsPath.anc_of_mem {t : Taxo} {x : Nat} {p : List Nat} (hp : IsPath t x p) :
    ∀ {a : Nat}, a ∈ p → Anc t a x := by
  induction hp with
  | root _ _ => intro a ha; simp at ha; subst ha; exact Anc.refl _
  | step hn _ _ ih =>
    intro a ha
    rcases List.mem_cons.1 ha with h | h
    · subst h; exact Anc.refl _
    · exact Anc.step hn (ih h)

theorem IsPath.mem_iff_anc {t : Taxo} {x : Nat} {p : List Nat} (hp : IsPath t x p) (a : Nat) :
    a ∈ p ↔ Anc t a x := ⟨hp.anc_of_mem, fun h => IsPath.mem_of_anc h hp⟩

/-- every suffix of a path is the path of its first element -/
theorem IsPath.suffix {t : Taxo} {x : Nat} {p : List Nat} (hp : IsPath t x p) :
    ∀ (l1 : List Nat) (z : Nat) (l2 : List Nat), p = l1 ++ z :: l2 → IsPath t z (z :: l2) := by
  induction hp with
  | @root x n hn hr =>
    intro l1 z l2 h
    cases l1 with
    | nil => simp at h; obtain ⟨rfl, rfl⟩ := h; exact IsPath.root hn hr
    | cons a l => simp at h
  | @step x n p hn hr hp' ih =>
    intro l1 z l2 h
    cases l1 with
    | nil => simp at h; obtain ⟨rfl, rfl⟩ := h; exact IsPath.step hn hr hp'
    | cons a l => simp at h; exact ih l z l2 h.2

/-- a path ends at the root -/
theorem IsPath.getLast {t : Taxo} {root : Nat} {depth : Nat → Nat} (wf : WF t root depth)
    {x : Nat} {p : List Nat} (hp : IsPath t x p) : p.getLast? = some root := by
  induction hp with
  | root hn hr => simp [wf.only_root _ _ hn hr]
  | @step x n p hn hr hp' ih =>
    obtain ⟨q, rfl⟩ := hp'.head
    simpa [List.getLast?_cons_cons] using ih

/-- consecutive elements of a path are linked by a parent link that is not a self loop, the last
element is its own parent -/
def Linked (t : Taxo) : List Nat → Prop
  | [] => False
  | [x] => ∃ n, t.node x = some n ∧ n.parent = x
  | x :: y :: r => (∃ n, t.node x = some n ∧ n.parent = y ∧ y ≠ x) ∧ Linked t (y :: r)

theorem IsPath.linked {t : Taxo} {x : Nat} {p : List Nat} (hp : IsPath t x p) : Linked t p := by
  induction hp with
  | root hn hr => exact ⟨_, hn, hr⟩
  | @step x n p hn hr hp' ih =>
    obtain ⟨q, rfl⟩ := hp'.head
    exact ⟨⟨n, hn, rfl, hr⟩, ih⟩

/-- existence: in a well-formed taxonomy every node has a path, of length at most depth + 1 -/
theorem WF.exists_path {t : Taxo} {root : Nat} {depth : Nat → Nat} (wf : WF t root depth) :
    ∀ (d x : Nat) (n : Node), depth x ≤ d → t.node x = some n → ∃ p, IsPath t x p ∧ p.length ≤ depth x + 1 := by
  intro d
  induction d with
  | zero =>
    intro x n hd hn
    by_cases hr : n.parent = x
    · exact ⟨[x], IsPath.root hn hr, by simp⟩
    · have := wf.depth_dec x n hn hr; omega
  | succ d ih =>
    intro x n hd hn
    by_cases hr : n.parent = x
    · exact ⟨[x], IsPath.root hn hr, by simp⟩
    · have hlt := wf.depth_dec x n hn hr
      obtain ⟨m, hm⟩ := wf.parent_node x n hn
      obtain ⟨p, hp, hl⟩ := ih n.parent m (by omega) hm
      exact ⟨x :: p, IsPath.step hn hr hp, by simp; omega⟩

/-! ## the executable `path` against `IsPath` -/

theorem path_ok_isPath {t : Taxo} : ∀ (f x : Nat) (p : List Nat), path t f x = .ok p → IsPath t x p ∧ p.length ≤ f := by
  intro f
  induction f with
  | zero => intro x p h; simp [path] at h
  | succ f ih =>
    intro x p h
    unfold path at h
    split at h
    · cases h
    · rename_i n hn
      split at h
      · rename_i hr
        cases h
        exact ⟨IsPath.root hn hr, by simp⟩
      · rename_i hr
        split at h
        · rename_i q hq
          cases h
          obtain ⟨h1, h2⟩ := ih _ _ hq
          exact ⟨IsPath.step hn hr h1, by simp; omega⟩
        · cases h

theorem isPath_path_ok {t : Taxo} {x : Nat} {p : List Nat} (hp : IsPath t x p) :
    ∀ f, p.length ≤ f → path t f x = .ok p := by
  induction hp with
  | root hn hr =>
    intro f hf
    cases f with
    | zero => simp at hf
    | succ f => simp [path, hn, hr]
  | @step x n p hn hr _ ih =>
    intro f hf
    cases f with
    | zero => simp at hf
    | succ f =>
      have := ih f (by simp at hf; omega)
      simp [path, hn, hr, this]

theorem path_total {t : Taxo} {root : Nat} {depth : Nat → Nat} (wf : WF t root depth) {fuel : Nat}
    (hf : FuelOK t depth fuel) {x : Nat} {n : Node} (hn : t.node x = some n) :
    ∃ p, path t fuel x = .ok p ∧ IsPath t x p := by
  obtain ⟨p, hp, hl⟩ := wf.exists_path (depth x) x n (Nat.le_refl _) hn
  have := hf x n hn
  exact ⟨p, isPath_path_ok hp fuel (by omega), hp⟩

/-! ## the loops that walk in lockstep with `path` -/

/-- the node of taxid `y` carries rank `r` -/
def rankIs (t : Taxo) (r : String) (y : Nat) : Bool :=
  match t.node y with
  | some n => n.rank == r
  | none => false

theorem taxonAtRank_eq_find {t : Taxo} (r : String) :
    ∀ (f x : Nat) (p : List Nat), path t f x = .ok p → taxonAtRank t r f x = .ok (p.find? (rankIs t r)) := by
  intro f
  induction f with
  | zero => intro x p h; simp [path] at h
  | succ f ih =>
    intro x p h
    unfold path at h
    unfold taxonAtRank
    split at h
    · cases h
    · rename_i n hn
      split at h
      · rename_i hr
        cases h
        by_cases hk : n.rank = r <;> simp [hk, hr, rankIs, hn]
      · rename_i hr
        split at h
        · rename_i q hq
          cases h
          by_cases hk : n.rank = r
          · simp [hk, rankIs, hn]
          · simp [hk, hr, rankIs, hn, ih _ _ hq]
        · cases h

theorem hasRankDefined_eq_any {t : Taxo} (r : String) :
    ∀ (f x : Nat) (p : List Nat), path t f x = .ok p → hasRankDefined t r f x = .ok (p.any (rankIs t r)) := by
  intro f
  induction f with
  | zero => intro x p h; simp [path] at h
  | succ f ih =>
    intro x p h
    unfold path at h
    unfold hasRankDefined
    split at h
    · cases h
    · rename_i n hn
      split at h
      · rename_i hr
        cases h
        by_cases hk : n.rank = r <;> simp [hk, hr, rankIs, hn]
      · rename_i hr
        split at h
        · rename_i q hq
          cases h
          by_cases hk : n.rank = r
          · simp [hk, rankIs, hn]
          · simp [hk, hr, rankIs, hn, ih _ _ hq]
        · cases h

theorem isSubCladeOf_eq_contains {t : Taxo} (c : Nat) :
    ∀ (f x : Nat) (p : List Nat), path t f x = .ok p → isSubCladeOf t c f x = .ok (p.contains c) := by
  intro f
  induction f with
  | zero => intro x p h; simp [path] at h
  | succ f ih =>
    intro x p h
    unfold path at h
    unfold isSubCladeOf
    split at h
    · cases h
    · rename_i n hn
      split at h
      · rename_i hr
        cases h
        by_cases hk : x = c
        · simp [hk]
        · have : ¬ c = x := fun e => hk e.symm
          simp [hk, hr, this]
      · rename_i hr
        split at h
        · rename_i q hq
          cases h
          by_cases hk : x = c
          · simp [hk]
          · have : ¬ c = x := fun e => hk e.symm
            simp [hk, hr, this, ih _ _ hq]
        · cases h

/-! ## longest common prefix and `lastCommon` -/

/-- longest common prefix -/
def cpre : List Nat → List Nat → List Nat
  | a :: as, b :: bs => if a = b then a :: cpre as bs else []
  | _, _ => []

theorem or_getLast (c : List Nat) (a : Nat) : (c.getLast?).or (some a) = (a :: c).getLast? := by
  rw [List.getLast?_cons]
  cases c.getLast? <;> simp

theorem lastCommon_eq : ∀ (l1 l2 : List Nat) (acc : Option Nat),
    lastCommon l1 l2 acc = ((cpre l1 l2).getLast?).or acc := by
  intro l1
  induction l1 with
  | nil => intro l2 acc; simp [lastCommon, cpre]
  | cons a as ih =>
    intro l2 acc
    cases l2 with
    | nil => simp [lastCommon, cpre]
    | cons b bs =>
      by_cases h : a = b
      · simp only [lastCommon, cpre, h, if_true]
        rw [ih, or_getLast]
        simp
      · simp [lastCommon, cpre, h]

theorem cpre_comm : ∀ (l1 l2 : List Nat), cpre l1 l2 = cpre l2 l1 := by
  intro l1
  induction l1 with
  | nil => intro l2; cases l2 <;> simp [cpre]
  | cons a as ih =>
    intro l2
    cases l2 with
    | nil => simp [cpre]
    | cons b bs =>
      by_cases h : a = b
      · subst h; simp [cpre, ih bs]
      · have : ¬ b = a := fun e => h e.symm
        simp [cpre, h, this]

theorem cpre_self : ∀ (l : List Nat), cpre l l = l := by
  intro l; induction l with
  | nil => simp [cpre]
  | cons a as ih => simp [cpre, ih]

theorem cpre_prefix_left : ∀ (l1 l2 : List Nat), cpre l1 l2 <+: l1 := by
  intro l1
  induction l1 with
  | nil => intro l2; simp [cpre]
  | cons a as ih =>
    intro l2
    cases l2 with
    | nil => simp [cpre]
    | cons b bs =>
      by_cases h : a = b
      · simp only [cpre, h, if_true]; rw [← h]; exact (List.prefix_cons_inj a).2 (ih bs)
      · simp [cpre, h]

theorem cpre_prefix_right (l1 l2 : List Nat) : cpre l1 l2 <+: l2 := by
  rw [cpre_comm]; exact cpre_prefix_left l2 l1

theorem prefix_cpre : ∀ (l l1 l2 : List Nat), l <+: l1 → l <+: l2 → l <+: cpre l1 l2 := by
  intro l
  induction l with
  | nil => intro l1 l2 _ _; exact List.nil_prefix
  | cons a as ih =>
    intro l1 l2 h1 h2
    obtain ⟨s1, rfl⟩ := h1
    obtain ⟨s2, rfl⟩ := h2
    simp only [List.cons_append, cpre, if_true]
    exact (List.prefix_cons_inj a).2 (ih _ _ (List.prefix_append _ _) (List.prefix_append _ _))

/-! ## `TaxNode.LCA` -/

/-- the comparison of the two paths from their root end: the common part is itself the (reversed)
path of its last element `z`, and `z` is the deepest common ancestor -/
theorem lca_char {t : Taxo} {root : Nat} {depth : Nat → Nat} (wf : WF t root depth)
    {x y : Nat} {px py : List Nat} (hx : IsPath t x px) (hy : IsPath t y py) :
    ∃ z, lastCommon px.reverse py.reverse none = some z ∧
      IsPath t z (cpre px.reverse py.reverse).reverse ∧
      (∀ a, Anc t a z ↔ (Anc t a x ∧ Anc t a y)) := by
  -- both reversed paths start with the root, so the common prefix is not empty
  have hrx : [root] <+: px.reverse := by
    have := hx.getLast wf
    rw [List.getLast?_eq_head?_reverse] at this
    cases h : px.reverse with
    | nil => rw [h] at this; simp at this
    | cons a r => rw [h] at this; simp at this; subst this; simp
  have hry : [root] <+: py.reverse := by
    have := hy.getLast wf
    rw [List.getLast?_eq_head?_reverse] at this
    cases h : py.reverse with
    | nil => rw [h] at this; simp at this
    | cons a r => rw [h] at this; simp at this; subst this; simp
  have hne : cpre px.reverse py.reverse ≠ [] := by
    have := prefix_cpre _ _ _ hrx hry
    intro e; rw [e] at this; simp at this
  -- cp = c ++ [z]
  obtain ⟨c, z, hcz⟩ : ∃ c z, cpre px.reverse py.reverse = c ++ [z] := by
    rcases List.eq_nil_or_concat (cpre px.reverse py.reverse) with h | ⟨c, z, h⟩
    · exact absurd h hne
    · exact ⟨c, z, by simpa using h⟩
  -- px = s.reverse ++ z :: c.reverse
  obtain ⟨s, hs⟩ := cpre_prefix_left px.reverse py.reverse
  have hpx : px = s.reverse ++ z :: c.reverse := by
    have : px.reverse.reverse = (c ++ [z] ++ s).reverse := by rw [← hcz, hs]
    simpa using this
  have hz : IsPath t z (z :: c.reverse) := hx.suffix _ _ _ hpx
  have hrev : (cpre px.reverse py.reverse).reverse = z :: c.reverse := by rw [hcz]; simp
  refine ⟨z, ?_, ?_, ?_⟩
  · rw [lastCommon_eq, hcz]; simp
  · rw [hrev]; exact hz
  · intro a
    constructor
    · intro ha
      have zx : Anc t z x := hx.anc_of_mem (by rw [hpx]; simp)
      have zy : Anc t z y := by
        apply hy.anc_of_mem
        have : z ∈ py.reverse := (cpre_prefix_right px.reverse py.reverse).subset (by rw [hcz]; simp)
        simpa using this
      exact ⟨ha.trans zx, ha.trans zy⟩
    · rintro ⟨hax, hay⟩
      have h1 := IsPath.mem_of_anc hax hx
      have h2 := IsPath.mem_of_anc hay hy
      obtain ⟨l1, l2, e1⟩ := List.append_of_mem h1
      obtain ⟨m1, m2, e2⟩ := List.append_of_mem h2
      have pa1 := hx.suffix _ _ _ e1
      have pa2 := hy.suffix _ _ _ e2
      have e := pa1.functional pa2
      have q1 : (a :: l2).reverse <+: px.reverse := by rw [e1]; simp
      have q2 : (a :: l2).reverse <+: py.reverse := by rw [e2, ← e]; simp
      have q := prefix_cpre _ _ _ q1 q2
      have : a ∈ cpre px.reverse py.reverse := q.subset (by simp)
      apply hz.anc_of_mem
      rw [← hrev]; simpa using this

theorem lca_ok {t : Taxo} {root : Nat} {depth : Nat → Nat} (wf : WF t root depth) {fuel : Nat}
    (hf : FuelOK t depth fuel) {x y : Nat} {nx ny : Node} (hx : t.node x = some nx) (hy : t.node y = some ny) :
    ∃ z nz, lca t fuel x y = .ok z ∧ t.node z = some nz ∧ (∀ a, Anc t a z ↔ (Anc t a x ∧ Anc t a y)) ∧
      ∃ px py, path t fuel x = .ok px ∧ path t fuel y = .ok py ∧
        path t fuel z = .ok (cpre px.reverse py.reverse).reverse := by
  obtain ⟨px, hpx, ipx⟩ := path_total wf hf hx
  obtain ⟨py, hpy, ipy⟩ := path_total wf hf hy
  obtain ⟨z, h1, h2, h3⟩ := lca_char wf ipx ipy
  obtain ⟨nz, hnz⟩ := h2.isNode
  refine ⟨z, nz, ?_, hnz, h3, px, py, hpx, hpy, ?_⟩
  · simp [lca, hpx, hpy, h1]
  · obtain ⟨pz, hpz, ipz⟩ := path_total wf hf hnz
    rw [hpz, ipz.functional h2]

end ObiVerif.Tax
