import ObiVerif.Model.Tax
/-!
# Lemmas on the taxonomy model (C14)

Specification vocabulary (`Anc`, `IsPath`, `WF`) and the facts the property theorems are assembled from.
-/
namespace ObiVerif.Tax

/-- `Anc t a x` : `a` is `x` or is reached from `x` by following parent links -/
inductive Anc (t : Taxo) : Nat → Nat → Prop
  | refl (x : Nat) : Anc t x x
  | step {a x : Nat} {n : Node} : t.node x = some n → Anc t a n.parent → Anc t a x

/-- `IsPath t x p` : `p` lists `x`, its parent, its grand-parent, … and stops at the first node that
is its own parent -/
inductive IsPath (t : Taxo) : Nat → List Nat → Prop
  | root {x : Nat} {n : Node} : t.node x = some n → n.parent = x → IsPath t x [x]
  | step {x : Nat} {n : Node} {p : List Nat} :
      t.node x = some n → n.parent ≠ x → IsPath t n.parent p → IsPath t x (x :: p)

/-- well-formed taxonomy: `root` is its own parent and the only such node, the parent of a node is a
node, and every node reaches the root (`depth` strictly decreases along parent links) -/
structure WF (t : Taxo) (root : Nat) (depth : Nat → Nat) : Prop where
  root_node : ∃ n, t.node root = some n ∧ n.parent = root
  only_root : ∀ x n, t.node x = some n → n.parent = x → x = root
  parent_node : ∀ x n, t.node x = some n → ∃ m, t.node n.parent = some m
  depth_dec : ∀ x n, t.node x = some n → n.parent ≠ x → depth n.parent < depth x

/-- the fuel given to the walking-up loops is at least the length of every path (see
`fuelOK_of_depth` and `fuelOK_of_ids` for the two usual ways to have it) -/
def FuelOK (t : Taxo) (fuel : Nat) : Prop :=
  ∀ x p, IsPath t x p → p.length ≤ fuel

/-! ## Anc -/

theorem Anc.trans {t : Taxo} {a b x : Nat} (h1 : Anc t a b) (h2 : Anc t b x) : Anc t a x := by
  induction h2 with
  | refl => exact h1
  | step hn _ ih => exact Anc.step hn ih

theorem Anc.eq_or_depth_lt {t : Taxo} {root : Nat} {depth : Nat → Nat} (wf : WF t root depth)
    {a x : Nat} (h : Anc t a x) : a = x ∨ depth a < depth x := by
  induction h with
  | refl => exact Or.inl rfl
  | @step x n hn _ ih =>
    by_cases hp : n.parent = x
    · rw [hp] at ih; exact ih
    · have := wf.depth_dec x n hn hp
      rcases ih with h | h
      · right; rw [h]; exact this
      · right; omega

theorem Anc.antisymm {t : Taxo} {root : Nat} {depth : Nat → Nat} (wf : WF t root depth)
    {a x : Nat} (h1 : Anc t a x) (h2 : Anc t x a) : a = x := by
  rcases h1.eq_or_depth_lt wf with h | h
  · exact h
  · rcases h2.eq_or_depth_lt wf with h' | h'
    · exact h'.symm
    · omega

/-! ## IsPath -/

theorem IsPath.functional {t : Taxo} {x : Nat} {p q : List Nat} (hp : IsPath t x p) (hq : IsPath t x q) :
    p = q := by
  induction hp generalizing q with
  | root hn hr =>
    cases hq with
    | root _ _ => rfl
    | step hn' hr' _ => rw [hn] at hn'; cases hn'; exact absurd hr hr'
  | step hn hr _ ih =>
    cases hq with
    | root hn' hr' => rw [hn] at hn'; cases hn'; exact absurd hr' hr
    | step hn' _ hq' => rw [hn] at hn'; cases hn'; rw [ih hq']

theorem IsPath.head {t : Taxo} {x : Nat} {p : List Nat} (hp : IsPath t x p) : ∃ q, p = x :: q := by
  cases hp with
  | root _ _ => exact ⟨[], rfl⟩
  | step _ _ _ => exact ⟨_, rfl⟩

theorem IsPath.isNode {t : Taxo} {x : Nat} {p : List Nat} (hp : IsPath t x p) : ∃ n, t.node x = some n := by
  cases hp with
  | root hn _ => exact ⟨_, hn⟩
  | step hn _ _ => exact ⟨_, hn⟩

/-- the path of `x` contains exactly the ancestors-or-self of `x` -/
theorem IsPath.mem_of_anc {t : Taxo} {a x : Nat} (h : Anc t a x) :
    ∀ {p : List Nat}, IsPath t x p → a ∈ p := by
  induction h with
  | refl => intro p hp; obtain ⟨q, rfl⟩ := hp.head; simp
  | @step x n hn _ ih =>
    intro p hp
    cases hp with
    | root hn' hr =>
      rw [hn] at hn'; cases hn'
      have hp' : IsPath t n.parent [x] := by rw [hr]; exact IsPath.root hn hr
      exact ih hp'
    | step hn' _ hp' => rw [hn] at hn'; cases hn'; exact List.mem_cons_of_mem _ (ih hp')

theorem IsPath.anc_of_mem {t : Taxo} {x : Nat} {p : List Nat} (hp : IsPath t x p) :
    ∀ {a : Nat}, a ∈ p → Anc t a x := by
  induction hp with
  | root _ _ => intro a ha; simp at ha; subst ha; exact Anc.refl _
  | step hn _ _ ih =>
    intro a ha
    rcases List.mem_cons.1 ha with h | h
    · subst h; exact Anc.refl _
    · exact Anc.step hn (ih h)

theorem IsPath.mem_iff_anc {t : Taxo} {x : Nat} {p : List Nat} (hp : IsPath t x p) (a : Nat) :
    a ∈ p ↔ Anc t a x := ⟨hp.anc_of_mem, fun h => IsPath.mem_of_anc h hp⟩

/-- every suffix of a path is the path of its first element -/
theorem IsPath.suffix {t : Taxo} {x : Nat} {p : List Nat} (hp : IsPath t x p) :
    ∀ (l1 : List Nat) (z : Nat) (l2 : List Nat), p = l1 ++ z :: l2 → IsPath t z (z :: l2) := by
  induction hp with
  | @root x n hn hr =>
    intro l1 z l2 h
    cases l1 with
    | nil => simp at h; obtain ⟨rfl, rfl⟩ := h; exact IsPath.root hn hr
    | cons a l => simp at h
  | @step x n p hn hr hp' ih =>
    intro l1 z l2 h
    cases l1 with
    | nil => simp at h; obtain ⟨rfl, rfl⟩ := h; exact IsPath.step hn hr hp'
    | cons a l => simp at h; exact ih l z l2 h.2

/-- a path ends at the root -/
theorem IsPath.getLast {t : Taxo} {root : Nat} {depth : Nat → Nat} (wf : WF t root depth)
    {x : Nat} {p : List Nat} (hp : IsPath t x p) : p.getLast? = some root := by
  induction hp with
  | root hn hr => simp [wf.only_root _ _ hn hr]
  | @step x n p hn hr hp' ih =>
    obtain ⟨q, rfl⟩ := hp'.head
    simpa [List.getLast?_cons_cons] using ih

/-- consecutive elements of a path are linked by a parent link that is not a self loop, the last
element is its own parent -/
def Linked (t : Taxo) : List Nat → Prop
  | [] => False
  | [x] => ∃ n, t.node x = some n ∧ n.parent = x
  | x :: y :: r => (∃ n, t.node x = some n ∧ n.parent = y ∧ y ≠ x) ∧ Linked t (y :: r)

theorem IsPath.linked {t : Taxo} {x : Nat} {p : List Nat} (hp : IsPath t x p) : Linked t p := by
  induction hp with
  | root hn hr => exact ⟨_, hn, hr⟩
  | @step x n p hn hr hp' ih =>
    obtain ⟨q, rfl⟩ := hp'.head
    exact ⟨⟨n, hn, rfl, hr⟩, ih⟩

/-- existence: in a well-formed taxonomy every node has a path, of length at most depth + 1 -/
theorem WF.exists_path {t : Taxo} {root : Nat} {depth : Nat → Nat} (wf : WF t root depth) :
    ∀ (d x : Nat) (n : Node), depth x ≤ d → t.node x = some n → ∃ p, IsPath t x p ∧ p.length ≤ depth x + 1 := by
  intro d
  induction d with
  | zero =>
    intro x n hd hn
    by_cases hr : n.parent = x
    · exact ⟨[x], IsPath.root hn hr, by simp⟩
    · have := wf.depth_dec x n hn hr; omega
  | succ d ih =>
    intro x n hd hn
    by_cases hr : n.parent = x
    · exact ⟨[x], IsPath.root hn hr, by simp⟩
    · have hlt := wf.depth_dec x n hn hr
      obtain ⟨m, hm⟩ := wf.parent_node x n hn
      obtain ⟨p, hp, hl⟩ := ih n.parent m (by omega) hm
      exact ⟨x :: p, IsPath.step hn hr hp, by simp; omega⟩

/-! ## the executable `path` against `IsPath` -/

theorem path_ok_isPath {t : Taxo} : ∀ (f x : Nat) (p : List Nat), path t f x = .ok p → IsPath t x p ∧ p.length ≤ f := by
  intro f
  induction f with
  | zero => intro x p h; simp [path] at h
  | succ f ih =>
    intro x p h
    unfold path at h
    split at h
    · cases h
    · rename_i n hn
      split at h
      · rename_i hr
        cases h
        exact ⟨IsPath.root hn hr, by simp⟩
      · rename_i hr
        split at h
        · rename_i q hq
          cases h
          obtain ⟨h1, h2⟩ := ih _ _ hq
          exact ⟨IsPath.step hn hr h1, by simp; omega⟩
        · cases h

theorem isPath_path_ok {t : Taxo} {x : Nat} {p : List Nat} (hp : IsPath t x p) :
    ∀ f, p.length ≤ f → path t f x = .ok p := by
  induction hp with
  | root hn hr =>
    intro f hf
    cases f with
    | zero => simp at hf
    | succ f => simp [path, hn, hr]
  | @step x n p hn hr _ ih =>
    intro f hf
    cases f with
    | zero => simp at hf
    | succ f =>
      have := ih f (by simp at hf; omega)
      simp [path, hn, hr, this]

theorem path_total {t : Taxo} {root : Nat} {depth : Nat → Nat} (wf : WF t root depth) {fuel : Nat}
    (hf : FuelOK t fuel) {x : Nat} {n : Node} (hn : t.node x = some n) :
    ∃ p, path t fuel x = .ok p ∧ IsPath t x p := by
  obtain ⟨p, hp, _⟩ := wf.exists_path (depth x) x n (Nat.le_refl _) hn
  exact ⟨p, isPath_path_ok hp fuel (hf x p hp), hp⟩

/-- a fuel above the depth of every node is enough -/
theorem fuelOK_of_depth {t : Taxo} {root : Nat} {depth : Nat → Nat} (wf : WF t root depth) {fuel : Nat}
    (h : ∀ x n, t.node x = some n → depth x < fuel) : FuelOK t fuel := by
  intro x p hp
  obtain ⟨n, hn⟩ := hp.isNode
  obtain ⟨q, hq, hl⟩ := wf.exists_path (depth x) x n (Nat.le_refl _) hn
  have := h x n hn
  rw [hp.functional hq]; omega

/-! ## the loops that walk in lockstep with `path` -/

/-- the node of taxid `y` carries rank `r` -/
def rankIs (t : Taxo) (r : String) (y : Nat) : Bool :=
  match t.node y with
  | some n => n.rank == r
  | none => false

theorem taxonAtRank_eq_find {t : Taxo} (r : String) :
    ∀ (f x : Nat) (p : List Nat), path t f x = .ok p → taxonAtRank t r f x = .ok (p.find? (rankIs t r)) := by
  intro f
  induction f with
  | zero => intro x p h; simp [path] at h
  | succ f ih =>
    intro x p h
    unfold path at h
    unfold taxonAtRank
    split at h
    · cases h
    · rename_i n hn
      split at h
      · rename_i hr
        cases h
        by_cases hk : n.rank = r <;> simp [hk, hr, rankIs, hn]
      · rename_i hr
        split at h
        · rename_i q hq
          cases h
          by_cases hk : n.rank = r
          · simp [hk, rankIs, hn]
          · simp [hk, hr, rankIs, hn, ih _ _ hq]
        · cases h

theorem hasRankDefined_eq_any {t : Taxo} (r : String) :
    ∀ (f x : Nat) (p : List Nat), path t f x = .ok p → hasRankDefined t r f x = .ok (p.any (rankIs t r)) := by
  intro f
  induction f with
  | zero => intro x p h; simp [path] at h
  | succ f ih =>
    intro x p h
    unfold path at h
    unfold hasRankDefined
    split at h
    · cases h
    · rename_i n hn
      split at h
      · rename_i hr
        cases h
        by_cases hk : n.rank = r <;> simp [hk, hr, rankIs, hn]
      · rename_i hr
        split at h
        · rename_i q hq
          cases h
          by_cases hk : n.rank = r
          · simp [hk, rankIs, hn]
          · simp [hk, hr, rankIs, hn, ih _ _ hq]
        · cases h

theorem isSubCladeOf_eq_contains {t : Taxo} (c : Nat) :
    ∀ (f x : Nat) (p : List Nat), path t f x = .ok p → isSubCladeOf t c f x = .ok (p.contains c) := by
  intro f
  induction f with
  | zero => intro x p h; simp [path] at h
  | succ f ih =>
    intro x p h
    unfold path at h
    unfold isSubCladeOf
    split at h
    · cases h
    · rename_i n hn
      split at h
      · rename_i hr
        cases h
        by_cases hk : x = c
        · simp [hk]
        · have : ¬ c = x := fun e => hk e.symm
          simp [hk, hr, this]
      · rename_i hr
        split at h
        · rename_i q hq
          cases h
          by_cases hk : x = c
          · simp [hk]
          · have : ¬ c = x := fun e => hk e.symm
            simp [hk, hr, this, ih _ _ hq]
        · cases h

/-! ## longest common prefix and `lastCommon` -/

/-- longest common prefix -/
def cpre : List Nat → List Nat → List Nat
  | a :: as, b :: bs => if a = b then a :: cpre as bs else []
  | _, _ => []

theorem or_getLast (c : List Nat) (a : Nat) : (c.getLast?).or (some a) = (a :: c).getLast? := by
  rw [List.getLast?_cons]
  cases c.getLast? <;> simp

theorem lastCommon_eq : ∀ (l1 l2 : List Nat) (acc : Option Nat),
    lastCommon l1 l2 acc = ((cpre l1 l2).getLast?).or acc := by
  intro l1
  induction l1 with
  | nil => intro l2 acc; simp [lastCommon, cpre]
  | cons a as ih =>
    intro l2 acc
    cases l2 with
    | nil => simp [lastCommon, cpre]
    | cons b bs =>
      by_cases h : a = b
      · simp only [lastCommon, cpre, h, if_true]
        rw [ih, or_getLast]
        rw [List.getLast?_cons]; simp
      · simp [lastCommon, cpre, h]

theorem cpre_comm : ∀ (l1 l2 : List Nat), cpre l1 l2 = cpre l2 l1 := by
  intro l1
  induction l1 with
  | nil => intro l2; cases l2 <;> simp [cpre]
  | cons a as ih =>
    intro l2
    cases l2 with
    | nil => simp [cpre]
    | cons b bs =>
      by_cases h : a = b
      · subst h; simp [cpre, ih bs]
      · have : ¬ b = a := fun e => h e.symm
        simp [cpre, h, this]

theorem cpre_self : ∀ (l : List Nat), cpre l l = l := by
  intro l; induction l with
  | nil => simp [cpre]
  | cons a as ih => simp [cpre, ih]

theorem cpre_prefix_left : ∀ (l1 l2 : List Nat), cpre l1 l2 <+: l1 := by
  intro l1
  induction l1 with
  | nil => intro l2; simp [cpre]
  | cons a as ih =>
    intro l2
    cases l2 with
    | nil => simp [cpre]
    | cons b bs =>
      by_cases h : a = b
      · simp only [cpre, h, if_true]; rw [← h]; exact (List.prefix_cons_inj a).2 (ih bs)
      · simp [cpre, h]

theorem cpre_prefix_right (l1 l2 : List Nat) : cpre l1 l2 <+: l2 := by
  rw [cpre_comm]; exact cpre_prefix_left l2 l1

theorem prefix_cpre : ∀ (l l1 l2 : List Nat), l <+: l1 → l <+: l2 → l <+: cpre l1 l2 := by
  intro l
  induction l with
  | nil => intro l1 l2 _ _; exact List.nil_prefix
  | cons a as ih =>
    intro l1 l2 h1 h2
    obtain ⟨s1, rfl⟩ := h1
    obtain ⟨s2, rfl⟩ := h2
    simp only [List.cons_append, cpre, if_true]
    exact (List.prefix_cons_inj a).2 (ih _ _ (List.prefix_append _ _) (List.prefix_append _ _))

/-! ## `TaxNode.LCA` -/

/-- the comparison of the two paths from their root end: the common part is itself the (reversed)
path of its last element `z`, and `z` is the deepest common ancestor -/
theorem lca_char {t : Taxo} {root : Nat} {depth : Nat → Nat} (wf : WF t root depth)
    {x y : Nat} {px py : List Nat} (hx : IsPath t x px) (hy : IsPath t y py) :
    ∃ z, lastCommon px.reverse py.reverse none = some z ∧
      IsPath t z (cpre px.reverse py.reverse).reverse ∧
      (∀ a, Anc t a z ↔ (Anc t a x ∧ Anc t a y)) := by
  -- both reversed paths start with the root, so the common prefix is not empty
  have hrx : [root] <+: px.reverse := by
    have := hx.getLast wf
    rw [List.getLast?_eq_head?_reverse] at this
    cases h : px.reverse with
    | nil => rw [h] at this; simp at this
    | cons a r => rw [h] at this; simp at this; subst this; simp
  have hry : [root] <+: py.reverse := by
    have := hy.getLast wf
    rw [List.getLast?_eq_head?_reverse] at this
    cases h : py.reverse with
    | nil => rw [h] at this; simp at this
    | cons a r => rw [h] at this; simp at this; subst this; simp
  have hne : cpre px.reverse py.reverse ≠ [] := by
    have := prefix_cpre _ _ _ hrx hry
    intro e; rw [e] at this; simp at this
  -- cp = c ++ [z]
  obtain ⟨c, z, hcz⟩ : ∃ c z, cpre px.reverse py.reverse = c ++ [z] := by
    rcases List.eq_nil_or_concat (cpre px.reverse py.reverse) with h | ⟨c, z, h⟩
    · exact absurd h hne
    · exact ⟨c, z, by simpa using h⟩
  -- px = s.reverse ++ z :: c.reverse
  obtain ⟨s, hs⟩ := cpre_prefix_left px.reverse py.reverse
  have hpx : px = s.reverse ++ z :: c.reverse := by
    have : px.reverse.reverse = (c ++ [z] ++ s).reverse := by rw [← hcz, hs]
    simpa using this
  have hz : IsPath t z (z :: c.reverse) := hx.suffix _ _ _ hpx
  have hrev : (cpre px.reverse py.reverse).reverse = z :: c.reverse := by rw [hcz]; simp
  refine ⟨z, ?_, ?_, ?_⟩
  · rw [lastCommon_eq, hcz]; simp
  · rw [hrev]; exact hz
  · intro a
    constructor
    · intro ha
      have zx : Anc t z x := hx.anc_of_mem (by rw [hpx]; simp)
      have zy : Anc t z y := by
        apply hy.anc_of_mem
        have : z ∈ py.reverse := (cpre_prefix_right px.reverse py.reverse).subset (by rw [hcz]; simp)
        simpa using this
      exact ⟨ha.trans zx, ha.trans zy⟩
    · rintro ⟨hax, hay⟩
      have h1 := IsPath.mem_of_anc hax hx
      have h2 := IsPath.mem_of_anc hay hy
      obtain ⟨l1, l2, e1⟩ := List.append_of_mem h1
      obtain ⟨m1, m2, e2⟩ := List.append_of_mem h2
      have pa1 := hx.suffix _ _ _ e1
      have pa2 := hy.suffix _ _ _ e2
      have e := pa1.functional pa2
      have q1 : (a :: l2).reverse <+: px.reverse := by rw [e1]; simp
      have q2 : (a :: l2).reverse <+: py.reverse := by rw [e2, ← e]; simp
      have q := prefix_cpre _ _ _ q1 q2
      have : a ∈ cpre px.reverse py.reverse := q.subset (by simp)
      apply hz.anc_of_mem
      rw [← hrev]; simpa using this

theorem lca_ok {t : Taxo} {root : Nat} {depth : Nat → Nat} (wf : WF t root depth) {fuel : Nat}
    (hf : FuelOK t fuel) {x y : Nat} {nx ny : Node} (hx : t.node x = some nx) (hy : t.node y = some ny) :
    ∃ z nz, lca t fuel x y = .ok z ∧ t.node z = some nz ∧ (∀ a, Anc t a z ↔ (Anc t a x ∧ Anc t a y)) ∧
      ∃ px py, path t fuel x = .ok px ∧ path t fuel y = .ok py ∧
        path t fuel z = .ok (cpre px.reverse py.reverse).reverse := by
  obtain ⟨px, hpx, ipx⟩ := path_total wf hf hx
  obtain ⟨py, hpy, ipy⟩ := path_total wf hf hy
  obtain ⟨z, h1, h2, h3⟩ := lca_char wf ipx ipy
  obtain ⟨nz, hnz⟩ := h2.isNode
  refine ⟨z, nz, ?_, hnz, h3, px, py, hpx, hpy, ?_⟩
  · simp [lca, hpx, hpy, h1]
  · obtain ⟨pz, hpz, ipz⟩ := path_total wf hf hnz
    rw [hpz, ipz.functional h2]

/-! ## no repetition on a path -/

theorem IsPath.nodup {t : Taxo} {root : Nat} {depth : Nat → Nat} (wf : WF t root depth)
    {x : Nat} {p : List Nat} (hp : IsPath t x p) : p.Nodup := by
  induction hp with
  | root _ _ => simp
  | @step x n p hn hr hp' ih =>
    refine List.nodup_cons.2 ⟨?_, ih⟩
    intro hx
    have h1 := (hp'.anc_of_mem hx).eq_or_depth_lt wf
    have h2 := wf.depth_dec x n hn hr
    rcases h1 with h | h
    · exact hr h.symm
    · omega

/-- the fuel used by the model executable: when `ids` lists every node, number of nodes + 1 is enough
(a path has no repetition and stays among the nodes) -/
theorem fuelOK_of_ids {t : Taxo} {root : Nat} {depth : Nat → Nat} (wf : WF t root depth)
    (hids : ∀ x n, t.node x = some n → x ∈ t.ids) : FuelOK t (t.ids.length + 1) := by
  intro x p hp
  have hsub : p ⊆ t.ids := by
    intro a ha
    obtain ⟨l1, l2, e⟩ := List.append_of_mem ha
    obtain ⟨n, hn⟩ := (hp.suffix l1 a l2 e).isNode
    exact hids a n hn
  have := (hp.nodup wf).length_le_of_subset hsub
  omega

/-! ## aliases -/

/-- every alias points to a live node (invariant of `AddNewAlias`) -/
def AliasOK (t : Taxo) : Prop := ∀ o n, t.alias o = some n → ∃ m, t.node n = some m

theorem resolve_isNode {t : Taxo} (ha : AliasOK t) {id x : Nat} (h : resolve t id = some x) :
    ∃ m, t.node x = some m := by
  unfold resolve at h
  split at h
  · rename_i m hm; cases h; exact ⟨m, hm⟩
  · exact ha _ _ h

theorem addAlias_node (t : Taxo) (new old : Nat) : (addAlias t new old).node = t.node := by
  unfold addAlias; split <;> rfl

theorem addAlias_ids (t : Taxo) (new old : Nat) : (addAlias t new old).ids = t.ids := by
  unfold addAlias; split <;> rfl

theorem addAlias_aliasOK {t : Taxo} (ha : AliasOK t) (new old : Nat) : AliasOK (addAlias t new old) := by
  unfold addAlias
  split
  · rename_i n hn
    intro o m hm
    simp only at hm
    split at hm
    · cases hm; exact resolve_isNode ha hn
    · exact ha _ _ hm
  · exact ha

theorem addAliases_node (t : Taxo) (l : List (Nat × Nat)) : (addAliases t l).node = t.node := by
  unfold addAliases
  induction l generalizing t with
  | nil => rfl
  | cons a l ih => simp only [List.foldl_cons]; rw [ih, addAlias_node]

theorem addAliases_aliasOK {t : Taxo} (ha : AliasOK t) (l : List (Nat × Nat)) : AliasOK (addAliases t l) := by
  unfold addAliases
  induction l generalizing t with
  | nil => exact ha
  | cons a l ih => simp only [List.foldl_cons]; exact ih (addAlias_aliasOK ha _ _)

/-! ## clade and rank predicates on a resolved sequence taxid -/

theorem anyClade_eq {t : Taxo} {fuel tid x : Nat} {p : List Nat} (hr : resolve t tid = some x)
    (hp : path t fuel x = .ok p) :
    ∀ cs : List Nat, anyClade t fuel tid cs = .ok (cs.any fun c => p.contains c) := by
  intro cs
  induction cs with
  | nil => simp [anyClade]
  | cons c cs ih =>
    have : inClade t fuel c tid = .ok (p.contains c) := by
      simp [inClade, hr, isSubCladeOf_eq_contains c _ _ _ hp]
    unfold anyClade
    rw [this]
    cases h : p.contains c
    · simp only [List.any_cons, h, ih, Bool.false_or]
    · simp only [List.any_cons, h, Bool.true_or]

theorem anyClade_unknown {t : Taxo} {fuel tid : Nat} (hr : resolve t tid = none) :
    ∀ cs : List Nat, anyClade t fuel tid cs = .ok false := by
  intro cs
  induction cs with
  | nil => simp [anyClade]
  | cons c cs ih => simp [anyClade, inClade, hr, ih]

theorem allRanks_eq {t : Taxo} {fuel tid x : Nat} {p : List Nat} (hr : resolve t tid = some x)
    (hp : path t fuel x = .ok p) :
    ∀ rs : List String, allRanks t fuel tid rs = .ok (rs.all fun r => p.any (rankIs t r)) := by
  intro rs
  induction rs with
  | nil => simp [allRanks]
  | cons r rs ih =>
    have : hasRank t fuel r tid = .ok (p.any (rankIs t r)) := by
      simp [hasRank, hr, hasRankDefined_eq_any r _ _ _ hp]
    unfold allRanks
    rw [this]
    cases h : p.any (rankIs t r)
    · simp only [List.all_cons, h, Bool.false_and]
    · simp only [List.all_cons, h, ih, Bool.true_and]

theorem allRanks_unknown {t : Taxo} {fuel tid : Nat} (hr : resolve t tid = none) :
    ∀ rs : List String, allRanks t fuel tid rs = .ok rs.isEmpty := by
  intro rs
  cases rs with
  | nil => simp [allRanks]
  | cons r rs => simp [allRanks, hasRank, hr]

theorem resolveAll_ok {t : Taxo} : ∀ (cs rs : List Nat), resolveAll t cs = .ok rs →
    rs = cs.filterMap (resolve t) ∧ ∀ c ∈ cs, (resolve t c).isSome := by
  intro cs
  induction cs with
  | nil => intro rs h; simp [resolveAll] at h; subst h; simp
  | cons c cs ih =>
    intro rs h
    unfold resolveAll at h
    split at h
    · cases h
    · rename_i x hx
      split at h
      · rename_i r hr
        cases h
        obtain ⟨h1, h2⟩ := ih _ hr
        refine ⟨by simp [hx, h1], ?_⟩
        intro c' hc'
        rcases List.mem_cons.1 hc' with e | e
        · subst e; simp [hx]
        · exact h2 _ e
      · cases h

theorem resolveAll_fatal {t : Taxo} : ∀ (cs : List Nat), (∃ c ∈ cs, resolve t c = none) →
    resolveAll t cs = .error .fatal := by
  intro cs
  induction cs with
  | nil => intro h; obtain ⟨c, hc, _⟩ := h; simp at hc
  | cons c cs ih =>
    intro h
    unfold resolveAll
    cases hc : resolve t c with
    | none => rfl
    | some x =>
      simp only
      have : ∃ c' ∈ cs, resolve t c' = none := by
        obtain ⟨c', h1, h2⟩ := h
        rcases List.mem_cons.1 h1 with e | e
        · subst e; rw [hc] at h2; cases h2
        · exact ⟨c', e, h2⟩
      rw [ih this]

theorem resolveAll_total {t : Taxo} : ∀ (cs : List Nat), (∀ c ∈ cs, (resolve t c).isSome) →
    resolveAll t cs = .ok (cs.filterMap (resolve t)) := by
  intro cs
  induction cs with
  | nil => intro _; simp [resolveAll]
  | cons c cs ih =>
    intro h
    have hc := h c (by simp)
    obtain ⟨x, hx⟩ := Option.isSome_iff_exists.1 hc
    have := ih (fun c' hc' => h c' (List.mem_cons_of_mem _ hc'))
    simp [resolveAll, hx, this]

/-! ## the weighted LCA at threshold 1.0 -/

def sumW : List WItem → Nat
  | [] => 0
  | it :: r => it.w + sumW r

def sumAt (i k : Nat) : List WItem → Nat
  | [] => 0
  | it :: r => (if it.rp[i]? = some k then it.w else 0) + sumAt i k r

/-- every path has the taxon `k` at level `i` -/
def AllAt (items : List WItem) (i k : Nat) : Prop := ∀ it ∈ items, it.rp[i]? = some k

theorem sumAt_le (i k : Nat) : ∀ items, sumAt i k items ≤ sumW items := by
  intro items; induction items with
  | nil => simp [sumAt, sumW]
  | cons it r ih => simp only [sumAt, sumW]; split <;> omega

theorem sumAt_lt (i k : Nat) : ∀ items, (∃ it ∈ items, it.rp[i]? ≠ some k ∧ 0 < it.w) →
    sumAt i k items < sumW items := by
  intro items; induction items with
  | nil => intro h; obtain ⟨it, h, _⟩ := h; simp at h
  | cons it r ih =>
    intro h
    simp only [sumAt, sumW]
    obtain ⟨it', hm, hne, hw⟩ := h
    rcases List.mem_cons.1 hm with e | e
    · subst e; have := sumAt_le i k r; simp [hne]; omega
    · have := ih ⟨it', e, hne, hw⟩; split <;> omega

/-- `∀ (k, v) ∈ lv, v ≤ g k` -/
def Bnd (lv : List (Nat × Nat)) (g : Nat → Nat) : Prop := ∀ k v, (k, v) ∈ lv → v ≤ g k

theorem levelsAdd_bnd (k' w : Nat) : ∀ (lv : List (Nat × Nat)) (g : Nat → Nat), Bnd lv g →
    Bnd (levelsAdd lv k' w) (fun k => g k + if k = k' then w else 0) := by
  intro lv
  induction lv with
  | nil =>
    intro g _ k v h
    simp [levelsAdd] at h; obtain ⟨rfl, rfl⟩ := h; simp
  | cons a r ih =>
    intro g hb k v h
    obtain ⟨ka, va⟩ := a
    have hba := hb ka va (by simp)
    unfold levelsAdd at h
    split at h
    · rename_i e
      rcases List.mem_cons.1 h with h1 | h1
      · obtain ⟨e1, e2⟩ := Prod.mk.inj h1
        subst e1; subst e2; subst e
        simp only [if_true]; omega
      · have := hb k v (List.mem_cons_of_mem _ h1); simp only; omega
    · rcases List.mem_cons.1 h with h1 | h1
      · obtain ⟨e1, e2⟩ := Prod.mk.inj h1
        subst e1; subst e2
        simp only; omega
      · exact ih g (fun k v hm => hb k v (List.mem_cons_of_mem _ hm)) k v h1

def lvStep (i : Nat) (acc : List (Nat × Nat) × Nat) (it : WItem) : List (Nat × Nat) × Nat :=
  (match it.rp[i]? with
    | some k => levelsAdd acc.1 k it.w
    | none => acc.1, acc.2 + it.w)

theorem mkLevels_eq (items : List WItem) (i : Nat) : mkLevels items i = items.foldl (lvStep i) ([], 0) := rfl

theorem lvFold_bnd (i : Nat) : ∀ (items : List WItem) (lv : List (Nat × Nat)) (tot : Nat) (g : Nat → Nat),
    Bnd lv g →
    Bnd (items.foldl (lvStep i) (lv, tot)).1 (fun k => g k + sumAt i k items) ∧
    (items.foldl (lvStep i) (lv, tot)).2 = tot + sumW items := by
  intro items
  induction items with
  | nil => intro lv tot g hb; simp [sumAt, sumW]; exact hb
  | cons it r ih =>
    intro lv tot g hb
    simp only [List.foldl_cons]
    cases hk : it.rp[i]? with
    | none =>
      have := ih lv (tot + it.w) g hb
      simp only [lvStep, hk, sumAt, sumW]
      refine ⟨?_, by rw [this.2]; omega⟩
      intro k v hm
      have := this.1 k v hm
      simp at this ⊢; omega
    | some k' =>
      have hb' := levelsAdd_bnd k' it.w lv g hb
      have := ih (levelsAdd lv k' it.w) (tot + it.w) _ hb'
      simp only [lvStep, hk, sumAt, sumW]
      refine ⟨?_, by rw [this.2]; omega⟩
      intro k v hm
      have := this.1 k v hm
      simp only at this
      by_cases e : k = k'
      · subst e; simp at this ⊢; omega
      · have e' : ¬ k' = k := fun h => e h.symm
        simp [e, e'] at this ⊢; omega

theorem lvFold_all (i k : Nat) : ∀ (items : List WItem) (s tot : Nat), AllAt items i k →
    items.foldl (lvStep i) ([(k, s)], tot) = ([(k, s + sumW items)], tot + sumW items) := by
  intro items
  induction items with
  | nil => intro s tot _; simp [sumW]
  | cons it r ih =>
    intro s tot h
    have h1 : it.rp[i]? = some k := h it (by simp)
    have h2 : AllAt r i k := fun it' hm => h it' (List.mem_cons_of_mem _ hm)
    simp only [List.foldl_cons, lvStep, h1, levelsAdd, if_true, sumW]
    rw [ih _ _ h2]
    simp; omega

theorem mkLevels_all (i k : Nat) (items : List WItem) (hne : items ≠ []) (h : AllAt items i k) :
    mkLevels items i = ([(k, sumW items)], sumW items) := by
  cases items with
  | nil => exact absurd rfl hne
  | cons it r =>
    have h1 : it.rp[i]? = some k := h it (by simp)
    have h2 : AllAt r i k := fun it' hm => h it' (List.mem_cons_of_mem _ hm)
    rw [mkLevels_eq]
    simp only [List.foldl_cons, lvStep, h1, levelsAdd, sumW]
    rw [lvFold_all i k r _ _ h2]
    simp

def amStep (acc : Nat × Option Nat) (kv : Nat × Nat) : Nat × Option Nat :=
  if kv.2 > acc.1 then (kv.2, some kv.1) else acc

theorem argMax_eq (lv : List (Nat × Nat)) : argMax lv = lv.foldl amStep (0, none) := rfl

theorem amFold_mem : ∀ (lv : List (Nat × Nat)) (m0 : Nat) (k0 : Option Nat),
    lv.foldl amStep (m0, k0) = (m0, k0) ∨
    ∃ k, (lv.foldl amStep (m0, k0)).2 = some k ∧ (k, (lv.foldl amStep (m0, k0)).1) ∈ lv := by
  intro lv
  induction lv with
  | nil => intro m0 k0; left; rfl
  | cons a r ih =>
    intro m0 k0
    simp only [List.foldl_cons]
    by_cases h : a.2 > m0
    · have e : amStep (m0, k0) a = (a.2, some a.1) := by simp [amStep, h]
      rw [e]
      rcases ih a.2 (some a.1) with h1 | ⟨k, h1, h2⟩
      · right; rw [h1]; exact ⟨a.1, rfl, by simp⟩
      · right; exact ⟨k, h1, List.mem_cons_of_mem _ h2⟩
    · have e : amStep (m0, k0) a = (m0, k0) := by simp [amStep, h]
      rw [e]
      rcases ih m0 k0 with h1 | ⟨k, h1, h2⟩
      · left; exact h1
      · right; exact ⟨k, h1, List.mem_cons_of_mem _ h2⟩

theorem keep_all (i k : Nat) (items : List WItem) (h : AllAt items i k) :
    items.filter (keepItem i (some k)) = items := by
  apply List.filter_eq_self.2
  intro it hm
  simp [keepItem, h it hm]

/-- one turn of the main loop, all weights positive: the loop goes on exactly when all the paths
carry the same taxon at level `i`, which becomes the candidate answer, and nothing is deleted -/
theorem wloop_succ (items : List WItem) (hne : items ≠ []) (hw : ∀ it ∈ items, 0 < it.w)
    (f i : Nat) (tm : Option Nat) :
    (∀ k, AllAt items i k → wloop (f + 1) i items tm = wloop f (i + 1) items (some k)) ∧
    ((¬ ∃ k, AllAt items i k) → wloop (f + 1) i items tm = .ok tm) := by
  have hpos : 0 < sumW items := by
    cases items with
    | nil => exact absurd rfl hne
    | cons it r => have := hw it (by simp); simp only [sumW]; omega
  constructor
  · intro k h
    conv => lhs; unfold wloop
    simp only [mkLevels_all i k items hne h]
    have : argMax [(k, sumW items)] = (sumW items, some k) := by simp [argMax, hpos]
    simp only [this, hpos, true_and, if_true, keep_all i k items h]
  · intro h
    conv => lhs; unfold wloop
    simp only
    rw [if_neg]
    rintro ⟨hp, he⟩
    apply h
    have hb := lvFold_bnd i items [] 0 (fun _ => 0) (by intro k v hm; simp at hm)
    rw [← mkLevels_eq] at hb
    obtain ⟨hb1, hb2⟩ := hb
    rw [argMax_eq] at he
    rcases amFold_mem (mkLevels items i).1 0 none with h1 | ⟨k, _, h2⟩
    · rw [h1] at he; simp only at he; omega
    · rw [he, hb2] at h2
      have h3 := hb1 k _ h2
      simp only [Nat.zero_add] at h3
      refine ⟨k, fun it hm => ?_⟩
      apply Classical.byContradiction
      intro hc
      have := sumAt_lt i k items ⟨it, hm, hc, hw it hm⟩
      omega

theorem prefix_snoc_of_getElem {c l : List Nat} {k : Nat} (h : c <+: l) (hk : l[c.length]? = some k) :
    c ++ [k] <+: l := by
  obtain ⟨s, rfl⟩ := h
  cases s with
  | nil => simp at hk
  | cons a s' =>
    simp at hk; subst hk
    exact ⟨s', by simp⟩

theorem getElem_of_prefix_snoc {c l : List Nat} {k : Nat} (h : c ++ [k] <+: l) : l[c.length]? = some k := by
  obtain ⟨s, rfl⟩ := h
  simp

/-- the loop returns the last taxon of the longest common prefix `C` of the root-first paths -/
theorem wloop_cp (items : List WItem) (hne : items ≠ []) (hw : ∀ it ∈ items, 0 < it.w)
    (C : List Nat) (hC : ∀ c, c <+: C ↔ ∀ it ∈ items, c <+: it.rp) (tm0 : Option Nat) :
    ∀ (d : Nat) (c : List Nat) (f : Nat), c <+: C → C.length = c.length + d → d < f →
      wloop f c.length items ((c.getLast?).or tm0) = .ok ((C.getLast?).or tm0) := by
  intro d
  induction d with
  | zero =>
    intro c f hc hl hf
    have e : c = C := hc.eq_of_length (by omega)
    subst e
    cases f with
    | zero => omega
    | succ f =>
      apply (wloop_succ items hne hw f c.length _).2
      rintro ⟨k, hk⟩
      have : c ++ [k] <+: c := (hC _).2 (fun it hm => prefix_snoc_of_getElem ((hC c).1 hc it hm) (hk it hm))
      have := this.length_le
      simp at this
      omega
  | succ d ih =>
    intro c f hc hl hf
    obtain ⟨s, hs⟩ := hc
    cases s with
    | nil => simp at hs; subst hs; omega
    | cons k s' =>
      have hck : c ++ [k] <+: C := ⟨s', by rw [← hs]; simp⟩
      have hall : AllAt items c.length k := fun it hm => getElem_of_prefix_snoc ((hC _).1 hck it hm)
      cases f with
      | zero => omega
      | succ f =>
        rw [(wloop_succ items hne hw f c.length _).1 k hall]
        have := ih (c ++ [k]) f hck (by simp; omega) (by omega)
        simpa using this

/-! ## from the loop to the fold of `TaxNode.LCA` -/

/-- fold of `TaxNode.LCA` over a list of taxa, from the left -/
def lcaFold (t : Taxo) (fuel : Nat) : Nat → List Nat → Res Nat
  | x, [] => .ok x
  | x, y :: ys =>
    match lca t fuel x y with
    | .ok z => lcaFold t fuel z ys
    | .error e => .error e

/-- the root-first path of a node (`paths[taxon]` in `Taxonomy.LCA`) -/
def rpOf (t : Taxo) (fuel x : Nat) : List Nat :=
  match path t fuel x with
  | .ok p => p.reverse
  | .error _ => []

theorem mkItems_ok {t : Taxo} {root : Nat} {depth : Nat → Nat} (wf : WF t root depth) {fuel : Nat}
    (hf : FuelOK t fuel) : ∀ (dist : List (Nat × Nat)), (∀ d ∈ dist, ∃ n, t.node d.1 = some n) →
    mkItems t fuel dist = .ok (dist.map fun d => ⟨d.1, d.2, rpOf t fuel d.1⟩) := by
  intro dist
  induction dist with
  | nil => intro _; rfl
  | cons d r ih =>
    intro h
    obtain ⟨x, w⟩ := d
    obtain ⟨n, hn⟩ := h (x, w) (by simp)
    obtain ⟨p, hp, _⟩ := path_total wf hf hn
    have := ih (fun d hd => h d (List.mem_cons_of_mem _ hd))
    simp [mkItems, hp, this, rpOf]

theorem prefix_foldl_cpre (c : List Nat) : ∀ (ls : List (List Nat)) (l : List Nat),
    c <+: ls.foldl cpre l ↔ (c <+: l ∧ ∀ l' ∈ ls, c <+: l') := by
  intro ls
  induction ls with
  | nil => intro l; simp
  | cons a r ih =>
    intro l
    simp only [List.foldl_cons, ih, List.mem_cons, forall_eq_or_imp]
    constructor
    · rintro ⟨h1, h2⟩
      exact ⟨h1.trans (cpre_prefix_left _ _), h1.trans (cpre_prefix_right _ _), h2⟩
    · rintro ⟨h1, h2, h3⟩
      exact ⟨prefix_cpre _ _ _ h1 h2, h3⟩

theorem lcaFold_ok {t : Taxo} {root : Nat} {depth : Nat → Nat} (wf : WF t root depth) {fuel : Nat}
    (hf : FuelOK t fuel) : ∀ (ys : List Nat) (x : Nat) (nx : Node), t.node x = some nx →
    (∀ y ∈ ys, ∃ n, t.node y = some n) →
    ∃ z nz, lcaFold t fuel x ys = .ok z ∧ t.node z = some nz ∧
      rpOf t fuel z = (ys.map (rpOf t fuel)).foldl cpre (rpOf t fuel x) ∧
      (∀ a, Anc t a z ↔ (Anc t a x ∧ ∀ y ∈ ys, Anc t a y)) := by
  intro ys
  induction ys with
  | nil => intro x nx hx _; exact ⟨x, nx, rfl, hx, rfl, by simp⟩
  | cons y ys ih =>
    intro x nx hx h
    obtain ⟨ny, hy⟩ := h y (by simp)
    obtain ⟨u, nu, hu, hnu, cu, px, py, hpx, hpy, hpu⟩ := lca_ok wf hf hx hy
    obtain ⟨z, nz, hz, hnz, hrp, cz⟩ := ih u nu hnu (fun y' hy' => h y' (List.mem_cons_of_mem _ hy'))
    refine ⟨z, nz, by simp [lcaFold, hu, hz], hnz, ?_, ?_⟩
    · rw [hrp]
      simp only [List.map_cons, List.foldl_cons]
      congr 1
      simp [rpOf, hpx, hpy, hpu]
    · intro a
      rw [cz a, cu a]
      simp only [List.mem_cons, forall_eq_or_imp]
      exact and_assoc

/-- the loops of `Taxonomy.LCA(…, 1.0)` on a non-empty distribution of positive weights over nodes
return the left fold of `TaxNode.LCA` -/
theorem wlcaNodes_eq_fold {t : Taxo} {root : Nat} {depth : Nat → Nat} (wf : WF t root depth) {fuel : Nat}
    (hf : FuelOK t fuel) (x w : Nat) (rest : List (Nat × Nat))
    (hn : ∀ d ∈ (x, w) :: rest, ∃ n, t.node d.1 = some n) (hw : ∀ d ∈ (x, w) :: rest, 0 < d.2) :
    ∃ z, lcaFold t fuel x (rest.map (·.1)) = .ok z ∧ wlcaNodes t fuel ((x, w) :: rest) = .ok (some z) ∧
      (∀ a, Anc t a z ↔ ∀ d ∈ (x, w) :: rest, Anc t a d.1) := by
  obtain ⟨nx, hx⟩ := hn (x, w) (by simp)
  have hrest : ∀ y ∈ rest.map (·.1), ∃ n, t.node y = some n := by
    intro y hy
    obtain ⟨d, hd, rfl⟩ := List.mem_map.1 hy
    exact hn d (List.mem_cons_of_mem _ hd)
  obtain ⟨z, nz, hz, hnz, hrp, cz⟩ := lcaFold_ok wf hf (rest.map (·.1)) x nx hx hrest
  refine ⟨z, hz, ?_, ?_⟩
  · let items : List WItem := ((x, w) :: rest).map fun d => ⟨d.1, d.2, rpOf t fuel d.1⟩
    have hitems : mkItems t fuel ((x, w) :: rest) = .ok items := mkItems_ok wf hf _ hn
    have hne : items ≠ [] := by simp [items]
    have hwi : ∀ it ∈ items, 0 < it.w := by
      intro it hit
      obtain ⟨d, hd, rfl⟩ := List.mem_map.1 hit
      exact hw d hd
    have hC : ∀ c, c <+: rpOf t fuel z ↔ ∀ it ∈ items, c <+: it.rp := by
      intro c
      rw [hrp, prefix_foldl_cpre]
      simp only [items, List.map_cons, List.mem_cons, forall_eq_or_imp, List.mem_map, List.map_map]
      constructor
      · rintro ⟨h1, h2⟩
        refine ⟨h1, ?_⟩
        rintro it ⟨d, hd, rfl⟩
        exact h2 _ ⟨d, hd, rfl⟩
      · rintro ⟨h1, h2⟩
        refine ⟨h1, ?_⟩
        rintro l ⟨d, hd, rfl⟩
        exact h2 _ ⟨d, hd, rfl⟩
    obtain ⟨pz, hpz, ipz⟩ := path_total wf hf hnz
    have hlen := (path_ok_isPath _ _ _ hpz).2
    have hrz : rpOf t fuel z = pz.reverse := by simp [rpOf, hpz]
    have hlast : (rpOf t fuel z).getLast? = some z := by
      rw [hrz, List.getLast?_reverse]
      obtain ⟨q, rfl⟩ := ipz.head; rfl
    have := wloop_cp items hne hwi (rpOf t fuel z) hC (firstAnswer items) (rpOf t fuel z).length [] (fuel + 2)
      List.nil_prefix (by simp) (by rw [hrz]; simp; omega)
    simp only [wlcaNodes, hitems]
    rw [hlast] at this
    simpa using this
  · intro a
    rw [cz a]
    simp only [List.mem_cons, forall_eq_or_imp, List.mem_map]
    constructor
    · rintro ⟨h1, h2⟩
      exact ⟨h1, fun d hd => h2 _ ⟨d, hd, rfl⟩⟩
    · rintro ⟨h1, h2⟩
      refine ⟨h1, ?_⟩
      rintro y ⟨d, hd, rfl⟩
      exact h2 d hd

/-! ## `TaxonomicDistribution` -/

theorem setW_mem (x w : Nat) : ∀ (acc : List (Nat × Nat)),
    (∀ y, y ∈ (setW acc x w).map (·.1) ↔ (y ∈ acc.map (·.1) ∨ y = x)) ∧
    ((∀ d ∈ acc, 0 < d.2) → 0 < w → ∀ d ∈ setW acc x w, 0 < d.2) := by
  intro acc
  induction acc with
  | nil =>
    refine ⟨by intro y; simp [setW], ?_⟩
    intro _ hw d hd; simp [setW] at hd; subst hd; exact hw
  | cons a r ih =>
    obtain ⟨xa, va⟩ := a
    by_cases e : xa = x
    · subst e
      refine ⟨?_, ?_⟩
      · intro y
        simp only [setW, if_true, List.map_cons, List.mem_cons]
        constructor
        · exact Or.inl
        · rintro (h | h)
          · exact h
          · exact Or.inl h
      · intro h hw d hd
        simp only [setW, if_true, List.mem_cons] at hd
        rcases hd with rfl | hd
        · exact hw
        · exact h d (List.mem_cons_of_mem _ hd)
    · refine ⟨?_, ?_⟩
      · intro y
        simp only [setW, e, if_false, List.map_cons, List.mem_cons, ih.1 y]
        exact or_assoc.symm
      · intro h hw d hd
        simp only [setW, e, if_false, List.mem_cons] at hd
        rcases hd with rfl | hd
        · exact h _ (by simp)
        · exact ih.2 (fun d hd => h d (List.mem_cons_of_mem _ hd)) hw d hd

theorem addW_mem (x w : Nat) : ∀ (acc : List (Nat × Nat)),
    (∀ y, y ∈ (addW acc x w).map (·.1) ↔ (y ∈ acc.map (·.1) ∨ y = x)) ∧
    ((∀ d ∈ acc, 0 < d.2) → 0 < w → ∀ d ∈ addW acc x w, 0 < d.2) := by
  intro acc
  induction acc with
  | nil =>
    refine ⟨by intro y; simp [addW], ?_⟩
    intro _ hw d hd; simp [addW] at hd; subst hd; exact hw
  | cons a r ih =>
    obtain ⟨xa, va⟩ := a
    by_cases e : xa = x
    · subst e
      refine ⟨?_, ?_⟩
      · intro y
        simp only [addW, if_true, List.map_cons, List.mem_cons]
        constructor
        · exact Or.inl
        · rintro (h | h)
          · exact h
          · exact Or.inl h
      · intro h hw d hd
        simp only [addW, if_true, List.mem_cons] at hd
        rcases hd with rfl | hd
        · show 0 < va + w; omega
        · exact h d (List.mem_cons_of_mem _ hd)
    · refine ⟨?_, ?_⟩
      · intro y
        simp only [addW, e, if_false, List.map_cons, List.mem_cons, ih.1 y]
        exact or_assoc.symm
      · intro h hw d hd
        simp only [addW, e, if_false, List.mem_cons] at hd
        rcases hd with rfl | hd
        · exact h _ (by simp)
        · exact ih.2 (fun d hd => h d (List.mem_cons_of_mem _ hd)) hw d hd

theorem taxDist_ok {t : Taxo} : ∀ (kws acc : List (Nat × Nat)), (∀ kw ∈ kws, (resolve t kw.1).isSome) →
    ∃ dist, taxDist t kws acc = .ok dist ∧
      (∀ y, y ∈ dist.map (·.1) ↔ (y ∈ acc.map (·.1) ∨ ∃ kw ∈ kws, resolve t kw.1 = some y)) ∧
      ((∀ d ∈ acc, 0 < d.2) → (∀ kw ∈ kws, 0 < kw.2) → ∀ d ∈ dist, 0 < d.2) := by
  intro kws
  induction kws with
  | nil => intro acc _; exact ⟨acc, rfl, by simp, fun h _ => h⟩
  | cons kw r ih =>
    intro acc h
    obtain ⟨k, w⟩ := kw
    obtain ⟨x, hx⟩ := Option.isSome_iff_exists.1 (h (k, w) (by simp))
    obtain ⟨dist, h1, h2, h3⟩ := ih (addW acc x w) (fun kw hkw => h kw (List.mem_cons_of_mem _ hkw))
    refine ⟨dist, by simp [taxDist, hx, h1], ?_, ?_⟩
    · intro y
      rw [h2 y, (addW_mem x w acc).1 y]
      simp only [List.mem_cons, exists_eq_or_imp, hx, Option.some.injEq]
      constructor
      · rintro ((h | h) | h)
        · exact Or.inl h
        · exact Or.inr (Or.inl h.symm)
        · exact Or.inr (Or.inr h)
      · rintro (h | h | h)
        · exact Or.inl (Or.inl h)
        · exact Or.inl (Or.inr h.symm)
        · exact Or.inr h
    · intro ha hk
      exact h3 ((addW_mem x w acc).2 ha (hk (k, w) (by simp))) (fun kw hkw => hk kw (List.mem_cons_of_mem _ hkw))

theorem taxDist_unknown {t : Taxo} : ∀ (kws acc : List (Nat × Nat)), (∃ kw ∈ kws, resolve t kw.1 = none) →
    taxDist t kws acc = .error .panic := by
  intro kws
  induction kws with
  | nil => intro acc h; obtain ⟨_, h, _⟩ := h; simp at h
  | cons kw r ih =>
    intro acc h
    obtain ⟨k, w⟩ := kw
    cases hk : resolve t k with
    | none => simp [taxDist, hk]
    | some x =>
      have : ∃ kw ∈ r, resolve t kw.1 = none := by
        obtain ⟨kw, h1, h2⟩ := h
        rcases List.mem_cons.1 h1 with e | e
        · subst e; simp only at h2; rw [hk] at h2; cases h2
        · exact ⟨kw, e, h2⟩
      simp [taxDist, hk, ih _ this]

theorem resolveAll_length {t : Taxo} : ∀ (cs rs : List Nat), resolveAll t cs = .ok rs → rs.length = cs.length := by
  intro cs
  induction cs with
  | nil => intro rs h; simp [resolveAll] at h; subst h; rfl
  | cons c cs ih =>
    intro rs h
    unfold resolveAll at h
    split at h
    · cases h
    · split at h
      · rename_i r hr; cases h; simp [ih _ hr]
      · cases h

/-! ## "every node reaches the root" gives the depth function of `WF` -/

/-- follow `k` parent links -/
def up (t : Taxo) : Nat → Nat → Nat
  | 0, x => x
  | k + 1, x => match t.node x with
    | some n => up t k n.parent
    | none => x

theorem exists_min (P : Nat → Prop) (h : ∃ k, P k) : ∃ k, P k ∧ ∀ j, j < k → ¬ P j := by
  obtain ⟨k, hk⟩ := h
  induction k using Nat.strongRecOn with
  | _ k ih =>
    by_cases hj : ∃ j, j < k ∧ P j
    · obtain ⟨j, hlt, hp⟩ := hj
      exact ih j hlt hp
    · exact ⟨k, hk, fun j hlt hp => hj ⟨j, hlt, hp⟩⟩

/-- a taxonomy with a single self-parent node `root`, closed under parents, in which every node
reaches `root` by parent links, is well formed -/
theorem wf_of_reaches {t : Taxo} {root : Nat}
    (hroot : ∃ n, t.node root = some n ∧ n.parent = root)
    (honly : ∀ x n, t.node x = some n → n.parent = x → x = root)
    (hpar : ∀ x n, t.node x = some n → ∃ m, t.node n.parent = some m)
    (hreach : ∀ x n, t.node x = some n → ∃ k, up t k x = root) :
    ∃ depth, WF t root depth := by
  classical
  let depth : Nat → Nat := fun x =>
    if h : ∃ k, up t k x = root then Classical.choose (exists_min _ h) else 0
  refine ⟨depth, hroot, honly, hpar, ?_⟩
  intro x n hn hne
  have hx := hreach x n hn
  obtain ⟨m, hm⟩ := hpar x n hn
  have hp := hreach n.parent m hm
  have dx : depth x = Classical.choose (exists_min _ hx) := by simp only [depth, hx, dif_pos]
  have dp : depth n.parent = Classical.choose (exists_min _ hp) := by simp only [depth, hp, dif_pos]
  obtain ⟨hx1, _⟩ := Classical.choose_spec (exists_min _ hx)
  obtain ⟨_, hp2⟩ := Classical.choose_spec (exists_min _ hp)
  rw [dx, dp]
  generalize Classical.choose (exists_min _ hx) = kx at hx1
  generalize Classical.choose (exists_min _ hp) = kp at hp2
  cases kx with
  | zero =>
    simp only [up] at hx1
    obtain ⟨n', hn', hr'⟩ := hroot
    subst hx1
    rw [hn] at hn'; cases hn'
    exact absurd hr' hne
  | succ j =>
    simp only [up, hn] at hx1
    apply Classical.byContradiction
    intro hc
    exact hp2 j (by omega) hx1

end ObiVerif.Tax
